(* Proofs about the concrete syntax of the filter language (Log/FilterSyntax.v):
   the parser reads back every rendering (the printed text up to whitespace between
   tokens and redundant parentheses) of every well-formed filter. *)
From Coq Require Import NArith ZArith List Bool Ascii Lia ZifyBool ZifyNat ZifyN.
From HV Require Import Log.Filter Log.FilterSyntax.
Import ListNotations.
Local Open Scope char_scope.
Local Open Scope list_scope.

(* ------------------------------------------------------------------ *)
(* characters *)

Ltac all_chars c := destruct c as [[] [] [] [] [] [] [] []].

Lemma code_chr : forall n, small n = true -> code (chr n) = n.
Proof.
  intros n H. unfold code, chr, small in *. apply N_ascii_embedding. lia.
Qed.

Lemma chr_code : forall c, chr (code c) = c.
Proof. intros c. apply ascii_N_embedding. Qed.

Lemma map_code_chr : forall l, forallb small l = true -> map code (map chr l) = l.
Proof.
  induction l as [|a l IH]; cbn; intros H; [reflexivity|].
  apply andb_true_iff in H as [H1 H2]. now rewrite code_chr, IH.
Qed.

(* the characters that may follow a complete token of a rendering *)
Definition follow_char (c : ascii) : bool :=
  (is_ws c || Ascii.eqb c ")" || Ascii.eqb c "&" || Ascii.eqb c "|" || Ascii.eqb c ",")%bool.

Definition stops (P : ascii -> bool) (x : text) : Prop :=
  match x with [] => True | c :: _ => P c = false end.

Definition fstop (x : text) : Prop :=
  match x with [] => True | c :: _ => follow_char c = true end.

Definition forall_bool (f : bool -> bool) : bool := (f true && f false)%bool.
Definition forall_ascii (P : ascii -> bool) : bool :=
  forall_bool (fun b0 => forall_bool (fun b1 => forall_bool (fun b2 => forall_bool (fun b3 =>
  forall_bool (fun b4 => forall_bool (fun b5 => forall_bool (fun b6 => forall_bool (fun b7 =>
    P (Ascii b0 b1 b2 b3 b4 b5 b6 b7))))))))).

Lemma forall_bool_spec : forall f, forall_bool f = true -> forall b, f b = true.
Proof. intros f H b. unfold forall_bool in H. apply andb_true_iff in H as [H1 H2]. now destruct b. Qed.

Lemma forall_ascii_spec : forall P, forall_ascii P = true -> forall c, P c = true.
Proof.
  intros P H [b0 b1 b2 b3 b4 b5 b6 b7]. unfold forall_ascii in H.
  pose proof (forall_bool_spec _ H b0) as H0. cbv beta in H0.
  pose proof (forall_bool_spec _ H0 b1) as H1. cbv beta in H1.
  pose proof (forall_bool_spec _ H1 b2) as H2. cbv beta in H2.
  pose proof (forall_bool_spec _ H2 b3) as H3. cbv beta in H3.
  pose proof (forall_bool_spec _ H3 b4) as H4. cbv beta in H4.
  pose proof (forall_bool_spec _ H4 b5) as H5. cbv beta in H5.
  pose proof (forall_bool_spec _ H5 b6) as H6. cbv beta in H6.
  exact (forall_bool_spec _ H6 b7).
Qed.

(* A c = true -> B c = false for all 256 characters, by computation *)
Lemma chars_excl : forall A B : ascii -> bool,
  forall_ascii (fun c => implb (A c) (negb (B c))) = true -> forall c, A c = true -> B c = false.
Proof.
  intros A B H c Ha. pose proof (forall_ascii_spec _ H c) as Hc. cbv beta in Hc.
  rewrite Ha in Hc. cbn in Hc. now apply negb_true_iff.
Qed.
Lemma chars_incl : forall A B : ascii -> bool,
  forall_ascii (fun c => implb (A c) (B c)) = true -> forall c, A c = true -> B c = true.
Proof.
  intros A B H c Ha. pose proof (forall_ascii_spec _ H c) as Hc. cbv beta in Hc.
  now rewrite Ha in Hc.
Qed.
Ltac excl A B := exact (chars_excl A B ltac:(vm_compute; reflexivity)).
Ltac incl A B := exact (chars_incl A B ltac:(vm_compute; reflexivity)).

Lemma follow_not_idrest : forall c, follow_char c = true -> is_idrest c = false.
Proof. excl follow_char is_idrest. Qed.
Lemma follow_not_digit : forall c, follow_char c = true -> is_digit c = false.
Proof. excl follow_char is_digit. Qed.
Lemma follow_not_dot : forall c, follow_char c = true -> Ascii.eqb c "." = false.
Proof. excl follow_char (fun c => Ascii.eqb c "."). Qed.
Lemma follow_not_x : forall c, follow_char c = true -> Ascii.eqb c "x" = false.
Proof. excl follow_char (fun c => Ascii.eqb c "x"). Qed.
Lemma ws_follow : forall c, is_ws c = true -> follow_char c = true.
Proof. intros c H. unfold follow_char. now rewrite H. Qed.
Lemma idstart_not_ws : forall c, is_idstart c = true -> is_ws c = false.
Proof. excl is_idstart is_ws. Qed.
Lemma idstart_idrest : forall c, is_idstart c = true -> is_idrest c = true.
Proof. incl is_idstart is_idrest. Qed.
Lemma idrest_not_ws : forall c, is_idrest c = true -> is_ws c = false.
Proof. excl is_idrest is_ws. Qed.
Lemma idrest_not_dot : forall c, is_idrest c = true -> Ascii.eqb "." c = false.
Proof. excl is_idrest (fun c => Ascii.eqb "." c). Qed.
Lemma idrest_not_quote : forall c, is_idrest c = true -> is_quote c = false.
Proof. excl is_idrest is_quote. Qed.
Lemma ws_not_quote : forall c, is_ws c = true -> is_quote c = false.
Proof. excl is_ws is_quote. Qed.
Lemma idstart_not_digit : forall c, is_idstart c = true -> is_digit c = false.
Proof. excl is_idstart is_digit. Qed.
Lemma digit_not_ws : forall c, is_digit c = true -> is_ws c = false.
Proof. excl is_digit is_ws. Qed.
Lemma digit_not_quote : forall c, is_digit c = true -> is_quote c = false.
Proof. excl is_digit is_quote. Qed.
Lemma digit_not_b : forall c, is_digit c = true -> Ascii.eqb c "b" = false.
Proof. excl is_digit (fun c => Ascii.eqb c "b"). Qed.
Lemma digit_not_x : forall c, is_digit c = true -> Ascii.eqb c "x" = false.
Proof. excl is_digit (fun c => Ascii.eqb c "x"). Qed.
Lemma digit_not_dot : forall c, is_digit c = true -> Ascii.eqb c "." = false.
Proof. excl is_digit (fun c => Ascii.eqb c "."). Qed.

Lemma eqb_false_of : forall (P : ascii -> bool) a c, P a = true -> P c = false -> Ascii.eqb a c = false.
Proof.
  intros P a c Ha Hc. destruct (Ascii.eqb_spec a c) as [->|]; [congruence|reflexivity].
Qed.

(* ------------------------------------------------------------------ *)
(* whitespace, prefixes, spans *)

Lemma ws_only_app : forall a b, ws_only a -> ws_only b -> ws_only (a ++ b).
Proof. unfold ws_only. intros a b Ha Hb. now rewrite forallb_app, Ha, Hb. Qed.

Lemma ws_only_nil : ws_only [].
Proof. reflexivity. Qed.

Lemma skip_ws_app : forall w x, ws_only w -> skip_ws (w ++ x) = skip_ws x.
Proof.
  induction w as [|c w IH]; intros x H; [reflexivity|].
  unfold ws_only in H. cbn in H. apply andb_true_iff in H as [H1 H2].
  cbn [app skip_ws]. rewrite H1. now apply IH.
Qed.

Lemma skip_ws_cons : forall c r, is_ws c = false -> skip_ws (c :: r) = c :: r.
Proof. intros c r H. cbn. now rewrite H. Qed.

Lemma skip_ws_head : forall x, match skip_ws x with [] => True | c :: _ => is_ws c = false end.
Proof.
  induction x as [|c x IH]; cbn; [exact I|].
  destruct (is_ws c) eqn:E; [exact IH|exact E].
Qed.

Lemma skip_ws_idem : forall x, skip_ws (skip_ws x) = skip_ws x.
Proof.
  intros x. pose proof (skip_ws_head x) as H. destruct (skip_ws x) as [|c r]; [reflexivity|].
  now apply skip_ws_cons.
Qed.

Lemma prefix_app : forall p x, prefix p (p ++ x) = Some x.
Proof.
  induction p as [|c p IH]; intros x; [reflexivity|].
  cbn. now rewrite Ascii.eqb_refl.
Qed.

Lemma tok_ok : forall c p w x, ws_only w -> is_ws c = false -> tok (c :: p) (w ++ c :: p ++ x) = Some x.
Proof.
  intros c p w x Hw Hc. unfold tok. rewrite skip_ws_app by exact Hw.
  rewrite skip_ws_cons by exact Hc. exact (prefix_app (c :: p) x).
Qed.

Lemma tok_skip : forall p x, tok p (skip_ws x) = tok p x.
Proof. intros. unfold tok. now rewrite skip_ws_idem. Qed.

Lemma span_app : forall P a x, forallb P a = true -> stops P x -> span P (a ++ x) = (a, x).
Proof.
  induction a as [|c a IH]; intros x Ha Hx.
  - cbn. destruct x as [|d x]; [reflexivity|]. cbn in Hx. cbn. now rewrite Hx.
  - cbn in Ha. apply andb_true_iff in Ha as [H1 H2]. cbn. rewrite H1, IH; auto.
Qed.

(* ------------------------------------------------------------------ *)
(* identifiers and dotted selectors *)

Lemma wf_ident_inv : forall i, wf_ident i = true ->
  forallb small i = true /\ exists c r, print_id i = c :: r /\ is_idstart c = true /\ forallb is_idrest r = true.
Proof.
  intros i H. unfold wf_ident in H. apply andb_true_iff in H as [H1 H2]. split; [exact H1|].
  unfold print_id. destruct (map chr i) as [|c r]; [discriminate|].
  apply andb_true_iff in H2 as [H2 H3]. eauto.
Qed.

Lemma identifier_ok : forall i w x, wf_ident i = true -> ws_only w -> stops is_idrest x ->
  identifier (w ++ print_id i ++ x) = Some (i, x).
Proof.
  intros i w x Hi Hw Hx. destruct (wf_ident_inv i Hi) as (Hs & c & r & E & Hc & Hr).
  unfold identifier. rewrite skip_ws_app by exact Hw. rewrite E. cbn [app].
  rewrite skip_ws_cons by (now apply idstart_not_ws). rewrite Hc.
  rewrite span_app by assumption. rewrite <- E. unfold print_id. now rewrite map_code_chr.
Qed.

Lemma identifier_none : forall w c x, ws_only w -> is_ws c = false -> is_idstart c = false ->
  identifier (w ++ c :: x) = None.
Proof.
  intros w c x Hw H1 H2. unfold identifier. rewrite skip_ws_app by exact Hw.
  rewrite skip_ws_cons by exact H1. now rewrite H2.
Qed.

Lemma print_id_stops : forall i x, wf_ident i = true -> exists c r, print_id i ++ x = c :: r /\ is_idstart c = true.
Proof.
  intros i x Hi. destruct (wf_ident_inv i Hi) as (_ & c & r & E & Hc & _).
  exists c, (r ++ x). now rewrite E.
Qed.

Lemma stops_ws_dot : forall w x, ws_only w -> stops is_idrest (w ++ "." :: x).
Proof.
  intros [|c w] x H; cbn; [reflexivity|].
  unfold ws_only in H. cbn in H. apply andb_true_iff in H as [H _].
  destruct (is_idrest c) eqn:E; [|reflexivity]. apply idrest_not_ws in E. congruence.
Qed.

Lemma r_dots_stops : forall l t x, r_dots l t -> stops is_idrest x -> stops is_idrest (t ++ x).
Proof.
  intros l t x H Hx. destruct H as [|i l t w1 w2 H1 H2 H]; [exact Hx|].
  rewrite <- app_assoc. cbn [app]. now apply stops_ws_dot.
Qed.

Lemma r_dots_len : forall l t, r_dots l t -> length l <= length t.
Proof.
  induction 1 as [|i l t w1 w2 H1 H2 H IH]; [cbn; lia|].
  rewrite app_length. cbn [length]. rewrite !app_length. cbn [length]. lia.
Qed.

(* what may follow a selector: no identifier character, and after whitespace no dot *)
Definition sel_stop (x : text) : Prop := stops is_idrest x /\ tok ["."] x = None.

Lemma dotted_ok : forall l t, r_dots l t -> forallb wf_ident l = true ->
  forall n x, length l <= n -> sel_stop x -> dotted n (t ++ x) = (l, x).
Proof.
  induction 1 as [|i l t w1 w2 H1 H2 H IH]; intros Hl n x Hn [Hx1 Hx2].
  - cbn [app]. destruct n; cbn [dotted]; [reflexivity|]. now rewrite Hx2.
  - cbn in Hl. apply andb_true_iff in Hl as [Hi Hl].
    destruct n as [|n]; [cbn in Hn; lia|]. cbn [dotted].
    rewrite <- app_assoc. cbn [app].
    replace (w1 ++ "." :: (w2 ++ print_id i ++ t) ++ x) with (w1 ++ "." :: [] ++ ((w2 ++ print_id i ++ t) ++ x)) by reflexivity.
    rewrite tok_ok by (auto; reflexivity).
    rewrite <- !app_assoc.
    rewrite identifier_ok; auto.
    + rewrite IH; auto. cbn in Hn. lia. split; assumption.
    + eapply r_dots_stops; eauto.
Qed.

Lemma field_specifier_ok : forall s0 rest t w x, r_dots rest t ->
  wf_ident s0 = true -> forallb wf_ident rest = true -> ws_only w -> sel_stop x ->
  field_specifier (w ++ print_id s0 ++ t ++ x) = Some (s0, rest, x).
Proof.
  intros s0 rest t w x Hd H0 Hr Hw Hx. unfold field_specifier.
  rewrite identifier_ok; auto.
  - rewrite (dotted_ok rest t Hd Hr); auto.
    rewrite app_length. pose proof (r_dots_len _ _ Hd). lia.
  - eapply r_dots_stops; eauto. apply Hx.
Qed.

Lemma field_specifier_none : forall w c x, ws_only w -> is_ws c = false -> is_idstart c = false ->
  field_specifier (w ++ c :: x) = None.
Proof. intros. unfold field_specifier. now rewrite identifier_none. Qed.

(* ------------------------------------------------------------------ *)
(* operators and connectives *)

Definition not_eq_head (x : text) : Prop :=
  match x with [] => True | c :: _ => Ascii.eqb "=" c = false end.

Lemma operator_ok : forall o w x, ws_only w -> not_eq_head x ->
  operator (w ++ print_op o ++ x) = Some (o, x).
Proof.
  intros o w x Hw Hx. unfold operator. rewrite skip_ws_app by exact Hw.
  destruct o; cbn; try reflexivity.
  - destruct x as [|c x]; [reflexivity|]. cbn in Hx. now rewrite Hx.
  - destruct x as [|c x]; [reflexivity|]. cbn in Hx. now rewrite Hx.
Qed.

Lemma connective_and : forall w x, ws_only w -> connective (w ++ "&" :: "&" :: x) = Some (true, x).
Proof. intros w x Hw. unfold connective. now rewrite skip_ws_app. Qed.

Lemma connective_or : forall w x, ws_only w -> connective (w ++ "|" :: "|" :: x) = Some (false, x).
Proof. intros w x Hw. unfold connective. now rewrite skip_ws_app. Qed.

(* what may follow a term / an expression of a rendering *)
Definition ft (x : text) : Prop :=
  skip_ws x = [] \/ (exists z, skip_ws x = ")" :: z) \/
  (exists z, skip_ws x = "&" :: "&" :: z) \/ (exists z, skip_ws x = "|" :: "|" :: z).
Definition fe (x : text) : Prop := skip_ws x = [] \/ (exists z, skip_ws x = ")" :: z).

Lemma fe_ft : forall x, fe x -> ft x.
Proof. intros x [H|H]; [left|right; left]; exact H. Qed.

Lemma ft_fstop : forall x, ft x -> fstop x.
Proof.
  intros [|c x] H; [exact I|]. cbn. destruct (is_ws c) eqn:E; [now apply ws_follow|].
  unfold ft in H. rewrite skip_ws_cons in H by exact E.
  destruct H as [H|[[z H]|[[z H]|[z H]]]]; inversion H; reflexivity.
Qed.

Lemma fstop_idrest : forall x, fstop x -> stops is_idrest x.
Proof. intros [|c x] H; [exact I|]. cbn in *. now apply follow_not_idrest. Qed.

Lemma ft_sel_stop : forall x, ft x -> sel_stop x.
Proof.
  intros x H. split; [now apply fstop_idrest, ft_fstop|].
  unfold tok. destruct H as [H|[[z H]|[[z H]|[z H]]]]; rewrite H; reflexivity.
Qed.

Lemma ft_ws : forall w x, ws_only w -> ft x -> ft (w ++ x).
Proof. intros w x Hw H. unfold ft in *. now rewrite skip_ws_app. Qed.

Lemma connective_none : forall x, fe x -> connective x = None.
Proof. intros x [H|[z H]]; unfold connective; rewrite H; reflexivity. Qed.

(* ------------------------------------------------------------------ *)
(* decimal numbers *)

Lemma digit_cases : forall d : N, (d < 10)%N ->
  d = 0%N \/ d = 1%N \/ d = 2%N \/ d = 3%N \/ d = 4%N \/ d = 5%N \/ d = 6%N \/ d = 7%N \/ d = 8%N \/ d = 9%N.
Proof. intros d H. lia. Qed.

Lemma digit_is_digit : forall d, (d < 10)%N -> is_digit (digit d) = true.
Proof. intros d H. destruct (digit_cases d H) as [->|[->|[->|[->|[->|[->|[->|[->|[->| ->]]]]]]]]]; reflexivity. Qed.

Lemma dig_digit : forall d, (d < 10)%N -> dig (digit d) = d.
Proof. intros d H. destruct (digit_cases d H) as [->|[->|[->|[->|[->|[->|[->|[->|[->| ->]]]]]]]]]; reflexivity. Qed.

Lemma digit_nonzero : forall d, (0 < d < 10)%N -> Ascii.eqb (digit d) "0" = false.
Proof.
  intros d [H0 H]. destruct (digit_cases d H) as [->|[->|[->|[->|[->|[->|[->|[->|[->| ->]]]]]]]]]; try reflexivity. lia.
Qed.

Lemma dval_snoc : forall l c, dval (l ++ [c]) = (10 * dval l + dig c)%N.
Proof. intros l c. unfold dval. now rewrite fold_left_app. Qed.

Lemma pN_acc : forall f n acc, pN f n acc = pN f n [] ++ acc.
Proof.
  induction f as [|f IH]; intros n acc; [reflexivity|].
  cbn [pN]. destruct (n <? 10)%N; [reflexivity|].
  rewrite (IH _ (digit (n mod 10) :: acc)), (IH _ [digit (n mod 10)]).
  now rewrite <- app_assoc.
Qed.

Lemma pN_S : forall f n, pN (S f) n [] =
  if (n <? 10)%N then [digit (n mod 10)] else pN f (n / 10) [] ++ [digit (n mod 10)].
Proof. intros f n. cbn [pN]. destruct (n <? 10)%N; [reflexivity|]. apply pN_acc. Qed.

Lemma pN_digits : forall f n, forallb is_digit (pN f n []) = true.
Proof.
  induction f as [|f IH]; intros n; [reflexivity|]. rewrite pN_S.
  assert (Hd : is_digit (digit (n mod 10)) = true) by (apply digit_is_digit; apply N.mod_lt; lia).
  destruct (n <? 10)%N; cbn; [now rewrite Hd|].
  rewrite forallb_app, IH. cbn. now rewrite Hd.
Qed.

Lemma pN_val : forall f n, (n < 2 ^ N.of_nat f)%N -> dval (pN f n []) = n.
Proof.
  induction f as [|f IH]; intros n H.
  - cbn in H. assert (n = 0%N) by lia. subst. reflexivity.
  - rewrite pN_S. destruct (n <? 10)%N eqn:E.
    + apply N.ltb_lt in E. cbn. rewrite dig_digit by (apply N.mod_lt; lia).
      rewrite N.mod_small by exact E. reflexivity.
    + apply N.ltb_ge in E.
      assert (Hb : (n / 10 < 2 ^ N.of_nat f)%N).
      { rewrite Nat2N.inj_succ, N.pow_succ_r' in H.
        assert (n / 10 <= n / 2)%N by (apply N.div_le_compat_l; lia).
        assert (n / 2 < 2 ^ N.of_nat f)%N by (apply N.div_lt_upper_bound; lia). lia. }
      rewrite dval_snoc, IH by exact Hb. rewrite dig_digit by (apply N.mod_lt; lia).
      pose proof (N.div_mod n 10). lia.
Qed.

Lemma pN_head : forall f n, (0 < n)%N -> (n < 2 ^ N.of_nat f)%N ->
  exists c r, pN f n [] = c :: r /\ Ascii.eqb c "0" = false.
Proof.
  induction f as [|f IH]; intros n H0 H.
  - cbn in H. lia.
  - rewrite pN_S. destruct (n <? 10)%N eqn:E.
    + apply N.ltb_lt in E. exists (digit (n mod 10)), []. split; [reflexivity|].
      apply digit_nonzero. rewrite N.mod_small by exact E. lia.
    + apply N.ltb_ge in E.
      destruct (IH (n / 10)%N) as (c & r & E1 & E2).
      * assert (1 <= n / 10)%N by (apply N.div_le_lower_bound; lia). lia.
      * rewrite Nat2N.inj_succ, N.pow_succ_r' in H.
        assert (n / 10 <= n / 2)%N by (apply N.div_le_compat_l; lia).
        assert (n / 2 < 2 ^ N.of_nat f)%N by (apply N.div_lt_upper_bound; lia). lia.
      * rewrite E1. exists c, (r ++ [digit (n mod 10)]). split; [reflexivity|exact E2].
Qed.

Lemma print_N_fuel : forall n, (n < 2 ^ N.of_nat (S (N.to_nat (N.log2 n))))%N.
Proof.
  intros n. rewrite Nat2N.inj_succ, N2Nat.id.
  destruct n as [|p]; [cbn; lia|]. apply N.log2_spec. lia.
Qed.

Lemma print_N_digits : forall n, forallb is_digit (print_N n) = true.
Proof. intros. apply pN_digits. Qed.

Lemma print_N_val : forall n, dval (print_N n) = n.
Proof. intros. apply pN_val, print_N_fuel. Qed.

Lemma print_N_cons : forall n, exists c r, print_N n = c :: r /\ is_digit c = true.
Proof.
  intros n. pose proof (print_N_digits n) as H. unfold print_N in *. rewrite pN_S in *.
  destruct (n <? 10)%N.
  - eexists _, _. split; [reflexivity|]. cbn in H. now apply andb_true_iff in H as [H _].
  - destruct (pN _ _ []) as [|c r] eqn:E; cbn in *.
    + eexists _, _. split; [reflexivity|]. now apply andb_true_iff in H as [H _].
    + eexists _, _. split; [reflexivity|]. now apply andb_true_iff in H as [H _].
Qed.

Lemma eval_dec_int : forall n, eval_dec (print_N n) None = Some (mkNum KI (Z.of_N n) 1).
Proof.
  intros n. unfold eval_dec. rewrite print_N_val.
  destruct (N.eq_dec n 0) as [->|Hn]; [reflexivity|].
  destruct (pN_head _ n ltac:(lia) (print_N_fuel n)) as (c & r & E1 & E2).
  unfold print_N. rewrite E1. destruct r; [reflexivity|]. now rewrite E2.
Qed.

Definition num_stop (x : text) : Prop :=
  match x with [] => True | c :: _ => is_digit c = false /\ Ascii.eqb c "." = false end.

Lemma fstop_num_stop : forall x, fstop x -> num_stop x.
Proof. intros [|c x] H; [exact I|]. cbn in *. split; [now apply follow_not_digit|now apply follow_not_dot]. Qed.

Lemma lex_dec_int : forall ds x, forallb is_digit ds = true -> ds <> [] -> num_stop x ->
  lex_dec (ds ++ x) = Some (ds, None, x).
Proof.
  intros ds x Hd Hn Hx. unfold lex_dec. rewrite span_app; auto.
  - destruct ds; [congruence|]. destruct x as [|c x]; [reflexivity|]. cbn in Hx. destruct Hx as [_ Hx]. now rewrite Hx.
  - destruct x; cbn in *; tauto.
Qed.

Lemma lex_dec_frac : forall ds fs x, forallb is_digit ds = true -> ds <> [] ->
  forallb is_digit fs = true -> fs <> [] -> stops is_digit x ->
  lex_dec (ds ++ "." :: fs ++ x) = Some (ds, Some fs, x).
Proof.
  intros ds fs x Hd Hn Hf Hfn Hx. unfold lex_dec. rewrite span_app; auto; [|reflexivity].
  destruct ds; [congruence|]. cbn [Ascii.eqb Bool.eqb]. cbn. rewrite span_app; auto.
  destruct fs; [congruence|reflexivity].
Qed.

Lemma fixd_digits : forall j v, forallb is_digit (fixd j v) = true.
Proof.
  induction j as [|j IH]; intros v; [reflexivity|]. cbn [fixd].
  rewrite forallb_app, IH. cbn. rewrite digit_is_digit; [reflexivity|]. apply N.mod_lt. lia.
Qed.

Lemma fixd_length : forall j v, length (fixd j v) = j.
Proof.
  induction j as [|j IH]; intros v; [reflexivity|]. cbn [fixd]. rewrite app_length, IH. cbn. lia.
Qed.

Lemma num_same_eq : forall x y, num_same x y = true -> x = y.
Proof.
  intros [k1 n1 d1] [k2 n2 d2] H. unfold num_same in H. cbn in H.
  apply andb_true_iff in H as [H H3]. apply andb_true_iff in H as [H1 H2].
  apply Z.eqb_eq in H2. apply Pos.eqb_eq in H3. subst.
  destruct k1, k2; try discriminate; reflexivity.
Qed.

Lemma find_frac_spec : forall fuel j x ds fs, 1 <= j -> find_frac fuel j x = Some (ds, fs) ->
  forallb is_digit ds = true /\ ds <> [] /\ forallb is_digit fs = true /\ fs <> [] /\
  eval_dec ds (Some fs) = Some x.
Proof.
  induction fuel as [|fuel IH]; intros j x ds fs Hj H; [discriminate|].
  cbn [find_frac] in H.
  set (n := round_div _ _) in H.
  destruct (eval_dec (print_N (n / N.pos (pow10 j))) (Some (fixd j (n mod N.pos (pow10 j))))) as [y|] eqn:E.
  - destruct (num_same x y) eqn:Es.
    + inversion H; subst ds fs. apply num_same_eq in Es. subst y.
      repeat split.
      * apply print_N_digits.
      * destruct (print_N_cons (n / N.pos (pow10 j))) as (c & r & -> & _). discriminate.
      * apply fixd_digits.
      * intros Hnil. apply (f_equal (@length _)) in Hnil. rewrite fixd_length in Hnil. cbn in Hnil. lia.
      * exact E.
    + apply (IH (S j)); [lia|exact H].
  - apply (IH (S j)); [lia|exact H].
Qed.

(* conversion must unfold float_digits to find_frac and stop there *)
Local Strategy 1000 [find_frac].

Lemma float_digits_spec : forall x ds fs, float_digits x = Some (ds, fs) ->
  forallb is_digit ds = true /\ ds <> [] /\ forallb is_digit fs = true /\ fs <> [] /\
  eval_dec ds (Some fs) = Some x.
Proof. intros x ds fs H. unfold float_digits in H. apply find_frac_spec in H; [exact H|lia]. Qed.

Opaque float_digits print_N.

(* the numbers that can be elements of a literal: non-negative ints and printable floats *)
Definition wf_elem (x : num) : bool := (wf_int x || wf_float x)%bool.

Lemma wf_int_inv : forall x, wf_int x = true -> x = mkNum KI (Z.of_N (Z.to_N (nnum x))) 1 /\ nkind x = KI.
Proof.
  intros [k n d] H. unfold wf_int in H. cbn [nkind nnum nden] in *.
  apply andb_true_iff in H as [H H3]. apply andb_true_iff in H as [H1 H2].
  apply Pos.eqb_eq in H3. apply Z.leb_le in H2. subst d. rewrite Z2N.id by exact H2.
  destruct k; try discriminate. split; reflexivity.
Qed.

Lemma print_num_elem : forall x, wf_elem x = true ->
  exists c r, print_num x = c :: r /\ is_digit c = true.
Proof.
  intros x H. unfold wf_elem in H. apply orb_true_iff in H as [H|H].
  - destruct (wf_int_inv x H) as [_ Hk]. unfold print_num. rewrite Hk. apply print_N_cons.
  - unfold wf_float in H. apply andb_true_iff in H as [Hk H].
    unfold print_num. destruct (nkind x); [discriminate Hk|discriminate Hk|].
    destruct (float_digits x) as [[ds fs]|] eqn:E; [|discriminate H].
    apply float_digits_spec in E as (H1 & H2 & _).
    destruct ds as [|c ds]; [congruence|]. cbn in H1. apply andb_true_iff in H1 as [H1 _].
    exists c, (ds ++ "." :: fs). split; [reflexivity|exact H1].
Qed.

Lemma number_ok : forall x y, wf_elem x = true -> fstop y -> number (print_num x ++ y) = Some (x, y).
Proof.
  intros x y H Hy. unfold wf_elem in H. apply orb_true_iff in H as [H|H].
  - destruct (wf_int_inv x H) as [Ex Hk]. unfold print_num. rewrite Hk. unfold number.
    destruct (print_N_cons (Z.to_N (nnum x))) as (c & r & Ec & _).
    rewrite lex_dec_int.
    + rewrite eval_dec_int. now rewrite <- Ex.
    + apply print_N_digits.
    + rewrite Ec. discriminate.
    + now apply fstop_num_stop.
  - unfold wf_float in H. apply andb_true_iff in H as [Hk H].
    unfold print_num. destruct (nkind x); [discriminate Hk|discriminate Hk|].
    destruct (float_digits x) as [[ds fs]|] eqn:E; [|discriminate H].
    apply float_digits_spec in E as (H1 & H2 & H3 & H4 & H5).
    unfold number. rewrite <- app_assoc. cbn [app]. rewrite lex_dec_frac; auto.
    + change (match eval_dec ds (Some fs) with Some x0 => Some (x0, y) | None => None end = Some (x, y)).
      now rewrite H5.
    + destruct y as [|c y]; [exact I|]. cbn in *. now apply follow_not_digit.
Qed.

(* ------------------------------------------------------------------ *)
(* str / bytes literals *)

Lemma sbody_eq : forall bm q c r, sbody bm q (c :: r) =

      if Ascii.eqb c q then Some ([], r)
      else if (N.eqb (code c) 10 || N.eqb (code c) 13)%bool then None
      else if N.eqb (code c) 92 then
        match r with
        | [] => None
        | e :: r1 =>
            match simple_escape e with
            | Some v => cons1 v (sbody bm q r1)
            | None =>
                if is_octal e then
                  match r1 with
                  | e2 :: r2 =>
                      if is_octal e2 then
                        match r2 with
                        | e3 :: r3 =>
                            if is_octal e3
                            then cons1 (octv bm (64 * dig e + 8 * dig e2 + dig e3)) (sbody bm q r3)
                            else cons1 (8 * dig e + dig e2)%N (sbody bm q r2)
                        | [] => None
                        end
                      else cons1 (dig e) (sbody bm q r1)
                  | [] => None
                  end
                else if Ascii.eqb e "x" then
                  match r1 with
                  | h1 :: h2 :: r3 =>
                      if (is_hex h1 && is_hex h2)%bool
                      then cons1 (16 * hexdig h1 + hexdig h2)%N (sbody bm q r3)
                      else None
                  | _ => None
                  end
                else if (negb bm && Ascii.eqb e "N")%bool then None
                else if (negb bm && Ascii.eqb e "u")%bool then
                  match r1 with
                  | h1 :: h2 :: h3 :: h4 :: r5 =>
                      if forallb is_hex [h1; h2; h3; h4]
                      then cons1 (hval [h1; h2; h3; h4]) (sbody bm q r5)
                      else None
                  | _ => None
                  end
                else if (negb bm && Ascii.eqb e "U")%bool then
                  match r1 with
                  | h1 :: h2 :: h3 :: h4 :: h5 :: h6 :: h7 :: h8 :: r9 =>
                      if (forallb is_hex [h1; h2; h3; h4; h5; h6; h7; h8]
                          && N.leb (hval [h1; h2; h3; h4; h5; h6; h7; h8]) 1114111)%bool
                      then cons1 (hval [h1; h2; h3; h4; h5; h6; h7; h8]) (sbody bm q r9)
                      else None
                  | _ => None
                  end
                else if (N.eqb (code e) 10 || N.eqb (code e) 13)%bool then None
                else if (bm && N.leb 128 (code e))%bool then None
                else cons2 92 (code e) (sbody bm q r1)   
            end
        end
      else if (bm && N.leb 128 (code c))%bool then None   
      else cons1 (code c) (sbody bm q r).
Proof. reflexivity. Qed.

Lemma sbody_esc_char : forall bm q a tl, (q = chr 34 \/ q = chr 39) ->
  sbody bm q (esc_char bm q a ++ tl) = cons1 (code a) (sbody bm q tl).
Proof.
  intros bm q a tl [-> | ->]; destruct bm; all_chars a;
    match goal with |- sbody ?b ?q (?e ++ _) = _ =>
      let e' := eval vm_compute in e in change e with e' end;
    cbn [app]; rewrite sbody_eq;
    match goal with |- context [sbody ?b ?q] => set (R := sbody b q); clearbody R end;
    vm_compute; reflexivity.
Qed.

Lemma sbody_ok : forall bm q s x, (q = chr 34 \/ q = chr 39) -> forallb small s = true ->
  sbody bm q (flat_map (fun c => esc_char bm q (chr c)) s ++ q :: x) = Some (s, x).
Proof.
  intros bm q s x Hq. induction s as [|c s IH]; intros Hs.
  - cbn [flat_map app sbody]. now rewrite Ascii.eqb_refl.
  - cbn in Hs. apply andb_true_iff in Hs as [Hc Hs].
    cbn [flat_map]. rewrite <- app_assoc, sbody_esc_char by exact Hq.
    rewrite IH by exact Hs. cbn. now rewrite code_chr.
Qed.

Lemma pick_quote_cases : forall s, pick_quote s = chr 34 \/ pick_quote s = chr 39.
Proof. intros s. unfold pick_quote. destruct (_ && _)%bool; [left|right]; reflexivity. Qed.

Lemma lit_string_str : forall s x, forallb small s = true ->
  lit_string (print_quoted false s ++ x) = Some (PStr s, x).
Proof.
  intros s x Hs. unfold print_quoted.
  destruct (pick_quote_cases s) as [E|E]; rewrite E; cbn [app]; rewrite <- app_assoc; cbn [app];
    unfold lit_string; cbn [is_quote code chr ascii_of_N ascii_of_pos N_of_ascii N_of_digits N.eqb Pos.eqb orb N.add N.mul];
    (rewrite sbody_ok; [reflexivity|auto|exact Hs]).
Qed.

Lemma lit_string_bytes : forall s x, forallb small s = true ->
  lit_string ("b" :: print_quoted true s ++ x) = Some (PBytes None s, x).
Proof.
  intros s x Hs. unfold print_quoted.
  destruct (pick_quote_cases s) as [E|E]; rewrite E; cbn [app]; rewrite <- app_assoc; cbn [app];
    unfold lit_string; cbn [is_quote code chr ascii_of_N ascii_of_pos N_of_ascii N_of_digits N.eqb Pos.eqb orb N.add N.mul Ascii.eqb Bool.eqb andb];
    (rewrite sbody_ok; [reflexivity|auto|exact Hs]).
Qed.

(* ------------------------------------------------------------------ *)
(* literals *)

Lemma number_head : forall s v y, number s = Some (v, y) -> exists c r, s = c :: r /\ is_digit c = true.
Proof.
  intros s v y H. unfold number, lex_dec in H. destruct s as [|c r]; [discriminate|].
  cbn [span] in H. destruct (is_digit c) eqn:E; [eauto|discriminate].
Qed.

Lemma number_not_hex : forall s v y, number s = Some (v, y) -> fstop y -> lit_hex s = None.
Proof.
  intros s v y H Hy. unfold lit_hex. destruct s as [|z r0]; [reflexivity|].
  destruct (Ascii.eqb_spec z "0") as [->|]; [|reflexivity].
  destruct r0 as [|c r]; [reflexivity|].
  destruct (Ascii.eqb_spec c "x") as [->|]; [|reflexivity].
  cbn in H. inversion H; subst. cbn in Hy. discriminate.
Qed.

Lemma number_not_string : forall s v y, number s = Some (v, y) -> lit_string s = None.
Proof.
  intros s v y H. destruct (number_head _ _ _ H) as (c & r & -> & Hc).
  unfold lit_string. now rewrite digit_not_quote, digit_not_b.
Qed.

Lemma literal_num : forall a w y, wf_elem a = true -> ws_only w -> fstop y ->
  literal (w ++ print_num a ++ y) = Some (PNum a, y).
Proof.
  intros a w y Ha Hw Hy. unfold literal. rewrite skip_ws_app by exact Hw.
  pose proof (number_ok a y Ha Hy) as Hn.
  destruct (print_num_elem a Ha) as (c & r & E & Hc).
  assert (Es : skip_ws (print_num a ++ y) = print_num a ++ y).
  { rewrite E. cbn [app]. apply skip_ws_cons. now apply digit_not_ws. }
  rewrite Es. rewrite (number_not_string _ _ _ Hn), (number_not_hex _ _ _ Hn Hy).
  unfold lit_dec. now rewrite Hn.
Qed.

Lemma vec_nums_step : forall k a w y, wf_elem a = true -> ws_only w -> fstop y ->
  vec_nums (S k) (w ++ print_num a ++ y) =
  match skip_ws y with
  | c :: r =>
      match k with
      | O => if Ascii.eqb c ")" then Some ([a], r) else None
      | S _ => if Ascii.eqb c "," then
                 match vec_nums k r with Some (l, r') => Some (a :: l, r') | None => None end
               else None
      end
  | [] => None
  end.
Proof.
  intros k a w y Ha Hw Hy. cbn [vec_nums]. rewrite skip_ws_app by exact Hw.
  destruct (print_num_elem a Ha) as (c & r & E & Hc).
  assert (Es : skip_ws (print_num a ++ y) = print_num a ++ y).
  { rewrite E. cbn [app]. apply skip_ws_cons. now apply digit_not_ws. }
  rewrite Es, (number_ok a y Ha Hy). reflexivity.
Qed.

Definition tup_text (l : list num) : text := sep_by [","; " "] (map print_num l).

Lemma vec_nums_ok : forall l w x, l <> [] -> forallb wf_elem l = true -> ws_only w ->
  vec_nums (length l) (w ++ tup_text l ++ ")" :: x) = Some (l, x).
Proof.
  induction l as [|a l IH]; intros w x Hn Hl Hw; [congruence|].
  cbn in Hl. apply andb_true_iff in Hl as [Ha Hl].
  destruct l as [|b l].
  - unfold tup_text. cbn [map sep_by length]. rewrite vec_nums_step; auto; reflexivity.
  - pose proof (IH [" "] x ltac:(discriminate) Hl eq_refl) as E. cbn [app] in E.
    unfold tup_text in *.
    change (sep_by [","; " "] (map print_num (a :: b :: l)))
      with (print_num a ++ [","; " "] ++ sep_by [","; " "] (map print_num (b :: l))).
    set (T := sep_by [","; " "] (map print_num (b :: l))) in *.
    cbn [length] in *. rewrite <- !app_assoc. cbn [app].
    rewrite vec_nums_step; auto; [|reflexivity].
    rewrite skip_ws_cons by reflexivity. rewrite Ascii.eqb_refl. now rewrite E.
Qed.

Lemma vec3_of_4 : forall a b c d x, forallb wf_elem [a; b; c; d] = true ->
  vec_nums 3 (tup_text [a; b; c; d] ++ ")" :: x) = None.
Proof.
  intros a b c d x H. cbn in H.
  apply andb_true_iff in H as [Ha H]. apply andb_true_iff in H as [Hb H]. apply andb_true_iff in H as [Hc _].
  unfold tup_text.
  change (sep_by [","; " "] (map print_num [a; b; c; d]))
    with (print_num a ++ [","; " "] ++ print_num b ++ [","; " "] ++ print_num c ++ [","; " "] ++ print_num d).
  rewrite <- !app_assoc. cbn [app].
  change (vec_nums 3 (print_num a ++ ?z)) with (vec_nums 3 ([] ++ print_num a ++ z)).
  rewrite (vec_nums_step 2 a []) by (try assumption; reflexivity).
  rewrite skip_ws_cons by reflexivity. rewrite Ascii.eqb_refl.
  change (vec_nums 2 (" " :: print_num b ++ ?z)) with (vec_nums 2 ([" "] ++ print_num b ++ z)).
  rewrite (vec_nums_step 1 b [" "]) by (try assumption; reflexivity).
  rewrite skip_ws_cons by reflexivity. rewrite Ascii.eqb_refl.
  change (vec_nums 1 (" " :: print_num c ++ ?z)) with (vec_nums 1 ([" "] ++ print_num c ++ z)).
  rewrite (vec_nums_step 0 c [" "]) by (try assumption; reflexivity).
  rewrite skip_ws_cons by reflexivity. reflexivity.
Qed.

Lemma wf_bool_inv : forall x, wf_bool x = true -> x = mkNum KB 0 1 \/ x = mkNum KB 1 1.
Proof.
  intros [k n d] H. unfold wf_bool in H. cbn [nkind nnum nden] in H.
  apply andb_true_iff in H as [H H3]. apply andb_true_iff in H as [H1 H2].
  apply Pos.eqb_eq in H3. subst d. destruct k; try discriminate.
  apply orb_true_iff in H2 as [H2|H2]; apply Z.eqb_eq in H2; subst; auto.
Qed.

Lemma tup_text_head : forall l, l <> [] -> forallb wf_elem l = true ->
  exists c r, tup_text l = c :: r /\ is_digit c = true.
Proof.
  intros [|a l] Hn Hl; [congruence|]. cbn in Hl. apply andb_true_iff in Hl as [Ha _].
  destruct (print_num_elem a Ha) as (c & r & E & Hc). unfold tup_text. cbn [map sep_by].
  destruct (map print_num l); rewrite E; cbn [app]; eauto.
Qed.

Lemma literal_ok : forall v w x, wf_lit v = true -> ws_only w -> fstop x ->
  literal (w ++ print_pv v ++ x) = Some (v, x).
Proof.
  intros v w x Hv Hw Hx. destruct v as [|a|s|[j|] b|l| |]; try discriminate Hv; cbn [wf_lit print_pv] in *.
  - unfold literal. rewrite skip_ws_app by exact Hw. reflexivity.
  - apply orb_true_iff in Hv as [Hv|Hv]; [apply orb_true_iff in Hv as [Hv|Hv]|].
    + unfold literal. rewrite skip_ws_app by exact Hw.
      destruct (wf_bool_inv a Hv) as [-> | ->]; reflexivity.
    + apply literal_num; auto. unfold wf_elem. now rewrite Hv.
    + apply literal_num; auto. unfold wf_elem. rewrite Hv. now rewrite orb_true_r.
  - unfold literal. rewrite skip_ws_app by exact Hw.
    assert (Es : skip_ws (print_quoted false s ++ x) = print_quoted false s ++ x).
    { unfold print_quoted. destruct (pick_quote_cases s) as [E|E]; rewrite E; reflexivity. }
    rewrite Es, lit_string_str by exact Hv. reflexivity.
  - unfold literal. rewrite skip_ws_app by exact Hw. cbn [app].
    rewrite skip_ws_cons by reflexivity. rewrite lit_string_bytes by exact Hv. reflexivity.
  - unfold literal. rewrite skip_ws_app by exact Hw. cbn [app].
    rewrite skip_ws_cons by reflexivity.
    apply andb_true_iff in Hv as [Hlen Hl].
    assert (Hl' : forallb wf_elem l = true) by exact Hl.
    change (sep_by [","; " "] (map print_num l)) with (tup_text l). rewrite <- app_assoc. cbn [app].
    assert (Hne : l <> []) by (intros ->; discriminate Hlen).
    destruct (tup_text_head l Hne Hl') as (c & r & E & Hc).
    set (body := tup_text l ++ ")" :: x).
    assert (Hs : lit_string ("(" :: body) = None) by reflexivity.
    assert (Hh : lit_hex ("(" :: body) = None) by reflexivity.
    assert (Hd : lit_dec ("(" :: body) = None) by reflexivity.
    rewrite Hs, Hh, Hd.
    change (kw kw_None PNone ("(" :: body)) with (@None (pv * text)).
    change (kw kw_True (bool_ true) ("(" :: body)) with (@None (pv * text)).
    change (kw kw_False (bool_ false) ("(" :: body)) with (@None (pv * text)).
    unfold lit_vec. cbn [Ascii.eqb Bool.eqb]. cbn match. unfold body.
    apply orb_true_iff in Hlen as [Hlen|Hlen]; apply Nat.eqb_eq in Hlen.
    + pose proof (vec_nums_ok l [] x Hne Hl' eq_refl) as V. cbn [app] in V. rewrite Hlen in V.
      rewrite V. reflexivity.
    + destruct l as [|a1 [|a2 [|a3 [|a4 [|a5 l]]]]]; try discriminate Hlen.
      pose proof (vec_nums_ok [a1; a2; a3; a4] [] x Hne Hl' eq_refl) as V. cbn [app length] in V.
      rewrite (vec3_of_4 a1 a2 a3 a4 x Hl'). rewrite V. reflexivity.
Qed.


(* ------------------------------------------------------------------ *)
(* Meta and enum references *)

Lemma prefix_word : forall p a y, forallb is_idrest p = true -> stops is_idrest y ->
  tstarts p a = false -> prefix p (a ++ y) = None.
Proof.
  induction p as [|c p IH]; intros a y Hp Hy Ht; [discriminate Ht|].
  cbn in Hp. apply andb_true_iff in Hp as [Hc Hp].
  destruct a as [|d a]; cbn [app prefix].
  - destruct y as [|d y]; [reflexivity|]. cbn in Hy. now rewrite (eqb_false_of is_idrest c d).
  - cbn in Ht. destruct (Ascii.eqb c d); [|reflexivity]. cbn in Ht. now apply IH.
Qed.

Lemma idstart_not_zero : forall c, is_idstart c = true -> Ascii.eqb c "0" = false.
Proof. excl is_idstart (fun c => Ascii.eqb c "0"). Qed.
Lemma idstart_not_lpar : forall c, is_idstart c = true -> Ascii.eqb c "(" = false.
Proof. excl is_idstart (fun c => Ascii.eqb c "("). Qed.
Lemma idstart_not_bang : forall c, is_idstart c = true -> Ascii.eqb "!" c = false.
Proof. excl is_idstart (fun c => Ascii.eqb "!" c). Qed.
Lemma idstart_not_quote : forall c, is_idstart c = true -> is_quote c = false.
Proof. excl is_idstart is_quote. Qed.

Lemma literal_ident_none : forall a w y, wf_ident a = true -> ws_only w ->
  tstarts kw_None (print_id a) = false -> tstarts kw_True (print_id a) = false ->
  tstarts kw_False (print_id a) = false -> stops is_idrest y -> stops is_quote y ->
  literal (w ++ print_id a ++ y) = None.
Proof.
  intros a w y Ha Hw H1 H2 H3 Hy Hq. unfold literal. rewrite skip_ws_app by exact Hw.
  destruct (wf_ident_inv a Ha) as (_ & c & r & E & Hc & Hr).
  assert (Es : skip_ws (print_id a ++ y) = print_id a ++ y).
  { rewrite E. cbn [app]. apply skip_ws_cons. now apply idstart_not_ws. }
  rewrite Es. unfold kw. rewrite !prefix_word by auto.
  rewrite E. cbn [app].
  assert (Hs : lit_string (c :: r ++ y) = None).
  { unfold lit_string. rewrite idstart_not_quote by exact Hc.
    destruct (Ascii.eqb c "b"); [|reflexivity].
    destruct r as [|d r]; cbn [app].
    - destruct y as [|d y]; [reflexivity|]. cbn in Hq. now rewrite Hq.
    - cbn in Hr. apply andb_true_iff in Hr as [Hd _]. now rewrite idrest_not_quote. }
  assert (Hh : lit_hex (c :: r ++ y) = None).
  { unfold lit_hex. now rewrite idstart_not_zero. }
  assert (Hd : lit_dec (c :: r ++ y) = None).
  { unfold lit_dec, number, lex_dec. cbn [span]. now rewrite idstart_not_digit. }
  rewrite Hs, Hh, Hd. unfold lit_vec. now rewrite idstart_not_lpar.
Qed.

Lemma tok_idrest_dot_none : forall c x, is_idrest c = true -> tok ["."] (c :: x) = None.
Proof.
  intros c x H. unfold tok. rewrite skip_ws_cons by (now apply idrest_not_ws).
  cbn [prefix]. now rewrite idrest_not_dot.
Qed.

Lemma tstarts_inv : forall p a, tstarts p a = true -> exists a', a = p ++ a'.
Proof.
  induction p as [|c p IH]; intros a H; [now exists a|].
  destruct a as [|d a]; [discriminate H|]. cbn in H. apply andb_true_iff in H as [H1 H2].
  apply Ascii.eqb_eq in H1. subst d. destruct (IH a H2) as [a' ->]. now exists a'.
Qed.

Lemma meta_spec_enum_none : forall a w y, wf_enum_name a = true -> ws_only w -> stops is_idrest y ->
  meta_spec (w ++ print_id a ++ y) = None.
Proof.
  intros a w y Ha Hw Hy. unfold wf_enum_name in Ha.
  apply andb_true_iff in Ha as [Ha Hm]. apply andb_true_iff in Ha as [Ha _].
  apply andb_true_iff in Ha as [Ha _]. apply andb_true_iff in Ha as [Ha _].
  destruct (wf_ident_inv a Ha) as (_ & c & r & E & Hc & Hr).
  unfold meta_spec, tok. rewrite skip_ws_app by exact Hw.
  assert (Es : skip_ws (print_id a ++ y) = print_id a ++ y).
  { rewrite E. cbn [app]. apply skip_ws_cons. now apply idstart_not_ws. }
  rewrite Es.
  destruct (tstarts kw_Meta (print_id a)) eqn:Et.
  - cbn [negb andb] in Hm. apply negb_true_iff in Hm.
    assert (Hlen : length (print_id a) = length a) by (unfold print_id; apply map_length).
    destruct (tstarts_inv _ _ Et) as [a' Ea]. rewrite Ea in *.
    rewrite <- app_assoc, prefix_app.
    destruct a' as [|c5 a'].
    + cbn in Hlen. rewrite <- Hlen in Hm. discriminate Hm.
    + assert (H5 : is_idrest c5 = true).
      { unfold kw_Meta in E. cbn [app] in E. inversion E; subst. cbn in Hr.
        now apply andb_true_iff in Hr as [Hr _]. }
      cbn [app length dotted]. now rewrite tok_idrest_dot_none.
  - rewrite prefix_word; auto.
Qed.

Lemma enum_spec_ok : forall a b w w1 w2 x, wf_ident a = true -> wf_ident b = true ->
  ws_only w -> ws_only w1 -> ws_only w2 -> stops is_idrest x ->
  enum_spec (w ++ print_id a ++ w1 ++ "." :: w2 ++ print_id b ++ x) = Some (a, b, x).
Proof.
  intros a b w w1 w2 x Ha Hb Hw H1 H2 Hx. unfold enum_spec.
  rewrite identifier_ok; auto; [|now apply stops_ws_dot].
  change (w1 ++ "." :: w2 ++ print_id b ++ x) with (w1 ++ "." :: [] ++ (w2 ++ print_id b ++ x)).
  rewrite tok_ok by (auto; reflexivity).
  now rewrite identifier_ok.
Qed.

Lemma stops_quote_ws_dot : forall w x, ws_only w -> stops is_quote (w ++ "." :: x).
Proof.
  intros [|c w] x H; cbn; [reflexivity|].
  unfold ws_only in H. cbn in H. apply andb_true_iff in H as [H _]. now apply ws_not_quote.
Qed.

Lemma compare_val_ok : forall rs v tv, r_value v tv -> wf_value v = true ->
  (match v with VEnum a b r => r = rs a b | _ => True end) ->
  forall w x, ws_only w -> ft x -> compare_val rs (w ++ tv ++ x) = Some (v, x).
Proof.
  intros rs v tv Hr Hv He w x Hw Hx. unfold compare_val.
  destruct Hr as [v|names t Hd|a b r w1 w2 H1 H2]; cbn [wf_value] in Hv.
  - rewrite literal_ok; auto. now apply ft_fstop.
  - apply andb_true_iff in Hv as [Hn Hv].
    assert (Hl : literal (w ++ (kw_Meta ++ t) ++ x) = None).
    { unfold literal. rewrite skip_ws_app by exact Hw. reflexivity. }
    rewrite Hl. unfold meta_spec. rewrite <- app_assoc.
    unfold kw_Meta at 2. cbn [app]. 
    change (w ++ "M" :: "e" :: "t" :: "a" :: t ++ x) with (w ++ "M" :: ["e"; "t"; "a"] ++ (t ++ x)).
    unfold kw_Meta. rewrite tok_ok by (auto; reflexivity).
    rewrite (dotted_ok names t Hd Hv).
    + destruct names; [discriminate Hn|reflexivity].
    + rewrite app_length. pose proof (r_dots_len _ _ Hd). lia.
    + now apply ft_sel_stop.
  - apply andb_true_iff in Hv as [Ha Hb]. subst r.
    rewrite <- !app_assoc. cbn [app]. rewrite <- !app_assoc.
    assert (Ha' := Ha). unfold wf_enum_name in Ha'.
    apply andb_true_iff in Ha' as [Ha' _]. apply andb_true_iff in Ha' as [Ha' H5].
    apply andb_true_iff in Ha' as [Ha' H4]. apply andb_true_iff in Ha' as [Ha' H3].
    apply negb_true_iff in H3, H4, H5.
    rewrite literal_ident_none; auto; [|now apply stops_ws_dot|now apply stops_quote_ws_dot].
    rewrite meta_spec_enum_none; auto; [|now apply stops_ws_dot].
    rewrite enum_spec_ok; auto. now apply fstop_idrest, ft_fstop.
Qed.

Definition val_start (c : ascii) : bool :=
  (is_idstart c || is_digit c || is_quote c || Ascii.eqb c "(")%bool.

Lemma val_start_not_ws : forall c, val_start c = true -> is_ws c = false.
Proof. excl val_start is_ws. Qed.
Lemma val_start_not_eq : forall c, val_start c = true -> Ascii.eqb "=" c = false.
Proof. excl val_start (fun c => Ascii.eqb "=" c). Qed.

Lemma r_value_start : forall v tv, r_value v tv -> wf_value v = true ->
  exists c r, tv = c :: r /\ val_start c = true.
Proof.
  intros v tv Hr Hv. destruct Hr as [v|names t Hd|a b r w1 w2 H1 H2]; cbn [wf_value] in Hv.
  - destruct v as [|a|s|[j|] b|l| |]; try discriminate Hv; cbn [wf_lit print_pv] in *.
    + eexists _, _. split; reflexivity.
    + apply orb_true_iff in Hv as [Hv|Hv]; [apply orb_true_iff in Hv as [Hv|Hv]|].
      * destruct (wf_bool_inv a Hv) as [-> | ->]; eexists _, _; split; reflexivity.
      * destruct (print_num_elem a) as (c & r0 & E & Hc); [unfold wf_elem; now rewrite Hv|].
        exists c, r0. split; [exact E|]. unfold val_start. rewrite Hc. now rewrite orb_true_r.
      * destruct (print_num_elem a) as (c & r0 & E & Hc); [unfold wf_elem; rewrite Hv; now rewrite orb_true_r|].
        exists c, r0. split; [exact E|]. unfold val_start. rewrite Hc. now rewrite orb_true_r.
    + unfold print_quoted. destruct (pick_quote_cases s) as [E|E]; rewrite E; eexists _, _; split; reflexivity.
    + eexists _, _. split; reflexivity.
    + eexists _, _. split; reflexivity.
  - eexists _, _. split; reflexivity.
  - apply andb_true_iff in Hv as [Ha _]. unfold wf_enum_name in Ha.
    apply andb_true_iff in Ha as [Ha _]. apply andb_true_iff in Ha as [Ha _].
    apply andb_true_iff in Ha as [Ha _]. apply andb_true_iff in Ha as [Ha _].
    destruct (wf_ident_inv a Ha) as (_ & c & r0 & E & Hc & _). rewrite E.
    eexists _, _. split; [reflexivity|]. unfold val_start. now rewrite Hc.
Qed.

(* ------------------------------------------------------------------ *)
(* leaves *)

Lemma op_sel_stop : forall o w z, ws_only w -> sel_stop (w ++ print_op o ++ z).
Proof.
  intros o w z Hw. split.
  - destruct w as [|c w]; cbn [app].
    + destruct o; reflexivity.
    + unfold ws_only in Hw. cbn in Hw. apply andb_true_iff in Hw as [Hc _]. cbn.
      destruct (is_idrest c) eqn:E; [|reflexivity]. apply idrest_not_ws in E. congruence.
  - unfold tok. rewrite skip_ws_app by exact Hw. destruct o; reflexivity.
Qed.

Lemma binary_ok : forall rs s0 rest t o v tv w1 w2 w x,
  r_dots rest t -> r_value v tv ->
  wf_ident s0 = true -> forallb wf_ident rest = true -> wf_value v = true ->
  (match v with VEnum a b r => r = rs a b | _ => True end) ->
  ws_only w1 -> ws_only w2 -> ws_only w -> ft x ->
  binary_expression rs (w ++ (print_id s0 ++ t ++ w1 ++ print_op o ++ w2 ++ tv) ++ x)
  = Some (Leaf s0 rest (Some (o, v)), x).
Proof.
  intros rs s0 rest t o v tv w1 w2 w x Hd Hv H0 Hr Hwv He H1 H2 Hw Hx.
  unfold binary_expression. rewrite <- !app_assoc.
  rewrite (field_specifier_ok s0 rest t w _ Hd H0 Hr Hw) by (now apply op_sel_stop).
  destruct (r_value_start v tv Hv Hwv) as (c & r & E & Hc).
  rewrite operator_ok; auto.
  - now rewrite (compare_val_ok rs v tv Hv Hwv He).
  - destruct w2 as [|d w2]; cbn [app].
    + rewrite E. unfold not_eq_head. cbn [app]. now apply val_start_not_eq.
    + unfold ws_only in H2. cbn [forallb] in H2. apply andb_true_iff in H2 as [Hd2 _].
      unfold not_eq_head. destruct (Ascii.eqb "=" d) eqn:Eq; [|reflexivity].
      apply Ascii.eqb_eq in Eq. subst d. discriminate Hd2.
Qed.

Lemma binary_none_leaf0 : forall rs s0 rest t w x, r_dots rest t ->
  wf_ident s0 = true -> forallb wf_ident rest = true -> ws_only w -> ft x ->
  binary_expression rs (w ++ (print_id s0 ++ t) ++ x) = None.
Proof.
  intros rs s0 rest t w x Hd H0 Hr Hw Hx. unfold binary_expression. rewrite <- !app_assoc.
  rewrite (field_specifier_ok s0 rest t w x Hd H0 Hr Hw) by (now apply ft_sel_stop).
  unfold operator. destruct Hx as [H|[[z H]|[[z H]|[z H]]]]; rewrite H; reflexivity.
Qed.

Lemma binary_none_head : forall rs w c x, ws_only w -> is_ws c = false -> is_idstart c = false ->
  binary_expression rs (w ++ c :: x) = None.
Proof. intros. unfold binary_expression. now rewrite field_specifier_none. Qed.

Lemma tok_none_head : forall p0 p w c x, ws_only w -> is_ws c = false -> Ascii.eqb p0 c = false ->
  tok (p0 :: p) (w ++ c :: x) = None.
Proof.
  intros p0 p w c x Hw Hc He. unfold tok. rewrite skip_ws_app by exact Hw.
  rewrite skip_ws_cons by exact Hc. cbn [prefix]. now rewrite He.
Qed.

Lemma term_leaf0 : forall rs E s0 rest t w x, r_dots rest t ->
  wf_ident s0 = true -> forallb wf_ident rest = true -> ws_only w -> ft x ->
  term rs E (w ++ (print_id s0 ++ t) ++ x) = Some (Leaf s0 rest None, x).
Proof.
  intros rs E s0 rest t w x Hd H0 Hr Hw Hx. unfold term.
  rewrite (binary_none_leaf0 rs s0 rest t w x) by assumption.
  unfold unary_expression. rewrite <- !app_assoc.
  destruct (wf_ident_inv s0 H0) as (_ & c & r & Ec & Hc & _).
  assert (Ht : tok ["!"] (w ++ print_id s0 ++ t ++ x) = None).
  { rewrite Ec. cbn [app]. apply tok_none_head; auto; [now apply idstart_not_ws|now apply idstart_not_bang]. }
  rewrite Ht. rewrite (field_specifier_ok s0 rest t w x Hd H0 Hr Hw) by (now apply ft_sel_stop).
  reflexivity.
Qed.

Lemma term_leaf1 : forall rs E s0 rest t o v tv w1 w2 w x,
  r_dots rest t -> r_value v tv ->
  wf_ident s0 = true -> forallb wf_ident rest = true -> wf_value v = true ->
  (match v with VEnum a b r => r = rs a b | _ => True end) ->
  ws_only w1 -> ws_only w2 -> ws_only w -> ft x ->
  term rs E (w ++ (print_id s0 ++ t ++ w1 ++ print_op o ++ w2 ++ tv) ++ x)
  = Some (Leaf s0 rest (Some (o, v)), x).
Proof.
  intros rs E s0 rest t o v tv w1 w2 w x Hd Hv H0 Hr Hwv He H1 H2 Hw Hx. unfold term.
  now rewrite (binary_ok rs s0 rest t o v tv w1 w2 w x Hd Hv H0 Hr Hwv He H1 H2 Hw Hx).
Qed.

Lemma term_not0 : forall rs E s0 rest t w0 w x, r_dots rest t ->
  wf_ident s0 = true -> forallb wf_ident rest = true -> ws_only w0 -> ws_only w -> ft x ->
  term rs E (w ++ ("!" :: w0 ++ print_id s0 ++ t) ++ x) = Some (Not (Leaf s0 rest None), x).
Proof.
  intros rs E s0 rest t w0 w x Hd H0 Hr Hw0 Hw Hx. unfold term. cbn [app].
  rewrite binary_none_head by (auto; reflexivity).
  unfold unary_expression.
  change (w ++ "!" :: (w0 ++ print_id s0 ++ t) ++ x) with (w ++ "!" :: [] ++ ((w0 ++ print_id s0 ++ t) ++ x)).
  rewrite tok_ok by (auto; reflexivity). rewrite <- !app_assoc.
  rewrite (field_specifier_ok s0 rest t w0 x Hd H0 Hr Hw0) by (now apply ft_sel_stop).
  reflexivity.
Qed.

Ltac norm_app := repeat (first [rewrite <- !app_assoc | progress cbn [app]]).

(* parenthesised: ( E ) and !( E ) *)
Lemma term_paren : forall rs E f t w1 w2 w x, ws_only w1 -> ws_only w2 -> ws_only w ->
  E (w1 ++ t ++ w2 ++ ")" :: x) = Some (f, w2 ++ ")" :: x) ->
  term rs E (w ++ ("(" :: w1 ++ t ++ w2 ++ [")"]) ++ x) = Some (f, x).
Proof.
  intros rs E f t w1 w2 w x H1 H2 Hw HE. unfold term. cbn [app].
  rewrite binary_none_head by (auto; reflexivity).
  unfold unary_expression.
  rewrite tok_none_head by (auto; reflexivity).
  rewrite field_specifier_none by (auto; reflexivity).
  change (w ++ "(" :: (w1 ++ t ++ w2 ++ [")"]) ++ x) with (w ++ "(" :: [] ++ ((w1 ++ t ++ w2 ++ [")"]) ++ x)).
  rewrite tok_ok by (auto; reflexivity). rewrite <- !app_assoc. cbn [app].
  rewrite HE.
  change (w2 ++ ")" :: x) with (w2 ++ ")" :: [] ++ x).
  rewrite tok_ok by (auto; reflexivity). reflexivity.
Qed.

Lemma term_notp : forall rs E g t w1 w2 w3 w x, ws_only w1 -> ws_only w2 -> ws_only w3 -> ws_only w ->
  E (w2 ++ t ++ w3 ++ ")" :: x) = Some (g, w3 ++ ")" :: x) ->
  term rs E (w ++ ("!" :: w1 ++ "(" :: w2 ++ t ++ w3 ++ [")"]) ++ x) = Some (Not g, x).
Proof.
  intros rs E g t w1 w2 w3 w x H1 H2 H3 Hw HE. unfold term. cbn [app].
  rewrite binary_none_head by (auto; reflexivity).
  unfold unary_expression.
  change (w ++ "!" :: (w1 ++ "(" :: w2 ++ t ++ w3 ++ [")"]) ++ x)
    with (w ++ "!" :: [] ++ ((w1 ++ "(" :: w2 ++ t ++ w3 ++ [")"]) ++ x)).
  rewrite tok_ok by (auto; reflexivity). norm_app.
  rewrite field_specifier_none by (auto; reflexivity).
  change (w1 ++ "(" :: w2 ++ t ++ w3 ++ ")" :: x) with (w1 ++ "(" :: [] ++ (w2 ++ t ++ w3 ++ ")" :: x)).
  rewrite tok_ok by (auto; reflexivity).
  rewrite HE.
  change (w3 ++ ")" :: x) with (w3 ++ ")" :: [] ++ x).
  rewrite tok_ok by (auto; reflexivity). reflexivity.
Qed.

(* ------------------------------------------------------------------ *)
(* the parser reads back every rendering *)

Scheme r_term_mind := Minimality for r_term Sort Prop
  with r_expr_mind := Minimality for r_expr Sort Prop.
Combined Scheme r_mutind from r_term_mind, r_expr_mind.

Lemma expression_S : forall rs n s, expression rs (S n) s =
  match term rs (expression rs n) s with
  | None => None
  | Some (f, s1) =>
      match connective s1 with
      | None => Some (f, s1)
      | Some (isand, s2) =>
          match expression rs n s2 with
          | None => Some (f, s1)
          | Some (g, s3) => Some (if isand then And f g else Or f g, s3)
          end
      end
  end.
Proof. reflexivity. Qed.

Lemma fe_close : forall w x, ws_only w -> fe (w ++ ")" :: x).
Proof. intros w x Hw. right. exists x. now rewrite skip_ws_app. Qed.

Lemma ft_and : forall w x, ws_only w -> ft (w ++ "&" :: "&" :: x).
Proof. intros w x Hw. right. right. left. exists x. now rewrite skip_ws_app. Qed.

Lemma ft_or : forall w x, ws_only w -> ft (w ++ "|" :: "|" :: x).
Proof. intros w x Hw. right. right. right. exists x. now rewrite skip_ws_app. Qed.

Lemma leaf_enum : forall rs s0 rest o v, enums_by rs (Leaf s0 rest (Some (o, v))) ->
  match v with VEnum a b r => r = rs a b | _ => True end.
Proof. intros rs s0 rest o v H. cbn in H. destruct v; auto. Qed.

Lemma parse_rendering_gen : forall rs,
  (forall f t, r_term f t -> wf rs f -> forall n w x, ws_only w -> ft x -> length t <= n ->
     term rs (expression rs n) (w ++ t ++ x) = Some (f, x)) /\
  (forall f t, r_expr f t -> wf rs f -> forall n w x, ws_only w -> fe x -> length t < n ->
     expression rs n (w ++ t ++ x) = Some (f, x)).
Proof.
  intros rs. apply r_mutind.
  - (* RT_leaf0 *)
    intros s0 rest t Hd [Hs He] n w x Hw Hx Hn. cbn in Hs.
    apply andb_true_iff in Hs as [Hs _]. apply andb_true_iff in Hs as [H0 Hr].
    now apply term_leaf0.
  - (* RT_leaf1 *)
    intros s0 rest t o v tv w1 w2 Hd Hv H1 H2 [Hs He] n w x Hw Hx Hn. cbn in Hs.
    apply andb_true_iff in Hs as [Hs Hwv]. apply andb_true_iff in Hs as [H0 Hr].
    apply term_leaf1; auto; now apply (leaf_enum rs s0 rest o v).
  - (* RT_not0 *)
    intros s0 rest t w0 Hd Hw0 [Hs He] n w x Hw Hx Hn. cbn in Hs.
    apply andb_true_iff in Hs as [Hs _]. apply andb_true_iff in Hs as [H0 Hr].
    now apply term_not0.
  - (* RT_notp *)
    intros g t w1 w2 w3 _ IH H1 H2 H3 Hwf n w x Hw Hx Hn.
    apply term_notp; auto. apply IH; auto.
    + now apply fe_close.
    + cbn [length] in Hn. rewrite !app_length in Hn. cbn [length] in Hn. rewrite !app_length in Hn. lia.
  - (* RT_paren *)
    intros f t w1 w2 _ IH H1 H2 Hwf n w x Hw Hx Hn.
    apply term_paren; auto. apply IH; auto.
    + now apply fe_close.
    + cbn [length] in Hn. rewrite !app_length in Hn. lia.
  - (* RE_term *)
    intros f t _ IH Hwf n w x Hw Hx Hn. destruct n as [|n]; [lia|].
    rewrite expression_S, IH; auto; [|now apply fe_ft|lia].
    now rewrite connective_none.
  - (* RE_and *)
    intros a b ta tb w1 w2 _ IHa _ IHb H1 H2 [Hs He] n w x Hw Hx Hn. destruct n as [|n]; [lia|].
    cbn in Hs, He. apply andb_true_iff in Hs as [Hsa Hsb]. destruct He as [Hea Heb].
    rewrite !app_length in Hn. cbn [length] in Hn. rewrite !app_length in Hn.
    rewrite expression_S. rewrite <- !app_assoc. cbn [app]. rewrite <- !app_assoc.
    rewrite IHa; [|split; assumption|assumption|now apply ft_and|lia].
    rewrite connective_and by exact H1.
    rewrite IHb; [reflexivity|split; assumption|assumption|assumption|lia].
  - (* RE_or *)
    intros a b ta tb w1 w2 _ IHa _ IHb H1 H2 [Hs He] n w x Hw Hx Hn. destruct n as [|n]; [lia|].
    cbn in Hs, He. apply andb_true_iff in Hs as [Hsa Hsb]. destruct He as [Hea Heb].
    rewrite !app_length in Hn. cbn [length] in Hn. rewrite !app_length in Hn.
    rewrite expression_S. rewrite <- !app_assoc. cbn [app]. rewrite <- !app_assoc.
    rewrite IHa; [|split; assumption|assumption|now apply ft_or|lia].
    rewrite connective_or by exact H1.
    rewrite IHb; [reflexivity|split; assumption|assumption|assumption|lia].
Qed.

(* Every rendering of a well-formed filter (its printed text up to whitespace between
   tokens, around it, and redundant parentheses) parses to that filter. *)
Theorem parse_rendering : forall rs f s, wf rs f -> renders f s -> parse rs s = Some f.
Proof.
  intros rs f s Hwf (w1 & t & w2 & H1 & H2 & Hr & ->).
  unfold parse.
  assert (Hfe : fe (w2 ++ [])).
  { left. rewrite skip_ws_app by exact H2. reflexivity. }
  replace (w1 ++ t ++ w2) with (w1 ++ t ++ (w2 ++ [])) by (now rewrite app_nil_r).
  rewrite (proj2 (parse_rendering_gen rs) f t Hr Hwf); auto.
  - rewrite skip_ws_app by exact H2. reflexivity.
  - rewrite !app_length. lia.
Qed.

(* the printer produces renderings *)
Lemma r_dots_print : forall l, r_dots l (print_dots l).
Proof.
  induction l as [|i l IH]; [constructor|].
  unfold print_dots in *. cbn [flat_map].
  exact (RD_cons i l _ [] [] eq_refl eq_refl IH).
Qed.

Lemma r_value_print : forall v, r_value v (print_value v).
Proof.
  intros [v|names|a b r]; cbn [print_value].
  - constructor.
  - constructor. apply r_dots_print.
  - exact (RV_enum a b r [] [] eq_refl eq_refl).
Qed.

Lemma r_term_leaf : forall s0 rest ov, r_term (Leaf s0 rest ov) (print_leaf s0 rest ov).
Proof.
  intros s0 rest [[o v]|]; unfold print_leaf, print_sel.
  - pose proof (RT_leaf1 s0 rest _ o v _ [" "] [" "] (r_dots_print rest) (r_value_print v) eq_refl eq_refl) as H.
    rewrite <- app_assoc. exact H.
  - rewrite app_nil_r. constructor. apply r_dots_print.
Qed.

Lemma pr_renders : forall f, r_term f (pr false f) /\ r_expr f (pr true f).
Proof.
  induction f as [s0 rest ov|g [IHt IHe]|a [IHat IHae] b [IHbt IHbe]|a [IHat IHae] b [IHbt IHbe]].
  - cbn [pr]. split; [|constructor]; apply r_term_leaf.
  - assert (H : r_term (Not g) (pr false (Not g))).
    { destruct g as [s0 rest [ov|]| | |]; cbn [pr].
      - exact (RT_notp _ _ [] [] [] IHe eq_refl eq_refl eq_refl).
      - pose proof (RT_not0 s0 rest _ [] (r_dots_print rest) eq_refl) as H.
        unfold print_leaf, print_sel. rewrite app_nil_r. exact H.
      - exact (RT_notp _ _ [] [] [] IHe eq_refl eq_refl eq_refl).
      - exact (RT_notp _ _ [] [] [] IHe eq_refl eq_refl eq_refl).
      - exact (RT_notp _ _ [] [] [] IHe eq_refl eq_refl eq_refl). }
    split; [exact H|]. constructor.
    destruct g as [s0 rest [ov|]| | |]; exact H.
  - assert (H : r_expr (And a b) (pr true (And a b))).
    { cbn [pr]. exact (RE_and a b _ _ [" "] [" "] IHat IHbe eq_refl eq_refl). }
    split; [|exact H]. cbn [pr]. exact (RT_paren _ _ [] [] H eq_refl eq_refl).
  - assert (H : r_expr (Or a b) (pr true (Or a b))).
    { cbn [pr]. exact (RE_or a b _ _ [" "] [" "] IHat IHbe eq_refl eq_refl). }
    split; [|exact H]. cbn [pr]. exact (RT_paren _ _ [] [] H eq_refl eq_refl).
Qed.

Lemma print_renders : forall f, renders f (print f).
Proof.
  intros f. exists [], (print f), []. repeat split; try reflexivity.
  - apply pr_renders.
  - now rewrite app_nil_r.
Qed.

(* parse (print f) = Some f *)
Theorem parse_print : forall rs f, wf rs f -> parse rs (print f) = Some f.
Proof. intros rs f H. apply parse_rendering; [exact H|apply print_renders]. Qed.

(* extra whitespace around the printed text and around its connectives *)
Corollary parse_print_spaced : forall rs f w1 w2, wf rs f -> ws_only w1 -> ws_only w2 ->
  parse rs (w1 ++ print f ++ w2) = Some f.
Proof.
  intros rs f w1 w2 H H1 H2. apply parse_rendering; [exact H|].
  exists w1, (print f), w2. repeat split; auto. apply pr_renders.
Qed.

(* ------------------------------------------------------------------ *)
(* compile_filter's wrapper: strip, empty filter, lone bang *)

Definition starts_ok (s : text) : Prop := exists c r, s = c :: r /\ is_pyspace c = false.
Definition ends_ok (s : text) : Prop := exists s' d, s = s' ++ [d] /\ is_pyspace d = false.

Lemma ends_ok_app : forall a b, ends_ok b -> ends_ok (a ++ b).
Proof. intros a b (s' & d & -> & Hd). exists (a ++ s'), d. now rewrite app_assoc. Qed.

Lemma ends_ok_cons : forall c b, ends_ok b -> ends_ok (c :: b).
Proof. intros c b H. exact (ends_ok_app [c] b H). Qed.

Lemma ends_ok_all : forall (P : ascii -> bool) s, (forall c, P c = true -> is_pyspace c = false) ->
  forallb P s = true -> s <> [] -> ends_ok s.
Proof.
  intros P s HP Hs Hn. destruct (exists_last Hn) as (s' & d & ->).
  exists s', d. split; [reflexivity|]. apply HP.
  rewrite forallb_app in Hs. apply andb_true_iff in Hs as [_ Hs]. cbn in Hs.
  now apply andb_true_iff in Hs as [Hs _].
Qed.

Lemma idrest_not_pyspace : forall c, is_idrest c = true -> is_pyspace c = false.
Proof. excl is_idrest is_pyspace. Qed.
Lemma digit_not_pyspace : forall c, is_digit c = true -> is_pyspace c = false.
Proof. excl is_digit is_pyspace. Qed.

Lemma strip_id : forall s, starts_ok s -> ends_ok s -> strip s = s.
Proof.
  intros s (c & r & -> & Hc) (s' & d & E & Hd). unfold strip.
  cbn [lstrip]. rewrite Hc. rewrite E, rev_app_distr. cbn [rev app lstrip]. rewrite Hd.
  change (d :: rev s') with ([d] ++ rev s'). rewrite rev_app_distr, rev_involutive. reflexivity.
Qed.

Lemma ident_ends : forall i, wf_ident i = true -> ends_ok (print_id i).
Proof.
  intros i Hi. destruct (wf_ident_inv i Hi) as (_ & c & r & E & Hc & Hr). rewrite E.
  apply (ends_ok_all is_idrest); [exact idrest_not_pyspace| |discriminate].
  cbn. now rewrite idstart_idrest, Hr.
Qed.

Lemma dots_ends : forall l, l <> [] -> forallb wf_ident l = true -> ends_ok (print_dots l).
Proof.
  induction l as [|i l IH]; intros Hn Hl; [congruence|].
  cbn in Hl. apply andb_true_iff in Hl as [Hi Hl]. unfold print_dots in *. cbn [flat_map].
  destruct l as [|j l].
  - cbn [flat_map]. rewrite app_nil_r. apply ends_ok_cons. now apply ident_ends.
  - apply ends_ok_cons, ends_ok_app. apply IH; [discriminate|exact Hl].
Qed.

Lemma sel_ends : forall s0 rest, wf_ident s0 = true -> forallb wf_ident rest = true ->
  ends_ok (print_sel s0 rest).
Proof.
  intros s0 rest H0 Hr. unfold print_sel. destruct rest as [|i rest].
  - cbn. rewrite app_nil_r. now apply ident_ends.
  - apply ends_ok_app, dots_ends; [discriminate|exact Hr].
Qed.

Lemma num_ends : forall x, wf_elem x = true -> ends_ok (print_num x).
Proof.
  intros x H. unfold wf_elem in H. apply orb_true_iff in H as [H|H].
  - destruct (wf_int_inv x H) as [_ Hk]. unfold print_num. rewrite Hk.
    apply (ends_ok_all is_digit); [exact digit_not_pyspace|apply print_N_digits|].
    destruct (print_N_cons (Z.to_N (nnum x))) as (c & r & -> & _). discriminate.
  - unfold wf_float in H. apply andb_true_iff in H as [Hk H].
    unfold print_num. destruct (nkind x); [discriminate Hk|discriminate Hk|].
    destruct (float_digits x) as [[ds fs]|] eqn:E; [|discriminate H].
    apply float_digits_spec in E as (_ & _ & H3 & H4 & _).
    apply ends_ok_app, ends_ok_cons. now apply (ends_ok_all is_digit); [exact digit_not_pyspace| |].
Qed.

Lemma value_ends : forall v, wf_value v = true -> ends_ok (print_value v).
Proof.
  intros [v|names|a b r] Hv; cbn [wf_value print_value] in *.
  - destruct v as [|a|s|[j|] b|l| |]; try discriminate Hv; cbn [wf_lit print_pv] in *.
    + exists ["N"; "o"; "n"], "e". split; reflexivity.
    + apply orb_true_iff in Hv as [Hv|Hv]; [apply orb_true_iff in Hv as [Hv|Hv]|].
      * destruct (wf_bool_inv a Hv) as [-> | ->].
        -- exists ["F"; "a"; "l"; "s"], "e". split; reflexivity.
        -- exists ["T"; "r"; "u"], "e". split; reflexivity.
      * apply num_ends. unfold wf_elem. now rewrite Hv.
      * apply num_ends. unfold wf_elem. rewrite Hv. now rewrite orb_true_r.
    + unfold print_quoted. apply ends_ok_cons, ends_ok_app.
      exists [], (pick_quote s). split; [reflexivity|]. destruct (pick_quote_cases s) as [-> | ->]; reflexivity.
    + unfold print_quoted. apply ends_ok_cons, ends_ok_cons, ends_ok_app.
      exists [], (pick_quote b). split; [reflexivity|]. destruct (pick_quote_cases b) as [-> | ->]; reflexivity.
    + apply ends_ok_cons, ends_ok_app. exists [], ")". split; reflexivity.
  - apply andb_true_iff in Hv as [Hn Hv]. apply ends_ok_app, dots_ends; [|exact Hv].
    destruct names; [discriminate Hn|discriminate].
  - apply andb_true_iff in Hv as [_ Hb]. apply ends_ok_app, ends_ok_cons. now apply ident_ends.
Qed.

Lemma leaf_ends : forall s0 rest ov, wf_syntax (Leaf s0 rest ov) = true -> ends_ok (print_leaf s0 rest ov).
Proof.
  intros s0 rest ov H. cbn in H. apply andb_true_iff in H as [H Hv]. apply andb_true_iff in H as [H0 Hr].
  unfold print_leaf. destruct ov as [[o v]|].
  - apply ends_ok_app, ends_ok_cons, ends_ok_app, ends_ok_cons. now apply value_ends.
  - rewrite app_nil_r. now apply sel_ends.
Qed.

Lemma close_ends : forall s, ends_ok (s ++ [")"]).
Proof. intros s. exists s, ")". split; reflexivity. Qed.

Lemma pr_ends : forall f top, wf_syntax f = true -> ends_ok (pr top f).
Proof.
  induction f as [s0 rest ov|g IH|a IHa b IHb|a IHa b IHb]; intros top H.
  - cbn [pr]. now apply leaf_ends.
  - cbn [pr]. destruct g as [s0 rest [ov|]| | |];
      try (apply ends_ok_cons, ends_ok_cons, close_ends).
    apply ends_ok_cons. now apply leaf_ends.
  - cbn in H. apply andb_true_iff in H as [Ha Hb]. cbn [pr]. destruct top.
    + apply ends_ok_app, ends_ok_app. now apply IHb.
    + apply ends_ok_cons, close_ends.
  - cbn in H. apply andb_true_iff in H as [Ha Hb]. cbn [pr]. destruct top.
    + apply ends_ok_app, ends_ok_app. now apply IHb.
    + apply ends_ok_cons, close_ends.
Qed.

Lemma idstart_not_pyspace : forall c, is_idstart c = true -> is_pyspace c = false.
Proof. excl is_idstart is_pyspace. Qed.

Lemma leaf_starts : forall s0 rest ov, wf_ident s0 = true ->
  exists c r, print_leaf s0 rest ov = c :: r /\ is_idstart c = true.
Proof.
  intros s0 rest ov H0. destruct (wf_ident_inv s0 H0) as (_ & c & r & E & Hc & _).
  unfold print_leaf, print_sel. rewrite E. eexists _, _. split; [reflexivity|exact Hc].
Qed.

(* the first character of a printed filter: an identifier start, a bang or a parenthesis *)
Lemma pr_starts : forall f top, wf_syntax f = true ->
  exists c r, pr top f = c :: r /\ (is_idstart c = true \/ c = "!" \/ c = "(").
Proof.
  induction f as [s0 rest ov|g IH|a IHa b IHb|a IHa b IHb]; intros top H.
  - cbn in H. apply andb_true_iff in H as [H _]. apply andb_true_iff in H as [H0 _].
    destruct (leaf_starts s0 rest ov H0) as (c & r & E & Hc). cbn [pr]. rewrite E. eauto.
  - cbn [pr]. destruct g as [s0 rest [ov|]| | |]; eexists _, _; split; try reflexivity; auto.
  - cbn in H. apply andb_true_iff in H as [Ha _]. cbn [pr]. destruct top.
    + destruct (IHa false Ha) as (c & r & E & Hc). rewrite E. eexists _, _. split; [reflexivity|exact Hc].
    + eexists _, _. split; [reflexivity|auto].
  - cbn in H. apply andb_true_iff in H as [Ha _]. cbn [pr]. destruct top.
    + destruct (IHa false Ha) as (c & r & E & Hc). rewrite E. eexists _, _. split; [reflexivity|exact Hc].
    + eexists _, _. split; [reflexivity|auto].
Qed.

Lemma print_not_bang : forall f, wf_syntax f = true -> print f <> ["!"].
Proof.
  intros f H E. unfold print in E. destruct f as [s0 rest ov|g|a b|a b].
  - cbn in H. apply andb_true_iff in H as [H _]. apply andb_true_iff in H as [H0 _].
    destruct (leaf_starts s0 rest ov H0) as (c & r & E' & Hc). cbn [pr] in E. rewrite E' in E.
    inversion E; subst. discriminate Hc.
  - cbn [pr] in E. destruct g as [s0 rest [ov|]| | |]; try discriminate E.
    cbn in H. apply andb_true_iff in H as [H _]. apply andb_true_iff in H as [H0 _].
    destruct (leaf_starts s0 rest None H0) as (c & r & E' & Hc). rewrite E' in E. discriminate E.
  - cbn in H. apply andb_true_iff in H as [Ha _].
    destruct (pr_starts a false Ha) as (c & r & E' & Hc). cbn [pr] in E. rewrite E' in E.
    cbn in E. inversion E. destruct r; discriminate.
  - cbn in H. apply andb_true_iff in H as [Ha _].
    destruct (pr_starts a false Ha) as (c & r & E' & Hc). cbn [pr] in E. rewrite E' in E.
    cbn in E. inversion E. destruct r; discriminate.
Qed.

(* compile_filter(print f) is f as well *)
Theorem compile_print : forall rs f, wf rs f -> compile rs (print f) = Some f.
Proof.
  intros rs f Hwf. pose proof (parse_print rs f Hwf) as Hp. destruct Hwf as [Hs _].
  unfold compile. rewrite strip_id.
  - destruct (print f) as [|c [|d r]] eqn:E; [| |exact Hp].
    + destruct (pr_starts f true Hs) as (c & r & E' & _). unfold print in E. congruence.
    + destruct (Ascii.eqb_spec c "!") as [->|]; [|exact Hp].
      now apply print_not_bang in E.
  - destruct (pr_starts f true Hs) as (c & r & E & Hc). exists c, r. split; [exact E|].
    destruct Hc as [Hc|[-> | ->]]; [now apply idstart_not_pyspace|reflexivity|reflexivity].
  - now apply pr_ends.
Qed.

(* ------------------------------------------------------------------ *)
(* witnesses *)

Definition ex_rs : resolver := fun _ _ => ERes (PNum (mkNum KI 2 1)).
Definition id_ (s : list ascii) : str := map code s.

(* every node kind, every kind of expected value, every literal form, every operator *)
Definition FOO_ : str := id_ ["F"; "o"; "o"].
Definition lf (c : ascii) (o : op) (v : value) : fexp := Leaf (id_ [c]) [] (Some (o, v)).
Definition ex_l1 : fexp :=
  Leaf FOO_ [id_ ["B"; "a"; "r"; "*"]; id_ ["B"; "-"; "z"; "_"; "2"]]
       (Some (OGe, VLit (PNum (mkNum KF 3602879701896397 36028797018963968)))).
Definition ex_l2 : fexp := Leaf (id_ ["M"; "e"; "t"; "a"]) [id_ ["X"]] (Some (OBand, VLit (PNum (mkNum KI 255 1)))).
Definition ex_l3 : fexp := lf "a" OEq (VLit (PStr [105; 116; 39; 115; 32; 92; 32; 34; 113; 34; 10; 233; 160]%N)).
Definition ex_l4 : fexp := lf "b" ONe (VLit (PBytes None [0; 255; 39; 97]%N)).
Definition ex_l5 : fexp := Leaf (id_ ["*"]) [] (Some (OIn, VLit (PTup [mkNum KI 1 1; mkNum KF 5 2; mkNum KI 0 1]))).
Definition ex_l6 : fexp := lf "c" OLt (VLit (PTup [mkNum KI 1 1; mkNum KI 2 1; mkNum KI 3 1; mkNum KF 1 4])).
Definition ex_l7 : fexp := lf "d" OStarts (VMeta [id_ ["S"; "e"; "l"]]).
Definition ex_l8 : fexp :=
  lf "e" OEnds (VEnum (id_ ["M"; "e"; "t"; "a"; "d"; "a"; "t"; "a"]) (id_ ["T"; "O"; "R"; "U"; "S"]) (ERes (PNum (mkNum KI 2 1)))).
Definition ex_l9 : fexp := lf "f" OLe (VLit PNone).
Definition ex_l10 : fexp := lf "g" OGt (VLit (PNum (mkNum KB 1 1))).
Definition ex_l11 : fexp := lf "h" OEq (VLit (PNum (mkNum KB 0 1))).
Definition ex_syntax_filter : fexp :=
  Or (And ex_l1 (Not (Leaf FOO_ [] None)))
     (And (Not (And ex_l2 (Or ex_l3 ex_l4)))
          (Or ex_l5 (Or ex_l6 (Or ex_l7 (Or ex_l8 (Or ex_l9 (Or ex_l10 (Not (Not ex_l11))))))))).

Lemma ex_syntax_ok :
  wf ex_rs ex_syntax_filter /\ parse ex_rs (print ex_syntax_filter) = Some ex_syntax_filter.
Proof. split; [split; [vm_compute; reflexivity|cbn; tauto]|vm_compute; reflexivity]. Qed.

Definition txt_and_or : text := ["a"; " "; "&"; "&"; " "; "b"; " "; "|"; "|"; " "; "c"].
Definition txt_or_and : text := ["a"; " "; "|"; "|"; " "; "b"; " "; "&"; "&"; " "; "c"].
Definition txt_ge : text := ["F"; "o"; "o"; ">"; "="; "1"].
Definition txt_amp : text := ["F"; "o"; "o"; " "; "&"; "&"; "b"; "a"; "r"].
Definition leaf0 (s : text) : fexp := Leaf (id_ s) [] None.

(* the connectives nest to the right whatever they are (no precedence); the
   two-character operators win over their one-character prefixes; a lone
   ampersand operator is tried before the conjunction and backtracked *)
Lemma ex_grammar_facts :
  parse ex_rs txt_and_or = Some (And (leaf0 ["a"]) (Or (leaf0 ["b"]) (leaf0 ["c"]))) /\
  parse ex_rs txt_or_and = Some (Or (leaf0 ["a"]) (And (leaf0 ["b"]) (leaf0 ["c"]))) /\
  parse ex_rs txt_ge = Some (Leaf (id_ ["F"; "o"; "o"]) [] (Some (OGe, VLit (PNum (mkNum KI 1 1))))) /\
  parse ex_rs txt_amp = Some (And (leaf0 ["F"; "o"; "o"]) (leaf0 ["b"; "a"; "r"])).
Proof. vm_compute. repeat split. Qed.

(* what well-formedness excludes is really not read back: an enum whose name begins
   with None is cut after the keyword (no parse); an enum called Meta is read as a Meta
   reference; a negative int and a str with a code point above 255 have no literal *)
Definition bad_enum_none : fexp :=
  Leaf (id_ ["a"]) [] (Some (OEq, VEnum (id_ ["N"; "o"; "n"; "e"; "s"; "u"; "c"; "h"]) (id_ ["X"]) (ex_rs [] []))).
Definition bad_enum_meta : fexp :=
  Leaf (id_ ["a"]) [] (Some (OEq, VEnum (id_ ["M"; "e"; "t"; "a"]) (id_ ["X"]) (ex_rs [] []))).
Definition bad_negative : fexp := Leaf (id_ ["a"]) [] (Some (OEq, VLit (PNum (mkNum KI (-1) 1)))).
Definition bad_wide : fexp := Leaf (id_ ["a"]) [] (Some (OEq, VLit (PStr [8364%N]))).

Lemma ex_wf_needed :
  wf_syntax bad_enum_none = false /\ parse ex_rs (print bad_enum_none) = None /\
  wf_syntax bad_enum_meta = false /\
  parse ex_rs (print bad_enum_meta) = Some (Leaf (id_ ["a"]) [] (Some (OEq, VMeta [id_ ["X"]]))) /\
  wf_syntax bad_negative = false /\ parse ex_rs (print bad_negative) <> Some bad_negative /\
  wf_syntax bad_wide = false /\ parse ex_rs (print bad_wide) <> Some bad_wide.
Proof. vm_compute. repeat split; discriminate. Qed.

(* reading a printed filter back and evaluating it is evaluating the filter *)
Corollary eval_parse_print : forall rs f, wf rs f ->
  forall sc e, option_map (fun g => eval sc g e) (parse rs (print f)) = Some (eval sc f e).
Proof. intros rs f H sc e. now rewrite parse_print. Qed.
