(* Export / import and freeze / thaw of message-log entries.

   Code followed (hippolyzer/lib/base/message/message.py, lib/proxy/message_logger.py):
     Message.to_dict(extended) / Message.from_dict, Block.__init__/__setitem__/finalize,
     AbstractMessageLogEntry.__init__ (the meta dict it builds for region = session = None),
     .to_dict / .apply_dict, the region_name / agent_id properties,
     LLUDPMessageLogEntry.to_dict / from_dict / _restore_value_classes / message / freeze / name / seq / method,
     EQMessageLogEntry.to_dict / from_dict, export_log_entries / import_log_entries.

   Python values.  [yv] keeps the distinctions of the classes that can sit in a
   message variable, in Message.meta or in an entry's meta:
     YNone | YBool | YInt | YFloat (the 64 IEEE bits) | YStr (UTF-8 bytes of the str)
     YBytes c s   c = BPlain bytes, BJank JankStringyBytes, BRaw RawBytes, BArray bytearray
     YUuid c u    c = UHippo hippolyzer.lib.base.datatypes.UUID, UStd uuid.UUID (what the llsd parsers return)
     YCoord k xs  Vector2 / Vector3 / Vector4 / Quaternion: their constructors call float() on every
                  component, so xs are float bits
     YSeq c l     c = SList list, STuple tuple
     YDict m      dict in insertion order, str keys as UTF-8 bytes
     YDate | YUri what the llsd parsers can also return (datetime, llsd.uri)
   Not representable (the notation formatter raises on them or they cannot be stored):
   IntEnum/IntFlag members (Block.__setitem__ stores int(value)), Pretty wrappers, other objects.

   [tree_of] is the dispatch of HippoLLSDNotationFormatter._generate: which LLSD
   constructor the formatter writes for a Python value (type_map by exact type, the
   explicit entries for UUID / Vector* / Quaternion / JankStringyBytes / RawBytes, the
   iter() fallback that turns a bytearray into an array of integers).  [pv_of] is the
   Python value the llsd parsers build for an LLSD tree.  The formatter and the parser
   themselves are Llsd/LlsdNotation.v and Llsd/LlsdNotationParse.v (property C12).

   repr / ast.literal_eval, gzip and pickle are library oracles: section variables below.
   Definitions only. *)
From Coq Require Import NArith ZArith List Bool.
From HV Require Import Base.Bytes Llsd.Llsd Llsd.LlsdString Llsd.LlsdNotation Llsd.LlsdNotationParse.
Import ListNotations.
Open Scope N_scope.

(* ---------- Python values ---------- *)

Inductive bcls : Type := BPlain | BJank | BRaw | BArray.
Inductive ucls : Type := UHippo | UStd.
Inductive scls : Type := SList | STuple.
Inductive ccls : Type := CVec2 | CVec3 | CVec4 | CQuat.

Inductive yv : Type :=
| YNone
| YBool (b : bool)
| YInt (z : Z)
| YFloat (bits : N)
| YStr (s : list N)
| YBytes (c : bcls) (s : list N)
| YUuid (c : ucls) (u : list N)
| YCoord (k : ccls) (xs : list N)
| YSeq (c : scls) (l : list yv)
| YDict (m : list (list N * yv))
| YDate (bits : N)
| YUri (s : list N).

Section YvInd.
  Variable P : yv -> Prop.
  Hypothesis HNone : P YNone.
  Hypothesis HBool : forall b, P (YBool b).
  Hypothesis HInt : forall z, P (YInt z).
  Hypothesis HFloat : forall b, P (YFloat b).
  Hypothesis HStr : forall s, P (YStr s).
  Hypothesis HBytes : forall c s, P (YBytes c s).
  Hypothesis HUuid : forall c u, P (YUuid c u).
  Hypothesis HCoord : forall k xs, P (YCoord k xs).
  Hypothesis HSeq : forall c l, Forall P l -> P (YSeq c l).
  Hypothesis HDict : forall m, Forall (fun kv => P (snd kv)) m -> P (YDict m).
  Hypothesis HDate : forall b, P (YDate b).
  Hypothesis HUri : forall s, P (YUri s).

  Fixpoint yv_rect' (v : yv) : P v :=
    match v with
    | YNone => HNone
    | YBool b => HBool b
    | YInt z => HInt z
    | YFloat b => HFloat b
    | YStr s => HStr s
    | YBytes c s => HBytes c s
    | YUuid c u => HUuid c u
    | YCoord k xs => HCoord k xs
    | YSeq c l =>
        HSeq c l ((fix go (l : list yv) : Forall P l :=
                     match l with
                     | [] => Forall_nil _
                     | x :: r => Forall_cons x (yv_rect' x) (go r)
                     end) l)
    | YDict m =>
        HDict m ((fix go (m : list (list N * yv)) : Forall (fun kv => P (snd kv)) m :=
                    match m with
                    | [] => Forall_nil _
                    | kv :: r => Forall_cons kv (yv_rect' (snd kv)) (go r)
                    end) m)
    | YDate b => HDate b
    | YUri s => HUri s
    end.
End YvInd.

(* HippoLLSDNotationFormatter._generate: the LLSD constructor written for a Python value *)
Fixpoint tree_of (v : yv) : llsd :=
  match v with
  | YNone => Undef
  | YBool b => Bool b
  | YInt z => Int z
  | YFloat b => Real b
  | YStr s => Str s
  | YBytes BArray s => Arr (map (fun b => Int (Z.of_N b)) s)     (* ARRAY(iter(bytearray)) *)
  | YBytes _ s => Bin s
  | YUuid _ u => Uuid u
  | YCoord _ xs => Arr (map Real xs)                              (* TUPLECOORD: ARRAY(v.data()) *)
  | YSeq _ l => Arr (map tree_of l)
  | YDict m => Map (map (fun kv => (fst kv, tree_of (snd kv))) m)
  | YDate b => Date b
  | YUri s => Uri s
  end.

(* the Python value LLSDNotationParser builds *)
Fixpoint pv_of (t : llsd) : yv :=
  match t with
  | Undef => YNone
  | Bool b => YBool b
  | Int z => YInt z
  | Real b => YFloat b
  | Str s => YStr s
  | Uuid u => YUuid UStd u
  | Date b => YDate b
  | Uri s => YUri s
  | Bin s => YBytes BPlain s
  | Arr l => YSeq SList (map pv_of l)
  | Map m => YDict (map (fun kv => (fst kv, pv_of (snd kv))) m)
  end.

(* what a value has become after format_notation + parse_notation *)
Definition norm (v : yv) : yv := pv_of (tree_of v).

(* the values on which nothing is lost *)
Fixpoint plain (v : yv) : bool :=
  match v with
  | YBytes BPlain _ => true
  | YBytes _ _ => false
  | YUuid UStd _ => true
  | YUuid _ _ => false
  | YCoord _ _ => false
  | YSeq SList l => forallb plain l
  | YSeq _ _ => false
  | YDict m => forallb (fun kv => plain (snd kv)) m
  | _ => true
  end.

(* ---------- dict helpers (insertion-ordered, byte-string keys) ---------- *)

Notation ydict := (list (list N * yv)) (only parsing).

Fixpoint yget (k : list N) (m : ydict) : option yv :=
  match m with
  | [] => None
  | (k', v) :: r => if beq k k' then Some v else yget k r
  end.

(* d[k] = v : an existing key keeps its position *)
Fixpoint yset (k : list N) (v : yv) (m : ydict) : ydict :=
  match m with
  | [] => [(k, v)]
  | (k', v') :: r => if beq k k' then (k, v) :: r else (k', v') :: yset k v r
  end.

(* d.update(e) *)
Fixpoint yupdate (d e : ydict) : ydict :=
  match e with
  | [] => d
  | (k, v) :: r => yupdate (yset k v d) r
  end.

Fixpoint mapM {A B : Type} (f : A -> option B) (l : list A) : option (list B) :=
  match l with
  | [] => Some []
  | x :: r => match f x, mapM f r with
              | Some y, Some t => Some (y :: t)
              | _, _ => None
              end
  end.

(* ---------- key constants ---------- *)

Definition K_message : list N := [109; 101; 115; 115; 97; 103; 101].
Definition K_body : list N := [98; 111; 100; 121].
Definition K_packet_id : list N := [112; 97; 99; 107; 101; 116; 95; 105; 100].
Definition K_meta : list N := [109; 101; 116; 97].
Definition K_dropped : list N := [100; 114; 111; 112; 112; 101; 100].
Definition K_synthetic : list N := [115; 121; 110; 116; 104; 101; 116; 105; 99].
Definition K_direction : list N := [100; 105; 114; 101; 99; 116; 105; 111; 110].
Definition K_send_flags : list N := [115; 101; 110; 100; 95; 102; 108; 97; 103; 115].
Definition K_extra : list N := [101; 120; 116; 114; 97].
Definition K_acks : list N := [97; 99; 107; 115].
Definition K_type : list N := [116; 121; 112; 101].
Definition K_region_name : list N := [114; 101; 103; 105; 111; 110; 95; 110; 97; 109; 101].
Definition K_agent_id : list N := [97; 103; 101; 110; 116; 95; 105; 100].
Definition K_summary : list N := [115; 117; 109; 109; 97; 114; 121].
Definition K_event : list N := [101; 118; 101; 110; 116].
Definition K_IN : list N := [73; 78].
Definition K_OUT : list N := [79; 85; 84].
Definition K_LLUDP : list N := [76; 76; 85; 68; 80].
Definition K_EQ : list N := [69; 81].
Definition K_fill_missing : list N := [102; 105; 108; 108; 95; 109; 105; 115; 115; 105; 110; 103].
Definition K_RegionName : list N := [82; 101; 103; 105; 111; 110; 78; 97; 109; 101].
Definition K_AgentID : list N := [65; 103; 101; 110; 116; 73; 68].
Definition K_SessionID : list N := [83; 101; 115; 115; 105; 111; 110; 73; 68].
Definition K_AgentLocal : list N := [65; 103; 101; 110; 116; 76; 111; 99; 97; 108].
Definition K_Method : list N := [77; 101; 116; 104; 111; 100].
Definition K_Type : list N := [84; 121; 112; 101].
Definition K_SelectedLocal : list N := [83; 101; 108; 101; 99; 116; 101; 100; 76; 111; 99; 97; 108].
Definition K_SelectedFull : list N := [83; 101; 108; 101; 99; 116; 101; 100; 70; 117; 108; 108].

(* ---------- messages ---------- *)

Inductive dir : Type := DIn | DOut.
Definition dir_name (d : dir) : list N := match d with DIn => K_IN | DOut => K_OUT end.

(* a Block is its vars dict (Block.name is the key of the list it sits in: add_block
   files a block under block.name; Block.size, _ser_cache, fill_missing are not observed
   by to_dict) *)
Notation yblock := (list (list N * yv)) (only parsing).

(* Message: name, _blocks (dict block name -> MsgBlockList, a present-but-empty list is
   a key with []), packet_id (None or int), meta, dropped, synthetic, direction,
   send_flags, raw_extra (bytes or, for a parsed message, bytearray), acks (tuple or
   list).  Not observed by to_dict and not modelled: offset, body_boundaries, queued,
   finalized, sender, raw_body / deserializer (to_dict calls ensure_parsed first; lazy
   parsing is property C02). *)
Record msg : Type := mkMsg {
  m_name : list N;
  m_blocks : list (list N * list yblock);
  m_packet_id : option Z;
  m_meta : ydict;
  m_dropped : bool;
  m_synthetic : bool;
  m_direction : dir;
  m_flags : Z;
  m_extra_cls : bcls;
  m_extra : list N;
  m_acks_cls : scls;
  m_acks : list yv
}.

Definition yopt_int (o : option Z) : yv := match o with Some z => YInt z | None => YNone end.

(* Message.to_dict(extended) *)
Definition body_dict (m : msg) : ydict :=
  map (fun bl => (fst bl, YSeq SList (map YDict (snd bl)))) (m_blocks m).

Definition to_dict (extended : bool) (m : msg) : yv :=
  YDict ([(K_message, YStr (m_name m)); (K_body, YDict (body_dict m))]
         ++ if extended then
              [(K_packet_id, yopt_int (m_packet_id m));
               (K_meta, YDict (m_meta m));                         (* self.meta.copy() *)
               (K_dropped, YBool (m_dropped m));
               (K_synthetic, YBool (m_synthetic m));
               (K_direction, YStr (dir_name (m_direction m)));
               (K_send_flags, YInt (m_flags m));
               (K_extra, YBytes BPlain (m_extra m));               (* bytes(self.extra) *)
               (K_acks, YSeq (m_acks_cls m) (m_acks m))]
            else []).

(* Block(block_type, **block) followed by finalize(): a keyword called fill_missing is
   taken by the constructor, a name ending in '_' is popped by finalize() and sent
   through a subfield serializer - both outside the model (no template variable is
   named like that) *)
Fixpoint last_is (c : N) (s : list N) : bool :=
  match s with
  | [] => false
  | [x] => x =? c
  | _ :: r => last_is c r
  end.

Definition name_ok (k : list N) : bool := negb (last_is 95 k) && negb (beq k K_fill_missing).

Definition block_of (v : yv) : option yblock :=
  match v with
  | YDict vars =>
      if keys_nodup (map fst vars) && forallb (fun kv => name_ok (fst kv)) vars then Some vars else None
  | _ => None
  end.

Definition blocklist_of (v : yv) : option (list yblock) :=
  match v with
  | YSeq _ l => mapM block_of l
  | _ => None
  end.

(* for block_type, blocks in dict_val['body'].items(): create_block_list(block_type);
   for block in blocks: add_block(Block(block_type, **block)).  A dict has distinct
   keys, so every item opens its own list and the blocks are appended to it in order. *)
Definition body_of (v : yv) : option (list (list N * list yblock)) :=
  match v with
  | YDict m =>
      if keys_nodup (map fst m) then
        mapM (fun kv => match blocklist_of (snd kv) with
                        | Some bl => Some (fst kv, bl)
                        | None => None
                        end) m
      else None
  | _ => None
  end.

Definition dir_of (s : list N) : option dir :=        (* Direction[name] *)
  if beq s K_IN then Some DIn else if beq s K_OUT then Some DOut else None.

(* Message.from_dict.  None = the code raises (KeyError, TypeError) or the value has a
   type the typed record cannot hold (outside the model). *)
Definition from_dict (d : yv) : option msg :=
  match d with
  | YDict dv =>
      match yget K_message dv, yget K_body dv with
      | Some (YStr name), Some body =>
          match body_of body with
          | Some blocks =>
              match yget K_packet_id dv with
              | None =>
                  (* Message(name): packet_id None, flags 0, acks (), direction OUT, synthetic *)
                  Some (mkMsg name blocks None [] false true DOut 0%Z BPlain [] STuple [])
              | Some pid =>
                  match pid, yget K_meta dv, yget K_dropped dv, yget K_synthetic dv,
                        yget K_direction dv, yget K_send_flags dv, yget K_extra dv, yget K_acks dv with
                  | YNone, Some (YDict meta), Some (YBool dr), Some (YBool sy), Some (YStr dn), Some (YInt fl),
                    Some (YBytes ec ex), Some (YSeq ac al) =>
                      match dir_of dn with
                      | Some di => Some (mkMsg name blocks None meta dr sy di fl ec ex ac al)
                      | None => None
                      end
                  | YInt p, Some (YDict meta), Some (YBool dr), Some (YBool sy), Some (YStr dn), Some (YInt fl),
                    Some (YBytes ec ex), Some (YSeq ac al) =>
                      match dir_of dn with
                      | Some di => Some (mkMsg name blocks (Some p) meta dr sy di fl ec ex ac al)
                      | None => None
                      end
                  | _, _, _, _, _, _, _, _ => None
                  end
              end
          | None => None
          end
      | _, _ => None
      end
  | _ => None
  end.

(* what a message has become after to_dict, notation and from_dict *)
Definition norm_vars (d : ydict) : ydict := map (fun kv => (fst kv, norm (snd kv))) d.

Definition norm_msg (m : msg) : msg :=
  mkMsg (m_name m)
        (map (fun bl => (fst bl, map norm_vars (snd bl))) (m_blocks m))
        (m_packet_id m) (norm_vars (m_meta m)) (m_dropped m) (m_synthetic m) (m_direction m) (m_flags m)
        BPlain (m_extra m) SList (map norm (m_acks m)).

(* only bytes(self.extra) is lost by the dict form itself *)
Definition plain_extra (m : msg) : msg :=
  mkMsg (m_name m) (m_blocks m) (m_packet_id m) (m_meta m) (m_dropped m) (m_synthetic m) (m_direction m) (m_flags m)
        BPlain (m_extra m) (m_acks_cls m) (m_acks m).

(* dict invariants of a message: distinct block names, distinct variable names, names a
   keyword argument can carry through Block() *)
Definition wf_block (b : yblock) : bool :=
  keys_nodup (map fst b) && forallb (fun kv => name_ok (fst kv)) b.

Definition wf_msg (m : msg) : bool :=
  keys_nodup (map fst (m_blocks m)) && forallb (fun bl => forallb wf_block (snd bl)) (m_blocks m).

Definition plain_msg (m : msg) : bool :=
  forallb (fun bl => forallb (fun b => forallb (fun kv => plain (snd kv)) b) (snd bl)) (m_blocks m)
  && forallb (fun kv => plain (snd kv)) (m_meta m)
  && match m_extra_cls m with BPlain => true | _ => false end
  && match m_acks_cls m with SList => true | _ => false end
  && forallb plain (m_acks m).

(* the LLSD tree of the exported message and "same exported form" *)
Definition msg_tree (m : msg) : llsd := tree_of (to_dict true m).

(* ---------- LLUDPMessageLogEntry._restore_value_classes (since fix 23066bc) ---------- *)

(* what the template says about a variable, as far as the restoration reads it:
   _COORD_CLASSES[tmpl_var.type] (LLVector3 / LLVector3d -> Vector3, LLVector4 -> Vector4,
   LLQuaternion -> Quaternion), or "Fixed / Variable and not probably_binary" *)
Inductive vkind : Type := KCoord (k : ccls) | KStringy.

(* template lookup: message name, block name, variable name -> None when the message, the
   block or the variable is not in the template or the variable is of another type (the
   code does nothing in all these cases).  The live template is supplied by the harness
   with every case. *)
Definition tmpl : Type := list N -> list N -> list N -> option vkind.

Definition coord_arity (k : ccls) : nat := match k with CVec2 => 2 | CVec3 => 3 | CVec4 | CQuat => 4 end.
Definition F_ONE : N := 4607182418800017408.        (* 1.0 *)
(* the constructor defaults of the vectors: 0.0.  Quaternion(X, Y, Z) computes W with float
   arithmetic (sqrt(1 - |v|^2)): only the full four components are inside the model *)
Definition coord_defaults (k : ccls) : list N :=
  match k with CVec2 => [0; 0] | CVec3 => [0; 0; 0] | CVec4 => [0; 0; 0; 0] | CQuat => [0; 0; 0; F_ONE] end.
Definition coord_len_ok (k : ccls) (n : nat) : bool :=
  match k with CQuat => (n =? 4)%nat | _ => (n <=? coord_arity k)%nat end.

Definition float_of (v : yv) : option N := match v with YFloat b => Some b | _ => None end.

(* one variable.  None = the code raises (the coordinate constructor applied to too many
   components) or the case is outside the model (a component that is not a float: float() of
   it; a Quaternion from fewer than four components) *)
Definition restore_val (tv : option vkind) (v : yv) : option yv :=
  match v with
  | YUuid UStd u => Some (YUuid UHippo u)                       (* type(value) is uuid.UUID *)
  | _ =>
      match tv with
      | None => Some v
      | Some (KCoord k) =>
          match v with
          | YSeq SList l =>                                     (* isinstance(value, list) *)
              match mapM float_of l with
              | Some xs =>
                  if coord_len_ok k (length xs)
                  then Some (YCoord k (xs ++ skipn (length xs) (coord_defaults k)))
                  else None
              | None => None
              end
          | _ => Some v
          end
      | Some KStringy =>
          match v with
          | YBytes BPlain s => Some (YBytes BJank s)            (* type(value) is bytes *)
          | _ => Some v
          end
      end
  end.

Definition restore_vars (tb : list N -> option vkind) (b : ydict) : option ydict :=
  mapM (fun kv => match restore_val (tb (fst kv)) (snd kv) with Some v => Some (fst kv, v) | None => None end) b.

Definition restore_msg (tk : tmpl) (m : msg) : option msg :=
  match mapM (fun bl => match mapM (restore_vars (tk (m_name m) (fst bl))) (snd bl) with
                        | Some l => Some (fst bl, l)
                        | None => None
                        end) (m_blocks m) with
  | Some blocks =>
      Some (mkMsg (m_name m) blocks (m_packet_id m) (m_meta m) (m_dropped m) (m_synthetic m) (m_direction m) (m_flags m)
                  (m_extra_cls m) (m_extra m) (m_acks_cls m) (m_acks m))
  | None => None
  end.

(* a value that has the class the deserializer gives a variable of this kind: it comes
   back from export / import as itself *)
Definition is_coord (tv : option vkind) : bool := match tv with Some (KCoord _) => true | _ => false end.
Definition is_stringy (tv : option vkind) : bool := match tv with Some KStringy => true | _ => false end.
Definition ccls_eqb (a b : ccls) : bool :=
  match a, b with CVec2, CVec2 | CVec3, CVec3 | CVec4, CVec4 | CQuat, CQuat => true | _, _ => false end.

Definition deser_val (tv : option vkind) (v : yv) : bool :=
  match v with
  | YUuid UHippo _ => true
  | YUuid UStd _ => false
  | YCoord k xs => match tv with Some (KCoord k') => ccls_eqb k k' && (length xs =? coord_arity k)%nat | _ => false end
  | YBytes BJank _ => is_stringy tv
  | YBytes BPlain _ => negb (is_stringy tv)
  | YBytes _ _ => false
  | YSeq SList l => negb (is_coord tv) && forallb plain l
  | YSeq STuple _ => false
  | YDict m => forallb (fun kv => plain (snd kv)) m
  | _ => true
  end.

(* a message as the deserializer builds it, as far as classes go: every variable has the
   class of its template kind, meta and acks hold plain values *)
Definition deser_classes (tk : tmpl) (m : msg) : bool :=
  forallb (fun bl => forallb (fun b => forallb (fun kv => deser_val (tk (m_name m) (fst bl) (fst kv)) (snd kv)) b) (snd bl))
          (m_blocks m)
  && forallb (fun kv => plain (snd kv)) (m_meta m)
  && forallb plain (m_acks m).

(* ... and what is still lost of such a message: extra is bytes (a parsed message holds a
   bytearray), acks a list (the deserializer stores a tuple); Message.__eq__ reads neither *)
Definition flat (m : msg) : msg :=
  mkMsg (m_name m) (m_blocks m) (m_packet_id m) (m_meta m) (m_dropped m) (m_synthetic m) (m_direction m) (m_flags m)
        BPlain (m_extra m) SList (m_acks m).

(* ---------- log entries ---------- *)

Definition yopt_str (o : option (list N)) : yv := match o with Some s => YStr s | None => YNone end.

(* truthiness, for the `if meta[key]:` / `if val['agent_id']` tests *)
Definition y_nonempty {A} (l : list A) : bool := match l with [] => false | _ => true end.
Definition y_truthy (v : yv) : bool :=
  match v with
  | YNone => false
  | YBool b => b
  | YInt z => negb (Z.eqb z 0)
  | YFloat b => negb ((b =? 0) || (b =? 9223372036854775808))
  | YStr s | YUri s => y_nonempty s
  | YBytes BJank s => negb (beq s [] || beq s [0])
  | YBytes _ s => y_nonempty s
  | YUuid _ _ | YCoord _ _ | YDate _ => true
  | YSeq _ l => y_nonempty l
  | YDict m => y_nonempty m
  end.

(* _dehydrate_meta_uuid(key): if meta[key]: meta[key] = str(meta[key]).
   None = KeyError, or str() of something that is not a UUID (outside the model) *)
Definition dehydrate (k : list N) (meta : ydict) : option ydict :=
  match yget k meta with
  | None => None
  | Some v =>
      if y_truthy v then
        match v with
        | YUuid _ u => Some (yset k (YStr (uuid_text u)) meta)
        | YStr s => Some (yset k (YStr s) meta)
        | _ => None
        end
      else Some meta
  end.

(* _hydrate_meta_uuid(key): if meta[key]: meta[key] = UUID(meta[key]).
   None = KeyError / ValueError, or a spelling other than 8-4-4-4-12 (outside the model) *)
Definition uuid_of_str (s : list N) : option (list N) :=
  if (length s =? 36)%nat then parse_uuid_text s else None.

Definition hydrate (k : list N) (meta : ydict) : option ydict :=
  match yget k meta with
  | None => None
  | Some v =>
      if y_truthy v then
        match v with
        | YStr s => match uuid_of_str s with Some u => Some (yset k (YUuid UHippo u) meta) | None => None end
        | _ => None
        end
      else Some meta
  end.

Definition bind {A B} (o : option A) (f : A -> option B) : option B :=
  match o with Some x => f x | None => None end.

Definition dehydrate_all (meta : ydict) : option ydict :=
  bind (dehydrate K_AgentID meta) (fun m1 => bind (dehydrate K_SelectedFull m1) (dehydrate K_SessionID)).
Definition hydrate_all (meta : ydict) : option ydict :=
  bind (hydrate K_AgentID meta) (fun m1 => bind (hydrate K_SelectedFull m1) (hydrate K_SessionID)).

(* what an entry logs: an LLUDP message or an event-queue event (any LLSD value as the
   Python object the parsers build).  HTTP entries export mitmproxy's flow state and are
   not modelled. *)
Inductive payload : Type :=
| PUdp (m : msg)
| PEq (ev : yv).

(* the fields AbstractMessageLogEntry keeps once region and session are gone, with the
   message already resolved (live or thawed: see the freeze section) *)
Record lentry : Type := mkLE {
  le_region_name : option (list N);       (* _region_name *)
  le_agent_id : option (list N);          (* _agent_id, the 16 bytes *)
  le_summary : option (list N);           (* _summary cache *)
  le_meta : ydict;
  le_payload : payload
}.

Definition type_name (p : payload) : list N := match p with PUdp _ => K_LLUDP | PEq _ => K_EQ end.
Definition method_name (p : payload) : list N := match p with PUdp m => dir_name (m_direction m) | PEq _ => [] end.

(* the meta dict __init__ builds when region and session are None *)
Definition base_meta (p : payload) : ydict :=
  [(K_RegionName, YStr []); (K_AgentID, YNone); (K_SessionID, YNone); (K_AgentLocal, YNone);
   (K_Method, YStr (method_name p)); (K_Type, YStr (type_name p)); (K_SelectedLocal, YNone); (K_SelectedFull, YNone)].

(* the region_name property without a live region *)
Definition region_name (e : lentry) : list N :=
  match le_region_name e with Some s => s | None => [] end.

Section Entries.
  (* library oracles *)
  Variable rreal : N -> list N.                 (* repr(float) *)
  Variable rdate : N -> list N.                 (* _format_datestr *)
  Variable preal : list N -> option N.          (* float(text) *)
  Variable pdate : list N -> option N.          (* _parse_datestr *)
  Variable summ : payload -> list N.            (* Message.to_summary()[:500] / format_notation(body)[:500] *)
  Variable tk : tmpl.                           (* the message template, as far as _restore_value_classes reads it *)
  Variable pyrepr : yv -> list N.               (* repr(x).encode("utf8") *)
  Variable pyeval : list N -> option yv.        (* ast.literal_eval(data.decode("utf8")) *)
  Variable gz : list N -> list N.               (* gzip.compress *)
  Variable gunz : list N -> option (list N).    (* gzip.decompress *)

  Definition summary (e : lentry) : list N :=
    match le_summary e with Some s => s | None => summ (le_payload e) end.

  (* llsd.format_notation(python value) *)
  Definition notation (v : yv) : list N := fmt_not rreal rdate (tree_of v).
  (* llsd.parse_notation(bytes) as a Python value *)
  Definition of_notation (bs : list N) : option yv :=
    match parse_not preal pdate bs with Some t => Some (pv_of t) | None => None end.

  (* AbstractMessageLogEntry.to_dict + the subclass part *)
  Definition entry_to_dict (e : lentry) : option yv :=
    match dehydrate_all (le_meta e) with
    | None => None
    | Some meta =>
        Some (YDict [(K_type, YStr (type_name (le_payload e)));
                     (K_region_name, YStr (region_name e));
                     (K_agent_id, match le_agent_id e with Some a => YStr (uuid_text a) | None => YNone end);
                     (K_summary, YStr (summary e));
                     (K_meta, YDict meta);
                     match le_payload e with
                     | PUdp m => (K_message, YBytes BPlain (notation (to_dict true m)))
                     | PEq ev => (K_event, YBytes BPlain (notation ev))
                     end])
    end.

  (* apply_dict on the entry cls(payload, None, None) *)
  Definition apply_dict (p : payload) (val : ydict) : option lentry :=
    match yget K_region_name val, yget K_agent_id val, yget K_summary val, yget K_meta val with
    | Some (YStr rn), Some aid, Some (YStr sm), Some (YDict meta) =>
        match (if y_truthy aid then
                 match aid with
                 | YStr s => match uuid_of_str s with Some u => Some (Some u) | None => None end
                 | _ => None
                 end
               else Some None), hydrate_all meta with
        | Some a, Some meta' => Some (mkLE (Some rn) a (Some sm) (yupdate (base_meta p) meta') p)
        | _, _ => None
        end
    | _, _, _, _ => None
    end.

  (* _TYPE_CLASSES[e['type']].from_dict(e) *)
  Definition entry_from_dict (d : yv) : option lentry :=
    match d with
    | YDict val =>
        match yget K_type val with
        | Some (YStr ty) =>
            if beq ty K_LLUDP then
              match yget K_message val with
              | Some (YBytes _ bs) =>
                  match of_notation bs with
                  | Some dv =>
                      match from_dict dv with
                      | Some m0 => match restore_msg tk m0 with Some m => apply_dict (PUdp m) val | None => None end
                      | None => None
                      end
                  | None => None
                  end
              | _ => None
              end
            else if beq ty K_EQ then
              match yget K_event val with
              | Some (YBytes _ bs) =>
                  match of_notation bs with
                  | Some ev => apply_dict (PEq ev) val
                  | None => None
                  end
              | _ => None
              end
            else None                                  (* "HTTP": not modelled; anything else: KeyError *)
        | _ => None
        end
    | _ => None
    end.

  (* export_log_entries / import_log_entries *)
  Definition export_payload (es : list lentry) : option yv :=
    match mapM entry_to_dict es with Some ds => Some (YSeq SList ds) | None => None end.

  Definition export_log_entries (es : list lentry) : option (list N) :=
    match export_payload es with Some v => Some (gz (pyrepr v)) | None => None end.

  Definition import_log_entries (data : list N) : option (list lentry) :=
    match gunz data with
    | Some txt =>
        match pyeval txt with
        | Some (YSeq _ ds) => mapM entry_from_dict ds
        | _ => None
        end
    | None => None
    end.

  (* the entry import_log_entries(export_log_entries([e])) builds *)
  Definition norm_payload (p : payload) : option payload :=
    match p with
    | PUdp m => match restore_msg tk (norm_msg m) with Some m' => Some (PUdp m') | None => None end
    | PEq ev => Some (PEq (norm ev))
    end.

  (* base_meta reads the direction and the entry class only: the same before and after *)
  Definition imported_meta (p : payload) (meta : ydict) : option ydict :=
    match bind (dehydrate_all meta) hydrate_all with
    | Some meta' => Some (yupdate (base_meta p) meta')
    | None => None
    end.

  Definition norm_entry (e : lentry) : option lentry :=
    match imported_meta (le_payload e) (le_meta e), norm_payload (le_payload e) with
    | Some meta', Some p' => Some (mkLE (Some (region_name e)) (le_agent_id e) (Some (summary e)) meta' p')
    | _, _ => None
    end.

  (* what C12's notation theorem needs of the exported trees, per entry *)
  Definition payload_tree (p : payload) : llsd :=
    match p with PUdp m => msg_tree m | PEq ev => tree_of ev end.

  Definition payload_ok (p : payload) : bool :=
    wfn (payload_tree p) && oracles_ok rreal rdate preal pdate (payload_tree p)
    && match p with
       | PUdp m => wf_msg m && match restore_msg tk (norm_msg m) with Some _ => true | None => false end
       | PEq _ => true
       end.

  Definition uuid_ok (u : list N) : bool := (length u =? 16)%nat && bytes_okb u.

  (* the three UUID-valued meta keys are present and hold None or a UUID *)
  Definition meta_uuid_ok (k : list N) (meta : ydict) : bool :=
    match yget k meta with
    | Some YNone => true
    | Some (YUuid _ u) => uuid_ok u
    | _ => false
    end.

  Definition entry_ok (e : lentry) : bool :=
    payload_ok (le_payload e)
    && meta_uuid_ok K_AgentID (le_meta e) && meta_uuid_ok K_SelectedFull (le_meta e) && meta_uuid_ok K_SessionID (le_meta e)
    && match le_agent_id e with Some a => uuid_ok a | None => true end.
End Entries.

(* the meta of an entry as __init__ leaves it: the eight keys in this order, UUIDs of
   the hippolyzer class, Method / Type as the properties return them *)
Definition is_none_or (f : yv -> bool) (v : yv) : bool := match v with YNone => true | _ => f v end.
Definition is_huuid (v : yv) : bool :=
  match v with YUuid UHippo u => (length u =? 16)%nat && bytes_okb u | _ => false end.
Definition is_int (v : yv) : bool := match v with YInt _ => true | _ => false end.

Definition str_is (f : list N -> bool) (v : yv) : bool := match v with YStr s => f s | _ => false end.

Definition std_meta (p : payload) (meta : ydict) : bool :=
  match meta with
  | [(k1, rn); (k2, a); (k3, s); (k4, al); (k5, me); (k6, ty); (k7, sl); (k8, sf)] =>
      beq k1 K_RegionName && beq k2 K_AgentID && beq k3 K_SessionID && beq k4 K_AgentLocal
      && beq k5 K_Method && beq k6 K_Type && beq k7 K_SelectedLocal && beq k8 K_SelectedFull
      && str_is (fun _ => true) rn
      && is_none_or is_huuid a && is_none_or is_huuid s && is_none_or is_int al && is_none_or is_int sl
      && is_none_or is_huuid sf && str_is (fun x => beq x (method_name p)) me && str_is (fun x => beq x (type_name p)) ty
  | _ => false
  end.

(* ---------- freeze / thaw ---------- *)

(* LLUDPMessageLogEntry keeps either a reference to the live Message (_message) or its
   pickle (_frozen_message).  The live message is a shared mutable object: [heap] maps
   references to their current contents.  pickle is a library oracle: [pk] / [unpk] over
   "None or a Message" (freeze can pickle None, see below).
   [repickle] = which object freeze() pickles: true = the local `message` it has just resolved
   (the code since fix e4edfe3), false = self._message (the code before: None once frozen, so
   a second freeze() lost the message - kept as history).  The harness probes the live code
   and drives the model with the value it finds. *)
Record ustate : Type := mkU {
  u_message : option nat;            (* _message *)
  u_frozen : option (list N);        (* _frozen_message *)
  u_name : list N;                   (* _name *)
  u_direction : dir;                 (* _direction *)
  u_seq : option Z                   (* _seq *)
}.

Section Freeze.
  Variable repickle : bool.
  Variable pk : option msg -> list N.
  Variable unpk : list N -> option (option msg).

  Definition heap : Type := nat -> msg.

  (* LLUDPMessageLogEntry(message, ...) *)
  Definition u_init (h : heap) (r : nat) : ustate :=
    mkU (Some r) None (m_name (h r)) (m_direction (h r)) (m_packet_id (h r)).

  (* the message property.  None = raises (ValueError: neither fresh nor frozen;
     AttributeError: the pickle holds None) *)
  Definition u_msg (h : heap) (u : ustate) : option msg :=
    match u_message u with
    | Some r => Some (h r)
    | None =>
        match u_frozen u with
        | Some blob =>
            if y_nonempty blob then
              match unpk blob with
              | Some (Some m) => Some m
              | _ => None
              end
            else None
        | None => None
        end
    end.

  (* freeze().  None = raises (self.message raised) *)
  Definition u_freeze (h : heap) (u : ustate) : option ustate :=
    match u_msg h u with
    | None => None
    | Some m =>
        let obj := if repickle then Some m
                   else match u_message u with Some r => Some (h r) | None => None end in
        Some (mkU None (Some (pk obj)) (u_name u) (u_direction u) (u_seq u))
    end.

  (* the name / method / seq properties: refreshed from the live message, else the cache *)
  Definition u_get_name (h : heap) (u : ustate) : list N :=
    match u_message u with Some r => m_name (h r) | None => u_name u end.
  Definition u_get_method (h : heap) (u : ustate) : list N :=
    dir_name (match u_message u with Some r => m_direction (h r) | None => u_direction u end).
  Definition u_get_seq (h : heap) (u : ustate) : option Z :=
    match u_message u with Some r => m_packet_id (h r) | None => u_seq u end.

  (* ... and reading them while the message is live also writes the caches *)
  Definition u_touch (h : heap) (u : ustate) : ustate :=
    match u_message u with
    | Some r => mkU (u_message u) (u_frozen u) (m_name (h r)) (m_direction (h r)) (m_packet_id (h r))
    | None => u
    end.

  (* the entry export sees: the common fields around the resolved message *)
  Definition resolve (h : heap) (u : ustate) (rn aid sm : option (list N)) (meta : ydict) : option lentry :=
    match u_msg h u with
    | Some m => Some (mkLE rn aid sm meta (PUdp m))
    | None => None
    end.

  (* n calls of freeze() *)
  Fixpoint u_freeze_n (n : nat) (h : heap) (u : ustate) : option ustate :=
    match n with
    | O => Some u
    | S k => match u_freeze h u with Some u' => u_freeze_n k h u' | None => None end
    end.
End Freeze.
