(* Model of the message-log filter language
   (hippolyzer/lib/proxy/message_filter.py: UnaryNotFilterNode / OrFilterNode /
   AndFilterNode / MessageFilterNode, MatchResult) and of the leaf semantics
   (hippolyzer/lib/proxy/message_logger.py: AbstractMessageLogEntry._base_matches /
   _val_matches / _apply_operator / _packet_root_matches, LLUDPMessageLogEntry.matches
   and _get_meta, HTTPMessageLogEntry._get_meta; hippolyzer/lib/base/datatypes.py:
   TupleCoord / JankStringyBytes comparison dunders).

   Definitions only; proofs are in FilterProofs.v.

   The model follows the code as it is now (after fixes ee20324, 2a50dc8): _val_matches
   answers a real bool for every operator and every pair of types; the only exceptions
   left are those raised while an ill-formed expected value is resolved ([OX]/[Err]).

   Strings are lists of code points ([list N]); bytes are lists of [N] < 256.
   Python values that can reach _apply_operator are the type [pv]. *)
From Coq Require Import NArith ZArith List Bool.
Import ListNotations.

Definition str := list N.

(* ------------------------------------------------------------------ *)
(* sequences *)

Fixpoint seq_eqb (a b : str) : bool :=
  match a, b with
  | [], [] => true
  | x :: a', y :: b' => N.eqb x y && seq_eqb a' b'
  | _, _ => false
  end.

Fixpoint prefixb (p s : str) : bool :=
  match p, s with
  | [], _ => true
  | x :: p', y :: s' => N.eqb x y && prefixb p' s'
  | _ :: _, [] => false
  end.

Definition suffixb (p s : str) : bool := prefixb (rev p) (rev s).

(* [p in s] for str/bytes: contiguous subsequence *)
Fixpoint infixb (p s : str) : bool :=
  prefixb p s || match s with [] => false | _ :: s' => infixb p s' end.

Fixpoint seq_cmp (a b : str) : comparison :=
  match a, b with
  | [], [] => Eq
  | [], _ :: _ => Lt
  | _ :: _, [] => Gt
  | x :: a', y :: b' => match N.compare x y with Eq => seq_cmp a' b' | c => c end
  end.

(* fnmatch.fnmatchcase restricted to the only wildcard an identifier of the
   filter grammar can contain, '*' (42) *)
Fixpoint glob (p : str) : str -> bool :=
  match p with
  | [] => fun s => match s with [] => true | _ :: _ => false end
  | c :: p' =>
      if N.eqb c 42 then
        fix star (s : str) : bool :=
          glob p' s || match s with [] => false | _ :: s' => star s' end
      else fun s => match s with [] => false | x :: s' => N.eqb x c && glob p' s' end
  end.

(* str.lower() on ASCII *)
Definition lower1 (c : N) : N := if (N.leb 65 c && N.leb c 90)%bool then (c + 32)%N else c.
Definition lower (s : str) : str := map lower1 s.

(* ------------------------------------------------------------------ *)
(* Python values *)

(* bool / int / float; the value is the exact rational nnum/nden (nden = 1 for
   bool and int), so int/float comparisons are exact as in Python *)
Inductive nk := KB | KI | KF.
Record num := mkNum { nkind : nk; nnum : Z; nden : positive }.

Definition num_cmp (a b : num) : comparison :=
  Z.compare (nnum a * Zpos (nden b)) (nnum b * Zpos (nden a)).
Definition num_eqb (a b : num) : bool := match num_cmp a b with Eq => true | _ => false end.
Definition num_nonzero (a : num) : bool := negb (Z.eqb (nnum a) 0).
Definition int_like (a : num) : bool := match nkind a with KF => false | _ => true end.

Fixpoint tup_cmp (a b : list num) : comparison :=
  match a, b with
  | [], [] => Eq
  | [], _ :: _ => Lt
  | _ :: _, [] => Gt
  | x :: a', y :: b' => match num_cmp x y with Eq => tup_cmp a' b' | c => c end
  end.
Definition tup_eqb (a b : list num) : bool := match tup_cmp a b with Eq => true | _ => false end.

Inductive pv :=
| PNone
| PNum (x : num)
| PStr (s : str)
| PBytes (jank : option str) (b : str)    (* Some r: JankStringyBytes with str(v) = r *)
| PTup (l : list num)                     (* tuple of numbers *)
| PCoord (l : list num) (rendering : str) (* TupleCoord (Vector3, ...); rendering = str(v) *)
| POther (rendering : str).               (* any other object (UUID, ...); rendering = str(v) *)

Inductive op := OEq | ONe | OStarts | OEnds | OIn | OLt | OLe | OGt | OGe | OBand.

Inductive pexn := XValue | XType | XAttr | XKey.

(* what _val_matches returns: a bool (bool(_apply_operator(...))), or an exception raised
   while resolving the expected value (outside its try).  [OI] is no longer produced. *)
Inductive ores := OB (b : bool) | OI (z : Z) | OX (x : pexn).

(* `if not isinstance(val, (int, float, bytes, str, type(None), tuple, TupleCoord)): val = str(val)` *)
Definition norm_val (v : pv) : pv := match v with POther r => PStr r | _ => v end.
(* Meta expected: `if not isinstance(expected, (int, float, bytes, str, type(None), tuple)): expected = str(expected)` *)
Definition norm_exp (v : pv) : pv :=
  match v with POther r => PStr r | PCoord _ r => PStr r | _ => v end.

(* bool(val) *)
Definition truthy (v : pv) : bool :=
  match v with
  | PNone => false
  | PNum x => num_nonzero x
  | PStr s => negb (seq_eqb s [])
  | PBytes None b => negb (seq_eqb b [])
  | PBytes (Some _) b => negb (seq_eqb b [] || seq_eqb b [0%N])   (* JankStringyBytes.__bool__ *)
  | PTup l => match l with [] => false | _ => true end
  | PCoord _ _ => true
  | POther _ => true
  end.

(* val == expected (expected is never a TupleCoord, see norm_exp) *)
Definition py_eq (a b : pv) : bool :=
  match a, b with
  | PNone, PNone => true
  | PNum x, PNum y => num_eqb x y
  | PStr s, PStr t => seq_eqb s t
  | PBytes _ x, PBytes _ y => seq_eqb x y
  | PBytes (Some r) _, PStr t => seq_eqb r t         (* JankStringyBytes.__eq__(str): str(self) == other *)
  | PStr t, PBytes (Some r) _ => seq_eqb r t         (* reflected *)
  | PTup x, PTup y => tup_eqb x y
  | PCoord x _, PTup y => tup_eqb x y                (* TupleCoord.__eq__: other == self.data() *)
  | _, _ => false
  end.

(* val != expected: TupleCoord.__ne__ and JankStringyBytes.__ne__ are the negation of
   __eq__ (NotImplemented falls back to identity, i.e. True for a foreign operand) *)
Definition py_ne (a b : pv) : bool := negb (py_eq a b).

Definition cmp_holds (o : op) (c : comparison) : bool :=
  match o, c with
  | OLt, Lt => true
  | OLe, Lt | OLe, Eq => true
  | OGt, Gt => true
  | OGe, Gt | OGe, Eq => true
  | _, _ => false
  end.

(* all(x OP y for x, y in zip(self, other)) *)
Fixpoint all_zip (o : op) (a b : list num) : bool :=
  match a, b with
  | x :: a', y :: b' => cmp_holds o (num_cmp x y) && all_zip o a' b'
  | _, _ => true
  end.

Definition byte_num (b : N) : num := mkNum KI (Z.of_N b) 1.

(* val OP expected for < <= > >= ; TypeError => False *)
Definition py_order (o : op) (a b : pv) : bool :=
  match a, b with
  | PNum x, PNum y => cmp_holds o (num_cmp x y)
  | PStr s, PStr t => cmp_holds o (seq_cmp s t)
  | PBytes _ x, PBytes _ y => cmp_holds o (seq_cmp x y)
  | PTup x, PTup y => cmp_holds o (tup_cmp x y)
  | PCoord x _, PTup y => all_zip o x y
  | PCoord x _, PBytes _ y => all_zip o x (map byte_num y)
  | PCoord x _, PStr t =>
      (* zip with a str: no pair => all([]) = True; else float < str raises TypeError *)
      match x, t with [], _ => true | _, [] => true | _, _ => false end
  | _, _ => false
  end.

(* val.startswith(expected) / endswith ; AttributeError / TypeError => False *)
Definition py_affix (ends : bool) (a b : pv) : bool :=
  match a, b with
  | PStr s, PStr p => if ends then suffixb p s else prefixb p s
  | PBytes _ s, PBytes _ p => if ends then suffixb p s else prefixb p s
  | _, _ => false
  end.

(* expected in val.  `n in some_bytes` raises ValueError for an int outside
   range(256); _val_matches catches it (TypeError, AttributeError, ValueError => False) *)
Definition py_in (a b : pv) : ores :=
  match a, b with
  | PStr s, PStr p => OB (infixb p s)
  | PBytes (Some r) _, PStr p => OB (infixb p r)        (* JankStringyBytes.__contains__(str) *)
  | PBytes _ s, PBytes _ p => OB (infixb p s)
  | PBytes _ s, PNum x =>
      if int_like x then
        if (Z.leb 0 (nnum x) && Z.ltb (nnum x) 256)%bool
        then OB (existsb (fun c => Z.eqb (Z.of_N c) (nnum x)) s)
        else OB false
      else OB false
  | PTup l, PNum x => OB (existsb (fun y => num_eqb y x) l)
  | PCoord l _, PNum x => OB (existsb (fun y => num_eqb y x) l)
  | _, _ => OB false
  end.

(* val & expected *)
Definition py_band (a b : pv) : ores :=
  match a, b with
  | PNum x, PNum y =>
      match nkind x, nkind y with
      | KB, KB => OB (num_nonzero x && num_nonzero y)
      | KF, _ | _, KF => OB false
      | _, _ => OB (negb (Z.eqb (Z.land (nnum x) (nnum y)) 0))   (* bool(val & expected) *)
      end
  | _, _ => OB false
  end.

(* _apply_operator inside the try/except of _val_matches; [a] is the field value,
   [b] the expected value; operator None is handled by the caller *)
Definition apply_op (o : op) (a b : pv) : ores :=
  match o with
  | OEq => OB (py_eq a b)
  | ONe => OB (py_ne a b)
  | OStarts => match a with PNone => OB false | _ => OB (py_affix false a b) end
  | OEnds => match a with PNone => OB false | _ => OB (py_affix true a b) end
  | OIn => match a with PNone => OB false | _ => py_in a b end
  | OLt | OLe | OGt | OGe => OB (py_order o a b)
  | OBand => py_band a b
  end.

(* ------------------------------------------------------------------ *)
(* filter expressions *)

(* what an EnumFieldSpecifier resolves to in hippolyzer.lib.proxy.templates
   (supplied as data by the harness): the member's value, or the exception *)
Inductive eres := ERes (v : pv) | ENoEnum | ENoField.

Inductive value :=
| VLit (v : pv)                          (* LiteralValue *)
| VMeta (names : list str)               (* MetaFieldSpecifier *)
| VEnum (ename fname : str) (r : eres).  (* EnumFieldSpecifier *)

(* MessageFilterNode(selector, operator, value): the grammar gives either both
   operator and value or neither; the selector is non-empty *)
Inductive fexp :=
| Leaf (s0 : str) (rest : list str) (ov : option (op * value))
| Not (f : fexp)
| And (f g : fexp)
| Or (f g : fexp).

(* ------------------------------------------------------------------ *)
(* log entries *)

Record var := mkVar {
  v_name : str;
  v_val : pv;
  (* block.deserialize_var(name) when it is (a TaggedUnion of) a dict:
     items as (str(key), value); None for KeyError / not a dict *)
  v_sub : option (list (str * pv)) }.

Definition block := list var.

(* meta values: a plain value or a dict (HTTP header maps are case-insensitive);
   rendering = str(the dict) *)
Inductive mv := MV (v : pv) | MDict (ci : bool) (d : list (str * pv)) (rendering : str).

Inductive ekind := KLLUDP | KOther.   (* KOther: EQ and HTTP entries use the base-class matches() *)

Record entry := mkEntry {
  e_kind : ekind;
  e_name : str;
  e_type : str;
  (* HTTPMessageLogEntry._get_meta: names compared lower-cased (url, reqheaders, ...) *)
  e_meta_ci : list (str * mv);
  (* then, first hit wins: LLUDP message attributes, message.meta, entry meta *)
  e_meta : list (list (str * mv));
  (* message.blocks in dict order *)
  e_blocks : list (str * list block) }.

Fixpoint assoc {A} (k : str) (l : list (str * A)) : option A :=
  match l with
  | [] => None
  | (k', v) :: r => if seq_eqb k' k then Some v else assoc k r
  end.

Fixpoint assoc_ci {A} (k : str) (l : list (str * A)) : option A :=
  match l with
  | [] => None
  | (k', v) :: r => if seq_eqb (lower k') (lower k) then Some v else assoc_ci k r
  end.

Fixpoint first_hit (k : str) (layers : list (list (str * mv))) : mv :=
  match layers with
  | [] => MV PNone
  | l :: r => match assoc k l with Some v => v | None => first_hit k r end
  end.

Definition get_meta (e : entry) (name : str) : mv :=
  match assoc (lower name) (e_meta_ci e) with
  | Some v => v
  | None => first_hit name (e_meta e)
  end.

Definition mv_val (m : mv) : pv := match m with MV v => v | MDict _ _ r => POther r end.

Definition dict_get (ci : bool) (d : list (str * pv)) (k : str) : pv :=
  match (if ci then assoc_ci k d else assoc k d) with Some v => v | None => PNone end.

(* resolution of the expected value at the top of _val_matches (outside its try) *)
Definition resolve (e : entry) (x : value) : pexn + pv :=
  match x with
  | VLit v => inr v
  | VMeta [n] => inr (norm_exp (mv_val (get_meta e n)))
  | VMeta _ => inl XValue
  | VEnum _ _ (ERes v) => inr v
  | VEnum _ _ ENoEnum => inl XAttr
  | VEnum _ _ ENoField => inl XKey
  end.

Definition val_matches (e : entry) (ov : option (op * value)) (v : pv) : ores :=
  match ov with
  | None => OB (truthy (norm_val v))
  | Some (o, x) =>
      match resolve e x with
      | inl ex => OX ex
      | inr b => apply_op o (norm_val v) b
      end
  end.

Definition root_matches (e : entry) (p : str) : bool := glob p (e_name e) || glob p (e_type e).

Definition META : str := [77; 101; 116; 97]%N.

(* _base_matches: None = Python None *)
Definition base_matches (e : entry) (s0 : str) (rest : list str) (ov : option (op * value)) : option ores :=
  match rest with
  | [] => Some (match ov with Some _ => OB false | None => OB (root_matches e s0) end)
  | _ =>
      if seq_eqb s0 META then
        match rest with
        | [n] => Some (val_matches e ov (mv_val (get_meta e n)))
        | [n; k] =>
            Some (match get_meta e n with
                  | MDict ci d _ =>
                      match d with
                      | [] => OB false
                      | _ => val_matches e ov (dict_get ci d k)
                      end
                  | MV _ => OB false
                  end)
        | _ => None
        end
      else None
  end.

(* (block_name, block_num, var_name) - the message name is constant *)
Definition fkey := (str * N * str)%type.

Fixpoint enum_from {A} (i : N) (l : list A) : list (N * A) :=
  match l with [] => [] | x :: r => (i, x) :: enum_from (i + 1) r end.

(* the fields visited by the three nested loops of LLUDPMessageLogEntry.matches,
   in visiting order *)
Definition sel_fields (e : entry) (bpat vpat : str) : list (fkey * var) :=
  flat_map (fun nb : str * list block =>
    if glob bpat (fst nb) then
      flat_map (fun ib : N * block =>
        flat_map (fun v : var =>
          if glob vpat (v_name v) then [((fst nb, fst ib, v_name v), v)] else [])
          (snd ib))
        (enum_from 0 (snd nb))
    else []) (e_blocks e).

Inductive hres := HOk (b : bool) | HErr (x : pexn).

Definition truth_of (r : ores) : hres :=
  match r with
  | OB b => HOk b
  | OI z => HOk (negb (Z.eqb z 0))
  | OX x => HErr x
  end.

(* `for key in deserialized.keys(): if fnmatch(str(key), sel[3]): ... break` *)
Fixpoint scan_keys (e : entry) (kp : str) (ov : option (op * value)) (items : list (str * pv)) : hres :=
  match items with
  | [] => HOk false
  | (k, x) :: r =>
      if glob kp k then
        match ov with
        | None => HOk true
        | Some _ =>
            match truth_of (val_matches e ov x) with
            | HErr ex => HErr ex
            | HOk true => HOk true
            | HOk false => scan_keys e kp ov r
            end
        end
      else scan_keys e kp ov r
  end.

(* does this field get appended to found_field_keys? *)
Definition field_hit (e : entry) (sub : option str) (ov : option (op * value)) (v : var) : hres :=
  match sub with
  | None =>
      match ov with
      | None => HOk true
      | Some _ => truth_of (val_matches e ov (v_val v))
      end
  | Some kp =>
      match v_sub v with
      | None => HOk false
      | Some items => scan_keys e kp ov items
      end
  end.

(* a MatchResult whose truth value can be taken, or the exception raised while
   computing it / while taking its truth value *)
Inductive res := Ok (b : bool) (fields : list fkey) | Err (x : pexn).

Definition nonempty {A} (l : list A) : bool := match l with [] => false | _ => true end.

Fixpoint scan (sc : bool) (hit : var -> hres) (fs : list (fkey * var)) (acc : list fkey) : res :=
  match fs with
  | [] => Ok (nonempty acc) acc
  | (k, v) :: r =>
      match hit v with
      | HErr x => Err x
      | HOk h =>
          let acc' := if h then acc ++ [k] else acc in
          if sc && nonempty acc' then Ok true acc' else scan sc hit r acc'
      end
  end.

(* MatchResult(<result of _base_matches>, []) as seen by bool().  The [OI] branches
   (an int in MatchResult.result makes bool() raise TypeError) are unreachable now
   that _val_matches returns a real bool. *)
Definition of_base (k : ekind) (r : ores) : res :=
  match r with
  | OB b => Ok b []
  | OI z => match k with
            | KLLUDP => Err XType
            | KOther => if Z.eqb z 0 then Ok false [] else Err XType
            end
  | OX x => Err x
  end.

(* entry.matches(matcher, short_circuit) followed by bool() *)
Definition leaf_match (sc : bool) (e : entry) (s0 : str) (rest : list str) (ov : option (op * value)) : res :=
  match base_matches e s0 rest ov with
  | Some r => of_base (e_kind e) r
  | None =>
      match e_kind e with
      | KOther => Ok false []
      | KLLUDP =>
          if negb (root_matches e s0) then Ok false []
          else match rest with
               | [b; v] => scan sc (field_hit e None ov) (sel_fields e b v) []
               | [b; v; k] => scan sc (field_hit e (Some k) ov) (sel_fields e b v) []
               | _ => Ok false []
               end
      end
  end.

(* node.match(entry, short_circuit), observed through bool() and .fields *)
Fixpoint eval (sc : bool) (f : fexp) (e : entry) : res :=
  match f with
  | Leaf s0 rest ov => leaf_match sc e s0 rest ov
  | Not g =>
      match eval sc g e with
      | Err x => Err x
      | Ok b _ => Ok (negb b) []
      end
  | Or a b =>
      match eval sc a e with
      | Err x => Err x
      | Ok lb lf =>
          if lb && sc then Ok true lf
          else match eval sc b e with
               | Err x => Err x
               | Ok rb rf =>
                   if rb && sc then Ok true rf
                   else if lb || rb then Ok true (lf ++ rf)
                   else Ok false []
               end
      end
  | And a b =>
      match eval sc a e with
      | Err x => Err x
      | Ok false _ => Ok false []
      | Ok true lf =>
          match eval sc b e with
          | Err x => Err x
          | Ok false _ => Ok false []
          | Ok true rf => Ok true (lf ++ rf)
          end
      end
  end.
