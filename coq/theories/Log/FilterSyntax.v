(* Concrete syntax of the message-log filter language: a model of the arpeggio PEG
   grammar and of MessageFilterVisitor in hippolyzer/lib/proxy/message_filter.py
   (literal / identifier / field_specifier / unary_expression / meta_field_specifier /
   enum_field_specifier / compare_val / binary_expression / term / expression /
   message_filter, compile_filter), and the printer used by harness/props/c18.py
   (print_expr / print_term / print_leaf / print_val with rng = None).

   Definitions only; proofs are in FilterSyntaxProofs.v.

   Text is a list of characters with code points below 256 (Coq ascii, read as
   Latin-1).  How arpeggio 2.0.2 runs the grammar (ParserPython defaults: skipws,
   ws = tab newline return space, no memoization, no reduce_tree):
   - every terminal match (StrMatch, RegExMatch, EOF) first skips whitespace;
   - Sequence / OrderedChoice / Optional / ZeroOrMore / OneOrMore backtrack to the
     position where they started when an element fails (PEG ordered choice);
   - a StrMatch is a plain prefix test (no word boundary): None, True, False and
     Meta match as prefixes of longer words;
   - the visitor drops StrMatch terminals that sit directly in a Sequence
     (the dot, the parentheses, Meta) and keeps those in an OrderedChoice
     (the operators, the bang, the connectives).
   expression = term ZeroOrMore((or | and) expression): the inner expression is
   greedy, and when it stops at a position the same (connective, expression)
   attempt fails again there, so the loop runs at most once and
   visit_expression sees [term] or [term, connective, expression]: the
   connectives nest to the right and have no precedence.

   Literals: the visitor calls ast.literal_eval on the matched text.  A literal
   whose text matches the regular expression but is rejected by literal_eval
   (leading zeros in an integer, a bad escape, a non-ASCII character in bytes)
   makes compile_filter raise after a successful parse; here the literal
   alternative fails instead.  Both reject the text: a literal is only tried after
   an operator, and when compare_val fails there nothing else can consume the
   operator.  For str / bytes literals the regular expression
     b?(3dq|3sq|dq|sq)((?<!bs)(bs bs)*bs \1|.)*?\1
   with a one-character delimiter ends at the first delimiter that is not preceded
   by an odd run of backslashes, which is where Python's own tokenizer ends the
   literal (when there is none the expression either fails or, after backtracking,
   stops at an escaped delimiter, which literal_eval rejects as unterminated);
   [sbody] is that scan fused with the escape processing of literal_eval.
   Not modelled (the parser here does not claim to agree with the real one on such
   texts; the harness leaves them out of the comparison): triple-quoted literals,
   the \N{name} escape, control characters other than tab / newline / return,
   a carriage return inside a literal, float literals that overflow to inf,
   integer literals beyond Python's int-string conversion limit, and the Unicode
   classes of the regular expressions outside Latin-1. *)
From Coq Require Import NArith ZArith List Bool Ascii.
From HV Require Import Log.Filter.
Import ListNotations.
Local Open Scope char_scope.
Local Open Scope list_scope.

Definition text := list ascii.
Definition code (c : ascii) : N := N_of_ascii c.
Definition chr (n : N) : ascii := ascii_of_N n.

(* ------------------------------------------------------------------ *)
(* character classes *)

Definition between (lo hi n : N) : bool := (N.leb lo n && N.leb n hi)%bool.

(* parser.ws *)
Definition is_ws (c : ascii) : bool :=
  let n := code c in (N.eqb n 32 || N.eqb n 9 || N.eqb n 10 || N.eqb n 13)%bool.
Definition is_digit (c : ascii) : bool := between 48 57 (code c).
Definition is_alpha (c : ascii) : bool := (between 65 90 (code c) || between 97 122 (code c))%bool.
(* [a-zA-Z*] and [a-zA-Z0-9_*-] *)
Definition is_idstart (c : ascii) : bool := (is_alpha c || N.eqb (code c) 42)%bool.
Definition is_idrest (c : ascii) : bool :=
  (is_alpha c || is_digit c || N.eqb (code c) 95 || N.eqb (code c) 42 || N.eqb (code c) 45)%bool.
Definition is_hex (c : ascii) : bool :=
  (is_digit c || between 65 70 (code c) || between 97 102 (code c))%bool.
Definition is_octal (c : ascii) : bool := between 48 55 (code c).
Definition is_quote (c : ascii) : bool := (N.eqb (code c) 39 || N.eqb (code c) 34)%bool.

(* ------------------------------------------------------------------ *)
(* lexical helpers *)

Fixpoint skip_ws (s : text) : text :=
  match s with
  | c :: r => if is_ws c then skip_ws r else s
  | [] => []
  end.

(* StrMatch._parse: input[pos : pos + len] == to_match *)
Fixpoint prefix (p s : text) : option text :=
  match p with
  | [] => Some s
  | c :: p' =>
      match s with
      | d :: s' => if Ascii.eqb c d then prefix p' s' else None
      | [] => None
      end
  end.

(* Match.parse: skip whitespace, then match *)
Definition tok (p s : text) : option text := prefix p (skip_ws s).

Fixpoint span (P : ascii -> bool) (s : text) : text * text :=
  match s with
  | c :: r => if P c then let (a, b) := span P r in (c :: a, b) else ([], s)
  | [] => ([], [])
  end.

(* identifier: RegExMatch [a-zA-Z*]([a-zA-Z0-9_*-]+)? ; visit_identifier: str(node.value) *)
Definition identifier (s : text) : option (str * text) :=
  match skip_ws s with
  | c :: r =>
      if is_idstart c then let (a, r') := span is_idrest r in Some (map code (c :: a), r')
      else None
  | [] => None
  end.

(* ZeroOrMore(dot, identifier) / OneOrMore(dot, identifier): an iteration that fails
   after the dot backtracks to before the dot.  Fuel: the input length. *)
Fixpoint dotted (n : nat) (s : text) : list str * text :=
  match n with
  | O => ([], s)
  | S n' =>
      match tok ["."] s with
      | None => ([], s)
      | Some s1 =>
          match identifier s1 with
          | None => ([], s)
          | Some (i, s2) => let (l, s3) := dotted n' s2 in (i :: l, s3)
          end
      end
  end.

(* field_specifier: identifier, ZeroOrMore(dot, identifier); visit_field_specifier: children *)
Definition field_specifier (s : text) : option (str * list str * text) :=
  match identifier s with
  | None => None
  | Some (i, s1) => let (l, s2) := dotted (length s1) s1 in Some (i, l, s2)
  end.

(* ------------------------------------------------------------------ *)
(* numbers *)

Definition dig (c : ascii) : N := (code c - 48)%N.
Definition dval (ds : text) : N := fold_left (fun a c => (10 * a + dig c)%N) ds 0%N.
Definition hexdig (c : ascii) : N :=
  if is_digit c then (code c - 48)%N
  else if between 65 70 (code c) then (code c - 55)%N else (code c - 87)%N.
Definition hval (ds : text) : N := fold_left (fun a c => (16 * a + hexdig c)%N) ds 0%N.

Fixpoint pow10 (k : nat) : positive :=
  match k with O => 1%positive | S k' => (10 * pow10 k')%positive end.

(* m / 2^t with the denominator 2^(k - t): common factors of two removed *)
Fixpoint reduce2 (m : positive) (k : nat) : positive * nat :=
  match m, k with
  | xO m', S k' => reduce2 m' k'
  | _, _ => (m, k)
  end.

Fixpoint pow2pos (k : nat) : positive :=
  match k with O => 1%positive | S k' => xO (pow2pos k') end.

(* float(p/q) for p, q > 0: IEEE-754 binary64, round to nearest, ties to even,
   subnormals included; the result as the exact fraction in lowest terms
   (float.as_integer_ratio).  None: the value rounds to inf (not modelled). *)
Definition b64_pos (p q : positive) : option num :=
  let zp := Zpos p in
  let zq := Zpos q in
  let e0 := (Z.log2 zp - Z.log2 zq - 53)%Z in
  let scaled := fun e : Z =>
    if (0 <=? e)%Z then (zp, zq * 2 ^ e)%Z else (zp * 2 ^ (- e), zq)%Z in
  let e1 := let (a, b) := scaled e0 in if (a / b <? 2 ^ 53)%Z then e0 else (e0 + 1)%Z in
  let e := Z.max e1 (-1074) in
  let (a, b) := scaled e in
  let m := (a / b)%Z in
  let r := (a mod b)%Z in
  let m' := if ((b <? 2 * r) || ((2 * r =? b) && Z.odd m))%Z%bool then (m + 1)%Z else m in
  if ((971 <? e) || ((e =? 971) && (2 ^ 53 <=? m')))%Z%bool then None
  else
    match m' with
    | Zpos mp =>
        if (0 <=? e)%Z then Some (mkNum KF (m' * 2 ^ e) 1)
        else let (mr, k) := reduce2 mp (Z.to_nat (- e)) in Some (mkNum KF (Zpos mr) (pow2pos k))
    | _ => Some (mkNum KF 0 1)
    end.

(* float of the decimal m / 10^k *)
Definition b64_of_dec (m : N) (k : nat) : option num :=
  match m with
  | N0 => Some (mkNum KF 0 1)
  | Npos p => b64_pos p (pow10 k)
  end.

(* \d+(\.\d+)? : integer digits, fraction digits if a point and a digit follow *)
Definition lex_dec (s : text) : option (text * option text * text) :=
  let (ds, r) := span is_digit s in
  match ds with
  | [] => None
  | _ =>
      match r with
      | c :: r1 =>
          if Ascii.eqb c "." then
            let (fs, r2) := span is_digit r1 in
            match fs with
            | [] => Some (ds, None, r)
            | _ => Some (ds, Some fs, r2)
            end
          else Some (ds, None, r)
      | [] => Some (ds, None, r)
      end
  end.

(* ast.literal_eval of the matched number: an integer with a leading zero is a
   SyntaxError unless it is zero; a number with a fraction is a float *)
Definition eval_dec (ds : text) (fs : option text) : option num :=
  match fs with
  | None =>
      let v := dval ds in
      match ds with
      | c :: _ :: _ => if (Ascii.eqb c "0" && negb (N.eqb v 0))%bool then None else Some (mkNum KI (Z.of_N v) 1)
      | _ => Some (mkNum KI (Z.of_N v) 1)
      end
  | Some f => b64_of_dec (dval (ds ++ f)) (length f)
  end.

Definition number (s : text) : option (num * text) :=
  match lex_dec s with
  | None => None
  | Some (ds, fs, r) => match eval_dec ds fs with Some x => Some (x, r) | None => None end
  end.

(* ------------------------------------------------------------------ *)
(* str / bytes literals *)

Definition cons1 (c : N) (r : option (str * text)) : option (str * text) :=
  match r with Some (s, t) => Some (c :: s, t) | None => None end.
Definition cons2 (c d : N) (r : option (str * text)) : option (str * text) :=
  match r with Some (s, t) => Some (c :: d :: s, t) | None => None end.

Definition simple_escape (e : ascii) : option N :=
  let n := code e in
  if N.eqb n 92 then Some 92%N          (* backslash *)
  else if N.eqb n 39 then Some 39%N     (* single quote *)
  else if N.eqb n 34 then Some 34%N     (* double quote *)
  else if N.eqb n 97 then Some 7%N      (* a *)
  else if N.eqb n 98 then Some 8%N      (* b *)
  else if N.eqb n 102 then Some 12%N    (* f *)
  else if N.eqb n 110 then Some 10%N    (* n *)
  else if N.eqb n 114 then Some 13%N    (* r *)
  else if N.eqb n 116 then Some 9%N     (* t *)
  else if N.eqb n 118 then Some 11%N    (* v *)
  else None.

(* octal escapes: a str literal keeps the value (up to 511), a bytes literal masks it *)
Definition octv (bm : bool) (v : N) : N := if bm then (v mod 256)%N else v.

(* The body of a str (bm = false) or bytes (bm = true) literal after the opening
   delimiter q, up to the closing delimiter: the decoded value and the rest. *)
Fixpoint sbody (bm : bool) (q : ascii) (s : text) {struct s} : option (str * text) :=
  match s with
  | [] => None
  | c :: r =>
      if Ascii.eqb c q then Some ([], r)
      else if (N.eqb (code c) 10 || N.eqb (code c) 13)%bool then None
      else if N.eqb (code c) 92 then
        match r with
        | [] => None
        | e :: r1 =>
            match simple_escape e with
            | Some v => cons1 v (sbody bm q r1)
            | None =>
                if is_octal e then
                  match r1 with
                  | e2 :: r2 =>
                      if is_octal e2 then
                        match r2 with
                        | e3 :: r3 =>
                            if is_octal e3
                            then cons1 (octv bm (64 * dig e + 8 * dig e2 + dig e3)) (sbody bm q r3)
                            else cons1 (8 * dig e + dig e2)%N (sbody bm q r2)
                        | [] => None
                        end
                      else cons1 (dig e) (sbody bm q r1)
                  | [] => None
                  end
                else if Ascii.eqb e "x" then
                  match r1 with
                  | h1 :: h2 :: r3 =>
                      if (is_hex h1 && is_hex h2)%bool
                      then cons1 (16 * hexdig h1 + hexdig h2)%N (sbody bm q r3)
                      else None
                  | _ => None
                  end
                else if (negb bm && Ascii.eqb e "N")%bool then None
                else if (negb bm && Ascii.eqb e "u")%bool then
                  match r1 with
                  | h1 :: h2 :: h3 :: h4 :: r5 =>
                      if forallb is_hex [h1; h2; h3; h4]
                      then cons1 (hval [h1; h2; h3; h4]) (sbody bm q r5)
                      else None
                  | _ => None
                  end
                else if (negb bm && Ascii.eqb e "U")%bool then
                  match r1 with
                  | h1 :: h2 :: h3 :: h4 :: h5 :: h6 :: h7 :: h8 :: r9 =>
                      if (forallb is_hex [h1; h2; h3; h4; h5; h6; h7; h8]
                          && N.leb (hval [h1; h2; h3; h4; h5; h6; h7; h8]) 1114111)%bool
                      then cons1 (hval [h1; h2; h3; h4; h5; h6; h7; h8]) (sbody bm q r9)
                      else None
                  | _ => None
                  end
                else if (N.eqb (code e) 10 || N.eqb (code e) 13)%bool then None
                else if (bm && N.leb 128 (code e))%bool then None
                else cons2 92 (code e) (sbody bm q r1)   (* unknown escape: kept as it is *)
            end
        end
      else if (bm && N.leb 128 (code c))%bool then None   (* bytes can only contain ASCII literal characters *)
      else cons1 (code c) (sbody bm q r)
  end.

Definition lit_string (s : text) : option (pv * text) :=
  match s with
  | c :: r =>
      if is_quote c then
        match sbody false c r with Some (v, r') => Some (PStr v, r') | None => None end
      else if Ascii.eqb c "b" then
        match r with
        | q :: r1 =>
            if is_quote q then
              match sbody true q r1 with Some (v, r') => Some (PBytes None v, r') | None => None end
            else None
        | [] => None
        end
      else None
  | [] => None
  end.

(* 0x[0-9a-fA-F]+ *)
Definition lit_hex (s : text) : option (pv * text) :=
  match s with
  | z :: r0 =>
      if Ascii.eqb z "0" then
        match r0 with
        | x :: r =>
            if Ascii.eqb x "x" then
              let (hs, r') := span is_hex r in
              match hs with
              | [] => None
              | _ => Some (PNum (mkNum KI (Z.of_N (hval hs)) 1), r')
              end
            else None
        | [] => None
        end
      else None
  | [] => None
  end.

Definition lit_dec (s : text) : option (pv * text) :=
  match number s with Some (x, r) => Some (PNum x, r) | None => None end.

Definition kw (p : text) (v : pv) (s : text) : option (pv * text) :=
  match prefix p s with Some r => Some (v, r) | None => None end.

(* \( \s* num \s* , ... \s* \) with exactly k numbers (after the opening parenthesis);
   \s is taken to be the four whitespace characters *)
Fixpoint vec_nums (k : nat) (s : text) : option (list num * text) :=
  match k with
  | O => None
  | S k' =>
      match number (skip_ws s) with
      | None => None
      | Some (x, s1) =>
          match skip_ws s1 with
          | c :: r =>
              match k' with
              | O => if Ascii.eqb c ")" then Some ([x], r) else None
              | S _ =>
                  if Ascii.eqb c "," then
                    match vec_nums k' r with Some (l, r') => Some (x :: l, r') | None => None end
                  else None
              end
          | [] => None
          end
      end
  end.

Definition lit_vec (k : nat) (s : text) : option (pv * text) :=
  match s with
  | c :: r =>
      if Ascii.eqb c "(" then
        match vec_nums k r with Some (l, r') => Some (PTup l, r') | None => None end
      else None
  | [] => None
  end.

Notation "a <|> b" := (match a with Some x => Some x | None => b end)
  (at level 60, right associativity, only parsing).

Definition kw_None : text := ["N"; "o"; "n"; "e"].
Definition kw_True : text := ["T"; "r"; "u"; "e"].
Definition kw_False : text := ["F"; "a"; "l"; "s"; "e"].
Definition kw_Meta : text := ["M"; "e"; "t"; "a"].

Definition bool_ (b : bool) : pv := PNum (mkNum KB (if b then 1 else 0) 1).

(* literal: ordered choice; visit_literal: LiteralValue(ast.literal_eval(node.value)) *)
Definition literal (s : text) : option (pv * text) :=
  let s := skip_ws s in
  lit_string s <|> lit_hex s <|> lit_dec s
  <|> kw kw_None PNone s
  <|> kw kw_True (bool_ true) s
  <|> kw kw_False (bool_ false) s
  <|> lit_vec 3 s <|> lit_vec 4 s.

(* meta_field_specifier: Meta, OneOrMore(dot, identifier) *)
Definition meta_spec (s : text) : option (list str * text) :=
  match tok kw_Meta s with
  | None => None
  | Some s1 =>
      match dotted (length s1) s1 with
      | ([], _) => None
      | (l, s2) => Some (l, s2)
      end
  end.

(* enum_field_specifier: identifier, dot, identifier *)
Definition enum_spec (s : text) : option (str * str * text) :=
  match identifier s with
  | None => None
  | Some (a, s1) =>
      match tok ["."] s1 with
      | None => None
      | Some s2 =>
          match identifier s2 with
          | None => None
          | Some (b, s3) => Some (a, b, s3)
          end
      end
  end.

(* what an EnumFieldSpecifier resolves to is not part of the text: the value
   constructor VEnum carries it, so the parser takes the resolution as data *)
Definition resolver := str -> str -> eres.

(* compare_val: [literal, meta_field_specifier, enum_field_specifier] *)
Definition compare_val (rs : resolver) (s : text) : option (value * text) :=
  match literal s with
  | Some (v, r) => Some (VLit v, r)
  | None =>
      match meta_spec s with
      | Some (l, r) => Some (VMeta l, r)
      | None =>
          match enum_spec s with
          | Some (a, b, r) => Some (VEnum a b (rs a b), r)
          | None => None
          end
      end
  end.

(* the operators in the order of the grammar: the two-character ones first *)
Definition op_table : list (text * op) :=
  [ ([">"; "="], OGe); (["<"; "="], OLe); (["="; "="], OEq); (["!"; "="], ONe);
    (["^"; "="], OStarts); (["$"; "="], OEnds); (["~"; "="], OIn);
    ([">"], OGt); (["<"], OLt); (["&"], OBand) ].

Fixpoint first_match {A} (tbl : list (text * A)) (s : text) : option (A * text) :=
  match tbl with
  | [] => None
  | (p, a) :: tbl' =>
      match prefix p s with
      | Some r => Some (a, r)
      | None => first_match tbl' s
      end
  end.

Definition operator (s : text) : option (op * text) := first_match op_table (skip_ws s).

(* binary_expression: field_specifier, operator, compare_val;
   visit_binary_expression: MessageFilterNode(tuple(children[0]), children[1], children[2]) *)
Definition binary_expression (rs : resolver) (s : text) : option (fexp * text) :=
  match field_specifier s with
  | None => None
  | Some (s0, rest, s1) =>
      match operator s1 with
      | None => None
      | Some (o, s2) =>
          match compare_val rs s2 with
          | None => None
          | Some (v, s3) => Some (Leaf s0 rest (Some (o, v)), s3)
          end
      end
  end.

(* unary_expression: Optional([bang]), [unary_field_specifier, (lpar, expression, rpar)];
   visit_unary_field_specifier: MessageFilterNode(tuple(children), None, None);
   visit_unary_expression: the node, or UnaryNotFilterNode(node) after a bang *)
Definition unary_expression (E : text -> option (fexp * text)) (s : text) : option (fexp * text) :=
  let (neg, s1) := match tok ["!"] s with Some r => (true, r) | None => (false, s) end in
  let core :=
    match field_specifier s1 with
    | Some (s0, rest, s2) => Some (Leaf s0 rest None, s2)
    | None =>
        match tok ["("] s1 with
        | None => None
        | Some s2 =>
            match E s2 with
            | None => None
            | Some (f, s3) =>
                match tok [")"] s3 with
                | None => None
                | Some s4 => Some (f, s4)
                end
            end
        end
    end in
  match core with
  | Some (f, r) => Some (if neg then Not f else f, r)
  | None => None
  end.

(* term: [binary_expression, unary_expression] *)
Definition term (rs : resolver) (E : text -> option (fexp * text)) (s : text) : option (fexp * text) :=
  match binary_expression rs s with
  | Some r => Some r
  | None => unary_expression E s
  end.

(* [or, and] in this order *)
Definition connective (s : text) : option (bool * text) :=
  first_match [ (["|"; "|"], false); (["&"; "&"], true) ] (skip_ws s).

(* expression: term, ZeroOrMore([or, and], expression);
   visit_expression: children[0], or And/Or(children[0], children[2]).
   Fuel: every recursive call comes after at least one consumed character, so the
   input length (plus one) is enough. *)
Fixpoint expression (rs : resolver) (n : nat) (s : text) : option (fexp * text) :=
  match n with
  | O => None
  | S n' =>
      match term rs (expression rs n') s with
      | None => None
      | Some (f, s1) =>
          match connective s1 with
          | None => Some (f, s1)
          | Some (isand, s2) =>
              match expression rs n' s2 with
              | None => Some (f, s1)
              | Some (g, s3) => Some (if isand then And f g else Or f g, s3)
              end
          end
      end
  end.

(* message_filter: expression, EOF (EOF skips whitespace like every terminal) *)
Definition parse (rs : resolver) (s : text) : option fexp :=
  match expression rs (S (length s)) s with
  | Some (f, r) => match skip_ws r with [] => Some f | _ :: _ => None end
  | None => None
  end.

(* str.strip() on code points below 256 *)
Definition is_pyspace (c : ascii) : bool :=
  let n := code c in
  (between 9 13 n || between 28 32 n || N.eqb n 133 || N.eqb n 160)%bool.
Fixpoint lstrip (s : text) : text :=
  match s with
  | c :: r => if is_pyspace c then lstrip r else s
  | [] => []
  end.
Definition strip (s : text) : text := rev (lstrip (rev (lstrip s))).

(* compile_filter: strip; the empty filter is the star, a lone bang is bang star *)
Definition compile (rs : resolver) (s : text) : option fexp :=
  match strip s with
  | [] => parse rs ["*"]
  | [c] => if Ascii.eqb c "!" then parse rs ["!"; "*"] else parse rs [c]
  | s' => parse rs s'
  end.

(* ------------------------------------------------------------------ *)
(* the printer of harness/props/c18.py (rng = None) *)

Definition digit (d : N) : ascii := chr (48 + d).

Fixpoint pN (fuel : nat) (n : N) (acc : text) : text :=
  match fuel with
  | O => acc
  | S f =>
      let acc' := digit (n mod 10) :: acc in
      if (n <? 10)%N then acc' else pN f (n / 10)%N acc'
  end.

(* repr(int) for a non-negative int *)
Definition print_N (n : N) : text := pN (S (N.to_nat (N.log2 n))) n [].

(* the j low decimal digits of v, most significant first *)
Fixpoint fixd (j : nat) (v : N) : text :=
  match j with
  | O => []
  | S j' => fixd j' (v / 10)%N ++ [digit (v mod 10)]
  end.

(* round(a / b), ties to even *)
Definition round_div (a b : N) : N :=
  let m := (a / b)%N in
  let r := (a mod b)%N in
  if ((b <? 2 * r)%N || ((2 * r =? b)%N && N.odd m))%bool then (m + 1)%N else m.

Definition kind_eqb (a b : nk) : bool :=
  match a, b with KB, KB | KI, KI | KF, KF => true | _, _ => false end.
Definition num_same (a b : num) : bool :=
  (kind_eqb (nkind a) (nkind b) && Z.eqb (nnum a) (nnum b) && Pos.eqb (nden a) (nden b))%bool.

(* repr(float) in positional notation: the fewest fraction digits j >= 1 such that the
   nearest decimal with j fraction digits reads back as the same float *)
Fixpoint find_frac (fuel j : nat) (x : num) : option (text * text) :=
  match fuel with
  | O => None
  | S fuel' =>
      let n := round_div (Z.to_N (nnum x) * Npos (pow10 j)) (Npos (nden x)) in
      let ds := print_N (n / Npos (pow10 j)) in
      let fs := fixd j (n mod Npos (pow10 j)) in
      match eval_dec ds (Some fs) with
      | Some y => if num_same x y then Some (ds, fs) else find_frac fuel' (S j) x
      | None => find_frac fuel' (S j) x
      end
  end.

Definition float_digits (x : num) : option (text * text) := find_frac 25 1 x.

Definition print_num (x : num) : text :=
  match nkind x with
  | KB => if Z.eqb (nnum x) 0 then kw_False else kw_True
  | KI => print_N (Z.to_N (nnum x))
  | KF => match float_digits x with Some (ds, fs) => ds ++ "." :: fs | None => ["?"] end
  end.

Definition hexchar (d : N) : ascii := if (d <? 10)%N then chr (48 + d) else chr (87 + d).
Definition hex2 (c : ascii) : text := [hexchar (code c / 16); hexchar (code c mod 16)].

(* one character of repr(str) (bm = false) or repr(bytes) (bm = true) with delimiter q *)
Definition esc_char (bm : bool) (q : ascii) (c : ascii) : text :=
  let n := code c in
  if (Ascii.eqb c q || N.eqb n 92)%bool then ["\"; c]
  else if N.eqb n 9 then ["\"; "t"]
  else if N.eqb n 10 then ["\"; "n"]
  else if N.eqb n 13 then ["\"; "r"]
  else if ((n <? 32)%N || N.eqb n 127)%bool then "\" :: "x" :: hex2 c
  else if (n <? 127)%N then [c]
  else if bm then "\" :: "x" :: hex2 c
  else if ((n <? 161)%N || N.eqb n 173)%bool then "\" :: "x" :: hex2 c   (* not str.isprintable *)
  else [c].

(* repr picks the double quote when the value has a single quote and no double quote *)
Definition pick_quote (s : str) : ascii :=
  if (existsb (N.eqb 39) s && negb (existsb (N.eqb 34) s))%bool then chr 34 else chr 39.

Definition print_quoted (bm : bool) (s : str) : text :=
  let q := pick_quote s in
  q :: flat_map (fun c => esc_char bm q (chr c)) s ++ [q].

Fixpoint sep_by (sep : text) (l : list text) : text :=
  match l with
  | [] => []
  | [x] => x
  | x :: r => x ++ sep ++ sep_by sep r
  end.

(* repr(value) *)
Definition print_pv (v : pv) : text :=
  match v with
  | PNone => kw_None
  | PNum x => print_num x
  | PStr s => print_quoted false s
  | PBytes None b => "b" :: print_quoted true b
  | PTup l => "(" :: sep_by [","; " "] (map print_num l) ++ [")"]
  | _ => ["?"]
  end.

Definition print_id (i : str) : text := map chr i.
Definition print_dots (l : list str) : text := flat_map (fun i => "." :: print_id i) l.

Definition print_value (x : value) : text :=
  match x with
  | VLit v => print_pv v
  | VMeta names => kw_Meta ++ print_dots names
  | VEnum a b _ => print_id a ++ "." :: print_id b
  end.

Definition print_op (o : op) : text :=
  match o with
  | OEq => ["="; "="] | ONe => ["!"; "="] | OStarts => ["^"; "="] | OEnds => ["$"; "="]
  | OIn => ["~"; "="] | OLt => ["<"] | OLe => ["<"; "="] | OGt => [">"] | OGe => [">"; "="]
  | OBand => ["&"]
  end.

Definition print_sel (s0 : str) (rest : list str) : text := print_id s0 ++ print_dots rest.

Definition print_leaf (s0 : str) (rest : list str) (ov : option (op * value)) : text :=
  print_sel s0 rest ++
  match ov with
  | None => []
  | Some (o, v) => " " :: print_op o ++ " " :: print_value v
  end.

(* pr true = print_expr, pr false = print_term *)
Fixpoint pr (top : bool) (f : fexp) : text :=
  match f with
  | Leaf s0 rest ov => print_leaf s0 rest ov
  | Not g =>
      match g with
      | Leaf s0 rest None => "!" :: print_leaf s0 rest None
      | _ => "!" :: "(" :: pr true g ++ [")"]
      end
  | And a b =>
      let body := pr false a ++ [" "; "&"; "&"; " "] ++ pr true b in
      if top then body else "(" :: body ++ [")"]
  | Or a b =>
      let body := pr false a ++ [" "; "|"; "|"; " "] ++ pr true b in
      if top then body else "(" :: body ++ [")"]
  end.

Definition print (f : fexp) : text := pr true f.

(* ------------------------------------------------------------------ *)
(* well-formed filters: what the printer can write and the parser reads back *)

Definition small (c : N) : bool := (c <? 256)%N.

(* matches the identifier rule as a whole *)
Definition wf_ident (i : str) : bool :=
  (forallb small i &&
   match map chr i with
   | c :: r => is_idstart c && forallb is_idrest r
   | [] => false
   end)%bool.

Definition wf_int (x : num) : bool :=
  (kind_eqb (nkind x) KI && (0 <=? nnum x)%Z && Pos.eqb (nden x) 1)%bool.
(* a float that repr writes without exponent and that reads back as itself *)
Definition wf_float (x : num) : bool :=
  (kind_eqb (nkind x) KF && match float_digits x with Some _ => true | None => false end)%bool.
Definition wf_bool (x : num) : bool :=
  (kind_eqb (nkind x) KB && ((nnum x =? 0)%Z || (nnum x =? 1)%Z) && Pos.eqb (nden x) 1)%bool.

(* values that are literals of the grammar: None, True, False, non-negative ints,
   floats as above, str and bytes over code points below 256, and tuples of three or
   four ints / floats *)
Definition wf_lit (v : pv) : bool :=
  match v with
  | PNone => true
  | PNum x => (wf_bool x || wf_int x || wf_float x)%bool
  | PStr s => forallb small s
  | PBytes None b => forallb small b
  | PTup l => ((Nat.eqb (length l) 3 || Nat.eqb (length l) 4) && forallb (fun x => wf_int x || wf_float x) l)%bool
  | _ => false
  end.

Fixpoint tstarts (p s : text) : bool :=
  match p, s with
  | [], _ => true
  | x :: p', y :: s' => (Ascii.eqb x y && tstarts p' s')%bool
  | _ :: _, [] => false
  end.

(* an enum name that the literal and Meta alternatives, which come first, do not
   capture: it does not begin with None / True / False (these are prefix matches)
   and is not Meta itself *)
Definition wf_enum_name (a : str) : bool :=
  (wf_ident a
   && negb (tstarts kw_None (print_id a))
   && negb (tstarts kw_True (print_id a))
   && negb (tstarts kw_False (print_id a))
   && negb (tstarts kw_Meta (print_id a) && Nat.eqb (length a) 4))%bool.

Definition wf_value (x : value) : bool :=
  match x with
  | VLit v => wf_lit v
  | VMeta names => (match names with [] => false | _ => true end && forallb wf_ident names)%bool
  | VEnum a b _ => (wf_enum_name a && wf_ident b)%bool
  end.

Fixpoint wf_syntax (f : fexp) : bool :=
  match f with
  | Leaf s0 rest ov =>
      (wf_ident s0 && forallb wf_ident rest
       && match ov with None => true | Some (_, v) => wf_value v end)%bool
  | Not g => wf_syntax g
  | And a b | Or a b => (wf_syntax a && wf_syntax b)%bool
  end.

(* every enum reference carries the resolution the resolver gives *)
Fixpoint enums_by (rs : resolver) (f : fexp) : Prop :=
  match f with
  | Leaf _ _ (Some (_, VEnum a b r)) => r = rs a b
  | Leaf _ _ _ => True
  | Not g => enums_by rs g
  | And a b | Or a b => enums_by rs a /\ enums_by rs b
  end.

Definition wf (rs : resolver) (f : fexp) : Prop := wf_syntax f = true /\ enums_by rs f.

(* ------------------------------------------------------------------ *)
(* renderings: the printed text up to whitespace between tokens and redundant
   parentheses *)

Definition ws_only (w : text) : Prop := forallb is_ws w = true.

Inductive r_dots : list str -> text -> Prop :=
| RD_nil : r_dots [] []
| RD_cons : forall i l t w1 w2, ws_only w1 -> ws_only w2 -> r_dots l t ->
    r_dots (i :: l) (w1 ++ "." :: w2 ++ print_id i ++ t).

Inductive r_value : value -> text -> Prop :=
| RV_lit : forall v, r_value (VLit v) (print_pv v)
| RV_meta : forall names t, r_dots names t -> r_value (VMeta names) (kw_Meta ++ t)
| RV_enum : forall a b r w1 w2, ws_only w1 -> ws_only w2 ->
    r_value (VEnum a b r) (print_id a ++ w1 ++ "." :: w2 ++ print_id b).

Inductive r_term : fexp -> text -> Prop :=
| RT_leaf0 : forall s0 rest t, r_dots rest t -> r_term (Leaf s0 rest None) (print_id s0 ++ t)
| RT_leaf1 : forall s0 rest t o v tv w1 w2, r_dots rest t -> r_value v tv -> ws_only w1 -> ws_only w2 ->
    r_term (Leaf s0 rest (Some (o, v))) (print_id s0 ++ t ++ w1 ++ print_op o ++ w2 ++ tv)
| RT_not0 : forall s0 rest t w, r_dots rest t -> ws_only w ->
    r_term (Not (Leaf s0 rest None)) ("!" :: w ++ print_id s0 ++ t)
| RT_notp : forall g t w1 w2 w3, r_expr g t -> ws_only w1 -> ws_only w2 -> ws_only w3 ->
    r_term (Not g) ("!" :: w1 ++ "(" :: w2 ++ t ++ w3 ++ [")"])
| RT_paren : forall f t w1 w2, r_expr f t -> ws_only w1 -> ws_only w2 ->
    r_term f ("(" :: w1 ++ t ++ w2 ++ [")"])
with r_expr : fexp -> text -> Prop :=
| RE_term : forall f t, r_term f t -> r_expr f t
| RE_and : forall a b ta tb w1 w2, r_term a ta -> r_expr b tb -> ws_only w1 -> ws_only w2 ->
    r_expr (And a b) (ta ++ w1 ++ "&" :: "&" :: w2 ++ tb)
| RE_or : forall a b ta tb w1 w2, r_term a ta -> r_expr b tb -> ws_only w1 -> ws_only w2 ->
    r_expr (Or a b) (ta ++ w1 ++ "|" :: "|" :: w2 ++ tb).

(* a rendering with leading and trailing whitespace *)
Definition renders (f : fexp) (s : text) : Prop :=
  exists w1 t w2, ws_only w1 /\ ws_only w2 /\ r_expr f t /\ s = w1 ++ t ++ w2.
