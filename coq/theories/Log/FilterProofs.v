(* Proofs about the filter model (Log/Filter.v). *)
From Coq Require Import NArith ZArith List Bool Lia.
From HV Require Import Log.Filter.
Import ListNotations.

(* ------------------------------------------------------------------ *)
(* specification side: the boolean a filter denotes *)

(* a field satisfies the comparison (an exception counts as "does not") *)
Definition field_sat (e : entry) (sub : option str) (ov : option (op * value)) (v : var) : bool :=
  match field_hit e sub ov v with HOk b => b | HErr _ => false end.

Definition res_bool (r : res) : bool := match r with Ok b _ => b | Err _ => false end.

(* truth of a leaf: root patterns and Meta selectors by _base_matches, field
   selectors (LLUDP only) by "some selected field satisfies the comparison" *)
Definition leaf_truth (e : entry) (s0 : str) (rest : list str) (ov : option (op * value)) : bool :=
  match base_matches e s0 rest ov with
  | Some r => res_bool (of_base (e_kind e) r)
  | None =>
      match e_kind e with
      | KOther => false
      | KLLUDP =>
          root_matches e s0 &&
          match rest with
          | [b; v] => existsb (fun kv => field_sat e None ov (snd kv)) (sel_fields e b v)
          | [b; v; k] => existsb (fun kv => field_sat e (Some k) ov (snd kv)) (sel_fields e b v)
          | _ => false
          end
      end
  end.

(* the boolean homomorphism *)
Fixpoint denote (f : fexp) (e : entry) : bool :=
  match f with
  | Leaf s0 rest ov => leaf_truth e s0 rest ov
  | Not g => negb (denote g e)
  | And a b => denote a e && denote b e
  | Or a b => denote a e || denote b e
  end.

(* ------------------------------------------------------------------ *)
(* scan *)

Lemma nonempty_app_r : forall A (l : list A) x, nonempty (l ++ [x]) = true.
Proof. intros A l x; destruct l; reflexivity. Qed.

Definition hsat (h : hres) : bool := match h with HOk b => b | HErr _ => false end.

Lemma scan_bool : forall sc hit fs acc b fl,
  scan sc hit fs acc = Ok b fl ->
  b = nonempty acc || existsb (fun kv => hsat (hit (snd kv))) fs.
Proof.
  intros sc hit fs; induction fs as [|[k v] r IH]; intros acc b fl H; cbn [scan] in H.
  - inversion H; subst. cbn. now rewrite orb_false_r.
  - cbn [existsb snd]. destruct (hit v) as [h|x] eqn:Hh; [|discriminate]. cbn [hsat].
    destruct (sc && nonempty (if h then acc ++ [k] else acc)) eqn:Hs.
    + inversion H; subst. apply andb_prop in Hs as [_ Hn].
      destruct h; [now rewrite orb_true_r|]. now rewrite Hn.
    + apply IH in H. rewrite H. destruct h.
      * rewrite nonempty_app_r. now rewrite orb_true_r.
      * reflexivity.
Qed.

Lemma scan_fields_nonempty : forall sc hit fs acc b fl,
  scan sc hit fs acc = Ok b fl -> b = nonempty fl.
Proof.
  intros sc hit fs; induction fs as [|[k v] r IH]; intros acc b fl H; cbn [scan] in H.
  - now inversion H.
  - destruct (hit v) as [h|x]; [|discriminate].
    destruct (sc && nonempty (if h then acc ++ [k] else acc)) eqn:Hs.
    + inversion H; subst. apply andb_prop in Hs as [_ Hn]. now rewrite Hn.
    + eapply IH; eauto.
Qed.

(* every reported field is a visited field that was hit (or was already in acc) *)
Lemma scan_fields_sound : forall sc hit fs acc b fl,
  scan sc hit fs acc = Ok b fl ->
  forall k, In k fl -> In k acc \/ exists v, In (k, v) fs /\ hit v = HOk true.
Proof.
  intros sc hit fs; induction fs as [|[k0 v0] r IH]; intros acc b fl H k Hk; cbn [scan] in H.
  - inversion H; subst. now left.
  - destruct (hit v0) as [h|x] eqn:Hh; [|discriminate].
    assert (Hacc : forall k, In k (if h then acc ++ [k0] else acc) ->
              In k acc \/ exists v, In (k, v) ((k0, v0) :: r) /\ hit v = HOk true).
    { intros k1 H1. destruct h; [|now left].
      apply in_app_or in H1 as [H1|[H1|[]]]; [now left|]. subst.
      right. exists v0. split; [now left|assumption]. }
    destruct (sc && nonempty (if h then acc ++ [k0] else acc)).
    + inversion H; subst. now apply Hacc.
    + destruct (IH _ _ _ H k Hk) as [H1|[v [H1 H2]]].
      * now apply Hacc.
      * right. exists v. split; [now right|assumption].
Qed.

(* full evaluation reports every hit field *)
Lemma scan_full_complete : forall hit fs acc b fl,
  scan false hit fs acc = Ok b fl ->
  (forall k, In k acc -> In k fl) /\
  (forall k v, In (k, v) fs -> hit v = HOk true -> In k fl).
Proof.
  intros hit fs; induction fs as [|[k0 v0] r IH]; intros acc b fl H; cbn [scan] in H.
  - inversion H; subst. split; [auto|]. intros k v [].
  - destruct (hit v0) as [h|x] eqn:Hh; [|discriminate]. cbn [andb] in H.
    apply IH in H as [H1 H2]. split.
    + intros k Hk. apply H1. destruct h; [apply in_or_app; now left|assumption].
    + intros k v [Heq|Hin] Hv.
      * inversion Heq; subst. rewrite Hv in Hh. inversion Hh; subst.
        apply H1. apply in_or_app. right. now left.
      * eapply H2; eauto.
Qed.

Lemma scan_sc : forall hit fs acc b fl,
  scan false hit fs acc = Ok b fl -> exists fl', scan true hit fs acc = Ok b fl'.
Proof.
  intros hit fs; induction fs as [|[k v] r IH]; intros acc b fl H; cbn [scan] in *.
  - eauto.
  - destruct (hit v) as [h|x]; [|discriminate]. cbn [andb] in *.
    destruct (nonempty (if h then acc ++ [k] else acc)) eqn:Hn.
    + apply scan_bool in H. rewrite Hn in H. cbn in H. subst. eauto.
    + eapply IH; eauto.
Qed.

(* ------------------------------------------------------------------ *)
(* leaves *)

Lemma leaf_bool : forall sc e s0 rest ov b fl,
  leaf_match sc e s0 rest ov = Ok b fl -> b = leaf_truth e s0 rest ov.
Proof.
  intros sc e s0 rest ov b fl H. unfold leaf_match, leaf_truth in *.
  destruct (base_matches e s0 rest ov) as [r|].
  - now rewrite H.
  - destruct (e_kind e); [|now inversion H].
    destruct (root_matches e s0); cbn [negb andb] in *; [|now inversion H].
    destruct rest as [|b0 [|v0 [|k0 [|? ?]]]]; try now inversion H.
    + apply scan_bool in H. cbn [nonempty orb] in H. subst. reflexivity.
    + apply scan_bool in H. cbn [nonempty orb] in H. subst. reflexivity.
Qed.

Lemma leaf_fields_nonempty : forall sc e s0 rest ov b fl,
  leaf_match sc e s0 rest ov = Ok b fl -> b = false -> fl = [].
Proof.
  intros sc e s0 rest ov b fl H Hb. unfold leaf_match in H.
  destruct (base_matches e s0 rest ov) as [r|].
  - unfold of_base in H. destruct r as [b'|z|x]; [now inversion H| |discriminate].
    destruct (e_kind e); [discriminate|]. destruct (Z.eqb z 0); [now inversion H|discriminate].
  - destruct (e_kind e); [|now inversion H].
    destruct (negb (root_matches e s0)); [now inversion H|].
    destruct rest as [|b0 [|v0 [|k0 [|? ?]]]]; try now inversion H.
    + apply scan_fields_nonempty in H. subst. now destruct fl.
    + apply scan_fields_nonempty in H. subst. now destruct fl.
Qed.

Lemma leaf_sc : forall e s0 rest ov b fl,
  leaf_match false e s0 rest ov = Ok b fl -> exists fl', leaf_match true e s0 rest ov = Ok b fl'.
Proof.
  intros e s0 rest ov b fl H. unfold leaf_match in *.
  destruct (base_matches e s0 rest ov) as [r|]; [eauto|].
  destruct (e_kind e); [|eauto].
  destruct (negb (root_matches e s0)); [eauto|].
  destruct rest as [|b0 [|v0 [|k0 [|? ?]]]]; eauto using scan_sc.
Qed.

(* "a field comparison is true iff some selected field satisfies it", with the
   reported fields being selected fields that satisfy it *)
Lemma leaf_exists3 : forall sc e s0 bp vp ov b fl,
  e_kind e = KLLUDP -> seq_eqb s0 META = false ->
  leaf_match sc e s0 [bp; vp] ov = Ok b fl ->
  b = root_matches e s0 && existsb (fun kv => field_sat e None ov (snd kv)) (sel_fields e bp vp)
  /\ forall k, In k fl -> exists v, In (k, v) (sel_fields e bp vp) /\ field_sat e None ov v = true.
Proof.
  intros sc e s0 bp vp ov b fl Hk Hm H. split.
  - apply leaf_bool in H. rewrite H. unfold leaf_truth, base_matches. rewrite Hm, Hk. reflexivity.
  - unfold leaf_match, base_matches in H. rewrite Hm, Hk in H.
    destruct (negb (root_matches e s0)); [inversion H; subst; intros k []|].
    intros k Hin. destruct (scan_fields_sound _ _ _ _ _ _ H k Hin) as [[]|[v [H1 H2]]].
    exists v. split; [assumption|]. unfold field_sat. now rewrite H2.
Qed.

Lemma leaf_exists4 : forall sc e s0 bp vp kp ov b fl,
  e_kind e = KLLUDP -> seq_eqb s0 META = false ->
  leaf_match sc e s0 [bp; vp; kp] ov = Ok b fl ->
  b = root_matches e s0 && existsb (fun kv => field_sat e (Some kp) ov (snd kv)) (sel_fields e bp vp)
  /\ forall k, In k fl -> exists v, In (k, v) (sel_fields e bp vp) /\ field_sat e (Some kp) ov v = true.
Proof.
  intros sc e s0 bp vp kp ov b fl Hk Hm H. split.
  - apply leaf_bool in H. rewrite H. unfold leaf_truth, base_matches. rewrite Hm, Hk. reflexivity.
  - unfold leaf_match, base_matches in H. rewrite Hm, Hk in H.
    destruct (negb (root_matches e s0)); [inversion H; subst; intros k []|].
    intros k Hin. destruct (scan_fields_sound _ _ _ _ _ _ H k Hin) as [[]|[v [H1 H2]]].
    exists v. split; [assumption|]. unfold field_sat. now rewrite H2.
Qed.

(* ------------------------------------------------------------------ *)
(* boolean structure *)

Lemma bool_semantics : forall sc f e b fl, eval sc f e = Ok b fl -> b = denote f e.
Proof.
  intros sc f e; induction f as [s0 rest ov|g IH|a IHa c IHc|a IHa c IHc]; intros b fl H; cbn [eval denote] in *.
  - eapply leaf_bool; eauto.
  - destruct (eval sc g e) as [b' fl'|x]; [|discriminate].
    inversion H; subst. f_equal. eapply IH; eauto.
  - destruct (eval sc a e) as [lb lf|x]; [|discriminate].
    rewrite <- (IHa lb lf eq_refl).
    destruct lb; [|now inversion H].
    destruct (eval sc c e) as [rb rf|x]; [|discriminate].
    rewrite <- (IHc rb rf eq_refl).
    destruct rb; now inversion H.
  - destruct (eval sc a e) as [lb lf|x]; [|discriminate].
    rewrite <- (IHa lb lf eq_refl).
    destruct (lb && sc) eqn:H1.
    + inversion H; subst. apply andb_prop in H1 as [-> _]. reflexivity.
    + destruct (eval sc c e) as [rb rf|x]; [|discriminate].
      rewrite <- (IHc rb rf eq_refl).
      destruct (rb && sc) eqn:H2.
      * inversion H; subst. apply andb_prop in H2 as [-> _]. now rewrite orb_true_r.
      * destruct (lb || rb); now inversion H.
Qed.

(* "Fine since fields should be empty when result=False" (OrFilterNode.match) *)
Lemma false_no_fields : forall sc f e fl, eval sc f e = Ok false fl -> fl = [].
Proof.
  intros sc f e; induction f as [s0 rest ov|g IH|a IHa c IHc|a IHa c IHc]; intros fl H; cbn [eval] in *.
  - eapply leaf_fields_nonempty; eauto.
  - destruct (eval sc g e); [|discriminate]. now inversion H.
  - destruct (eval sc a e) as [lb lf|x]; [|discriminate].
    destruct lb; [|now inversion H].
    destruct (eval sc c e) as [rb rf|x]; [|discriminate].
    destruct rb; now inversion H.
  - destruct (eval sc a e) as [lb lf|x]; [|discriminate].
    destruct (lb && sc); [discriminate|].
    destruct (eval sc c e) as [rb rf|x]; [|discriminate].
    destruct (rb && sc); [discriminate|].
    destruct (lb || rb); [discriminate|now inversion H].
Qed.

(* whatever full evaluation answers, short-circuit evaluation answers the same
   (it evaluates a subset of the comparisons, so it cannot raise where full
   evaluation does not) *)
Lemma sc_of_full : forall f e b fl,
  eval false f e = Ok b fl -> exists fl', eval true f e = Ok b fl'.
Proof.
  intros f e; induction f as [s0 rest ov|g IH|a IHa c IHc|a IHa c IHc]; intros b fl H; cbn [eval] in *.
  - eapply leaf_sc; eauto.
  - destruct (eval false g e) as [b' fl'|x]; [|discriminate].
    destruct (IH _ _ eq_refl) as [fl2 ->]. inversion H; subst. eauto.
  - destruct (eval false a e) as [lb lf|x]; [|discriminate].
    destruct (IHa _ _ eq_refl) as [lf' ->].
    destruct lb; [|inversion H; subst; eauto].
    destruct (eval false c e) as [rb rf|x]; [|discriminate].
    destruct (IHc _ _ eq_refl) as [rf' ->].
    destruct rb; inversion H; subst; eauto.
  - destruct (eval false a e) as [lb lf|x]; [|discriminate].
    destruct (IHa _ _ eq_refl) as [lf' ->].
    rewrite andb_false_r in H.
    destruct (eval false c e) as [rb rf|x]; [|discriminate].
    rewrite andb_false_r in H.
    destruct lb; cbn [andb orb] in *; [inversion H; subst; eauto|].
    destruct (IHc _ _ eq_refl) as [rf' ->].
    destruct rb; cbn [andb] in *; inversion H; subst; eauto.
Qed.

Lemma sc_agree : forall f e b1 fl1 b2 fl2,
  eval true f e = Ok b1 fl1 -> eval false f e = Ok b2 fl2 -> b1 = b2.
Proof.
  intros f e b1 fl1 b2 fl2 H1 H2.
  apply bool_semantics in H1. apply bool_semantics in H2. congruence.
Qed.

(* ------------------------------------------------------------------ *)
(* never an error *)

(* well-formed expected values: a literal, a single-level Meta reference, an enum
   reference that resolves.  (An ill-formed reference raises when it is resolved, by
   design: ValueError / AttributeError / KeyError - see ill_formed_raises.) *)
Definition safe_value (x : value) : bool :=
  match x with
  | VLit _ => true
  | VMeta [_] => true
  | VEnum _ _ (ERes _) => true
  | _ => false
  end.

Definition safe_leaf (s0 : str) (ov : option (op * value)) : bool :=
  match ov with
  | None => true
  | Some (_, x) => safe_value x
  end.

Fixpoint safe (f : fexp) : bool :=
  match f with
  | Leaf s0 _ ov => safe_leaf s0 ov
  | Not g => safe g
  | And a b | Or a b => safe a && safe b
  end.

(* the operator table is total: whatever the types of field and expected value,
   the answer is a bool *)
Lemma apply_op_total : forall o a b, exists r, apply_op o a b = OB r.
Proof.
  intros o a b. destruct o; cbn [apply_op]; eauto; try (destruct a; eauto; fail).
  - destruct a; eauto; unfold py_in;
      destruct b as [|y| |j'| | |]; eauto; try (destruct jank; eauto; fail);
      try (destruct jank; destruct (int_like y); eauto;
           destruct ((0 <=? nnum y)%Z && (nnum y <? 256)%Z); eauto).
  - unfold py_band. destruct a as [|x| | | | |]; eauto. destruct b as [|y| | | | |]; eauto.
    destruct (nkind x), (nkind y); eauto.
Qed.

Lemma resolve_safe : forall e x, safe_value x = true -> exists v, resolve e x = inr v.
Proof.
  intros e x H. destruct x as [v|ns|en fn r]; cbn in *.
  - eauto.
  - destruct ns as [|n [|? ?]]; try discriminate. eauto.
  - destruct r; try discriminate. eauto.
Qed.

Lemma val_matches_safe : forall e s0 ov v,
  safe_leaf s0 ov = true -> exists r, val_matches e ov v = OB r.
Proof.
  intros e s0 ov v H. unfold val_matches. destruct ov as [[o x]|]; [|eauto].
  cbn [safe_leaf] in H. destruct (resolve_safe e x H) as [w ->]. apply apply_op_total.
Qed.

Lemma truth_of_safe : forall e s0 ov v,
  safe_leaf s0 ov = true -> exists b, truth_of (val_matches e ov v) = HOk b.
Proof.
  intros e s0 ov v H. destruct (val_matches_safe e s0 ov v H) as [r ->]. cbn. eauto.
Qed.

Lemma scan_keys_safe : forall e s0 kp ov items,
  safe_leaf s0 ov = true -> exists b, scan_keys e kp ov items = HOk b.
Proof.
  intros e s0 kp ov items H. induction items as [|[k x] r IH]; cbn [scan_keys]; [eauto|].
  destruct (glob kp k); [|assumption].
  destruct ov as [p|]; [|eauto].
  destruct (truth_of_safe e s0 (Some p) x H) as [b ->]. destruct b; eauto.
Qed.

Lemma field_hit_safe : forall e s0 sub ov v,
  safe_leaf s0 ov = true -> exists b, field_hit e sub ov v = HOk b.
Proof.
  intros e s0 sub ov v H. unfold field_hit. destruct sub as [kp|].
  - destruct (v_sub v); [eapply scan_keys_safe; eauto|eauto].
  - destruct ov as [p|]; [|eauto]. eapply truth_of_safe; eauto.
Qed.

Lemma scan_safe : forall sc hit fs acc,
  (forall v, exists b, hit v = HOk b) -> exists b fl, scan sc hit fs acc = Ok b fl.
Proof.
  intros sc hit fs; induction fs as [|[k v] r IH]; intros acc Hh; cbn [scan]; [eauto|].
  destruct (Hh v) as [h ->].
  destruct (sc && nonempty (if h then acc ++ [k] else acc)); eauto.
Qed.

Lemma base_matches_safe : forall e s0 rest ov r,
  safe_leaf s0 ov = true -> base_matches e s0 rest ov = Some r -> exists b, r = OB b.
Proof.
  intros e s0 rest ov r H Hb. unfold base_matches in Hb.
  destruct rest as [|n rest'].
  - inversion Hb; subst. destruct ov; eauto.
  - destruct (seq_eqb s0 META) eqn:Hm; [|discriminate].
    pose proof (fun v => val_matches_safe e s0 ov v H) as Hv.
    destruct rest' as [|k [|? ?]]; [| |discriminate].
    + inversion Hb; subst. apply Hv.
    + inversion Hb; subst. destruct (get_meta e n) as [w|ci d rd]; [eauto|].
      destruct d; [eauto|apply Hv].
Qed.

Lemma leaf_safe : forall sc e s0 rest ov,
  safe_leaf s0 ov = true -> exists b fl, leaf_match sc e s0 rest ov = Ok b fl.
Proof.
  intros sc e s0 rest ov H. unfold leaf_match.
  destruct (base_matches e s0 rest ov) as [r|] eqn:Hb.
  - destruct (base_matches_safe _ _ _ _ _ H Hb) as [b ->]. cbn. eauto.
  - destruct (e_kind e); [|eauto].
    destruct (negb (root_matches e s0)); [eauto|].
    destruct rest as [|b0 [|v0 [|k0 [|? ?]]]]; eauto;
      apply scan_safe; intros v; eapply field_hit_safe; eauto.
Qed.

Lemma never_error : forall f, safe f = true ->
  forall sc e, exists b fl, eval sc f e = Ok b fl.
Proof.
  induction f as [s0 rest ov|g IH|a IHa c IHc|a IHa c IHc]; intros H sc e; cbn [eval safe] in *.
  - now apply leaf_safe.
  - destruct (IH H sc e) as [b [fl ->]]. eauto.
  - apply andb_prop in H as [Ha Hc].
    destruct (IHa Ha sc e) as [lb [lf ->]]. destruct (IHc Hc sc e) as [rb [rf ->]].
    destruct lb, rb; eauto.
  - apply andb_prop in H as [Ha Hc].
    destruct (IHa Ha sc e) as [lb [lf ->]]. destruct (IHc Hc sc e) as [rb [rf ->]].
    destruct (lb && sc); [eauto|]. destruct (rb && sc); [eauto|]. destruct (lb || rb); eauto.
Qed.

(* ------------------------------------------------------------------ *)
(* the unrestricted statement is false of the code as it is: witnesses *)

Definition s_ (l : list N) : str := l.
Definition FOO : str := [70; 111; 111]%N.
Definition BAR : str := [66; 97; 114]%N.
Definition BAZ : str := [66; 97; 122]%N.
Definition LLUDP : str := [76; 76; 85; 68; 80]%N.
Definition AGENTLOCAL : str := [65; 103; 101; 110; 116; 76; 111; 99; 97; 108]%N.
Definition int_ (z : Z) : pv := PNum (mkNum KI z 1).

(* Message("Foo", Block("Bar", Baz=b"abc")) *)
Definition w_entry_bytes : entry :=
  mkEntry KLLUDP FOO LLUDP [] [[]]
    [(BAR, [[mkVar BAZ (PBytes None [97; 98; 99]%N) None]])].
(* Foo.Bar.Baz ~= 256 *)
Definition w_filter_in : fexp := Leaf FOO [BAR; BAZ] (Some (OIn, VLit (int_ 256))).

(* message.meta["AgentLocal"] = 6 ; Meta.AgentLocal & 4 *)
Definition w_entry_meta : entry :=
  mkEntry KLLUDP FOO LLUDP [] [[(AGENTLOCAL, MV (int_ 6))]] [].
Definition w_filter_band : fexp := Leaf META [AGENTLOCAL] (Some (OBand, VLit (int_ 4))).

(* the two comparisons that used to raise are simply false / true now *)
Lemma former_errors :
  eval true w_filter_in w_entry_bytes = Ok false [] /\
  eval false w_filter_in w_entry_bytes = Ok false [] /\
  eval true w_filter_band w_entry_meta = Ok true [] /\
  eval false w_filter_band w_entry_meta = Ok true [].
Proof. vm_compute. repeat split. Qed.

(* an ill-formed expected value (unknown enum) raises when a field is compared with it *)
Definition w_filter_bogus : fexp := Leaf FOO [BAR; BAZ] (Some (OEq, VEnum [] [] ENoEnum)).
Lemma ill_formed_raises :
  safe w_filter_bogus = false /\
  eval true w_filter_bogus w_entry_bytes = Err XAttr /\ eval false w_filter_bogus w_entry_bytes = Err XAttr.
Proof. vm_compute. repeat split. Qed.

(* `!=` is the complement of `==` for every pair of values *)
Lemma ne_complement : forall a b,
  apply_op OEq a b = OB (py_eq a b) /\ apply_op ONe a b = OB (negb (py_eq a b)).
Proof. intros. split; reflexivity. Qed.

Definition n_ (z : Z) : num := mkNum KI z 1.
Definition f_ (z : Z) : num := mkNum KF z 1.

(* with full evaluation an (ill-formed) operand is evaluated that short-circuit
   evaluation skips: the converse of sc_of_full does not hold *)
Definition w_entry_two : entry :=
  mkEntry KLLUDP FOO LLUDP [] [[]]
    [(BAR, [[mkVar BAR (PTup [n_ 256]) None; mkVar BAZ (PBytes None [97]%N) None]])].
Lemma full_of_sc_refuted :
  let f := Or (Leaf FOO [] None) w_filter_bogus in
  eval true f w_entry_bytes = Ok true [] /\ eval false f w_entry_bytes = Err XAttr.
Proof. vm_compute. split; reflexivity. Qed.

(* non-vacuity helpers *)
Lemma ex_safe_eval :
  let f := And (Leaf FOO [] None) (Or (Not (Leaf BAR [] None)) (Leaf FOO [BAR; BAZ] (Some (OLt, VLit (int_ 5))))) in
  safe f = true /\ eval false f w_entry_bytes = Ok true [] /\ denote f w_entry_bytes = true.
Proof. vm_compute. repeat split. Qed.
