(* Model of FilteringMessageLogger (hippolyzer/lib/proxy/message_logger.py):
   _raw_entries = deque(maxlen), _filtered_entries (the view), filter, paused;
   add_log_entry / set_filter / set_paused / clear.

   Generic in the entry type [E] (identified by [eid] - Python object identity,
   which is what `m not in self._raw_entries` compares), the filter type [F] and
   the match function [mt f e : option bool] ([None] = filter.match raised).
   Definitions only; proofs are in LogViewProofs.v. *)
From Coq Require Import NArith List Bool Arith.
From HV Require Import Log.Filter.
Import ListNotations.

Section Logger.
  Variable E F : Type.
  Variable eid : E -> N.
  Variable mt : F -> E -> option bool.
  Variable maxlen : nat.

  Record lstate := mkL { raw : list E; view : list E; flt : F; paused : bool }.

  Inductive lop :=
  | Log (e : E)                 (* log_lludp_message / log_http_response / log_eq_event -> add_log_entry *)
  | SetFilter (f : option F)    (* set_filter(str); None: compile_filter raises (nothing changes) *)
  | SetPaused (b : bool)
  | Clear.

  (* deque(maxlen).append *)
  Definition push (r : list E) (e : E) : list E :=
    let r' := r ++ [e] in
    if Nat.ltb maxlen (length r') then tl r' else r'.

  (* the entry that falls out of the window on append, if any *)
  Definition evicted (r : list E) (e : E) : option E :=
    let r' := r ++ [e] in
    if Nat.ltb maxlen (length r') then hd_error r' else None.

  Definition mb (f : F) (e : E) : bool :=
    match mt f e with Some true => true | _ => false end.

  Definition in_raw (m : E) (r : list E) : bool := existsb (fun x => N.eqb (eid x) (eid m)) r.

  (* add_log_entry: an exception from filter.match is caught (and logged); the
     entry has already been appended to the window *)
  Definition step_log (s : lstate) (e : E) : lstate :=
    if paused s then s
    else
      let r' := push (raw s) e in
      if mb (flt s) e then mkL r' (view s ++ [e]) (flt s) (paused s)
      else mkL r' (view s) (flt s) (paused s).

  (* `[m for m in self._filtered_entries if m not in self._raw_entries and self.filter.match(m)]`
     None: match raised *)
  Fixpoint keep_aged (f : F) (r : list E) (l : list E) : option (list E) :=
    match l with
    | [] => Some []
    | m :: l' =>
        if in_raw m r then keep_aged f r l'
        else match mt f m with
             | None => None
             | Some b =>
                 match keep_aged f r l' with
                 | None => None
                 | Some k => Some (if b then m :: k else k)
                 end
             end
    end.

  (* `new_entries.extend(m for m in self._raw_entries if new_filter.match(m))`; None: match raised *)
  Fixpoint ext_raw (f : F) (l : list E) : option (list E) :=
    match l with
    | [] => Some []
    | m :: l' =>
        match mt f m with
        | None => None
        | Some b =>
            match ext_raw f l' with
            | None => None
            | Some k => Some (if b then m :: k else k)
            end
        end
    end.

  (* set_filter evaluates the new filter on everything before it touches any state;
     None: match raised, the logger is unchanged *)
  Definition try_set_filter (s : lstate) (f : F) : option lstate :=
    match keep_aged f (raw s) (view s) with
    | None => None
    | Some a =>
        match ext_raw f (raw s) with
        | None => None
        | Some r => Some (mkL (raw s) (a ++ r) f (paused s))
        end
    end.

  Definition step_set_filter (s : lstate) (f : F) : lstate :=
    match try_set_filter s f with Some s' => s' | None => s end.

  Definition step (s : lstate) (o : lop) : lstate :=
    match o with
    | Log e => step_log s e
    | SetFilter None => s
    | SetFilter (Some f) => step_set_filter s f
    | SetPaused b => mkL (raw s) (view s) (flt s) b
    | Clear => mkL [] [] (flt s) (paused s)
    end.

  Definition init (f0 : F) : lstate := mkL [] [] f0 false.

  Definition run (f0 : F) (ops : list lop) : lstate := fold_left step ops (init f0).

  (* ---- specification side: which evicted entries are still retained ----
     An entry that falls out of the window while it is visible stays in the log
     ("aged") until a later filter does not match it or the log is cleared. *)
  Definition gstep (sa : lstate * list E) (o : lop) : lstate * list E :=
    let (s, aged) := sa in
    let s' := step s o in
    let aged' :=
      match o with
      | Log e =>
          if paused s then aged
          else match evicted (raw s) e with
               | Some x => if in_raw x (view s') then aged ++ [x] else aged
               | None => aged
               end
      | SetFilter (Some f) => match try_set_filter s f with Some _ => filter (mb f) aged | None => aged end
      | SetFilter None => aged
      | SetPaused _ => aged
      | Clear => []
      end in
    (s', aged').

  Definition grun (f0 : F) (ops : list lop) : lstate * list E :=
    fold_left gstep ops (init f0, []).

  Definition logged (ops : list lop) : list E :=
    flat_map (fun o => match o with Log e => [e] | _ => [] end) ops.

  Definition filters (ops : list lop) : list F :=
    flat_map (fun o => match o with SetFilter (Some f) => [f] | _ => [] end) ops.
End Logger.

Arguments mkL {E F}.
Arguments raw {E F}.
Arguments view {E F}.
Arguments flt {E F}.
Arguments paused {E F}.
Arguments Log {E F}.
Arguments SetFilter {E F}.
Arguments SetPaused {E F}.
Arguments Clear {E F}.

(* subsequence *)
Inductive subseq {A} : list A -> list A -> Prop :=
| ss_nil : forall l, subseq [] l
| ss_skip : forall a l x, subseq a l -> subseq a (x :: l)
| ss_take : forall a l x, subseq a l -> subseq (x :: a) (x :: l).

(* ---- the instance that is extracted and run against the implementation ---- *)
Definition centry := (N * entry)%type.
Definition cmt (f : fexp) (e : centry) : option bool :=
  (* self.filter.match(m): short_circuit defaults to True *)
  match eval true f (snd e) with Ok b _ => Some b | Err _ => None end.

Definition crun (maxlen : nat) (f0 : fexp) (ops : list (lop centry fexp)) : lstate centry fexp :=
  run centry fexp (@fst N entry) cmt maxlen f0 ops.

(* observation printed by the driver after every operation: ids in the window, ids in the view *)
Definition cobs (s : lstate centry fexp) : list N * list N := (map fst (raw s), map fst (view s)).

Fixpoint ctrace (maxlen : nat) (s : lstate centry fexp) (ops : list (lop centry fexp)) : list (list N * list N) :=
  match ops with
  | [] => []
  | o :: r => let s' := step centry fexp (@fst N entry) cmt maxlen s o in cobs s' :: ctrace maxlen s' r
  end.
