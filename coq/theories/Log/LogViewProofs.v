(* Proofs about the logger model (Log/LogView.v): the view invariant over all
   operation sequences. *)
From Coq Require Import NArith List Bool Arith Lia.
From HV Require Import Log.Filter Log.LogView Log.FilterProofs.
Import ListNotations.

(* ------------------------------------------------------------------ *)
(* subsequences *)

Lemma subseq_refl : forall A (l : list A), subseq l l.
Proof. induction l; [apply ss_nil|apply ss_take; auto]. Qed.

Lemma subseq_nil_inv : forall A (a : list A), subseq a [] -> a = [].
Proof. intros A a H. now inversion H. Qed.

Lemma subseq_trans : forall A (a b c : list A), subseq a b -> subseq b c -> subseq a c.
Proof.
  intros A a b c Hab Hbc. revert a Hab. induction Hbc as [l|b l x Hbc IH|b l x Hbc IH]; intros a Hab.
  - apply subseq_nil_inv in Hab. subst. apply ss_nil.
  - apply ss_skip. auto.
  - inversion Hab; subst.
    + apply ss_nil.
    + apply ss_skip. auto.
    + apply ss_take. auto.
Qed.

Lemma subseq_app_r : forall A (a l t : list A), subseq a l -> subseq a (l ++ t).
Proof. intros A a l t H. induction H; cbn; [apply ss_nil|apply ss_skip; auto|apply ss_take; auto]. Qed.

Lemma subseq_app_tail : forall A (a l t : list A), subseq a l -> subseq (a ++ t) (l ++ t).
Proof.
  intros A a l t H. induction H as [l|a l x H IH|a l x H IH]; cbn.
  - induction l; cbn; [apply subseq_refl|apply ss_skip; auto].
  - apply ss_skip. auto.
  - apply ss_take. auto.
Qed.

Lemma subseq_app : forall A (a a' b b' : list A), subseq a a' -> subseq b b' -> subseq (a ++ b) (a' ++ b').
Proof.
  intros A a a' b b' Ha Hb. induction Ha as [l|a l x H IH|a l x H IH]; cbn.
  - induction l; cbn; [assumption|apply ss_skip; auto].
  - apply ss_skip. auto.
  - apply ss_take. auto.
Qed.

Lemma subseq_filter : forall A (p : A -> bool) l, subseq (filter p l) l.
Proof. induction l as [|x l IH]; cbn; [apply ss_nil|]. destruct (p x); [apply ss_take|apply ss_skip]; auto. Qed.

Lemma subseq_drop_mid : forall A (a t : list A) x, subseq (a ++ t) (a ++ x :: t).
Proof. intros. apply subseq_app; [apply subseq_refl|]. apply ss_skip. apply subseq_refl. Qed.

Lemma subseq_In : forall A (a l : list A) x, subseq a l -> In x a -> In x l.
Proof.
  intros A a l x H. induction H as [l|a l y H IH|a l y H IH]; intros Hin.
  - destruct Hin.
  - right. auto.
  - destruct Hin as [->|Hin]; [now left|right; auto].
Qed.

Lemma subseq_map : forall A B (f : A -> B) a l, subseq a l -> subseq (map f a) (map f l).
Proof. intros A B f a l H. induction H; cbn; [apply ss_nil|apply ss_skip; auto|apply ss_take; auto]. Qed.

Lemma subseq_NoDup : forall A (a l : list A), subseq a l -> NoDup l -> NoDup a.
Proof.
  intros A a l H. induction H as [l|a l y H IH|a l y H IH]; intros Hn.
  - constructor.
  - inversion Hn; auto.
  - inversion Hn; subst. constructor; auto. intros Hin. eapply subseq_In in Hin; eauto.
Qed.

Lemma filter_all : forall A (p : A -> bool) l, forallb p l = true -> filter p l = l.
Proof.
  induction l as [|x l IH]; cbn; [auto|]. intros H. apply andb_prop in H as [-> H]. f_equal; auto.
Qed.

Lemma forallb_filter : forall A (p : A -> bool) l, forallb p (filter p l) = true.
Proof. induction l as [|x l IH]; cbn; [auto|]. destruct (p x) eqn:Hp; cbn; [rewrite Hp|]; auto. Qed.

Lemma forallb_filter2 : forall A (p q : A -> bool) l, forallb p l = true -> forallb p (filter q l) = true.
Proof.
  induction l as [|x l IH]; cbn; [auto|]. intros H. apply andb_prop in H as [Hx H].
  destruct (q x); cbn; [rewrite Hx|]; auto.
Qed.

(* ------------------------------------------------------------------ *)

Section LoggerProofs.
  Variable E F : Type.
  Variable eid : E -> N.
  Variable mt : F -> E -> option bool.
  Variable maxlen : nat.

  Notation lstate := (lstate E F).
  Notation lop := (lop E F).
  Notation step := (step E F eid mt maxlen).
  Notation gstep := (gstep E F eid mt maxlen).
  Notation grun := (grun E F eid mt maxlen).
  Notation run := (run E F eid mt maxlen).
  Notation mb := (mb E F mt).
  Notation in_raw := (in_raw E eid).
  Notation keep_aged := (keep_aged E F eid mt).
  Notation ext_raw := (ext_raw E F mt).
  Notation logged := (logged E F).
  Notation filters := (filters E F).

  Definition ids (l : list E) : list N := map eid l.

  Lemma in_raw_true : forall m r, In m r -> in_raw m r = true.
  Proof.
    intros m r H. unfold LogView.in_raw. apply existsb_exists. exists m. split; [assumption|apply N.eqb_refl].
  Qed.

  Lemma in_raw_false : forall m r, ~ In (eid m) (ids r) -> in_raw m r = false.
  Proof.
    intros m r H. unfold LogView.in_raw. destruct (existsb _ r) eqn:He; [|reflexivity].
    apply existsb_exists in He as [x [Hx Heq]]. apply N.eqb_eq in Heq.
    exfalso. apply H. rewrite <- Heq. now apply in_map.
  Qed.

  Lemma keep_aged_some : forall f r l k,
    keep_aged f r l = Some k -> k = filter (fun m => negb (in_raw m r) && mb f m) l.
  Proof.
    intros f r l; induction l as [|m l IH]; intros k H; cbn [LogView.keep_aged filter] in *; [now inversion H|].
    destruct (in_raw m r) eqn:Hr; cbn [negb andb]; [now apply IH|].
    unfold LogView.mb at 1. destruct (mt f m) as [b|]; [|discriminate].
    destruct (keep_aged f r l) as [k'|]; [|discriminate]. inversion H; subst.
    rewrite <- (IH k' eq_refl). now destruct b.
  Qed.

  Lemma ext_raw_some : forall f l k, ext_raw f l = Some k -> k = filter (mb f) l.
  Proof.
    intros f l; induction l as [|m l IH]; intros k H; cbn [LogView.ext_raw filter] in *; [now inversion H|].
    unfold LogView.mb at 1. destruct (mt f m) as [b|]; [|discriminate].
    destruct (ext_raw f l) as [k'|]; [|discriminate]. inversion H; subst.
    rewrite <- (IH k' eq_refl). now destruct b.
  Qed.

  (* the invariant; [aged] is the specification-side list of gstep, [arr] the
     entries logged so far *)
  Record Inv (s : lstate) (aged arr : list E) : Prop := {
    inv_view : view s = aged ++ filter (mb (flt s)) (raw s);
    inv_aged : forallb (mb (flt s)) aged = true;
    inv_sub : subseq (aged ++ raw s) arr;
    inv_len : length (raw s) <= maxlen }.

  Lemma nodup_mid : forall (a t : list E) x y,
    NoDup (ids (a ++ x :: t)) -> In y (a ++ t) -> eid y <> eid x.
  Proof.
    intros a t x y Hn Hy Heq. unfold ids in Hn. rewrite map_app in Hn. cbn in Hn.
    apply NoDup_remove_2 in Hn. apply Hn. rewrite <- Heq, <- map_app. now apply in_map.
  Qed.

  Lemma in_raw_head : forall f (a t : list E) x,
    NoDup (ids (a ++ x :: t)) ->
    in_raw x (a ++ filter (mb f) (x :: t)) = mb f x.
  Proof.
    intros f a t x Hn. cbn [filter]. destruct (mb f x) eqn:Hx.
    - apply in_raw_true. apply in_or_app. right. now left.
    - apply in_raw_false. intros Hin. unfold ids in Hin. apply in_map_iff in Hin as [y [Heq Hy]].
      eapply (nodup_mid a t x y); eauto.
      apply in_app_or in Hy as [Hy|Hy]; apply in_or_app; [now left|right].
      now apply filter_In in Hy as [Hy _].
  Qed.

  Lemma step_log_inv : forall s aged arr e,
    Inv s aged arr -> NoDup (ids (arr ++ [e])) ->
    let (s', aged') := gstep (s, aged) (Log e) in Inv s' aged' (arr ++ [e]).
  Proof.
    intros s aged arr e [Hv Ha Hs Hl] Hn. cbn [LogView.gstep LogView.step]. unfold step_log.
    destruct (paused s) eqn:Hp.
    - split; auto. now apply subseq_app_r.
    - (* facts about the window before truncation *)
      set (r' := raw s ++ [e]).
      assert (Hs' : subseq (aged ++ r') (arr ++ [e])).
      { unfold r'. rewrite app_assoc. now apply subseq_app_tail. }
      assert (Hn' : NoDup (ids (aged ++ r'))).
      { eapply subseq_NoDup; [apply subseq_map; exact Hs'|exact Hn]. }
      assert (Hmid : (if mb (flt s) e then view s ++ [e] else view s) = aged ++ filter (mb (flt s)) r').
      { unfold r'. rewrite filter_app, Hv. cbn [filter].
        destruct (mb (flt s) e); [now rewrite app_assoc|now rewrite app_nil_r, app_nil_r || now rewrite app_nil_r]. }
      unfold push, evicted. fold r'.
      assert (Hlen : length r' = S (length (raw s))) by (unfold r'; rewrite app_length; cbn; lia).
      destruct (Nat.ltb maxlen (length r')) eqn:Hov.
      + (* overflow: the head of r' falls out *)
        destruct r' as [|x t] eqn:Hr'; [cbn in Hlen; lia|]. cbn [tl hd_error].
        assert (Hlt : length t <= maxlen) by (cbn in Hlen; lia).
        set (v' := if mb (flt s) e then view s ++ [e] else view s) in *.
        assert (Hgoal : forall p, Inv (mkL t v' (flt s) p) (if in_raw x v' then aged ++ [x] else aged) (arr ++ [e])).
        { intros p. rewrite Hmid. rewrite in_raw_head by assumption. cbn [filter].
          destruct (mb (flt s) x) eqn:Hx; split; cbn [view raw flt]; auto.
          - now rewrite <- app_assoc.
          - rewrite forallb_app, Ha. cbn. now rewrite Hx.
          - rewrite <- app_assoc. exact Hs'.
          - eapply subseq_trans; [apply subseq_drop_mid|exact Hs']. }
        unfold v' in *. destruct (mb (flt s) e); apply Hgoal.
      + apply Nat.ltb_ge in Hov.
        destruct (mb (flt s) e); split; cbn [view raw flt]; auto.
  Qed.

  Lemma step_set_filter_inv : forall s aged arr f,
    Inv s aged arr -> NoDup (ids arr) ->
    let (s', aged') := gstep (s, aged) (SetFilter (Some f)) in Inv s' aged' arr.
  Proof.
    intros s aged arr f [Hv Ha Hs Hl] Hn. cbn [LogView.gstep LogView.step]. unfold step_set_filter, try_set_filter.
    destruct (keep_aged f (raw s) (view s)) as [a|] eqn:Hka; [|split; auto].
    destruct (ext_raw f (raw s)) as [r|] eqn:Her; [|split; auto].
    apply keep_aged_some in Hka. apply ext_raw_some in Her. subst a r.
    assert (Hn' : NoDup (ids (aged ++ raw s))).
    { eapply subseq_NoDup; [apply subseq_map; exact Hs|exact Hn]. }
    assert (Hk : filter (fun m => negb (in_raw m (raw s)) && mb f m) (view s) = filter (mb f) aged).
    { rewrite Hv, filter_app.
      assert (H2 : filter (fun m => negb (in_raw m (raw s)) && mb f m) (filter (mb (flt s)) (raw s)) = []).
      { assert (G : forall l, (forall m, In m l -> In m (raw s)) ->
                    filter (fun m => negb (in_raw m (raw s)) && mb f m) l = []).
        { induction l as [|m l IH]; intros Hsub; cbn; [reflexivity|].
          rewrite (in_raw_true m (raw s)) by (apply Hsub; now left). cbn. apply IH. intros; apply Hsub; now right. }
        apply G. intros m Hm. now apply filter_In in Hm as [Hm _]. }
      rewrite H2, app_nil_r. apply filter_ext_in. intros m Hm.
      rewrite in_raw_false; [reflexivity|].
      intros Hin2. unfold ids in Hn'. rewrite map_app in Hn'.
      apply in_split in Hm as [l1 [l2 ->]]. rewrite map_app in Hn'. cbn in Hn'.
      rewrite <- app_assoc in Hn'. cbn in Hn'. apply NoDup_remove_2 in Hn'. apply Hn'.
      apply in_or_app. right. apply in_or_app. now right. }
    rewrite Hk. split; cbn [view raw flt]; auto.
    - apply forallb_filter.
    - eapply subseq_trans; [|exact Hs]. apply subseq_app; [apply subseq_filter|apply subseq_refl].
  Qed.

  Definition op_logged (o : lop) : list E := match o with Log e => [e] | _ => [] end.

  Lemma gstep_inv : forall s aged arr o,
    Inv s aged arr -> NoDup (ids (arr ++ op_logged o)) ->
    let (s', aged') := gstep (s, aged) o in Inv s' aged' (arr ++ op_logged o).
  Proof.
    intros s aged arr o HI Hn. destruct o as [e|[f|]|b|]; cbn [op_logged] in *.
    - now apply step_log_inv.
    - rewrite app_nil_r in *. now apply step_set_filter_inv.
    - rewrite app_nil_r. cbn. exact HI.
    - rewrite app_nil_r. destruct HI. cbn. split; cbn; auto.
    - rewrite app_nil_r. destruct HI. cbn. split; cbn; auto; [constructor|lia].
  Qed.

  Lemma logged_cons : forall o ops, logged (o :: ops) = op_logged o ++ logged ops.
  Proof. intros. destruct o; reflexivity. Qed.

  Lemma grun_inv_gen : forall ops s aged arr,
    Inv s aged arr -> NoDup (ids (arr ++ logged ops)) ->
    let (s', aged') := fold_left gstep ops (s, aged) in Inv s' aged' (arr ++ logged ops).
  Proof.
    induction ops as [|o ops IH]; intros s aged arr HI Hn.
    - cbn. now rewrite app_nil_r.
    - cbn [fold_left]. rewrite logged_cons in *. rewrite app_assoc in *.
      pose proof (gstep_inv s aged arr o HI) as Hstep.
      destruct (gstep (s, aged) o) as [s1 aged1].
      apply IH; auto. apply Hstep.
      eapply subseq_NoDup; [apply subseq_map; apply subseq_app_r; apply subseq_refl|exact Hn].
  Qed.

  Lemma init_inv : forall f0, Inv (init E F f0) [] [].
  Proof. intros. split; cbn; auto; [constructor|lia]. Qed.

  Lemma fst_grun_gen : forall ops s aged, fst (fold_left gstep ops (s, aged)) = fold_left step ops s.
  Proof. induction ops as [|o ops IH]; intros; cbn [fold_left]; [reflexivity|]. cbn [LogView.gstep]. apply IH. Qed.

  Lemma fst_grun : forall f0 ops, fst (grun f0 ops) = run f0 ops.
  Proof. intros. apply fst_grun_gen. Qed.

  (* THE VIEW INVARIANT, for every operation sequence of distinct entries - whether
     or not a filter raises on some entry (set_filter then changes nothing, and
     add_log_entry treats the entry as not matching): the view is exactly the
     retained entries (aged ++ window) that match the current filter, all aged
     entries match it, the view has no duplicates and is a subsequence of the arrival
     order, and the window holds at most maxlen entries. *)
  Theorem view_invariant : forall f0 ops,
    NoDup (ids (logged ops)) ->
    let s := run f0 ops in
    let aged := snd (grun f0 ops) in
    view s = filter (mb (flt s)) (aged ++ raw s) /\
    forallb (mb (flt s)) aged = true /\
    NoDup (ids (view s)) /\
    subseq (view s) (logged ops) /\
    subseq (aged ++ raw s) (logged ops) /\
    length (raw s) <= maxlen.
  Proof.
    intros f0 ops Hn. cbn zeta. rewrite <- fst_grun.
    pose proof (grun_inv_gen ops (init E F f0) [] [] (init_inv f0)) as H.
    cbn [app] in H. specialize (H Hn). unfold LogView.grun.
    destruct (fold_left gstep ops (init E F f0, [])) as [s aged]. cbn [fst snd].
    destruct H as [Hv Ha Hs Hl].
    assert (Hvs : subseq (view s) (aged ++ raw s)).
    { rewrite Hv. apply subseq_app; [apply subseq_refl|apply subseq_filter]. }
    repeat split; auto.
    - rewrite filter_app, (filter_all _ _ aged Ha). exact Hv.
    - eapply subseq_NoDup; [apply subseq_map; eapply subseq_trans; [exact Hvs|exact Hs]|exact Hn].
    - eapply subseq_trans; eauto.
  Qed.

  Corollary aged_not_in_window : forall f0 ops,
    NoDup (ids (logged ops)) ->
    forall x, In x (snd (grun f0 ops)) -> in_raw x (raw (run f0 ops)) = false.
  Proof.
    intros f0 ops Hn x Hx.
    destruct (view_invariant f0 ops Hn) as [_ [_ [_ [_ [Hs _]]]]].
    apply in_raw_false.
    assert (Hn' : NoDup (ids (snd (grun f0 ops) ++ raw (run f0 ops)))).
    { eapply subseq_NoDup; [apply subseq_map; exact Hs|exact Hn]. }
    unfold ids in Hn'. rewrite map_app in Hn'.
    apply in_split in Hx as [l1 [l2 Hx]]. rewrite Hx in Hn'. rewrite map_app in Hn'. cbn in Hn'.
    rewrite <- app_assoc in Hn'. cbn in Hn'. apply NoDup_remove_2 in Hn'.
    intros Hin. apply Hn'. apply in_or_app. right. apply in_or_app. now right.
  Qed.
End LoggerProofs.


(* ------------------------------------------------------------------ *)
(* the concrete instance *)

Definition w_entry_ok : entry :=
  mkEntry KLLUDP FOO LLUDP [] [[]] [(BAR, [[mkVar BAZ (PBytes None [1]%N) None]])].

(* maxlen 1; log e1, log e2 (e1 ages out while visible); set_filter with an
   ill-formed filter (unknown enum) raises on e1: nothing changes *)
Definition w_ops : list (lop centry fexp) :=
  [Log (1%N, w_entry_bytes); Log (2%N, w_entry_ok); SetFilter (Some w_filter_bogus)].

Lemma set_filter_raise_keeps_state :
  let f0 := Leaf [42%N] [] None in
  let s := crun 1 f0 w_ops in
  flt s = f0 /\ map fst (view s) = [1%N; 2%N] /\ map fst (raw s) = [2%N].
Proof. vm_compute. repeat split. Qed.

(* non-vacuity: a sequence with eviction, aging, re-filtering, pause and clear *)
Definition ex_ops : list (lop centry fexp) :=
  [Log (1%N, w_entry_bytes); Log (2%N, w_entry_ok); Log (3%N, w_entry_meta);
   SetFilter (Some (Leaf FOO [BAR; BAZ] None)); SetPaused true; Log (4%N, w_entry_ok); SetPaused false;
   Log (5%N, w_entry_bytes); SetFilter (Some (Not (Leaf BAR [] None)))].

Lemma ex_ops_ok :
  NoDup (map (@fst N entry) (logged centry fexp ex_ops)) /\
  cobs (crun 2 (Leaf [42%N] [] None) ex_ops) = ([3%N; 5%N], [1%N; 2%N; 3%N; 5%N]).
Proof.
  split.
  - cbn. repeat constructor; cbn; intuition discriminate.
  - vm_compute. reflexivity.
Qed.
