(* C13: agreement of the two decoders on the CURRENT generated template and
   fast-decoder configuration (coq/gen/C13_gen.v), for every byte string and
   every choice of the opaque sub-readers - all 2^11 flag combinations at once.

   [fast_eq_strict]: the hand-transcribed fast decoder computes exactly the
   declarative interpretation of the generated field list with the strict
   (IndexError-at-the-end) C-string reader.  The proof walks both programs in
   lockstep; an optional section is one step (the whole "if flag then read
   else None" is case-split as a unit), so the flag combinations never
   multiply.  Any change of the generated terms on either side (field order,
   width, gate mask, struct format, a different spec object handed to
   reader.read) makes the two sides differ syntactically and the proof fail. *)
From Coq Require Import NArith ZArith List Bool Ascii String Lia ZifyBool ZifyNat ZifyN.
From HV Require Import Base.Bytes Compressed.Model Compressed.Proofs Compressed.Reencode.
From HVgen Require Import C13_gen.
Import ListNotations.
Open Scope N_scope.

Section Agree.
  Variable X : Type.
  Variable sub : N -> list N -> option (X * list N).
  Variable inner : N -> list N -> option X.
  Variable utf8 : list N -> option X.

  Notation value := (value X).
  Notation read_prim := (read_prim X).
  Notation read_n := (read_n X).
  Notation read_struct := (read_struct X).
  Notation read_seq := (read_seq X).
  Notation read_kind := (read_kind X sub inner utf8).
  Notation decl_fields := (decl_fields X sub inner utf8).
  Notation fast_read := (fast_read X sub inner utf8).

  (* the struct-level helpers of the fast decoder, as the primitive reads the template does *)
  Lemma fast_vec3_eq p b :
    fast_vec3 X [p; p; p] b = match read_n 3 p b with None => None | Some (vs, r) => Some (VTuple vs, r) end.
  Proof.
    unfold fast_vec3. rewrite read_struct_seq. cbn [Model.read_seq Model.read_n].
    destruct (read_prim p b) as [[v1 b1]|]; [|reflexivity].
    destruct (read_prim p b1) as [[v2 b2]|]; [|reflexivity].
    destruct (read_prim p b2) as [[v3 b3]|]; reflexivity.
  Qed.

  Lemma fast_one_eq p b : fast_one X [p] b = read_prim p b.
  Proof.
    unfold fast_one. rewrite read_struct_seq. cbn [Model.read_seq].
    destruct (read_prim p b) as [[v1 b1]|]; reflexivity.
  Qed.

  Lemma fast_bytes_eq b :
    fast_bytes X [PU 4] b = match read_window FU32 b with None => None | Some (w, r) => Some (VBytes w, r) end.
  Proof.
    unfold fast_bytes. rewrite fast_one_eq. unfold Model.read_prim, read_window. cbn [psize dec_prim].
    destruct (take 4 b) as [[l b']|]; [|reflexivity].
    replace (Z.of_N (of_le l) <? 0)%Z with false by lia. rewrite N2Z.id. reflexivity.
  Qed.

  Lemma fast_sound_eq a c d e b :
    fast_sound X [a; c; d; e] b =
    match read_prim a b with None => None | Some (v1, b1) =>
    match read_prim c b1 with None => None | Some (v2, b2) =>
    match read_prim d b2 with None => None | Some (v3, b3) =>
    match read_prim e b3 with None => None | Some (v4, b4) => Some ((v1, v2, v3, v4), b4) end end end end.
  Proof.
    unfold fast_sound. rewrite read_struct_seq. cbn [Model.read_seq].
    destruct (read_prim a b) as [[v1 b1]|]; [|reflexivity].
    destruct (read_prim c b1) as [[v2 b2]|]; [|reflexivity].
    destruct (read_prim d b2) as [[v3 b3]|]; [|reflexivity].
    destruct (read_prim e b3) as [[v4 b4]|]; reflexivity.
  Qed.

  Lemma state_eq pc st :
    fast_state current_cfg pc st
    = apply_ad (choose pc [(47%Z, AdId); (9%Z, AdRot 4 240)] AdId) st.
  Proof.
    unfold fast_state, current_cfg. cbn [c_pc_avatar c_pc_prim c_att choose].
    destruct (pc =? 47)%Z; [reflexivity|]. destruct (pc =? 9)%Z; reflexivity.
  Qed.

  Ltac rdc := cbv beta iota.

  Ltac cb :=
    cbn [Model.read_seq Model.read_n Model.read_kind Model.decl_fields
         Model.dec_prim psize read_window Model.lookup str_assoc name_eqb Ascii.eqb Bool.eqb andb
         fname fgate fkind fst snd app option_map is_nil color_inv].
  Ltac unf :=
    cb;
    unfold Model.read_prim, opt, Model.fast_text, Model.fast_cstr, Model.fast_color, Model.read_field, Model.gate_on;
    cb.

  Ltac step :=
    match goal with
    | |- None = None => reflexivity
    | |- Some _ = Some _ => reflexivity
    (* helpers of the fast side, as soon as their buffer is known *)
    | |- context [Model.read_struct X ?fmt ?b] => rewrite (read_struct_seq X fmt b); unf
    | |- context [fast_vec3 X [?p; ?p; ?p] ?b] => rewrite (fast_vec3_eq p b); unf
    | |- context [fast_one X [?p] ?b] => rewrite (fast_one_eq p b); unf
    | |- context [fast_bytes X [PU 4] ?b] => rewrite (fast_bytes_eq b); unf
    | |- context [fast_sound X [?a; ?c; ?d; ?e] ?b] => rewrite (fast_sound_eq a c d e b); unf
    (* sections that bind several names under one flag test: split on the flag *)
    | |- context [if flag_set ?f ?m then Model.fast_text X utf8 ?i ?b else _] => destruct (flag_set f m); unf; rdc
    | |- context [if flag_set ?f ?m then
                    match Model.read_prim X ?a ?b with None => None | Some _ => _ end
                  else Some ((VNone, VNone, VNone, VNone), ?b)] => destruct (flag_set f m); unf; rdc
    (* one optional section = one step *)
    | |- context [if flag_set ?f ?m then ?A else ?B] =>
        let e := constr:(if flag_set f m then A else B) in destruct e as [[? ?]|]; [rdc | reflexivity]
    | |- context [take ?n ?b] => destruct (take n b) as [[? ?]|]; [rdc | reflexivity]
    | |- context [takeN ?n ?b] => destruct (takeN n b) as [[? ?]|]; [rdc | reflexivity]
    | |- context [read_term ?s ?b] => destruct (read_term s b) as [[? ?]|]; [rdc | reflexivity]
    | |- context [utf8 ?w] => destruct (utf8 w); [rdc | reflexivity]
    | |- context [inner ?i ?w] => destruct (inner i w); [rdc | reflexivity]
    | |- context [sub ?i ?b] => destruct (sub i b) as [[? ?]|]; [rdc | reflexivity]
    | |- context [if ?c then _ else _] => destruct c; rdc
    end.

  Theorem fast_eq_strict : forall b,
    fast_read current_cfg b = option_map fst (decl_fields true current_template [] b).
  Proof.
    intros b.
    unfold Model.fast_read, current_cfg, current_template.
    cbn [c_header c_angvel c_parent c_tree c_dplen c_sound c_prim c_color_inv c_k_psold c_k_extra c_k_nv
         c_k_te c_k_ta c_k_psnew c_f_angvel c_f_parent c_f_tree c_f_scratch c_f_text c_f_media
         c_f_particles c_f_sound c_f_nv c_f_ta c_f_psnew].
    unf.
    repeat step.
    all: cbn [option_map fst]; unfold fast_state; cbn [c_pc_avatar c_pc_prim c_att choose];
      repeat match goal with |- context [(?a =? ?c)%Z] => destruct (a =? c)%Z end; reflexivity.
  Qed.

  (* every CStr field of the current template is followed by a fixed-width field that needs a byte *)
  Lemma eof_safe_current : eof_safe current_template = true.
  Proof. vm_compute. reflexivity. Qed.

  (* the fast decoder accepts nothing the template does not accept, with the same dict *)
  Theorem fast_only_decl : forall b v',
    fast_read current_cfg b = Some v' ->
    exists r, Model.decl_read X sub inner utf8 current_template b = Some (v', r).
  Proof.
    intros b v'. rewrite fast_eq_strict.
    destruct (decl_fields true current_template [] b) as [[v r]|] eqn:E; cbn [option_map fst]; [|discriminate].
    intros H; injection H as <-. exists r. apply lenient_of_strict. exact E.
  Qed.

  Hypothesis sub_suffix : forall id b x r, sub id b = Some (x, r) -> exists p, b = p ++ r.

  Theorem fast_agrees : forall b v,
    Model.decl_read X sub inner utf8 current_template b = Some (v, []) ->
    exists v', fast_read current_cfg b = Some v' /\ fields_equal X v v'.
  Proof.
    intros b v H. unfold Model.decl_read in H.
    apply (strict_of_lenient X sub inner utf8 sub_suffix _ eof_safe_current) in H.
    rewrite fast_eq_strict, H. exists v. split; [reflexivity|]. intros k; reflexivity.
  Qed.

End Agree.

(* the concrete instance used for extraction satisfies the assumption on sub-readers *)
Lemma coll_span_suffix lw tw n : forall b ws r, coll_span lw tw n b = Some (ws, r) -> b = ws ++ r.
Proof.
  induction n as [|n IH]; intros b ws r H; cbn [coll_span] in H.
  - now injection H as <- <-.
  - destruct (take tw b) as [[t b1]|] eqn:E1; [|discriminate].
    destruct (take lw b1) as [[l b2]|] eqn:E2; [|discriminate].
    destruct (takeN (of_le l) b2) as [[w b3]|] eqn:E3; [|discriminate].
    destruct (coll_span lw tw n b3) as [[ws' r']|] eqn:E4; [|discriminate].
    injection H as <- <-.
    apply take_some in E1 as [-> _]. apply take_some in E2 as [-> _].
    apply IH in E4. subst b3.
    unfold takeN in E3. destruct (N.of_nat (List.length b2) <? of_le l); [discriminate|].
    injection E3 as <- E3. rewrite <- (firstn_skipn (N.to_nat (of_le l)) b2) at 1.
    rewrite E3. now rewrite <- !app_assoc.
Qed.

Lemma c_sub_suffix sh : forall id b x r, c_sub sh id b = Some (x, r) -> exists p, b = p ++ r.
Proof.
  intros id b x r. unfold c_sub, shape_read. destruct (sh id) as [cnt tag len|].
  - destruct (take cnt b) as [[c b1]|] eqn:E1; [|discriminate].
    destruct (coll_span len tag (N.to_nat (of_le c)) b1) as [[ws r']|] eqn:E2; [|discriminate].
    intros H; injection H as <- <-. exists (c ++ ws).
    apply take_some in E1 as [-> _]. apply coll_span_suffix in E2. subst b1. now rewrite app_assoc.
  - intros H; injection H as <- <-. exists b. now rewrite app_nil_r.
Qed.

(* re-encoding, instantiated on the current generated template: its side
   conditions (distinct names, adapters involutive, every terminated reader
   followed by a field that needs a byte) are decided by computation *)
Theorem reencode_current :
  forall X sub inner utf8 sub_w inner_w utf8_w,
  (forall id b x r, sub id b = Some (x, r) -> exists p, b = p ++ r /\ sub_w id x = Some p) ->
  (forall id w x, inner id w = Some x -> inner_w id x = Some w) ->
  (forall w x, utf8 w = Some x -> utf8_w x = Some w) ->
  forall b v,
  bytes_okb b = true ->
  decl_read X sub inner utf8 current_template b = Some (v, []) ->
  writable X inner current_template v = true ->
  decl_write X inner sub_w inner_w utf8_w current_template v = Some b.
Proof.
  intros X sub inner utf8 sub_w inner_w utf8_w H1 H2 H3 b v Hb Hd Hw.
  eapply reencode; eauto; vm_compute; reflexivity.
Qed.
