(* The extracted instance: the model run on the *generated* template and fast
   configuration, with every opaque value represented by its raw window. *)
From Coq Require Import NArith ZArith List String.
From HV Require Import Compressed.Model.
From HVgen Require Import C13_gen.

Definition m_decl (b : list N) := decl_read_c shapes current_template b.
Definition m_fast (b : list N) := fast_read_c shapes current_cfg b.
Definition m_write (v : dict raw) := decl_write_c current_template v.
