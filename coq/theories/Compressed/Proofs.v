(* Generic lemmas about the C13 model (any field list, any opaque readers). *)
From Coq Require Import NArith ZArith List Bool Ascii String Lia ZifyBool ZifyNat ZifyN.
From HV Require Import Base.Bytes Compressed.Model.
Import ListNotations.
Open Scope N_scope.

(* ---------- take ---------- *)

Lemma take_add a n b :
  take (a + n) b =
  match take a b with
  | None => None
  | Some (w1, b') => match take n b' with
                     | None => None
                     | Some (w2, r) => Some (w1 ++ w2, r)
                     end
  end.
Proof.
  revert b; induction a as [|a IH]; intros b.
  - cbn [Nat.add]. unfold take at 2. cbn. destruct (take n b) as [[w2 r]|]; reflexivity.
  - destruct b as [|x b].
    + reflexivity.
    + replace (take (S a + n) (x :: b))
        with (match take (a + n) b with None => None | Some (w, r) => Some (x :: w, r) end).
      2:{ unfold take. cbn [List.length firstn skipn Nat.add].
          change (S (List.length b) <? S (a + n))%nat with (List.length b <? a + n)%nat.
          destruct (List.length b <? a + n)%nat; reflexivity. }
      replace (take (S a) (x :: b))
        with (match take a b with None => None | Some (w, r) => Some (x :: w, r) end).
      2:{ unfold take. cbn [List.length firstn skipn].
          change (S (List.length b) <? S a)%nat with (List.length b <? a)%nat.
          destruct (List.length b <? a)%nat; reflexivity. }
      rewrite IH. destruct (take a b) as [[w1 b']|]; [|reflexivity].
      destruct (take n b') as [[w2 r]|]; reflexivity.
Qed.

Lemma take_nil n r w : take n [] = Some (w, r) -> r = [] /\ w = [].
Proof.
  unfold take. destruct n; cbn; [|discriminate]. intros H; injection H as <- <-. auto.
Qed.

Lemma takeN_nil n r w : takeN n [] = Some (w, r) -> r = [].
Proof.
  unfold takeN. destruct (N.of_nat (List.length (@nil N)) <? n); [discriminate|].
  intros H; injection H as _ <-. now rewrite skipn_nil.
Qed.

Lemma take_firstn_skipn n b w r : take n b = Some (w, r) -> firstn n (w ++ r) = w /\ skipn n (w ++ r) = r.
Proof.
  intros H. apply take_some in H as [-> Hl]. subst n.
  rewrite firstn_app, Nat.sub_diag, firstn_all, skipn_app, Nat.sub_diag, skipn_all. cbn.
  now rewrite app_nil_r.
Qed.

(* ---------- span0 / read_term ---------- *)

Lemma read_term_strict_lenient b w r : read_term true b = Some (w, r) -> read_term false b = Some (w, r).
Proof. unfold read_term. destruct (span0 b) as [w' [r'|]]; [auto|discriminate]. Qed.

Lemma read_term_nil s w r : read_term s [] = Some (w, r) -> r = [].
Proof. unfold read_term; cbn. destruct s; [discriminate|]. intros H; now injection H as _ <-. Qed.

Lemma span0_split b w r : span0 b = (w, Some r) -> b = w ++ 0 :: r.
Proof.
  revert w r; induction b as [|c b IH]; intros w r H; cbn in H; [discriminate|].
  destruct (c =? 0) eqn:E.
  - injection H as <- <-. apply N.eqb_eq in E. now subst c.
  - destruct (span0 b) as [w' t]. injection H as <- ->. cbn. f_equal. now apply IH.
Qed.

Section Generic.
  Variable X : Type.
  Variable sub : N -> list N -> option (X * list N).
  Variable inner : N -> list N -> option X.
  Variable utf8 : list N -> option X.

  Notation value := (value X).
  Notation dict := (dict X).
  Notation read_prim := (read_prim X).
  Notation read_struct := (read_struct X).
  Notation read_seq := (read_seq X).
  Notation read_kind := (read_kind X sub inner utf8).
  Notation read_field := (read_field X sub inner utf8).
  Notation decl_fields := (decl_fields X sub inner utf8).
  Notation decl_read := (decl_read X sub inner utf8).

  (* struct.unpack_from of a whole format = reading the items one after the other *)
  Lemma read_struct_seq fmt b : read_struct fmt b = read_seq fmt b.
  Proof.
    revert b; induction fmt as [|p f IH]; intros b.
    - unfold Model.read_struct. cbn. unfold take. cbn. reflexivity.
    - cbn [Model.read_seq]. unfold Model.read_prim. unfold Model.read_struct at 1.
      cbn [struct_size fold_right]. rewrite take_add.
      destruct (take (psize p) b) as [[w1 b']|] eqn:E1; [|reflexivity].
      rewrite <- IH. unfold Model.read_struct.
      fold (struct_size f).
      destruct (take (struct_size f) b') as [[w2 r]|] eqn:E2; [|reflexivity].
      cbn [sums map fst snd].
      apply take_some in E1 as [_ L1].
      rewrite firstn_app, <- L1, Nat.sub_diag, firstn_all. cbn [firstn]. rewrite app_nil_r.
      rewrite skipn_app, Nat.sub_diag, skipn_all. cbn [skipn app]. reflexivity.
  Qed.

  (* ---------- end of buffer ---------- *)

  Hypothesis sub_suffix : forall id b x r, sub id b = Some (x, r) -> exists p, b = p ++ r.

  Lemma read_prim_nil p v r : read_prim p [] = Some (v, r) -> r = [].
  Proof.
    unfold Model.read_prim. destruct (take (psize p) []) as [[w r']|] eqn:E; [|discriminate].
    intros H; injection H as _ <-. now apply take_nil in E.
  Qed.

  Lemma read_n_nil n p vs r : Model.read_n X n p [] = Some (vs, r) -> r = [].
  Proof.
    revert vs r; induction n as [|n IH]; intros vs r H; cbn in H.
    - now injection H as _ <-.
    - destruct (read_prim p []) as [[v b']|] eqn:E; [|discriminate].
      apply read_prim_nil in E. subst b'.
      destruct (Model.read_n X n p []) as [[vs' r']|] eqn:E2; [|discriminate].
      injection H as _ <-. eapply IH; eauto.
  Qed.

  Lemma read_window_nil f w r : read_window f [] = Some (w, r) -> r = [].
  Proof.
    destruct f; cbn [read_window].
    - unfold take. cbn. discriminate.
    - intros H. now apply take_nil in H.
    - apply read_term_nil.
  Qed.

  Lemma read_kind_nil s k acc v r : read_kind s k acc [] = Some (v, r) -> r = [].
  Proof.
    destruct k; cbn [Model.read_kind].
    - apply read_prim_nil.
    - destruct (Model.read_n X n p []) as [[vs r']|] eqn:E; [|discriminate].
      intros H; injection H as _ <-. eapply read_n_nil; eauto.
    - discriminate.
    - destruct (read_prim p []) as [[[] r']|] eqn:E; try discriminate.
      destruct (lookup X key acc) as [[]|]; try discriminate.
      intros H; injection H as _ <-. eapply read_prim_nil; eauto.
    - destruct (read_term s []) as [[w r']|] eqn:E; [|discriminate].
      destruct (utf8 w); [|discriminate]. intros H; injection H as _ <-. eapply read_term_nil; eauto.
    - discriminate.
    - destruct (read_window f []) as [[w r']|] eqn:E; [|discriminate].
      apply read_window_nil in E. subst r'.
      destruct (eis && is_nil w); [intros H; now injection H as _ <-|].
      destruct lazy; [intros H; now injection H as _ <-|].
      destruct (inner id w); [|discriminate]. intros H; now injection H as _ <-.
    - destruct (sub id []) as [[x r']|] eqn:E; [|discriminate].
      intros H; injection H as _ <-. apply sub_suffix in E as [p E].
      symmetry in E. now apply app_eq_nil in E.
  Qed.

  Lemma read_field_nil s f acc v r : read_field s f acc [] = Some (v, r) -> r = [].
  Proof.
    unfold Model.read_field. destruct (fgate f) as [g|].
    - destruct (gate_on X acc g) as [[]|]; [| |discriminate]; cbn [opt].
      + apply read_kind_nil.
      + intros H; now injection H as _ <-.
    - apply read_kind_nil.
  Qed.

  (* an ungated fixed-width field of at least one byte *)
  Definition needs_byte (f : field) : bool :=
    match fgate f, fkind f with
    | None, KPrim p => negb (psize p =? 0)%nat
    | _, _ => false
    end.

  Lemma fields_nil_fail s T : existsb needs_byte T = true -> forall acc, decl_fields s T acc [] = None.
  Proof.
    induction T as [|f T IH]; intros H acc; [discriminate|].
    cbn [existsb] in H. cbn [Model.decl_fields].
    destruct (read_field s f acc []) as [[v b']|] eqn:E; [|reflexivity].
    pose proof (read_field_nil _ _ _ _ _ E) as ->.
    destruct (needs_byte f) eqn:Nb.
    - exfalso. unfold needs_byte in Nb. unfold Model.read_field in E.
      destruct (fgate f); [discriminate|]. destruct (fkind f); try discriminate.
      cbn [Model.read_kind] in E. unfold Model.read_prim in E.
      destruct (take (psize p) []) as [[w r]|] eqn:Et; [|discriminate].
      unfold take in Et. cbn [List.length] in Et. destruct (psize p); [discriminate|]. discriminate.
    - apply IH. exact H.
  Qed.

  (* readers that take the rest of the buffer when no terminator is left *)
  Definition eof_sensitive (k : kind) : bool :=
    match k with KCStr => true | KTyped FTerm _ _ _ _ => true | _ => false end.

  (* every such field is followed, later in the template, by a field that cannot be read from an empty buffer *)
  Fixpoint eof_safe (T : list field) : bool :=
    match T with
    | [] => true
    | f :: r => (if eof_sensitive (fkind f) then existsb needs_byte r else true) && eof_safe r
    end.

  Lemma read_kind_strict k acc b v r :
    read_kind true k acc b = Some (v, r) -> read_kind false k acc b = Some (v, r).
  Proof.
    destruct k; cbn [Model.read_kind]; auto.
    destruct (read_term true b) as [[w r']|] eqn:E; [|discriminate].
    now rewrite (read_term_strict_lenient _ _ _ E).
  Qed.

  (* a lenient CStr read that differs from the strict one has eaten the whole buffer *)
  Definition is_cstr (k : kind) : bool := match k with KCStr => true | _ => false end.

  Lemma read_kind_lenient k acc b v r :
    read_kind false k acc b = Some (v, r) ->
    read_kind true k acc b = Some (v, r) \/ (is_cstr k = true /\ r = []).
  Proof.
    destruct k; cbn [Model.read_kind is_cstr]; auto.
    unfold read_term. destruct (span0 b) as [w [r'|]]; auto.
    destruct (utf8 w); [|discriminate]. intros H; injection H as _ <-. auto.
  Qed.

  Lemma read_field_lenient f acc b v r :
    read_field false f acc b = Some (v, r) ->
    read_field true f acc b = Some (v, r) \/ (is_cstr (fkind f) = true /\ r = []).
  Proof.
    unfold Model.read_field. destruct (fgate f) as [g|].
    - destruct (gate_on X acc g) as [[]|]; cbn [opt]; auto. apply read_kind_lenient.
    - apply read_kind_lenient.
  Qed.

  Lemma strict_of_lenient T : eof_safe T = true -> forall acc b v,
    decl_fields false T acc b = Some (v, []) -> decl_fields true T acc b = Some (v, []).
  Proof.
    induction T as [|f T IH]; intros Hs acc b v H; [exact H|].
    cbn [eof_safe] in Hs. apply andb_prop in Hs as [Hf Hs].
    cbn [Model.decl_fields] in *.
    destruct (read_field false f acc b) as [[v1 b1]|] eqn:E; [|discriminate].
    destruct (read_field_lenient _ _ _ _ _ E) as [-> | [Hc ->]].
    - now apply IH.
    - exfalso. destruct (fkind f); try discriminate.
      now rewrite (fields_nil_fail false T Hf) in H.
  Qed.

  Lemma lenient_of_strict T : forall acc b v r,
    decl_fields true T acc b = Some (v, r) -> decl_fields false T acc b = Some (v, r).
  Proof.
    induction T as [|f T IH]; intros acc b v r H; [exact H|].
    cbn [Model.decl_fields] in *.
    destruct (read_field true f acc b) as [[v1 b1]|] eqn:E; [|discriminate].
    assert (E' : read_field false f acc b = Some (v1, b1)).
    { unfold Model.read_field in *. destruct (fgate f) as [g|].
      - destruct (gate_on X acc g) as [[]|]; cbn [opt] in *; auto. now apply read_kind_strict.
      - now apply read_kind_strict. }
    rewrite E'. now apply IH.
  Qed.

End Generic.
