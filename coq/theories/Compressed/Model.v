(* C13 - model of the two decoders of the compressed object-update payload.

   Declarative side (hippolyzer/lib/base/serialization.py, templates.py):
     [decl_fields] interprets a *field list* the way se.Template.deserialize
     does: fields in order, a ParseContext holding the fields read so far,
     OptionalFlagged fields gated on [ctx[flag_field] & flag_val], adapters
     that look at the context (ObjectStateAdapter).  The field list itself is
     generated from the live ObjectUpdateCompressedDataSerializer.TEMPLATE on
     every run (coq/gen/C13_gen.v).

   Fast side (hippolyzer/lib/base/objects.py):
     [fast_read] is a hand transcription of
     FastObjectUpdateCompressedDataDeserializer.read: struct-level reads
     (struct.unpack_from: one length check for the whole struct), gating on the
     local variable [flags], read_bytes_null_term (IndexError at end of
     buffer), and [reader.read(spec)] for the embedded sub-templates.  Its
     struct formats, flag constants and the spec objects it passes to
     reader.read are generated from the live class ([fast_cfg]).

   Embedded sub-templates (ExtraParams collection, TextureEntry, particle
   blocks, name-values, texture animation, utf8 decoding) are NOT modelled:
   they are section-local functions [sub]/[inner]/[utf8], and both decoders
   call the same function on the same bytes (that is what the Python code does:
   both call reader.read on the same spec object - checked by the translator
   by object identity).  Their *framing* (U32 length prefix, 86-byte window,
   NUL terminator with end-of-buffer fallback, empty-is-None, lazy) is modelled
   concretely.

   Definitions only; proofs are in Proofs.v / Agree.v. *)
From Coq Require Import NArith ZArith List Bool Ascii String.
From HV Require Import Base.Bytes.
Import ListNotations.
Open Scope N_scope.

(* Field names are lists of characters rather than Coq strings: an extracted
   type called "string" would shadow OCaml's in the shared driver prelude.
   Write [nm "FullID"]. *)
Definition name := list ascii.
Definition nm (s : string) : name := list_ascii_of_string s.
Fixpoint name_eqb (a b : name) : bool :=
  match a, b with
  | [], [] => true
  | x :: a', y :: b' => Ascii.eqb x y && name_eqb a' b'
  | _, _ => false
  end.

(* struct format codes: B/H/I = PU 1/2/4, b = PS 1, f = PRaw 4 (the four raw
   bytes: struct.unpack is a function of them), 16s = PRaw 16 *)
Inductive pkind := PU (n : nat) | PS (n : nat) | PRaw (n : nat).
Definition psize (p : pkind) : nat := match p with PU n | PS n | PRaw n => n end.

(* how a TypedBytes* / ByteArray window is delimited *)
Inductive frame := FU32 | FFixed (n : nat) | FTerm.

(* int -> int adapters selectable by ObjectStateAdapter *)
Inductive adapt := AdId | AdRot (off mask : Z).

Inductive kind :=
| KPrim (p : pkind)                         (* se.U8/U16/U32/S8/F32/UUID, IntEnum/IntFlag over them *)
| KTuple (n : nat) (p : pkind)              (* TupleCoord: n reads of the element spec (Vector3, PackedQuat(Vector3)) *)
| KColor (inv : bool)                       (* Color4 over BytesFixed(4) *)
| KCtx (key : name) (opts : list (Z * adapt)) (dflt : adapt) (p : pkind)   (* ContextAdapter keyed on ctx.<key> *)
| KCStr                                     (* se.CStr(): BytesTerminated [00], eof_terminates, utf8 *)
| KBytes                                    (* se.ByteArray(U32) *)
| KTyped (f : frame) (id : N) (eis lazy skipnone : bool)   (* TypedByteArray/TypedBytesFixed/TypedBytesTerminated *)
| KSub (id : N).                            (* any other spec: reader.read(spec) on the main reader *)

Record field := mkField { fname : name; fgate : option (name * Z); fkind : kind }.

(* what the translator reads from the live fast decoder class *)
Record fast_cfg := mkCfg {
  c_header : list pkind; c_angvel : list pkind; c_parent : list pkind; c_tree : list pkind;
  c_dplen : list pkind; c_sound : list pkind; c_prim : list pkind;
  c_color_inv : bool;
  c_k_psold : kind; c_k_extra : kind; c_k_nv : kind; c_k_te : kind; c_k_ta : kind; c_k_psnew : kind;
  c_f_angvel : Z; c_f_parent : Z; c_f_tree : Z; c_f_scratch : Z; c_f_text : Z; c_f_media : Z;
  c_f_particles : Z; c_f_sound : Z; c_f_nv : Z; c_f_ta : Z; c_f_psnew : Z;
  c_pc_avatar : Z; c_pc_prim : Z; c_att : adapt
}.

Definition struct_size (fmt : list pkind) : nat := fold_right (fun p n => (psize p + n)%nat) O fmt.

(* a & m != 0 on Python ints *)
Definition flag_set (fl m : Z) : bool := negb (Z.land fl m =? 0)%Z.

(* AttachmentStateAdapter._rotate_nibbles on unbounded ints *)
Definition rot_nibbles (off mask z : Z) : Z :=
  Z.lor (Z.shiftr (Z.land z mask) off) (Z.shiftl (Z.land z (Z.lnot mask)) off).
Definition apply_ad (a : adapt) (z : Z) : Z :=
  match a with AdId => z | AdRot off mask => rot_nibbles off mask z end.
Fixpoint choose (k : Z) (opts : list (Z * adapt)) (dflt : adapt) : adapt :=
  match opts with [] => dflt | (k', a) :: r => if (k =? k')%Z then a else choose k r dflt end.

Definition color_inv (inv : bool) (w : list N) : list N := if inv then map (fun x => 255 - x) w else w.

(* length-checked read with the length as N (never builds a huge nat) *)
Definition takeN (n : N) (b : list N) : option (list N * list N) :=
  if N.of_nat (List.length b) <? n then None else Some (firstn (N.to_nat n) b, skipn (N.to_nat n) b).

(* bytes before the first 00, and what follows it (None: no 00 before the end) *)
Fixpoint span0 (b : list N) : list N * option (list N) :=
  match b with
  | [] => ([], None)
  | c :: r => if c =? 0 then ([], Some r) else let (w, t) := span0 r in (c :: w, t)
  end.

(* strict = SimpleStructReader.read_bytes_null_term (IndexError at the end);
   lenient = se.BytesTerminated.deserialize with eof_terminates=True *)
Definition read_term (strict : bool) (b : list N) : option (list N * list N) :=
  match span0 b with
  | (w, Some r) => Some (w, r)
  | (w, None) => if strict then None else Some (w, [])
  end.

Definition read_window (f : frame) (b : list N) : option (list N * list N) :=
  match f with
  | FU32 => match take 4 b with None => None | Some (l, b') => takeN (of_le l) b' end
  | FFixed n => take n b
  | FTerm => read_term false b
  end.

Definition is_nil {A} (l : list A) : bool := match l with [] => true | _ => false end.

Fixpoint sums (fmt : list pkind) (w : list N) : list (pkind * list N) :=
  match fmt with
  | [] => []
  | p :: f => (p, firstn (psize p) w) :: sums f (skipn (psize p) w)
  end.

Fixpoint str_assoc {A} (k : name) (l : list (name * A)) : option A :=
  match l with [] => None | (k', v) :: r => if name_eqb k k' then Some v else str_assoc k r end.

(* the keys of the dict literal returned by the fast decoder *)
Definition n_FullID : name := Eval vm_compute in nm "FullID".
Definition n_ID : name := Eval vm_compute in nm "ID".
Definition n_PCode : name := Eval vm_compute in nm "PCode".
Definition n_State : name := Eval vm_compute in nm "State".
Definition n_CRC : name := Eval vm_compute in nm "CRC".
Definition n_Material : name := Eval vm_compute in nm "Material".
Definition n_ClickAction : name := Eval vm_compute in nm "ClickAction".
Definition n_Scale : name := Eval vm_compute in nm "Scale".
Definition n_Position : name := Eval vm_compute in nm "Position".
Definition n_Rotation : name := Eval vm_compute in nm "Rotation".
Definition n_Flags : name := Eval vm_compute in nm "Flags".
Definition n_OwnerID : name := Eval vm_compute in nm "OwnerID".
Definition n_AngularVelocity : name := Eval vm_compute in nm "AngularVelocity".
Definition n_ParentID : name := Eval vm_compute in nm "ParentID".
Definition n_TreeSpecies : name := Eval vm_compute in nm "TreeSpecies".
Definition n_ScratchPad : name := Eval vm_compute in nm "ScratchPad".
Definition n_Text : name := Eval vm_compute in nm "Text".
Definition n_TextColor : name := Eval vm_compute in nm "TextColor".
Definition n_MediaURL : name := Eval vm_compute in nm "MediaURL".
Definition n_PSBlock : name := Eval vm_compute in nm "PSBlock".
Definition n_ExtraParams : name := Eval vm_compute in nm "ExtraParams".
Definition n_Sound : name := Eval vm_compute in nm "Sound".
Definition n_SoundGain : name := Eval vm_compute in nm "SoundGain".
Definition n_SoundFlags : name := Eval vm_compute in nm "SoundFlags".
Definition n_SoundRadius : name := Eval vm_compute in nm "SoundRadius".
Definition n_NameValue : name := Eval vm_compute in nm "NameValue".
Definition n_PathCurve : name := Eval vm_compute in nm "PathCurve".
Definition n_ProfileCurve : name := Eval vm_compute in nm "ProfileCurve".
Definition n_PathBegin : name := Eval vm_compute in nm "PathBegin".
Definition n_PathEnd : name := Eval vm_compute in nm "PathEnd".
Definition n_PathScaleX : name := Eval vm_compute in nm "PathScaleX".
Definition n_PathScaleY : name := Eval vm_compute in nm "PathScaleY".
Definition n_PathShearX : name := Eval vm_compute in nm "PathShearX".
Definition n_PathShearY : name := Eval vm_compute in nm "PathShearY".
Definition n_PathTwist : name := Eval vm_compute in nm "PathTwist".
Definition n_PathTwistBegin : name := Eval vm_compute in nm "PathTwistBegin".
Definition n_PathRadiusOffset : name := Eval vm_compute in nm "PathRadiusOffset".
Definition n_PathTaperX : name := Eval vm_compute in nm "PathTaperX".
Definition n_PathTaperY : name := Eval vm_compute in nm "PathTaperY".
Definition n_PathRevolutions : name := Eval vm_compute in nm "PathRevolutions".
Definition n_PathSkew : name := Eval vm_compute in nm "PathSkew".
Definition n_ProfileBegin : name := Eval vm_compute in nm "ProfileBegin".
Definition n_ProfileEnd : name := Eval vm_compute in nm "ProfileEnd".
Definition n_ProfileHollow : name := Eval vm_compute in nm "ProfileHollow".
Definition n_TextureEntry : name := Eval vm_compute in nm "TextureEntry".
Definition n_TextureAnim : name := Eval vm_compute in nm "TextureAnim".
Definition n_PSBlockNew : name := Eval vm_compute in nm "PSBlockNew".

Section Readers.
  Variable X : Type.
  (* reader.read(spec) for the spec object numbered id, on the rest of the buffer *)
  Variable sub : N -> list N -> option (X * list N).
  (* TypedBytesBase._deserialize_inner: parse a whole window (trailing bytes = failure) *)
  Variable inner : N -> list N -> option X.
  Variable utf8 : list N -> option X.
  (* the corresponding writers *)
  Variable sub_w : N -> X -> option (list N).
  Variable inner_w : N -> X -> option (list N).
  Variable utf8_w : X -> option (list N).

  Inductive value :=
  | VNone
  | VInt (z : Z)
  | VBytes (l : list N)
  | VTuple (l : list value)
  | VLazy (id : N) (w : list N)       (* lazy_object_proxy over a window, parsed on first use *)
  | VX (x : X).

  Definition dict := list (name * value).
  Definition lookup (k : name) (d : dict) : option value := str_assoc k d.

  Definition dec_prim (p : pkind) (w : list N) : value :=
    match p with
    | PU _ => VInt (Z.of_N (of_le w))
    | PS n => VInt (to_signed n (of_le w))
    | PRaw _ => VBytes w
    end.

  Definition read_prim (p : pkind) (b : list N) : option (value * list N) :=
    match take (psize p) b with None => None | Some (w, r) => Some (dec_prim p w, r) end.

  Fixpoint read_n (n : nat) (p : pkind) (b : list N) : option (list value * list N) :=
    match n with
    | O => Some ([], b)
    | S k => match read_prim p b with
             | None => None
             | Some (v, b') => match read_n k p b' with
                               | None => None
                               | Some (vs, r) => Some (v :: vs, r)
                               end
             end
    end.

  (* struct.Struct(fmt).unpack_from(buffer, pos): one length check, then split *)
  Definition read_struct (fmt : list pkind) (b : list N) : option (list value * list N) :=
    match take (struct_size fmt) b with
    | None => None
    | Some (w, r) => Some (map (fun pw => dec_prim (fst pw) (snd pw)) (sums fmt w), r)
    end.

  (* the same thing as sequential reads (proved equal to read_struct) *)
  Fixpoint read_seq (fmt : list pkind) (b : list N) : option (list value * list N) :=
    match fmt with
    | [] => Some ([], b)
    | p :: f => match read_prim p b with
                | None => None
                | Some (v, b') => match read_seq f b' with
                                  | None => None
                                  | Some (vs, r) => Some (v :: vs, r)
                                  end
                end
    end.

  (* spec.deserialize(reader, ctx).  [strict] only changes CStr: see read_term.
     The declarative decoder is [strict = false]. *)
  Definition read_kind (strict : bool) (k : kind) (acc : dict) (b : list N) : option (value * list N) :=
    match k with
    | KPrim p => read_prim p b
    | KTuple n p => match read_n n p b with None => None | Some (vs, r) => Some (VTuple vs, r) end
    | KColor inv => match take 4 b with None => None | Some (w, r) => Some (VBytes (color_inv inv w), r) end
    | KCtx key opts dflt p =>
        match read_prim p b with
        | Some (VInt z, r) =>
            match lookup key acc with
            | Some (VInt k) => Some (VInt (apply_ad (choose k opts dflt) z), r)
            | _ => None
            end
        | _ => None
        end
    | KCStr =>
        match read_term strict b with
        | None => None
        | Some (w, r) => match utf8 w with None => None | Some x => Some (VX x, r) end
        end
    | KBytes => match read_window FU32 b with None => None | Some (w, r) => Some (VBytes w, r) end
    | KTyped f id eis lazy _ =>
        match read_window f b with
        | None => None
        | Some (w, r) =>
            if eis && is_nil w then Some (VNone, r)
            else if lazy then Some (VLazy id w, r)
            else match inner id w with None => None | Some x => Some (VX x, r) end
        end
    | KSub id => match sub id b with None => None | Some (x, r) => Some (VX x, r) end
    end.

  (* OptionalFlagged._normalize_flag_val(ctx) & flag_val *)
  Definition gate_on (acc : dict) (g : name * Z) : option bool :=
    match lookup (fst g) acc with
    | Some (VInt fl) => Some (flag_set fl (snd g))
    | _ => None
    end.

  (* "if cond: v = read() else v = None" *)
  Definition opt {A} (c : bool) (r : list N -> option (A * list N)) (dflt : A) (b : list N) : option (A * list N) :=
    if c then r b else Some (dflt, b).

  Definition read_field (strict : bool) (f : field) (acc : dict) (b : list N) : option (value * list N) :=
    match fgate f with
    | None => read_kind strict (fkind f) acc b
    | Some g => match gate_on acc g with
                | None => None
                | Some c => opt c (read_kind strict (fkind f) acc) VNone b
                end
    end.

  (* se.Template.deserialize (skip_missing=False): returns the dict and the unread rest *)
  Fixpoint decl_fields (strict : bool) (fs : list field) (acc : dict) (b : list N) : option (dict * list N) :=
    match fs with
    | [] => Some (acc, b)
    | f :: r => match read_field strict f acc b with
                | None => None
                | Some (v, b') => decl_fields strict r (acc ++ [(fname f, v)]) b'
                end
    end.

  Definition decl_read (T : list field) (b : list N) : option (dict * list N) := decl_fields false T [] b.

  (* ------------------------------------------------------------------ *)
  (* FastObjectUpdateCompressedDataDeserializer.read *)

  Definition fast_vec3 (fmt : list pkind) (b : list N) : option (value * list N) :=
    match read_struct fmt b with
    | Some ([x; y; z], r) => Some (VTuple [x; y; z], r)       (* Vector3 of the three values *)
    | _ => None
    end.

  Definition fast_one (fmt : list pkind) (b : list N) : option (value * list N) :=
    match read_struct fmt b with
    | Some (v :: _, r) => Some (v, r)                          (* read_struct(...)[0] *)
    | _ => None
    end.

  (* reader.read_bytes(reader.read_struct(DATAPACKER_LEN)[0]) *)
  Definition fast_bytes (fmt : list pkind) (b : list N) : option (value * list N) :=
    match fast_one fmt b with
    | Some (VInt n, b') =>
        match (if (n <? 0)%Z then None else takeN (Z.to_N n) b') with
        | None => None
        | Some (w, r) => Some (VBytes w, r)
        end
    | _ => None
    end.

  (* reader.read_bytes_null_term().decode("utf8") *)
  Definition fast_cstr (b : list N) : option (value * list N) :=
    match read_term true b with
    | None => None
    | Some (w, r) => match utf8 w with None => None | Some x => Some (VX x, r) end
    end.

  (* cls.COLOR_ADAPTER.decode(reader.read_bytes(4), ctx=None) *)
  Definition fast_color (inv : bool) (b : list N) : option (value * list N) :=
    match take 4 b with None => None | Some (w, r) => Some (VBytes (color_inv inv w), r) end.

  Definition fast_text (inv : bool) (b : list N) : option ((value * value) * list N) :=
    match fast_cstr b with
    | None => None
    | Some (t, b') => match fast_color inv b' with None => None | Some (c, r) => Some ((t, c), r) end
    end.

  Definition fast_sound (fmt : list pkind) (b : list N) : option ((value * value * value * value) * list N) :=
    match read_struct fmt b with
    | Some ([s; g; f; rad], r) => Some ((s, g, f, rad), r)
    | _ => None
    end.

  Definition fast_state (C : fast_cfg) (pc st : Z) : Z :=
    if (pc =? c_pc_avatar C)%Z then st                    (* AgentState(state): an IntFlag, == int *)
    else if (pc =? c_pc_prim C)%Z then apply_ad (c_att C) st
    else st.

  Definition fast_read (C : fast_cfg) (data : list N) : option dict :=
    match read_struct (c_header C) data with
    | Some ([full_id; local_id; VInt pc; VInt st; crc; material; click_action;
             scalex; scaley; scalez; posx; posy; posz; rotx; roty; rotz; VInt flags; owner_id], b) =>
      let scale := VTuple [scalex; scaley; scalez] in
      let state := VInt (fast_state C pc st) in
      let pos := VTuple [posx; posy; posz] in
      let rot := VTuple [rotx; roty; rotz] in
      match opt (flag_set flags (c_f_angvel C)) (fast_vec3 (c_angvel C)) VNone b with None => None | Some (ang_vel, b) =>
      match opt (flag_set flags (c_f_parent C)) (fast_one (c_parent C)) VNone b with None => None | Some (parent_id, b) =>
      match opt (flag_set flags (c_f_tree C)) (fast_one (c_tree C)) VNone b with None => None | Some (tree_species, b) =>
      match opt (flag_set flags (c_f_scratch C)) (fast_bytes (c_dplen C)) VNone b with None => None | Some (scratchpad, b) =>
      match opt (flag_set flags (c_f_text C)) (fast_text (c_color_inv C)) (VNone, VNone) b with None => None | Some ((text, text_color), b) =>
      match opt (flag_set flags (c_f_media C)) fast_cstr VNone b with None => None | Some (media_url, b) =>
      match opt (flag_set flags (c_f_particles C)) (read_kind false (c_k_psold C) []) VNone b with None => None | Some (psblock, b) =>
      match read_kind false (c_k_extra C) [] b with None => None | Some (extra_params, b) =>
      match opt (flag_set flags (c_f_sound C)) (fast_sound (c_sound C)) (VNone, VNone, VNone, VNone) b with None => None
      | Some ((sound, sound_gain, sound_flags, sound_radius), b) =>
      match opt (flag_set flags (c_f_nv C)) (read_kind false (c_k_nv C) []) VNone b with None => None | Some (name_value, b) =>
      match read_struct (c_prim C) b with
      | Some ([path_curve; profile_curve; path_begin; path_end; path_scale_x; path_scale_y;
               path_shear_x; path_shear_y; path_twist; path_twist_begin; path_radius_offset;
               path_taper_x; path_taper_y; path_revolutions; path_skew; profile_begin;
               profile_end; profile_hollow], b) =>
      match read_kind false (c_k_te C) [] b with None => None | Some (texture_entry, b) =>
      match opt (flag_set flags (c_f_ta C)) (read_kind false (c_k_ta C) []) VNone b with None => None | Some (texture_anim, b) =>
      match opt (flag_set flags (c_f_psnew C)) (read_kind false (c_k_psnew C) []) VNone b with None => None | Some (psblock_new, _) =>
      Some [
        (n_FullID, full_id); (n_ID, local_id); (n_PCode, VInt pc); (n_State, state); (n_CRC, crc);
        (n_Material, material); (n_ClickAction, click_action); (n_Scale, scale); (n_Position, pos);
        (n_Rotation, rot); (n_Flags, VInt flags); (n_OwnerID, owner_id); (n_AngularVelocity, ang_vel);
        (n_ParentID, parent_id); (n_TreeSpecies, tree_species); (n_ScratchPad, scratchpad);
        (n_Text, text); (n_TextColor, text_color); (n_MediaURL, media_url); (n_PSBlock, psblock);
        (n_ExtraParams, extra_params); (n_Sound, sound); (n_SoundGain, sound_gain);
        (n_SoundFlags, sound_flags); (n_SoundRadius, sound_radius); (n_NameValue, name_value);
        (n_PathCurve, path_curve); (n_ProfileCurve, profile_curve); (n_PathBegin, path_begin);
        (n_PathEnd, path_end); (n_PathScaleX, path_scale_x); (n_PathScaleY, path_scale_y);
        (n_PathShearX, path_shear_x); (n_PathShearY, path_shear_y); (n_PathTwist, path_twist);
        (n_PathTwistBegin, path_twist_begin); (n_PathRadiusOffset, path_radius_offset);
        (n_PathTaperX, path_taper_x); (n_PathTaperY, path_taper_y); (n_PathRevolutions, path_revolutions);
        (n_PathSkew, path_skew); (n_ProfileBegin, profile_begin); (n_ProfileEnd, profile_end);
        (n_ProfileHollow, profile_hollow); (n_TextureEntry, texture_entry); (n_TextureAnim, texture_anim);
        (n_PSBlockNew, psblock_new) ]
      end end end
      | _ => None end
      end end end end end end end end end end
    | _ => None
    end.

  (* dict equality as Python's == sees it: same value under every key *)
  Definition fields_equal (v v' : dict) : Prop := forall k, lookup k v = lookup k v'.

  (* ------------------------------------------------------------------ *)
  (* se.Template.serialize *)

  Definition in_range (lo hi z : Z) : bool := ((lo <=? z) && (z <? hi))%Z.

  Definition write_prim (p : pkind) (v : value) : option (list N) :=
    match p, v with
    | PU n, VInt z => if in_range 0 (2 ^ (8 * Z.of_nat n)) z then Some (le_bytes n (Z.to_N z)) else None
    | PS n, VInt z => if in_range (- 2 ^ (8 * Z.of_nat n - 1)) (2 ^ (8 * Z.of_nat n - 1)) z
                      then Some (le_bytes n (of_signed n z)) else None
    | PRaw n, VBytes w => if (List.length w =? n)%nat then Some w else None
    | _, _ => None
    end.

  Fixpoint write_all (p : pkind) (vs : list value) : option (list N) :=
    match vs with
    | [] => Some []
    | v :: r => match write_prim p v, write_all p r with
                | Some a, Some c => Some (a ++ c)
                | _, _ => None
                end
    end.

  Definition write_window (f : frame) (buf : list N) : option (list N) :=
    match f with
    | FU32 => if N.of_nat (List.length buf) <? 4294967296 then Some (le_bytes 4 (N.of_nat (List.length buf)) ++ buf) else None
    | FFixed n => if (List.length buf =? n)%nat then Some buf else None
    | FTerm => Some (buf ++ [0])
    end.

  Definition is_term (f : frame) : bool := match f with FTerm => true | _ => false end.
  Definition is_none (v : value) : bool := match v with VNone => true | _ => false end.

  Definition write_kind (k : kind) (ctx : dict) (v : value) : option (list N) :=
    match k with
    | KPrim p => write_prim p v
    | KTuple n p => match v with
                    | VTuple vs => if (List.length vs =? n)%nat then write_all p vs else None
                    | _ => None
                    end
    | KColor inv => match v with
                    | VBytes w => if (List.length w =? 4)%nat then Some (color_inv inv w) else None
                    | _ => None
                    end
    | KCtx key opts dflt p =>
        match v, lookup key ctx with
        | VInt z, Some (VInt k) => write_prim p (VInt (apply_ad (choose k opts dflt) z))
        | _, _ => None
        end
    | KCStr => match v with
               | VX x => match utf8_w x with None => None | Some w => Some (w ++ [0]) end
               | _ => None
               end
    | KBytes => match v with VBytes w => write_window FU32 w | _ => None end
    | KTyped f id eis lazy skipnone =>
        if is_term f && skipnone && eis && is_none v then Some []        (* TypedBytesTerminated.serialize: nothing at all *)
        else
          match (if eis && is_none v then Some []
                 else match v with
                      | VX x => inner_w id x
                      | VLazy id' w => match inner id' w with None => None | Some x => inner_w id x end
                      | _ => None
                      end) with
          | None => None
          | Some buf => write_window f buf
          end
    | KSub id => match v with VX x => sub_w id x | _ => None end
    end.

  Definition write_field (f : field) (ctx : dict) : option (list N) :=
    match fgate f with
    | None => match lookup (fname f) ctx with None => None | Some v => write_kind (fkind f) ctx v end
    | Some g =>
        match gate_on ctx g with
        | None => None
        | Some false => Some []
        | Some true => write_kind (fkind f) ctx (match lookup (fname f) ctx with Some v => v | None => VNone end)
        end
    end.

  Fixpoint decl_write_fields (fs : list field) (ctx : dict) : option (list N) :=
    match fs with
    | [] => Some []
    | f :: r => match write_field f ctx, decl_write_fields r ctx with
                | Some a, Some c => Some (a ++ c)
                | _, _ => None
                end
    end.

  Definition decl_write (T : list field) (v : dict) : option (list N) := decl_write_fields T v.

End Readers.

Arguments VNone {X}.
Arguments VInt {X} z.
Arguments VBytes {X} l.
Arguments VTuple {X} l.
Arguments VLazy {X} id w.
Arguments VX {X} x.

(* ---------------------------------------------------------------------- *)
(* A concrete instance used for extraction (model vs implementation on field
   spans): every opaque value is the raw window it was parsed from.  The
   generated [shape] table says how a KSub reader delimits itself. *)
Inductive shape :=
| ShColl (cnt tag len : nat)     (* Collection(U<cnt>, EnumSwitch(IntEnum(U<tag>), {_: TypedByteArray(U<len>, _)})) *)
| ShRest.                        (* LengthSwitch: everything that is left *)

Fixpoint coll_span (len_w tag_w : nat) (n : nat) (b : list N) : option (list N * list N) :=
  match n with
  | O => Some ([], b)
  | S k =>
      match take tag_w b with
      | None => None
      | Some (t, b1) =>
          match take len_w b1 with
          | None => None
          | Some (l, b2) =>
              match takeN (of_le l) b2 with
              | None => None
              | Some (w, b3) =>
                  match coll_span len_w tag_w k b3 with
                  | None => None
                  | Some (ws, r) => Some (t ++ l ++ w ++ ws, r)
                  end
              end
          end
      end
  end.

Definition shape_read (s : shape) (b : list N) : option (list N * list N) :=
  match s with
  | ShColl cnt tag len =>
      match take cnt b with
      | None => None
      | Some (c, b1) =>
          match coll_span len tag (N.to_nat (of_le c)) b1 with
          | None => None
          | Some (ws, r) => Some (c ++ ws, r)
          end
      end
  | ShRest => Some (b, [])
  end.

Definition raw := list N.
Definition c_sub (shapes : N -> shape) (id : N) (b : list N) : option (raw * list N) := shape_read (shapes id) b.
Definition c_inner (id : N) (w : list N) : option raw := Some w.
Definition c_utf8 (w : list N) : option raw := Some w.
Definition c_w (id : N) (x : raw) : option (list N) := Some x.
Definition c_utf8_w (x : raw) : option (list N) := Some x.

Definition decl_read_c (shapes : N -> shape) (T : list field) (b : list N) :=
  decl_read raw (c_sub shapes) c_inner c_utf8 T b.
Definition fast_read_c (shapes : N -> shape) (C : fast_cfg) (b : list N) :=
  fast_read raw (c_sub shapes) c_inner c_utf8 C b.
Definition decl_write_c (T : list field) (v : dict raw) :=
  decl_write raw c_inner c_w c_w c_utf8_w T v.
