(* C13, re-encoding: writing the decoded fields back through the template
   (se.Template.serialize, [decl_write]) reproduces the payload - for any
   template, given that the embedded sub-templates round-trip on what they
   accepted.  One case of the faithful model does NOT round-trip (a NUL
   terminated typed window that decoded to None is written as nothing at all,
   TypedBytesTerminated.serialize); it is excluded by [writable] and refuted
   separately ([reencode_refuted]). *)
From Coq Require Import NArith ZArith List Bool Ascii String Lia ZifyBool ZifyNat ZifyN.
From HV Require Import Base.Bytes Compressed.Model Compressed.Proofs.
Import ListNotations.
Open Scope N_scope.

(* ---------- names ---------- *)

Lemma name_eqb_refl a : name_eqb a a = true.
Proof. induction a as [|x a IH]; [reflexivity|]. cbn. now rewrite Ascii.eqb_refl, IH. Qed.

Lemma str_assoc_app {A} k (l r : list (name * A)) :
  str_assoc k (l ++ r) = match str_assoc k l with Some v => Some v | None => str_assoc k r end.
Proof.
  induction l as [|[k' v] l IH]; [reflexivity|]. cbn. destruct (name_eqb k k'); [reflexivity|exact IH].
Qed.

Lemma str_assoc_fresh {A} k (l : list (name * A)) :
  existsb (name_eqb k) (map fst l) = false -> str_assoc k l = None.
Proof.
  induction l as [|[k' v] l IH]; [reflexivity|]. cbn. destruct (name_eqb k k'); [discriminate|exact IH].
Qed.

(* no field name occurs twice (seen = names already read) *)
Fixpoint names_ok (seen : list name) (T : list field) : bool :=
  match T with
  | [] => true
  | f :: r => negb (existsb (name_eqb (fname f)) seen) && names_ok (seen ++ [fname f]) r
  end.

(* ---------- adapters ---------- *)

Definition ad_ok (a : adapt) : bool :=
  match a with AdId => true | AdRot off mask => ((off =? 4) && (mask =? 240))%Z end.
Definition prim_ok (p : pkind) : bool := match p with PS n => (0 <? n)%nat | _ => true end.
Definition kind_ok (k : kind) : bool :=
  match k with
  | KPrim p | KTuple _ p => prim_ok p
  | KCtx _ opts dflt p =>
      (match p with PU 1 => true | _ => false end) && forallb (fun o => ad_ok (snd o)) opts && ad_ok dflt
  | _ => true
  end.

Lemma rot_involutive z : (0 <= z < 256)%Z -> rot_nibbles 4 240 (rot_nibbles 4 240 z) = z.
Proof.
  intros Hz.
  assert (H : forallb (fun n => (rot_nibbles 4 240 (rot_nibbles 4 240 (Z.of_nat n)) =? Z.of_nat n)%Z) (seq 0 256) = true)
    by (vm_compute; reflexivity).
  rewrite forallb_forall in H. specialize (H (Z.to_nat z)).
  rewrite Z2Nat.id in H by lia. apply Z.eqb_eq, H, in_seq. lia.
Qed.

Lemma apply_ad_involutive a z : ad_ok a = true -> (0 <= z < 256)%Z -> apply_ad a (apply_ad a z) = z.
Proof.
  destruct a as [|off mask]; [reflexivity|]. cbn [ad_ok apply_ad]. intros H Hz.
  apply andb_prop in H as [H1 H2]. apply Z.eqb_eq in H1, H2. subst. now apply rot_involutive.
Qed.

Lemma choose_ok k opts dflt :
  forallb (fun o => ad_ok (snd o)) opts = true -> ad_ok dflt = true -> ad_ok (choose k opts dflt) = true.
Proof.
  induction opts as [|[k' a] opts IH]; cbn; intros H Hd; [exact Hd|].
  apply andb_prop in H as [H1 H2]. destruct (k =? k')%Z; auto.
Qed.

Lemma pow_2_8 n : Z.of_N (256 ^ N.of_nat n) = (2 ^ (8 * Z.of_nat n))%Z.
Proof.
  rewrite N2Z.inj_pow. change (Z.of_N 256) with (2 ^ 8)%Z. rewrite <- Z.pow_mul_r by lia. f_equal. lia.
Qed.

Section Reencode.
  Variable X : Type.
  Variable sub : N -> list N -> option (X * list N).
  Variable inner : N -> list N -> option X.
  Variable utf8 : list N -> option X.
  Variable sub_w : N -> X -> option (list N).
  Variable inner_w : N -> X -> option (list N).
  Variable utf8_w : X -> option (list N).

  Hypothesis sub_rt : forall id b x r, sub id b = Some (x, r) -> exists p, b = p ++ r /\ sub_w id x = Some p.
  Hypothesis inner_rt : forall id w x, inner id w = Some x -> inner_w id x = Some w.
  Hypothesis utf8_rt : forall w x, utf8 w = Some x -> utf8_w x = Some w.

  Notation value := (value X).
  Notation dict := (dict X).
  Notation lookup := (lookup X).
  Notation read_prim := (read_prim X).
  Notation read_n := (read_n X).
  Notation read_kind := (read_kind X sub inner utf8).
  Notation read_field := (read_field X sub inner utf8).
  Notation decl_fields := (decl_fields X sub inner utf8).
  Notation write_prim := (write_prim X).
  Notation write_all := (write_all X).
  Notation write_kind := (write_kind X inner sub_w inner_w utf8_w).
  Notation write_field := (write_field X inner sub_w inner_w utf8_w).
  Notation decl_write_fields := (decl_write_fields X inner sub_w inner_w utf8_w).

  Lemma sub_suffix_of_rt : forall id b x r, sub id b = Some (x, r) -> exists p, b = p ++ r.
  Proof. intros id b x r H. destruct (sub_rt _ _ _ _ H) as [p [E _]]. now exists p. Qed.

  (* the value can be written back: not the "None written as nothing" case, and lazy windows parse *)
  Definition kind_writable (k : kind) (v : value) : bool :=
    match k, v with
    | KTyped f _ eis _ skip, VNone => negb (is_term f && skip && eis)
    | KTyped _ _ _ _ _, VLazy id' w => match inner id' w with Some _ => true | None => false end
    | _, _ => true
    end.

  Definition field_writable (v : dict) (f : field) : bool :=
    let kw := kind_writable (fkind f) (match lookup (fname f) v with Some x => x | None => VNone end) in
    match fgate f with
    | Some g => match gate_on X v g with Some false => true | _ => kw end
    | None => kw
    end.

  Definition writable (T : list field) (v : dict) : bool := forallb (field_writable v) T.

  Lemma prim_rt p b v r :
    prim_ok p = true -> bytes_okb b = true -> read_prim p b = Some (v, r) ->
    exists w, write_prim p v = Some w /\ b = w ++ r.
  Proof.
    intros Hp Hb H. unfold Model.read_prim in H.
    destruct (take (psize p) b) as [[w r']|] eqn:E; [|discriminate]. injection H as <- <-.
    apply take_some in E as [-> L]. rewrite bytes_okb_app in Hb. apply andb_prop in Hb as [Hw _].
    exists w. split; [|reflexivity].
    pose proof (of_le_bound w Hw) as Hbound. rewrite L in Hbound.
    destruct p as [n|n|n]; cbn [psize] in L, Hbound; cbn [Model.dec_prim Model.write_prim].
    - assert (Hz : (Z.of_N (of_le w) < 2 ^ (8 * Z.of_nat n))%Z) by (rewrite <- pow_2_8; lia).
      unfold in_range. set (P := (2 ^ (8 * Z.of_nat n))%Z) in *.
      replace ((0 <=? Z.of_N (of_le w)) && (Z.of_N (of_le w) <? P))%Z with true by lia.
      rewrite N2Z.id. f_equal. subst n. now apply le_bytes_of_le.
    - cbn [prim_ok] in Hp. assert (Hn : (0 < n)%nat) by lia.
      pose proof (to_signed_range n (of_le w) Hn Hbound) as [R1 R2].
      unfold in_range. set (P := (2 ^ (8 * Z.of_nat n - 1))%Z) in *. set (z := to_signed n (of_le w)) in *.
      replace ((- P <=? z) && (z <? P))%Z with true by lia.
      subst z. rewrite of_to_signed by assumption. f_equal. subst n. now apply le_bytes_of_le.
    - rewrite L, Nat.eqb_refl. reflexivity.
  Qed.

  Lemma read_n_rt n p : prim_ok p = true -> forall b vs r,
    bytes_okb b = true -> read_n n p b = Some (vs, r) ->
    exists w, write_all p vs = Some w /\ b = w ++ r /\ List.length vs = n.
  Proof.
    intros Hp. induction n as [|n IH]; intros b vs r Hb H; cbn [Model.read_n] in H.
    - injection H as <- <-. exists []. auto.
    - destruct (read_prim p b) as [[v b1]|] eqn:E; [|discriminate].
      destruct (read_n n p b1) as [[vs' r']|] eqn:E2; [|discriminate]. injection H as <- <-.
      destruct (prim_rt _ _ _ _ Hp Hb E) as [w1 [W1 ->]].
      rewrite bytes_okb_app in Hb. apply andb_prop in Hb as [_ Hb1].
      destruct (IH _ _ _ Hb1 E2) as [w2 [W2 [-> L]]].
      exists (w1 ++ w2). cbn [Model.write_all List.length]. rewrite W1, W2, L. rewrite app_assoc. auto.
  Qed.

  Lemma color_inv_invol inv w : bytes_okb w = true -> color_inv inv (color_inv inv w) = w.
  Proof.
    destruct inv; [|reflexivity]. cbn [color_inv]. induction w as [|x w IH]; [reflexivity|].
    rewrite bytes_okb_cons. intros H. apply andb_prop in H as [Hx Hw]. cbn [map]. rewrite (IH Hw). f_equal. lia.
  Qed.

  Lemma le4_rt l w : bytes_okb l = true -> List.length l = 4%nat -> of_le l = N.of_nat (List.length w) ->
    write_window FU32 w = Some (l ++ w).
  Proof.
    intros Hl L E. cbn [write_window]. pose proof (of_le_bound l Hl) as Hb. rewrite L in Hb.
    change (256 ^ N.of_nat 4) with 4294967296 in Hb. rewrite <- E.
    replace (of_le l <? 4294967296) with true by lia. rewrite <- L at 1. now rewrite le_bytes_of_le.
  Qed.

  Lemma window_rt f b w r :
    bytes_okb b = true -> read_window f b = Some (w, r) ->
    (exists fr, write_window f w = Some fr /\ b = fr ++ r) \/ (is_term f = true /\ r = []).
  Proof.
    intros Hb H. destruct f as [|n|]; cbn [read_window] in H.
    - left. destruct (take 4 b) as [[l b']|] eqn:E; [|discriminate].
      apply take_some in E as [-> L]. rewrite bytes_okb_app in Hb. apply andb_prop in Hb as [Hl _].
      unfold takeN in H. destruct (N.of_nat (List.length b') <? of_le l) eqn:C; [discriminate|].
      injection H as <- <-. exists (l ++ firstn (N.to_nat (of_le l)) b'). split.
      + apply le4_rt; auto. rewrite firstn_length_le by lia. lia.
      + now rewrite <- app_assoc, firstn_skipn.
    - left. apply take_some in H as [-> L]. exists w. cbn [write_window]. now rewrite L, Nat.eqb_refl.
    - unfold read_term in H. destruct (span0 b) as [w' [r'|]] eqn:E.
      + left. injection H as <- <-. apply span0_split in E. subst b. exists (w' ++ [0]). cbn [write_window].
        split; [reflexivity|]. now rewrite <- app_assoc.
      + right. injection H as _ <-. auto.
  Qed.

  Lemma kind_rt k acc ctx b v1 b1 :
    kind_ok k = true -> bytes_okb b = true ->
    (forall key x, lookup key acc = Some x -> lookup key ctx = Some x) ->
    read_kind false k acc b = Some (v1, b1) ->
    kind_writable k v1 = true ->
    (exists w, write_kind k ctx v1 = Some w /\ b = w ++ b1) \/ (eof_sensitive k = true /\ b1 = []).
  Proof.
    intros Hk Hb Hctx H Hw. destruct k; cbn [Model.read_kind] in H; cbn [kind_ok] in Hk.
    - left. cbn [Model.write_kind]. eapply prim_rt; eauto.
    - left. destruct (read_n n p b) as [[vs r]|] eqn:E; [|discriminate]. injection H as <- <-.
      destruct (read_n_rt _ _ Hk _ _ _ Hb E) as [w [W [-> L]]].
      exists w. cbn [Model.write_kind]. now rewrite L, Nat.eqb_refl.
    - left. destruct (take 4 b) as [[w r]|] eqn:E; [|discriminate]. injection H as <- <-.
      apply take_some in E as [-> L]. rewrite bytes_okb_app in Hb. apply andb_prop in Hb as [Hwb _].
      exists w. cbn [Model.write_kind]. split; [|reflexivity].
      assert (Lc : List.length (color_inv inv w) = 4%nat) by (destruct inv; cbn [color_inv]; [rewrite map_length|]; exact L).
      rewrite Lc. cbn. now rewrite color_inv_invol.
    - left. apply andb_prop in Hk as [Hk Hd]. apply andb_prop in Hk as [Hp Ho].
      destruct p as [[|[|?]]| |]; try discriminate.
      destruct (read_prim (PU 1) b) as [[[| z | | | |] r]|] eqn:E; try discriminate.
      destruct (lookup key acc) as [[| k | | | |]|] eqn:EL; try discriminate. injection H as <- <-.
      destruct (prim_rt (PU 1) _ _ _ eq_refl Hb E) as [w [W ->]].
      exists w. split; [|reflexivity]. cbn [Model.write_kind]. rewrite (Hctx _ _ EL).
      cbn [Model.write_prim] in W. unfold in_range in W.
      destruct ((0 <=? z) && (z <? 2 ^ (8 * Z.of_nat 1)))%Z eqn:R; [|discriminate].
      change (2 ^ (8 * Z.of_nat 1))%Z with 256%Z in R.
      rewrite apply_ad_involutive by (try apply choose_ok; auto; lia).
      cbn [Model.write_prim]. unfold in_range. change (2 ^ (8 * Z.of_nat 1))%Z with 256%Z. now rewrite R.
    - unfold read_term in H. destruct (span0 b) as [w [r|]] eqn:E.
      + left. destruct (utf8 w) as [x|] eqn:U; [|discriminate]. injection H as <- <-.
        apply span0_split in E. subst b. exists (w ++ [0]). cbn [Model.write_kind]. rewrite (utf8_rt _ _ U).
        split; [reflexivity|]. now rewrite <- app_assoc.
      + right. destruct (utf8 w); [|discriminate]. injection H as _ <-. auto.
    - left. destruct (read_window FU32 b) as [[w r]|] eqn:E; [|discriminate]. injection H as <- <-.
      destruct (window_rt _ _ _ _ Hb E) as [[fr [W ->]]|[C _]]; [|discriminate].
      exists fr. auto.
    - destruct (read_window f b) as [[w r]|] eqn:E; [|discriminate].
      destruct (window_rt _ _ _ _ Hb E) as [[fr [W ->]]|[C ->]].
      2:{ right. split.
          - destruct f; try discriminate. reflexivity.
          - destruct (eis && is_nil w); [now injection H as _ <-|].
            destruct lazy; [now injection H as _ <-|]. destruct (inner id w); [|discriminate]. now injection H as _ <-. }
      left. exists fr. split; [|
        destruct (eis && is_nil w); [now injection H as _ <-|];
        destruct lazy; [now injection H as _ <-|]; destruct (inner id w); [|discriminate]; now injection H as _ <-].
      cbn [Model.write_kind].
      destruct (eis && is_nil w) eqn:En.
      + injection H as <- <-. cbn [kind_writable] in Hw.
        apply andb_prop in En as [-> Hn]. destruct w; [|discriminate].
        cbn [is_none]. rewrite !andb_true_r in *. rewrite negb_true_iff in Hw. rewrite Hw. cbn. exact W.
      + destruct lazy.
        * injection H as <- <-. cbn [kind_writable] in Hw. cbn [is_none]. rewrite !andb_false_r. cbn.
          destruct (inner id w) as [x|] eqn:I; [|discriminate]. now rewrite (inner_rt _ _ _ I).
        * destruct (inner id w) as [x|] eqn:I; [|discriminate]. injection H as <- <-.
          cbn [is_none]. rewrite !andb_false_r. cbn. now rewrite (inner_rt _ _ _ I).
    - left. destruct (sub id b) as [[x r]|] eqn:E; [|discriminate]. injection H as <- <-.
      destruct (sub_rt _ _ _ _ E) as [p [-> W]]. exists p. auto.
  Qed.

  Lemma decl_fields_prefix s T : forall acc b v r,
    decl_fields s T acc b = Some (v, r) -> exists more, v = acc ++ more.
  Proof.
    induction T as [|f T IH]; intros acc b v r H; cbn [Model.decl_fields] in H.
    - injection H as <- _. exists []. now rewrite app_nil_r.
    - destruct (read_field s f acc b) as [[v1 b1]|]; [|discriminate].
      destruct (IH _ _ _ _ H) as [more ->]. exists ((fname f, v1) :: more). now rewrite <- app_assoc.
  Qed.

  Theorem reencode_fields T : forall acc b v,
    names_ok (map fst acc) T = true ->
    forallb (fun f => kind_ok (fkind f)) T = true ->
    eof_safe T = true ->
    bytes_okb b = true ->
    decl_fields false T acc b = Some (v, []) ->
    writable T v = true ->
    decl_write_fields T v = Some b.
  Proof.
    induction T as [|f T IH]; intros acc b v Hn Hk He Hb H Hw.
    - cbn in H. injection H as _ ->. reflexivity.
    - cbn [names_ok] in Hn. apply andb_prop in Hn as [Hfresh Hn]. rewrite negb_true_iff in Hfresh.
      cbn [forallb] in Hk. apply andb_prop in Hk as [Hkf Hk].
      cbn [eof_safe] in He. apply andb_prop in He as [Hef He].
      cbn [writable forallb] in Hw. apply andb_prop in Hw as [Hwf Hw].
      cbn [Model.decl_fields] in H.
      destruct (read_field false f acc b) as [[v1 b1]|] eqn:E; [|discriminate].
      destruct (decl_fields_prefix _ _ _ _ _ _ H) as [more Hv].
      assert (P1 : forall key x, lookup key acc = Some x -> lookup key v = Some x).
      { intros key x L. subst v. unfold Model.lookup in *. rewrite <- app_assoc, str_assoc_app, L. reflexivity. }
      assert (P2 : lookup (fname f) v = Some v1).
      { subst v. unfold Model.lookup. rewrite <- app_assoc, str_assoc_app, (str_assoc_fresh _ _ Hfresh).
        cbn. now rewrite name_eqb_refl. }
      assert (Hfield : (exists w, write_field f v = Some w /\ b = w ++ b1) \/ (eof_sensitive (fkind f) = true /\ b1 = [])).
      { unfold Model.read_field in E. unfold Model.write_field. unfold field_writable in Hwf. rewrite P2 in *.
        destruct (fgate f) as [g|].
        - destruct (gate_on X acc g) as [c|] eqn:G; [|discriminate].
          assert (G' : gate_on X v g = Some c).
          { unfold Model.gate_on in *. destruct (lookup (fst g) acc) as [[| fl | | | |]|] eqn:L; try discriminate.
            now rewrite (P1 _ _ L). }
          rewrite G' in *. destruct c; cbn [opt] in E.
          + eapply kind_rt; eauto.
          + injection E as <- <-. left. exists []. auto.
        - eapply kind_rt; eauto. }
      destruct Hfield as [[w [W ->]]|[Hs ->]].
      + rewrite bytes_okb_app in Hb. apply andb_prop in Hb as [_ Hb1].
        cbn [Model.decl_write_fields]. rewrite W.
        rewrite (IH (acc ++ [(fname f, v1)]) b1 v); auto.
        now rewrite map_app.
      + exfalso. rewrite Hs in Hef.
        now rewrite (fields_nil_fail X sub inner utf8 sub_suffix_of_rt false T Hef) in H.
  Qed.

  Theorem reencode T b v :
    names_ok [] T = true ->
    forallb (fun f => kind_ok (fkind f)) T = true ->
    eof_safe T = true ->
    bytes_okb b = true ->
    decl_read X sub inner utf8 T b = Some (v, []) ->
    writable T v = true ->
    decl_write X inner sub_w inner_w utf8_w T v = Some b.
  Proof. intros. eapply (reencode_fields T []); eauto. Qed.

End Reencode.

(* ---------- the excluded case is a real failure of the faithful model ---------- *)

(* flags, a NUL-terminated typed window that maps empty to None and writes None as nothing, one more byte *)
Definition refute_template : list field :=
  [ mkField (nm "Flags") None (KPrim (PU 4));
    mkField (nm "NameValue") (Some (nm "Flags", 256%Z)) (KTyped FTerm 2 true false true);
    mkField (nm "Tail") None (KPrim (PU 1)) ].

Lemma reencode_refuted :
  exists b v, bytes_okb b = true
    /\ decl_read raw (c_sub (fun _ => ShRest)) c_inner c_utf8 refute_template b = Some (v, [])
    /\ decl_write raw c_inner c_w c_w c_utf8_w refute_template v <> Some b.
Proof.
  exists [0; 1; 0; 0; 0; 7]. eexists. split; [reflexivity|]. split; [vm_compute; reflexivity|].
  vm_compute. discriminate.
Qed.
