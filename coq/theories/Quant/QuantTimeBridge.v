(* C10 - bridge lemmas between Coq's primitive floats (the operations used by
   Quant/QuantModel.v) and real numbers, through Flocq's IEEE754.PrimFloat.

   [FR x v]: the primitive float [x] is finite and its real value is [v].
   Each lemma says: if the operands are finite with real values a, b and the
   correctly rounded result does not overflow, the primitive operation returns
   a finite float whose value is [rnd (a op b)], where [rnd] is rounding to
   nearest, ties to even, in the binary64 format (FLT_exp (-1074) 53).

   Nothing is assumed here; the only axioms that end up under these lemmas are
   the standard library's FloatAxioms (the specification of the primitive
   float operations, used by Flocq's IEEE754.PrimFloat) and the standard
   library's real-number axioms. *)
From Coq Require Import ZArith Reals Lia Lra Floats Uint63.
From Flocq Require Import Core BinarySingleNaN Relative.
From Flocq Require Import PrimFloat.
From HV Require Import Quant.QuantModel.

Local Open Scope R_scope.

Notation b64exp := (SpecFloat.fexp prec emax).
Notation rnd := (round radix2 b64exp ZnearestE).
Notation bmax := (bpow radix2 emax).

Definition FR (x : PrimFloat.float) (v : R) : Prop :=
  is_finite (Prim2B x) = true /\ B2R (Prim2B x) = v.

Lemma b64exp_FLT : forall e, b64exp e = FLT_exp (-1074) 53 e.
Proof. reflexivity. Qed.

Global Instance b64exp_valid : Valid_exp b64exp := @FLT_exp_valid (-1074) 53 Hprec.

Lemma FR_format : forall x v, FR x v -> generic_format radix2 b64exp v.
Proof.
  intros x v [_ <-]. apply (generic_format_B2R prec emax).
Qed.

Lemma FR_mul : forall x y a b, FR x a -> FR y b ->
  Rabs (rnd (a * b)) < bmax -> FR (x * y)%float (rnd (a * b)).
Proof.
  intros x y a b [Fx Rx] [Fy Ry] Hov. unfold FR.
  rewrite mul_equiv.
  generalize (Bmult_correct prec emax Hprec Hmax mode_NE (Prim2B x) (Prim2B y)).
  rewrite Rx, Ry. cbn [round_mode].
  rewrite (Rlt_bool_true _ _ Hov).
  intros [H1 [H2 _]]. rewrite H2, Fx, Fy. auto.
Qed.

Lemma FR_div : forall x y a b, FR x a -> FR y b -> b <> 0 ->
  Rabs (rnd (a / b)) < bmax -> FR (x / y)%float (rnd (a / b)).
Proof.
  intros x y a b [Fx Rx] [Fy Ry] Hb Hov. unfold FR.
  rewrite div_equiv.
  assert (Hb' : B2R (Prim2B y) <> 0) by (rewrite Ry; exact Hb).
  generalize (Bdiv_correct prec emax Hprec Hmax mode_NE (Prim2B x) (Prim2B y) Hb').
  rewrite Rx, Ry. cbn [round_mode].
  rewrite (Rlt_bool_true _ _ Hov).
  intros [H1 [H2 _]]. rewrite H2, Fx. auto.
Qed.

Lemma FR_add : forall x y a b, FR x a -> FR y b ->
  Rabs (rnd (a + b)) < bmax -> FR (x + y)%float (rnd (a + b)).
Proof.
  intros x y a b [Fx Rx] [Fy Ry] Hov. unfold FR.
  rewrite add_equiv.
  generalize (Bplus_correct prec emax Hprec Hmax mode_NE (Prim2B x) (Prim2B y) Fx Fy).
  rewrite Rx, Ry. cbn [round_mode].
  rewrite (Rlt_bool_true _ _ Hov).
  intros [H1 [H2 _]]. auto.
Qed.

Lemma FR_sub : forall x y a b, FR x a -> FR y b ->
  Rabs (rnd (a - b)) < bmax -> FR (x - y)%float (rnd (a - b)).
Proof.
  intros x y a b [Fx Rx] [Fy Ry] Hov. unfold FR.
  rewrite sub_equiv.
  generalize (Bminus_correct prec emax Hprec Hmax mode_NE (Prim2B x) (Prim2B y) Fx Fy).
  rewrite Rx, Ry. cbn [round_mode].
  rewrite (Rlt_bool_true _ _ Hov).
  intros [H1 [H2 _]]. auto.
Qed.

Lemma FR_lt_max : forall x v, FR x v -> Rabs v < bmax.
Proof.
  intros x v [F <-]. apply abs_B2R_lt_emax.
Qed.

(* adding / subtracting the float 0 does not change the value *)
Lemma FR_zero : FR 0%float 0.
Proof. split; reflexivity. Qed.

Lemma rnd_format : forall v, generic_format radix2 b64exp v -> rnd v = v.
Proof. intros v Hv. apply round_generic; [apply valid_rnd_N | exact Hv]. Qed.

Lemma FR_add_0 : forall x a, FR x a -> FR (x + 0)%float a.
Proof.
  intros x a Hx.
  assert (H : rnd (a + 0) = a).
  { rewrite Rplus_0_r. apply rnd_format. eapply FR_format; eauto. }
  assert (G : FR (x + 0)%float (rnd (a + 0))).
  { apply FR_add; [exact Hx | exact FR_zero |]. rewrite H. eapply FR_lt_max; eauto. }
  rewrite H in G. exact G.
Qed.

Lemma FR_sub_0 : forall x a, FR x a -> FR (x - 0)%float a.
Proof.
  intros x a Hx.
  assert (H : rnd (a - 0) = a).
  { rewrite Rminus_0_r. apply rnd_format. eapply FR_format; eauto. }
  assert (G : FR (x - 0)%float (rnd (a - 0))).
  { apply FR_sub; [exact Hx | exact FR_zero |]. rewrite H. eapply FR_lt_max; eauto. }
  rewrite H in G. exact G.
Qed.

Lemma FR_ltb : forall x y a b, FR x a -> FR y b -> (x <? y)%float = Rlt_bool a b.
Proof.
  intros x y a b [Fx Rx] [Fy Ry]. rewrite ltb_equiv, Bltb_correct by assumption.
  now rewrite Rx, Ry.
Qed.

Lemma FR_leb : forall x y a b, FR x a -> FR y b -> (x <=? y)%float = Rle_bool a b.
Proof.
  intros x y a b [Fx Rx] [Fy Ry]. rewrite leb_equiv, Bleb_correct by assumption.
  now rewrite Rx, Ry.
Qed.

Lemma FR_eqb : forall x y a b, FR x a -> FR y b -> (x =? y)%float = Req_bool a b.
Proof.
  intros x y a b [Fx Rx] [Fy Ry]. rewrite eqb_equiv, Beqb_correct by assumption.
  now rewrite Rx, Ry.
Qed.

Lemma FR_abs : forall x a, FR x a -> FR (abs x) (Rabs a).
Proof.
  intros x a [Fx Rx]. unfold FR. rewrite abs_equiv, is_finite_Babs, B2R_Babs, Rx. auto.
Qed.

(* a comparison with a finite float that comes out true shows finiteness *)
Lemma leb_finite_l : forall x y, is_finite (Prim2B x) = true ->
  (x <=? y)%float = true -> is_nan (Prim2B y) = false.
Proof.
  intros x y Fx H. rewrite leb_equiv in H. unfold Bleb, SFleb in H.
  destruct (Prim2B y); try reflexivity.
  destruct (Prim2B x); discriminate.
Qed.

Lemma bounded_finite : forall lo hi d,
  is_finite (Prim2B lo) = true -> is_finite (Prim2B hi) = true ->
  (lo <=? d)%float = true -> (d <=? hi)%float = true ->
  FR d (B2R (Prim2B d)) /\ B2R (Prim2B lo) <= B2R (Prim2B d) <= B2R (Prim2B hi).
Proof.
  intros lo hi d Flo Fhi H1 H2.
  assert (Fd : is_finite (Prim2B d) = true).
  { rewrite leb_equiv in H1, H2. unfold Bleb, SFleb in H1, H2.
    destruct (Prim2B d) as [s|s| |s m e He]; try reflexivity.
    - destruct s.
      + destruct (Prim2B lo); try discriminate.
      + destruct (Prim2B hi); try discriminate.
    - destruct (Prim2B lo); discriminate. }
  split; [split; auto|].
  rewrite leb_equiv, Bleb_correct in H1, H2 by assumption.
  split.
  - destruct (Rle_bool_spec (B2R (Prim2B lo)) (B2R (Prim2B d))); [assumption | discriminate].
  - destruct (Rle_bool_spec (B2R (Prim2B d)) (B2R (Prim2B hi))); [assumption | discriminate].
Qed.
