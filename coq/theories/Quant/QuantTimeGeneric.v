(* C10 - QuantizedTime (llanim.py): decode-then-encode is the identity on all
   65536 raws for EVERY duration d with 2^-1000 <= d <= 2^1000 (binary64), not
   only for a declared list of durations.

   The model is Quant/QuantModel.v (one primitive binary64 operation per Python
   statement).  The proof follows the operations one by one: each is linked to
   its correctly rounded real value (QuantTimeBridge, through Flocq's
   IEEE754.PrimFloat), the real-number error analysis is QuantTimeReal, and the
   final round-half-even + mantissa extraction is QuantTimeRound. *)
From Coq Require Import ZArith Reals Lia Lra Floats Bool.
From Flocq Require Import Core BinarySingleNaN.
From Flocq Require Import PrimFloat.
From HV Require Import Quant.QuantModel Quant.QuantTimeBridge Quant.QuantTimeRound Quant.QuantTimeReal.

Local Open Scope R_scope.

(* step_mag of QuantizedTime(U16): 1.0 / 65535 as computed by the constructor *)
Definition qtime_step : PrimFloat.float := 0x1.0001000100010p-16%float.
Definition qtime_dmin : PrimFloat.float := 0x1p-1000%float.
Definition qtime_dmax : PrimFloat.float := 0x1p1000%float.

Lemma FR_step : FR qtime_step sR.
Proof.
  replace sR with (F2R (Float radix2 (cond_Zopp false 4503668347895824) (-68))).
  - apply FR_const. vm_compute. reflexivity.
  - unfold F2R, sR. cbn [Fnum Fexp cond_Zopp].
    change (bpow radix2 (-68)) with (/ 295147905179352825856). lra.
Qed.

Lemma FR_dmin : FR qtime_dmin (bpow radix2 (-1000)).
Proof.
  replace (bpow radix2 (-1000)) with (F2R (Float radix2 (cond_Zopp false 4503599627370496) (-1052))).
  - apply FR_const. vm_compute. reflexivity.
  - unfold F2R. cbn [Fnum Fexp cond_Zopp].
    change (IZR 4503599627370496) with (bpow radix2 52). rewrite <- bpow_plus. reflexivity.
Qed.

Lemma FR_dmax : FR qtime_dmax (bpow radix2 1000).
Proof.
  replace (bpow radix2 1000) with (F2R (Float radix2 (cond_Zopp false 4503599627370496) 948)).
  - apply FR_const. vm_compute. reflexivity.
  - unfold F2R. cbn [Fnum Fexp cond_Zopp].
    change (IZR 4503599627370496) with (bpow radix2 52). rewrite <- bpow_plus. reflexivity.
Qed.

Definition qtime_f (d : PrimFloat.float) : qfloat :=
  {| qf_kind_of := KBase; qf_rmin := 0; qf_rmax := 65535;
     qf_lower := 0; qf_upper := d; qf_step := qtime_step;
     qf_zero_median := false |}.

Section Generic.
Variable d : PrimFloat.float.
Variable dR : R.
Variable r : Z.
Hypothesis HdF : FR d dR.
Hypothesis Hd : bpow radix2 (-1000) <= dR <= bpow radix2 1000.
Hypothesis Hr : (0 <= r <= 65535)%Z.

Let x1 := rnd (IZR r * sR).
Let x2 := rnd (x1 * dR).
Let y1 := rnd (x2 / dR).
Let y2 := rnd (y1 / sR).

Let Hfd : generic_format radix2 b64exp dR := FR_format d dR HdF.

Lemma bmax_big : forall x, Rabs x <= bpow radix2 1000 -> Rabs x < bmax.
Proof.
  intros x Hx. apply Rle_lt_trans with (1 := Hx). apply bpow_lt. reflexivity.
Qed.

Lemma one_le_big : 1 <= bpow radix2 1000.
Proof. change 1 with (bpow radix2 0). apply bpow_le. lia. Qed.

Lemma FR_delta : FR (d - 0)%float dR.
Proof. apply FR_sub_0. exact HdF. Qed.

(* _quantized_to_float *)
Lemma qtime_decode_FR : FR (qf_decode (qtime_f d) r) x2.
Proof.
  unfold qf_decode, qtime_f.
  cbn [qf_kind_of qf_rmin qf_rmax qf_lower qf_upper qf_step qf_zero_median andb].
  rewrite Z.sub_0_r.
  generalize (chain_all dR r Hd Hfd Hr) one_le_big.
  fold x1. fold x2. fold y1. fold y2. intros [B1 [B2 _]] H1.
  apply FR_add_0.
  apply FR_mul; [apply FR_mul | exact FR_delta |].
  - apply FR_z_to_float. lia.
  - exact FR_step.
  - fold x1. apply bmax_big. rewrite Rabs_pos_eq; lra.
  - fold x1. fold x2. apply bmax_big. rewrite Rabs_pos_eq; lra.
Qed.

(* _float_to_quantized, on any float whose value is x2 *)
Lemma qtime_encode_FR : forall v, FR v x2 ->
  qf_encode_base true (qtime_f d) v = Some r.
Proof.
  intros v Hv.
  generalize (chain_all dR r Hd Hfd Hr) one_le_big.
  fold x1. fold x2. fold y1. fold y2. intros [_ [B2 [B3 [B4 [B5 Hdp]]]]] H1.
  unfold qf_encode_base, qtime_f.
  cbn [qf_kind_of qf_rmin qf_rmax qf_lower qf_upper qf_step qf_zero_median andb].
  rewrite (FR_eqb _ _ _ _ FR_delta FR_zero), Req_bool_false by lra.
  unfold py_max, py_min.
  rewrite (FR_ltb _ _ _ _ Hv FR_zero), Rlt_bool_false by lra.
  rewrite (FR_ltb _ _ _ _ HdF Hv), Rlt_bool_false by lra.
  assert (Hw : FR (v + 0 - 0)%float x2) by (apply FR_sub_0, FR_add_0, Hv).
  assert (Hy1 : FR ((v + 0 - 0) / (d - 0))%float y1).
  { apply FR_div; [exact Hw | exact FR_delta | lra |].
    fold y1. apply bmax_big. rewrite Rabs_pos_eq; lra. }
  assert (Hy2 : FR ((v + 0 - 0) / (d - 0) / qtime_step)%float y2).
  { apply FR_div; [exact Hy1 | exact FR_step | generalize sR_pos; lra |].
    fold y2. apply bmax_big. apply Rabs_le_inv in B5.
    assert (IZR r <= 65535) by (apply IZR_le; lia).
    rewrite Rabs_pos_eq by lra.
    apply Rle_trans with (bpow radix2 17); [|apply bpow_le; lia].
    change (bpow radix2 17) with 131072. lra. }
  assert (Hlt : Rabs (y2 - IZR r) < / 2) by lra.
  unfold py_round.
  rewrite (FR_ltb _ _ _ _ (FR_abs _ _ Hy2) FR_two51).
  rewrite Rlt_bool_true.
  2:{ apply Rabs_le_inv in B5. assert (IZR r <= 65535) by (apply IZR_le; lia).
      rewrite Rabs_pos_eq; lra. }
  rewrite (FR_ltb _ _ _ _ Hy2 FR_zero), Rlt_bool_false by lra.
  rewrite (rne_nonneg_spec _ y2 r Hy2 B4) by (lia || exact Hlt).
  rewrite Z.add_0_r. reflexivity.
Qed.

Lemma qtime_roundtrip_FR :
  f2q (qtime qtime_step d) (q2f (qtime qtime_step d) r) = Some r.
Proof.
  unfold f2q, q2f, qtime. fold (qtime_f d).
  unfold qf_encode. cbn [qf_kind_of qtime_f].
  fold (qtime_f d).
  rewrite (qtime_encode_FR _ qtime_decode_FR).
  unfold to_wire, in_wire, raw_min, raw_max. cbn [qf_rmin qf_rmax qtime_f].
  destruct (Z.leb_spec 0 r); [|lia]. destruct (Z.leb_spec r 65535); [|lia]. reflexivity.
Qed.

End Generic.

(* ---- the duration-generic round trip --------------------------------------
   d is ANY binary64 value with 2^-1000 <= d <= 2^1000 (IEEE comparisons, so
   d is finite and not nan); this contains every positive finite F32 value
   (2^-149 .. < 2^128) an animation header can hold. *)
Theorem qtime_roundtrip_generic : forall d : PrimFloat.float,
  PrimFloat.leb qtime_dmin d = true -> PrimFloat.leb d qtime_dmax = true ->
  forall r, (0 <= r <= 65535)%Z ->
  f2q (qtime qtime_step d) (q2f (qtime qtime_step d) r) = Some r.
Proof.
  intros d H1 H2 r Hr.
  destruct (bounded_finite qtime_dmin qtime_dmax d (proj1 FR_dmin) (proj1 FR_dmax) H1 H2)
    as [HF [Hlo Hhi]].
  rewrite (proj2 FR_dmin) in Hlo. rewrite (proj2 FR_dmax) in Hhi.
  exact (qtime_roundtrip_FR d _ r HF (conj Hlo Hhi) Hr).
Qed.
Print Assumptions qtime_roundtrip_generic.
