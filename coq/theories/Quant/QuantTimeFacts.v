(* C10 - QuantizedTime, duration-generic: the remaining clauses of
   [qtime_facts] (strict monotonicity of decode in the raw, bit-exact end
   points, end points encode to raw 0 / 65535) for EVERY binary64 duration
   2^-1000 <= d <= 2^1000, on top of the round trip of QuantTimeGeneric. *)
From Coq Require Import ZArith Reals Lia Lra Floats Bool.
From Flocq Require Import Core BinarySingleNaN.
From Flocq Require Import PrimFloat.
From HV Require Import Quant.QuantModel Quant.QuantProofs Quant.QuantTimeBridge Quant.QuantTimeRound
  Quant.QuantTimeReal Quant.QuantTimeGeneric.

Local Open Scope R_scope.

(* real value of decode r *)
Definition dec_val (dR : R) (r : Z) : R := rnd (rnd (IZR r * sR) * dR).

(* two finite floats with the same nonzero value are the same float *)
Lemma FR_inj : forall x y a, FR x a -> FR y a -> a <> 0 -> x = y.
Proof.
  intros x y a [Fx Rx] [Fy Ry] Ha. apply Prim2B_inj.
  apply B2R_inj.
  - apply is_finite_strict_B2R. rewrite Rx. exact Ha.
  - apply is_finite_strict_B2R. rewrite Ry. exact Ha.
  - congruence.
Qed.

Lemma FR_fun : forall x a b, FR x a -> FR x b -> a = b.
Proof. intros x a b [_ Ha] [_ Hb]. congruence. Qed.

Lemma FR_pos_shape : forall x a, FR x a -> 0 < a ->
  exists m e H, Prim2B x = B754_finite false m e H.
Proof.
  intros x a [Fx Rx] Ha.
  destruct (Prim2B x) as [s|s| |s m e H]; cbn [B2R] in Rx; try lra.
  destruct s.
  - exfalso. assert (F2R (Float radix2 (cond_Zopp true (Zpos m)) e) < 0).
    { apply F2R_lt_0. reflexivity. }
    lra.
  - eauto.
Qed.

Lemma FR_one : FR 1%float 1.
Proof.
  assert (H : FR 1%float (F2R (Float radix2 (cond_Zopp false 4503599627370496) (-52)))).
  { apply FR_const. vm_compute. reflexivity. }
  replace (F2R (Float radix2 (cond_Zopp false 4503599627370496) (-52))) with 1 in H; [exact H|].
  unfold F2R. cbn [Fnum Fexp cond_Zopp].
  change (IZR 4503599627370496) with (bpow radix2 52). rewrite <- bpow_plus. reflexivity.
Qed.

(* 65535 * step rounds to exactly 1 *)
Lemma rnd_top : rnd (IZR 65535 * sR) = 1.
Proof.
  assert (H : FR (z_to_float 65535 * qtime_step)%float (rnd (IZR 65535 * sR))).
  { apply FR_mul; [apply FR_z_to_float; lia | exact FR_step |].
    generalize (x1_bounds 65535 ltac:(lia)). intros B.
    rewrite Rabs_pos_eq by lra.
    apply Rle_lt_trans with 1; [lra|]. change 1 with (bpow radix2 0). apply bpow_lt. reflexivity. }
  assert (E : (z_to_float 65535 * qtime_step)%float = 1%float) by (vm_compute; reflexivity).
  rewrite E in H. exact (FR_fun _ _ _ H FR_one).
Qed.

Section Facts.
Variable d : PrimFloat.float.
Variable dR : R.
Hypothesis HdF : FR d dR.
Hypothesis Hd : bpow radix2 (-1000) <= dR <= bpow radix2 1000.

Let q := qtime qtime_step d.

Lemma dR_pos : 0 < dR.
Proof. exact (d_pos dR Hd). Qed.

Lemma q2f_FR : forall r, (0 <= r <= 65535)%Z -> FR (q2f q r) (dec_val dR r).
Proof. intros r Hr. exact (qtime_decode_FR d dR r HdF Hd Hr). Qed.

Lemma f2q_of_FR : forall r v, (0 <= r <= 65535)%Z -> FR v (dec_val dR r) -> f2q q v = Some r.
Proof.
  intros r v Hr Hv. unfold q, f2q, qtime. fold (qtime_f d).
  unfold qf_encode. cbn [qf_kind_of qtime_f]. fold (qtime_f d).
  rewrite (qtime_encode_FR d dR r HdF Hd Hr v Hv).
  unfold to_wire, in_wire, raw_min, raw_max. cbn [qf_rmin qf_rmax qtime_f].
  destruct (Z.leb_spec 0 r); [|lia]. destruct (Z.leb_spec r 65535); [|lia]. reflexivity.
Qed.

Lemma dec_val_mono : forall r, (0 <= r)%Z -> dec_val dR r <= dec_val dR (r + 1).
Proof.
  intros r Hr. generalize dR_pos sR_pos. intros Hp Hs. unfold dec_val.
  apply rnd_le. apply Rmult_le_compat_r; [lra|]. apply rnd_le.
  apply Rmult_le_compat_r; [lra|]. apply IZR_le. lia.
Qed.

Lemma dec_val_strict : forall r, (0 <= r < 65535)%Z -> dec_val dR r < dec_val dR (r + 1).
Proof.
  intros r Hr.
  destruct (dec_val_mono r (proj1 Hr)) as [Hlt|Heq]; [exact Hlt|exfalso].
  assert (H1 : f2q q (q2f q (r + 1)) = Some (r + 1)%Z).
  { apply f2q_of_FR with (r := (r + 1)%Z); [lia|]. apply q2f_FR. lia. }
  assert (H2 : f2q q (q2f q (r + 1)) = Some r).
  { apply f2q_of_FR with (r := r); [lia|]. rewrite Heq. apply q2f_FR. lia. }
  rewrite H1 in H2. injection H2. lia.
Qed.

Lemma dec_val_0 : dec_val dR 0 = 0.
Proof. unfold dec_val. now rewrite Rmult_0_l, rnd_0, Rmult_0_l, rnd_0. Qed.

Lemma dec_val_top : dec_val dR 65535 = dR.
Proof.
  unfold dec_val. rewrite rnd_top, Rmult_1_l. apply rnd_format. eapply FR_format; eauto.
Qed.

(* decode 0 is +0.0, bit for bit *)
Lemma q2f_zero : q2f q 0 = 0%float.
Proof.
  unfold q, q2f, qtime, qf_decode.
  cbn [qf_kind_of qf_rmin qf_rmax qf_lower qf_upper qf_step qf_zero_median andb].
  change (z_to_float (0 - 0) * qtime_step)%float with 0%float.
  destruct (FR_pos_shape _ _ (FR_sub_0 _ _ HdF) dR_pos) as [m [e [H Hs]]].
  assert (E : (0 * (d - 0))%float = 0%float).
  { apply Prim2B_inj. rewrite mul_equiv, Hs. reflexivity. }
  rewrite E. vm_compute. reflexivity.
Qed.

Lemma q2f_top : q2f q 65535 = d.
Proof.
  apply FR_inj with dR; [| exact HdF | generalize dR_pos; lra].
  rewrite <- dec_val_top. apply q2f_FR. lia.
Qed.

Lemma feq_bits_refl_d : feq_bits d d = true.
Proof.
  generalize dR_pos. intros Hp.
  unfold feq_bits. rewrite (FR_eqb _ _ _ _ HdF HdF), Req_bool_true by reflexivity.
  assert (H : FR (1 / d)%float (rnd (1 / dR))).
  { apply FR_div; [exact FR_one | exact HdF | lra |].
    assert (B : 0 <= rnd (1 / dR) <= bpow radix2 1000).
    { split.
      - apply rnd_ge_0. apply Rlt_le, Rdiv_lt_0_compat; lra.
      - rewrite <- (rnd_format (bpow radix2 1000)).
        + apply rnd_le. apply Rmult_le_reg_r with dR; [exact Hp|].
          unfold Rdiv. rewrite Rmult_assoc, Rinv_l, Rmult_1_r by lra.
          apply Rle_trans with (bpow radix2 1000 * bpow radix2 (-1000)).
          * rewrite <- bpow_plus. cbn. lra.
          * apply Rmult_le_compat_l; [apply bpow_ge_0 | apply Hd].
        + apply generic_format_bpow. cbv. discriminate. }
    apply bmax_big. rewrite Rabs_pos_eq; lra. }
  rewrite (FR_eqb _ _ _ _ H H), Req_bool_true by reflexivity. reflexivity.
Qed.

Lemma qtime_facts_FR : qtime_facts q d.
Proof.
  unfold qtime_facts. split; [|split; [|split; [|split; [|split]]]].
  - intros r Hr. exact (qtime_roundtrip_FR d dR r HdF Hd Hr).
  - intros r Hr.
    assert (A : FR (q2f q r) (dec_val dR r)) by (apply q2f_FR; lia).
    assert (B : FR (q2f q (r + 1)) (dec_val dR (r + 1))) by (apply q2f_FR; lia).
    generalize (dec_val_strict r Hr). intros Hlt.
    unfold fle, flt. rewrite (FR_leb _ _ _ _ A B), (FR_ltb _ _ _ _ A B).
    rewrite Rle_bool_true by lra. rewrite Rlt_bool_true by lra. split; reflexivity.
  - rewrite q2f_zero. vm_compute. reflexivity.
  - rewrite q2f_top. exact feq_bits_refl_d.
  - apply f2q_of_FR; [lia|]. rewrite dec_val_0. exact FR_zero.
  - apply f2q_of_FR; [lia|]. rewrite dec_val_top. exact HdF.
Qed.

End Facts.

(* ---- the unbounded statement of Props/C10.v ------------------------------ *)
Theorem qtime_facts_generic : forall d : PrimFloat.float,
  PrimFloat.leb qtime_dmin d = true -> PrimFloat.leb d qtime_dmax = true ->
  qtime_facts (qtime qtime_step d) d.
Proof.
  intros d H1 H2.
  destruct (bounded_finite qtime_dmin qtime_dmax d (proj1 FR_dmin) (proj1 FR_dmax) H1 H2)
    as [HF [Hlo Hhi]].
  rewrite (proj2 FR_dmin) in Hlo. rewrite (proj2 FR_dmax) in Hhi.
  exact (qtime_facts_FR d _ HF (conj Hlo Hhi)).
Qed.
Print Assumptions qtime_facts_generic.
