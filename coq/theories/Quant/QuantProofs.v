(* C10 - generic lifting lemmas: from the executable checks of QuantModel.v
   (one pass over ALL raws of an instance, evaluated by vm_compute) to
   quantified statements over the raw range, and from a list of checked
   instances to "for every instance in the list". *)
From Coq Require Import ZArith List Bool Lia.
From HV Require Import Quant.QuantModel.
Import ListNotations.

Lemma zrange_In : forall n s r,
  In r (zrange n s) <-> (s <= r < s + Z.of_nat n)%Z.
Proof.
  induction n as [|n IH]; intros s r; cbn [zrange In].
  - split; [intros [] | lia].
  - rewrite IH. lia.
Qed.

Lemma all_raws_In : forall q r, raw_ok q r -> In r (all_raws q).
Proof.
  intros q r [Hlo Hhi]. unfold all_raws, raw_count.
  apply zrange_In. rewrite Z2Nat.id by lia. lia.
Qed.

Lemma all_raws_In_inv : forall q r, In r (all_raws q) -> raw_ok q r.
Proof.
  intros q r Hin. unfold all_raws, raw_count in Hin.
  apply zrange_In in Hin. unfold raw_ok.
  destruct (Z_le_gt_dec 0 (raw_max q - raw_min q + 1)) as [Hle|Hgt].
  - rewrite Z2Nat.id in Hin by lia. lia.
  - destruct (raw_max q - raw_min q + 1)%Z eqn:E; cbn in Hin; lia.
Qed.

(* ---- round trip ------------------------------------------------------- *)
Lemma rt_ok_spec : forall q r, rt_ok q r = true -> f2q q (q2f q r) = Some r.
Proof.
  intros q r H. unfold rt_ok in H.
  destruct (f2q q (q2f q r)) as [r'|]; [|discriminate].
  apply Z.eqb_eq in H. now subst.
Qed.

Lemma roundtrip_lift : forall q, rt_check q = true ->
  forall r, raw_ok q r -> rt_excluded q r = false -> f2q q (q2f q r) = Some r.
Proof.
  intros q Hc r Hr Hex. unfold rt_check in Hc.
  rewrite forallb_forall in Hc. specialize (Hc r (all_raws_In q r Hr)).
  rewrite Hex in Hc. cbn [orb] in Hc. now apply rt_ok_spec.
Qed.

Lemma rt_excluded_plain : forall q r, is_terot q = false -> rt_excluded q r = false.
Proof. intros q r H. unfold rt_excluded. now rewrite H. Qed.

Lemma roundtrip_lift_plain : forall q, rt_check q = true -> is_terot q = false ->
  forall r, raw_ok q r -> f2q q (q2f q r) = Some r.
Proof.
  intros q Hc Ht r Hr. apply (roundtrip_lift q Hc r Hr). now apply rt_excluded_plain.
Qed.

Lemma rt_excluded_ne : forall q r, r <> raw_min q -> rt_excluded q r = false.
Proof.
  intros q r H. unfold rt_excluded.
  destruct (Z.eqb_spec r (raw_min q)) as [->|_]; [contradiction|]. apply andb_false_r.
Qed.

Lemma roundtrip_lift_above_min : forall q, rt_check q = true ->
  forall r, raw_ok q r -> r <> raw_min q -> f2q q (q2f q r) = Some r.
Proof.
  intros q Hc r Hr Hne. apply (roundtrip_lift q Hc r Hr). now apply rt_excluded_ne.
Qed.

(* decoding is injective wherever the round trip holds *)
Lemma decode_injective : forall q, rt_check q = true ->
  forall r1 r2, raw_ok q r1 -> raw_ok q r2 ->
  rt_excluded q r1 = false -> rt_excluded q r2 = false ->
  q2f q r1 = q2f q r2 -> r1 = r2.
Proof.
  intros q Hc r1 r2 H1 H2 E1 E2 Heq.
  pose proof (roundtrip_lift q Hc r1 H1 E1) as A.
  pose proof (roundtrip_lift q Hc r2 H2 E2) as B.
  rewrite Heq in A. rewrite A in B. now injection B.
Qed.

(* ---- monotone --------------------------------------------------------- *)
Definition fle (a b : PrimFloat.float) : bool := PrimFloat.leb a b.
Definition flt (a b : PrimFloat.float) : bool := PrimFloat.ltb a b.

Lemma mono_lift : forall q, mono_check q = true ->
  forall r, raw_ok q r -> raw_ok q (r + 1) ->
  fle (q2f q r) (q2f q (r + 1)) = true /\
  (flt (q2f q r) (q2f q (r + 1)) = true \/
   (zero_median q = true /\ is_zero (q2f q r) = true /\ is_zero (q2f q (r + 1)) = true)).
Proof.
  intros q Hc r [Hlo _] [_ Hhi]. unfold mono_check in Hc.
  rewrite forallb_forall in Hc.
  assert (Hin : In r (zrange (Nat.pred (raw_count q)) (raw_min q))).
  { apply zrange_In. unfold raw_count.
    assert (Hn : Z.of_nat (Z.to_nat (raw_max q - raw_min q + 1)) = (raw_max q - raw_min q + 1)%Z)
      by (apply Z2Nat.id; lia).
    lia. }
  specialize (Hc r Hin). unfold mono_ok in Hc.
  apply andb_true_iff in Hc. destruct Hc as [Hle Hs].
  split; [exact Hle|].
  apply orb_true_iff in Hs. destruct Hs as [Hs|Hs]; [now left|right].
  apply andb_true_iff in Hs. destruct Hs as [Hs Hb].
  apply andb_true_iff in Hs. destruct Hs as [Hz Ha]. auto.
Qed.

(* ---- no raw decodes to zero (refutation of the zero clause) ------------ *)
Lemma nonzero_lift : forall q, nonzero_check q = true ->
  forall r, raw_ok q r -> is_zero (q2f q r) = false.
Proof.
  intros q Hc r Hr. unfold nonzero_check in Hc. rewrite forallb_forall in Hc.
  specialize (Hc r (all_raws_In q r Hr)). now apply negb_true_iff in Hc.
Qed.

(* ---- lists of instances ----------------------------------------------- *)
Lemma Forall_In : forall (A : Type) (P : A -> Prop) (l : list A),
  Forall P l -> forall x, In x l -> P x.
Proof. intros A P l H. now apply Forall_forall. Qed.

Definition rt_fact (q : quant) : Prop := rt_check q = true.
Definition mono_fact (q : quant) : Prop := mono_check q = true.
Definition ends_fact (q : quant) : Prop :=
  if ends_excluded q then q2f q (raw_min q) = declared_lower q else endpoints_spec q.
Definition zero_fact (q : quant) : Prop :=
  if centred q && negb (zero_excluded q) then exists r0, zero_spec q r0 else True.
(* fixed point: the code's clamp range [min_val, max_val] is centred for signed fields *)
Definition zero_fixed_fact (q : quant) : Prop :=
  if centred_fixed q then exists r0, zero_spec q r0 else True.

Lemma all_roundtrip : forall l, Forall rt_fact l ->
  forall q, In q l -> forall r, raw_ok q r -> rt_excluded q r = false ->
  f2q q (q2f q r) = Some r.
Proof.
  intros l H q Hin. apply roundtrip_lift. exact (Forall_In _ _ _ H q Hin).
Qed.

Lemma all_injective : forall l, Forall rt_fact l ->
  forall q, In q l -> forall r1 r2, raw_ok q r1 -> raw_ok q r2 ->
  rt_excluded q r1 = false -> rt_excluded q r2 = false ->
  q2f q r1 = q2f q r2 -> r1 = r2.
Proof.
  intros l H q Hin. apply decode_injective. exact (Forall_In _ _ _ H q Hin).
Qed.

Lemma all_monotone : forall l, Forall mono_fact l ->
  forall q, In q l -> forall r, raw_ok q r -> raw_ok q (r + 1) ->
  fle (q2f q r) (q2f q (r + 1)) = true /\
  (flt (q2f q r) (q2f q (r + 1)) = true \/
   (zero_median q = true /\ is_zero (q2f q r) = true /\ is_zero (q2f q (r + 1)) = true)).
Proof.
  intros l H q Hin. apply mono_lift. exact (Forall_In _ _ _ H q Hin).
Qed.

Lemma all_endpoints : forall l, Forall ends_fact l ->
  forall q, In q l -> ends_excluded q = false -> endpoints_spec q.
Proof.
  intros l H q Hin Hex. pose proof (Forall_In _ _ _ H q Hin) as F.
  unfold ends_fact in F. now rewrite Hex in F.
Qed.

Lemma all_lower_end : forall l, Forall ends_fact l ->
  forall q, In q l -> q2f q (raw_min q) = declared_lower q.
Proof.
  intros l H q Hin. pose proof (Forall_In _ _ _ H q Hin) as F.
  unfold ends_fact in F. destruct (ends_excluded q); [exact F | exact (proj1 F)].
Qed.

Lemma all_zero : forall l, Forall zero_fact l ->
  forall q, In q l -> centred q = true -> zero_excluded q = false ->
  exists r0, zero_spec q r0.
Proof.
  intros l H q Hin Hc Hex. pose proof (Forall_In _ _ _ H q Hin) as F.
  unfold zero_fact in F. now rewrite Hc, Hex in F.
Qed.

Lemma all_zero_fixed : forall l, Forall zero_fixed_fact l ->
  forall q, In q l -> centred_fixed q = true -> exists r0, zero_spec q r0.
Proof.
  intros l H q Hin Hc. pose proof (Forall_In _ _ _ H q Hin) as F.
  unfold zero_fixed_fact in F. now rewrite Hc in F.
Qed.

(* ---- QuantizedTime over a declared list of durations ------------------- *)
Definition qtime_facts (q : quant) (d : PrimFloat.float) : Prop :=
  (forall r, (0 <= r <= 65535)%Z -> f2q q (q2f q r) = Some r) /\
  (forall r, (0 <= r < 65535)%Z ->
     fle (q2f q r) (q2f q (r + 1)) = true /\ flt (q2f q r) (q2f q (r + 1)) = true) /\
  feq_bits (q2f q 0) PrimFloat.zero = true /\ feq_bits (q2f q 65535) d = true /\
  f2q q PrimFloat.zero = Some 0%Z /\ f2q q d = Some 65535%Z.

Lemma qtime_q_lift : forall q d,
  is_terot q = false -> zero_median q = false -> raw_min q = 0%Z -> raw_max q = 65535%Z ->
  qtime_ok_q q d = true -> qtime_facts q d.
Proof.
  intros q d Ht Hzm Hmin Hmax Hc. unfold qtime_ok_q in Hc.
  apply andb_true_iff in Hc. destruct Hc as [Hc Ho1].
  apply andb_true_iff in Hc. destruct Hc as [Hc Ho0].
  apply andb_true_iff in Hc. destruct Hc as [Hc He1].
  apply andb_true_iff in Hc. destruct Hc as [Hc He0].
  apply andb_true_iff in Hc. destruct Hc as [Hrt Hmono].
  unfold qtime_facts, PrimFloat.zero.
  split; [|split; [|split; [|split; [|split]]]].
  - intros r Hr. apply (roundtrip_lift_plain q Hrt Ht). unfold raw_ok. lia.
  - intros r Hr.
    assert (A : raw_ok q r) by (unfold raw_ok; lia).
    assert (B : raw_ok q (r + 1)) by (unfold raw_ok; lia).
    destruct (mono_lift q Hmono r A B) as [Hle [Hlt|[Hz _]]]; [now split|].
    rewrite Hzm in Hz. discriminate Hz.
  - exact He0.
  - exact He1.
  - destruct (f2q q _) as [z|]; cbn [optz_eqb] in Ho0; [|discriminate Ho0].
    apply Z.eqb_eq in Ho0. now subst.
  - destruct (f2q q d) as [z|]; cbn [optz_eqb] in Ho1; [|discriminate Ho1].
    apply Z.eqb_eq in Ho1. now subst.
Qed.

Lemma qtime_lift : forall step ds, qtime_check step ds = true ->
  forall d, In d ds -> qtime_facts (qtime step d) d.
Proof.
  intros step ds Hc d Hin. unfold qtime_check in Hc. rewrite forallb_forall in Hc.
  specialize (Hc d Hin). cbv beta in Hc.
  exact (qtime_q_lift (qtime step d) d eq_refl eq_refl eq_refl eq_refl Hc).
Qed.

(* ---- refutations of the full-strength statement (known exceptions) ------ *)
(* a <> b for two concrete floats, by evaluating the IEEE comparison *)
Ltac float_neq :=
  let H := fresh "H" in
  intro H;
  match type of H with
  | ?a = ?b => apply (f_equal (fun x => PrimFloat.eqb x b)) in H; vm_compute in H; discriminate H
  end.

(* PackedTERotation as it is: the round trip fails at rmin, and three of the
   four end-point clauses fail *)
Definition terot_refuted_fact (l : list quant) (q : quant) : Prop :=
  In q l /\ raw_ok q (raw_min q) /\
  f2q q (q2f q (raw_min q)) <> Some (raw_min q) /\
  q2f q (raw_max q) <> declared_upper q /\
  f2q q (declared_lower q) <> Some (raw_min q) /\
  f2q q (declared_upper q) <> Some (raw_max q).

(* the half-open 65536-step range: the declared upper end has no raw and does
   not encode to rmax (also after the proposed repair of the lower end) *)
Definition terot_upper_refuted_fact (l : list quant) (q : quant) : Prop :=
  In q l /\ q2f q (raw_max q) <> declared_upper q /\ f2q q (declared_upper q) <> Some (raw_max q).

(* QuantizedNumPyArray over a centred range: no raw decodes to zero *)
Definition numpy_zero_refuted_fact (l : list quant) (q : quant) : Prop :=
  In q l /\ centred q = true /\ forall r, raw_ok q r -> is_zero (q2f q r) = false.

(* FixedPoint as it is: the upper clamp bound does not encode (struct.error) *)
Definition fixed_clamp_refuted_fact (l : list quant) (q : quant) : Prop :=
  In q l /\ match q with QX x => f2q q (clamp_bound x) = None | _ => False end.

(* ---- QuantizedTime: the end-point clauses alone ------------------------- *)
Definition qtime_ends_facts (q : quant) (d : PrimFloat.float) : Prop :=
  feq_bits (q2f q 0) PrimFloat.zero = true /\ feq_bits (q2f q 65535) d = true /\
  f2q q PrimFloat.zero = Some 0%Z /\ f2q q d = Some 65535%Z.

Lemma qtime_ends_q_lift : forall q d, qtime_ends_ok_q q d = true -> qtime_ends_facts q d.
Proof.
  intros q d Hc. unfold qtime_ends_ok_q in Hc.
  apply andb_true_iff in Hc. destruct Hc as [Hc Ho1].
  apply andb_true_iff in Hc. destruct Hc as [Hc Ho0].
  apply andb_true_iff in Hc. destruct Hc as [He0 He1].
  unfold qtime_ends_facts, PrimFloat.zero.
  split; [exact He0|]. split; [exact He1|]. split.
  - destruct (f2q q _) as [z|]; cbn [optz_eqb] in Ho0; [|discriminate Ho0].
    apply Z.eqb_eq in Ho0. now subst.
  - destruct (f2q q d) as [z|]; cbn [optz_eqb] in Ho1; [|discriminate Ho1].
    apply Z.eqb_eq in Ho1. now subst.
Qed.

Lemma qtime_ends_lift : forall step ds, qtime_ends_check step ds = true ->
  forall d, In d ds -> qtime_ends_facts (qtime step d) d.
Proof.
  intros step ds Hc d Hin. unfold qtime_ends_check in Hc. rewrite forallb_forall in Hc.
  specialize (Hc d Hin). cbv beta in Hc.
  exact (qtime_ends_q_lift (qtime step d) d Hc).
Qed.
