(* C10 - the integer <-> float glue of Quant/QuantModel.v, characterised over
   the reals: [z_to_float] is exact below 2^53, [int_to_Z] is Uint63.to_Z, and
   [rne_nonneg x] returns the integer n whenever the value of x is nonnegative
   and strictly within 1/2 of n (the addition x + 2^52 lands in the binade
   [2^52, 2^53) where binary64 has spacing 1, so rounding to nearest-even of
   the sum is rounding of x to the nearest integer; the integer is then read
   off the mantissa). *)
From Coq Require Import ZArith Reals Lia Lra Floats Uint63.
From Flocq Require Import Core BinarySingleNaN Relative.
From Flocq Require Import PrimFloat.
From HV Require Import Quant.QuantModel Quant.QuantTimeBridge.

Local Open Scope R_scope.

(* ---- constants ---------------------------------------------------------- *)
Lemma FR_const : forall x s m e, Prim2SF x = S754_finite s m e ->
  FR x (F2R (Float radix2 (cond_Zopp s (Zpos m)) e)).
Proof.
  intros x s m e H. unfold FR, Prim2B.
  rewrite is_finite_SF2B, B2R_SF2B, H. split; reflexivity.
Qed.

Lemma FR_two52 : FR two52 (IZR 4503599627370496).
Proof.
  replace (IZR 4503599627370496) with (F2R (Float radix2 (cond_Zopp false 4503599627370496) 0)).
  - apply FR_const. vm_compute. reflexivity.
  - unfold F2R. cbn. lra.
Qed.

Lemma FR_two51 : FR two51 (IZR 2251799813685248).
Proof.
  replace (IZR 2251799813685248) with (F2R (Float radix2 (cond_Zopp false 4503599627370496) (-1))).
  - apply FR_const. vm_compute. reflexivity.
  - unfold F2R. cbn. lra.
Qed.

(* ---- int_to_Z ------------------------------------------------------------ *)
Lemma pos_of_int_fuel_spec : forall n i,
  (1 <= to_Z i < 2 ^ Z.of_nat n)%Z -> Zpos (pos_of_int_fuel n i) = to_Z i.
Proof.
  induction n as [|k IH]; intros i Hi.
  - cbn in Hi. lia.
  - cbn [pos_of_int_fuel].
    destruct (Uint63.leb i 1) eqn:Hle.
    + apply leb_spec in Hle. change (to_Z 1) with 1%Z in Hle. lia.
    + assert (Hgt : (2 <= to_Z i)%Z).
      { destruct (Z_lt_le_dec (to_Z i) 2) as [Hlt|]; [|assumption].
        assert (Hl : (to_Z i <= to_Z 1)%Z) by (change (to_Z 1) with 1%Z; lia).
        apply leb_spec in Hl. congruence. }
      assert (Hs : to_Z (Uint63.lsr i 1) = (to_Z i / 2)%Z).
      { rewrite lsr_spec. reflexivity. }
      assert (Hr : (1 <= to_Z (Uint63.lsr i 1) < 2 ^ Z.of_nat k)%Z).
      { rewrite Hs. rewrite Nat2Z.inj_succ, Z.pow_succ_r in Hi by lia.
        split.
        - apply Z.div_le_lower_bound; lia.
        - apply Z.div_lt_upper_bound; lia. }
      specialize (IH _ Hr).
      generalize (is_even_spec i). generalize (Z.div_mod (to_Z i) 2).
      destruct (is_even i); intros Hdm Hm.
      * rewrite Pos2Z.inj_xO, IH, Hs. lia.
      * rewrite Pos2Z.inj_xI, IH, Hs. lia.
Qed.

Lemma int_to_Z_spec : forall i, int_to_Z i = to_Z i.
Proof.
  intros i. unfold int_to_Z.
  destruct (Uint63.eqb i 0) eqn:He.
  - apply eqb_spec in He. subst i. reflexivity.
  - apply pos_of_int_fuel_spec.
    generalize (to_Z_bounded i). intros Hb.
    assert (to_Z i <> 0%Z).
    { intros H0. rewrite <- to_Z_0 in H0. apply to_Z_inj in H0. subst i.
      rewrite eqb_refl in He. discriminate. }
    change (2 ^ Z.of_nat 63)%Z with wB. lia.
Qed.

(* ---- z_to_float ---------------------------------------------------------- *)
Lemma format_IZR : forall z, (Z.abs z < 2 ^ 53)%Z -> generic_format radix2 b64exp (IZR z).
Proof.
  intros z Hz. apply generic_format_FLT.
  exists (Float radix2 z 0).
  - unfold F2R. cbn. lra.
  - exact Hz.
  - cbn. lia.
Qed.

Lemma IZR_lt_bmax : forall z, (Z.abs z < 2 ^ 53)%Z -> Rabs (IZR z) < bmax.
Proof.
  intros z Hz. rewrite <- abs_IZR.
  apply Rlt_trans with (IZR (2 ^ 53)).
  - apply IZR_lt. exact Hz.
  - change (IZR (2 ^ 53)) with (bpow radix2 53). apply bpow_lt. reflexivity.
Qed.

Lemma FR_of_pos : forall p, (Zpos p < 2 ^ 53)%Z ->
  FR (of_uint63 (Uint63.of_pos p)) (IZR (Zpos p)).
Proof.
  intros p Hp. unfold FR. rewrite of_int63_equiv.
  assert (Hz : to_Z (Uint63.of_pos p) = Zpos p).
  { unfold Uint63.of_pos. rewrite of_pos_rec_spec by apply le_n.
    apply Z.mod_small. split; [lia|].
    apply Z.lt_trans with (1 := Hp). reflexivity. }
  rewrite Hz.
  generalize (binary_normalize_correct prec emax Hprec Hmax mode_NE (Zpos p) 0 false).
  cbn zeta. cbn [round_mode].
  assert (HF : F2R (Float radix2 (Zpos p) 0) = IZR (Zpos p)).
  { unfold F2R. cbn [Fnum Fexp bpow]. lra. }
  rewrite HF.
  rewrite (rnd_format (IZR (Zpos p))) by (apply format_IZR; lia).
  rewrite Rlt_bool_true by (apply IZR_lt_bmax; lia).
  intros [H1 [H2 _]]. auto.
Qed.

Lemma FR_z_to_float : forall z, (0 <= z < 2 ^ 53)%Z -> FR (z_to_float z) (IZR z).
Proof.
  intros [|p|p] Hz.
  - exact FR_zero.
  - apply FR_of_pos. lia.
  - lia.
Qed.

(* ---- rounding in the binade [2^52, 2^53) is rounding to the nearest integer *)
Lemma mag_binade52 : forall y, IZR (2 ^ 52) <= y < IZR (2 ^ 53) -> mag radix2 y = 53%Z :> Z.
Proof.
  intros y [H1 H2]. apply mag_unique.
  rewrite Rabs_pos_eq.
  - change (bpow radix2 (53 - 1)) with (IZR (2 ^ 52)).
    change (bpow radix2 53) with (IZR (2 ^ 53)). split; assumption.
  - apply Rle_trans with (2 := H1). apply IZR_le. lia.
Qed.

Lemma rnd_binade52 : forall y n, (2 ^ 52 <= n < 2 ^ 53)%Z ->
  IZR (2 ^ 52) <= y -> Rabs (y - IZR n) < / 2 -> rnd y = IZR n.
Proof.
  intros y n Hn Hy Hd.
  assert (Hy2 : y < IZR (2 ^ 53)).
  { apply Rabs_lt_inv in Hd.
    assert (IZR n <= IZR (2 ^ 53 - 1)) by (apply IZR_le; lia).
    rewrite minus_IZR in H. lra. }
  assert (Hm := mag_binade52 y (conj Hy Hy2)).
  unfold round, scaled_mantissa, cexp. rewrite Hm.
  change (b64exp 53) with 0%Z. cbn [Z.opp bpow].
  rewrite Rmult_1_r, (Znearest_imp _ _ n Hd).
  unfold F2R. cbn [Fnum Fexp bpow]. lra.
Qed.

Lemma rne_nonneg_spec : forall x a n, FR x a -> 0 <= a ->
  (0 <= n < 2 ^ 52)%Z -> Rabs (a - IZR n) < / 2 -> rne_nonneg x = n.
Proof.
  intros x a n Hx Ha Hn Hd. unfold rne_nonneg.
  set (N := (2 ^ 52 + n)%Z).
  assert (HN : IZR N = IZR (2 ^ 52) + IZR n) by (unfold N; apply plus_IZR).
  assert (Hr : rnd (a + IZR 4503599627370496) = IZR N).
  { apply rnd_binade52.
    - unfold N. lia.
    - change (2 ^ 52)%Z with 4503599627370496%Z. lra.
    - rewrite HN. change (2 ^ 52)%Z with 4503599627370496%Z.
      replace (a + IZR 4503599627370496 - (IZR 4503599627370496 + IZR n)) with (a - IZR n) by ring.
      exact Hd. }
  assert (Hz : FR (x + two52)%float (IZR N)).
  { rewrite <- Hr. apply FR_add; [exact Hx | exact FR_two52 |].
    rewrite Hr. apply IZR_lt_bmax. unfold N. lia. }
  destruct Hz as [Fz Rz].
  generalize (frshiftexp_equiv (x + two52)%float).
  destruct (frshiftexp (x + two52)%float) as [m e]. intros Heq.
  assert (HNpos : 0 < IZR N) by (apply IZR_lt; unfold N; lia).
  assert (Hs : is_finite_strict (Prim2B (x + two52)%float) = true).
  { apply is_finite_strict_B2R. rewrite Rz. lra. }
  generalize (Bfrexp_correct prec emax Hprec _ Hs). rewrite <- Heq.
  intros [H1 H2]. destruct H2 as [H2 H3]; [reflexivity|].
  rewrite Rz in H1, H3.
  assert (Hmag : mag radix2 (IZR N) = 53%Z :> Z).
  { apply mag_binade52. split; apply IZR_le || apply IZR_lt; unfold N; lia. }
  rewrite Hmag in H3. rewrite H3 in H1.
  generalize (Bnormfr_mantissa_correct prec emax Hmax (Prim2B m) H2).
  generalize (normfr_mantissa_equiv m).
  destruct (Prim2B m) as [s0|s0| |s mm em Hb]; try contradiction.
  intros Hnm [Hbn [_ He]].
  rewrite Hbn in Hnm. cbn [Z.of_N] in Hnm.
  unfold B2R, F2R in H1. cbn [Fnum Fexp] in H1. rewrite He in H1.
  rewrite Rmult_assoc, <- bpow_plus in H1.
  change (bpow radix2 (- prec + 53)) with 1 in H1. rewrite Rmult_1_r in H1.
  apply eq_IZR in H1.
  assert (Hmm : Zpos mm = N).
  { destruct s; cbn [cond_Zopp Z.opp] in H1; unfold N in *; lia. }
  rewrite int_to_Z_spec, sub_spec, Hnm, Hmm.
  change (to_Z 4503599627370496%uint63) with (2 ^ 52)%Z.
  unfold N. replace (2 ^ 52 + n - 2 ^ 52)%Z with n by ring.
  apply Z.mod_small. split; [lia|]. apply Z.lt_trans with (2 ^ 52)%Z; [lia | reflexivity].
Qed.
