(* C10 - Gallina model of Hippolyzer's quantised-float / fixed-point codecs.

   Definitions only.  Every arithmetic step of the Python code is one IEEE
   binary64 operation on Coq's primitive floats (PrimFloat, evaluated by
   vm_compute), in the same order as the Python statements, so every
   intermediate rounding is the same.

   Modelled code (hippolyzer/lib/base):
     serialization.py  QuantizedFloatBase._quantized_to_float / _float_to_quantized,
                       QuantizedFloat, FixedPoint.serialize / deserialize,
                       QuantizedNumPyArray.encode / decode
     templates.py      PackedTERotation._float_to_quantized (math.fmod + wrap), TE_S16_COORD
     llanim.py         QuantizedTime (range [0, duration], duration from the context)
     mesh.py           VertexWeights (raw / 0xFFFF, round(w * 0xFFFF))

   Raw wire integers are [Z]; "the encoder raised" (ValueError from round(nan),
   struct.error from packing an out-of-range integer, ValueError from
   math.fmod(inf, y)) is [None]. *)
From Coq Require Import PrimFloat Uint63 ZArith List Bool.
Import ListNotations.
Local Open Scope float_scope.

(* ---------------------------------------------------------------------- *)
(* int <-> Z <-> float glue (all exact on the ranges used)                 *)

(* Uint63 -> Z with early exit (Uint63.to_Z always walks 63 bits) *)
Fixpoint pos_of_int_fuel (n : nat) (i : int) : positive :=
  match n with
  | O => xH
  | S k =>
      if Uint63.leb i 1 then xH
      else if Uint63.is_even i then xO (pos_of_int_fuel k (Uint63.lsr i 1))
           else xI (pos_of_int_fuel k (Uint63.lsr i 1))
  end.
Definition int_to_Z (i : int) : Z :=
  if Uint63.eqb i 0 then Z0 else Zpos (pos_of_int_fuel 63 i).

(* Python int -> float conversion (exact for |z| < 2^53; raws are < 2^17) *)
Definition z_to_float (z : Z) : float :=
  match z with
  | Z0 => 0
  | Zpos p => of_uint63 (Uint63.of_pos p)
  | Zneg p => - (of_uint63 (Uint63.of_pos p))
  end.

Definition two52 : float := 0x1p52.
Definition two51 : float := 0x1p51.

(* round-half-even of 0 <= x < 2^51: x + 2^52 lies in [2^52, 2^53) where the
   spacing of binary64 is exactly 1, so the addition itself rounds x to the
   nearest integer, ties to even; the integer is read off the mantissa. *)
Definition rne_nonneg (x : float) : Z :=
  let (m, _) := frshiftexp (x + two52) in
  int_to_Z (Uint63.sub (normfr_mantissa m) 4503599627370496%uint63).

(* Python's round(x) for a float (float.__round__ without ndigits: round half
   to even, result an int; ValueError on nan, OverflowError on inf).  Values of
   magnitude >= 2^51 give [None] too: every caller packs the result into an 8 or
   16 bit wire integer, which raises struct.error for them anyway. *)
Definition py_round (x : float) : option Z :=
  if abs x <? two51
  then Some (if x <? 0 then Z.opp (rne_nonneg (- x)) else rne_nonneg x)
  else None.

(* Python's builtin max(a, b) / min(a, b) on two arguments: the first argument
   is kept unless the second is strictly greater / smaller (matters for nan and
   for signed zeros) *)
Definition py_max (a b : float) : float := if a <? b then b else a.
Definition py_min (a b : float) : float := if b <? a then b else a.

Definition signbit (x : float) : bool :=
  if x =? 0 then (1 / x <? 0) else (x <? 0).
Definition copysign (m s : float) : float :=
  if signbit s then - (abs m) else abs m.

(* C fmod(x, y) for finite y > 0: exact remainder with the sign of x.  Long
   division: subtract the largest y * 2^k <= |x| (exact by Sterbenz) until the
   rest is below y.  [None] = math.fmod raised (x infinite); nan propagates. *)
Fixpoint fmod_loop (fuel : nat) (x y : float) : float :=
  match fuel with
  | O => x
  | S k =>
      if x <? y then x
      else
        let (_, ex) := frshiftexp x in
        let (_, ey) := frshiftexp y in
        let d := Uint63.sub ex ey in
        let y1 := ldshiftexp y (Uint63.add d 2101%uint63) in
        let y2 := if y1 <=? x then y1 else ldshiftexp y (Uint63.add (Uint63.sub d 1%uint63) 2101%uint63) in
        fmod_loop k (x - y2) y
  end.
Definition fmod_fuel : nat := Nat.mul 50 44.
Definition py_fmod (x y : float) : option float :=
  if x =? x then
    if abs x =? infinity then None
    else let r := fmod_loop fmod_fuel (abs x) y in
         Some (if signbit x then - r else r)
  else Some x.

(* ---------------------------------------------------------------------- *)
(* the codec instances                                                      *)

Inductive qf_kind :=
| KBase      (* QuantizedFloat / QuantizedTime: QuantizedFloatBase methods as they are *)
| KTERot     (* templates.PackedTERotation: fmod before, wrap of rmax+1 after *)
| KTERotGuarded  (* the same with the proposed repair (.proposed/C10-terotation-lower-end.diff):
                    `if val != lower: val = math.fmod(val, upper)`; selected by the translator
                    only if the implementation encodes the lower end to rmin *)
| KNumpy.    (* QuantizedNumPyArray: same arithmetic, np.clip / np.rint, no nudge *)

Record qfloat := {
  qf_kind_of : qf_kind;
  qf_rmin : Z;            (* prim_spec.min_val  (= self.prim_min) *)
  qf_rmax : Z;            (* prim_spec.max_val *)
  qf_lower : float;
  qf_upper : float;
  qf_step : float;        (* self.step_mag as computed by the constructor *)
  qf_zero_median : bool;
}.

Record qfixed := {
  qx_rmax : Z;            (* wire type is unsigned: raws 0 .. qx_rmax *)
  qx_scale : float;       (* float(1 << frac_bits) *)
  qx_signed : bool;
  qx_minv : float;        (* self._min_val *)
  qx_maxv : float;        (* self._max_val: clamp bound and, if signed, the offset *)
  qx_saturate : bool;     (* false = the code as it is: round(val) is packed as is.  true = the
                             proposed repair (.proposed/C10-fixedpoint-clamp.diff):
                             min(round(val), ser_spec.max_val); selected by the translator only
                             if serialize(max_val) does not raise *)
}.

Record qweight := {
  qw_rmax : Z;            (* U16 *)
  qw_scale : float;       (* float(0xFFFF) *)
}.

Inductive quant :=
| QF (f : qfloat)
| QX (x : qfixed)
| QW (w : qweight).

Definition raw_min (q : quant) : Z :=
  match q with QF f => qf_rmin f | QX _ => 0%Z | QW _ => 0%Z end.
Definition raw_max (q : quant) : Z :=
  match q with QF f => qf_rmax f | QX x => qx_rmax x | QW w => qw_rmax w end.
Definition in_wire (q : quant) (z : Z) : bool :=
  (raw_min q <=? z)%Z && (z <=? raw_max q)%Z.
Definition to_wire (q : quant) (z : option Z) : option Z :=
  match z with
  | Some r => if in_wire q r then Some r else None   (* struct.error *)
  | None => None
  end.

(* --- QuantizedFloatBase._quantized_to_float ----------------------------- *)
Definition qf_decode (f : qfloat) (r : Z) : float :=
  let lower := qf_lower f in
  let upper := qf_upper f in
  let delta := upper - lower in
  let max_error := delta * qf_step f in
  let v := z_to_float (r - qf_rmin f) in      (* val -= self.prim_min *)
  let v := v * qf_step f in                   (* val *= self.step_mag *)
  let v := v * delta in                       (* val *= delta *)
  let v := v + lower in                       (* val += lower *)
  if qf_zero_median f && (abs v <? max_error)
  then (if v <? 0 then (-0) else 0)
  else v.

(* --- QuantizedFloatBase._float_to_quantized (returns the Python int) ----- *)
Definition qf_encode_base (nudging : bool) (f : qfloat) (v : float) : option Z :=
  let lower := qf_lower f in
  let upper := qf_upper f in
  let delta := upper - lower in
  if delta =? 0 then Some (qf_rmin f)
  else
    let v := py_min (py_max v lower) upper in
    let nudge :=
      if qf_zero_median f && (v =? 0)
      then copysign ((delta * qf_step f) * 0x1p-1) v
      else 0 in
    let v := if nudging then v + nudge else v in   (* val += nudge *)
    let v := v - lower in
    let v := v / delta in
    let v := v / qf_step f in
    match py_round v with
    | Some z => Some (z + qf_rmin f)%Z
    | None => None
    end.

(* PackedTERotation._float_to_quantized:
     val = math.fmod(val, upper); val = super()._float_to_quantized(val, lower, upper)
     if val == S16.max_val + 1: val = self.prim_min *)
Definition qf_encode_terot (f : qfloat) (folded : option float) : option Z :=
  match folded with
  | None => None
  | Some v1 =>
      match qf_encode_base true f v1 with
      | Some z => Some (if (z =? qf_rmax f + 1)%Z then qf_rmin f else z)
      | None => None
      end
  end.

Definition qf_encode (f : qfloat) (v : float) : option Z :=
  match qf_kind_of f with
  | KBase => qf_encode_base true f v
  | KNumpy => qf_encode_base false f v
  | KTERot => qf_encode_terot f (py_fmod v (qf_upper f))
  | KTERotGuarded =>
      qf_encode_terot f (if v =? qf_lower f then Some v else py_fmod v (qf_upper f))
  end.

(* --- FixedPoint.deserialize / serialize --------------------------------- *)
Definition qx_decode (x : qfixed) (r : Z) : float :=
  let v := z_to_float r in
  let v := v / qx_scale x in
  if qx_signed x then v - qx_maxv x else v.

Definition qx_encode (x : qfixed) (v : float) : option Z :=
  let v := py_min (py_max v (qx_minv x)) (qx_maxv x) in
  let v := if qx_signed x then v + qx_maxv x else v in
  let v := v * qx_scale x in
  match py_round v with
  | Some z => Some (if qx_saturate x then Z.min z (qx_rmax x) else z)
  | None => None
  end.

(* --- mesh.VertexWeights -------------------------------------------------- *)
Definition qw_decode (w : qweight) (r : Z) : float := z_to_float r / qw_scale w.
Definition qw_encode (w : qweight) (v : float) : option Z := py_round (v * qw_scale w).

(* --- the two directions, at the wire ------------------------------------- *)
Definition q2f (q : quant) (r : Z) : float :=
  match q with
  | QF f => qf_decode f r
  | QX x => qx_decode x r
  | QW w => qw_decode w r
  end.

Definition f2q (q : quant) (v : float) : option Z :=
  to_wire q
    match q with
    | QF f => qf_encode f v
    | QX x => qx_encode x v
    | QW w => qw_encode w v
    end.

(* the declared range of an instance: lower/upper of the quantised floats; the
   Q-format range [min_val, max_val - 2^-frac] of a fixed-point field (max_val
   itself = 1 << int_bits is the exclusive bound, see clamp_bound below);
   [0, 1] for vertex weights *)
Definition declared_lower (q : quant) : float :=
  match q with QF f => qf_lower f | QX x => qx_minv x | QW _ => 0 end.
Definition declared_upper (q : quant) : float :=
  match q with
  | QF f => qf_upper f
  | QX x => qx_maxv x - 1 / qx_scale x
  | QW _ => 1
  end.
(* the value FixedPoint.serialize clamps to from above *)
Definition clamp_bound (x : qfixed) : float := qx_maxv x.

Definition is_terot (q : quant) : bool :=
  match q with QF f => match qf_kind_of f with KTERot => true | _ => false end | _ => false end.
Definition is_terot_any (q : quant) : bool :=
  match q with
  | QF f => match qf_kind_of f with KTERot | KTERotGuarded => true | _ => false end
  | _ => false
  end.
Definition is_numpy (q : quant) : bool :=
  match q with QF f => match qf_kind_of f with KNumpy => true | _ => false end | _ => false end.
Definition zero_median (q : quant) : bool :=
  match q with QF f => qf_zero_median f | _ => false end.
(* range centred on zero: lower = -upper *)
Definition centred (q : quant) : bool := (- declared_lower q) =? declared_upper q.
(* fixed-point: the code's own range [min_val, max_val] is centred when signed *)
Definition centred_fixed (q : quant) : bool :=
  match q with QX x => qx_signed x | _ => false end.

(* ---------------------------------------------------------------------- *)
(* raw ranges                                                               *)

Fixpoint zrange (n : nat) (s : Z) : list Z :=
  match n with O => [] | S k => s :: zrange k (s + 1) end.
Definition raw_count (q : quant) : nat := Z.to_nat (raw_max q - raw_min q + 1).
Definition all_raws (q : quant) : list Z := zrange (raw_count q) (raw_min q).
Definition raw_ok (q : quant) (r : Z) : Prop := (raw_min q <= r <= raw_max q)%Z.

(* ---------------------------------------------------------------------- *)
(* KNOWN EXCEPTIONS of the real code (DESIGN.md section 7 row 9), explicit: *)
(* PackedTERotation: raw rmin (-32768) decodes to -2pi which fmod folds to -0.0 *)
Definition rt_excluded (q : quant) (r : Z) : bool := is_terot q && (r =? raw_min q)%Z.
(* PackedTERotation: 65536 steps over a half-open range, the declared upper end
   2pi has no raw, and fmod maps both ends to 0 *)
Definition ends_excluded (q : quant) : bool := is_terot_any q.
(* QuantizedNumPyArray over a centred range ("no zero midpoint rounding!"):
   0.0 lies half way between two raws *)
Definition zero_excluded (q : quant) : bool := is_numpy q.

(* ---------------------------------------------------------------------- *)
(* executable checks (finite domain: all raws of the instance)              *)

Definition rt_ok (q : quant) (r : Z) : bool :=
  match f2q q (q2f q r) with Some r' => (r' =? r)%Z | None => false end.
Definition rt_check (q : quant) : bool :=
  forallb (fun r => rt_excluded q r || rt_ok q r) (all_raws q).

Definition is_zero (x : float) : bool := x =? 0.
Definition mono_ok (q : quant) (r : Z) : bool :=
  let a := q2f q r in
  let b := q2f q (r + 1) in
  (a <=? b) && ((a <? b) || (zero_median q && is_zero a && is_zero b)).
Definition mono_check (q : quant) : bool :=
  forallb (mono_ok q) (zrange (Nat.pred (raw_count q)) (raw_min q)).

Definition nonzero_check (q : quant) : bool :=
  forallb (fun r => negb (is_zero (q2f q r))) (all_raws q).

Definition endpoints_spec (q : quant) : Prop :=
  q2f q (raw_min q) = declared_lower q /\
  q2f q (raw_max q) = declared_upper q /\
  f2q q (declared_lower q) = Some (raw_min q) /\
  f2q q (declared_upper q) = Some (raw_max q).

(* zero of a centred range: raw r0 decodes to +0.0 and 0.0 encodes to r0; with
   zero_median the raw below decodes to -0.0 and -0.0 encodes back to it (the
   signed-zero trick), without it -0.0 encodes to r0 as well *)
Definition zero_spec (q : quant) (r0 : Z) : Prop :=
  raw_ok q r0 /\
  q2f q r0 = 0 /\ f2q q 0 = Some r0 /\
  (if zero_median q
   then q2f q (r0 - 1) = (-0) /\ f2q q (-0) = Some (r0 - 1)%Z
   else f2q q (-0) = Some r0).

(* ---------------------------------------------------------------------- *)
(* correspondence with the implementation (data supplied by the translator) *)

Definition feq_bits (a b : float) : bool :=
  if a =? a then (a =? b) && ((1 / a) =? (1 / b)) else negb (b =? b).

Definition chk_key (x : float) : int :=
  let (m, e) := frshiftexp x in
  Uint63.add (Uint63.add (normfr_mantissa m) (Uint63.mul e 1000003%uint63))
             (if 1 / x <? 0 then 777767777%uint63 else 0%uint63).
Fixpoint chk_fold (q : quant) (l : list Z) (i acc : int) : int :=
  match l with
  | [] => acc
  | r :: t =>
      chk_fold q t (Uint63.add i 1%uint63)
        (Uint63.add acc (Uint63.mul (Uint63.add (Uint63.mul 2%uint63 i) 1%uint63) (chk_key (q2f q r))))
  end.
(* weighted sum (mod 2^63) over the bit patterns of ALL decoded values *)
Definition decode_checksum (q : quant) : int := chk_fold q (all_raws q) 0%uint63 0%uint63.

Definition decode_agrees (q : quant) (samples : list (Z * float)) (chk : int) : bool :=
  forallb (fun p => feq_bits (q2f q (fst p)) (snd p)) samples
  && Uint63.eqb (decode_checksum q) chk.

Definition optz_eqb (a b : option Z) : bool :=
  match a, b with
  | Some x, Some y => (x =? y)%Z
  | None, None => true
  | _, _ => false
  end.
Definition encode_agrees (q : quant) (cases : list (float * option Z)) : bool :=
  forallb (fun p => optz_eqb (f2q q (fst p)) (snd p)) cases.

(* first disagreeing case, for diagnosis *)
Definition decode_first_bad (q : quant) (samples : list (Z * float)) : option (Z * float * float) :=
  match find (fun p => negb (feq_bits (q2f q (fst p)) (snd p))) samples with
  | Some p => Some (fst p, snd p, q2f q (fst p))
  | None => None
  end.
Definition encode_first_bad (q : quant) (cases : list (float * option Z)) : option (float * option Z * option Z) :=
  match find (fun p => negb (optz_eqb (f2q q (fst p)) (snd p))) cases with
  | Some p => Some (fst p, snd p, f2q q (fst p))
  | None => None
  end.
Definition rt_first_bad (q : quant) : option Z :=
  find (fun r => negb (rt_excluded q r || rt_ok q r)) (all_raws q).

(* ---------------------------------------------------------------------- *)
(* llanim.QuantizedTime: U16 over [0, duration]                             *)
Definition qtime (step : float) (duration : float) : quant :=
  QF {| qf_kind_of := KBase; qf_rmin := 0; qf_rmax := 65535;
        qf_lower := 0; qf_upper := duration; qf_step := step;
        qf_zero_median := false |}.

Definition qtime_ok_q (q : quant) (d : float) : bool :=
  rt_check q && mono_check q
  && feq_bits (q2f q 0) 0 && feq_bits (q2f q 65535) d
  && optz_eqb (f2q q 0) (Some 0%Z) && optz_eqb (f2q q d) (Some 65535%Z).
Definition qtime_check (step : float) (ds : list float) : bool :=
  forallb (fun d => qtime_ok_q (qtime step d) d) ds.
Definition qtime_decode_agrees (step : float) (l : list (float * int)) : bool :=
  forallb (fun p => Uint63.eqb (decode_checksum (qtime step (fst p))) (snd p)) l.

(* end-point clauses of QuantizedTime alone (no sweep over raws) *)
Definition qtime_ends_ok_q (q : quant) (d : float) : bool :=
  feq_bits (q2f q 0) 0 && feq_bits (q2f q 65535) d
  && optz_eqb (f2q q 0) (Some 0%Z) && optz_eqb (f2q q d) (Some 65535%Z).
Definition qtime_ends_check (step : float) (ds : list float) : bool :=
  forallb (fun d => qtime_ends_ok_q (qtime step d) d) ds.
