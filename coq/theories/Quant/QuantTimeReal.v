(* C10 - real-number error analysis of QuantizedTime's decode-then-encode.

   [rnd] is binary64 round-to-nearest-even (no overflow: handled separately),
   [sR] the real value of the step constant 0x1.0001000100010p-16 = RN(1/65535).
   For a duration d in [2^-1000, 2^1000] and a raw 0 <= r <= 65535 the chain
       x1 = rnd (r * sR)      val *= self.step_mag
       x2 = rnd (x1 * d)      val *= delta
       y1 = rnd (x2 / d)      val /= delta
       y2 = rnd (y1 / sR)     val /= self.step_mag
   stays away from the subnormal range, each rounding has relative error at
   most 2^-53, d and sR cancel exactly, so y2 = r (1+e1)(1+e2)(1+e3)(1+e4) and
   |y2 - r| <= 65535 * ((1+2^-53)^4 - 1) < 1/4.  Moreover x2 <= d, so the clamp
   min(max(val, 0), d) of the encoder is the identity. *)
From Coq Require Import ZArith Reals Lia Lra.
From Flocq Require Import Core Relative.
From HV Require Import Quant.QuantTimeBridge.

Local Open Scope R_scope.
Unset Nra Cache.   (* no .nra.cache file in the build directory *)

Definition sR : R := 4503668347895824 / 295147905179352825856.   (* m * 2^-68 *)
Definition uR : R := / 9007199254740992.                          (* 2^-53 *)

Lemma rnd_0 : rnd 0 = 0.
Proof. apply round_0. apply valid_rnd_N. Qed.

Lemma rnd_le : forall x y, x <= y -> rnd x <= rnd y.
Proof. intros. apply round_le; [apply b64exp_valid | apply valid_rnd_N | assumption]. Qed.

Lemma rnd_ge_0 : forall x, 0 <= x -> 0 <= rnd x.
Proof. intros x Hx. rewrite <- rnd_0. apply rnd_le. exact Hx. Qed.

Lemma format_1 : generic_format radix2 b64exp 1.
Proof.
  change 1 with (bpow radix2 0). apply generic_format_bpow. cbv. discriminate.
Qed.

Lemma rnd_1 : rnd 1 = 1.
Proof. apply rnd_format. exact format_1. Qed.

Lemma rnd_rel : forall x, bpow radix2 (-1022) <= Rabs x ->
  exists e, Rabs e <= uR /\ rnd x = x * (1 + e).
Proof.
  intros x Hx.
  destruct (relative_error_N_FLT_ex radix2 (-1074) 53 (eq_refl : (0 < 53)%Z) (fun z => negb (Z.even z)) x Hx)
    as [e [He Hr]].
  exists e. split; [|exact Hr].
  change (bpow radix2 (- (53) + 1)) with (/ 4503599627370496) in He.
  unfold uR. lra.
Qed.

Section Chain.
Variable d : R.
Variable r : Z.
Hypothesis Hd : bpow radix2 (-1000) <= d <= bpow radix2 1000.
Hypothesis Hfd : generic_format radix2 b64exp d.
Hypothesis Hr : (0 <= r <= 65535)%Z.

Let x1 := rnd (IZR r * sR).
Let x2 := rnd (x1 * d).
Let y1 := rnd (x2 / d).
Let y2 := rnd (y1 / sR).

Lemma d_pos : 0 < d.
Proof. destruct Hd as [H _]. apply Rlt_le_trans with (2 := H). apply bpow_gt_0. Qed.

Lemma sR_pos : 0 < sR.
Proof. unfold sR. lra. Qed.

Lemma r_bounds : 0 <= IZR r <= 65535.
Proof. split; apply IZR_le; lia. Qed.

Lemma x1_bounds : 0 <= x1 <= 1.
Proof.
  generalize r_bounds sR_pos. intros Hrb Hs. split.
  - apply rnd_ge_0. apply Rmult_le_pos; lra.
  - unfold x1. rewrite <- rnd_1. apply rnd_le.
    apply Rle_trans with (65535 * sR).
    + apply Rmult_le_compat_r; lra.
    + unfold sR. lra.
Qed.

Lemma x2_bounds : 0 <= x2 <= d.
Proof.
  generalize x1_bounds d_pos. intros Hx Hp. split.
  - apply rnd_ge_0. apply Rmult_le_pos; lra.
  - unfold x2. rewrite <- (rnd_format d Hfd) at 2. apply rnd_le.
    rewrite <- (Rmult_1_l d) at 2. apply Rmult_le_compat_r; lra.
Qed.

Lemma y1_bounds : 0 <= y1 <= 1.
Proof.
  generalize x2_bounds d_pos. intros Hx Hp. split.
  - apply rnd_ge_0. apply Rmult_le_pos; [lra|]. apply Rlt_le, Rinv_0_lt_compat, Hp.
  - unfold y1. rewrite <- rnd_1. apply rnd_le.
    apply Rmult_le_reg_r with d; [exact Hp|]. unfold Rdiv.
    rewrite Rmult_assoc, Rinv_l by lra. lra.
Qed.

Lemma y2_nonneg : 0 <= y2.
Proof.
  generalize y1_bounds sR_pos. intros Hy Hs.
  apply rnd_ge_0. apply Rmult_le_pos; [lra|]. apply Rlt_le, Rinv_0_lt_compat, Hs.
Qed.

Lemma y2_close : Rabs (y2 - IZR r) <= / 4.
Proof.
  destruct (Z.eq_dec r 0) as [H0|H0].
  - unfold y2, y1, x2, x1. rewrite H0. rewrite Rmult_0_l, rnd_0, Rmult_0_l, rnd_0.
    unfold Rdiv. rewrite Rmult_0_l, rnd_0, Rmult_0_l, rnd_0.
    rewrite Rminus_0_r, Rabs_R0. lra.
  - assert (Hr1 : 1 <= IZR r <= 65535) by (split; apply IZR_le; lia).
    generalize d_pos. intros Hdp.
    (* x1 *)
    destruct (rnd_rel (IZR r * sR)) as [e1 [He1 E1]].
    { rewrite Rabs_pos_eq by (unfold sR; nra).
      apply Rle_trans with (bpow radix2 (-17)); [apply bpow_le; lia|].
      change (bpow radix2 (-17)) with (/ 131072). unfold sR. nra. }
    fold x1 in E1. apply Rabs_le_inv in He1.
    assert (B1 : / 262144 <= x1) by (rewrite E1; unfold sR, uR in *; nra).
    (* x2 *)
    destruct (rnd_rel (x1 * d)) as [e2 [He2 E2]].
    { rewrite Rabs_pos_eq by nra.
      apply Rle_trans with (bpow radix2 (-18) * bpow radix2 (-1000)).
      - rewrite <- bpow_plus. apply bpow_le. lia.
      - apply Rmult_le_compat; try apply bpow_ge_0; [|apply Hd].
        change (bpow radix2 (-18)) with (/ 262144). exact B1. }
    fold x2 in E2. apply Rabs_le_inv in He2.
    assert (Q2 : x2 / d = x1 * (1 + e2)) by (rewrite E2; field; lra).
    (* y1 *)
    destruct (rnd_rel (x2 / d)) as [e3 [He3 E3]].
    { rewrite Q2. rewrite Rabs_pos_eq by (unfold uR in *; nra).
      apply Rle_trans with (bpow radix2 (-19)); [apply bpow_le; lia|].
      change (bpow radix2 (-19)) with (/ 524288). unfold uR in *. nra. }
    fold y1 in E3. apply Rabs_le_inv in He3. rewrite Q2, E1 in E3.
    assert (Q3 : y1 / sR = IZR r * (1 + e1) * (1 + e2) * (1 + e3)).
    { rewrite E3. field. unfold sR. lra. }
    (* y2 *)
    destruct (rnd_rel (y1 / sR)) as [e4 [He4 E4]].
    { rewrite Q3.
      apply Rle_trans with (/ 2).
      - change (/ 2) with (bpow radix2 (-1)). apply bpow_le. lia.
      - apply Rabs_ge. right. unfold uR in *.
        assert (A12 : 3 / 4 <= (1 + e1) * (1 + e2)) by nra.
        assert (A123 : 5 / 8 <= (1 + e1) * (1 + e2) * (1 + e3)) by nra.
        replace (IZR r * (1 + e1) * (1 + e2) * (1 + e3))
          with (IZR r * ((1 + e1) * (1 + e2) * (1 + e3))) by ring.
        nra. }
    fold y2 in E4. apply Rabs_le_inv in He4. rewrite Q3 in E4.
    rewrite E4.
    replace (IZR r * (1 + e1) * (1 + e2) * (1 + e3) * (1 + e4) - IZR r)
      with (IZR r * ((1 + e1) * (1 + e2) * (1 + e3) * (1 + e4) - 1)) by ring.
    assert (U : uR <= / 1000000000000) by (unfold uR; lra).
    set (a := (1 + e1) * (1 + e2)). set (b := (1 + e3) * (1 + e4)).
    assert (Ha : Rabs (a - 1) <= 3 / 1000000000000) by (apply Rabs_le; unfold a; nra).
    assert (Hb : Rabs (b - 1) <= 3 / 1000000000000) by (apply Rabs_le; unfold b; nra).
    apply Rabs_le_inv in Ha. apply Rabs_le_inv in Hb.
    replace (a * (1 + e3) * (1 + e4)) with (a * b) by (unfold b; ring).
    assert (Hab : Rabs (a * b - 1) <= 7 / 1000000000000) by (apply Rabs_le; nra).
    rewrite Rabs_mult, (Rabs_pos_eq (IZR r)) by lra.
    apply Rle_trans with (65535 * (7 / 1000000000000)); [|lra].
    apply Rmult_le_compat; [lra | apply Rabs_pos | lra | exact Hab].
Qed.

Lemma chain_all :
  0 <= x1 <= 1 /\ 0 <= x2 <= d /\ 0 <= y1 <= 1 /\ 0 <= y2 /\
  Rabs (y2 - IZR r) <= / 4 /\ 0 < d.
Proof using Hd Hfd Hr.
  exact (conj x1_bounds (conj x2_bounds (conj y1_bounds (conj y2_nonneg (conj y2_close d_pos))))).
Qed.

End Chain.
