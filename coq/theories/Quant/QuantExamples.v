(* C10 - concrete evaluations of the model (sanity / non-vacuity; the same
   numbers can be reproduced with the Python code, see the comments). *)
From Coq Require Import PrimFloat Uint63 ZArith List Bool.
From HV Require Import Quant.QuantModel.
Import ListNotations.
Local Open Scope float_scope.

(* Python round(): half to even, both signs *)
Example ex_round :
  (py_round 0x1.4p+1, py_round 0x1.cp+1, py_round (-0x1.4p+1), py_round 0x1.fffep+15,
   py_round 0x1.fffefffffffffp+15, py_round nan, py_round infinity)
  = (Some 2%Z, Some 4%Z, Some (-2)%Z, Some 65535%Z, Some 65535%Z, None, None).
Proof. vm_compute. reflexivity. Qed.

(* math.fmod: exact, sign of the first argument; fmod(7, 2pi), fmod(-2pi, 2pi) = -0.0,
   fmod(1e22, 2pi) = 1.0634318162761502 (as CPython), fmod(inf, y) raises *)
Definition twopi : float := 0x1.921fb54442d18p+2.
Example ex_fmod :
  (py_fmod 7 twopi, py_fmod (- twopi) twopi, py_fmod twopi twopi,
   py_fmod 0x1.0f0cf064dd592p+73 twopi, py_fmod infinity twopi)
  = (Some 0x1.6f0255dde974p-1, Some (-0), Some 0, Some 0x1.103d11486e94p+0, None).
Proof. vm_compute. reflexivity. Qed.

(* se.QuantizedFloat(se.U16, -1.0, 1.0): zero_median inferred; the signed-zero trick *)
Definition unit_u16 : quant :=
  QF {| qf_kind_of := KBase; qf_rmin := 0; qf_rmax := 65535; qf_lower := -1; qf_upper := 1;
        qf_step := 1 / 65535; qf_zero_median := true |}.
Example ex_unit_u16 :
  q2f unit_u16 32768 = 0 /\ q2f unit_u16 32767 = (-0) /\
  f2q unit_u16 0 = Some 32768%Z /\ f2q unit_u16 (-0) = Some 32767%Z /\
  q2f unit_u16 0 = -1 /\ q2f unit_u16 65535 = 1 /\
  f2q unit_u16 (-1) = Some 0%Z /\ f2q unit_u16 1 = Some 65535%Z /\
  f2q unit_u16 5 = Some 65535%Z /\ f2q unit_u16 nan = None /\
  rt_check unit_u16 = true /\ mono_check unit_u16 = true.
Proof. vm_compute. repeat split; reflexivity. Qed.

(* templates.PackedTERotation as it is: the known defect replayed on the model *)
Definition terot : quant :=
  QF {| qf_kind_of := KTERot; qf_rmin := -32768; qf_rmax := 32767; qf_lower := - twopi; qf_upper := twopi;
        qf_step := 0x1p-16; qf_zero_median := false |}.
Example ex_terot_defect :
  q2f terot (-32768) = - twopi /\ f2q terot (- twopi) = Some 0%Z /\
  f2q terot (q2f terot (-32768)) = Some 0%Z /\
  q2f terot 32767 = 0x1.921c9104d849p+2 /\ f2q terot twopi = Some 0%Z /\
  rt_first_bad terot = None /\                       (* nothing else fails *)
  find (fun r => negb (rt_ok terot r)) (all_raws terot) = Some (-32768)%Z.
Proof. vm_compute. repeat split; reflexivity. Qed.

(* ... and with the proposed repair (skip fmod for exactly the lower end) *)
Definition terot_guarded : quant :=
  QF {| qf_kind_of := KTERotGuarded; qf_rmin := -32768; qf_rmax := 32767; qf_lower := - twopi; qf_upper := twopi;
        qf_step := 0x1p-16; qf_zero_median := false |}.
Example ex_terot_guarded :
  f2q terot_guarded (- twopi) = Some (-32768)%Z /\
  find (fun r => negb (rt_ok terot_guarded r)) (all_raws terot_guarded) = None /\
  f2q terot_guarded 7 = f2q terot 7 /\ f2q terot_guarded twopi = Some 0%Z.
Proof. vm_compute. repeat split; reflexivity. Qed.

(* se.FixedPoint(se.U16, 8, 7, signed=True) *)
Definition fixed_s87 : quant :=
  QX {| qx_rmax := 65535; qx_scale := 128; qx_signed := true; qx_minv := -256; qx_maxv := 256; qx_saturate := false |}.
Example ex_fixed :
  q2f fixed_s87 0 = -256 /\ q2f fixed_s87 32768 = 0 /\ q2f fixed_s87 65535 = 0x1.fffcp+7 /\
  f2q fixed_s87 0x1.fffcp+7 = Some 65535%Z /\ f2q fixed_s87 (-1000) = Some 0%Z /\
  f2q fixed_s87 256 = None /\                         (* struct.error: 65536 does not fit 'H' *)
  rt_check fixed_s87 = true.
Proof. vm_compute. repeat split; reflexivity. Qed.

(* mesh.VertexWeights *)
Definition weights : quant := QW {| qw_rmax := 65535; qw_scale := 65535 |}.
Example ex_weights :
  q2f weights 65535 = 1 /\ f2q weights 1 = Some 65535%Z /\ f2q weights 0x1.199999999999ap+0 = None /\
  rt_check weights = true.
Proof. vm_compute. repeat split; reflexivity. Qed.

(* the clauses are independent: a codec whose step is off by one (1/256 instead of
   1/255, what `1.0 / (max - min + 1)` would give) still round-trips every raw,
   it is the end-point clause that rejects it *)
Example ex_checks_discriminate :
  let bad := QF {| qf_kind_of := KBase; qf_rmin := 0; qf_rmax := 255; qf_lower := 0; qf_upper := 1;
                   qf_step := 1 / 256; qf_zero_median := false |} in
  rt_check bad = true /\ q2f bad 255 <> 1.
Proof.
  split; [vm_compute; reflexivity|].
  intro H. apply (f_equal (fun x => x =? 1)) in H. vm_compute in H. discriminate H.
Qed.
