(* C08 - sizes: min_size is a lower bound of every encoding; calc_size, when it answers,
   is the exact length of every encoding. *)
From Coq Require Import NArith ZArith List Bool Lia ZifyBool ZifyNat ZifyN.
From HV Require Import Base.Bytes Spec.Spec Spec.SpecLemmas Spec.SpecInd.
Import ListNotations.
Open Scope N_scope.

Definition ms_at (e : bool) (s : spec) : Prop :=
  forall c v b, ser e s c v = Some b -> min_size s <= N.of_nat (length b).

Lemma ser_term_length ts wt b out :
  ser_term ts wt b = Some out -> length out = (length b + (if wt then 1 else 0))%nat.
Proof.
  unfold ser_term. destruct wt.
  - destruct ts; [discriminate|]. intros H; injection H as <-. rewrite app_length. reflexivity.
  - intros H; injection H as <-. lia.
Qed.

Lemma pad_length (b : bytes) n :
  (n <? N.of_nat (length b)) = false ->
  N.of_nat (length (b ++ repeat 0 (N.to_nat n - length b))) = n.
Proof. intros H. rewrite app_length, repeat_length. lia. Qed.

(* ---------- sequences ---------- *)

Lemma ser_seq_ms e ss : Forall (ms_at e) ss ->
  forall vs b, ser_seq (map (fun s' => ser e s' []) ss) vs = Some b ->
  sumN (map min_size ss) <= N.of_nat (length b).
Proof.
  induction 1 as [|s ss Hs _ IH]; intros vs b H.
  - destruct vs; [|discriminate]. injection H as <-. cbn. lia.
  - destruct vs as [|v vs]; [discriminate|]. cbn [map ser_seq] in H.
    destruct (ser e s [] v) as [b1|] eqn:E1; [|discriminate].
    destruct (ser_seq (map (fun s' => ser e s' []) ss) vs) as [b2|] eqn:E2; [|discriminate].
    injection H as <-. apply Hs in E1. apply IH in E2.
    cbn [map sumN fold_right]. fold (sumN (map min_size ss)). rewrite app_length. lia.
Qed.

Lemma ser_fields_ms e fs : Forall (fun f => ms_at e (snd f)) fs ->
  forall full kvs b,
    ser_fields (map (fun f => (fst f, optional (snd f), ser e (snd f) full)) fs) kvs = Some b ->
    sumN (map (fun f => min_size (snd f)) fs) <= N.of_nat (length b).
Proof.
  induction 1 as [|f fs Hs _ IH]; intros full kvs b H.
  - injection H as <-. cbn. lia.
  - cbn [map ser_fields] in H.
    destruct (match lookup (fst f) kvs with
              | Some v => Some v
              | None => if optional (snd f) then Some VNone else None
              end) as [v|]; [|discriminate].
    destruct (ser e (snd f) full v) as [b1|] eqn:E1; [|discriminate].
    destruct (ser_fields (map (fun f0 => (fst f0, optional (snd f0), ser e (snd f0) full)) fs) kvs)
      as [b2|] eqn:E2; [|discriminate].
    injection H as <-. apply Hs in E1. apply IH in E2.
    cbn [map sumN fold_right]. fold (sumN (map (fun f0 => min_size (snd f0)) fs)).
    rewrite app_length. lia.
Qed.

Lemma ser_all_ms f m vs b :
  (forall v b', f v = Some b' -> m <= N.of_nat (length b')) ->
  ser_all f vs = Some b -> N.of_nat (length vs) * m <= N.of_nat (length b).
Proof.
  intros Hf. revert b; induction vs as [|v vs IH]; intros b H.
  - injection H as <-. cbn. lia.
  - cbn [ser_all] in H. destruct (f v) as [b1|] eqn:E1; [|discriminate].
    destruct (ser_all f vs) as [b2|] eqn:E2; [|discriminate]. injection H as <-.
    apply Hf in E1. specialize (IH _ eq_refl).
    cbn [length]. rewrite Nat2N.inj_succ, N.mul_succ_l, app_length. lia.
Qed.

Lemma ser_opt_eq e s c v :
  ser e (SOptPrefixed s) c v =
  if is_none v then Some [0] else match ser e s c v with Some b => Some (1 :: b) | None => None end.
Proof. destruct v; reflexivity. Qed.

Lemma ser_ifpresent_eq e s c v :
  ser e (SIfPresent s) c v = if is_none v then Some [] else ser e s c v.
Proof. destruct v; reflexivity. Qed.

Lemma ser_typed_eq e k s en ct c v :
  ser e (STypedBytes k s en ct) c v =
  if en && is_none v then
    match k with TBTerm _ true => Some [] | _ => frame_ser e k [] end
  else match ser e s c v with Some buf => frame_ser e k buf | None => None end.
Proof. reflexivity. Qed.

Lemma frame_ser_ms e k buf out :
  frame_ser e k buf = Some out ->
  match k with TBArray ip => wN (ip_width ip) | TBFixed n => n | _ => 0 end <= N.of_nat (length out).
Proof.
  destruct k; cbn [frame_ser]; intros H; try lia.
  - apply ser_bytearray_length in H. rewrite H, <- wbytes_wN. lia.
  - apply ser_fixed_some in H as [-> H]. lia.
Qed.

(* ---------- min_size ---------- *)

Lemma ms_leaf e s : is_leaf s = true -> ms_at e s.
Proof.
  intros Hl c v b H. destruct s; try discriminate Hl; cbn [ser min_size] in *.
  - apply ser_prim_length in H. lia.
  - destruct v; try discriminate. apply ser_bytearray_length in H. rewrite H, <- wbytes_wN. lia.
  - destruct v; try discriminate. apply ser_fixed_some in H as [-> H]. lia.
  - lia.
  - destruct v; try discriminate. apply ser_term_length in H. rewrite H. destruct wt; lia.
  - destruct v; try discriminate.
    + apply ser_bytearray_length in H. rewrite H, <- wbytes_wN. lia.
    + destruct (utf8_ok b0); [|discriminate].
      apply ser_bytearray_length in H. rewrite H, <- wbytes_wN. lia.
  - destruct v; try discriminate.
    + destruct (n <? N.of_nat (length b0)) eqn:E; [discriminate|]. injection H as <-.
      rewrite pad_length by exact E. lia.
    + destruct (utf8_ok b0); [|discriminate].
      destruct (n <? N.of_nat (length b0)) eqn:E; [discriminate|]. injection H as <-.
      rewrite pad_length by exact E. lia.
  - destruct v; try discriminate. destruct (utf8_ok b0); [|discriminate].
    apply ser_term_length in H. rewrite H. destruct wt; lia.
  - destruct v; try discriminate;
      (destruct (N.of_nat (length b0) =? 16) eqn:E; [|discriminate]; injection H as <-; lia).
  - lia.
Qed.

Theorem min_size_bound e s : ms_at e s.
Proof.
  induction s using spec_ind'.
  - now apply ms_leaf.
  - intros c v b Hs. cbn [ser min_size] in *. destruct v; try discriminate.
    eapply ser_seq_ms; eassumption.
  - intros c v b Hs. cbn [ser min_size] in *. destruct v; try discriminate.
    eapply ser_fields_ms; eassumption.
  - intros c v b Hs. cbn [ser min_size] in *. destruct v as [| | | | | | | |vs|]; try discriminate.
    destruct k as [ip|m|].
    + destruct (ip_max ip <? Z.of_nat (length vs))%Z; [discriminate|].
      destruct (enc_int e ip (Z.of_nat (length vs))) as [h|] eqn:Eh; [|discriminate].
      destruct (ser_all (ser e s []) vs); [|discriminate]. injection Hs as <-.
      apply enc_int_length in Eh. rewrite app_length, Eh, <- wbytes_wN. lia.
    + destruct (negb (m =? 0) && negb (N.of_nat (length vs) =? m)) eqn:E; [discriminate|].
      pose proof (ser_all_ms _ (min_size s) _ _ (fun v b' => IHs [] v b') Hs) as Hb.
      destruct (m =? 0) eqn:Em.
      * apply N.eqb_eq in Em. subst m. lia.
      * cbn in E. apply negb_false_iff, N.eqb_eq in E. now rewrite <- E.
    + lia.
  - intros c v b Hs. rewrite ser_opt_eq in Hs. cbn [min_size].
    destruct (is_none v).
    + injection Hs as <-. cbn. lia.
    + destruct (ser e s c v); [|discriminate]. injection Hs as <-. cbn [length]. lia.
  - intros c v b Hs. cbn [ser min_size] in *.
    destruct (aenc a v); [|discriminate]. eapply IHs; eassumption.
  - intros c v b Hs. rewrite ser_typed_eq in Hs. cbn [min_size].
    destruct (en && is_none v).
    + destruct k; try lia; apply frame_ser_ms in Hs; exact Hs.
    + destruct (ser e s c v); [|discriminate]. apply frame_ser_ms in Hs.
      destruct k; try lia; exact Hs.
  - intros c v b Hs. cbn [min_size]. lia.
  - intros c v b Hs. cbn [min_size]. lia.
  - intros c v b Hs. cbn [ser min_size] in *.
    destruct v as [| | | | | | | |l|]; try discriminate.
    destruct l as [|t [|x [|? ?]]]; try discriminate.
    destruct (aenc_s (AEnum tbl strict) t) as [[z| | | | | | | | |]|]; try discriminate.
    destruct (enc_int e ip z) as [h|] eqn:Eh; [|discriminate].
    destruct (find_choice Z.eqb z (map (fun cs' => (fst cs', ser e (snd cs') c)) cs)) as [f|];
      [|discriminate].
    destruct (f x); [|discriminate]. injection Hs as <-.
    apply enc_int_length in Eh. rewrite app_length, Eh, <- wbytes_wN. lia.
  - intros c v b Hs. cbn [min_size]. lia.
  - intros c v b Hs. cbn [min_size]. lia.
  - intros c v b Hs. cbn [ser min_size] in *.
    destruct (ctx_key c f) as [k|]; [|discriminate].
    destruct (ctx_pick k opts) as [[a|]|]; try discriminate.
    + destruct (aenc_s a v); [|discriminate]. eapply IHs; eassumption.
    + eapply IHs; eassumption.
  - intros c v b Hs. cbn [ser min_size] in *.
    destruct v as [| | | | | | | | |kvs]; try discriminate.
    destruct (flag_or tbl (map (fun kv => VName (fst kv)) kvs)) as [z|]; [|discriminate].
    destruct (enc_int e ip z) as [h|] eqn:Eh; [|discriminate].
    destruct (ser_choices (map (fun c' => (fst (fst c'), ser e (snd c') c)) cs) kvs); [|discriminate].
    injection Hs as <-. apply enc_int_length in Eh. rewrite app_length, Eh, <- wbytes_wN. lia.
Qed.

(* ---------- calc_size / exact_size ---------- *)

Definition szg_at (g : spec -> option N) (e : bool) (s : spec) : Prop :=
  forall c v b n, g s = Some n -> ser e s c v = Some b -> N.of_nat (length b) = n.

Lemma sum_sizes_cons_some a l n :
  sum_sizes (a :: l) = Some n -> exists x y, a = Some x /\ sum_sizes l = Some y /\ n = x + y.
Proof.
  cbn. destruct a as [x|]; [|discriminate]. destruct (sum_sizes l) as [y|]; [|discriminate].
  intros H; injection H as <-. eauto.
Qed.

Lemma ser_seq_sz g e ss : Forall (szg_at g e) ss ->
  forall vs b n, sum_sizes (map g ss) = Some n ->
  ser_seq (map (fun s' => ser e s' []) ss) vs = Some b -> N.of_nat (length b) = n.
Proof.
  induction 1 as [|s ss Hs _ IH]; intros vs b n Hn H.
  - destruct vs; [|discriminate]. injection H as <-. cbn in Hn. injection Hn as <-. reflexivity.
  - destruct vs as [|v vs]; [discriminate|]. cbn [map ser_seq] in H. cbn [map] in Hn.
    apply sum_sizes_cons_some in Hn as (x & y & Hx & Hy & ->).
    destruct (ser e s [] v) as [b1|] eqn:E1; [|discriminate].
    destruct (ser_seq (map (fun s' => ser e s' []) ss) vs) as [b2|] eqn:E2; [|discriminate].
    injection H as <-. rewrite app_length, Nat2N.inj_add.
    rewrite (Hs _ _ _ _ Hx E1), (IH _ _ _ Hy E2). reflexivity.
Qed.

Lemma ser_fields_sz g e fs : Forall (fun f => szg_at g e (snd f)) fs ->
  forall full kvs b n, sum_sizes (map (fun f => g (snd f)) fs) = Some n ->
    ser_fields (map (fun f => (fst f, optional (snd f), ser e (snd f) full)) fs) kvs = Some b ->
    N.of_nat (length b) = n.
Proof.
  induction 1 as [|f fs Hs _ IH]; intros full kvs b n Hn H.
  - injection H as <-. cbn in Hn. injection Hn as <-. reflexivity.
  - cbn [map ser_fields] in H. cbn [map] in Hn.
    apply sum_sizes_cons_some in Hn as (x & y & Hx & Hy & ->).
    destruct (match lookup (fst f) kvs with
              | Some v => Some v
              | None => if optional (snd f) then Some VNone else None
              end) as [v|]; [|discriminate].
    destruct (ser e (snd f) full v) as [b1|] eqn:E1; [|discriminate].
    destruct (ser_fields (map (fun f0 => (fst f0, optional (snd f0), ser e (snd f0) full)) fs) kvs)
      as [b2|] eqn:E2; [|discriminate].
    injection H as <-. rewrite app_length, Nat2N.inj_add.
    rewrite (Hs _ _ _ _ Hx E1), (IH _ _ _ _ Hy E2). reflexivity.
Qed.

Theorem size_exact e s : szg_at calc_size e s.
Proof.
  induction s using spec_ind'; intros c v b n Hn Hs; cbn [calc_size] in Hn; try discriminate Hn.
  - destruct s; try discriminate H; cbn [calc_size] in Hn; try discriminate Hn;
      injection Hn as <-; cbn [ser] in Hs.
    + now apply ser_prim_length in Hs.
    + destruct v; try discriminate. now apply ser_fixed_some in Hs as [-> Hs].
    + destruct v; try discriminate;
        (destruct (N.of_nat (length b0) =? 16) eqn:E; [|discriminate]; injection Hs as <-; lia).
  - cbn [ser] in Hs. destruct v; try discriminate. eapply ser_seq_sz; eassumption.
  - destruct rc; [discriminate|].
    cbn [ser] in Hs. destruct v; try discriminate. eapply ser_fields_sz; eassumption.
  - cbn [ser] in Hs. destruct (aenc a v); [|discriminate]. eapply IHs; eassumption.
  - cbn [ser] in Hs. destruct (ctx_key c f); [|discriminate].
    destruct (ctx_pick o opts) as [[a|]|]; try discriminate.
    + destruct (aenc_s a v); [|discriminate]. eapply IHs; eassumption.
    + eapply IHs; eassumption.
Qed.

Theorem exact_size_ok e s : szg_at exact_size e s.
Proof.
  induction s using spec_ind'; intros c v b n Hn Hs; cbn [exact_size] in Hn; try discriminate Hn.
  - destruct s; try discriminate H; cbn [exact_size] in Hn; try discriminate Hn;
      injection Hn as <-; cbn [ser] in Hs.
    + now apply ser_prim_length in Hs.
    + destruct v; try discriminate. now apply ser_fixed_some in Hs as [-> Hs].
    + destruct v; try discriminate.
      * destruct (n0 <? N.of_nat (length b0)) eqn:E; [discriminate|]. injection Hs as <-.
        now apply pad_length.
      * destruct (utf8_ok b0); [|discriminate].
        destruct (n0 <? N.of_nat (length b0)) eqn:E; [discriminate|]. injection Hs as <-.
        now apply pad_length.
    + destruct v; try discriminate;
        (destruct (N.of_nat (length b0) =? 16) eqn:E; [|discriminate]; injection Hs as <-; lia).
    + injection Hs as <-. reflexivity.
  - cbn [ser] in Hs. destruct v; try discriminate. eapply ser_seq_sz; eassumption.
  - cbn [ser] in Hs. destruct v; try discriminate. eapply ser_fields_sz; eassumption.
  - cbn [ser] in Hs. destruct (aenc a v); [|discriminate]. eapply IHs; eassumption.
  - cbn [ser] in Hs. destruct (ctx_key c f); [|discriminate].
    destruct (ctx_pick o opts) as [[a|]|]; try discriminate.
    + destruct (aenc_s a v); [|discriminate]. eapply IHs; eassumption.
    + eapply IHs; eassumption.
Qed.
