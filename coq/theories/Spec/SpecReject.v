(* C08 - a value outside a length or range limit is rejected (ser = None), at the limit's own
   combinator and, by propagation through every container, at any depth. *)
From Coq Require Import NArith ZArith List Bool Lia ZifyBool ZifyNat ZifyN.
From HV Require Import Base.Bytes Spec.Spec Spec.SpecLemmas Spec.SpecSize.
Import ListNotations.
Open Scope N_scope.

Lemma reject_prim e ip c z :
  (z < ip_min ip \/ ip_max ip < z)%Z -> ser e (SPrim (PI ip)) c (VInt z) = None.
Proof. intros H. cbn. now apply enc_int_none. Qed.

Lemma reject_float_bits e c bits :
  (2 ^ 32 <= bits -> ser e (SPrim PF32) c (VF bits) = None) /\
  (2 ^ 64 <= bits -> ser e (SPrim PF64) c (VF bits) = None).
Proof.
  split; intros H; cbn [ser ser_prim].
  - destruct (bits <? 2 ^ 32) eqn:E; [lia|reflexivity].
  - destruct (bits <? 2 ^ 64) eqn:E; [lia|reflexivity].
Qed.

Lemma reject_bytearray e ip c b :
  (ip_max ip < Z.of_nat (length b))%Z -> ser e (SByteArray ip) c (VBytes b) = None.
Proof. intros H. cbn. now apply ser_bytearray_too_long. Qed.

Lemma reject_bytesfixed e n c b :
  N.of_nat (length b) <> n -> ser e (SBytesFixed n) c (VBytes b) = None.
Proof.
  intros H. cbn. unfold ser_fixed. destruct (N.of_nat (length b) =? n) eqn:E; [lia|reflexivity].
Qed.

Lemma reject_str e ip (nt : bool) c (b : bytes) :
  (ip_max ip < Z.of_nat (length b) + (if nt then 1 else 0))%Z -> ser e (SStr ip nt) c (VStr b) = None.
Proof.
  intros H. cbn. destruct (utf8_ok b); [|reflexivity].
  apply ser_bytearray_too_long. destruct nt; [rewrite app_length; cbn [length]|]; lia.
Qed.

Lemma reject_strfixed e n c b :
  n < N.of_nat (length b) -> ser e (SStrFixed n) c (VStr b) = None.
Proof.
  intros H. cbn. destruct (utf8_ok b); [|reflexivity].
  destruct (n <? N.of_nat (length b)) eqn:E; [reflexivity|lia].
Qed.

Lemma reject_uuid e c b :
  N.of_nat (length b) <> 16 -> ser e SUUID c (VUuid b) = None /\ ser e SUUID c (VUuidStr b) = None.
Proof.
  intros H. cbn. destruct (N.of_nat (length b) =? 16) eqn:E; [lia|]. auto.
Qed.

Lemma reject_coll_prefixed e ip s c vs :
  (ip_max ip < Z.of_nat (length vs))%Z -> ser e (SCollection (LPrefixed ip) s) c (VList vs) = None.
Proof.
  intros H. cbn. destruct (ip_max ip <? Z.of_nat (length vs))%Z eqn:E; [reflexivity|lia].
Qed.

Lemma reject_coll_fixed e m s c vs :
  m <> 0 -> N.of_nat (length vs) <> m -> ser e (SCollection (LFixed m) s) c (VList vs) = None.
Proof.
  intros Hm H. cbn.
  destruct (m =? 0) eqn:E1; [lia|]. destruct (N.of_nat (length vs) =? m) eqn:E2; [lia|]. reflexivity.
Qed.

Lemma ser_seq_arity fs vs b : ser_seq fs vs = Some b -> length fs = length vs.
Proof.
  revert vs b; induction fs as [|f fs IH]; intros [|v vs] b H; try discriminate; [reflexivity|].
  cbn in H. destruct (f v); [|discriminate]. destruct (ser_seq fs vs) eqn:E; [|discriminate].
  cbn. f_equal. eapply IH; eassumption.
Qed.

Lemma reject_tuple_arity e ss c vs :
  length vs <> length ss -> ser e (STuple ss) c (VList vs) = None.
Proof.
  intros H. cbn. destruct (ser_seq (map (fun s' => ser e s' []) ss) vs) eqn:E; [|reflexivity].
  apply ser_seq_arity in E. rewrite map_length in E. congruence.
Qed.

(* ---------- propagation ---------- *)

Lemma reject_tuple_member e ss c vs i s v :
  nth_error ss i = Some s -> nth_error vs i = Some v -> ser e s [] v = None ->
  ser e (STuple ss) c (VList vs) = None.
Proof.
  intros Hs Hv Hn. cbn. revert ss vs Hs Hv.
  induction i as [|i IH]; intros [|s0 ss] [|v0 vs] Hs Hv; try discriminate.
  - injection Hs as ->. injection Hv as ->. cbn. now rewrite Hn.
  - cbn in Hs, Hv. cbn [map ser_seq]. rewrite (IH ss vs Hs Hv).
    destruct (ser e s0 [] v0); reflexivity.
Qed.

Lemma ser_all_member f vs v : In v vs -> f v = None -> ser_all f vs = None.
Proof.
  induction vs as [|x vs IH]; intros Hin Hf; [contradiction|].
  cbn. destruct Hin as [->|Hin].
  - now rewrite Hf.
  - rewrite (IH Hin Hf). destruct (f x); reflexivity.
Qed.

Lemma reject_coll_member e k s c vs v :
  In v vs -> ser e s [] v = None -> ser e (SCollection k s) c (VList vs) = None.
Proof.
  intros Hin Hn. cbn. rewrite (ser_all_member _ _ _ Hin Hn).
  destruct k.
  - destruct (ip_max ip <? Z.of_nat (length vs))%Z; [reflexivity|].
    destruct (enc_int e ip (Z.of_nat (length vs))); reflexivity.
  - destruct (negb (n =? 0) && negb (N.of_nat (length vs) =? n)); reflexivity.
  - reflexivity.
Qed.

Lemma reject_template_member e fs skip rc c kvs f v :
  In f fs -> lookup (fst f) kvs = Some v -> ser e (snd f) kvs v = None ->
  ser e (STemplate fs skip rc) c (VDict kvs) = None.
Proof.
  intros Hin Hl Hn. cbn. induction fs as [|f0 fs IH]; [contradiction|].
  cbn [map ser_fields]. destruct Hin as [->|Hin].
  - rewrite Hl, Hn. reflexivity.
  - rewrite (IH Hin).
    destruct (match lookup (fst f0) kvs with
              | Some v0 => Some v0
              | None => if optional (snd f0) then Some VNone else None
              end); [|reflexivity].
    destruct (ser e (snd f0) kvs v0); reflexivity.
Qed.

Lemma reject_opt_member e s c v :
  v <> VNone -> ser e s c v = None -> ser e (SOptPrefixed s) c v = None.
Proof.
  intros Hv Hn. rewrite ser_opt_eq, Hn. destruct v; try reflexivity. contradiction.
Qed.

Lemma reject_adapter_member e a s c v v' :
  aenc a v = Some v' -> ser e s c v' = None -> ser e (SAdapter a s) c v = None.
Proof. intros Ha Hn. cbn. now rewrite Ha. Qed.

Lemma reject_typed_member e k s en ct c v :
  v <> VNone -> ser e s c v = None -> ser e (STypedBytes k s en ct) c v = None.
Proof.
  intros Hv Hn. rewrite ser_typed_eq, Hn.
  replace (en && is_none v) with false; [reflexivity|].
  destruct v; try (now rewrite andb_false_r). contradiction.
Qed.

(* the frame of a typed-bytes wrapper rejects an inner encoding that does not fit *)
Lemma reject_typed_frame e k s en ct c v buf :
  (en && is_none v) = false -> ser e s c v = Some buf ->
  match k with
  | TBArray ip => (ip_max ip < Z.of_nat (length buf))%Z
  | TBFixed n => N.of_nat (length buf) <> n
  | _ => False
  end ->
  ser e (STypedBytes k s en ct) c v = None.
Proof.
  intros Hen Hs Hk. rewrite ser_typed_eq, Hen, Hs. destruct k; try contradiction; cbn [frame_ser].
  - now apply ser_bytearray_too_long.
  - unfold ser_fixed. destruct (N.of_nat (length buf) =? n) eqn:E; [lia|reflexivity].
Qed.

(* ---------- calc_size ---------- *)

Lemma sum_sizes_none l : sum_sizes l = None <-> In None l.
Proof.
  induction l as [|a l IH]; cbn.
  - split; [discriminate|contradiction].
  - destruct a as [x|].
    + destruct (sum_sizes l).
      * split; [discriminate|]. intros [H|H]; [discriminate|]. apply IH in H. discriminate.
      * split; [intros _; right; now apply IH|reflexivity].
    + split; [now left|reflexivity].
Qed.

(* Tuple.calc_size: "no fixed size if any of our members doesn't have one" - and never an error *)
Lemma calc_size_tuple_none ss :
  calc_size (STuple ss) = None <-> exists s, In s ss /\ calc_size s = None.
Proof.
  cbn [calc_size]. rewrite sum_sizes_none, in_map_iff. split.
  - intros (s & H & Hin). eauto.
  - intros (s & Hin & H). eauto.
Qed.
