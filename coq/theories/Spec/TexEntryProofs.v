(* Proofs about Spec/TexEntry.v (TextureEntry exception-field codec). Stdlib only. *)
From Coq Require Import NArith List Bool Lia ZifyBool ZifyNat ZifyN Arith.
From HV Require Import Spec.TexEntry.
Import ListNotations.
Open Scope N_scope.

(* ------------------------------------------------------------------ *)
(* 7-bit groups: bit operations as arithmetic                          *)

Lemma land127 p : N.land p 127 = p mod 128.
Proof. change 127 with (N.ones 7). rewrite N.land_ones. reflexivity. Qed.

Lemma shiftr7 p : N.shiftr p 7 = p / 128.
Proof. rewrite N.shiftr_div_pow2. reflexivity. Qed.

Lemma shiftl7 p : N.shiftl p 7 = p * 128.
Proof. rewrite N.shiftl_mul_pow2. reflexivity. Qed.

Lemma below128_cases (P : N -> Prop) :
  (forall n, (n < 128)%nat -> P (N.of_nat n)) -> forall g, g < 128 -> P g.
Proof.
  intros H g Hg. rewrite <- (N2Nat.id g). apply H. lia.
Qed.

Lemma forall_below_nat (P : nat -> bool) k :
  forallb P (seq 0 k) = true -> forall n, (n < k)%nat -> P n = true.
Proof.
  intros H n Hn. rewrite forallb_forall in H. apply H. apply in_seq. lia.
Qed.

Lemma group_bits g : g < 128 ->
  N.land g 127 = g /\ N.land g 128 = 0 /\ N.land (N.lor g 128) 127 = g /\ N.land (N.lor g 128) 128 = 128
  /\ N.lor g 128 <> 0 /\ N.lor g 128 < 256.
Proof.
  revert g. apply below128_cases. intros n Hn.
  pose (P := fun n => let g := N.of_nat n in
      (N.land g 127 =? g) && (N.land g 128 =? 0) && (N.land (N.lor g 128) 127 =? g)
      && (N.land (N.lor g 128) 128 =? 128) && negb (N.lor g 128 =? 0) && (N.lor g 128 <? 256)).
  assert (HP : P n = true) by (apply (forall_below_nat P 128); [vm_compute; reflexivity | exact Hn]).
  unfold P in HP. cbv zeta in HP.
  repeat (apply andb_prop in HP; destruct HP as [HP ?]).
  repeat split; lia.
Qed.

Lemma lor_low acc g : g < 128 -> N.lor (acc * 128) g = acc * 128 + g.
Proof.
  intros Hg.
  assert (Hl : N.land (acc * 128) g = 0).
  { apply N.bits_inj. intros i. rewrite N.land_spec, N.bits_0.
    destruct (N.ltb_spec i 7) as [Hi|Hi].
    - replace (acc * 128) with (acc * 2 ^ 7) by reflexivity.
      rewrite N.mul_pow2_bits_low by exact Hi. reflexivity.
    - assert (Hg0 : N.testbit g i = false).
      { destruct (N.eq_dec g 0) as [->|Hn]; [apply N.bits_0|].
        apply N.bits_above_log2. apply N.lt_le_trans with 7; [|exact Hi].
        apply N.log2_lt_pow2; [lia|]. exact Hg. }
      rewrite Hg0. apply andb_false_r. }
  rewrite <- N.lxor_lor by exact Hl. symmetry. apply N.add_nocarry_lxor. exact Hl.
Qed.

(* big-endian value of a group list, starting from an accumulator *)
Fixpoint be_val (acc : N) (gs : list N) : N :=
  match gs with [] => acc | g :: r => be_val (acc * 128 + g) r end.

Fixpoint le_val (gs : list N) : N :=
  match gs with [] => 0 | g :: r => g + 128 * le_val r end.

Lemma be_val_app acc l g : be_val acc (l ++ [g]) = be_val acc l * 128 + g.
Proof. revert acc; induction l as [|x l IH]; intros acc; cbn; [reflexivity|apply IH]. Qed.

Lemma be_val_rev l : be_val 0 (rev l) = le_val l.
Proof.
  induction l as [|g l IH]; [reflexivity|].
  cbn [rev le_val]. rewrite be_val_app, IH. lia.
Qed.

(* the decoder with an un-shifted accumulator *)
Lemma dec_bits_emit acc gs rest :
  gs <> [] -> Forall (fun g => g < 128) gs ->
  dec_bits (acc * 128) (emit_groups gs ++ rest) = Some (be_val acc gs, rest).
Proof.
  revert acc. induction gs as [|g gs IH]; intros acc Hne Hall; [congruence|].
  inversion Hall as [|? ? Hg Hall']; subst.
  destruct (group_bits g Hg) as (B1 & B2 & B3 & B4 & _).
  destruct gs as [|g' gs'].
  - cbn [emit_groups app dec_bits be_val]. rewrite B1, B2. cbn [N.eqb].
    rewrite lor_low by exact Hg. reflexivity.
  - change (emit_groups (g :: g' :: gs')) with (N.lor g 128 :: emit_groups (g' :: gs')).
    cbn [app dec_bits]. rewrite B3, B4. cbn [N.eqb Pos.eqb].
    rewrite lor_low by exact Hg. rewrite shiftl7.
    cbn [be_val]. apply IH; [congruence|exact Hall'].
Qed.

(* number of binary digits *)
Lemma size_nat_div2 n : N.size_nat (N.div2 n) = pred (N.size_nat n).
Proof. destruct n as [|[p|p|]]; reflexivity. Qed.

Lemma shiftr7_div2 n : N.shiftr n 7 = N.div2 (N.div2 (N.div2 (N.div2 (N.div2 (N.div2 (N.div2 n)))))).
Proof. reflexivity. Qed.

Lemma size_nat_shiftr7 n : n <> 0 -> (N.size_nat (N.shiftr n 7) < N.size_nat n)%nat.
Proof.
  intros Hn. rewrite shiftr7_div2. rewrite !size_nat_div2.
  assert (0 < N.size_nat n)%nat by (destruct n as [|[p|p|]]; cbn; lia).
  lia.
Qed.

Lemma groups_le_spec fuel p : (N.size_nat p <= fuel)%nat ->
  le_val (groups_le fuel p) = p
  /\ Forall (fun g => g < 128) (groups_le fuel p)
  /\ (p <> 0 -> groups_le fuel p <> [] /\ last (groups_le fuel p) 0 <> 0).
Proof.
  revert p. induction fuel as [|k IH]; intros p Hf.
  - assert (p = 0) by (destruct p as [|[q|q|]]; cbn in Hf; [reflexivity|lia..]). subst.
    cbn. repeat split; try constructor; congruence.
  - cbn [groups_le]. destruct (N.eqb_spec p 0) as [->|Hp].
    + cbn. repeat split; try constructor; congruence.
    + assert (Hs : (N.size_nat (N.shiftr p 7) <= k)%nat) by (pose proof (size_nat_shiftr7 p Hp); lia).
      destruct (IH _ Hs) as (I1 & I2 & I3).
      rewrite land127. rewrite shiftr7 in *.
      assert (Hm : p mod 128 < 128) by (apply N.mod_lt; lia).
      repeat split.
      * cbn [le_val]. rewrite I1. pose proof (N.div_mod p 128 ltac:(lia)). lia.
      * constructor; assumption.
      * congruence.
      * destruct (N.eq_dec (p / 128) 0) as [Hz|Hnz].
        -- rewrite Hz in *. destruct k; cbn [groups_le]; cbn [N.eqb last];
             (pose proof (N.div_mod p 128 ltac:(lia)); lia).
        -- destruct (I3 Hnz) as [Hne Hl].
           destruct (groups_le k (p / 128)) eqn:E; [congruence|]. exact Hl.
Qed.

Lemma char_arr_spec p :
  be_val 0 (char_arr p) = p /\ Forall (fun g => g < 128) (char_arr p)
  /\ (p <> 0 -> exists g r, char_arr p = g :: r /\ g <> 0).
Proof.
  unfold char_arr. destruct (groups_le_spec (N.size_nat p) p (le_n _)) as (H1 & H2 & H3).
  repeat split.
  - rewrite be_val_rev. exact H1.
  - apply Forall_rev. exact H2.
  - intros Hp. destruct (H3 Hp) as [Hne Hl].
    destruct (groups_le (N.size_nat p) p) as [|x l] eqn:E using rev_ind; [congruence|].
    rewrite rev_app_distr. cbn. exists x, (rev l). split; [reflexivity|].
    rewrite last_last in Hl. exact Hl.
Qed.

Lemma char_arr_0 : char_arr 0 = [].
Proof. reflexivity. Qed.

(* ------------------------------------------------------------------ *)
(* face lists and bit sets                                             *)

Lemma pack_faces_bits faces i :
  N.testbit (pack_faces faces) i = existsb (N.eqb i) faces.
Proof.
  unfold pack_faces.
  assert (G : forall acc, N.testbit (fold_left (fun packed face => N.lor packed (N.shiftl 1 face)) faces acc) i
                          = N.testbit acc i || existsb (N.eqb i) faces).
  { induction faces as [|f r IH]; intros acc; cbn [fold_left existsb].
    - now rewrite orb_false_r.
    - rewrite IH, N.lor_spec, N.shiftl_1_l, N.pow2_bits_eqb.
      rewrite (N.eqb_sym f i). now rewrite orb_assoc. }
  rewrite G, N.bits_0. reflexivity.
Qed.

Lemma pack_faces_nonzero faces : faces <> [] -> pack_faces faces <> 0.
Proof.
  destruct faces as [|f r]; [congruence|]. intros _ H.
  pose proof (pack_faces_bits (f :: r) f) as B. rewrite H, N.bits_0 in B.
  cbn [existsb] in B. rewrite N.eqb_refl in B. discriminate.
Qed.

Lemma faces_pos_spec p k i :
  In i (faces_pos p k) <-> exists j, i = k + j /\ N.testbit (Npos p) j = true.
Proof.
  revert k. induction p as [q IH|q IH|]; intros k; cbn [faces_pos In].
  - rewrite IH. split.
    + intros [<-|(j & -> & Hj)].
      * exists 0. split; [lia|reflexivity].
      * exists (N.succ j). split; [lia|]. rewrite N.testbit_succ_r_div2 by lia. exact Hj.
    + intros (j & -> & Hj). destruct (N.eq_dec j 0) as [->|Hn]; [left; lia|right].
      exists (N.pred j). split; [lia|].
      replace j with (N.succ (N.pred j)) in Hj by lia. rewrite N.testbit_succ_r_div2 in Hj by lia. exact Hj.
  - rewrite IH. split.
    + intros (j & -> & Hj). exists (N.succ j). split; [lia|]. rewrite N.testbit_succ_r_div2 by lia. exact Hj.
    + intros (j & -> & Hj). destruct (N.eq_dec j 0) as [->|Hn]; [discriminate|].
      exists (N.pred j). split; [lia|].
      replace j with (N.succ (N.pred j)) in Hj by lia. rewrite N.testbit_succ_r_div2 in Hj by lia. exact Hj.
  - split.
    + intros [<-|[]]. exists 0. split; [lia|reflexivity].
    + intros (j & -> & Hj). destruct j as [|j]; [left; lia|discriminate].
Qed.

Lemma faces_pos_inc p k : inc_from k (faces_pos p k) = true.
Proof.
  assert (G : forall p k lo, lo <= k -> inc_from lo (faces_pos p k) = true).
  { clear. induction p as [q IH|q IH|]; intros k lo Hlo; cbn [faces_pos inc_from].
    - rewrite IH by lia. replace (lo <=? k) with true by lia. reflexivity.
    - apply IH. lia.
    - replace (lo <=? k) with true by lia. reflexivity. }
  apply G. lia.
Qed.

Lemma faces_of_spec v i : In i (faces_of v) <-> N.testbit v i = true.
Proof.
  destruct v as [|p]; cbn [faces_of].
  - rewrite N.bits_0. split; [intros []|discriminate].
  - rewrite faces_pos_spec. split.
    + intros (j & -> & Hj). exact Hj.
    + intros H. exists i. split; [lia|exact H].
Qed.

Lemma faces_of_inc v : inc_from 0 (faces_of v) = true.
Proof. destruct v as [|p]; [reflexivity|apply faces_pos_inc]. Qed.

Lemma faces_of_nil v : faces_of v = [] <-> v = 0.
Proof.
  split; [|intros ->; reflexivity].
  destruct v as [|p]; [reflexivity|]. cbn [faces_of]. intros H. exfalso.
  clear -H. revert H. generalize 0. induction p as [q IH|q IH|]; intros k; cbn [faces_pos]; try discriminate. apply IH.
Qed.

Lemma inc_from_lb lo l x : inc_from lo l = true -> In x l -> lo <= x.
Proof.
  revert lo. induction l as [|a r IH]; intros lo H Hin; [destruct Hin|].
  cbn [inc_from] in H. apply andb_prop in H as [H1 H2].
  destruct Hin as [<-|Hin]; [lia|]. specialize (IH _ H2 Hin). lia.
Qed.

Lemma inc_from_ext lo l1 l2 :
  inc_from lo l1 = true -> inc_from lo l2 = true -> (forall i, In i l1 <-> In i l2) -> l1 = l2.
Proof.
  revert lo l2. induction l1 as [|a r IH]; intros lo l2 H1 H2 Hext.
  - destruct l2 as [|b r2]; [reflexivity|]. exfalso. apply (proj2 (Hext b)). left; reflexivity.
  - destruct l2 as [|b r2]; [exfalso; apply (proj1 (Hext a)); left; reflexivity|].
    cbn [inc_from] in H1, H2. apply andb_prop in H1 as [H1a H1r]. apply andb_prop in H2 as [H2b H2r].
    assert (Hab : a = b).
    { destruct (proj1 (Hext a) (or_introl eq_refl)) as [E|Hin]; [congruence|].
      destruct (proj2 (Hext b) (or_introl eq_refl)) as [E|Hin']; [congruence|].
      pose proof (inc_from_lb _ _ _ H2r Hin). pose proof (inc_from_lb _ _ _ H1r Hin'). lia. }
    subst b. f_equal. apply (IH (a + 1)); try assumption.
    intros i. split; intros Hi.
    + destruct (proj1 (Hext i) (or_intror Hi)) as [E|Hin]; [|exact Hin].
      subst i. pose proof (inc_from_lb _ _ _ H1r Hi). lia.
    + destruct (proj2 (Hext i) (or_intror Hi)) as [E|Hin]; [|exact Hin].
      subst i. pose proof (inc_from_lb _ _ _ H2r Hi). lia.
Qed.

Lemma inc_from_weaken lo lo' l : lo' <= lo -> inc_from lo l = true -> inc_from lo' l = true.
Proof.
  destruct l as [|a r]; [reflexivity|]. cbn [inc_from]. intros Hl H.
  apply andb_prop in H as [H1 H2]. rewrite H2. replace (lo' <=? a) with true by lia. reflexivity.
Qed.

Lemma faces_of_pack faces : inc_from 0 faces = true -> faces_of (pack_faces faces) = faces.
Proof.
  intros H. apply (inc_from_ext 0); [apply faces_of_inc|exact H|].
  intros i. rewrite faces_of_spec, pack_faces_bits, existsb_exists. split.
  - intros (x & Hx & E). apply N.eqb_eq in E. now subst.
  - intros Hi. exists i. split; [exact Hi|apply N.eqb_refl].
Qed.

(* the tuple the decoder returns for an arbitrary face tuple: its sorted set *)
Definition norm_faces (faces : list N) : list N := faces_of (pack_faces faces).

Lemma norm_faces_spec faces i : In i (norm_faces faces) <-> In i faces.
Proof.
  unfold norm_faces. rewrite faces_of_spec, pack_faces_bits, existsb_exists. split.
  - intros (x & Hx & E). apply N.eqb_eq in E. now subst.
  - intros Hi. exists i. split; [exact Hi|apply N.eqb_refl].
Qed.

(* ------------------------------------------------------------------ *)
(* bitfield theorems                                                   *)

Theorem bitfield_general faces rest : faces <> [] ->
  dec_bitfield (enc_bitfield faces ++ rest) = Some (norm_faces faces, rest).
Proof.
  intros Hne. unfold dec_bitfield, enc_bitfield.
  pose proof (pack_faces_nonzero faces Hne) as Hp.
  destruct (char_arr_spec (pack_faces faces)) as (H1 & H2 & H3).
  destruct (H3 Hp) as (g & r & E & _).
  change 0 with (0 * 128) at 1.
  rewrite dec_bits_emit; [|rewrite E; congruence|exact H2].
  rewrite H1. reflexivity.
Qed.

Theorem bitfield_roundtrip faces rest : canonical_faces faces = true ->
  dec_bitfield (enc_bitfield faces ++ rest) = Some (faces, rest).
Proof.
  intros H. destruct faces as [|f r]; [discriminate|]. cbn [canonical_faces] in H.
  rewrite bitfield_general by congruence. unfold norm_faces. rewrite faces_of_pack by exact H. reflexivity.
Qed.

Lemma emit_groups_head g r : g <> 0 -> g < 128 -> exists b t, emit_groups (g :: r) = b :: t /\ b <> 0.
Proof.
  intros Hg Hlt. destruct r as [|g' r'].
  - exists g, []. split; [reflexivity|exact Hg].
  - exists (N.lor g 128), (emit_groups (g' :: r')). split; [reflexivity|].
    destruct (group_bits g Hlt) as (_ & _ & _ & _ & B5 & _). exact B5.
Qed.

(* an encoded non-empty face set never starts with the terminator byte *)
Theorem bitfield_head_nonzero faces : faces <> [] ->
  exists b t, enc_bitfield faces = b :: t /\ b <> 0.
Proof.
  intros Hne. unfold enc_bitfield.
  pose proof (pack_faces_nonzero faces Hne) as Hp.
  destruct (char_arr_spec (pack_faces faces)) as (_ & H2 & H3).
  destruct (H3 Hp) as (g & r & E & Hg). rewrite E.
  rewrite E in H2. inversion H2; subst. apply emit_groups_head; assumption.
Qed.

Lemma emit_groups_ok gs : Forall (fun g => g < 128) gs -> Forall (fun b => b < 256) (emit_groups gs).
Proof.
  induction gs as [|g r IH]; intros H; [constructor|].
  inversion H as [|? ? Hg Hr]; subst. destruct r as [|g' r'].
  - constructor; [lia|constructor].
  - change (emit_groups (g :: g' :: r')) with (N.lor g 128 :: emit_groups (g' :: r')).
    constructor; [|apply IH; exact Hr].
    destruct (group_bits g Hg) as (_ & _ & _ & _ & _ & B6). exact B6.
Qed.

Theorem bitfield_bytes_ok faces : Forall (fun b => b < 256) (enc_bitfield faces).
Proof.
  unfold enc_bitfield. apply emit_groups_ok.
  destruct (char_arr_spec (pack_faces faces)) as (_ & H2 & _). exact H2.
Qed.

(* the empty face tuple writes no byte at all *)
Theorem bitfield_empty_writes_nothing : enc_bitfield [] = [].
Proof. reflexivity. Qed.

(* what the decoder returns is always a canonical tuple or the empty one *)
Theorem dec_bitfield_canonical bs faces r :
  dec_bitfield bs = Some (faces, r) -> inc_from 0 faces = true.
Proof.
  unfold dec_bitfield. destruct (dec_bits 0 bs) as [[v r']|]; [|discriminate].
  intros H. inversion H; subst. apply faces_of_inc.
Qed.

Lemma dec_bits_shorter v bs v' r : dec_bits v bs = Some (v', r) -> (length r < length bs)%nat.
Proof.
  revert v. induction bs as [|c t IH]; intros v H; [discriminate|].
  cbn [dec_bits] in H. destruct (N.land c 128 =? 0).
  - inversion H; subst. cbn. lia.
  - apply IH in H. cbn. lia.
Qed.

Lemma dec_bitfield_shorter bs faces r : dec_bitfield bs = Some (faces, r) -> (length r < length bs)%nat.
Proof.
  unfold dec_bitfield. destruct (dec_bits 0 bs) as [[v r']|] eqn:E; [|discriminate].
  intros H. inversion H; subst. eapply dec_bits_shorter; eassumption.
Qed.

(* ------------------------------------------------------------------ *)
(* one exception field                                                 *)

Lemma faces_eqb_spec a b : faces_eqb a b = true <-> a = b.
Proof.
  revert b. induction a as [|x a IH]; intros [|y b]; cbn [faces_eqb]; split; intros H; try congruence; try discriminate.
  - apply andb_prop in H as [H1 H2]. apply N.eqb_eq in H1. apply IH in H2. congruence.
  - inversion H; subst. rewrite N.eqb_refl. cbn. now apply IH.
Qed.

Definition tail_ok (t : bytes) : Prop := t = [] \/ exists t', t = 0 :: t'.

Section FieldProofs.
  Variable A : Type.

  Definition codec_rt (c : codec A) (P : A -> Prop) : Prop :=
    forall a r, P a -> dec c (enc c a ++ r) = Some (a, r).

  Definition excs_dom (P : A -> Prop) (e : excs A) : Prop :=
    Forall (fun fa => canonical_faces (fst fa) = true /\ P (snd fa)) e /\ NoDup (map fst e).

  Lemma dict_set_fresh k a (d : excs A) : ~ In k (map fst d) -> dict_set k a d = d ++ [(k, a)].
  Proof.
    induction d as [|[k' a'] d IH]; intros Hn; [reflexivity|].
    cbn [dict_set]. destruct (faces_eqb k k') eqn:E.
    - apply faces_eqb_spec in E. subst. exfalso. apply Hn. left; reflexivity.
    - cbn [app]. f_equal. apply IH. intros Hin. apply Hn. right; exact Hin.
  Qed.

  Lemma dict_set_keys k a (d : excs A) :
    map fst (dict_set k a d) = if existsb (faces_eqb k) (map fst d) then map fst d else map fst d ++ [k].
  Proof.
    induction d as [|[k' a'] d IH]; [reflexivity|].
    cbn [dict_set map existsb fst]. destruct (faces_eqb k k') eqn:E; cbn [orb map fst]; [reflexivity|].
    rewrite IH. destruct (existsb (faces_eqb k) (map fst d)); reflexivity.
  Qed.

  Lemma dict_set_in k a (d : excs A) x :
    In x (dict_set k a d) -> In x d \/ snd x = a /\ (fst x = k \/ In (fst x) (map fst d)).
  Proof.
    induction d as [|[k' a'] d IH]; cbn [dict_set].
    - intros [<-|[]]. right. cbn. auto.
    - destruct (faces_eqb k k') eqn:E.
      + intros [<-|Hin]; [|left; right; exact Hin]. right. cbn. auto.
      + intros [<-|Hin]; [left; left; reflexivity|].
        destruct (IH Hin) as [H|[H1 [H2|H2]]]; [left; right; exact H|right; auto|right; cbn; auto].
  Qed.

  Lemma canonical_nonempty f : canonical_faces f = true -> f <> [].
  Proof. destruct f; [discriminate|congruence]. Qed.

  Lemma enc_excs_length c (e : excs A) :
    Forall (fun fa => canonical_faces (fst fa) = true) e -> (length e <= length (enc_excs c e))%nat.
  Proof.
    induction e as [|[f a] e IH]; intros H; [cbn; lia|].
    inversion H as [|? ? Hf He]; subst. cbn [enc_excs flat_map fst snd length].
    destruct (bitfield_head_nonzero f (canonical_nonempty f Hf)) as (b & t & E & _).
    rewrite E. cbn [app length]. rewrite !app_length. specialize (IH He). unfold enc_excs in IH. lia.
  Qed.

  Lemma dec_bitfield_terminator t : dec_bitfield (0 :: t) = Some ([], t).
  Proof. reflexivity. Qed.

  Lemma dec_excs_rt c (P : A -> Prop) : codec_rt c P ->
    forall e acc fuel tail,
      Forall (fun fa => canonical_faces (fst fa) = true /\ P (snd fa)) e ->
      NoDup (map fst acc ++ map fst e) -> (length e < fuel)%nat -> tail_ok tail ->
      dec_excs c fuel acc (enc_excs c e ++ tail) = Some (acc ++ e, tl tail).
  Proof.
    intros Hrt. induction e as [|[f a] e IH]; intros acc fuel tail Hall Hnd Hfuel Htail.
    - destruct fuel as [|k]; [cbn in Hfuel; lia|]. cbn [enc_excs flat_map app dec_excs].
      rewrite app_nil_r. destruct Htail as [->|[t' ->]]; [reflexivity|].
      rewrite dec_bitfield_terminator. reflexivity.
    - destruct fuel as [|k]; [cbn in Hfuel; lia|].
      inversion Hall as [|? ? [Hf Ha] Hall']; subst. cbn [fst snd] in *.
      cbn [enc_excs flat_map fst snd]. fold (enc_excs c e).
      rewrite <- !app_assoc.
      pose proof (canonical_nonempty f Hf) as Hne.
      destruct (bitfield_head_nonzero f Hne) as (b & t & E & _).
      cbn [dec_excs].
      destruct (enc_bitfield f ++ enc c a ++ enc_excs c e ++ tail) as [|x xs] eqn:EE.
      { rewrite E in EE. discriminate. }
      rewrite <- EE. rewrite bitfield_roundtrip by exact Hf.
      destruct f as [|f0 fr]; [congruence|].
      rewrite Hrt by exact Ha.
      assert (Hfresh : ~ In (f0 :: fr) (map fst acc)).
      { cbn [map fst] in Hnd. apply NoDup_remove_2 in Hnd. intros Hin. apply Hnd. apply in_or_app. left; exact Hin. }
      rewrite dict_set_fresh by exact Hfresh.
      rewrite IH; [rewrite <- app_assoc; reflexivity|exact Hall'| |cbn [length] in Hfuel; lia|exact Htail].
      rewrite map_app. cbn [map fst]. rewrite <- app_assoc. cbn [app].
      cbn [map fst] in Hnd. exact Hnd.
  Qed.

  (* TEExceptionField.deserialize inverts the body written by serialize when the field is
     followed by the end of the window or by a NUL (which it consumes) *)
  Theorem field_rt c (P : A -> Prop) optional d (e : excs A) tail :
    codec_rt c P -> P d -> excs_dom P e -> (optional = true -> enc c d <> []) -> tail_ok tail ->
    dec_field c optional (enc_body c (d, e) ++ tail) = Some (Some (d, e), tl tail).
  Proof.
    intros Hrt Hd [Hall Hnd] Hne Htail. unfold dec_field, enc_body. cbn [fst snd].
    assert (Hnil : optional && nilb ((enc c d ++ enc_excs c e) ++ tail) = false).
    { destruct optional; [|reflexivity]. cbn [andb].
      destruct (enc c d) as [|x xs] eqn:E; [exfalso; now apply Hne|reflexivity]. }
    rewrite Hnil. rewrite <- app_assoc. rewrite Hrt by exact Hd.
    rewrite (dec_excs_rt c P Hrt e [] _ tail Hall); [reflexivity|exact Hnd| |exact Htail].
    rewrite app_length.
    assert (Hl : Forall (fun fa => canonical_faces (fst fa) = true) e).
    { eapply Forall_impl; [|exact Hall]. intros x [H _]. exact H. }
    pose proof (enc_excs_length c e Hl). lia.
  Qed.

  (* ---- what the decoder returns is always inside the round-trip domain ---- *)

  Definition codec_sound (c : codec A) (P : A -> Prop) : Prop :=
    forall b a r, dec c b = Some (a, r) -> P a.

  Lemma existsb_faces_in k ks : existsb (faces_eqb k) ks = true <-> In k ks.
  Proof.
    rewrite existsb_exists. split.
    - intros (x & Hx & E). apply faces_eqb_spec in E. now subst.
    - intros H. exists k. split; [exact H|now apply faces_eqb_spec].
  Qed.

  Lemma dict_set_dom (P : A -> Prop) k a (d : excs A) :
    canonical_faces k = true -> P a -> excs_dom P d -> excs_dom P (dict_set k a d).
  Proof.
    intros Hk Ha [Hall Hnd]. split.
    - apply Forall_forall. intros x Hx. rewrite Forall_forall in Hall.
      destruct (dict_set_in k a d x Hx) as [Hin|[Hs [Hf|Hf]]].
      + apply Hall, Hin.
      + rewrite Hs, Hf. split; assumption.
      + apply in_map_iff in Hf as (y & Ey & Hy). destruct (Hall y Hy) as [Hc _].
        rewrite Hs, <- Ey. split; assumption.
    - rewrite dict_set_keys. destruct (existsb (faces_eqb k) (map fst d)) eqn:E; [exact Hnd|].
      assert (Hn : ~ In k (map fst d)).
      { intros Hin. apply existsb_faces_in in Hin. congruence. }
      clear E. revert Hnd Hn. generalize (map fst d). intros l. induction l as [|x l IH]; intros Hnd Hn.
      + constructor; [intros []|constructor].
      + inversion Hnd; subst. cbn [app]. constructor.
        * intros Hin. apply in_app_or in Hin as [Hin|[<-|[]]]; [contradiction|]. apply Hn. left; reflexivity.
        * apply IH; [assumption|]. intros Hin. apply Hn. right; exact Hin.
  Qed.

  Lemma dec_excs_dom c (P : A -> Prop) : codec_sound c P ->
    forall fuel acc bs e r, excs_dom P acc -> dec_excs c fuel acc bs = Some (e, r) -> excs_dom P e.
  Proof.
    intros Hs. induction fuel as [|k IH]; intros acc bs e r Hacc H; [discriminate|].
    cbn [dec_excs] in H. destruct bs as [|x xs]; [inversion H; subst; exact Hacc|].
    destruct (dec_bitfield (x :: xs)) as [[faces r1]|] eqn:EB; [|discriminate].
    destruct faces as [|f0 fr]; [inversion H; subst; exact Hacc|].
    destruct (dec c r1) as [[a r2]|] eqn:ED; [|discriminate].
    apply (IH _ _ _ _ (dict_set_dom P (f0 :: fr) a acc
                        (dec_bitfield_canonical _ _ _ EB) (Hs _ _ _ ED) Hacc) H).
  Qed.

  Lemma dec_field_some c (P : A -> Prop) optional bs d e r : codec_sound c P ->
    dec_field c optional bs = Some (Some (d, e), r) -> P d /\ excs_dom P e.
  Proof.
    intros Hs. unfold dec_field. destruct (optional && nilb bs); [discriminate|].
    destruct (dec c bs) as [[d' r1]|] eqn:ED; [|discriminate].
    destruct (dec_excs c (S (length r1)) [] r1) as [[e' r2]|] eqn:EE; [|discriminate].
    intros H; inversion H; subst. split; [eapply Hs; eassumption|].
    eapply dec_excs_dom; [exact Hs| |exact EE]. split; constructor.
  Qed.

  Lemma dec_field_none (c : codec A) optional bs r :
    dec_field c optional bs = Some (None, r) -> optional = true /\ bs = [] /\ r = [].
  Proof.
    unfold dec_field. destruct optional; cbn [andb].
    - destruct bs as [|x xs]; cbn [nilb].
      + intros H; inversion H; auto.
      + destruct (dec c (x :: xs)) as [[d r1]|]; [|discriminate].
        destruct (dec_excs c (S (length r1)) [] r1) as [[e r2]|]; discriminate.
    - destruct (dec c bs) as [[d r1]|]; [|discriminate].
      destruct (dec_excs c (S (length r1)) [] r1) as [[e r2]|]; discriminate.
  Qed.

  (* ------------------------------------------------------------------ *)
  (* the whole entry                                                     *)

  Variable dom : fspec A -> A -> Prop.

  Definition fval_dom (f : fspec A) (v : fval A) : Prop := dom f (fst v) /\ excs_dom (dom f) (snd v).

  Fixpoint te_dom (fs : list (fspec A)) (vs : list (option (fval A))) : Prop :=
    match fs, vs with
    | [], [] => True
    | f :: fs', v :: vs' =>
        match v with
        | Some fv => fval_dom f fv
        | None => f_optional f = true /\ Forall (fun x => x = None) vs'
        end /\ te_dom fs' vs'
    | _, _ => False
    end.

  Definition codecs_ok (fs : list (fspec A)) : Prop :=
    forall f, In f fs -> codec_rt (f_codec f) (dom f) /\ (forall a, dom f a -> enc (f_codec f) a <> []).

  Definition codecs_sound (fs : list (fspec A)) : Prop :=
    forall f, In f fs -> codec_sound (f_codec f) (dom f) /\ dec (f_codec f) [] = None.

  Lemma enc_te_all_none (fs : list (fspec A)) vs t :
    Forall (fun x => x = None) vs -> enc_te fs vs = Some t -> t = [].
  Proof.
    revert vs t. induction fs as [|f fs IH]; intros [|v vs] t Hall H; cbn [enc_te] in H; try discriminate.
    - now inversion H.
    - inversion Hall as [|? ? Hv Hvs]; subst. cbn [enc_field] in H.
      destruct (f_optional f); [|discriminate].
      destruct (enc_te fs vs) as [t'|] eqn:E; [|discriminate].
      inversion H; subst. cbn. eapply IH; eassumption.
  Qed.

  Lemma dec_te_at_end fs vs :
    te_dom fs vs -> Forall (fun x => x = None) vs -> dec_te fs [] = Some (vs, []).
  Proof.
    revert vs. induction fs as [|f fs IH]; intros [|v vs] Hdom Hall; cbn [te_dom] in Hdom; try contradiction.
    - reflexivity.
    - inversion Hall as [|? ? Hv Hvs]; subst. destruct Hdom as [[Hopt _] Hdom'].
      cbn [dec_te]. unfold dec_field. rewrite Hopt. cbn [andb nilb].
      rewrite (IH vs Hdom' Hvs). reflexivity.
  Qed.

  Lemma te_rt_gen fs : codecs_ok fs ->
    forall head vs, layout_ok head fs = true -> te_dom fs vs ->
    exists t, enc_te fs vs = Some t
              /\ (head = false -> tail_ok t)
              /\ dec_te fs (if head then t else tl t) = Some (vs, []).
  Proof.
    induction fs as [|f fs IH]; intros Hok head [|v vs] Hlay Hdom; cbn [te_dom] in Hdom; try contradiction.
    - exists []. repeat split; [left; reflexivity|destruct head; reflexivity].
    - cbn [layout_ok] in Hlay. apply andb_prop in Hlay as [Hfirst Hlay].
      apply Bool.eqb_prop in Hfirst.
      destruct Hdom as [Hv Hdom'].
      assert (Hok' : codecs_ok fs) by (intros g Hg; apply Hok; right; exact Hg).
      destruct (IH Hok' false vs Hlay Hdom') as (t' & Et' & Htail & Hdec').
      specialize (Htail eq_refl). cbn [enc_te].
      destruct v as [[d e]|].
      + destruct Hv as [Hd He]. cbn [fst snd] in Hd, He.
        destruct (Hok f (or_introl eq_refl)) as [Hrt Hne].
        cbn [enc_field]. rewrite Et'.
        eexists. split; [reflexivity|]. split.
        * intros ->. rewrite Hfirst. right. eexists. reflexivity.
        * assert (Hbody : dec_te (f :: fs) (enc_body (f_codec f) (d, e) ++ t') = Some (Some (d, e) :: vs, [])).
          { cbn [dec_te]. rewrite (field_rt (f_codec f) (dom f) (f_optional f) d e t' Hrt Hd He (fun _ => Hne d Hd) Htail).
            rewrite Hdec'. reflexivity. }
          rewrite Hfirst. destruct head; cbn [app tl]; exact Hbody.
      + destruct Hv as [Hopt Hall]. cbn [enc_field]. rewrite Hopt, Et'.
        pose proof (enc_te_all_none fs vs t' Hall Et') as ->.
        exists []. split; [reflexivity|]. split; [intros _; left; reflexivity|].
        assert (H0 : dec_te (f :: fs) [] = Some (None :: vs, [])).
        { apply dec_te_at_end; [cbn [te_dom]; auto|constructor; auto]. }
        destruct head; exact H0.
  Qed.

  (* TE_SERIALIZER: deserialize inverts serialize on every value of the domain
     (canonical distinct face tuples, element values in the element domain, absent
     fields only where optional and only as a suffix) *)
  Theorem te_rt fs vs :
    layout_ok true fs = true -> codecs_ok fs -> te_dom fs vs ->
    exists b, enc_te fs vs = Some b /\ dec_te fs b = Some (vs, []).
  Proof.
    intros Hlay Hok Hdom. destruct (te_rt_gen fs Hok true vs Hlay Hdom) as (t & E & _ & D).
    exists t. auto.
  Qed.

  Lemma dec_te_nil fs vs r : codecs_sound fs ->
    dec_te fs [] = Some (vs, r) -> Forall (fun x => x = None) vs /\ r = [] /\ te_dom fs vs.
  Proof.
    revert vs r. induction fs as [|f fs IH]; intros vs r Hs H; cbn [dec_te] in H.
    - inversion H; subst. repeat split; constructor.
    - assert (Hs' : codecs_sound fs) by (intros g Hg; apply Hs; right; exact Hg).
      destruct (Hs f (or_introl eq_refl)) as [_ Hnil].
      unfold dec_field in H. destruct (f_optional f) eqn:Hopt; cbn [andb nilb] in H.
      + destruct (dec_te fs []) as [[vs' r']|] eqn:E; [|discriminate].
        inversion H; subst. destruct (IH _ _ Hs' eq_refl) as (I1 & I2 & I3).
        repeat split; [constructor; auto|exact I2|exact Hopt|exact I1|exact I3].
      + rewrite Hnil in H. discriminate.
  Qed.

  Lemma dec_te_dom fs : codecs_sound fs ->
    forall bs vs r, dec_te fs bs = Some (vs, r) -> te_dom fs vs.
  Proof.
    induction fs as [|f fs IH]; intros Hs bs vs r H; cbn [dec_te] in H.
    - inversion H; subst. exact I.
    - assert (Hs' : codecs_sound fs) by (intros g Hg; apply Hs; right; exact Hg).
      destruct (Hs f (or_introl eq_refl)) as [Hsound _].
      destruct (dec_field (f_codec f) (f_optional f) bs) as [[v r1]|] eqn:EF; [|discriminate].
      destruct (dec_te fs r1) as [[vs' r2]|] eqn:ET; [|discriminate].
      inversion H; subst. cbn [te_dom]. split; [|eapply IH; eassumption].
      destruct v as [[d e]|].
      + destruct (dec_field_some _ _ _ _ _ _ _ Hsound EF) as [Hd He]. split; assumption.
      + destruct (dec_field_none _ _ _ _ EF) as (Hopt & -> & ->). split; [exact Hopt|].
        destruct (dec_te_nil _ _ _ Hs' ET) as (Hall & _). exact Hall.
  Qed.

  (* C09's one-pass clause: whatever an accepted payload decodes to re-encodes, and the
     re-encoded payload decodes to the same value (and so re-encodes to itself) *)
  Theorem te_fixed_point fs bs vs r :
    layout_ok true fs = true -> codecs_ok fs -> codecs_sound fs ->
    dec_te fs bs = Some (vs, r) ->
    exists b', enc_te fs vs = Some b' /\ dec_te fs b' = Some (vs, []).
  Proof.
    intros Hlay Hok Hs H. apply te_rt; [exact Hlay|exact Hok|]. eapply dec_te_dom; eassumption.
  Qed.

End FieldProofs.

Arguments codec_rt {A}.
Arguments codec_sound {A}.
Arguments excs_dom {A}.
Arguments fval_dom {A}.
Arguments te_dom {A}.
Arguments codecs_ok {A}.
Arguments codecs_sound {A}.

(* ------------------------------------------------------------------ *)
(* the two registered wrappers                                         *)

Section Wrappers.
  Variable A : Type.
  Variable dom : fspec A -> A -> Prop.

  Lemma enc_te_head_nonempty (fs : list (fspec A)) fv vs b :
    codecs_ok dom fs -> te_dom dom fs (Some fv :: vs) -> enc_te fs (Some fv :: vs) = Some b -> b <> [].
  Proof.
    destruct fs as [|f fs]; intros Hok Hdom H; cbn [enc_te] in H; [discriminate|].
    cbn [enc_field] in H. destruct (enc_te fs vs) as [t|]; [|discriminate].
    inversion H; subst. cbn [te_dom] in Hdom. destruct Hdom as [[Hd _] _].
    destruct (Hok f (or_introl eq_refl)) as [_ Hne]. specialize (Hne _ Hd).
    unfold enc_body. destruct (enc (f_codec f) (fst fv)) as [|x xs]; [congruence|].
    destruct (f_first f); cbn; congruence.
  Qed.

  (* TypedBytesGreedy(TE_SERIALIZER, empty_is_none=True) *)
  Theorem te_greedy_rt (fs : list (fspec A)) fv vs :
    layout_ok true fs = true -> codecs_ok dom fs -> te_dom dom fs (Some fv :: vs) ->
    exists b, enc_te_greedy fs (Some (Some fv :: vs)) = Some b
              /\ dec_te_greedy fs b = Some (Some (Some fv :: vs)).
  Proof.
    intros Hlay Hok Hdom. destruct (te_rt A dom fs _ Hlay Hok Hdom) as (b & E & D).
    exists b. split; [exact E|]. pose proof (enc_te_head_nonempty fs fv vs b Hok Hdom E) as Hne.
    unfold dec_te_greedy, dec_te_window. destruct b as [|x xs]; [congruence|]. rewrite D. reflexivity.
  Qed.

  Theorem te_greedy_none (fs : list (fspec A)) :
    enc_te_greedy fs None = Some [] /\ dec_te_greedy fs [] = Some None.
  Proof. split; reflexivity. Qed.

  Lemma le32_decode n : n < 4294967296 ->
    match le32 n with
    | [b0; b1; b2; b3] => b0 + 256 * b1 + 65536 * b2 + 16777216 * b3 = n
    | _ => False
    end.
  Proof.
    intros Hn. cbn [le32].
    pose proof (N.div_mod n 256 ltac:(lia)).
    pose proof (N.div_mod (n / 256) 256 ltac:(lia)).
    pose proof (N.div_mod (n / 65536) 256 ltac:(lia)).
    assert (n / 65536 = n / 256 / 256) by (rewrite N.div_div by lia; reflexivity).
    assert (n / 16777216 = n / 65536 / 256) by (rewrite N.div_div by lia; reflexivity).
    assert (n / 16777216 < 256) by (apply N.div_lt_upper_bound; lia).
    rewrite (N.mod_small (n / 16777216) 256) by assumption.
    lia.
  Qed.

  (* TypedByteArray(U32, TE_SERIALIZER, empty_is_none=True) is self-delimiting *)
  Theorem te_u32_rt (fs : list (fspec A)) v b rest :
    enc_te_u32 fs v = Some b ->
    (forall t, enc_te_greedy fs v = Some t -> dec_te_greedy fs t = Some v) ->
    dec_te_u32 fs (b ++ rest) = Some (v, rest).
  Proof.
    unfold enc_te_u32. destruct (enc_te_greedy fs v) as [t|] eqn:E; [|discriminate].
    destruct (N.ltb_spec (N.of_nat (length t)) 4294967296) as [Hlt|]; [|discriminate].
    intros H Hrt. inversion H; subst. specialize (Hrt t eq_refl).
    pose proof (le32_decode _ Hlt) as Hd. cbn [le32] in Hd |- *.
    cbn [app dec_te_u32]. rewrite Hd.
    assert (Hl : (N.of_nat (length (t ++ rest)) <? N.of_nat (length t)) = false).
    { apply N.ltb_ge. rewrite app_length. lia. }
    rewrite Hl. cbv zeta. rewrite Nat2N.id. rewrite firstn_app, Nat.sub_diag, firstn_all. cbn [firstn]. rewrite app_nil_r.
    rewrite Hrt. rewrite skipn_app, Nat.sub_diag, skipn_all. reflexivity.
  Qed.

End Wrappers.

(* ------------------------------------------------------------------ *)
(* the raw instance (what the extracted driver runs)                   *)

Definition raw_dom (f : fspec bytes) (a : bytes) : Prop :=
  exists k, f_codec f = raw_codec k /\ length a = k /\ (0 < k)%nat.

Lemma raw_codec_rt k a r : length a = k -> dec (raw_codec k) (enc (raw_codec k) a ++ r) = Some (a, r).
Proof.
  intros <-. cbn [raw_codec enc dec].
  assert (H : Nat.ltb (length (a ++ r)) (length a) = false) by (apply Nat.ltb_ge; rewrite app_length; lia).
  rewrite H. rewrite firstn_app, Nat.sub_diag, firstn_all. cbn [firstn]. rewrite app_nil_r.
  rewrite skipn_app, Nat.sub_diag, skipn_all. reflexivity.
Qed.

Lemma raw_codec_sound k b a r : dec (raw_codec k) b = Some (a, r) -> length a = k.
Proof.
  cbn [raw_codec dec]. destruct (Nat.ltb_spec (length b) k) as [|Hge]; [discriminate|].
  intros H; inversion H; subst. apply firstn_length_le. exact Hge.
Qed.

Lemma raw_layout_in ls f : In f (raw_layout ls) -> forallb (fun l => Nat.ltb 0 (snd l)) ls = true ->
  exists k, f_codec f = raw_codec k /\ (0 < k)%nat.
Proof.
  unfold raw_layout. intros Hin Hpos. apply in_map_iff in Hin as ([[fi op] k] & <- & Hl).
  rewrite forallb_forall in Hpos. specialize (Hpos _ Hl). cbn [snd] in Hpos.
  exists k. split; [reflexivity|]. apply Nat.ltb_lt. exact Hpos.
Qed.

Lemma raw_codecs_ok ls : forallb (fun l => Nat.ltb 0 (snd l)) ls = true -> codecs_ok raw_dom (raw_layout ls).
Proof.
  intros Hpos f Hin. split.
  - intros a r (k & E & L & _). rewrite E. now apply raw_codec_rt.
  - intros a (k & E & L & Hk). rewrite E. cbn [raw_codec enc]. destruct a; cbn in L; [lia|congruence].
Qed.

Lemma raw_codecs_sound ls : forallb (fun l => Nat.ltb 0 (snd l)) ls = true -> codecs_sound raw_dom (raw_layout ls).
Proof.
  intros Hpos f Hin. destruct (raw_layout_in ls f Hin Hpos) as (k & E & Hk). split.
  - intros b a r H. rewrite E in H. exists k. split; [exact E|]. split; [|exact Hk].
    eapply raw_codec_sound; eassumption.
  - rewrite E. cbn [raw_codec dec length]. destruct k; [lia|reflexivity].
Qed.

Lemma nodup_faces_NoDup ks : nodup_faces ks = true -> NoDup ks.
Proof.
  induction ks as [|k r IH]; intros H; [constructor|].
  cbn [nodup_faces] in H. apply andb_prop in H as [H1 H2]. constructor; [|apply IH; exact H2].
  intros Hin. apply (existsb_faces_in k r) in Hin. rewrite Hin in H1. discriminate.
Qed.

Lemma raw_te_ok_dom ls vs : forallb (fun l => Nat.ltb 0 (snd l)) ls = true ->
  raw_te_ok ls vs = true -> te_dom raw_dom (raw_layout ls) vs.
Proof.
  revert vs. induction ls as [|[[fi op] k] ls IH]; intros [|v vs] Hpos H; cbn [raw_te_ok] in H; try discriminate.
  - exact I.
  - cbn [forallb snd] in Hpos. apply andb_prop in Hpos as [Hk Hpos]. apply Nat.ltb_lt in Hk.
    cbn [raw_layout map raw_fspec te_dom]. destruct v as [[d e]|].
    + apply andb_prop in H as [Hv Hrest]. split; [|apply IH; assumption].
      unfold raw_fval_ok in Hv. cbn [fst snd] in Hv.
      apply andb_prop in Hv as [Hv Hnd]. apply andb_prop in Hv as [Hd He].
      apply Nat.eqb_eq in Hd. split; cbn [fst snd f_codec].
      * exists k. auto.
      * split; [|apply nodup_faces_NoDup; exact Hnd].
        apply Forall_forall. intros x Hx. rewrite forallb_forall in He. specialize (He x Hx).
        apply andb_prop in He as [Hc Hl]. apply Nat.eqb_eq in Hl. split; [exact Hc|]. exists k. auto.
    + apply andb_prop in H as [H Hrest]. apply andb_prop in H as [Hop Hall].
      split; [|apply IH; assumption]. cbn [f_optional]. split; [exact Hop|].
      apply Forall_forall. intros x Hx. rewrite forallb_forall in Hall. specialize (Hall x Hx).
      destruct x; [discriminate|reflexivity].
Qed.

Theorem raw_te_rt ls vs :
  raw_layout_okb ls = true -> raw_te_ok ls vs = true ->
  exists b, enc_te (raw_layout ls) vs = Some b /\ dec_te (raw_layout ls) b = Some (vs, []).
Proof.
  unfold raw_layout_okb. intros H Hv. apply andb_prop in H as [Hlay Hpos].
  apply (te_rt bytes raw_dom); [exact Hlay|apply raw_codecs_ok; exact Hpos|apply raw_te_ok_dom; assumption].
Qed.

Theorem raw_te_fixed_point ls bs vs r :
  raw_layout_okb ls = true -> dec_te (raw_layout ls) bs = Some (vs, r) ->
  exists b', enc_te (raw_layout ls) vs = Some b' /\ dec_te (raw_layout ls) b' = Some (vs, []).
Proof.
  unfold raw_layout_okb. intros H Hd. apply andb_prop in H as [Hlay Hpos].
  apply (te_fixed_point bytes raw_dom _ bs vs r); [exact Hlay|apply raw_codecs_ok; exact Hpos|apply raw_codecs_sound; exact Hpos|exact Hd].
Qed.

(* ------------------------------------------------------------------ *)
(* refutations of the unqualified statements (1-byte raw elements)     *)

Definition c1 := raw_codec 1.

(* a field followed by a byte that is not NUL keeps reading: the following bytes are
   taken as one more exception (here faces (0,2) -> value 9) *)
Theorem field_rt_nonzero_rest_refuted :
  exists (d : bytes) (e : excs bytes) rest,
    dec_field c1 false (enc_body c1 (d, e) ++ rest) <> Some (Some (d, e), rest)
    /\ dec_field c1 false (enc_body c1 (d, e) ++ rest) = Some (Some (d, e ++ [([0; 2], [9])]), []).
Proof. exists [7], [([1], [8])], [5; 9]. split; [discriminate|reflexivity]. Qed.

(* the empty face tuple as a key: nothing is written for it, the value is then read as a bitfield *)
Theorem field_rt_empty_key_refuted :
  exists (d : bytes) (e : excs bytes),
    dec_field c1 false (enc_body c1 (d, e)) <> Some (Some (d, e), []).
Proof. exists [7], [([], [3])]. vm_compute. discriminate. Qed.

(* unsorted or repeated face numbers are not preserved (the set is) *)
Theorem bitfield_order_refuted :
  dec_bitfield (enc_bitfield [2; 1]) = Some ([1; 2], []) /\ dec_bitfield (enc_bitfield [3; 3]) = Some ([3], []).
Proof. split; reflexivity. Qed.

(* two different tuples naming the same set are merged by the decoder (last value, first position) *)
Theorem field_rt_same_set_refuted :
  exists (d : bytes) (e : excs bytes),
    NoDup (map fst e)
    /\ dec_field c1 false (enc_body c1 (d, e)) = Some (Some (d, [([1; 2], [6]); ([4], [5])]), [])
    /\ e <> [([1; 2], [6]); ([4], [5])].
Proof.
  exists [7], [([1; 2], [4]); ([4], [5]); ([2; 1], [6])]. split; [|split; [reflexivity|discriminate]].
  repeat constructor; cbn; intuition discriminate.
Qed.

(* decoder-side normalisations: a two-byte terminator, leading zero groups, a repeated bitfield, a NUL after the
   last field, a NUL where the optional field would start - all accepted, none reproduced by serialize *)
Theorem bitfield_noncanonical_accepted :
  dec_bitfield [128; 0] = Some ([], []) /\ dec_bitfield [128; 1] = Some ([0], []) /\ enc_bitfield [0] = [1].
Proof. repeat split; reflexivity. Qed.

(* an absent field that is not at the end, or a wrong `first` flag, breaks the round trip *)
Theorem te_rt_absent_middle_refuted :
  exists ls vs b,
    layout_ok true (raw_layout ls) = true
    /\ enc_te (raw_layout ls) vs = Some b /\ dec_te (raw_layout ls) b <> Some (vs, []).
Proof.
  exists [(true, false, 1%nat); (false, true, 1%nat); (false, true, 1%nat)], [Some ([7], []); None; Some ([9], [])].
  eexists. split; [reflexivity|]. split; [reflexivity|]. vm_compute. discriminate.
Qed.

Theorem te_rt_first_flag_refuted :
  exists ls vs b,
    raw_te_ok ls vs = true
    /\ enc_te (raw_layout ls) vs = Some b /\ dec_te (raw_layout ls) b <> Some (vs, []).
Proof.
  exists [(true, false, 1%nat); (true, false, 1%nat)], [Some ([7], []); Some ([9], [])].
  eexists. split; [reflexivity|]. split; [reflexivity|]. vm_compute. discriminate.
Qed.

(* the entry is not self-delimiting: the last field reads to the end of the window *)
Theorem te_rt_trailing_refuted :
  exists ls vs b rest,
    raw_layout_okb ls = true /\ raw_te_ok ls vs = true
    /\ enc_te (raw_layout ls) vs = Some b /\ dec_te (raw_layout ls) (b ++ rest) <> Some (vs, rest).
Proof.
  exists [(true, false, 1%nat)], [Some ([7], [])]. eexists. exists [1; 2].
  split; [reflexivity|]. split; [reflexivity|]. split; [reflexivity|]. vm_compute. discriminate.
Qed.

(* decode is not injective on accepted payloads: serialize(deserialize(b)) <> b in general *)
Theorem te_decode_normalises :
  exists ls b1 b2 vs,
    raw_layout_okb ls = true /\ b1 <> b2
    /\ dec_te (raw_layout ls) b1 = Some (vs, []) /\ dec_te (raw_layout ls) b2 = Some (vs, [])
    /\ enc_te (raw_layout ls) vs = Some b2.
Proof.
  exists [(true, false, 1%nat); (false, true, 1%nat)], [7; 2; 8; 2; 9; 0], [7; 2; 9], [Some ([7], [([1], [9])]); None].
  split; [reflexivity|]. split; [discriminate|]. repeat split; reflexivity.
Qed.

(* per-face meaning is NOT preserved when a bitfield repeats: on the wire later entries win,
   the dict keeps the first position *)
Definition merge {A} (l : excs A) : excs A := fold_left (fun acc fa => dict_set (fst fa) (snd fa) acc) l [].

Lemma merge_nodup_gen {A} (l acc : excs A) :
  NoDup (map fst acc ++ map fst l) -> fold_left (fun acc fa => dict_set (fst fa) (snd fa) acc) l acc = acc ++ l.
Proof.
  revert acc. induction l as [|[k a] l IH]; intros acc H; [now rewrite app_nil_r|].
  cbn [fold_left fst snd]. rewrite dict_set_fresh.
  - rewrite IH; [now rewrite <- app_assoc|]. rewrite map_app. cbn [map fst]. rewrite <- app_assoc. exact H.
  - cbn [map fst] in H. apply NoDup_remove_2 in H. intros Hin. apply H. apply in_or_app. left; exact Hin.
Qed.

Theorem merge_nodup {A} (l : excs A) : NoDup (map fst l) -> merge l = l.
Proof. intros H. unfold merge. now rewrite merge_nodup_gen. Qed.

Theorem realize_merge_refuted :
  exists (d : bytes) (l : excs bytes) face,
    realize_face (d, merge l) face <> realize_face (d, l) face.
Proof. exists [0], [([1; 2], [1]); ([2; 3], [2]); ([1; 2], [3])], 2. vm_compute. discriminate. Qed.

(* what the decoder does with ANY sequence of (canonical bitfield, value) pairs on the wire,
   repeated bitfields included: it folds them into the dict *)
Lemma dec_excs_merge {A} (c : codec A) (P : A -> Prop) : codec_rt c P ->
  forall e acc fuel tail,
    Forall (fun fa => canonical_faces (fst fa) = true /\ P (snd fa)) e ->
    (length e < fuel)%nat -> tail_ok tail ->
    dec_excs c fuel acc (enc_excs c e ++ tail)
    = Some (fold_left (fun acc fa => dict_set (fst fa) (snd fa) acc) e acc, tl tail).
Proof.
  intros Hrt. induction e as [|[f a] e IH]; intros acc fuel tail Hall Hfuel Htail.
  - destruct fuel as [|k]; [cbn in Hfuel; lia|]. cbn [enc_excs flat_map app dec_excs fold_left].
    destruct Htail as [->|[t' ->]]; reflexivity.
  - destruct fuel as [|k]; [cbn in Hfuel; lia|].
    inversion Hall as [|? ? [Hf Ha] Hall']; subst. cbn [fst snd] in *.
    cbn [enc_excs flat_map fst snd]. fold (enc_excs c e).
    rewrite <- !app_assoc.
    pose proof (canonical_nonempty f Hf) as Hne.
    destruct (bitfield_head_nonzero f Hne) as (b & t & E & _).
    cbn [dec_excs].
    destruct (enc_bitfield f ++ enc c a ++ enc_excs c e ++ tail) as [|x xs] eqn:EE.
    { rewrite E in EE. discriminate. }
    rewrite <- EE. rewrite bitfield_roundtrip by exact Hf.
    destruct f as [|f0 fr]; [congruence|].
    rewrite Hrt by exact Ha. cbn [fold_left fst snd].
    apply IH; [exact Hall'|cbn [length] in Hfuel; lia|exact Htail].
Qed.

Theorem field_dec_merge {A} (c : codec A) (P : A -> Prop) optional d (e : excs A) tail :
  codec_rt c P -> P d -> Forall (fun fa => canonical_faces (fst fa) = true /\ P (snd fa)) e ->
  (optional = true -> enc c d <> []) -> tail_ok tail ->
  dec_field c optional (enc_body c (d, e) ++ tail) = Some (Some (d, merge e), tl tail).
Proof.
  intros Hrt Hd Hall Hne Htail. unfold dec_field, enc_body. cbn [fst snd].
  assert (Hnil : optional && nilb ((enc c d ++ enc_excs c e) ++ tail) = false).
  { destruct optional; [|reflexivity]. cbn [andb].
    destruct (enc c d) as [|x xs] eqn:E; [exfalso; now apply Hne|reflexivity]. }
  rewrite Hnil. rewrite <- app_assoc. rewrite Hrt by exact Hd.
  rewrite (dec_excs_merge c P Hrt e [] _ tail Hall); [reflexivity| |exact Htail].
  rewrite app_length.
  assert (Hl : Forall (fun fa => canonical_faces (fst fa) = true) e).
  { eapply Forall_impl; [|exact Hall]. intros x [H _]. exact H. }
  pose proof (enc_excs_length A c e Hl). lia.
Qed.

(* DPTextureEntrySubfieldSerializer (ImprovedTerseObjectUpdate.ObjectData.TextureEntry) *)
Theorem te_sub_u32_rt {A} (fs : list (fspec A)) v b :
  sub_enc_u32 fs v = Some b ->
  (forall t, enc_te_greedy fs v = Some t -> dec_te_greedy fs t = Some v) ->
  sub_dec_u32 fs b = Some v.
Proof.
  destruct v as [vs|]; cbn [sub_enc_u32]; [|intros H _; inversion H; reflexivity].
  intros H Hrt. pose proof (te_u32_rt A fs (Some vs) b [] H Hrt) as D. rewrite app_nil_r in D.
  unfold sub_dec_u32. destruct b as [|x xs].
  - unfold enc_te_u32 in H. destruct (enc_te_greedy fs (Some vs)); [|discriminate].
    destruct (N.of_nat (length b) <? 4294967296); discriminate.
  - rewrite D. reflexivity.
Qed.

(* ... where a zero length prefix is accepted as None and re-encoded as the empty payload *)
Theorem te_sub_u32_zero_prefix_normalised :
  sub_dec_u32 (raw_layout [(true, false, 1%nat)]) [0; 0; 0; 0] = Some None
  /\ sub_enc_u32 (raw_layout [(true, false, 1%nat)]) None = Some [].
Proof. split; reflexivity. Qed.

(* ================================================================== *)
(* DictAdapter over a U8-prefixed Collection (ExtraParams); model: Spec/ExtraParamsModel.v *)
From HV Require Import Spec.ExtraParamsModel.

Section DictCollProofs.
  Variable K V : Type.
  Variable keqb : K -> K -> bool.
  Hypothesis keqb_spec : forall a b, keqb a b = true <-> a = b.

  Lemma kexistsb_in k ks : existsb (keqb k) ks = true <-> In k ks.
  Proof.
    rewrite existsb_exists. split.
    - intros (x & Hx & E). apply keqb_spec in E. now subst.
    - intros H. exists k. split; [exact H|now apply keqb_spec].
  Qed.

  Lemma kdict_set_fresh k v (d : list (K * V)) : ~ In k (map fst d) -> kdict_set keqb k v d = d ++ [(k, v)].
  Proof.
    induction d as [|[k' v'] d IH]; intros Hn; [reflexivity|].
    cbn [kdict_set]. destruct (keqb k k') eqn:E.
    - apply keqb_spec in E. subst. exfalso. apply Hn. left; reflexivity.
    - cbn [app]. f_equal. apply IH. intros Hin. apply Hn. right; exact Hin.
  Qed.

  Lemma kdict_set_keys k v (d : list (K * V)) :
    map fst (kdict_set keqb k v d) = if existsb (keqb k) (map fst d) then map fst d else map fst d ++ [k].
  Proof.
    induction d as [|[k' v'] d IH]; [reflexivity|].
    cbn [kdict_set map existsb fst]. destruct (keqb k k') eqn:E; cbn [orb map fst]; [reflexivity|].
    rewrite IH. destruct (existsb (keqb k) (map fst d)); reflexivity.
  Qed.

  Lemma kdict_set_in k v (d : list (K * V)) x :
    In x (kdict_set keqb k v d) -> In x d \/ x = (k, v).
  Proof.
    induction d as [|[k' v'] d IH]; cbn [kdict_set].
    - intros [<-|[]]. right. reflexivity.
    - destruct (keqb k k') eqn:E.
      + intros [<-|Hin]; [|left; right; exact Hin]. apply keqb_spec in E. subst. right. reflexivity.
      + intros [<-|Hin]; [left; left; reflexivity|].
        destruct (IH Hin) as [H|H]; [left; right; exact H|right; exact H].
  Qed.

  Lemma kdict_set_length k v (d : list (K * V)) : (length (kdict_set keqb k v d) <= S (length d))%nat.
  Proof.
    induction d as [|[k' v'] d IH]; cbn [kdict_set length]; [lia|].
    destruct (keqb k k'); cbn [length]; lia.
  Qed.

  Definition dict_inv (P : K * V -> Prop) (d : list (K * V)) : Prop := Forall P d /\ NoDup (map fst d).

  Lemma nodup_snoc (l : list K) k : NoDup l -> ~ In k l -> NoDup (l ++ [k]).
  Proof.
    induction l as [|x l IH]; intros Hnd Hn.
    - constructor; [intros []|constructor].
    - inversion Hnd; subst. cbn [app]. constructor.
      + intros Hin. apply in_app_or in Hin as [Hin|[<-|[]]]; [contradiction|]. apply Hn. left; reflexivity.
      + apply IH; [assumption|]. intros Hin. apply Hn. right; exact Hin.
  Qed.

  Lemma kdict_set_inv (P : K * V -> Prop) k v d : P (k, v) -> dict_inv P d -> dict_inv P (kdict_set keqb k v d).
  Proof.
    intros Hp [Hall Hnd]. split.
    - apply Forall_forall. intros x Hx. rewrite Forall_forall in Hall.
      destruct (kdict_set_in k v d x Hx) as [Hin | ->]; [apply Hall, Hin|exact Hp].
    - rewrite kdict_set_keys. destruct (existsb (keqb k) (map fst d)) eqn:E; [exact Hnd|].
      apply nodup_snoc; [exact Hnd|]. intros Hin. apply kexistsb_in in Hin. congruence.
  Qed.

  Lemma to_dict_gen_inv (P : K * V -> Prop) es acc :
    Forall P es -> dict_inv P acc ->
    dict_inv P (fold_left (fun d e => kdict_set keqb (fst e) (snd e) d) es acc)
    /\ (length (fold_left (fun d e => kdict_set keqb (fst e) (snd e) d) es acc) <= length acc + length es)%nat.
  Proof.
    revert acc. induction es as [|[k v] es IH]; intros acc Hall Hacc; cbn [fold_left fst snd length].
    - split; [exact Hacc|lia].
    - inversion Hall as [|? ? Hp Hall']; subst.
      destruct (IH (kdict_set keqb k v acc) Hall' (kdict_set_inv P k v acc Hp Hacc)) as [I1 I2].
      split; [exact I1|]. pose proof (kdict_set_length k v acc). lia.
  Qed.

  Lemma to_dict_inv (P : K * V -> Prop) es :
    Forall P es -> dict_inv P (to_dict keqb es) /\ (length (to_dict keqb es) <= length es)%nat.
  Proof.
    intros H. destruct (to_dict_gen_inv P es [] H) as [I1 I2]; [split; constructor|].
    split; [exact I1|exact I2].
  Qed.

  Lemma to_dict_gen_nodup (es acc : list (K * V)) :
    NoDup (map fst acc ++ map fst es) ->
    fold_left (fun d e => kdict_set keqb (fst e) (snd e) d) es acc = acc ++ es.
  Proof.
    revert acc. induction es as [|[k v] es IH]; intros acc H; [now rewrite app_nil_r|].
    cbn [fold_left fst snd]. rewrite kdict_set_fresh.
    - rewrite IH; [now rewrite <- app_assoc|]. rewrite map_app. cbn [map fst]. rewrite <- app_assoc. exact H.
    - cbn [map fst] in H. apply NoDup_remove_2 in H. intros Hin. apply H. apply in_or_app. left; exact Hin.
  Qed.

  (* a dict whose keys are distinct is unchanged by dict() *)
  Theorem to_dict_nodup (es : list (K * V)) : NoDup (map fst es) -> to_dict keqb es = es.
  Proof. intros H. unfold to_dict. now rewrite to_dict_gen_nodup. Qed.

  Lemma dec_entries_rt (c : codec (K * V)) (P : K * V -> Prop) es rest :
    codec_rt c P -> Forall P es ->
    dec_entries c (length es) (flat_map (enc c) es ++ rest) = Some (es, rest).
  Proof.
    intros Hrt. induction es as [|e es IH]; intros Hall; [reflexivity|].
    inversion Hall as [|? ? Hp Hall']; subst. cbn [length dec_entries flat_map].
    rewrite <- app_assoc. rewrite Hrt by exact Hp. rewrite IH by exact Hall'. reflexivity.
  Qed.

  Lemma dec_entries_sound (c : codec (K * V)) (P : K * V -> Prop) n bs es r :
    codec_sound c P -> dec_entries c n bs = Some (es, r) -> Forall P es /\ length es = n.
  Proof.
    intros Hs. revert bs es r. induction n as [|n IH]; intros bs es r H; cbn [dec_entries] in H.
    - inversion H; subst. split; [constructor|reflexivity].
    - destruct (dec c bs) as [[e r1]|] eqn:E1; [|discriminate].
      destruct (dec_entries c n r1) as [[es' r2]|] eqn:E2; [|discriminate].
      inversion H; subst. destruct (IH _ _ _ E2) as [I1 I2].
      split; [constructor; [eapply Hs; eassumption|exact I1]|cbn; now rewrite I2].
  Qed.

  (* what the decoder does with ANY entry list on the wire, repeated keys included *)
  Theorem dictcoll_dec_general (c : codec (K * V)) (P : K * V -> Prop) es rest :
    codec_rt c P -> Forall P es -> (length es <= 255)%nat ->
    dec_dictcoll keqb c (N.of_nat (length es) :: flat_map (enc c) es ++ rest) = Some (to_dict keqb es, rest).
  Proof.
    intros Hrt Hall Hlen. cbn [dec_dictcoll]. rewrite Nat2N.id.
    rewrite (dec_entries_rt c P es rest Hrt Hall). reflexivity.
  Qed.

  (* DictAdapter(Collection(U8, entry)) round-trips every dict of at most 255 entries (keys distinct, as in any dict) *)
  Theorem dictcoll_rt (c : codec (K * V)) (P : K * V -> Prop) d rest :
    codec_rt c P -> dict_inv P d -> (length d <= 255)%nat ->
    exists b, enc_dictcoll c d = Some b /\ dec_dictcoll keqb c (b ++ rest) = Some (d, rest).
  Proof.
    intros Hrt [Hall Hnd] Hlen. unfold enc_dictcoll.
    assert (H : (255 <? N.of_nat (length d)) = false) by lia. rewrite H.
    eexists. split; [reflexivity|]. cbn [app].
    rewrite (dictcoll_dec_general c P d rest Hrt Hall Hlen). rewrite to_dict_nodup by exact Hnd. reflexivity.
  Qed.

  (* one-pass fixed point for every accepted payload (count byte below 256) *)
  Theorem dictcoll_fixed_point (c : codec (K * V)) (P : K * V -> Prop) n t d r :
    codec_rt c P -> codec_sound c P -> n < 256 ->
    dec_dictcoll keqb c (n :: t) = Some (d, r) ->
    exists b', enc_dictcoll c d = Some b' /\ forall rest, dec_dictcoll keqb c (b' ++ rest) = Some (d, rest).
  Proof.
    intros Hrt Hs Hn H. cbn [dec_dictcoll] in H.
    destruct (dec_entries c (N.to_nat n) t) as [[es r']|] eqn:E; [|discriminate].
    inversion H; subst. destruct (dec_entries_sound c P _ _ _ _ Hs E) as [Hall Hlen].
    destruct (to_dict_inv P es Hall) as [Hinv Hle].
    assert (Hl : (length (to_dict keqb es) <= 255)%nat) by lia.
    destruct (dictcoll_rt c P (to_dict keqb es) [] Hrt Hinv Hl) as (b & Eb & _).
    exists b. split; [exact Eb|]. intros rest.
    destruct (dictcoll_rt c P (to_dict keqb es) rest Hrt Hinv Hl) as (b2 & Eb2 & D2).
    rewrite Eb in Eb2. inversion Eb2; subst. exact D2.
  Qed.

  (* the registered wrapper (ObjectUpdate.ObjectData.ExtraParams): None <-> b"" *)
  Theorem sub_dictcoll_fixed_point (c : codec (K * V)) (P : K * V -> Prop) bs v :
    codec_rt c P -> codec_sound c P -> Forall (fun b => b < 256) bs ->
    sub_dec_dictcoll keqb c bs = Some v ->
    exists b', sub_enc_dictcoll c v = Some b' /\ sub_dec_dictcoll keqb c b' = Some v.
  Proof.
    intros Hrt Hs Hb H. destruct bs as [|n t]; cbn [sub_dec_dictcoll] in H.
    - inversion H; subst. exists []. split; reflexivity.
    - destruct (dec_dictcoll keqb c (n :: t)) as [[d r]|] eqn:E; [|discriminate].
      destruct r; [|discriminate]. inversion H; subst.
      inversion Hb as [|? ? Hn _]; subst.
      destruct (dictcoll_fixed_point c P n t d [] Hrt Hs Hn E) as (b' & Eb & D).
      exists b'. split; [exact Eb|]. specialize (D []). rewrite app_nil_r in D.
      unfold sub_dec_dictcoll. destruct b' as [|x xs].
      + unfold enc_dictcoll in Eb. destruct (255 <? N.of_nat (length d)); discriminate.
      + rewrite D. reflexivity.
  Qed.

  Theorem sub_dictcoll_rt (c : codec (K * V)) (P : K * V -> Prop) d :
    codec_rt c P -> dict_inv P d -> (length d <= 255)%nat ->
    exists b, sub_enc_dictcoll c (Some d) = Some b /\ sub_dec_dictcoll keqb c b = Some (Some d).
  Proof.
    intros Hrt Hinv Hlen. destruct (dictcoll_rt c P d [] Hrt Hinv Hlen) as (b & Eb & D).
    exists b. split; [exact Eb|]. rewrite app_nil_r in D. unfold sub_dec_dictcoll.
    destruct b as [|x xs].
    - unfold enc_dictcoll in Eb. destruct (255 <? N.of_nat (length d)); discriminate.
    - rewrite D. reflexivity.
  Qed.
End DictCollProofs.

(* ---- raw entries: U16 type, U32 length, blob ---- *)
Definition raw_entry_dom (e : N * bytes) : Prop := fst e < 65536 /\ N.of_nat (length (snd e)) < 4294967296.

Lemma raw_entry_rt : codec_rt raw_entry_codec raw_entry_dom.
Proof.
  intros [k blob] r [Hk Hl]. cbn [fst snd] in Hk, Hl. cbn [raw_entry_codec enc dec fst snd le16].
  pose proof (le32_decode _ Hl) as Hd. unfold le16, le32 in Hd |- *. cbn [app].
  assert (M : forall x, x mod 256 mod 256 = x mod 256) by (intros x; apply N.mod_mod; lia).
  rewrite !M. rewrite Hd.
  assert (Hlt : (N.of_nat (length (blob ++ r)) <? N.of_nat (length blob)) = false).
  { apply N.ltb_ge. rewrite app_length. lia. }
  rewrite Hlt. cbv zeta. rewrite Nat2N.id.
  rewrite firstn_app, Nat.sub_diag, firstn_all. cbn [firstn]. rewrite app_nil_r.
  rewrite skipn_app, Nat.sub_diag, skipn_all. cbn [skipn app].
  assert (Hk2 : k mod 256 + 256 * (k / 256 mod 256) = k).
  { pose proof (N.div_mod k 256 ltac:(lia)). assert (k / 256 < 256) by (apply N.div_lt_upper_bound; lia).
    rewrite (N.mod_small (k / 256) 256) by assumption. lia. }
  rewrite Hk2. reflexivity.
Qed.

Lemma raw_entry_sound : codec_sound raw_entry_codec raw_entry_dom.
Proof.
  intros bs [k blob] r. cbn [raw_entry_codec dec].
  destruct bs as [|t0 [|t1 [|b0 [|b1 [|b2 [|b3 rr]]]]]]; try discriminate.
  set (len := b0 mod 256 + 256 * (b1 mod 256) + 65536 * (b2 mod 256) + 16777216 * (b3 mod 256)).
  destruct (N.ltb_spec (N.of_nat (length rr)) len) as [|Hge]; [discriminate|].
  intros [= E1 E2 E3]. subst k blob r. split; cbn [fst snd].
  - change (t0 mod 256 + 256 * (t1 mod 256) < 65536).
    pose proof (N.mod_lt t0 256 ltac:(lia)). pose proof (N.mod_lt t1 256 ltac:(lia)). lia.
  - rewrite firstn_length_le by lia. rewrite N2Nat.id.
    pose proof (N.mod_lt b0 256 ltac:(lia)). pose proof (N.mod_lt b1 256 ltac:(lia)).
    pose proof (N.mod_lt b2 256 ltac:(lia)). pose proof (N.mod_lt b3 256 ltac:(lia)). lia.
Qed.

Lemma nodup_keys_NoDup ks : nodup_keys ks = true -> NoDup ks.
Proof.
  induction ks as [|k r IH]; intros H; [constructor|].
  cbn [nodup_keys] in H. apply andb_prop in H as [H1 H2]. constructor; [|apply IH; exact H2].
  intros Hin. assert (E : existsb (N.eqb k) r = true).
  { apply existsb_exists. exists k. split; [exact Hin|apply N.eqb_refl]. }
  rewrite E in H1. discriminate.
Qed.

Theorem raw_dictcoll_rt d rest : raw_dict_ok d = true ->
  exists b, enc_dictcoll raw_entry_codec d = Some b /\ dec_dictcoll N.eqb raw_entry_codec (b ++ rest) = Some (d, rest).
Proof.
  unfold raw_dict_ok. intros H. apply andb_prop in H as [H Hlen]. apply andb_prop in H as [Hall Hnd].
  apply (dictcoll_rt N bytes N.eqb N.eqb_eq raw_entry_codec raw_entry_dom d rest); [exact raw_entry_rt| |lia].
  split; [|apply nodup_keys_NoDup; exact Hnd].
  apply Forall_forall. intros e He. rewrite forallb_forall in Hall. specialize (Hall e He).
  unfold raw_entry_ok in Hall. apply andb_prop in Hall as [H1 H2]. split; lia.
Qed.

Theorem raw_dictcoll_fixed_point bs v : Forall (fun b => b < 256) bs ->
  sub_dec_dictcoll N.eqb raw_entry_codec bs = Some v ->
  exists b', sub_enc_dictcoll raw_entry_codec v = Some b' /\ sub_dec_dictcoll N.eqb raw_entry_codec b' = Some v.
Proof.
  intros Hb H.
  exact (sub_dictcoll_fixed_point N bytes N.eqb N.eqb_eq raw_entry_codec raw_entry_dom bs v raw_entry_rt raw_entry_sound Hb H).
Qed.

(* refutation of byte identity: a payload repeating a key is accepted; the dict keeps the first position with the
   last value and the re-encoded payload has one entry less *)
Theorem dictcoll_duplicate_refuted :
  exists b d b',
    sub_dec_dictcoll N.eqb raw_entry_codec b = Some (Some d)
    /\ sub_enc_dictcoll raw_entry_codec (Some d) = Some b' /\ b' <> b
    /\ d = [(16, [3]); (32, [2])].
Proof.
  exists [3; 16; 0; 1; 0; 0; 0; 1; 32; 0; 1; 0; 0; 0; 2; 16; 0; 1; 0; 0; 0; 3]. eexists. eexists.
  split; [reflexivity|]. split; [reflexivity|]. split; [discriminate|reflexivity].
Qed.
