(* C08 - the generic round-trip theorem over the combinator grammar. *)
From Coq Require Import NArith ZArith List Bool Lia ZifyBool ZifyNat ZifyN.
From HV Require Import Base.Bytes Spec.Spec Spec.SpecLemmas Spec.SpecInd Spec.SpecSize.
Import ListNotations.
Open Scope N_scope.

(* reading what was written, followed by [rest], returns the value and leaves [rest];
   [rest] is arbitrary for a self-delimiting spec and empty for one that consumes its window *)
Definition agree (rs : list N) (cs cd : ctx) : Prop := forall n, In n rs -> lookup n cs = lookup n cd.

Definition rt_at (e pod : bool) (s : spec) : Prop :=
  forall cs cd v b rest,
    wf s = true -> agree (refs s) cs cd -> domb e pod s cs v = true -> ser e s cs v = Some b ->
    (delimited s = true \/ rest = []) ->
    de e pod s cd (b ++ rest) = Some (v, rest).

Lemma agree_nil cs cd : agree [] cs cd.
Proof. intros n []. Qed.

Lemma agree_same rs c : agree rs c c.
Proof. intros n _. reflexivity. Qed.

(* ---------- leaves ---------- *)

Lemma take16_app (b r : bytes) : (N.of_nat (length b) =? 16) = true -> take 16 (b ++ r) = Some (b, r).
Proof. intros H. apply take_app_n. lia. Qed.

Lemma rt_leaf e pod s : is_leaf s = true -> rt_at e pod s.
Proof.
  intros Hl cs cd v b rest Hwf _ Hd Hs Hr.
  destruct s; try discriminate Hl; cbn [ser de domb wf delimited] in *.
  - (* prim *) now apply de_ser_prim.
  - (* bytearray *) destruct v; try discriminate.
    now rewrite (de_ser_bytearray _ _ _ _ rest Hs).
  - (* bytesfixed *) destruct v; try discriminate.
    apply ser_fixed_some in Hs as [-> Hn]. now rewrite (takeN_app _ _ rest Hn).
  - (* bytesgreedy *) destruct v; try discriminate. injection Hs as <-.
    destruct Hr as [Hr| ->]; [discriminate|]. now rewrite app_nil_r.
  - (* bytesterm *) destruct v; try discriminate.
    apply andb_prop in Hd as [_ Hnt].
    now rewrite (de_ser_term _ _ _ _ _ rest Hwf Hnt Hs Hr).
  - (* str *) destruct v; try discriminate.
    apply andb_prop in Hd as [Hd _]. apply andb_prop in Hd as [Hu Ht].
    rewrite Hu in Hs. rewrite (de_ser_bytearray _ _ _ _ rest Hs). cbn [decode_str].
    destruct nt.
    + rewrite rstrip0_app_zero by exact Ht. now rewrite Hu.
    + rewrite rstrip0_id by exact Ht. now rewrite Hu.
  - (* strfixed *) destruct v; try discriminate.
    apply andb_prop in Hd as [Hd _]. apply andb_prop in Hd as [Hu Ht].
    rewrite Hu in Hs. destruct (n <? N.of_nat (length b0)) eqn:E; [discriminate|].
    injection Hs as <-. rewrite (takeN_app n) by (apply pad_length; exact E).
    cbn [decode_str]. rewrite rstrip0_app_zeros by exact Ht. now rewrite Hu.
  - (* cstr *) destruct v; try discriminate.
    apply andb_prop in Hd as [Hu Hnt]. rewrite Hu in Hs.
    rewrite (de_ser_term _ _ _ _ _ rest Hwf Hnt Hs Hr). now rewrite Hu.
  - (* uuid *) destruct v; try discriminate.
    + apply andb_prop in Hd as [Hd Hl16]. apply andb_prop in Hd as [Hp _].
      rewrite Hl16 in Hs. injection Hs as <-. rewrite (take16_app _ _ Hl16).
      destruct pod; [discriminate|reflexivity].
    + apply andb_prop in Hd as [Hd Hl16]. apply andb_prop in Hd as [Hp _].
      rewrite Hl16 in Hs. injection Hs as <-. rewrite (take16_app _ _ Hl16).
      destruct pod; [reflexivity|discriminate].
  - (* null *) injection Hs as <-. destruct v; try discriminate. reflexivity.
Qed.

(* ---------- Tuple ---------- *)

Lemma butlast_all_cons d d' r : butlast_all (d :: d' :: r) = d && butlast_all (d' :: r).
Proof. reflexivity. Qed.

Lemma rt_seq e pod ss : Forall (rt_at e pod) ss ->
  forall vs b rest,
    forallb wf ss = true -> butlast_all (map delimited ss) = true ->
    all2 (map (fun s' => domb e pod s' []) ss) vs = true ->
    ser_seq (map (fun s' => ser e s' []) ss) vs = Some b ->
    (forallb delimited ss = true \/ rest = []) ->
    de_seq (map (fun s' => de e pod s' []) ss) (b ++ rest) = Some (vs, rest).
Proof.
  induction 1 as [|s ss Hs _ IH]; intros vs b rest Hwf Hbl Hd Hser Hr.
  - destruct vs; [|discriminate]. injection Hser as <-. reflexivity.
  - destruct vs as [|v vs]; [discriminate|].
    cbn [map ser_seq] in Hser. cbn [map all2] in Hd. cbn [forallb] in Hwf.
    apply andb_prop in Hd as [Hdv Hd]. apply andb_prop in Hwf as [Hwfs Hwf].
    destruct (ser e s [] v) as [b1|] eqn:E1; [|discriminate].
    destruct (ser_seq (map (fun s' => ser e s' []) ss) vs) as [b2|] eqn:E2; [|discriminate].
    injection Hser as <-. rewrite <- app_assoc. cbn [map de_seq].
    assert (Hhead : delimited s = true \/ b2 ++ rest = []).
    { destruct ss as [|s2 ss'].
      - destruct vs; [|discriminate]. injection E2 as <-. cbn [app].
        destruct Hr as [Hr|Hr]; [left|right; exact Hr].
        cbn in Hr. now rewrite andb_true_r in Hr.
      - cbn [map] in Hbl. rewrite butlast_all_cons in Hbl. apply andb_prop in Hbl as [Hbl _].
        now left. }
    rewrite (Hs [] [] v b1 (b2 ++ rest) Hwfs (agree_same _ _) Hdv E1 Hhead).
    assert (Hbl' : butlast_all (map delimited ss) = true).
    { destruct ss as [|s2 ss']; [reflexivity|].
      cbn [map] in Hbl. rewrite butlast_all_cons in Hbl. now apply andb_prop in Hbl as [_ Hbl]. }
    assert (Hr' : forallb delimited ss = true \/ rest = []).
    { destruct Hr as [Hr|Hr]; [left|right; exact Hr].
      cbn [forallb] in Hr. now apply andb_prop in Hr as [_ Hr]. }
    now rewrite (IH vs b2 rest Hwf Hbl' Hd E2 Hr').
Qed.

(* ---------- Collection ---------- *)

Lemma rt_all_n e pod s : rt_at e pod s -> wf s = true -> delimited s = true ->
  forall vs b rest,
    forallb (domb e pod s []) vs = true -> ser_all (ser e s []) vs = Some b ->
    de_n (de e pod s []) (length vs) (b ++ rest) = Some (vs, rest).
Proof.
  intros Hs Hwf Hdl. induction vs as [|v vs IH]; intros b rest Hd Hser.
  - injection Hser as <-. reflexivity.
  - cbn [forallb] in Hd. apply andb_prop in Hd as [Hdv Hd]. cbn [ser_all] in Hser.
    destruct (ser e s [] v) as [b1|] eqn:E1; [|discriminate].
    destruct (ser_all (ser e s []) vs) as [b2|] eqn:E2; [|discriminate].
    injection Hser as <-. rewrite <- app_assoc. cbn [length de_n].
    rewrite (Hs [] [] v b1 (b2 ++ rest) Hwf (agree_same _ _) Hdv E1 (or_introl Hdl)).
    now rewrite (IH b2 rest Hd eq_refl).
Qed.

Lemma rt_all_greedy e pod s : rt_at e pod s -> wf s = true -> delimited s = true ->
  0 < min_size s ->
  forall vs b fuel,
    forallb (domb e pod s []) vs = true -> ser_all (ser e s []) vs = Some b ->
    (length b <= fuel)%nat ->
    de_greedy (de e pod s []) fuel b = Some (vs, []).
Proof.
  intros Hs Hwf Hdl Hms. induction vs as [|v vs IH]; intros b fuel Hd Hser Hf.
  - injection Hser as <-. destruct fuel; reflexivity.
  - cbn [forallb] in Hd. apply andb_prop in Hd as [Hdv Hd]. cbn [ser_all] in Hser.
    destruct (ser e s [] v) as [b1|] eqn:E1; [|discriminate].
    destruct (ser_all (ser e s []) vs) as [b2|] eqn:E2; [|discriminate].
    injection Hser as <-.
    pose proof (min_size_bound e s [] v b1 E1) as Hb1.
    destruct b1 as [|x b1']; [cbn in Hb1; lia|].
    destruct fuel as [|fuel]; [cbn in Hf; lia|].
    cbn [app de_greedy].
    change (x :: b1' ++ b2) with ((x :: b1') ++ b2).
    rewrite (Hs [] [] v (x :: b1') b2 Hwf (agree_same _ _) Hdv E1 (or_introl Hdl)).
    rewrite (IH b2 fuel Hd eq_refl); [reflexivity|].
    cbn [app length] in Hf. rewrite app_length in Hf. lia.
Qed.

(* ---------- Template ---------- *)

Definition fnames (fs : list (N * spec)) : list N := map fst fs.

Lemma memN_cons x y l : memN x (y :: l) = (x =? y) || memN x l.
Proof. reflexivity. Qed.

Lemma tdomb_keys e pod skip full fs : forall kvs n,
  tdomb (map (fun f => (fst f, optional (snd f), domb e pod (snd f) full)) fs) skip kvs = true ->
  memN n (map fst fs) = false -> lookup n kvs = None.
Proof.
  induction fs as [|f fs IH]; intros kvs n Hd Hn.
  - cbn in Hd. destruct kvs; [reflexivity|discriminate].
  - cbn [map] in Hn. rewrite memN_cons in Hn. apply orb_false_iff in Hn as [Hnf Hn].
    cbn [map tdomb] in Hd. destruct kvs as [|[n' v] kvs'].
    + reflexivity.
    + destruct (fst f =? n') eqn:E.
      * apply andb_prop in Hd as [_ Hd]. apply N.eqb_eq in E. subst n'.
        cbn [lookup]. rewrite Hnf. now apply IH.
      * apply andb_prop in Hd as [_ Hd]. now apply IH.
Qed.

Lemma lookup_app {A} n (a b : list (N * A)) :
  lookup n (a ++ b) = match lookup n a with Some x => Some x | None => lookup n b end.
Proof.
  induction a as [|[k x] a IH]; cbn [app lookup]; [reflexivity|].
  destruct (n =? k); [reflexivity|exact IH].
Qed.

Lemma memN_in x l : In x l -> memN x l = true.
Proof.
  unfold memN. induction l as [|y l IH]; cbn; [contradiction|].
  intros [->|H]; [now rewrite N.eqb_refl|]. rewrite (IH H). apply orb_true_r.
Qed.

(* invariants of the field loop: [full] is what was read so far followed by what remains;
   names already seen do not occur in the remainder; names still to come do not occur in [acc] *)
Lemma rt_fields e pod skip fs : Forall (fun f => rt_at e pod (snd f)) fs ->
  forall full kvs acc seen b rest,
    forallb (fun f => wf (snd f)) fs = true ->
    butlast_all (map (fun f => delimited (snd f)) fs) = true ->
    nodupN (map fst fs) = true ->
    refs_ok seen (map (fun f => (fst f, refs (snd f))) fs) = true ->
    tdomb (map (fun f => (fst f, optional (snd f), domb e pod (snd f) full)) fs) skip kvs = true ->
    full = acc ++ kvs ->
    (forall m, memN m seen = true -> lookup m kvs = None) ->
    (forall m, memN m (map fst fs) = true -> lookup m acc = None) ->
    ser_fields (map (fun f => (fst f, optional (snd f), ser e (snd f) full)) fs) full = Some b ->
    (forallb (fun f => delimited (snd f)) fs = true \/ rest = []) ->
    de_fields (map (fun f => (fst f, optional (snd f), de e pod (snd f))) fs) skip acc (b ++ rest)
    = Some (acc ++ kvs, rest).
Proof.
  induction 1 as [|f fs Hs _ IH]; intros full kvs acc seen b rest Hwf Hbl Hnd Hro Hd Hfull Hseen Hacc Hser Hr.
  - cbn in Hd. destruct kvs; [|discriminate]. injection Hser as <-. cbn. now rewrite app_nil_r.
  - cbn [map ser_fields] in Hser. cbn [forallb] in Hwf. apply andb_prop in Hwf as [Hwfs Hwf].
    cbn [map nodupN] in Hnd. apply andb_prop in Hnd as [Hnin Hnd]. apply negb_true_iff in Hnin.
    cbn [map refs_ok fst snd] in Hro. apply andb_prop in Hro as [Hrefs Hro].
    assert (Hbl' : butlast_all (map (fun f => delimited (snd f)) fs) = true).
    { destruct fs as [|f2 fs']; [reflexivity|].
      cbn [map] in Hbl. rewrite butlast_all_cons in Hbl. now apply andb_prop in Hbl as [_ Hbl]. }
    assert (Hr' : forallb (fun f => delimited (snd f)) fs = true \/ rest = []).
    { destruct Hr as [Hr|Hr]; [left|right; exact Hr].
      cbn [forallb] in Hr. now apply andb_prop in Hr as [_ Hr]. }
    assert (Hhead : forall b2, (fs = [] -> b2 = []) -> delimited (snd f) = true \/ b2 ++ rest = []).
    { intros b2 Hb2. destruct fs as [|f2 fs'].
      - rewrite (Hb2 eq_refl). cbn [app].
        destruct Hr as [Hr|Hr]; [left|right; exact Hr].
        cbn in Hr. now rewrite andb_true_r in Hr.
      - cbn [map] in Hbl. rewrite butlast_all_cons in Hbl. apply andb_prop in Hbl as [Hbl _].
        now left. }
    assert (Hself : memN (fst f) (map fst (f :: fs)) = true).
    { cbn [map]. rewrite memN_cons, N.eqb_refl. reflexivity. }
    assert (Hsub : forall n, memN n (map fst fs) = true -> memN n (map fst (f :: fs)) = true).
    { intros n Hn. cbn [map]. rewrite memN_cons, Hn. apply orb_true_r. }
    (* the member's context references agree between the written dict and what was read so far *)
    assert (Hag : agree (refs (snd f)) full acc).
    { intros m Hm. rewrite forallb_forall in Hrefs. pose proof (Hrefs m Hm) as Hms.
      rewrite Hfull, lookup_app. rewrite (Hseen m Hms). destruct (lookup m acc); reflexivity. }
    assert (Hlkself : lookup (fst f) full = lookup (fst f) kvs).
    { rewrite Hfull, lookup_app, (Hacc _ Hself). reflexivity. }
    cbn [map tdomb] in Hd. cbn [map de_fields].
    assert (Hb2nil : forall b2,
               ser_fields (map (fun f0 => (fst f0, optional (snd f0), ser e (snd f0) full)) fs) full = Some b2 ->
               fs = [] -> b2 = []).
    { intros b2 E2 ->. cbn in E2. now injection E2 as <-. }
    assert (Hcase :
      (exists v kvs', kvs = (fst f, v) :: kvs' /\ domb e pod (snd f) full v = true /\
                      (optional (snd f) && skip && is_none v) = false /\
                      tdomb (map (fun f => (fst f, optional (snd f), domb e pod (snd f) full)) fs) skip kvs' = true)
      \/ ((optional (snd f) && skip) = true /\ domb e pod (snd f) full VNone = true /\
          tdomb (map (fun f => (fst f, optional (snd f), domb e pod (snd f) full)) fs) skip kvs = true)).
    { destruct kvs as [|[n' v] kvs'].
      - right. apply andb_prop in Hd as [Hd Ht]. apply andb_prop in Hd as [Hos Hn]. auto.
      - destruct (fst f =? n') eqn:E.
        + left. apply N.eqb_eq in E. subst n'.
          apply andb_prop in Hd as [Hd Ht]. apply andb_prop in Hd as [Hv Hneg].
          apply negb_true_iff in Hneg. eauto 6.
        + right. apply andb_prop in Hd as [Hd Ht]. apply andb_prop in Hd as [Hos Hn]. auto. }
    destruct Hcase as [(v & kvs' & -> & Hdv & Hneg & Ht) | (Hos & Hdn & Ht)].
    + (* present *)
      rewrite Hlkself in Hser. cbn [lookup] in Hser. rewrite N.eqb_refl in Hser.
      destruct (ser e (snd f) full v) as [b1|] eqn:E1; [|discriminate].
      destruct (ser_fields (map (fun f0 => (fst f0, optional (snd f0), ser e (snd f0) full)) fs) full)
        as [b2|] eqn:E2; [|discriminate].
      injection Hser as <-. rewrite <- app_assoc.
      rewrite (Hs full acc v b1 (b2 ++ rest) Hwfs Hag Hdv E1 (Hhead b2 (Hb2nil b2 eq_refl))).
      rewrite Hneg.
      pose proof (tdomb_keys e pod skip full fs kvs' (fst f) Ht Hnin) as Hnone.
      rewrite (IH full kvs' (acc ++ [(fst f, v)]) (fst f :: seen) b2 rest Hwf Hbl' Hnd Hro Ht);
        [ | | | | exact E2 | exact Hr'].
      * now rewrite <- app_assoc.
      * rewrite Hfull, <- app_assoc. reflexivity.
      * intros m Hm. rewrite memN_cons in Hm. apply orb_prop in Hm as [Hm|Hm].
        -- apply N.eqb_eq in Hm. now subst m.
        -- pose proof (Hseen m Hm) as Hk. cbn [lookup] in Hk.
           destruct (m =? fst f); [discriminate|exact Hk].
      * intros m Hm. rewrite lookup_app, (Hacc m (Hsub m Hm)). cbn [lookup].
        destruct (m =? fst f) eqn:E; [|reflexivity].
        apply N.eqb_eq in E. subst m. rewrite Hm in Hnin. discriminate.
    + (* absent: a skipped optional None *)
      pose proof (tdomb_keys e pod skip full fs kvs (fst f) Ht Hnin) as Hnone.
      rewrite Hlkself, Hnone in Hser.
      apply andb_prop in Hos as [Hopt Hskip]. rewrite Hopt in Hser.
      destruct (ser e (snd f) full VNone) as [b1|] eqn:E1; [|discriminate].
      destruct (ser_fields (map (fun f0 => (fst f0, optional (snd f0), ser e (snd f0) full)) fs) full)
        as [b2|] eqn:E2; [|discriminate].
      injection Hser as <-. rewrite <- app_assoc.
      rewrite (Hs full acc VNone b1 (b2 ++ rest) Hwfs Hag Hdn E1 (Hhead b2 (Hb2nil b2 eq_refl))).
      replace (optional (snd f) && skip && is_none VNone) with true by (rewrite Hopt, Hskip; reflexivity).
      apply (IH full kvs acc (fst f :: seen) b2 rest Hwf Hbl' Hnd Hro Ht Hfull); [ | | exact E2 | exact Hr'].
      * intros m Hm. rewrite memN_cons in Hm. apply orb_prop in Hm as [Hm|Hm].
        -- apply N.eqb_eq in Hm. now subst m.
        -- exact (Hseen m Hm).
      * intros m Hm. exact (Hacc m (Hsub m Hm)).
Qed.

(* ---------- adapters ---------- *)

Lemma items_eqb_eq a b : items_eqb a b = true -> a = b.
Proof.
  revert b; induction a as [|x a IH]; intros b H.
  - destruct b; [reflexivity|discriminate].
  - destruct x; try discriminate; destruct b as [|y b]; try discriminate;
      destruct y; try discriminate; cbn [items_eqb] in H; apply andb_prop in H as [Hx H];
        apply IH in H; subst b.
    + apply Z.eqb_eq in Hx. now subst.
    + apply N.eqb_eq in Hx. now subst.
Qed.

(* the adapter law on the domain: decode (encode v) = v, and the encoded int is in the child's domain *)
Lemma adapter_law_s a pod D v :
  adomb_s a pod D v = true ->
  exists z, aenc_s a v = Some (VInt z) /\ D (VInt z) = true /\ adec_s a pod (VInt z) = Some v.
Proof.
  destruct a as [|tbl strict|tbl|id]; cbn [adomb_s aenc_s adec_s].
  - destruct v; try discriminate. intros H. apply andb_prop in H as [Hz HD].
    exists z. cbn [truthy].
    assert (Hz' : z = 0%Z \/ z = 1%Z) by lia.
    destruct Hz' as [-> | ->]; cbn; auto.
  - destruct v; try discriminate.
    + intros H. apply andb_prop in H as [HD H]. exists z. split; [reflexivity|]. split; [exact HD|].
      destruct (find_value z tbl).
      * apply negb_true_iff in H. now rewrite H.
      * apply negb_true_iff in H. now rewrite H.
    + intros H. apply andb_prop in H as [Hp H].
      destruct (lookup n tbl) as [z|]; [|discriminate]. apply andb_prop in H as [HD H].
      exists z. split; [reflexivity|]. split; [exact HD|].
      destruct (find_value z tbl) as [n'|]; [|discriminate].
      apply N.eqb_eq in H. subst n'. now rewrite Hp.
  - destruct v; try discriminate.
    + intros H. apply andb_prop in H as [Hp HD]. exists z. apply negb_true_iff in Hp.
      rewrite Hp. auto.
    + intros H. apply andb_prop in H as [Hp H].
      destruct (flag_or tbl l) as [z|]; [|discriminate]. apply andb_prop in H as [HD H].
      exists z. apply items_eqb_eq in H. rewrite Hp, H. auto.
  - destruct v; try discriminate. intros HD. exists z. auto.
Qed.

Lemma fval_eqb_eq a b : fval_eqb a b = true -> a = b.
Proof.
  destruct a, b; cbn; try discriminate; intros H.
  - apply Z.eqb_eq in H. now subst.
  - apply N.eqb_eq in H. now subst.
  - apply items_eqb_eq in H. now subst.
Qed.

Lemma kvs_eqb_eq a b : kvs_eqb a b = true -> a = b.
Proof.
  revert b; induction a as [|[k x] a IH]; intros [|[k' y] b]; cbn; try discriminate; [reflexivity|].
  intros H. apply andb_prop in H as [H H3]. apply andb_prop in H as [H1 H2].
  apply N.eqb_eq in H1. apply fval_eqb_eq in H2. apply IH in H3. now subst.
Qed.

Lemma adapter_law a pod D v :
  adomb a pod D v = true ->
  exists z, aenc a v = Some (VInt z) /\ D (VInt z) = true /\ adec a pod (VInt z) = Some v.
Proof.
  destruct a as [a'|fs sh]; cbn [adomb aenc adec].
  - apply adapter_law_s.
  - destruct v as [| | | | | | | | |kvs]; try discriminate.
    destruct (bf_enc fs sh (VDict kvs)) as [[z| | | | | | | | |]|]; try discriminate.
    intros H. apply andb_prop in H as [HD H]. exists z. split; [reflexivity|]. split; [exact HD|].
    destruct (bf_dec fs sh pod (VInt z)) as [[| | | | | | | | |kvs']|]; try discriminate.
    apply kvs_eqb_eq in H. now subst.
Qed.

(* ---------- typed bytes ---------- *)

Lemma frame_rt e k buf out rest :
  match k with TBTerm ts _ => is_nil ts = false /\ no_term ts buf = true | _ => True end ->
  frame_ser e k buf = Some out ->
  (match k with TBGreedy => false | _ => true end = true \/ rest = []) ->
  frame_de e k (out ++ rest) = Some (buf, rest).
Proof.
  destruct k; cbn [frame_ser frame_de]; intros Hk Hs Hr.
  - injection Hs as <-. destruct Hr as [Hr| ->]; [discriminate|]. now rewrite app_nil_r.
  - now apply de_ser_bytearray.
  - apply ser_fixed_some in Hs as [-> Hn]. now apply takeN_app.
  - destruct Hk as [Hts Hnt].
    apply (de_ser_term ts true true buf out rest); [|exact Hnt|exact Hs|now left].
    unfold term_ok. now rewrite Hts.
Qed.

Lemma de_typed_eq e pod k s en ct c b :
  de e pod (STypedBytes k s en ct) c b =
  match frame_de e k b with
  | None => None
  | Some (buf, r) =>
    if en && is_nil buf then Some (VNone, r)
    else match de e pod s c buf with
         | Some (v, lo) => if ct && negb (is_nil lo) then None else Some (v, r)
         | None => None
         end
  end.
Proof. reflexivity. Qed.

Lemma is_none_eq v : is_none v = true -> v = VNone.
Proof. destruct v; try discriminate; reflexivity. Qed.

(* ---------- switches ---------- *)

Lemma find_choice_map {K A B} (eqb : K -> K -> bool) (F : A -> B) k (cs : list (K * A)) :
  find_choice eqb k (map (fun c => (fst c, F (snd c))) cs) =
  match find_choice eqb k cs with Some a => Some (F a) | None => None end.
Proof.
  induction cs as [|[k' a] cs IH]; cbn; [reflexivity|]. destruct (eqb k k'); [reflexivity|exact IH].
Qed.

Lemma find_choice_in {K A} (eqb : K -> K -> bool) k (cs : list (K * A)) a :
  find_choice eqb k cs = Some a -> exists k', In (k', a) cs /\ eqb k k' = true.
Proof.
  induction cs as [|[k' a'] cs IH]; cbn; [discriminate|].
  destruct (eqb k k') eqn:E.
  - intros H; injection H as <-. eauto.
  - intros H. destruct (IH H) as (k2 & Hin & He). eauto.
Qed.

Definition pick {A} (k : N) (cs : list (option N * A)) : option A :=
  match find_choice optN_eqb (Some k) cs with
  | Some a => Some a
  | None => find_choice optN_eqb None cs
  end.

Lemma pick_map {A B} (F : A -> B) k (cs : list (option N * A)) :
  pick k (map (fun c => (fst c, F (snd c))) cs) =
  match pick k cs with Some a => Some (F a) | None => None end.
Proof.
  unfold pick. rewrite !find_choice_map.
  destruct (find_choice optN_eqb (Some k) cs); [reflexivity|].
  destruct (find_choice optN_eqb None cs); reflexivity.
Qed.

Lemma pick_in {A} k (cs : list (option N * A)) a : pick k cs = Some a -> exists k', In (k', a) cs.
Proof.
  unfold pick. destruct (find_choice optN_eqb (Some k) cs) eqn:E.
  - intros H; injection H as <-. destruct (find_choice_in _ _ _ _ E) as (k' & Hin & _). eauto.
  - intros H. destruct (find_choice_in _ _ _ _ H) as (k' & Hin & _). eauto.
Qed.

Lemma pick_apply {A B} k (M : list (option N * (A -> option B))) x r :
  match find_choice optN_eqb (Some k) M with
  | Some f => f x
  | None => match find_choice optN_eqb None M with Some f => f x | None => None end
  end = Some r ->
  exists f, pick k M = Some f /\ f x = Some r.
Proof.
  unfold pick. destruct (find_choice optN_eqb (Some k) M) as [f|]; [eauto|].
  destruct (find_choice optN_eqb None M) as [f|]; [eauto|discriminate].
Qed.

Lemma ctx_pick_map {A B} (F : A -> B) k (cs : list (option Z * A)) :
  ctx_pick k (map (fun c => (fst c, F (snd c))) cs) =
  match ctx_pick k cs with Some a => Some (F a) | None => None end.
Proof.
  unfold ctx_pick. destruct k as [z|].
  - rewrite (find_choice_map optZ_eqb F (Some z) cs), (find_choice_map optZ_eqb F None cs).
    destruct (find_choice optZ_eqb (Some z) cs); [reflexivity|].
    destruct (find_choice optZ_eqb None cs); reflexivity.
  - rewrite (find_choice_map optZ_eqb F None cs).
    destruct (find_choice optZ_eqb None cs); reflexivity.
Qed.

Lemma ctx_pick_in {A} k (cs : list (option Z * A)) a : ctx_pick k cs = Some a -> exists k', In (k', a) cs.
Proof.
  unfold ctx_pick. destruct k as [z|].
  - destruct (find_choice optZ_eqb (Some z) cs) eqn:E.
    + intros H; injection H as <-. destruct (find_choice_in _ _ _ _ E) as (k' & Hin & _). eauto.
    + intros H. destruct (find_choice_in _ _ _ _ H) as (k' & Hin & _). eauto.
  - intros H. destruct (find_choice_in _ _ _ _ H) as (k' & Hin & _). eauto.
Qed.

Lemma ctx_key_agree cs cd f : lookup f cs = lookup f cd -> ctx_key cs f = ctx_key cd f.
Proof. unfold ctx_key. now intros ->. Qed.

(* ---------- FlagSwitch ---------- *)

Lemma fsdomb_keys e pod c cs : forall z kvs n,
  fsdomb (map (fun c' => (fst (fst c'), snd (fst c'), domb e pod (snd c') c)) cs) z kvs = true ->
  memN n (map (fun c' => fst (fst c')) cs) = false -> lookup n kvs = None.
Proof.
  induction cs as [|[[n0 cz] s0] cs IH]; intros z kvs n Hd Hn.
  - cbn in Hd. destruct kvs; [reflexivity|discriminate].
  - cbn [map fst snd] in Hn. rewrite memN_cons in Hn. apply orb_false_iff in Hn as [Hnf Hn].
    cbn [map fsdomb fst snd] in Hd. destruct (Z.eqb (Z.land z cz) 0).
    + now apply (IH z).
    + destruct kvs as [|[n' x] kvs']; [discriminate|].
      apply andb_prop in Hd as [Hd Ht]. apply andb_prop in Hd as [He _].
      apply N.eqb_eq in He. subst n'. cbn [lookup]. rewrite Hnf. now apply (IH z).
Qed.

Lemma rt_choices e pod c1 c2 cs : Forall (fun c' => rt_at e pod (snd c')) cs ->
  (forall c', In c' cs -> agree (refs (snd c')) c1 c2) ->
  forall z full kvs b rest,
    forallb (fun c' => wf (snd c')) cs = true ->
    butlast_all (map (fun c' => delimited (snd c')) cs) = true ->
    nodupN (map (fun c' => fst (fst c')) cs) = true ->
    fsdomb (map (fun c' => (fst (fst c'), snd (fst c'), domb e pod (snd c') c1)) cs) z kvs = true ->
    (forall n, memN n (map (fun c' => fst (fst c')) cs) = true -> lookup n full = lookup n kvs) ->
    ser_choices (map (fun c' => (fst (fst c'), ser e (snd c') c1)) cs) full = Some b ->
    (forallb (fun c' => delimited (snd c')) cs = true \/ rest = []) ->
    de_choices (map (fun c' => (fst (fst c'), snd (fst c'), de e pod (snd c') c2)) cs) z (b ++ rest)
    = Some (kvs, rest).
Proof.
  induction 1 as [|[[n cz] s] cs Hs _ IH]; intros Hag z full kvs b rest Hwf Hbl Hnd Hd Hlk Hser Hr.
  - cbn in Hd. destruct kvs; [|discriminate]. injection Hser as <-. reflexivity.
  - cbn [snd] in Hs. cbn [map ser_choices fst snd] in Hser. cbn [forallb snd] in Hwf.
    apply andb_prop in Hwf as [Hwfs Hwf].
    cbn [map nodupN fst snd] in Hnd. apply andb_prop in Hnd as [Hnin Hnd]. apply negb_true_iff in Hnin.
    assert (Hbl' : butlast_all (map (fun c' => delimited (snd c')) cs) = true).
    { destruct cs as [|c2' cs']; [reflexivity|].
      cbn [map] in Hbl. rewrite butlast_all_cons in Hbl. now apply andb_prop in Hbl as [_ Hbl]. }
    assert (Hr' : forallb (fun c' => delimited (snd c')) cs = true \/ rest = []).
    { destruct Hr as [Hr|Hr]; [left|right; exact Hr].
      cbn [forallb] in Hr. now apply andb_prop in Hr as [_ Hr]. }
    assert (Hhead : forall b2, (cs = [] -> b2 = []) -> delimited s = true \/ b2 ++ rest = []).
    { intros b2 Hb2. destruct cs as [|c2' cs'].
      - rewrite (Hb2 eq_refl). cbn [app].
        destruct Hr as [Hr|Hr]; [left|right; exact Hr].
        cbn in Hr. now rewrite andb_true_r in Hr.
      - cbn [map snd] in Hbl. rewrite butlast_all_cons in Hbl. apply andb_prop in Hbl as [Hbl _].
        now left. }
    assert (Hself : memN n (map (fun c' => fst (fst c')) ((n, cz, s) :: cs)) = true).
    { cbn [map fst]. rewrite memN_cons, N.eqb_refl. reflexivity. }
    assert (Hsub : forall m, memN m (map (fun c' => fst (fst c')) cs) = true ->
                             memN m (map (fun c' => fst (fst c')) ((n, cz, s) :: cs)) = true).
    { intros m Hm. cbn [map fst]. rewrite memN_cons, Hm. apply orb_true_r. }
    assert (Hag' : forall c', In c' cs -> agree (refs (snd c')) c1 c2) by (intros c' Hc; apply Hag; now right).
    pose proof (Hag _ (or_introl eq_refl)) as Hags. cbn [snd] in Hags.
    cbn [map fsdomb fst snd] in Hd. cbn [map de_choices fst snd].
    destruct (Z.eqb (Z.land z cz) 0).
    + (* not selected *)
      pose proof (fsdomb_keys e pod c1 cs z kvs n Hd Hnin) as Hnone.
      rewrite (Hlk n Hself), Hnone in Hser.
      apply (IH Hag' z full kvs b rest Hwf Hbl' Hnd Hd); [|exact Hser|exact Hr'].
      intros m Hm. apply Hlk, Hsub, Hm.
    + destruct kvs as [|[n' x] kvs']; [discriminate|].
      apply andb_prop in Hd as [Hd Ht]. apply andb_prop in Hd as [He Hdx].
      apply N.eqb_eq in He. subst n'.
      rewrite (Hlk n Hself) in Hser. cbn [lookup] in Hser. rewrite N.eqb_refl in Hser.
      destruct (ser e s c1 x) as [b1|] eqn:E1; [|discriminate].
      destruct (ser_choices (map (fun c' => (fst (fst c'), ser e (snd c') c1)) cs) full) as [b2|] eqn:E2;
        [|discriminate].
      injection Hser as <-. rewrite <- app_assoc.
      assert (Hb2 : cs = [] -> b2 = []) by (intros ->; cbn in E2; now injection E2 as <-).
      rewrite (Hs c1 c2 x b1 (b2 ++ rest) Hwfs Hags Hdx E1 (Hhead b2 Hb2)).
      rewrite (IH Hag' z full kvs' b2 rest Hwf Hbl' Hnd Ht); [reflexivity| |exact E2|exact Hr'].
      intros m Hm. rewrite (Hlk m (Hsub m Hm)). cbn [lookup].
      destruct (m =? n) eqn:E; [|reflexivity].
      apply N.eqb_eq in E. subst m. rewrite Hm in Hnin. discriminate.
Qed.

Lemma optN_eqb_eq a b : optN_eqb a b = true -> a = b.
Proof.
  destruct a, b; cbn; try discriminate; try reflexivity. intros H. apply N.eqb_eq in H. now subst.
Qed.

(* ---------- the theorem ---------- *)

Lemma agree_sub rs rs' cs cd : (forall n, In n rs' -> In n rs) -> agree rs cs cd -> agree rs' cs cd.
Proof. intros Hsub H n Hn. apply H, Hsub, Hn. Qed.

Lemma ctx_flag_agree cs cd f ftbl : lookup f cs = lookup f cd -> ctx_flag cs f ftbl = ctx_flag cd f ftbl.
Proof. unfold ctx_flag. now intros ->. Qed.

Theorem roundtrip e pod s : rt_at e pod s.
Proof.
  induction s using spec_ind'.
  - now apply rt_leaf.
  - (* tuple *)
    intros cs cd v b rest Hwf _ Hd Hs Hr. cbn [ser de domb wf delimited] in *.
    destruct v as [| | | | | | | |vs|]; try discriminate.
    apply andb_prop in Hwf as [Hwf Hbl].
    now rewrite (rt_seq e pod ss H vs b rest Hwf Hbl Hd Hs Hr).
  - (* template *)
    intros cs cd v b rest Hwf _ Hd Hs Hr. cbn [ser de domb wf delimited] in *.
    destruct v as [| | | | | | | | |kvs]; try discriminate.
    apply andb_prop in Hwf as [Hwf Hro]. apply andb_prop in Hwf as [Hwf Hnd].
    apply andb_prop in Hwf as [Hwf Hbl].
    now rewrite (rt_fields e pod skip fs H kvs kvs [] [] b rest Hwf Hbl Hnd Hro Hd eq_refl
                           (fun m Hm => ltac:(discriminate Hm)) (fun m _ => eq_refl) Hs Hr).
  - (* collection *)
    intros cs cd v b rest Hwf _ Hd Hs Hr. cbn [ser de domb wf delimited] in *.
    destruct v as [| | | | | | | |vs|]; try discriminate.
    apply andb_prop in Hwf as [Hwf Hk]. apply andb_prop in Hwf as [Hwf Hdl].
    apply andb_prop in Hd as [Hd Hlen].
    destruct k as [ip|m|].
    + destruct (ip_max ip <? Z.of_nat (length vs))%Z; [discriminate|].
      destruct (enc_int e ip (Z.of_nat (length vs))) as [h|] eqn:Eh; [|discriminate].
      destruct (ser_all (ser e s []) vs) as [r|] eqn:Er; [|discriminate].
      injection Hs as <-. rewrite <- app_assoc, (dec_enc_int _ _ _ _ _ Eh).
      rewrite de_count_spec. replace (N.to_nat (Z.to_N (Z.of_nat (length vs)))) with (length vs) by lia.
      now rewrite (rt_all_n e pod s IHs Hwf Hdl vs r rest Hd Er).
    + destruct (m =? 0) eqn:Em.
      * cbn [negb andb] in Hs. cbn [orb] in Hk. cbn [negb] in Hr.
        destruct Hr as [Hr| ->]; [discriminate|]. rewrite app_nil_r.
        rewrite (rt_all_greedy e pod s IHs Hwf Hdl ltac:(lia) vs b (length b) Hd Hs (le_n _)).
        reflexivity.
      * cbn [negb andb orb] in Hs, Hlen.
        destruct (N.of_nat (length vs) =? m) eqn:El; [|discriminate]. cbn [negb] in Hs.
        rewrite de_count_spec. replace (N.to_nat m) with (length vs) by lia.
        now rewrite (rt_all_n e pod s IHs Hwf Hdl vs b rest Hd Hs).
    + destruct Hr as [Hr| ->]; [discriminate|]. rewrite app_nil_r.
      rewrite (rt_all_greedy e pod s IHs Hwf Hdl ltac:(lia) vs b (length b) Hd Hs (le_n _)).
      reflexivity.
  - (* optional prefixed *)
    intros cs cd v b rest Hwf Hag Hd Hs Hr. rewrite ser_opt_eq in Hs.
    cbn [de domb wf delimited refs] in *.
    destruct (is_none v) eqn:En.
    + injection Hs as <-. apply is_none_eq in En. subst v. reflexivity.
    + cbn [orb] in Hd. destruct (ser e s cs v) as [b'|] eqn:E; [|discriminate].
      injection Hs as <-. cbn [app]. change (1 =? 0) with false. cbn iota.
      exact (IHs cs cd v b' rest Hwf Hag Hd E Hr).
  - (* adapter *)
    intros cs cd v b rest Hwf Hag Hd Hs Hr. cbn [ser de domb wf delimited refs] in *.
    apply andb_prop in Hwf as [Hwf _].
    destruct (adapter_law a pod _ v Hd) as (z & Henc & HD & Hdec).
    rewrite Henc in Hs. rewrite (IHs cs cd (VInt z) b rest Hwf Hag HD Hs Hr). now rewrite Hdec.
  - (* typed bytes *)
    intros cs cd v b rest Hwf Hag Hd Hs Hr. rewrite ser_typed_eq in Hs. rewrite de_typed_eq.
    cbn [domb wf delimited refs] in *.
    apply andb_prop in Hwf as [Hwf Hk]. apply andb_prop in Hwf as [Hwf Hen].
    destruct (en && is_none v) eqn:En.
    + apply andb_prop in En as [En Hn]. apply is_none_eq in Hn. subst v en.
      destruct k as [|ip|n|ts sk].
      * rewrite (frame_rt e TBGreedy [] b rest I Hs Hr). reflexivity.
      * rewrite (frame_rt e (TBArray ip) [] b rest I Hs Hr). reflexivity.
      * rewrite (frame_rt e (TBFixed n) [] b rest I Hs Hr). reflexivity.
      * apply negb_true_iff in Hk. destruct sk.
        -- injection Hs as <-. cbn [andb negb] in Hr. destruct Hr as [Hr| ->]; [discriminate|].
           cbn [app frame_de de_term scan]. reflexivity.
        -- rewrite (frame_rt e (TBTerm ts false) [] b rest (conj Hk eq_refl) Hs (or_introl eq_refl)).
           reflexivity.
    + cbn [orb] in Hd. apply andb_prop in Hd as [Hd Hnt].
      destruct (ser e s cs v) as [buf|] eqn:E; [|discriminate].
      assert (Hfr : frame_de e k (b ++ rest) = Some (buf, rest)).
      { destruct k as [|ip|n|ts sk].
        - exact (frame_rt e TBGreedy buf b rest I Hs Hr).
        - exact (frame_rt e (TBArray ip) buf b rest I Hs Hr).
        - exact (frame_rt e (TBFixed n) buf b rest I Hs Hr).
        - apply negb_true_iff in Hk.
          exact (frame_rt e (TBTerm ts sk) buf b rest (conj Hk Hnt) Hs (or_introl eq_refl)). }
      rewrite Hfr.
      assert (Hne : (en && is_nil buf) = false).
      { destruct en; [|reflexivity]. cbn [negb orb] in Hen.
        pose proof (min_size_bound e s cs v buf E). destruct buf; [cbn in *; lia|reflexivity]. }
      rewrite Hne.
      pose proof (IHs cs cd v buf [] Hwf Hag Hd E (or_intror eq_refl)) as Hi.
      rewrite app_nil_r in Hi. rewrite Hi. cbn [is_nil negb]. now rewrite andb_false_r.
  - (* ifpresent: a window spec *)
    intros c1 c2 v b rest Hwf Hag Hd Hs Hr. rewrite ser_ifpresent_eq in Hs.
    cbn [domb wf delimited refs] in *.
    destruct Hr as [Hr| ->]; [discriminate|]. rewrite app_nil_r.
    apply andb_prop in Hwf as [Hwf Hms].
    destruct (is_none v) eqn:En.
    + injection Hs as <-. apply is_none_eq in En. now subst v.
    + cbn [orb] in Hd. pose proof (min_size_bound e s c1 v b Hs) as Hb.
      destruct b as [|x b']; [cbn in Hb; lia|]. cbn [de].
      pose proof (IHs c1 c2 v (x :: b') [] Hwf Hag Hd Hs (or_intror eq_refl)) as Hi.
      rewrite app_nil_r in Hi. exact Hi.
  - (* lengthswitch: a window spec; the tag is the size of the window *)
    intros c1 c2 v b rest Hwf Hag Hd Hs Hr. cbn [ser de domb wf delimited refs] in *.
    destruct Hr as [Hr| ->]; [discriminate|]. rewrite app_nil_r.
    destruct v as [| | | | | | | |l|]; try discriminate.
    destruct l as [|t [|x [|? ?]]]; try discriminate.
    destruct t as [t| | | | | | | | |]; try discriminate.
    apply andb_prop in Hd as [Ht Hd].
    replace (t <? 0)%Z with false in Hs by lia.
    apply pick_apply in Hs as (f & Hp & Hf).
    pose proof (pick_map (fun s0 => ser e s0 c1) (Z.to_N t) cs) as Fs. cbv beta in Fs.
    rewrite Fs in Hp. clear Fs.
    destruct (pick (Z.to_N t) cs) as [s'|] eqn:Ep; [|discriminate]. injection Hp as <-.
    pose proof (pick_map (fun s0 => (ser e s0 c1, domb e pod s0 c1)) (Z.to_N t) cs) as Fd.
    rewrite Ep in Fd. unfold pick in Fd. cbv beta in Fd. rewrite Fd in Hd. clear Fd.
    apply andb_prop in Hd as [Hdx Hlen]. rewrite Hf in Hlen. apply N.eqb_eq in Hlen. rewrite Hlen.
    pose proof (pick_map (fun s0 => de e pod s0 c2) (Z.to_N t) cs) as Fde.
    rewrite Ep in Fde. unfold pick in Fde. cbv beta in Fde. rewrite Fde. clear Fde.
    destruct (pick_in _ _ _ Ep) as (k' & Hin).
    rewrite Forall_forall in H. pose proof (H _ Hin) as IH'. cbn [snd] in IH'.
    rewrite forallb_forall in Hwf. pose proof (Hwf _ Hin) as Hwf'. cbn [snd] in Hwf'.
    assert (Hag' : agree (refs s') c1 c2).
    { apply (agree_sub _ _ _ _ (fun n Hn => ltac:(apply in_flat_map; exists (k', s'); split; [exact Hin|exact Hn])) Hag). }
    pose proof (IH' c1 c2 x b [] Hwf' Hag' Hdx Hf (or_intror eq_refl)) as Hi.
    rewrite app_nil_r in Hi. rewrite Hi. rewrite Z2N.id by lia. reflexivity.
  - (* enumswitch *)
    intros c1 c2 v b rest Hwf Hag Hd Hs Hr. cbn [ser de domb wf delimited refs] in *.
    destruct v as [| | | | | | | |l|]; try discriminate.
    destruct l as [|t [|x [|? ?]]]; try discriminate.
    apply andb_prop in Hd as [Hda Hd].
    destruct (adapter_law_s _ pod _ t Hda) as (z & Henc & HD & Hdec).
    rewrite Henc in Hs, Hd. cbv beta iota in Hs, Hd.
    pose proof (find_choice_map Z.eqb (fun s0 => ser e s0 c1) z cs) as Fs. cbv beta in Fs.
    pose proof (find_choice_map Z.eqb (fun s0 => domb e pod s0 c1) z cs) as Fd. cbv beta in Fd.
    pose proof (find_choice_map Z.eqb (fun s0 => de e pod s0 c2) z cs) as Fde. cbv beta in Fde.
    rewrite Fs in Hs. rewrite Fd in Hd.
    destruct (enc_int e ip z) as [h|] eqn:Eh; [|discriminate].
    destruct (find_choice Z.eqb z cs) as [s'|] eqn:Ec; [|discriminate].
    destruct (ser e s' c1 x) as [r|] eqn:Er; [|discriminate]. injection Hs as <-.
    rewrite <- app_assoc, (dec_enc_int _ _ _ _ _ Eh). rewrite Hdec, Fde. cbv beta iota.
    destruct (find_choice_in _ _ _ _ Ec) as (k' & Hin & _).
    rewrite Forall_forall in H. pose proof (H _ Hin) as IH'. cbn [snd] in IH'.
    rewrite forallb_forall in Hwf. pose proof (Hwf _ Hin) as Hwf'. cbn [snd] in Hwf'.
    assert (Hr' : delimited s' = true \/ rest = []).
    { destruct Hr as [Hr|Hr]; [left|now right].
      rewrite forallb_forall in Hr. exact (Hr _ Hin). }
    assert (Hag' : agree (refs s') c1 c2).
    { apply (agree_sub _ _ _ _ (fun n Hn => ltac:(apply in_flat_map; exists (k', s'); split; [exact Hin|exact Hn])) Hag). }
    now rewrite (IH' c1 c2 x r rest Hwf' Hag' Hd Er Hr').
  - (* optional flagged: presence decided by a sibling that both sides see *)
    intros c1 c2 v b rest Hwf Hag Hd Hs Hr. cbn [ser de domb wf delimited refs] in *.
    rewrite <- (ctx_flag_agree c1 c2 f ftbl (Hag f (or_introl eq_refl))).
    destruct (ctx_flag c1 f ftbl) as [z|]; [|discriminate].
    destruct (Z.eqb (Z.land z mask) 0).
    + injection Hs as <-. apply is_none_eq in Hd. subst v. reflexivity.
    + apply (IHs c1 c2 v b rest Hwf); [|exact Hd|exact Hs|exact Hr].
      intros n Hn. apply Hag. now right.
  - (* context switch: the branch is chosen by a sibling that both sides see *)
    intros c1 c2 v b rest Hwf Hag Hd Hs Hr. cbn [ser de domb wf delimited refs] in *.
    rewrite <- (ctx_key_agree c1 c2 f (Hag f (or_introl eq_refl))).
    destruct (ctx_key c1 f) as [k|]; [|discriminate].
    pose proof (ctx_pick_map (fun s0 => ser e s0 c1) k cs) as Fs. cbv beta in Fs. rewrite Fs in Hs. clear Fs.
    pose proof (ctx_pick_map (fun s0 => domb e pod s0 c1) k cs) as Fd. cbv beta in Fd. rewrite Fd in Hd. clear Fd.
    pose proof (ctx_pick_map (fun s0 => de e pod s0 c2) k cs) as Fde. cbv beta in Fde. rewrite Fde. clear Fde.
    destruct (ctx_pick k cs) as [s'|] eqn:Ep; [|discriminate].
    destruct (ctx_pick_in _ _ _ Ep) as (k' & Hin).
    rewrite Forall_forall in H. pose proof (H _ Hin) as IH'. cbn [snd] in IH'.
    rewrite forallb_forall in Hwf. pose proof (Hwf _ Hin) as Hwf'. cbn [snd] in Hwf'.
    assert (Hr' : delimited s' = true \/ rest = []).
    { destruct Hr as [Hr|Hr]; [left|now right].
      rewrite forallb_forall in Hr. exact (Hr _ Hin). }
    assert (Hag' : agree (refs s') c1 c2).
    { intros n Hn. apply Hag. right. apply in_flat_map. exists (k', s'). split; [exact Hin|exact Hn]. }
    exact (IH' c1 c2 v b rest Hwf' Hag' Hd Hs Hr').
  - (* context adapter *)
    intros c1 c2 v b rest Hwf Hag Hd Hs Hr. cbn [ser de domb wf delimited refs] in *.
    rewrite <- (ctx_key_agree c1 c2 f (Hag f (or_introl eq_refl))).
    destruct (ctx_key c1 f) as [k|]; [|discriminate].
    assert (Hag' : agree (refs s) c1 c2) by (intros n Hn; apply Hag; now right).
    destruct (ctx_pick k opts) as [[a|]|]; try discriminate.
    + destruct (adapter_law_s a pod _ v Hd) as (z & Henc & HD & Hdec).
      rewrite Henc in Hs. rewrite (IHs c1 c2 (VInt z) b rest Hwf Hag' HD Hs Hr). now rewrite Hdec.
    + now rewrite (IHs c1 c2 v b rest Hwf Hag' Hd Hs Hr).
  - (* flag switch *)
    intros c1 c2 v b rest Hwf Hag Hd Hs Hr. cbn [ser de domb wf delimited refs] in *.
    destruct v as [| | | | | | | | |kvs]; try discriminate.
    destruct (flag_or tbl (map (fun kv => VName (fst kv)) kvs)) as [z|]; [|discriminate].
    apply andb_prop in Hd as [_ Hd].
    apply andb_prop in Hwf as [Hwf Hnd]. apply andb_prop in Hwf as [Hwf Hbl].
    destruct (enc_int e ip z) as [h|] eqn:Eh; [|discriminate].
    destruct (ser_choices (map (fun c' => (fst (fst c'), ser e (snd c') c1)) cs) kvs) as [r|] eqn:Er;
      [|discriminate].
    injection Hs as <-. rewrite <- app_assoc, (dec_enc_int _ _ _ _ _ Eh).
    rewrite (rt_choices e pod c1 c2 cs H
               (fun c' Hc n Hn => Hag n ltac:(apply in_flat_map; exists c'; split; [exact Hc|exact Hn]))
               z kvs kvs r rest Hwf Hbl Hnd Hd (fun n _ => eq_refl) Er Hr).
    reflexivity.
Qed.

(* ---------- corollaries: windows and composition ---------- *)

Corollary rt_delimited e pod s cs cd v b :
  wf s = true -> agree (refs s) cs cd -> delimited s = true -> domb e pod s cs v = true ->
  ser e s cs v = Some b ->
  forall rest, de e pod s cd (b ++ rest) = Some (v, rest).
Proof. intros Hwf Hag Hdl Hd Hs rest. exact (roundtrip e pod s cs cd v b rest Hwf Hag Hd Hs (or_introl Hdl)). Qed.

Corollary rt_window e pod s cs cd v b :
  wf s = true -> agree (refs s) cs cd -> domb e pod s cs v = true -> ser e s cs v = Some b ->
  de e pod s cd b = Some (v, []).
Proof.
  intros Hwf Hag Hd Hs.
  pose proof (roundtrip e pod s cs cd v b [] Hwf Hag Hd Hs (or_intror eq_refl)) as H.
  now rewrite app_nil_r in H.
Qed.

(* a spec without context references (every spec not nested directly under a Template member that an
   OptionalFlagged refers to) round-trips under arbitrary, unrelated contexts *)
Corollary rt_closed e pod s cs cd v b rest :
  wf s = true -> refs s = [] -> domb e pod s cs v = true -> ser e s cs v = Some b ->
  (delimited s = true \/ rest = []) ->
  de e pod s cd (b ++ rest) = Some (v, rest).
Proof.
  intros Hwf Hrefs Hd Hs Hr. apply (roundtrip e pod s cs cd v b rest Hwf); try assumption.
  rewrite Hrefs. apply agree_nil.
Qed.

(* two encodings written one after the other are read back one after the other *)
Corollary compose_seq e pod s1 s2 c1 c2 d1 d2 v1 v2 b1 b2 rest :
  wf s1 = true -> agree (refs s1) c1 d1 -> delimited s1 = true -> domb e pod s1 c1 v1 = true ->
  ser e s1 c1 v1 = Some b1 ->
  wf s2 = true -> agree (refs s2) c2 d2 -> domb e pod s2 c2 v2 = true -> ser e s2 c2 v2 = Some b2 ->
  (delimited s2 = true \/ rest = []) ->
  de e pod s1 d1 (b1 ++ b2 ++ rest) = Some (v1, b2 ++ rest) /\
  de e pod s2 d2 (b2 ++ rest) = Some (v2, rest).
Proof.
  intros W1 A1 D1 M1 S1 W2 A2 M2 S2 Hr. split.
  - exact (rt_delimited e pod s1 c1 d1 v1 b1 W1 A1 D1 M1 S1 (b2 ++ rest)).
  - exact (roundtrip e pod s2 c2 d2 v2 b2 rest W2 A2 M2 S2 Hr).
Qed.

(* ... and they are the encoding of the pair under the Tuple combinator *)
Corollary compose_tuple e pod s1 s2 c cd v1 v2 b1 b2 rest :
  wf s1 = true -> delimited s1 = true -> domb e pod s1 [] v1 = true -> ser e s1 [] v1 = Some b1 ->
  wf s2 = true -> domb e pod s2 [] v2 = true -> ser e s2 [] v2 = Some b2 ->
  (delimited s2 = true \/ rest = []) ->
  ser e (STuple [s1; s2]) c (VList [v1; v2]) = Some (b1 ++ b2) /\
  de e pod (STuple [s1; s2]) cd ((b1 ++ b2) ++ rest) = Some (VList [v1; v2], rest).
Proof.
  intros W1 D1 M1 S1 W2 M2 S2 Hr.
  assert (Hs : ser e (STuple [s1; s2]) c (VList [v1; v2]) = Some (b1 ++ b2)).
  { cbn [ser map ser_seq]. rewrite S1, S2. now rewrite app_nil_r. }
  split; [exact Hs|].
  apply (roundtrip e pod (STuple [s1; s2]) c cd (VList [v1; v2]) (b1 ++ b2) rest).
  - cbn [wf forallb map butlast_all]. now rewrite W1, W2, D1.
  - apply agree_nil.
  - cbn [domb map all2]. now rewrite M1, M2.
  - exact Hs.
  - cbn [delimited forallb]. rewrite D1. destruct Hr as [Hr|Hr]; [left; now rewrite Hr|now right].
Qed.

(* n encodings in a row are the body of a Collection and are read back as the list *)
Corollary compose_collection e pod s cd vs b :
  wf s = true -> delimited s = true -> 0 < min_size s ->
  forallb (domb e pod s []) vs = true -> ser_all (ser e s []) vs = Some b ->
  de e pod (SCollection LGreedy s) cd b = Some (VList vs, []).
Proof.
  intros W D M Hd Hs.
  apply (rt_window e pod (SCollection LGreedy s) [] cd (VList vs) b).
  - cbn [wf]. rewrite W, D. cbn. lia.
  - apply agree_nil.
  - cbn [domb]. now rewrite Hd.
  - exact Hs.
Qed.
