(* C09 (byte-payload clauses) - static fragments of the combinator grammar of Spec.v for which the DECODER is sound:
   whatever [de] accepts is a value of the domain [domb] and can be written again by [ser].  Definitions only
   (proofs: SpecSoundProofs.v).

     sound_frag s   every accepted byte string decodes to a domain value that re-encodes (de_sound);
     canon s        ... and the re-encoding is the very bytes that were consumed (no non-canonical input exists).

   Where a constructor has accepted inputs whose decoded value cannot be written back, it is excluded from
   [sound_frag] and a witness is proved in SpecSoundProofs.v (..._refuted).  [canon] is what makes a length-framed
   wrapper (TypedBytes with a length prefix / fixed size, the size-keyed default branch of a LengthSwitch) sound:
   the frame that was read fits again only when the inner re-encoding has the length that was read. *)
From Coq Require Import NArith ZArith List Bool.
From HV Require Import Base.Bytes Spec.Spec Spec.SpecAdapters.
Import ListNotations.
Open Scope N_scope.

Definition int_child (s : spec) : bool := match s with SPrim (PI _) => true | _ => false end.

Definition unsigned_ip (ip : iprim) : bool := match ip with IP sg _ => negb sg end.

(* simple adapters over an integer primitive: tables as the harness reads them from the live enum classes
   (unique names; IntFlag members single bits) *)
Definition sa_sound (a : sadapter) : bool :=
  match a with
  | ABool | AOpaqueInt _ => true
  | AEnum tbl _ => nodupN (map fst tbl)
  | AFlag tbl => flags_ok tbl
  end.

(* BoolAdapter reads any non-zero int as True and writes 1 *)
Definition sa_canon (a : sadapter) : bool := match a with ABool => false | _ => true end.

(* shifted / unshifted BitField over an unsigned primitive: every entry adapter is sound; a Bool entry of an
   unshifted field must sit at bit 0 (it writes 1, not 1 << position) - see bf_bool_unshifted_refuted *)
Fixpoint bf_entries_ok (fs : bschema) (shift : bool) (first : bool) : bool :=
  match fs with
  | [] => true
  | (_, bits, fa) :: fs' =>
    match fa with
    | None => true
    | Some ABool => (0 <? bits) && (shift || first)
    | Some a => sa_sound a
    end && bf_entries_ok fs' shift false
  end.

Definition bf_total (fs : bschema) : N := fold_right (fun f a => snd (fst f) + a) 0 fs.

Definition ad_sound (a : adapter) (s : spec) : bool :=
  match a, s with
  | ASimple a', SPrim (PI _) => sa_sound a'
  | ABitField fs sh, SPrim (PI (IP false w)) => bf_entries_ok fs sh true && (bf_total fs <=? 8 * wN w)
  | _, _ => false
  end.

Definition ad_canon (a : adapter) : bool :=
  match a with ASimple a' => sa_canon a' | ABitField _ _ => false end.

Definition key_is_size (k : option N) (s : spec) : bool :=
  match k with Some n => optN_eqb (exact_size s) (Some n) | None => false end.

Fixpoint canon (s : spec) : bool :=
  match s with
  | SPrim _ | SByteArray _ | SBytesFixed _ | SBytesGreedy | SUUID | SNull => true
  | SBytesTerm _ _ _ | SStr _ _ | SStrFixed _ | SCStr _ _ _ => false
  | STuple ss => forallb canon ss
  | STemplate fs _ _ => forallb (fun f => canon (snd f)) fs
  | SCollection k s' => canon s' && match k with LPrefixed ip => unsigned_ip ip | _ => true end
  | SOptPrefixed _ => false
  | SAdapter a s' => ad_canon a && canon s'
  | STypedBytes k s' en ct =>
    canon s' && ct && negb en && match k with TBTerm _ _ => false | _ => true end
  | SIfPresent _ => false
  | SLengthSwitch cs => forallb (fun c => canon (snd c)) cs
  | SEnumSwitch _ _ _ cs => forallb (fun c => canon (snd c)) cs
  | SOptFlagged _ _ _ s' => canon s'
  | SCtxSwitch _ _ | SCtxAdapter _ _ _ | SFlagSwitch _ _ _ => false
  end.

Fixpoint sound_frag (s : spec) : bool :=
  match s with
  | SPrim _ | SByteArray _ | SBytesFixed _ | SBytesGreedy | SBytesTerm _ _ _ | SStrFixed _ | SCStr _ _ _
  | SUUID | SNull => true
  | SStr _ nt => negb nt                          (* Str(null_term=True): str_null_term_refuted *)
  | STuple ss => forallb sound_frag ss
  | STemplate fs _ _ => forallb (fun f => sound_frag (snd f)) fs
  | SCollection _ s' => sound_frag s'
  | SOptPrefixed s' => sound_frag s'
  | SAdapter a s' => ad_sound a s'
  | STypedBytes k s' en ct =>
    sound_frag s' && (ct || delimited s') &&
    match k with
    | TBGreedy => true
    | TBFixed _ => negb en && ct && canon s'
    | _ => ct && canon s'
    end
  | SIfPresent s' => sound_frag s'
  | SLengthSwitch cs =>
    forallb (fun c => sound_frag (snd c) && (canon (snd c) || key_is_size (fst c) (snd c))) cs
  | SEnumSwitch tbl _ _ cs => nodupN (map fst tbl) && forallb (fun c => sound_frag (snd c)) cs
  | SOptFlagged _ _ _ s' => sound_frag s'
  | SCtxSwitch _ _ | SCtxAdapter _ _ _ | SFlagSwitch _ _ _ => false     (* not reached by any registered tree *)
  end.

(* ---------- the payload view used by the subfield serializers ----------
   BaseSubfieldSerializer._deserialize_template: BufferReader(ENDIANNESS, buf, pod).read(template), then
   CHECK_TRAILING_BYTES (every registered serializer keeps the default True): leftover bytes raise.
   _serialize_template: BufferWriter(ENDIANNESS).write(template, vals).  The root ParseContext is empty. *)
Definition pl_decode (e pod : bool) (s : spec) (b : bytes) : option value :=
  match de e pod s [] b with
  | Some (v, []) => Some v
  | _ => None
  end.

Definition pl_encode (e : bool) (s : spec) (v : value) : option bytes := ser e s [] v.

(* SimpleSubfieldSerializer with EMPTY_IS_NONE: b"" <-> None without consulting the template *)
Definition simple_decode (e pod : bool) (s : spec) (empty_none : bool) (b : bytes) : option value :=
  if empty_none && is_nil b then Some VNone else pl_decode e pod s b.

Definition simple_encode (e : bool) (s : spec) (empty_none : bool) (v : value) : option bytes :=
  if empty_none && is_none v then Some [] else pl_encode e s v.

(* one decode-encode pass, as the oracle of C09 runs it *)
Definition pl_pass (e pod : bool) (s : spec) (b : bytes) : option bytes :=
  match pl_decode e pod s b with Some v => pl_encode e s v | None => None end.
