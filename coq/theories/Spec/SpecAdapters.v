(* C08 - the adapter domains are complete: every int of the child's domain that the adapter can
   decode yields a value of the adapter's domain (so the domain is exactly the image of decode),
   for IntEnum tables with unique names and IntFlag tables of single-bit members. *)
From Coq Require Import NArith ZArith List Bool Lia ZifyBool ZifyNat ZifyN.
From HV Require Import Base.Bytes Spec.Spec.
Import ListNotations.
Open Scope Z_scope.

Lemma memN_false_in x l : memN x l = false -> ~ In x l.
Proof.
  unfold memN. induction l as [|y l IH]; cbn; [tauto|].
  intros H. apply orb_false_iff in H as [Hxy H]. intros [->|Hin].
  - rewrite N.eqb_refl in Hxy. discriminate.
  - now apply IH.
Qed.

Lemma lookup_in_nodup (tbl : list (N * Z)) n z :
  nodupN (map fst tbl) = true -> In (n, z) tbl -> lookup n tbl = Some z.
Proof.
  induction tbl as [|[n' z'] tbl IH]; cbn [map nodupN lookup fst]; [contradiction|].
  intros Hnd Hin. apply andb_prop in Hnd as [Hnin Hnd]. apply negb_true_iff in Hnin.
  destruct Hin as [Heq|Hin].
  - injection Heq as -> ->. now rewrite N.eqb_refl.
  - destruct (N.eqb n n') eqn:E.
    + apply N.eqb_eq in E. subst n'. exfalso. apply (memN_false_in _ _ Hnin).
      change n with (fst (n, z)). now apply in_map.
    + now apply IH.
Qed.

Lemma find_value_in z tbl n : find_value z tbl = Some n -> In (n, z) tbl.
Proof.
  induction tbl as [|[n' z'] tbl IH]; cbn; [discriminate|].
  destruct (Z.eqb z z') eqn:E.
  - intros H; injection H as ->. apply Z.eqb_eq in E. subst. now left.
  - intros H. right. now apply IH.
Qed.

Theorem enum_domain_complete tbl strict pod (D : value -> bool) z v :
  nodupN (map fst tbl) = true -> D (VInt z) = true ->
  adec_s (AEnum tbl strict) pod (VInt z) = Some v ->
  adomb_s (AEnum tbl strict) pod D v = true.
Proof.
  intros Hnd HD. cbn [adec_s adomb_s]. destruct (find_value z tbl) as [n|] eqn:Ef.
  - destruct pod; intros H; injection H as <-.
    + rewrite (lookup_in_nodup _ _ _ Hnd (find_value_in _ _ _ Ef)), HD, Ef, N.eqb_refl. reflexivity.
    + rewrite HD, Ef. reflexivity.
  - destruct strict; [discriminate|]. intros H; injection H as <-. rewrite HD, Ef. reflexivity.
Qed.

(* ---------- flags ---------- *)

Definition is_bit (f : Z) : bool := existsb (fun k => Z.eqb f (2 ^ Z.of_nat k)) (seq 0 64).
Definition flags_ok (tbl : list (N * Z)) : bool :=
  nodupN (map fst tbl) && forallb (fun nf => is_bit (snd nf)) tbl.

Lemma land_bit z k : 0 <= k -> Z.land z (2 ^ k) = if Z.testbit z k then 2 ^ k else 0.
Proof.
  intros Hk. apply Z.bits_inj'. intros n Hn. rewrite Z.land_spec.
  destruct (Z.eq_dec n k) as [->|Hne].
  - rewrite Z.pow2_bits_true by lia. rewrite andb_true_r.
    destruct (Z.testbit z k); [now rewrite Z.pow2_bits_true by lia|now rewrite Z.bits_0].
  - rewrite Z.pow2_bits_false by lia. rewrite andb_false_r.
    destruct (Z.testbit z k); [now rewrite Z.pow2_bits_false by lia|now rewrite Z.bits_0].
Qed.

Lemma is_bit_land z f : is_bit f = true -> Z.land z f = 0 \/ Z.land z f = f.
Proof.
  unfold is_bit. intros H. apply existsb_exists in H as (k & _ & Hk). apply Z.eqb_eq in Hk. subst f.
  rewrite land_bit by lia. destruct (Z.testbit z (Z.of_nat k)); auto.
Qed.

Definition sel (z : Z) (nf : N * Z) : bool := negb (Z.eqb (Z.land z (snd nf)) 0).

Lemma selected_or z tbl :
  forallb (fun nf => is_bit (snd nf)) tbl = true ->
  fold_right (fun nf a => Z.lor (snd nf) a) 0 (filter (sel z) tbl) = Z.land z (flags_all tbl).
Proof.
  induction tbl as [|[n f] tbl IH]; intros Hb.
  - cbn. now rewrite Z.land_0_r.
  - cbn [forallb snd] in Hb. apply andb_prop in Hb as [Hf Hb].
    unfold flags_all in *. cbn [filter fold_right snd]. unfold sel at 1. cbn [snd].
    rewrite Z.land_lor_distr_r. destruct (is_bit_land z f Hf) as [H0|Hff].
    + rewrite H0. cbn [Z.eqb negb]. rewrite IH by exact Hb. reflexivity.
    + rewrite Hff. destruct (Z.eqb f 0) eqn:E.
      * apply Z.eqb_eq in E. subst f. cbn [negb]. rewrite IH by exact Hb. now rewrite Z.lor_0_l.
      * cbn [negb fold_right snd]. rewrite IH by exact Hb. reflexivity.
Qed.

Lemma flag_or_app tbl l1 l2 a b :
  flag_or tbl l1 = Some a -> flag_or tbl l2 = Some b -> flag_or tbl (l1 ++ l2) = Some (Z.lor a b).
Proof.
  revert a; induction l1 as [|x l1 IH]; intros a H1 H2.
  - injection H1 as <-. now rewrite Z.lor_0_l.
  - cbn [app flag_or] in *.
    destruct (match x with VName n => lookup n tbl | VInt z => Some z | _ => None end) as [xa|]; [|discriminate].
    destruct (flag_or tbl l1) as [ra|]; [|discriminate]. injection H1 as <-.
    rewrite (IH ra eq_refl H2). now rewrite Z.lor_assoc.
Qed.

Lemma flag_or_names tbl l :
  (forall nf, In nf l -> lookup (fst nf) tbl = Some (snd nf)) ->
  flag_or tbl (map (fun nf => VName (fst nf)) l) = Some (fold_right (fun nf a => Z.lor (snd nf) a) 0 l).
Proof.
  induction l as [|nf l IH]; intros H; [reflexivity|].
  cbn [map flag_or fold_right]. rewrite (H nf (or_introl eq_refl)).
  rewrite IH by (intros x Hx; apply H; now right). reflexivity.
Qed.

Lemma items_eqb_refl_names (l : list (N * Z)) (t : list value) :
  items_eqb t t = true -> items_eqb (map (fun nf => VName (fst nf)) l ++ t) (map (fun nf => VName (fst nf)) l ++ t) = true.
Proof.
  intros Ht. induction l as [|nf l IH]; [exact Ht|]. cbn. now rewrite N.eqb_refl, IH.
Qed.

(* encode (flags_to_pod z) = z, and flags_to_pod z is in the pod domain *)
Theorem flag_domain_complete tbl (D : value -> bool) z :
  flags_ok tbl = true -> D (VInt z) = true ->
  aenc_s (AFlag tbl) (VList (flags_to_pod tbl z)) = Some (VInt z) /\
  adomb_s (AFlag tbl) true D (VList (flags_to_pod tbl z)) = true.
Proof.
  intros Hok HD. unfold flags_ok in Hok. apply andb_prop in Hok as [Hnd Hbits].
  assert (Hor : flag_or tbl (flags_to_pod tbl z) = Some z).
  { unfold flags_to_pod.
    set (lo := Z.land z (Z.lnot (flags_all tbl))).
    assert (Hn : flag_or tbl (map (fun nf => VName (fst nf)) (filter (sel z) tbl))
                 = Some (Z.land z (flags_all tbl))).
    { rewrite flag_or_names.
      - now rewrite selected_or.
      - intros [n f] Hin. apply filter_In in Hin as [Hin _]. now apply lookup_in_nodup. }
    assert (Hl : flag_or tbl (if Z.eqb lo 0 then [] else [VInt lo]) = Some lo).
    { destruct (Z.eqb lo 0) eqn:E.
      - apply Z.eqb_eq in E. now rewrite E.
      - cbn. now rewrite Z.lor_0_r. }
    change (filter (fun nf => negb (Z.eqb (Z.land z (snd nf)) 0)) tbl) with (filter (sel z) tbl).
    rewrite (flag_or_app _ _ _ _ _ Hn Hl). f_equal. subst lo.
    rewrite <- Z.land_lor_distr_r, Z.lor_lnot_diag. apply Z.land_m1_r. }
  split.
  - cbn [aenc_s]. now rewrite Hor.
  - cbn [adomb_s andb]. rewrite Hor, HD. cbn [andb].
    unfold flags_to_pod. apply items_eqb_refl_names.
    destruct (Z.eqb (Z.land z (Z.lnot (flags_all tbl))) 0); [reflexivity|].
    cbn. now rewrite Z.eqb_refl.
Qed.
