(* C08 - the model's writers are insensitive to the insertion order of dict-valued values.

   A Python dict value is modelled by an association list [VDict kvs]; the real writers index the caller's dict by key
   (Template: values[name]; FlagSwitch: `flag in vals` / vals[flag]; BitField: vals[name]), which the model renders as
   [lookup].  Consequently [ser] only depends on a dict through its lookups: any permutation of a duplicate-free
   association list is written to the same bytes, and (with the round-trip theorem) reads back as the canonical,
   declaration-ordered dict.  The harness uses this in both directions: c08_specs.to_sx canonicalises the dicts of the real
   code to declaration order, and the order sweep runs the extracted [ser] on permuted terms against the real classes on
   permuted dicts. *)
From Coq Require Import NArith ZArith List Bool Permutation Lia.
From HV Require Import Base.Bytes Spec.Spec Spec.SpecInd Spec.SpecProofs.
Import ListNotations.

Definition same_map (k k' : list (N * value)) : Prop := forall n, lookup n k = lookup n k'.

Lemma lookup_notin : forall (l : list (N * value)) n, ~ In n (map fst l) -> lookup n l = None.
Proof.
  induction l as [|[k v] r IH]; intros n Hn; simpl in *; [reflexivity|].
  destruct (N.eqb n k) eqn:E.
  - apply N.eqb_eq in E. exfalso. apply Hn. left. symmetry. exact E.
  - apply IH. intro Hin. apply Hn. right. exact Hin.
Qed.

Lemma perm_same_map : forall k k', Permutation k k' -> NoDup (map fst k) -> same_map k k'.
Proof.
  intros k k' HP. induction HP as [|[a va] l l' HP IH|[a va] [b vb] l|l l' l'' HP1 IH1 HP2 IH2]; intros ND n.
  - reflexivity.
  - simpl. simpl in ND. inversion ND as [|? ? Hnot ND']; subst. rewrite (IH ND' n). reflexivity.
  - simpl. simpl in ND. inversion ND as [|? ? Hnot ND']; subst.
    destruct (N.eqb n b) eqn:Eb; destruct (N.eqb n a) eqn:Ea; try reflexivity.
    apply N.eqb_eq in Eb. apply N.eqb_eq in Ea. subst. exfalso. apply Hnot. left. reflexivity.
  - rewrite (IH1 ND n). apply IH2.
    eapply Permutation_NoDup; [|exact ND]. apply Permutation_map. exact HP1.
Qed.

Lemma flag_or_perm : forall tbl l l', Permutation l l' -> flag_or tbl l = flag_or tbl l'.
Proof.
  intros tbl l l' HP. induction HP as [|x l l' HP IH|x y l|l l' l'' HP1 IH1 HP2 IH2].
  - reflexivity.
  - simpl. rewrite IH. reflexivity.
  - simpl.
    destruct (match y with VName n => lookup n tbl | VInt z => Some z | _ => None end) as [a|];
      destruct (match x with VName n => lookup n tbl | VInt z => Some z | _ => None end) as [b|];
      destruct (flag_or tbl l) as [c|]; try reflexivity.
    f_equal. rewrite !Z.lor_assoc. rewrite (Z.lor_comm a b). reflexivity.
  - congruence.
Qed.

Lemma forallb_perm : forall (A : Type) (p : A -> bool) l l', Permutation l l' -> forallb p l = forallb p l'.
Proof.
  intros A p l l' HP. induction HP as [|x l l' HP IH|x y l|l l' l'' HP1 IH1 HP2 IH2]; simpl.
  - reflexivity.
  - rewrite IH. reflexivity.
  - destruct (p x), (p y); reflexivity.
  - congruence.
Qed.

(* ---------- helpers that only look a dict up ---------- *)

Lemma ser_choices_same_map : forall cs kvs kvs', same_map kvs kvs' -> ser_choices cs kvs = ser_choices cs kvs'.
Proof.
  induction cs as [|[n f] r IH]; intros kvs kvs' H; simpl; [reflexivity|].
  rewrite (H n). rewrite (IH kvs kvs' H). reflexivity.
Qed.

Lemma bf_field_ints_same_map : forall fs kvs kvs', same_map kvs kvs' -> bf_field_ints fs kvs = bf_field_ints fs kvs'.
Proof.
  induction fs as [|[[n bits] fa] r IH]; intros kvs kvs' H; simpl; [reflexivity|].
  rewrite (H n). rewrite (IH kvs kvs' H). reflexivity.
Qed.

Lemma ser_choices_ext : forall (A : Type) (nm : A -> N) (F G : A -> value -> option bytes) cs kvs,
  Forall (fun c0 => forall x, F c0 x = G c0 x) cs ->
  ser_choices (map (fun c0 => (nm c0, F c0)) cs) kvs = ser_choices (map (fun c0 => (nm c0, G c0)) cs) kvs.
Proof.
  intros A nm F G cs kvs HF. induction HF as [|c0 r H0 HF IH]; simpl; [reflexivity|].
  rewrite IH. destruct (lookup (nm c0) kvs); [rewrite H0|]; reflexivity.
Qed.

Lemma ser_fields_ext : forall (F G : N * spec -> value -> option bytes) fs kvs kvs',
  Forall (fun f => forall x, F f x = G f x) fs -> same_map kvs kvs' ->
  ser_fields (map (fun f => (fst f, optional (snd f), F f)) fs) kvs =
  ser_fields (map (fun f => (fst f, optional (snd f), G f)) fs) kvs'.
Proof.
  intros F G fs kvs kvs' HF HM. induction HF as [|f r H0 HF IH]; simpl; [reflexivity|].
  rewrite IH. rewrite (HM (fst f)).
  destruct (match lookup (fst f) kvs' with Some v => Some v | None => if optional (snd f) then Some VNone else None end);
    [rewrite H0|]; reflexivity.
Qed.

Lemma find_choice_map : forall (K A B : Type) (eqb : K -> K -> bool) (key : A -> K) (F : A -> B) k cs,
  find_choice eqb k (map (fun c0 => (key c0, F c0)) cs) =
  option_map F (find_choice eqb k (map (fun c0 => (key c0, c0)) cs)).
Proof.
  intros K A B eqb key F k cs. induction cs as [|c0 r IH]; simpl; [reflexivity|].
  destruct (eqb k (key c0)); [reflexivity|exact IH].
Qed.

Lemma find_choice_in : forall (K A : Type) (eqb : K -> K -> bool) (key : A -> K) k cs c0,
  find_choice eqb k (map (fun c1 => (key c1, c1)) cs) = Some c0 -> In c0 cs.
Proof.
  intros K A eqb key k cs c0. induction cs as [|c1 r IH]; simpl; [discriminate|].
  destruct (eqb k (key c1)); intro H; [inversion H; left; reflexivity|right; exact (IH H)].
Qed.

Lemma ctx_pick_map : forall (A B : Type) (key : A -> option Z) (F : A -> B) k cs,
  ctx_pick k (map (fun c0 => (key c0, F c0)) cs) = option_map F (ctx_pick k (map (fun c0 => (key c0, c0)) cs)).
Proof.
  intros A B key F k cs. unfold ctx_pick. destruct k as [z|].
  - rewrite (find_choice_map _ _ _ optZ_eqb key F (Some z) cs).
    destruct (find_choice optZ_eqb (Some z) (map (fun c0 => (key c0, c0)) cs)); simpl; [reflexivity|].
    apply find_choice_map.
  - apply find_choice_map.
Qed.

Lemma ctx_pick_in : forall (A : Type) (key : A -> option Z) k cs c0,
  ctx_pick k (map (fun c1 => (key c1, c1)) cs) = Some c0 -> In c0 cs.
Proof.
  intros A key k cs c0. unfold ctx_pick. destruct k as [z|].
  - destruct (find_choice optZ_eqb (Some z) (map (fun c1 => (key c1, c1)) cs)) eqn:E.
    + intro H. inversion H; subst. eapply find_choice_in. exact E.
    + apply find_choice_in.
  - apply find_choice_in.
Qed.

(* ---------- the context is only ever looked up ---------- *)

Lemma ser_ctx_ext : forall e s c c' v, same_map c c' -> ser e s c v = ser e s c' v.
Proof.
  intros e s. induction s using spec_ind'; intros c c' v HM.
  - destruct s; try discriminate; reflexivity.
  - reflexivity.
  - reflexivity.
  - reflexivity.
  - cbn [ser]. destruct v; try reflexivity; rewrite (IHs c c' _ HM); reflexivity.
  - cbn [ser]. destruct (aenc a v); [apply IHs; exact HM|reflexivity].
  - cbn [ser]. destruct (en && is_none v); [reflexivity|]. rewrite (IHs c c' v HM). reflexivity.
  - cbn [ser]. destruct v; try reflexivity; apply IHs; exact HM.
  - (* LengthSwitch *)
    cbn [ser]. destruct v as [| | | | | | | |l|]; try reflexivity.
    destruct l as [|t [|x [|y l']]]; try reflexivity.
    destruct (match t with VInt z => if (z <? 0)%Z then None else Some (Some (Z.to_N z)) | VNone => Some None | _ => None end)
      as [k|]; [|reflexivity].
    cbv zeta.
    rewrite !(find_choice_map _ _ _ optN_eqb (fun c0 : option N * spec => fst c0) (fun c0 => ser e (snd c0) c)).
    rewrite !(find_choice_map _ _ _ optN_eqb (fun c0 : option N * spec => fst c0) (fun c0 => ser e (snd c0) c')).
    assert (HF : forall k0 c0, find_choice optN_eqb k0 (map (fun c1 : option N * spec => (fst c1, c1)) cs) = Some c0 ->
                               ser e (snd c0) c x = ser e (snd c0) c' x).
    { intros k0 c0 Hf. apply find_choice_in in Hf. rewrite Forall_forall in H. apply (H c0 Hf). exact HM. }
    destruct (find_choice optN_eqb k (map (fun c1 : option N * spec => (fst c1, c1)) cs)) eqn:E1; cbn [option_map].
    + eapply HF. exact E1.
    + destruct (find_choice optN_eqb None (map (fun c1 : option N * spec => (fst c1, c1)) cs)) eqn:E2; cbn [option_map]; [|reflexivity].
      eapply HF. exact E2.
  - (* EnumSwitch *)
    cbn [ser]. destruct v as [| | | | | | | |l|]; try reflexivity.
    destruct l as [|t [|x [|y l']]]; try reflexivity.
    destruct (aenc_s (AEnum tbl strict) t) as [[z| | | | | | | | |]|]; try reflexivity.
    rewrite !(find_choice_map _ _ _ Z.eqb (fun c0 : Z * spec => fst c0) (fun c0 => ser e (snd c0) c)).
    rewrite !(find_choice_map _ _ _ Z.eqb (fun c0 : Z * spec => fst c0) (fun c0 => ser e (snd c0) c')).
    destruct (find_choice Z.eqb z (map (fun c1 : Z * spec => (fst c1, c1)) cs)) eqn:E1; cbn [option_map]; [|reflexivity].
    apply find_choice_in in E1. rewrite Forall_forall in H. rewrite (H _ E1 c c' x HM). reflexivity.
  - (* OptionalFlagged *)
    cbn [ser].
    assert (E : ctx_flag c f ftbl = ctx_flag c' f ftbl) by (unfold ctx_flag; rewrite (HM f); reflexivity).
    rewrite E. destruct (ctx_flag c' f ftbl) as [z|]; [|reflexivity].
    destruct (Z.eqb (Z.land z mask) 0); [reflexivity|apply IHs; exact HM].
  - (* ContextSwitch *)
    cbn [ser].
    assert (E : ctx_key c f = ctx_key c' f) by (unfold ctx_key; rewrite (HM f); reflexivity).
    rewrite E. destruct (ctx_key c' f) as [k|]; [|reflexivity].
    rewrite (ctx_pick_map _ _ (fun c0 : option Z * spec => fst c0) (fun c0 => ser e (snd c0) c)).
    rewrite (ctx_pick_map _ _ (fun c0 : option Z * spec => fst c0) (fun c0 => ser e (snd c0) c')).
    destruct (ctx_pick k (map (fun c1 : option Z * spec => (fst c1, c1)) cs)) eqn:E1; cbn [option_map]; [|reflexivity].
    apply ctx_pick_in in E1. rewrite Forall_forall in H. apply (H _ E1 c c' v HM).
  - (* ContextAdapter *)
    cbn [ser].
    assert (E : ctx_key c f = ctx_key c' f) by (unfold ctx_key; rewrite (HM f); reflexivity).
    rewrite E. destruct (ctx_key c' f) as [k|]; [|reflexivity].
    destruct (ctx_pick k opts) as [[a|]|]; try reflexivity.
    + destruct (aenc_s a v); [apply IHs; exact HM|reflexivity].
    + apply IHs; exact HM.
  - (* FlagSwitch *)
    cbn [ser]. destruct v as [| | | | | | | | |kvs]; try reflexivity.
    destruct (flag_or tbl (map (fun kv => VName (fst kv)) kvs)); [|reflexivity].
    rewrite (ser_choices_ext _ (fun c0 : N * Z * spec => fst (fst c0)) (fun c0 => ser e (snd c0) c) (fun c0 => ser e (snd c0) c')).
    + reflexivity.
    + rewrite Forall_forall in *. intros c0 Hin x. apply (H c0 Hin). exact HM.
Qed.

(* ---------- the three dict-valued writers ---------- *)

Theorem ser_template_order : forall e fs skip rc c kvs kvs',
  Permutation kvs kvs' -> NoDup (map fst kvs) ->
  ser e (STemplate fs skip rc) c (VDict kvs) = ser e (STemplate fs skip rc) c (VDict kvs').
Proof.
  intros e fs skip rc c kvs kvs' HP ND. cbn [ser].
  pose proof (perm_same_map _ _ HP ND) as HM.
  apply (ser_fields_ext (fun f => ser e (snd f) kvs) (fun f => ser e (snd f) kvs')); [|exact HM].
  rewrite Forall_forall. intros f _ x. apply ser_ctx_ext. exact HM.
Qed.

Theorem ser_flagswitch_order : forall e tbl ip cs c kvs kvs',
  Permutation kvs kvs' -> NoDup (map fst kvs) ->
  ser e (SFlagSwitch tbl ip cs) c (VDict kvs) = ser e (SFlagSwitch tbl ip cs) c (VDict kvs').
Proof.
  intros e tbl ip cs c kvs kvs' HP ND. cbn [ser].
  rewrite (flag_or_perm tbl _ _ (Permutation_map (fun kv : N * value => VName (fst kv)) HP)).
  rewrite (ser_choices_same_map _ kvs kvs' (perm_same_map _ _ HP ND)). reflexivity.
Qed.

Theorem ser_bitfield_order : forall e fs shift s c kvs kvs',
  Permutation kvs kvs' -> NoDup (map fst kvs) ->
  ser e (SAdapter (ABitField fs shift) s) c (VDict kvs) = ser e (SAdapter (ABitField fs shift) s) c (VDict kvs').
Proof.
  intros e fs shift s c kvs kvs' HP ND. cbn [ser aenc bf_enc].
  rewrite (forallb_perm _ _ _ _ HP).
  rewrite (bf_field_ints_same_map fs kvs kvs' (perm_same_map _ _ HP ND)). reflexivity.
Qed.

(* with the round trip: whatever insertion order is written, the canonical (declaration-ordered) dict is read back *)
Theorem rt_flagswitch_any_order : forall e pod tbl ip cs c cd kvs kvs' b rest,
  wf (SFlagSwitch tbl ip cs) = true -> agree (refs (SFlagSwitch tbl ip cs)) c cd ->
  domb e pod (SFlagSwitch tbl ip cs) c (VDict kvs) = true ->
  Permutation kvs kvs' -> NoDup (map fst kvs) ->
  ser e (SFlagSwitch tbl ip cs) c (VDict kvs') = Some b ->
  (delimited (SFlagSwitch tbl ip cs) = true \/ rest = []) ->
  de e pod (SFlagSwitch tbl ip cs) cd (b ++ rest) = Some (VDict kvs, rest).
Proof.
  intros e pod tbl ip cs c cd kvs kvs' b rest Hwf Hag Hd HP ND Hs Hr.
  rewrite <- (ser_flagswitch_order e tbl ip cs c kvs kvs' HP ND) in Hs.
  exact (roundtrip e pod _ c cd _ b rest Hwf Hag Hd Hs Hr).
Qed.

Theorem rt_template_any_order : forall e pod fs skip rc c cd kvs kvs' b rest,
  wf (STemplate fs skip rc) = true -> agree (refs (STemplate fs skip rc)) c cd ->
  domb e pod (STemplate fs skip rc) c (VDict kvs) = true ->
  Permutation kvs kvs' -> NoDup (map fst kvs) ->
  ser e (STemplate fs skip rc) c (VDict kvs') = Some b ->
  (delimited (STemplate fs skip rc) = true \/ rest = []) ->
  de e pod (STemplate fs skip rc) cd (b ++ rest) = Some (VDict kvs, rest).
Proof.
  intros e pod fs skip rc c cd kvs kvs' b rest Hwf Hag Hd HP ND Hs Hr.
  rewrite <- (ser_template_order e fs skip rc c kvs kvs' HP ND) in Hs.
  exact (roundtrip e pod _ c cd _ b rest Hwf Hag Hd Hs Hr).
Qed.
