(* C08 - deep embedding of the serialization combinator grammar of
   hippolyzer/lib/base/serialization.py.  Definitions only (proofs: SpecProofs.v).

   Conventions
     - a byte is an N < 256, a byte string a [list N];
     - [e : bool]   endianness of the reader/writer, true = "<" (anything else is big endian);
     - [pod : bool] Reader.pod (plain-data mode); the writer has no pod flag;
     - an exception of any kind is [None];
     - names (template keys, enum/flag member names) are numbers; the harness maps them to
       Python identifiers;
     - a Python str is represented by its UTF-8 encoding ([VStr]); bool is the int 0/1
       (True == 1 in Python); tuple and list are both [VList]; an enum / flag member is its int;
       a float is the raw bit pattern of the width of the primitive it is used with. *)
From Coq Require Import NArith ZArith List Bool.
From HV Require Import Base.Bytes.
Import ListNotations.
Open Scope N_scope.

Definition bytes := list N.

(* ---------- values ---------- *)

Inductive value :=
| VInt (z : Z)
| VF (bits : N)
| VBytes (b : bytes)
| VStr (b : bytes)
| VNone
| VUuid (b : bytes)            (* datatypes.UUID object *)
| VUuidStr (b : bytes)         (* str(UUID): canonical text form of the uuid with these 16 bytes *)
| VName (n : N)                (* the str naming an enum / flag member *)
| VList (l : list value)
| VDict (kvs : list (N * value)).

Definition ctx := list (N * value).   (* ParseContext: the enclosing dict, [] for a sequence *)

Definition is_none (v : value) : bool := match v with VNone => true | _ => false end.

Definition is_nil {A} (l : list A) : bool := match l with [] => true | _ => false end.

Fixpoint lookup {A} (n : N) (l : list (N * A)) : option A :=
  match l with
  | [] => None
  | (k, v) :: r => if N.eqb n k then Some v else lookup n r
  end.

(* ---------- primitives ---------- *)

Inductive width := W1 | W2 | W4 | W8.
Definition wbytes (w : width) : nat := match w with W1 => 1 | W2 => 2 | W4 => 4 | W8 => 8 end.
Definition wN (w : width) : N := match w with W1 => 1 | W2 => 2 | W4 => 4 | W8 => 8 end.

Inductive iprim := IP (sg : bool) (w : width).           (* U8..U64 / S8..S64 *)
Inductive prim := PI (ip : iprim) | PF32 | PF64.

Definition ip_width (ip : iprim) : width := match ip with IP _ w => w end.
Definition ip_min (ip : iprim) : Z :=
  match ip with IP sg w => if sg then (- 2 ^ (8 * Z.of_nat (wbytes w) - 1))%Z else 0%Z end.
Definition ip_max (ip : iprim) : Z :=
  match ip with IP sg w =>
    if sg then (2 ^ (8 * Z.of_nat (wbytes w) - 1) - 1)%Z else (2 ^ (8 * Z.of_nat (wbytes w)) - 1)%Z end.

Definition put (e : bool) (n : nat) (u : N) : bytes := if e then le_bytes n u else be_bytes n u.
Definition get (e : bool) (l : bytes) : N := if e then of_le l else of_be l.

(* struct.pack: out of range -> struct.error *)
Definition enc_int (e : bool) (ip : iprim) (z : Z) : option bytes :=
  if (ip_min ip <=? z)%Z && (z <=? ip_max ip)%Z then
    match ip with IP sg w =>
      Some (put e (wbytes w) (if sg then of_signed (wbytes w) z else Z.to_N z)) end
  else None.

Definition dec_int (e : bool) (ip : iprim) (b : bytes) : option (Z * bytes) :=
  match ip with IP sg w =>
    match take (wbytes w) b with
    | None => None
    | Some (h, r) => let u := get e h in
                     Some (if sg then to_signed (wbytes w) u else Z.of_N u, r)
    end
  end.

Definition prim_size (p : prim) : N :=
  match p with PI ip => wN (ip_width ip) | PF32 => 4 | PF64 => 8 end.

Definition ser_prim (e : bool) (p : prim) (v : value) : option bytes :=
  match p, v with
  | PI ip, VInt z => enc_int e ip z
  | PF32, VF bits => if bits <? 2 ^ 32 then Some (put e 4 bits) else None
  | PF64, VF bits => if bits <? 2 ^ 64 then Some (put e 8 bits) else None
  | _, _ => None
  end.

Definition de_prim (e : bool) (p : prim) (b : bytes) : option (value * bytes) :=
  match p with
  | PI ip => match dec_int e ip b with Some (z, r) => Some (VInt z, r) | None => None end
  | PF32 => match take 4 b with Some (h, r) => Some (VF (get e h), r) | None => None end
  | PF64 => match take 8 b with Some (h, r) => Some (VF (get e h), r) | None => None end
  end.

(* BufferReader.read_bytes with a binary count (no unary detour for huge counts) *)
Definition takeN (n : N) (b : bytes) : option (bytes * bytes) :=
  if N.of_nat (length b) <? n then None
  else Some (firstn (N.to_nat n) b, skipn (N.to_nat n) b).

(* ---------- byte-string helpers ---------- *)

Fixpoint rstrip0 (l : bytes) : bytes :=         (* bytes.rstrip(b"\x00") *)
  match l with
  | [] => []
  | x :: r => let r' := rstrip0 r in if (x =? 0) && is_nil r' then [] else x :: r'
  end.

Definition no_trail0 (l : bytes) : bool := negb (last l 1 =? 0).

Definition memN (x : N) (l : list N) : bool := existsb (N.eqb x) l.
Definition no_term (ts : list N) (b : bytes) : bool := forallb (fun x => negb (memN x ts)) b.

(* BytesTerminated scan: (bytes before the first terminator, remainder starting at it) *)
Fixpoint scan (ts : list N) (b : bytes) : bytes * bytes :=
  match b with
  | [] => ([], [])
  | x :: r => if memN x ts then ([], b) else let '(p, q) := scan ts r in (x :: p, q)
  end.

Definition ser_term (ts : list N) (wt : bool) (b : bytes) : option bytes :=
  if wt then match ts with t :: _ => Some (b ++ [t]) | [] => None end else Some b.

Definition de_term (ts : list N) (eof : bool) (b : bytes) : option (bytes * bytes) :=
  let '(p, q) := scan ts b in
  match q with
  | [] => if eof then Some (p, []) else None      (* EOF before a terminator *)
  | _ :: r => Some (p, r)                          (* skip the terminator *)
  end.

Definition inr (lo hi x : N) : bool := (lo <=? x) && (x <=? hi).
Definition cont (x : N) : bool := inr 128 191 x.

(* CPython's strict UTF-8 decoder accepts exactly the well-formed sequences of
   Unicode table 3-7 (no overlongs, no surrogates, <= U+10FFFF) *)
Fixpoint utf8_ok (l : bytes) : bool :=
  match l with
  | [] => true
  | b0 :: r =>
    if b0 <? 128 then utf8_ok r
    else if inr 194 223 b0 then
      match r with b1 :: r1 => cont b1 && utf8_ok r1 | _ => false end
    else if inr 224 239 b0 then
      match r with
      | b1 :: b2 :: r2 =>
        (if b0 =? 224 then inr 160 191 b1 else if b0 =? 237 then inr 128 159 b1 else cont b1)
          && cont b2 && utf8_ok r2
      | _ => false
      end
    else if inr 240 244 b0 then
      match r with
      | b1 :: b2 :: b3 :: r3 =>
        (if b0 =? 240 then inr 144 191 b1 else if b0 =? 244 then inr 128 143 b1 else cont b1)
          && cont b2 && cont b3 && utf8_ok r3
      | _ => false
      end
    else false
  end.

Definition ser_bytearray (e : bool) (ip : iprim) (b : bytes) : option bytes :=
  let n := Z.of_nat (length b) in
  if (ip_max ip <? n)%Z then None
  else match enc_int e ip n with Some h => Some (h ++ b) | None => None end.

(* a negative length makes the real reader seek backwards: not modelled (None) *)
Definition de_bytearray (e : bool) (ip : iprim) (b : bytes) : option (bytes * bytes) :=
  match dec_int e ip b with
  | None => None
  | Some (z, r) => if (z <? 0)%Z then None else takeN (Z.to_N z) r
  end.

Definition ser_fixed (n : N) (b : bytes) : option bytes :=
  if N.of_nat (length b) =? n then Some b else None.

(* ---------- adapters ---------- *)

Inductive sadapter :=
| ABool
| AEnum (tbl : list (N * Z)) (strict : bool)     (* members in definition order: name, value *)
| AFlag (tbl : list (N * Z))                      (* canonical single-bit members *)
| AOpaqueInt (id : N).
(* AOpaqueInt: QuantizedFloat / FixedPoint / ... - an int adapter whose Python-side value (a float) is
   represented in the model by the wire int it encodes to.  The abstraction is sound for the values v with
   decode (encode v) = v, i.e. under the hypothesis "lossless on the wire domain" that C10 proves per
   instance; the harness checks that hypothesis on every value it uses. *)

Fixpoint find_value (z : Z) (tbl : list (N * Z)) : option N :=
  match tbl with
  | [] => None
  | (n, x) :: r => if Z.eqb z x then Some n else find_value z r
  end.

Definition truthy (v : value) : bool :=
  match v with
  | VInt z => negb (Z.eqb z 0)
  | VF bits => negb (bits =? 0)
  | VBytes b | VStr b => negb (is_nil b)
  | VNone => false
  | VUuid _ | VUuidStr _ | VName _ => true
  | VList l => negb (is_nil l)
  | VDict l => negb (is_nil l)
  end.

(* IntFlag.encode over an iterable of names / ints *)
Fixpoint flag_or (tbl : list (N * Z)) (l : list value) : option Z :=
  match l with
  | [] => Some 0%Z
  | x :: r =>
    match (match x with VName n => lookup n tbl | VInt z => Some z | _ => None end), flag_or tbl r with
    | Some a, Some b => Some (Z.lor a b)
    | _, _ => None
    end
  end.

(* datatypes.flags_to_pod *)
Definition flags_all (tbl : list (N * Z)) : Z := fold_right (fun nf a => Z.lor (snd nf) a) 0%Z tbl.
Definition flags_to_pod (tbl : list (N * Z)) (z : Z) : list value :=
  let named := map (fun nf => VName (fst nf)) (filter (fun nf => negb (Z.eqb (Z.land z (snd nf)) 0)) tbl) in
  let lo := Z.land z (Z.lnot (flags_all tbl)) in
  named ++ (if Z.eqb lo 0 then [] else [VInt lo]).

Definition aenc_s (a : sadapter) (v : value) : option value :=
  match a with
  | ABool => Some (VInt (if truthy v then 1 else 0))
  | AEnum tbl _ =>
    match v with
    | VName n => match lookup n tbl with Some z => Some (VInt z) | None => None end
    | _ => Some v
    end
  | AFlag tbl =>
    match v with
    | VInt z => Some v
    | VList l => match flag_or tbl l with Some z => Some (VInt z) | None => None end
    | _ => None
    end
  | AOpaqueInt _ => match v with VInt _ => Some v | _ => None end
  end.

Definition adec_s (a : sadapter) (pod : bool) (v : value) : option value :=
  match a with
  | ABool => Some (VInt (if truthy v then 1 else 0))
  | AEnum tbl strict =>
    match v with
    | VInt z =>
      match find_value z tbl with
      | Some n => Some (if pod then VName n else VInt z)
      | None => if strict then None else Some v
      end
    | _ => if strict then None else Some v
    end
  | AFlag tbl =>
    match v with
    | VInt z => Some (if pod then VList (flags_to_pod tbl z) else VInt z)
    | _ => None
    end
  | AOpaqueInt _ => match v with VInt _ => Some v | _ => None end
  end.

(* BitField adapter (serialization.BitField over helpers.BitField): schema = (name, bits, field adapter) *)
Definition bschema := list (N * N * option sadapter).

Definition bf_mask (bits : N) : Z := (2 ^ Z.of_N bits - 1)%Z.

Fixpoint bf_pack (fs : bschema) (shift : bool) (cur : Z) (ints : list Z) : option Z :=
  match fs, ints with
  | [], [] => Some 0%Z
  | (_, bits, _) :: fs', x :: ints' =>
    let mask := bf_mask bits in
    match bf_pack fs' shift (cur + Z.of_N bits)%Z ints' with
    | None => None
    | Some rest =>
      if shift then (if (mask <? x)%Z then None else Some (Z.lor (Z.shiftl x cur) rest))
      else (if Z.eqb x (Z.land x (Z.shiftl mask cur)) then Some (Z.lor x rest) else None)
    end
  | _, _ => None
  end.

Fixpoint bf_unpack (fs : bschema) (shift : bool) (cur : Z) (z : Z) : list Z :=
  match fs with
  | [] => []
  | (_, bits, _) :: fs' =>
    let val := Z.land (Z.shiftr z cur) (bf_mask bits) in
    (if shift then val else Z.shiftl val cur) :: bf_unpack fs' shift (cur + Z.of_N bits)%Z z
  end.

Fixpoint bf_field_ints (fs : bschema) (kvs : list (N * value)) : option (list Z) :=
  match fs with
  | [] => Some []
  | (n, _, fa) :: fs' =>
    match lookup n kvs with
    | None => None                                        (* KeyError *)
    | Some v =>
      match (match fa with None => Some v | Some a => aenc_s a v end), bf_field_ints fs' kvs with
      | Some (VInt x), Some r => Some (x :: r)
      | _, _ => None
      end
    end
  end.

Fixpoint bf_field_vals (fs : bschema) (pod : bool) (ints : list Z) : option (list (N * value)) :=
  match fs, ints with
  | [], _ => Some []
  | (n, _, fa) :: fs', x :: ints' =>
    match (match fa with None => Some (VInt x) | Some a => adec_s a pod (VInt x) end),
          bf_field_vals fs' pod ints' with
    | Some v, Some r => Some ((n, v) :: r)
    | _, _ => None
    end
  | _, [] => None
  end.

Definition bf_enc (fs : bschema) (shift : bool) (v : value) : option value :=
  match v with
  | VInt _ => Some v                                      (* already packed *)
  | VDict kvs =>
    if forallb (fun kv => existsb (fun f => N.eqb (fst kv) (fst (fst f))) fs) kvs then
      match bf_field_ints fs kvs with
      | Some ints => match bf_pack fs shift 0%Z ints with Some z => Some (VInt z) | None => None end
      | None => None
      end
    else None                                             (* KeyError on an unknown key *)
  | _ => None
  end.

Definition bf_dec (fs : bschema) (shift : bool) (pod : bool) (v : value) : option value :=
  match v with
  | VInt z => match bf_field_vals fs pod (bf_unpack fs shift 0%Z z) with
              | Some kvs => Some (VDict kvs)
              | None => None
              end
  | _ => None
  end.

Inductive adapter :=
| ASimple (a : sadapter)
| ABitField (fs : bschema) (shift : bool).

Definition aenc (a : adapter) (v : value) : option value :=
  match a with ASimple a' => aenc_s a' v | ABitField fs sh => bf_enc fs sh v end.

Definition adec (a : adapter) (pod : bool) (v : value) : option value :=
  match a with ASimple a' => adec_s a' pod v | ABitField fs sh => bf_dec fs sh pod v end.

(* OptionalFlagged._normalize_flag_val: the int of the sibling flag field found in the context *)
Definition ctx_flag (c : list (N * value)) (f : N) (ftbl : option (list (N * Z))) : option Z :=
  match lookup f c with
  | None => None
  | Some v =>
    match ftbl with
    | None => match v with VInt z => Some z | _ => None end
    | Some tbl => match aenc_s (AFlag tbl) v with Some (VInt z) => Some z | _ => None end
    end
  end.

(* ContextMixin._choose_option: the value of the sibling field selects an option (an unhashable value raises) *)
Definition optZ_eqb (a b : option Z) : bool :=
  match a, b with Some x, Some y => Z.eqb x y | None, None => true | _, _ => false end.

Definition ctx_key (c : list (N * value)) (f : N) : option (option Z) :=
  match lookup f c with
  | None => None
  | Some (VInt z) => Some (Some z)
  | Some (VList _) | Some (VDict _) => None
  | Some _ => Some None
  end.

(* ---------- the grammar ---------- *)

Inductive lenk := LPrefixed (ip : iprim) | LFixed (n : N) | LGreedy.
Inductive tbk := TBGreedy | TBArray (ip : iprim) | TBFixed (n : N) | TBTerm (ts : list N) (skip_none : bool).

Inductive spec :=
| SPrim (p : prim)
| SByteArray (ip : iprim)
| SBytesFixed (n : N)
| SBytesGreedy
| SBytesTerm (ts : list N) (wt eof : bool)
| SStr (ip : iprim) (nt : bool)
| SStrFixed (n : N)
| SCStr (ts : list N) (wt eof : bool)
| SUUID
| SNull
| STuple (ss : list spec)
| STemplate (fs : list (N * spec)) (skip : bool) (record : bool)   (* record: a Dataclass (Template + record adapter) *)
| SCollection (k : lenk) (s : spec)
| SOptPrefixed (s : spec)
| SAdapter (a : adapter) (s : spec)
| STypedBytes (k : tbk) (s : spec) (en ct : bool)
| SIfPresent (s : spec)
| SLengthSwitch (cs : list (option N * spec))
| SEnumSwitch (tbl : list (N * Z)) (strict : bool) (ip : iprim) (cs : list (Z * spec))
| SOptFlagged (field : N) (ftbl : option (list (N * Z))) (mask : Z) (s : spec)
(* ContextSwitch / ContextAdapter with the context function given as data: lookup of a sibling field; the
   options are keyed by ints (enum members), None = the MISSING default *)
| SCtxSwitch (field : N) (cs : list (option Z * spec))
| SCtxAdapter (field : N) (opts : list (option Z * option sadapter)) (s : spec)
(* FlagSwitch: an IntFlag prefix, then the payload of every choice whose member is a key of the dict;
   choice = (member name, member value, spec) *)
| SFlagSwitch (tbl : list (N * Z)) (ip : iprim) (cs : list (N * Z * spec)).

Definition optional (s : spec) : bool :=      (* class attribute OPTIONAL *)
  match s with SOptPrefixed _ | SOptFlagged _ _ _ _ => true | _ => false end.

(* ---------- generic sequencing helpers ---------- *)

Definition dres := option (value * bytes).

Fixpoint ser_seq (fs : list (value -> option bytes)) (vs : list value) : option bytes :=
  match fs, vs with
  | [], [] => Some []
  | f :: fs', v :: vs' =>
    match f v, ser_seq fs' vs' with Some b, Some r => Some (b ++ r) | _, _ => None end
  | _, _ => None                                   (* assert len(vals) == len(prims) *)
  end.

Fixpoint de_seq (fs : list (bytes -> dres)) (b : bytes) : option (list value * bytes) :=
  match fs with
  | [] => Some ([], b)
  | f :: fs' =>
    match f b with
    | None => None
    | Some (v, r) =>
      match de_seq fs' r with None => None | Some (vs, r') => Some (v :: vs, r') end
    end
  end.

(* Template: field = (name, OPTIONAL, action) *)
Fixpoint ser_fields (fs : list (N * bool * (value -> option bytes))) (kvs : list (N * value)) : option bytes :=
  match fs with
  | [] => Some []
  | (n, opt, f) :: fs' =>
    match (match lookup n kvs with Some v => Some v | None => if opt then Some VNone else None end) with
    | None => None                                 (* KeyError *)
    | Some v => match f v, ser_fields fs' kvs with Some b, Some r => Some (b ++ r) | _, _ => None end
    end
  end.

Fixpoint de_fields (fs : list (N * bool * (ctx -> bytes -> dres))) (skip : bool)
         (acc : list (N * value)) (b : bytes) : option (list (N * value) * bytes) :=
  match fs with
  | [] => Some (acc, b)
  | (n, opt, f) :: fs' =>
    match f acc b with
    | None => None
    | Some (v, r) =>
      de_fields fs' skip (if opt && skip && is_none v then acc else acc ++ [(n, v)]) r
    end
  end.

Fixpoint ser_choices (cs : list (N * (value -> option bytes))) (kvs : list (N * value)) : option bytes :=
  match cs with
  | [] => Some []
  | (n, f) :: cs' =>
    match lookup n kvs with
    | Some x => match f x, ser_choices cs' kvs with Some b, Some r => Some (b ++ r) | _, _ => None end
    | None => ser_choices cs' kvs
    end
  end.

Fixpoint de_choices (cs : list (N * Z * (bytes -> dres))) (z : Z) (b : bytes) : option (list (N * value) * bytes) :=
  match cs with
  | [] => Some ([], b)
  | (n, cz, f) :: cs' =>
    if Z.eqb (Z.land z cz) 0 then de_choices cs' z b
    else match f b with
         | Some (x, r) =>
           match de_choices cs' z r with Some (kvs, r') => Some ((n, x) :: kvs, r') | None => None end
         | None => None
         end
  end.

Fixpoint ser_all (f : value -> option bytes) (vs : list value) : option bytes :=
  match vs with
  | [] => Some []
  | v :: vs' => match f v, ser_all f vs' with Some b, Some r => Some (b ++ r) | _, _ => None end
  end.

(* [for _ in range(k)] - reference version on nat *)
Fixpoint de_n (f : bytes -> dres) (k : nat) (b : bytes) : option (list value * bytes) :=
  match k with
  | O => Some ([], b)
  | S k' =>
    match f b with
    | None => None
    | Some (v, r) => match de_n f k' r with None => None | Some (vs, r') => Some (v :: vs, r') end
    end
  end.

(* the same loop on a binary counter, failing fast (a 32-bit count read from garbage must not
   be expanded in unary in the extracted code); SpecProofs.de_count_spec: = de_n *)
Definition cstep (f : bytes -> dres) (st : list value * bytes) : option (list value * bytes) :=
  match f (snd st) with None => None | Some (v, r) => Some (v :: fst st, r) end.

Fixpoint rep_pos {A} (f : A -> option A) (p : positive) (x : A) : option A :=
  match p with
  | xH => f x
  | xO p' => match rep_pos f p' x with Some y => rep_pos f p' y | None => None end
  | xI p' =>
    match f x with
    | Some y => match rep_pos f p' y with Some z => rep_pos f p' z | None => None end
    | None => None
    end
  end.

Definition de_count (f : bytes -> dres) (n : N) (b : bytes) : option (list value * bytes) :=
  match n with
  | N0 => Some ([], b)
  | Npos p => match rep_pos (cstep f) p ([], b) with
              | Some (acc, r) => Some (rev_append acc [], r)   (* tail-recursive reverse *)
              | None => None
              end
  end.

(* [while reader: entries.append(read(entry))] on explicit fuel *)
Fixpoint de_greedy (f : bytes -> dres) (fuel : nat) (b : bytes) : option (list value * bytes) :=
  match b with
  | [] => Some ([], [])
  | _ =>
    match fuel with
    | O => None
    | S fuel' =>
      match f b with
      | None => None
      | Some (v, r) =>
        match de_greedy f fuel' r with None => None | Some (vs, r') => Some (v :: vs, r') end
      end
    end
  end.

Fixpoint find_choice {K A} (eqb : K -> K -> bool) (k : K) (l : list (K * A)) : option A :=
  match l with
  | [] => None
  | (k', a) :: r => if eqb k k' then Some a else find_choice eqb k r
  end.

Definition ctx_pick {A} (k : option Z) (cs : list (option Z * A)) : option A :=
  match (match k with Some z => find_choice optZ_eqb (Some z) cs | None => None end) with
  | Some a => Some a
  | None => find_choice optZ_eqb None cs
  end.

Definition optN_eqb (a b : option N) : bool :=
  match a, b with Some x, Some y => N.eqb x y | None, None => true | _, _ => false end.

(* the byte-string frame of a TypedBytes wrapper *)
Definition frame_ser (e : bool) (k : tbk) (buf : bytes) : option bytes :=
  match k with
  | TBGreedy => Some buf
  | TBArray ip => ser_bytearray e ip buf
  | TBFixed n => ser_fixed n buf
  | TBTerm ts _ => ser_term ts true buf
  end.

Definition frame_de (e : bool) (k : tbk) (b : bytes) : option (bytes * bytes) :=
  match k with
  | TBGreedy => Some (b, [])
  | TBArray ip => de_bytearray e ip b
  | TBFixed n => takeN n b
  | TBTerm ts _ => de_term ts true b
  end.

(* ---------- serialize ---------- *)

Fixpoint ser (e : bool) (s : spec) (c : ctx) (v : value) {struct s} : option bytes :=
  match s with
  | SPrim p => ser_prim e p v
  | SByteArray ip => match v with VBytes b => ser_bytearray e ip b | _ => None end
  | SBytesFixed n => match v with VBytes b => ser_fixed n b | _ => None end
  | SBytesGreedy => match v with VBytes b => Some b | _ => None end
  | SBytesTerm ts wt _ => match v with VBytes b => ser_term ts wt b | _ => None end
  | SStr ip nt =>
    match v with
    | VStr b => if utf8_ok b then ser_bytearray e ip (if nt then b ++ [0] else b) else None
    | VBytes b => ser_bytearray e ip b
    | _ => None
    end
  | SStrFixed n =>
    match v with
    | VStr b =>
      if utf8_ok b then
        if n <? N.of_nat (length b) then None
        else Some (b ++ repeat 0 (N.to_nat n - length b))
      else None
    | VBytes b =>
      if n <? N.of_nat (length b) then None else Some (b ++ repeat 0 (N.to_nat n - length b))
    | _ => None
    end
  | SCStr ts wt _ => match v with VStr b => if utf8_ok b then ser_term ts wt b else None | _ => None end
  | SUUID =>
    match v with
    | VUuid b | VUuidStr b => if N.of_nat (length b) =? 16 then Some b else None
    | _ => None
    end
  | SNull => Some []
  | STuple ss =>
    match v with VList vs => ser_seq (map (fun s' => ser e s' []) ss) vs | _ => None end
  | STemplate fs _ _ =>
    match v with
    | VDict kvs => ser_fields (map (fun f => (fst f, optional (snd f), ser e (snd f) kvs)) fs) kvs
    | _ => None
    end
  | SCollection k s' =>
    match v with
    | VList vs =>
      let n := Z.of_nat (length vs) in
      match k with
      | LPrefixed ip =>
        if (ip_max ip <? n)%Z then None
        else match enc_int e ip n, ser_all (ser e s' []) vs with
             | Some h, Some r => Some (h ++ r) | _, _ => None end
      | LFixed m =>
        if negb (m =? 0) && negb (N.of_nat (length vs) =? m) then None else ser_all (ser e s' []) vs
      | LGreedy => ser_all (ser e s' []) vs
      end
    | _ => None
    end
  | SOptPrefixed s' =>
    match v with
    | VNone => Some [0]
    | _ => match ser e s' c v with Some b => Some (1 :: b) | None => None end
    end
  | SAdapter a s' => match aenc a v with Some v' => ser e s' c v' | None => None end
  | STypedBytes k s' en _ =>
    if en && is_none v then
      match k with
      | TBTerm _ true => Some []                  (* TypedBytesTerminated(skip_none): nothing at all *)
      | _ => frame_ser e k []
      end
    else match ser e s' c v with Some buf => frame_ser e k buf | None => None end
  | SIfPresent s' => match v with VNone => Some [] | _ => ser e s' c v end
  | SLengthSwitch cs =>
    match v with
    | VList [t; x] =>
      let key := match t with VInt z => if (z <? 0)%Z then None else Some (Some (Z.to_N z))
                            | VNone => Some None | _ => None end in
      match key with
      | None => None
      | Some k =>
        let choices := map (fun cs' => (fst cs', ser e (snd cs') c)) cs in
        match find_choice optN_eqb k choices with
        | Some f => f x
        | None => match find_choice optN_eqb None choices with Some f => f x | None => None end
        end
      end
    | _ => None
    end
  | SEnumSwitch tbl strict ip cs =>
    match v with
    | VList [t; x] =>
      match aenc_s (AEnum tbl strict) t with
      | Some (VInt z) =>
        match enc_int e ip z,
              find_choice Z.eqb z (map (fun cs' => (fst cs', ser e (snd cs') c)) cs) with
        | Some h, Some f => match f x with Some r => Some (h ++ r) | None => None end
        | _, _ => None
        end
      | _ => None
      end
    | _ => None
    end
  | SOptFlagged f ftbl mask s' =>
    match ctx_flag c f ftbl with
    | None => None                                 (* KeyError / TypeError on the context lookup *)
    | Some z => if Z.eqb (Z.land z mask) 0 then Some [] else ser e s' c v
    end
  | SCtxSwitch f cs =>
    match ctx_key c f with
    | None => None
    | Some k => match ctx_pick k (map (fun cs' => (fst cs', ser e (snd cs') c)) cs) with
                | Some g => g v
                | None => None                     (* KeyError: no option and no default *)
                end
    end
  | SCtxAdapter f opts s' =>
    match ctx_key c f with
    | None => None
    | Some k => match ctx_pick k opts with
                | Some None => ser e s' c v
                | Some (Some a) => match aenc_s a v with Some v' => ser e s' c v' | None => None end
                | None => None
                end
    end
  | SFlagSwitch tbl ip cs =>
    match v with
    | VDict kvs =>
      match flag_or tbl (map (fun kv => VName (fst kv)) kvs) with
      | Some z =>
        match enc_int e ip z,
              ser_choices (map (fun c' => (fst (fst c'), ser e (snd c') c)) cs) kvs with
        | Some h, Some r => Some (h ++ r)
        | _, _ => None
        end
      | None => None
      end
    | _ => None
    end
  end.

(* ---------- deserialize ---------- *)

Definition decode_str (x : option (bytes * bytes)) : dres :=
  match x with
  | Some (h, r) => let t := rstrip0 h in if utf8_ok t then Some (VStr t, r) else None
  | None => None
  end.

Definition lift_bytes (x : option (bytes * bytes)) : dres :=
  match x with Some (h, r) => Some (VBytes h, r) | None => None end.

Definition pack_list (x : option (list value * bytes)) : dres :=
  match x with Some (vs, r) => Some (VList vs, r) | None => None end.

Fixpoint de (e pod : bool) (s : spec) (c : ctx) (b : bytes) {struct s} : dres :=
  match s with
  | SPrim p => de_prim e p b
  | SByteArray ip => lift_bytes (de_bytearray e ip b)
  | SBytesFixed n => lift_bytes (takeN n b)
  | SBytesGreedy => Some (VBytes b, [])
  | SBytesTerm ts _ eof => lift_bytes (de_term ts eof b)
  | SStr ip _ => decode_str (de_bytearray e ip b)
  | SStrFixed n => decode_str (takeN n b)
  | SCStr ts _ eof =>
    match de_term ts eof b with
    | Some (h, r) => if utf8_ok h then Some (VStr h, r) else None
    | None => None
    end
  | SUUID =>
    match take 16 b with
    | Some (h, r) => Some (if pod then VUuidStr h else VUuid h, r)
    | None => None
    end
  | SNull => Some (VNone, b)
  | STuple ss => pack_list (de_seq (map (fun s' => de e pod s' []) ss) b)
  | STemplate fs skip _ =>
    match de_fields (map (fun f => (fst f, optional (snd f), de e pod (snd f))) fs) skip [] b with
    | Some (kvs, r) => Some (VDict kvs, r)
    | None => None
    end
  | SCollection k s' =>
    match k with
    | LPrefixed ip =>
      match dec_int e ip b with
      | None => None
      | Some (z, r) => pack_list (de_count (de e pod s' []) (Z.to_N z) r)   (* range(negative) is empty *)
      end
    | LFixed m =>
      if m =? 0 then pack_list (de_greedy (de e pod s' []) (length b) b)     (* Collection(0, x) is greedy *)
      else pack_list (de_count (de e pod s' []) m b)
    | LGreedy => pack_list (de_greedy (de e pod s' []) (length b) b)
    end
  | SOptPrefixed s' =>
    match b with
    | [] => None
    | x :: r => if x =? 0 then Some (VNone, r) else de e pod s' c r
    end
  | SAdapter a s' =>
    match de e pod s' c b with
    | Some (v', r) => match adec a pod v' with Some v => Some (v, r) | None => None end
    | None => None
    end
  | STypedBytes k s' en ct =>
    match frame_de e k b with
    | None => None
    | Some (buf, r) =>
      if en && is_nil buf then Some (VNone, r)
      else match de e pod s' c buf with
           | Some (v, lo) => if ct && negb (is_nil lo) then None else Some (v, r)
           | None => None
           end
    end
  | SIfPresent s' => match b with [] => Some (VNone, []) | _ => de e pod s' c b end
  | SLengthSwitch cs =>
    let size := N.of_nat (length b) in
    let choices := map (fun cs' => (fst cs', de e pod (snd cs') c)) cs in
    match (match find_choice optN_eqb (Some size) choices with
           | Some f => Some f
           | None => find_choice optN_eqb None choices
           end) with
    | Some f => match f b with
                | Some (x, r) => Some (VList [VInt (Z.of_N size); x], r)
                | None => None
                end
    | None => None
    end
  | SEnumSwitch tbl strict ip cs =>
    match dec_int e ip b with
    | None => None
    | Some (z, r) =>
      match adec_s (AEnum tbl strict) pod (VInt z) with
      | None => None
      | Some t =>
        match find_choice Z.eqb z (map (fun cs' => (fst cs', de e pod (snd cs') c)) cs) with
        | Some f =>
          match f r with Some (x, r') => Some (VList [t; x], r') | None => None end
        | None => None
        end
      end
    end
  | SOptFlagged f ftbl mask s' =>
    match ctx_flag c f ftbl with
    | None => None
    | Some z => if Z.eqb (Z.land z mask) 0 then Some (VNone, b) else de e pod s' c b
    end
  | SCtxSwitch f cs =>
    match ctx_key c f with
    | None => None
    | Some k => match ctx_pick k (map (fun cs' => (fst cs', de e pod (snd cs') c)) cs) with
                | Some g => g b
                | None => None
                end
    end
  | SCtxAdapter f opts s' =>
    match ctx_key c f with
    | None => None
    | Some k => match ctx_pick k opts with
                | Some oa =>
                  match de e pod s' c b with
                  | Some (v', r) =>
                    match oa with
                    | None => Some (v', r)
                    | Some a => match adec_s a pod v' with Some v => Some (v, r) | None => None end
                    end
                  | None => None
                  end
                | None => None
                end
    end
  | SFlagSwitch tbl ip cs =>
    match dec_int e ip b with
    | None => None
    | Some (z, r) =>
      match de_choices (map (fun c' => (fst (fst c'), snd (fst c'), de e pod (snd c') c)) cs) z r with
      | Some (kvs, r') => Some (VDict kvs, r')
      | None => None
      end
    end
  end.

(* ---------- static information ---------- *)

Fixpoint sum_sizes (l : list (option N)) : option N :=
  match l with
  | [] => Some 0
  | None :: _ => None
  | Some a :: r => match sum_sizes r with Some b => Some (a + b) | None => None end
  end.

(* SerializableBase.calc_size (None unless the class overrides it) *)
Fixpoint calc_size (s : spec) : option N :=
  match s with
  | SPrim p => Some (prim_size p)
  | SBytesFixed n => Some n
  | SUUID => Some 16
  | STuple ss => sum_sizes (map calc_size ss)
  | STemplate fs _ rc => if rc then None else sum_sizes (map (fun f => calc_size (snd f)) fs)
  | SAdapter _ s' | SCtxAdapter _ _ s' => calc_size s'
  | _ => None
  end.

(* the length shared by all encodings, where that is evident from the spec alone
   (calc_size plus the fixed-width classes that do not override calc_size) *)
Fixpoint exact_size (s : spec) : option N :=
  match s with
  | SPrim p => Some (prim_size p)
  | SBytesFixed n | SStrFixed n => Some n
  | SUUID => Some 16
  | SNull => Some 0
  | STuple ss => sum_sizes (map exact_size ss)
  | STemplate fs _ _ => sum_sizes (map (fun f => exact_size (snd f)) fs)
  | SAdapter _ s' | SCtxAdapter _ _ s' => exact_size s'
  | _ => None
  end.

Definition sumN (l : list N) : N := fold_right N.add 0 l.

(* a lower bound on the length of every encoding *)
Fixpoint min_size (s : spec) : N :=
  match s with
  | SPrim p => prim_size p
  | SByteArray ip | SStr ip _ => wN (ip_width ip)
  | SBytesFixed n | SStrFixed n => n
  | SBytesGreedy | SNull => 0
  | SBytesTerm _ wt _ | SCStr _ wt _ => if wt then 1 else 0
  | SUUID => 16
  | STuple ss => sumN (map min_size ss)
  | STemplate fs _ _ => sumN (map (fun f => min_size (snd f)) fs)
  | SCollection k s' =>
    match k with LPrefixed ip => wN (ip_width ip) | LFixed n => n * min_size s' | LGreedy => 0 end
  | SOptPrefixed _ => 1
  | SAdapter _ s' => min_size s'
  | STypedBytes k _ _ _ =>
    match k with TBArray ip => wN (ip_width ip) | TBFixed n => n | _ => 0 end
  | SIfPresent _ | SLengthSwitch _ | SOptFlagged _ _ _ _ | SCtxSwitch _ _ => 0
  | SEnumSwitch _ _ ip _ | SFlagSwitch _ ip _ => wN (ip_width ip)
  | SCtxAdapter _ _ s' => min_size s'
  end.

(* self-delimiting (true) or consuming the rest of its window (false) *)
Fixpoint delimited (s : spec) : bool :=
  match s with
  | SBytesGreedy => false
  | SBytesTerm _ wt _ | SCStr _ wt _ => wt
  | STuple ss => forallb delimited ss
  | STemplate fs _ _ => forallb (fun f => delimited (snd f)) fs
  | SCollection k _ => match k with LPrefixed _ => true | LFixed n => negb (n =? 0) | LGreedy => false end
  | SOptPrefixed s' | SAdapter _ s' | SOptFlagged _ _ _ s' | SCtxAdapter _ _ s' => delimited s'
  | SCtxSwitch _ cs => forallb (fun c => delimited (snd c)) cs
  | SFlagSwitch _ _ cs => forallb (fun c => delimited (snd c)) cs
  | STypedBytes k _ en _ =>
    match k with TBGreedy => false | TBTerm _ sk => negb (en && sk) | _ => true end
  | SIfPresent _ | SLengthSwitch _ => false
  | SEnumSwitch _ _ _ cs => forallb (fun c => delimited (snd c)) cs
  | _ => true
  end.

Fixpoint butlast_all (l : list bool) : bool :=
  match l with
  | [] => true
  | [_] => true
  | d :: r => d && butlast_all r
  end.

Fixpoint nodupN (l : list N) : bool :=
  match l with [] => true | x :: r => negb (memN x r) && nodupN r end.

Definition awf_s (a : sadapter) : bool :=
  match a with
  | AEnum tbl _ | AFlag tbl => nodupN (map fst tbl)
  | _ => true
  end.

Definition awf (a : adapter) : bool :=
  match a with
  | ASimple a' => awf_s a'
  | ABitField fs _ => nodupN (map (fun f => fst (fst f)) fs)
  end.

(* context references of a spec at its own nesting level (sequences and templates rebind the context) *)
Fixpoint refs (s : spec) : list N :=
  match s with
  | SOptFlagged f _ _ s' => f :: refs s'
  | SCtxAdapter f _ s' => f :: refs s'
  | SCtxSwitch f cs => f :: flat_map (fun c => refs (snd c)) cs
  | SFlagSwitch _ _ cs => flat_map (fun c => refs (snd c)) cs
  | SOptPrefixed s' | SAdapter _ s' | STypedBytes _ s' _ _ | SIfPresent s' => refs s'
  | SLengthSwitch cs => flat_map (fun c => refs (snd c)) cs
  | SEnumSwitch _ _ _ cs => flat_map (fun c => refs (snd c)) cs
  | _ => []
  end.

(* every member only refers to members that precede it *)
Fixpoint refs_ok (seen : list N) (fs : list (N * list N)) : bool :=
  match fs with
  | [] => true
  | (n, rs) :: r => forallb (fun x => memN x seen) rs && refs_ok (n :: seen) r
  end.

Definition term_ok (ts : list N) (wt eof : bool) : bool := negb (is_nil ts) && (wt || eof).

(* side conditions of the round-trip theorems; false for constructors whose proof stage is
   not finished, so that such specs are reported as unproved *)
Fixpoint wf (s : spec) : bool :=
  match s with
  | SBytesTerm ts wt eof | SCStr ts wt eof => term_ok ts wt eof
  | STuple ss => forallb wf ss && butlast_all (map delimited ss)
  | STemplate fs _ _ =>
    forallb (fun f => wf (snd f)) fs && butlast_all (map (fun f => delimited (snd f)) fs)
    && nodupN (map fst fs) && refs_ok [] (map (fun f => (fst f, refs (snd f))) fs)
  | SCollection k s' =>
    wf s' && delimited s' &&
    match k with
    | LPrefixed _ => true
    | LFixed n => negb (n =? 0) || (0 <? min_size s')
    | LGreedy => 0 <? min_size s'
    end
  | SOptPrefixed s' => wf s'
  | SAdapter a s' => wf s' && awf a
  | STypedBytes k s' en _ =>
    wf s' && (negb en || (0 <? min_size s')) && match k with TBTerm ts _ => negb (is_nil ts) | _ => true end
  | SIfPresent s' => wf s' && (0 <? min_size s')
  | SEnumSwitch _ _ _ cs => forallb (fun c => wf (snd c)) cs
  | SLengthSwitch cs => forallb (fun c => wf (snd c)) cs
  | SOptFlagged _ _ _ s' => wf s'
  | SCtxAdapter _ _ s' => wf s'
  | SCtxSwitch _ cs => forallb (fun c => wf (snd c)) cs
  | SFlagSwitch _ _ cs =>
    forallb (fun c => wf (snd c)) cs && butlast_all (map (fun c => delimited (snd c)) cs)
    && nodupN (map (fun c => fst (fst c)) cs)
  | _ => true
  end.

(* ---------- the domain (canonical representation per mode) ---------- *)

Fixpoint all2 (ds : list (value -> bool)) (vs : list value) : bool :=
  match ds, vs with
  | [], [] => true
  | d :: ds', v :: vs' => d v && all2 ds' vs'
  | _, _ => false
  end.

(* dict aligned with the template: keys in template order; a skipped optional None is absent *)
Fixpoint tdomb (ds : list (N * bool * (value -> bool))) (skip : bool) (kvs : list (N * value)) : bool :=
  match ds with
  | [] => is_nil kvs
  | (n, opt, D) :: ds' =>
    match kvs with
    | (n', v) :: kvs' =>
      if N.eqb n n' then D v && negb (opt && skip && is_none v) && tdomb ds' skip kvs'
      else opt && skip && D VNone && tdomb ds' skip kvs
    | [] => opt && skip && D VNone && tdomb ds' skip kvs
    end
  end.

Fixpoint items_eqb (a b : list value) : bool :=     (* lists of names / ints only *)
  match a, b with
  | [], [] => true
  | VName x :: a', VName y :: b' => N.eqb x y && items_eqb a' b'
  | VInt x :: a', VInt y :: b' => Z.eqb x y && items_eqb a' b'
  | _, _ => false
  end.

Definition adomb_s (a : sadapter) (pod : bool) (D : value -> bool) (v : value) : bool :=
  match a with
  | ABool => match v with VInt z => (Z.eqb z 0 || Z.eqb z 1) && D v | _ => false end
  | AEnum tbl strict =>
    match v with
    | VInt z =>
      D v && match find_value z tbl with Some _ => negb pod | None => negb strict end
    | VName n =>
      pod && match lookup n tbl with
             | Some z => D (VInt z) && match find_value z tbl with Some n' => N.eqb n n' | None => false end
             | None => false
             end
    | _ => false
    end
  | AFlag tbl =>
    match v with
    | VInt z => negb pod && D v
    | VList l =>
      pod && match flag_or tbl l with
             | Some z => D (VInt z) && items_eqb (flags_to_pod tbl z) l
             | None => false
             end
    | _ => false
    end
  | AOpaqueInt _ => match v with VInt _ => D v | _ => false end
  end.

Definition fval_eqb (a b : value) : bool :=
  match a, b with
  | VInt x, VInt y => Z.eqb x y
  | VName x, VName y => N.eqb x y
  | VList l1, VList l2 => items_eqb l1 l2
  | _, _ => false
  end.

Fixpoint kvs_eqb (a b : list (N * value)) : bool :=
  match a, b with
  | [], [] => true
  | (k, x) :: a', (k', y) :: b' => N.eqb k k' && fval_eqb x y && kvs_eqb a' b'
  | _, _ => false
  end.

Definition adomb (a : adapter) (pod : bool) (D : value -> bool) (v : value) : bool :=
  match a with
  | ASimple a' => adomb_s a' pod D v
  | ABitField fs sh =>
    (* a dict that packs to an int of the child's domain and is exactly what that int unpacks to *)
    match v with
    | VDict kvs =>
      match bf_enc fs sh v with
      | Some (VInt z) =>
        D (VInt z) && match bf_dec fs sh pod (VInt z) with
                      | Some (VDict kvs') => kvs_eqb kvs' kvs
                      | _ => false
                      end
      | _ => false
      end
    | _ => false
    end
  end.

(* FlagSwitch: the dict has exactly the choices selected by the flags int, in choice order *)
Fixpoint fsdomb (cs : list (N * Z * (value -> bool))) (z : Z) (kvs : list (N * value)) : bool :=
  match cs with
  | [] => is_nil kvs
  | (n, cz, D) :: cs' =>
    if Z.eqb (Z.land z cz) 0 then fsdomb cs' z kvs
    else match kvs with
         | (n', x) :: kvs' => N.eqb n n' && D x && fsdomb cs' z kvs'
         | [] => false
         end
  end.

Definition int_domb (ip : iprim) (v : value) : bool :=
  match v with VInt z => (ip_min ip <=? z)%Z && (z <=? ip_max ip)%Z | _ => false end.

Fixpoint domb (e pod : bool) (s : spec) (c : ctx) (v : value) {struct s} : bool :=
  match s with
  | SPrim (PI ip) => int_domb ip v
  | SPrim PF32 => match v with VF bits => bits <? 2 ^ 32 | _ => false end
  | SPrim PF64 => match v with VF bits => bits <? 2 ^ 64 | _ => false end
  | SByteArray ip =>
    match v with VBytes b => bytes_okb b && (Z.of_nat (length b) <=? ip_max ip)%Z | _ => false end
  | SBytesFixed n => match v with VBytes b => bytes_okb b && (N.of_nat (length b) =? n) | _ => false end
  | SBytesGreedy => match v with VBytes b => bytes_okb b | _ => false end
  | SBytesTerm ts _ _ => match v with VBytes b => bytes_okb b && no_term ts b | _ => false end
  | SStr ip nt =>
    match v with
    | VStr b => utf8_ok b && no_trail0 b
                && (Z.of_nat (length b) + (if nt then 1 else 0) <=? ip_max ip)%Z
    | _ => false
    end
  | SStrFixed n =>
    match v with VStr b => utf8_ok b && no_trail0 b && (N.of_nat (length b) <=? n) | _ => false end
  | SCStr ts _ _ => match v with VStr b => utf8_ok b && no_term ts b | _ => false end
  | SUUID =>
    match v with
    | VUuid b => negb pod && bytes_okb b && (N.of_nat (length b) =? 16)
    | VUuidStr b => pod && bytes_okb b && (N.of_nat (length b) =? 16)
    | _ => false
    end
  | SNull => is_none v
  | STuple ss => match v with VList vs => all2 (map (fun s' => domb e pod s' []) ss) vs | _ => false end
  | STemplate fs skip _ =>
    match v with
    | VDict kvs => tdomb (map (fun f => (fst f, optional (snd f), domb e pod (snd f) kvs)) fs) skip kvs
    | _ => false
    end
  | SCollection k s' =>
    match v with
    | VList vs =>
      forallb (domb e pod s' []) vs &&
      match k with
      | LPrefixed ip => (Z.of_nat (length vs) <=? ip_max ip)%Z
      | LFixed n => (n =? 0) || (N.of_nat (length vs) =? n)
      | LGreedy => true
      end
    | _ => false
    end
  | SOptPrefixed s' => is_none v || domb e pod s' c v
  | SAdapter a s' => adomb a pod (domb e pod s' c) v
  | STypedBytes k s' en _ =>
    (en && is_none v) ||
    (domb e pod s' c v &&
     match k with
     | TBTerm ts _ =>                  (* the inner encoding must not contain a terminator *)
       match ser e s' c v with Some buf => no_term ts buf | None => true end
     | _ => true
     end)
  | SIfPresent s' => is_none v || domb e pod s' c v
  | SEnumSwitch tbl strict ip cs =>
    match v with
    | VList [t; x] =>
      adomb_s (AEnum tbl strict) pod (int_domb ip) t &&
      match aenc_s (AEnum tbl strict) t with
      | Some (VInt z) =>
        match find_choice Z.eqb z (map (fun c' => (fst c', domb e pod (snd c') c)) cs) with
        | Some D => D x
        | None => false
        end
      | _ => false
      end
    | _ => false
    end
  | SLengthSwitch cs =>
    (* the tag is the byte count of the window: the encoding by the chosen branch has that length *)
    match v with
    | VList [VInt t; x] =>
      (0 <=? t)%Z &&
      let choices := map (fun c' => (fst c', (ser e (snd c') c, domb e pod (snd c') c))) cs in
      match (match find_choice optN_eqb (Some (Z.to_N t)) choices with
             | Some f => Some f
             | None => find_choice optN_eqb None choices
             end) with
      | Some (F, D) =>
        D x && match F x with Some b => N.of_nat (length b) =? Z.to_N t | None => true end
      | None => false
      end
    | _ => false
    end
  | SOptFlagged f ftbl mask s' =>
    match ctx_flag c f ftbl with
    | Some z => if Z.eqb (Z.land z mask) 0 then is_none v else domb e pod s' c v
    | None => false
    end
  | SCtxSwitch f cs =>
    match ctx_key c f with
    | Some k => match ctx_pick k (map (fun c' => (fst c', domb e pod (snd c') c)) cs) with
                | Some D => D v
                | None => false
                end
    | None => false
    end
  | SCtxAdapter f opts s' =>
    match ctx_key c f with
    | Some k => match ctx_pick k opts with
                | Some None => domb e pod s' c v
                | Some (Some a) => adomb_s a pod (domb e pod s' c) v
                | None => false
                end
    | None => false
    end
  | SFlagSwitch tbl ip cs =>
    match v with
    | VDict kvs =>
      match flag_or tbl (map (fun kv => VName (fst kv)) kvs) with
      | Some z =>
        int_domb ip (VInt z) &&
        fsdomb (map (fun c' => (fst (fst c'), snd (fst c'), domb e pod (snd c') c)) cs) z kvs
      | None => false
      end
    | _ => false
    end
  end.
