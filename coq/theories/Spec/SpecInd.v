(* C08 - hand-written induction principle for the nested inductive [spec]
   (children under [list spec], [list (N * spec)], [list (option N * spec)], [list (Z * spec)]). *)
From Coq Require Import NArith ZArith List Bool.
From HV Require Import Spec.Spec.
Import ListNotations.

Definition is_leaf (s : spec) : bool :=
  match s with
  | SPrim _ | SByteArray _ | SBytesFixed _ | SBytesGreedy | SBytesTerm _ _ _ | SStr _ _
  | SStrFixed _ | SCStr _ _ _ | SUUID | SNull => true
  | _ => false
  end.

Section SpecInd.
  Variable P : spec -> Prop.
  Hypothesis HLeaf : forall s, is_leaf s = true -> P s.
  Hypothesis HTuple : forall ss, Forall P ss -> P (STuple ss).
  Hypothesis HTemplate : forall fs skip rc, Forall (fun f => P (snd f)) fs -> P (STemplate fs skip rc).
  Hypothesis HColl : forall k s, P s -> P (SCollection k s).
  Hypothesis HOpt : forall s, P s -> P (SOptPrefixed s).
  Hypothesis HAdapter : forall a s, P s -> P (SAdapter a s).
  Hypothesis HTyped : forall k s en ct, P s -> P (STypedBytes k s en ct).
  Hypothesis HIfPresent : forall s, P s -> P (SIfPresent s).
  Hypothesis HLenSwitch : forall cs, Forall (fun c => P (snd c)) cs -> P (SLengthSwitch cs).
  Hypothesis HEnumSwitch : forall tbl strict ip cs,
      Forall (fun c => P (snd c)) cs -> P (SEnumSwitch tbl strict ip cs).
  Hypothesis HOptFlagged : forall f ftbl mask s, P s -> P (SOptFlagged f ftbl mask s).
  Hypothesis HCtxSwitch : forall f cs, Forall (fun c => P (snd c)) cs -> P (SCtxSwitch f cs).
  Hypothesis HCtxAdapter : forall f opts s, P s -> P (SCtxAdapter f opts s).
  Hypothesis HFlagSwitch : forall tbl ip cs, Forall (fun c => P (snd c)) cs -> P (SFlagSwitch tbl ip cs).

  Fixpoint spec_ind' (s : spec) : P s :=
    match s with
    | SPrim p => HLeaf (SPrim p) eq_refl
    | SByteArray ip => HLeaf (SByteArray ip) eq_refl
    | SBytesFixed n => HLeaf (SBytesFixed n) eq_refl
    | SBytesGreedy => HLeaf SBytesGreedy eq_refl
    | SBytesTerm ts wt eof => HLeaf (SBytesTerm ts wt eof) eq_refl
    | SStr ip nt => HLeaf (SStr ip nt) eq_refl
    | SStrFixed n => HLeaf (SStrFixed n) eq_refl
    | SCStr ts wt eof => HLeaf (SCStr ts wt eof) eq_refl
    | SUUID => HLeaf SUUID eq_refl
    | SNull => HLeaf SNull eq_refl
    | STuple ss =>
      HTuple ss ((fix go (l : list spec) : Forall P l :=
                    match l with
                    | [] => Forall_nil P
                    | x :: r => Forall_cons x (spec_ind' x) (go r)
                    end) ss)
    | STemplate fs skip rc =>
      HTemplate fs skip rc
                ((fix go (l : list (N * spec)) : Forall (fun f => P (snd f)) l :=
                    match l with
                    | [] => Forall_nil _
                    | x :: r => Forall_cons x (spec_ind' (snd x)) (go r)
                    end) fs)
    | SCollection k s' => HColl k s' (spec_ind' s')
    | SOptPrefixed s' => HOpt s' (spec_ind' s')
    | SAdapter a s' => HAdapter a s' (spec_ind' s')
    | STypedBytes k s' en ct => HTyped k s' en ct (spec_ind' s')
    | SIfPresent s' => HIfPresent s' (spec_ind' s')
    | SLengthSwitch cs =>
      HLenSwitch cs
                 ((fix go (l : list (option N * spec)) : Forall (fun c => P (snd c)) l :=
                     match l with
                     | [] => Forall_nil _
                     | x :: r => Forall_cons x (spec_ind' (snd x)) (go r)
                     end) cs)
    | SEnumSwitch tbl strict ip cs =>
      HEnumSwitch tbl strict ip cs
                  ((fix go (l : list (Z * spec)) : Forall (fun c => P (snd c)) l :=
                      match l with
                      | [] => Forall_nil _
                      | x :: r => Forall_cons x (spec_ind' (snd x)) (go r)
                      end) cs)
    | SOptFlagged f ftbl mask s' => HOptFlagged f ftbl mask s' (spec_ind' s')
    | SCtxSwitch f cs =>
      HCtxSwitch f cs
                 ((fix go (l : list (option Z * spec)) : Forall (fun c => P (snd c)) l :=
                     match l with
                     | [] => Forall_nil _
                     | x :: r => Forall_cons x (spec_ind' (snd x)) (go r)
                     end) cs)
    | SCtxAdapter f opts s' => HCtxAdapter f opts s' (spec_ind' s')
    | SFlagSwitch tbl ip cs =>
      HFlagSwitch tbl ip cs
                  ((fix go (l : list (N * Z * spec)) : Forall (fun c => P (snd c)) l :=
                      match l with
                      | [] => Forall_nil _
                      | x :: r => Forall_cons x (spec_ind' (snd x)) (go r)
                      end) cs)
    end.
End SpecInd.
