(* se.DictAdapter(se.Collection(length=se.U8, entry_ser)) - the shape of templates.EXTRA_PARAM_COLLECTION
   (ObjectUpdate.ObjectData.ExtraParams): a count byte, then that many entries; the decoded list of (key, value)
   pairs goes through dict(), the encoded side through tuple(dict.items()).  Definitions only; proofs are at the end
   of TexEntryProofs.v.  The entry serializer (se.EnumSwitch(IntEnum(ExtraParamType, U16), {t: TypedByteArray(U32, tmpl)}))
   is a parameter [codec (K * V)]; the extracted instance carries an entry as (type number, blob bytes). *)
From Coq Require Import NArith List Bool.
From HV Require Import Spec.TexEntry.
Import ListNotations.
Open Scope N_scope.

Section DictColl.
  Variable K V : Type.
  Variable keqb : K -> K -> bool.

  (* d[k] = v on a dict in insertion order: overwrite in place, else append *)
  Fixpoint kdict_set (k : K) (v : V) (d : list (K * V)) : list (K * V) :=
    match d with
    | [] => [(k, v)]
    | (k', v') :: r => if keqb k k' then (k', v) :: r else (k', v') :: kdict_set k v r
    end.

  (* DictAdapter.decode: dict(val) *)
  Definition to_dict (es : list (K * V)) : list (K * V) :=
    fold_left (fun d e => kdict_set (fst e) (snd e) d) es [].

  (* Collection.deserialize with a length spec: for _ in range(size): entries.append(read(entry_ser)) *)
  Fixpoint dec_entries (c : codec (K * V)) (n : nat) (bs : bytes) : option (list (K * V) * bytes) :=
    match n with
    | O => Some ([], bs)
    | S m => match dec c bs with
             | None => None
             | Some (e, r) => match dec_entries c m r with
                              | None => None
                              | Some (es, r') => Some (e :: es, r')
                              end
             end
    end.

  Definition dec_dictcoll (c : codec (K * V)) (bs : bytes) : option (list (K * V) * bytes) :=
    match bs with
    | [] => None                                  (* U8 count: nothing to read *)
    | n :: r => match dec_entries c (N.to_nat n) r with
                | None => None
                | Some (es, r') => Some (to_dict es, r')
                end
    end.

  (* DictAdapter.encode (tuple(val.items())) then Collection.serialize: more than U8.max_val entries raise *)
  Definition enc_dictcoll (c : codec (K * V)) (d : list (K * V)) : option bytes :=
    let n := N.of_nat (length d) in
    if 255 <? n then None else Some (n :: flat_map (enc c) d).

  (* se.SimpleSubfieldSerializer, EMPTY_IS_NONE = True, CHECK_TRAILING_BYTES = True *)
  Definition sub_dec_dictcoll (c : codec (K * V)) (bs : bytes) : option (option (list (K * V))) :=
    match bs with
    | [] => Some None
    | _ :: _ => match dec_dictcoll c bs with
                | Some (d, []) => Some (Some d)
                | _ => None
                end
    end.

  Definition sub_enc_dictcoll (c : codec (K * V)) (v : option (list (K * V))) : option bytes :=
    match v with
    | None => Some []
    | Some d => enc_dictcoll c d
    end.
End DictColl.

Arguments kdict_set {K V}.
Arguments to_dict {K V}.
Arguments dec_entries {K V}.
Arguments dec_dictcoll {K V}.
Arguments enc_dictcoll {K V}.
Arguments sub_dec_dictcoll {K V}.
Arguments sub_enc_dictcoll {K V}.

(* raw entry used by the extracted driver: U16 type, U32 length, that many bytes (little-endian) *)
Definition le16 (n : N) : bytes := [n mod 256; (n / 256) mod 256].

Definition raw_entry_codec : codec (N * bytes) :=
  {| enc := fun e => le16 (fst e) ++ le32 (N.of_nat (length (snd e))) ++ snd e;
     dec := fun bs =>
       match bs with
       | t0 :: t1 :: b0 :: b1 :: b2 :: b3 :: r =>
           (* struct.unpack on bytes; "mod 256" is the identity on bytes and keeps the function total on any N *)
           let len := b0 mod 256 + 256 * (b1 mod 256) + 65536 * (b2 mod 256) + 16777216 * (b3 mod 256) in
           if N.of_nat (length r) <? len then None
           else let n := N.to_nat len in Some ((t0 mod 256 + 256 * (t1 mod 256), firstn n r), skipn n r)
       | _ => None
       end |}.

Definition raw_entry_ok (e : N * bytes) : bool :=
  (fst e <? 65536) && (N.of_nat (length (snd e)) <? 4294967296).

Fixpoint nodup_keys (ks : list N) : bool :=
  match ks with
  | [] => true
  | k :: r => negb (existsb (N.eqb k) r) && nodup_keys r
  end.

Definition raw_dict_ok (d : list (N * bytes)) : bool :=
  forallb raw_entry_ok d && nodup_keys (map fst d) && (N.of_nat (length d) <=? 255).
