(* TextureEntry "exception field" codec (hippolyzer/lib/base/templates.py:
   TEFaceBitfield, TEExceptionField, TE_SERIALIZER = se.Dataclass(TextureEntryCollection),
   and the two registered wrappers TypedBytesGreedy(.., empty_is_none) and
   TypedByteArray(U32, .., empty_is_none)).  Definitions only; proofs are in TexEntryProofs.v.

   A byte is an [N] (below 256 for well-formed input).  Python exceptions are [None].
   The element serializers (se.UUID, Color4, se.F32, quantised floats, bit-field
   dataclasses, ...) are NOT modelled here: an element codec is a record [codec A]
   and the theorems take its laws as hypotheses (C08 proves them for the registered
   element specs); the extracted instance uses fixed-size raw elements. *)
From Coq Require Import NArith List Bool.
Import ListNotations.
Open Scope N_scope.

Definition bytes := list N.

(* ------------------------------------------------------------------ *)
(* TEFaceBitfield                                                      *)

(* serialize:  packed = 0; for face in faces: packed |= 1 << face *)
Definition pack_faces (faces : list N) : N :=
  fold_left (fun packed face => N.lor packed (N.shiftl 1 face)) faces 0.

(* while packed: val = packed & 0x7F; packed >>= 7; char_arr.append(val)
   (fuel = number of binary digits of packed: each round removes seven) *)
Fixpoint groups_le (fuel : nat) (packed : N) : list N :=
  match fuel with
  | O => []
  | S k => if packed =? 0 then [] else N.land packed 127 :: groups_le k (N.shiftr packed 7)
  end.

(* char_arr.reverse() *)
Definition char_arr (packed : N) : list N := rev (groups_le (N.size_nat packed) packed).

(* while char_arr: val = char_arr.pop(0); if char_arr: val |= 0x80; write U8 *)
Fixpoint emit_groups (arr : list N) : bytes :=
  match arr with
  | [] => []
  | v :: r => match r with
              | [] => [v]
              | _ :: _ => N.lor v 128 :: emit_groups r
              end
  end.

Definition enc_bitfield (faces : list N) : bytes := emit_groups (char_arr (pack_faces faces)).

(* deserialize, first loop.  [val] is the accumulator *after* the `val <<= 7` of the
   previous round (0 at the start); reading past the end raises. *)
Fixpoint dec_bits (val : N) (bs : bytes) : option (N * bytes) :=
  match bs with
  | [] => None
  | c :: r =>
      let val' := N.lor val (N.land c 127) in
      if N.land c 128 =? 0 then Some (val', r) else dec_bits (N.shiftl val' 7) r
  end.

(* second loop: i = 0; while val: if val & 1: append i; i += 1; val >>= 1
   (structural on the binary digits of val) *)
Fixpoint faces_pos (p : positive) (i : N) : list N :=
  match p with
  | xH => [i]
  | xO q => faces_pos q (i + 1)
  | xI q => i :: faces_pos q (i + 1)
  end.

Definition faces_of (val : N) : list N :=
  match val with
  | N0 => []
  | Npos p => faces_pos p 0
  end.

Definition dec_bitfield (bs : bytes) : option (list N * bytes) :=
  match dec_bits 0 bs with
  | None => None
  | Some (val, r) => Some (faces_of val, r)
  end.

(* strictly increasing, all >= lo : the tuples the decoder produces *)
Fixpoint inc_from (lo : N) (l : list N) : bool :=
  match l with
  | [] => true
  | a :: r => (lo <=? a) && inc_from (a + 1) r
  end.

Definition canonical_faces (l : list N) : bool :=
  match l with [] => false | _ => inc_from 0 l end.

(* ------------------------------------------------------------------ *)
(* TEExceptionField over an arbitrary element codec                    *)

Record codec (A : Type) := {
  enc : A -> bytes;
  dec : bytes -> option (A * bytes)
}.
Arguments enc {A}.
Arguments dec {A}.

Fixpoint faces_eqb (a b : list N) : bool :=
  match a, b with
  | [], [] => true
  | x :: a', y :: b' => (x =? y) && faces_eqb a' b'
  | _, _ => false
  end.

Section Field.
  Variable A : Type.

  (* the dict without its None entry, in insertion order: (face tuple, value) *)
  Definition excs := list (list N * A).
  (* vals[None], other items *)
  Definition fval := (A * excs)%type.

  (* vals[faces] = a on a dict: overwrite in place, else append *)
  Fixpoint dict_set (k : list N) (a : A) (d : excs) : excs :=
    match d with
    | [] => [(k, a)]
    | (k', a') :: r => if faces_eqb k k' then (k', a) :: r else (k', a') :: dict_set k a r
    end.

  Definition enc_excs (c : codec A) (e : excs) : bytes :=
    flat_map (fun fa => enc_bitfield (fst fa) ++ enc c (snd fa)) e.

  (* body of one field: default value, then (bitfield, value)* *)
  Definition enc_body (c : codec A) (v : fval) : bytes := enc c (fst v) ++ enc_excs c (snd v).

  (* TEExceptionField.serialize; the value None stands for None and for {} (both are `not vals`);
     a non-optional field given None / {} raises (TypeError / KeyError) *)
  Definition enc_field (c : codec A) (first optional : bool) (v : option fval) : option bytes :=
    match v with
    | None => if optional then Some [] else None
    | Some fv => Some ((if first then [] else [0]) ++ enc_body c fv)
    end.

  (* while reader: faces = read(TEFaceBitfield); if not faces: break; vals[faces] = read(spec) *)
  Fixpoint dec_excs (c : codec A) (fuel : nat) (acc : excs) (bs : bytes) : option (excs * bytes) :=
    match fuel with
    | O => None
    | S k =>
        match bs with
        | [] => Some (acc, [])
        | _ :: _ =>
            match dec_bitfield bs with
            | None => None
            | Some (faces, r) =>
                match faces with
                | [] => Some (acc, r)
                | _ :: _ =>
                    match dec c r with
                    | None => None
                    | Some (a, r') => dec_excs c k (dict_set faces a acc) r'
                    end
                end
            end
        end
    end.

  Definition nilb {B} (l : list B) : bool := match l with [] => true | _ => false end.

  (* TEExceptionField.deserialize *)
  Definition dec_field (c : codec A) (optional : bool) (bs : bytes) : option (option fval * bytes) :=
    if optional && nilb bs then Some (None, [])
    else match dec c bs with
         | None => None
         | Some (d, r) =>
             match dec_excs c (S (length r)) [] r with
             | None => None
             | Some (ex, r') => Some (Some (d, ex), r')
             end
         end.

  (* ---------------------------------------------------------------- *)
  (* the whole entry: se.Template over the dataclass fields, in order  *)

  Record fspec := { f_first : bool; f_optional : bool; f_codec : codec A }.

  Fixpoint enc_te (fs : list fspec) (vs : list (option fval)) : option bytes :=
    match fs, vs with
    | [], [] => Some []
    | f :: fs', v :: vs' =>
        match enc_field (f_codec f) (f_first f) (f_optional f) v with
        | None => None
        | Some b => match enc_te fs' vs' with
                    | None => None
                    | Some b' => Some (b ++ b')
                    end
        end
    | _, _ => None
    end.

  Fixpoint dec_te (fs : list fspec) (bs : bytes) : option (list (option fval) * bytes) :=
    match fs with
    | [] => Some ([], bs)
    | f :: fs' =>
        match dec_field (f_codec f) (f_optional f) bs with
        | None => None
        | Some (v, r) => match dec_te fs' r with
                         | None => None
                         | Some (vs, r') => Some (v :: vs, r')
                         end
        end
    end.

  (* the inner reader must be exhausted (TypedBytesBase._deserialize_inner, check_trailing_bytes) *)
  Definition dec_te_window (fs : list fspec) (bs : bytes) : option (list (option fval)) :=
    match dec_te fs bs with
    | Some (vs, []) => Some vs
    | _ => None
    end.

  (* se.TypedBytesGreedy(TE_SERIALIZER, empty_is_none=True): the value None <-> b"" *)
  Definition enc_te_greedy (fs : list fspec) (v : option (list (option fval))) : option bytes :=
    match v with
    | None => Some []
    | Some vs => enc_te fs vs
    end.

  Definition dec_te_greedy (fs : list fspec) (bs : bytes) : option (option (list (option fval))) :=
    match bs with
    | [] => Some None
    | _ :: _ => match dec_te_window fs bs with
                | None => None
                | Some vs => Some (Some vs)
                end
    end.

  (* layout condition: exactly the head field is `first` *)
  Fixpoint layout_ok (head : bool) (fs : list fspec) : bool :=
    match fs with
    | [] => true
    | f :: r => Bool.eqb (f_first f) head && layout_ok false r
    end.

  (* per-face meaning (TextureEntryCollection.realize, one field): the default, replaced by
     every exception naming the face, in dict order (a later entry wins) *)
  Definition realize_face (v : fval) (face : N) : A :=
    fold_left (fun cur fa => if existsb (N.eqb face) (fst fa) then snd fa else cur) (snd v) (fst v).

End Field.

Arguments dict_set {A}.
Arguments enc_excs {A}.
Arguments enc_body {A}.
Arguments enc_field {A}.
Arguments dec_excs {A}.
Arguments dec_field {A}.
Arguments f_first {A}.
Arguments f_optional {A}.
Arguments f_codec {A}.
Arguments enc_te {A}.
Arguments dec_te {A}.
Arguments dec_te_window {A}.
Arguments enc_te_greedy {A}.
Arguments dec_te_greedy {A}.
Arguments layout_ok {A}.
Arguments realize_face {A}.

(* ------------------------------------------------------------------ *)
(* raw instance used by the extracted driver: an element is its k wire bytes *)

Definition raw_codec (k : nat) : codec bytes :=
  {| enc := fun a => a;
     dec := fun bs => if Nat.ltb (length bs) k then None else Some (firstn k bs, skipn k bs) |}.

Definition raw_fspec (l : bool * bool * nat) : fspec bytes :=
  let '(fi, op, k) := l in {| f_first := fi; f_optional := op; f_codec := raw_codec k |}.

Definition raw_layout (ls : list (bool * bool * nat)) : list (fspec bytes) := map raw_fspec ls.

(* boolean domain of the round-trip theorem at the raw instance *)
Fixpoint nodup_faces (ks : list (list N)) : bool :=
  match ks with
  | [] => true
  | k :: r => negb (existsb (faces_eqb k) r) && nodup_faces r
  end.

Definition raw_fval_ok (k : nat) (v : fval bytes) : bool :=
  Nat.eqb (length (fst v)) k
  && forallb (fun fa => canonical_faces (fst fa) && Nat.eqb (length (snd fa)) k) (snd v)
  && nodup_faces (map fst (snd v)).

(* exactly the head field is `first`; element sizes positive *)
Definition raw_layout_okb (ls : list (bool * bool * nat)) : bool :=
  layout_ok true (raw_layout ls) && forallb (fun l => Nat.ltb 0 (snd l)) ls.

(* absent values only for optional fields and only as a suffix *)
Fixpoint raw_te_ok (ls : list (bool * bool * nat)) (vs : list (option (fval bytes))) : bool :=
  match ls, vs with
  | [], [] => true
  | (_, op, k) :: ls', v :: vs' =>
      match v with
      | Some fv => raw_fval_ok k fv && raw_te_ok ls' vs'
      | None => op && forallb (fun x => match x with None => true | Some _ => false end) vs' && raw_te_ok ls' vs'
      end
  | _, _ => false
  end.

(* se.TypedByteArray(se.U32, TE_SERIALIZER, empty_is_none=True), little-endian prefix *)
Definition le32 (n : N) : bytes := [n mod 256; (n / 256) mod 256; (n / 65536) mod 256; (n / 16777216) mod 256].

Definition enc_te_u32 {A} (fs : list (fspec A)) (v : option (list (option (fval A)))) : option bytes :=
  match enc_te_greedy fs v with
  | None => None
  | Some b => let n := N.of_nat (length b) in
              if n <? 4294967296 then Some (le32 n ++ b) else None   (* struct.error *)
  end.

Definition dec_te_u32 {A} (fs : list (fspec A)) (bs : bytes) : option (option (list (option (fval A))) * bytes) :=
  match bs with
  | b0 :: b1 :: b2 :: b3 :: r =>
      let len := b0 + 256 * b1 + 65536 * b2 + 16777216 * b3 in
      if N.of_nat (length r) <? len then None       (* read_bytes: not enough bytes left *)
      else let n := N.to_nat len in
           match dec_te_greedy fs (firstn n r) with
           | None => None
           | Some v => Some (v, skipn n r)
           end
  | _ => None
  end.

(* the registered subfield serializers (se.SimpleSubfieldSerializer, EMPTY_IS_NONE = True, CHECK_TRAILING_BYTES = True):
   TextureEntrySubfieldSerializer around the greedy wrapper behaves exactly like [enc_te_greedy]/[dec_te_greedy];
   DPTextureEntrySubfieldSerializer around the U32-prefixed wrapper maps None to b"" (not to a zero prefix), b"" to
   None, and refuses bytes after the prefixed blob *)
Definition sub_enc_u32 {A} (fs : list (fspec A)) (v : option (list (option (fval A)))) : option bytes :=
  match v with
  | None => Some []
  | Some _ => enc_te_u32 fs v
  end.

Definition sub_dec_u32 {A} (fs : list (fspec A)) (bs : bytes) : option (option (list (option (fval A)))) :=
  match bs with
  | [] => Some None
  | _ :: _ => match dec_te_u32 fs bs with
              | Some (v, []) => Some v
              | _ => None
              end
  end.
