(* C09 (byte-payload clauses) - soundness of the decoder of Spec.v on the fragment [sound_frag] of SpecSound.v:
   whatever [de] accepts lies in the domain [domb] and is written again by [ser]; on [canon] specs the bytes written
   are the bytes that were read.  Corollaries: a serializer's own output survives byte-for-byte (from C08's round
   trip), and ONE decode-encode pass over any accepted payload reaches a fixed point that decodes to the same value. *)
From Coq Require Import NArith ZArith List Bool Lia ZifyBool ZifyNat ZifyN.
From HV Require Import Base.Bytes Spec.Spec Spec.SpecLemmas Spec.SpecInd Spec.SpecSize Spec.SpecAdapters
  Spec.SpecProofs Spec.SpecSound.
Import ListNotations.
Open Scope N_scope.

(* ---------- bytes ---------- *)

Lemma take_okb n b h r : bytes_okb b = true -> take n b = Some (h, r) ->
  bytes_okb h = true /\ bytes_okb r = true /\ b = h ++ r /\ length h = n.
Proof.
  intros Hb Ht. apply take_some in Ht as [-> Hl]. rewrite bytes_okb_app in Hb.
  apply andb_prop in Hb as [H1 H2]. auto.
Qed.

Lemma takeN_okb n b h r : bytes_okb b = true -> takeN n b = Some (h, r) ->
  bytes_okb h = true /\ bytes_okb r = true /\ b = h ++ r /\ N.of_nat (length h) = n.
Proof.
  intros Hb Ht. apply takeN_some in Ht as [-> Hl]. rewrite bytes_okb_app in Hb.
  apply andb_prop in Hb as [H1 H2]. auto.
Qed.

Lemma get_bound e h : bytes_okb h = true -> get e h < 256 ^ N.of_nat (length h).
Proof.
  intros H. destruct e; cbn [get].
  - now apply of_le_bound.
  - unfold of_be. rewrite <- (rev_length h). apply of_le_bound. now rewrite bytes_okb_rev.
Qed.

Lemma put_get e h : bytes_okb h = true -> put e (length h) (get e h) = h.
Proof.
  intros H. destruct e; cbn [put get]; [now apply le_bytes_of_le | now apply be_bytes_of_be].
Qed.

(* every fixed-width integer that is read is in range and is written back as the bytes it was read from *)
Lemma dec_int_sound e ip b z r : bytes_okb b = true -> dec_int e ip b = Some (z, r) ->
  bytes_okb r = true /\ (ip_min ip <= z <= ip_max ip)%Z /\ exists h, enc_int e ip z = Some h /\ b = h ++ r.
Proof.
  intros Hb Hd. destruct ip as [sg w]. unfold dec_int in Hd.
  destruct (take (wbytes w) b) as [[h r']|] eqn:Et; [|discriminate].
  destruct (take_okb _ _ _ _ Hb Et) as (Hh & Hr & -> & Hl).
  pose proof (wbytes_pos w) as Hw.
  pose proof (get_bound e h Hh) as Hu. rewrite Hl in Hu.
  pose proof (put_get e h Hh) as Hp. rewrite Hl in Hp.
  assert (Hpos : (0 < 2 ^ (8 * Z.of_nat (wbytes w) - 1))%Z) by (apply Z.pow_pos_nonneg; lia).
  pose proof (pow2_split (8 * Z.of_nat (wbytes w)) ltac:(lia)) as Hs.
  destruct sg; injection Hd as <- <-.
  - pose proof (to_signed_range _ _ Hw Hu) as Hrg. unfold signed_range in Hrg.
    assert (Hin : (ip_min (IP true w) <= to_signed (wbytes w) (get e h) <= ip_max (IP true w))%Z)
      by (cbn [ip_min ip_max]; lia).
    split; [exact Hr|]. split; [exact Hin|].
    exists h. split; [|reflexivity]. unfold enc_int.
    replace ((ip_min (IP true w) <=? to_signed (wbytes w) (get e h))%Z
             && (to_signed (wbytes w) (get e h) <=? ip_max (IP true w))%Z) with true by lia.
    now rewrite (of_to_signed _ _ Hw Hu), Hp.
  - assert (Hz : (Z.of_N (get e h) < 2 ^ (8 * Z.of_nat (wbytes w)))%Z) by (rewrite <- pow256_Z; lia).
    assert (Hin : (ip_min (IP false w) <= Z.of_N (get e h) <= ip_max (IP false w))%Z)
      by (cbn [ip_min ip_max]; lia).
    split; [exact Hr|]. split; [exact Hin|].
    exists h. split; [|reflexivity]. unfold enc_int.
    replace ((ip_min (IP false w) <=? Z.of_N (get e h))%Z && (Z.of_N (get e h) <=? ip_max (IP false w))%Z)
      with true by lia.
    now rewrite N2Z.id, Hp.
Qed.

Lemma ser_bytearray_some e ip b : (Z.of_nat (length b) <= ip_max ip)%Z -> exists out, ser_bytearray e ip b = Some out.
Proof.
  intros H. unfold ser_bytearray.
  replace (ip_max ip <? Z.of_nat (length b))%Z with false by lia.
  destruct (enc_int_some e ip (Z.of_nat (length b))) as (h & ->); [|eauto].
  pose proof (ip_min_nonpos ip). lia.
Qed.

Lemma de_bytearray_sound e ip b h r : bytes_okb b = true -> de_bytearray e ip b = Some (h, r) ->
  bytes_okb h = true /\ bytes_okb r = true /\ (Z.of_nat (length h) <= ip_max ip)%Z /\
  exists out, ser_bytearray e ip h = Some out /\ b = out ++ r.
Proof.
  intros Hb Hd. unfold de_bytearray in Hd.
  destruct (dec_int e ip b) as [[z r0]|] eqn:Ez; [|discriminate].
  destruct (dec_int_sound _ _ _ _ _ Hb Ez) as (Hr0 & Hrg & hd & Henc & ->).
  destruct (z <? 0)%Z eqn:Eneg; [discriminate|].
  destruct (takeN_okb _ _ _ _ Hr0 Hd) as (Hh & Hr & -> & Hl).
  assert (Hlen : Z.of_nat (length h) = z) by lia.
  split; [exact Hh|]. split; [exact Hr|]. split; [lia|].
  exists (hd ++ h). split; [|now rewrite app_assoc].
  unfold ser_bytearray. rewrite Hlen, Henc.
  replace (ip_max ip <? z)%Z with false by lia. reflexivity.
Qed.

Lemma scan_spec ts b : forall p q, scan ts b = (p, q) -> b = p ++ q /\ no_term ts p = true.
Proof.
  induction b as [|x b IH]; intros p q H; cbn [scan] in H.
  - injection H as <- <-. auto.
  - destruct (memN x ts) eqn:Ex.
    + injection H as <- <-. auto.
    + destruct (scan ts b) as [p' q'] eqn:Es. injection H as <- <-.
      destruct (IH p' q' eq_refl) as [-> Hn]. split; [reflexivity|].
      cbn [no_term forallb]. rewrite Ex. exact Hn.
Qed.

Lemma de_term_sound ts eof b p r : bytes_okb b = true -> de_term ts eof b = Some (p, r) ->
  bytes_okb p = true /\ bytes_okb r = true /\ no_term ts p = true.
Proof.
  intros Hb Hd. unfold de_term in Hd. destruct (scan ts b) as [p' q] eqn:Es.
  destruct (scan_spec _ _ _ _ Es) as [-> Hn]. rewrite bytes_okb_app in Hb. apply andb_prop in Hb as [Hp Hq].
  destruct q as [|t q'].
  - destruct eof; [|discriminate]. injection Hd as <- <-. auto.
  - injection Hd as <- <-. rewrite bytes_okb_cons in Hq. apply andb_prop in Hq as [_ Hq]. auto.
Qed.

Lemma ser_term_some ts wt eof b : term_ok ts wt eof = true -> exists out, ser_term ts wt b = Some out.
Proof.
  unfold term_ok, ser_term. intros H. apply andb_prop in H as [Hts _].
  destruct wt; [|eauto]. destruct ts; [discriminate|eauto].
Qed.

(* bytes.rstrip(b"\x00") removes a run of NULs at the end *)
Lemma rstrip0_split l : exists k, l = rstrip0 l ++ repeat 0 k.
Proof.
  induction l as [|x r [k IH]]; [exists 0%nat; reflexivity|].
  cbn [rstrip0]. destruct ((x =? 0) && is_nil (rstrip0 r)) eqn:E.
  - apply andb_prop in E as [Hx Hn]. apply N.eqb_eq in Hx. subst x.
    destruct (rstrip0 r); [|discriminate]. exists (S k). cbn [app repeat]. now rewrite IH at 1.
  - exists k. cbn [app]. now rewrite IH at 1.
Qed.

Lemma rstrip0_no_trail l : no_trail0 (rstrip0 l) = true.
Proof.
  unfold no_trail0. induction l as [|x r IH]; [reflexivity|].
  cbn [rstrip0]. destruct (rstrip0 r) as [|y t] eqn:Er.
  - cbn [is_nil]. rewrite andb_true_r. destruct (x =? 0) eqn:Ex; [reflexivity|]. cbn. now rewrite Ex.
  - cbn [is_nil]. rewrite andb_false_r. exact IH.
Qed.

Lemma rstrip0_facts l : bytes_okb l = true ->
  bytes_okb (rstrip0 l) = true /\ (length (rstrip0 l) <= length l)%nat.
Proof.
  intros H. destruct (rstrip0_split l) as [k Hk]. split.
  - rewrite Hk, bytes_okb_app in H. now apply andb_prop in H as [H _].
  - rewrite Hk at 2. rewrite app_length. lia.
Qed.

(* ---------- the statement ---------- *)

Definition snd_at (e pod : bool) (s : spec) : Prop :=
  forall cd cs b v rest,
    wf s = true -> sound_frag s = true -> bytes_okb b = true ->
    agree (refs s) cd cs ->
    de e pod s cd b = Some (v, rest) ->
    (delimited s = true \/ rest = []) ->
    bytes_okb rest = true /\ domb e pod s cs v = true /\
    exists b', ser e s cs v = Some b' /\ (canon s = true -> b = b' ++ rest).

(* ---------- leaves ---------- *)

Lemma snd_leaf e pod s : is_leaf s = true -> snd_at e pod s.
Proof.
  intros Hl cd cs b v rest Hwf Hfr Hb _ Hd Hr.
  destruct s; try discriminate Hl; cbn [ser de domb wf sound_frag canon] in *.
  - (* prim *)
    destruct p as [ip| |]; cbn [de_prim ser_prim] in *.
    + destruct (dec_int e ip b) as [[z r]|] eqn:Ez; [|discriminate]. injection Hd as <- <-.
      destruct (dec_int_sound _ _ _ _ _ Hb Ez) as (Hr' & Hrg & h & Henc & ->).
      split; [exact Hr'|]. split; [cbn [int_domb]; lia|]. exists h. auto.
    + destruct (take 4 b) as [[h r]|] eqn:Et; [|discriminate]. injection Hd as <- <-.
      destruct (take_okb _ _ _ _ Hb Et) as (Hh & Hr' & -> & Hlen).
      pose proof (get_bound e h Hh) as Hu. rewrite Hlen in Hu. change (256 ^ N.of_nat 4) with (2 ^ 32) in Hu.
      pose proof (put_get e h Hh) as Hp. rewrite Hlen in Hp.
      split; [exact Hr'|]. split; [lia|]. exists h.
      replace (get e h <? 2 ^ 32) with true by lia. rewrite Hp. auto.
    + destruct (take 8 b) as [[h r]|] eqn:Et; [|discriminate]. injection Hd as <- <-.
      destruct (take_okb _ _ _ _ Hb Et) as (Hh & Hr' & -> & Hlen).
      pose proof (get_bound e h Hh) as Hu. rewrite Hlen in Hu. change (256 ^ N.of_nat 8) with (2 ^ 64) in Hu.
      pose proof (put_get e h Hh) as Hp. rewrite Hlen in Hp.
      split; [exact Hr'|]. split; [lia|]. exists h.
      replace (get e h <? 2 ^ 64) with true by lia. rewrite Hp. auto.
  - (* bytearray *)
    unfold lift_bytes in Hd. destruct (de_bytearray e ip b) as [[h r]|] eqn:Ea; [|discriminate].
    injection Hd as <- <-. destruct (de_bytearray_sound _ _ _ _ _ Hb Ea) as (Hh & Hr' & Hlen & out & Hs & ->).
    split; [exact Hr'|]. split; [rewrite Hh; cbn [andb]; lia|]. exists out. auto.
  - (* bytesfixed *)
    unfold lift_bytes in Hd. destruct (takeN n b) as [[h r]|] eqn:Et; [|discriminate].
    injection Hd as <- <-. destruct (takeN_okb _ _ _ _ Hb Et) as (Hh & Hr' & -> & Hlen).
    split; [exact Hr'|]. split; [rewrite Hh; cbn [andb]; lia|]. exists h. unfold ser_fixed.
    replace (N.of_nat (length h) =? n) with true by lia. auto.
  - (* bytesgreedy *)
    injection Hd as <- <-. split; [reflexivity|]. split; [exact Hb|]. exists b. split; [reflexivity|].
    intros _. now rewrite app_nil_r.
  - (* bytesterm *)
    unfold lift_bytes in Hd. destruct (de_term ts eof b) as [[p r]|] eqn:Et; [|discriminate].
    injection Hd as <- <-. destruct (de_term_sound _ _ _ _ _ Hb Et) as (Hp & Hr' & Hn).
    split; [exact Hr'|]. split; [now rewrite Hp, Hn|].
    destruct (ser_term_some ts wt eof p Hwf) as (out & ->). exists out. split; [reflexivity|discriminate].
  - (* str, null_term = False *)
    apply negb_true_iff in Hfr. subst nt. unfold decode_str in Hd.
    destruct (de_bytearray e ip b) as [[h r]|] eqn:Ea; [|discriminate].
    destruct (utf8_ok (rstrip0 h)) eqn:Eu; [|discriminate]. injection Hd as <- <-.
    destruct (de_bytearray_sound _ _ _ _ _ Hb Ea) as (Hh & Hr' & Hlen & _).
    destruct (rstrip0_facts h Hh) as [Hok Hle].
    split; [exact Hr'|]. split; [rewrite Eu, rstrip0_no_trail; cbn [andb]; lia|].
    rewrite Eu. destruct (ser_bytearray_some e ip (rstrip0 h) ltac:(lia)) as (out & ->).
    exists out. split; [reflexivity|discriminate].
  - (* strfixed *)
    unfold decode_str in Hd. destruct (takeN n b) as [[h r]|] eqn:Et; [|discriminate].
    destruct (utf8_ok (rstrip0 h)) eqn:Eu; [|discriminate]. injection Hd as <- <-.
    destruct (takeN_okb _ _ _ _ Hb Et) as (Hh & Hr' & -> & Hlen).
    destruct (rstrip0_facts h Hh) as [Hok Hle].
    split; [exact Hr'|]. split; [rewrite Eu, rstrip0_no_trail; cbn [andb]; lia|].
    rewrite Eu. replace (n <? N.of_nat (length (rstrip0 h))) with false by lia.
    eexists. split; [reflexivity|discriminate].
  - (* cstr *)
    destruct (de_term ts eof b) as [[p r]|] eqn:Et; [|discriminate].
    destruct (utf8_ok p) eqn:Eu; [|discriminate]. injection Hd as <- <-.
    destruct (de_term_sound _ _ _ _ _ Hb Et) as (Hp & Hr' & Hn).
    split; [exact Hr'|]. split; [now rewrite Eu, Hn|]. rewrite Eu.
    destruct (ser_term_some ts wt eof p Hwf) as (out & ->). exists out. split; [reflexivity|discriminate].
  - (* uuid *)
    destruct (take 16 b) as [[h r]|] eqn:Et; [|discriminate]. injection Hd as <- <-.
    destruct (take_okb _ _ _ _ Hb Et) as (Hh & Hr' & -> & Hlen).
    split; [exact Hr'|].
    assert (H16 : (N.of_nat (length h) =? 16) = true) by lia.
    split.
    + destruct pod; cbn [domb negb andb]; now rewrite Hh, H16.
    + exists h. destruct pod; rewrite H16; auto.
  - (* null *)
    injection Hd as <- <-. split; [exact Hb|]. split; [reflexivity|]. exists []. auto.
Qed.

(* ---------- Tuple ---------- *)

Lemma butlast_head {A} (d : A -> bool) x y l : butlast_all (map d (x :: y :: l)) = true ->
  d x = true /\ butlast_all (map d (y :: l)) = true.
Proof. cbn [map]. rewrite butlast_all_cons. intros H. now apply andb_prop in H. Qed.

Lemma snd_seq e pod ss : Forall (snd_at e pod) ss ->
  forall b vs rest,
    forallb wf ss = true -> forallb sound_frag ss = true -> butlast_all (map delimited ss) = true ->
    bytes_okb b = true ->
    de_seq (map (fun s' => de e pod s' []) ss) b = Some (vs, rest) ->
    (forallb delimited ss = true \/ rest = []) ->
    bytes_okb rest = true /\ all2 (map (fun s' => domb e pod s' []) ss) vs = true /\
    exists b', ser_seq (map (fun s' => ser e s' []) ss) vs = Some b' /\
               (forallb canon ss = true -> b = b' ++ rest).
Proof.
  induction 1 as [|s ss Hs _ IH]; intros b vs rest Hwf Hfr Hbl Hb Hd Hr.
  - cbn in Hd. injection Hd as <- <-. split; [exact Hb|]. split; [reflexivity|]. exists []. auto.
  - cbn [map de_seq] in Hd. cbn [forallb] in Hwf, Hfr.
    apply andb_prop in Hwf as [Hwfs Hwf]. apply andb_prop in Hfr as [Hfrs Hfr].
    destruct (de e pod s [] b) as [[v r]|] eqn:E1; [|discriminate].
    destruct (de_seq (map (fun s' => de e pod s' []) ss) r) as [[vs' r']|] eqn:E2; [|discriminate].
    injection Hd as <- <-.
    assert (Hhead : delimited s = true \/ r = []).
    { destruct ss as [|s2 ss'].
      - cbn in E2. injection E2 as <- <-. destruct Hr as [Hr|Hr]; [left|now right].
        cbn in Hr. now rewrite andb_true_r in Hr.
      - left. now apply (butlast_head delimited) in Hbl as [Hbl _]. }
    assert (Hbl' : butlast_all (map delimited ss) = true).
    { destruct ss as [|s2 ss']; [reflexivity|]. now apply (butlast_head delimited) in Hbl as [_ Hbl]. }
    assert (Hr' : forallb delimited ss = true \/ r' = []).
    { destruct Hr as [Hr|Hr]; [left|now right]. cbn [forallb] in Hr. now apply andb_prop in Hr as [_ Hr]. }
    destruct (Hs [] [] b v r Hwfs Hfrs Hb (agree_same _ _) E1 Hhead) as (Hrok & Hdv & b1 & Hs1 & Hc1).
    destruct (IH r vs' r' Hwf Hfr Hbl' Hrok E2 Hr') as (Hrok' & Hdvs & b2 & Hs2 & Hc2).
    split; [exact Hrok'|]. split; [cbn [map all2]; now rewrite Hdv, Hdvs|].
    exists (b1 ++ b2). split; [cbn [map ser_seq]; now rewrite Hs1, Hs2|].
    cbn [forallb]. intros Hc. apply andb_prop in Hc as [Hcs Hc].
    rewrite (Hc1 Hcs), (Hc2 Hc). now rewrite app_assoc.
Qed.

(* ---------- Collection ---------- *)

Lemma snd_n e pod s : snd_at e pod s -> wf s = true -> sound_frag s = true -> delimited s = true ->
  forall k b vs rest,
    bytes_okb b = true -> de_n (de e pod s []) k b = Some (vs, rest) ->
    bytes_okb rest = true /\ forallb (domb e pod s []) vs = true /\ length vs = k /\
    exists b', ser_all (ser e s []) vs = Some b' /\ (canon s = true -> b = b' ++ rest).
Proof.
  intros Hs Hwf Hfr Hdl. induction k as [|k IH]; intros b vs rest Hb Hd; cbn [de_n] in Hd.
  - injection Hd as <- <-. split; [exact Hb|]. split; [reflexivity|]. split; [reflexivity|]. exists []. auto.
  - destruct (de e pod s [] b) as [[v r]|] eqn:E1; [|discriminate].
    destruct (de_n (de e pod s []) k r) as [[vs' r']|] eqn:E2; [|discriminate]. injection Hd as <- <-.
    destruct (Hs [] [] b v r Hwf Hfr Hb (agree_same _ _) E1 (or_introl Hdl)) as (Hrok & Hdv & b1 & Hs1 & Hc1).
    destruct (IH r vs' r' Hrok E2) as (Hrok' & Hdvs & Hlen & b2 & Hs2 & Hc2).
    split; [exact Hrok'|]. split; [cbn [forallb]; now rewrite Hdv, Hdvs|]. split; [cbn [length]; now rewrite Hlen|].
    exists (b1 ++ b2). split; [cbn [ser_all]; now rewrite Hs1, Hs2|].
    intros Hc. rewrite (Hc1 Hc), (Hc2 Hc). now rewrite app_assoc.
Qed.

Lemma snd_greedy e pod s : snd_at e pod s -> wf s = true -> sound_frag s = true -> delimited s = true ->
  forall fuel b vs rest,
    bytes_okb b = true -> de_greedy (de e pod s []) fuel b = Some (vs, rest) ->
    rest = [] /\ forallb (domb e pod s []) vs = true /\
    exists b', ser_all (ser e s []) vs = Some b' /\ (canon s = true -> b = b').
Proof.
  intros Hs Hwf Hfr Hdl. induction fuel as [|fuel IH]; intros b vs rest Hb Hd.
  - destruct b; [|discriminate]. cbn in Hd. injection Hd as <- <-.
    split; [reflexivity|]. split; [reflexivity|]. exists []. auto.
  - destruct b as [|x b0].
    + cbn in Hd. injection Hd as <- <-. split; [reflexivity|]. split; [reflexivity|]. exists []. auto.
    + cbn [de_greedy] in Hd.
      destruct (de e pod s [] (x :: b0)) as [[v r]|] eqn:E1; [|discriminate].
      destruct (de_greedy (de e pod s []) fuel r) as [[vs' r']|] eqn:E2; [|discriminate]. injection Hd as <- <-.
      destruct (Hs [] [] (x :: b0) v r Hwf Hfr Hb (agree_same _ _) E1 (or_introl Hdl)) as (Hrok & Hdv & b1 & Hs1 & Hc1).
      destruct (IH r vs' r' Hrok E2) as (-> & Hdvs & b2 & Hs2 & Hc2).
      split; [reflexivity|]. split; [cbn [forallb]; now rewrite Hdv, Hdvs|].
      exists (b1 ++ b2). split; [cbn [ser_all]; now rewrite Hs1, Hs2|].
      intros Hc. rewrite (Hc1 Hc), (Hc2 Hc). reflexivity.
Qed.

(* ---------- Template ---------- *)

Lemma lookup_none_app {A} n (a b : list (N * A)) : lookup n a = None -> lookup n (a ++ b) = lookup n b.
Proof. intros H. now rewrite lookup_app, H. Qed.

(* the field loop, read forwards: what it appends to [acc] is a dict aligned with the remaining members, every
   member value lies in the member's domain UNDER THE FINAL DICT [kvs] (context references point backwards and
   the names are distinct, so the partial dict a member was read under agrees with the final one), and the
   remaining members write [new] back *)
Lemma snd_fields e pod skip fs : Forall (fun f => snd_at e pod (snd f)) fs ->
  forall acc seen b kvs rest,
    forallb (fun f => wf (snd f)) fs = true ->
    forallb (fun f => sound_frag (snd f)) fs = true ->
    butlast_all (map (fun f => delimited (snd f)) fs) = true ->
    nodupN (map fst fs) = true ->
    refs_ok seen (map (fun f => (fst f, refs (snd f))) fs) = true ->
    (forall m, memN m seen = true -> memN m (map fst fs) = false) ->
    (forall m, memN m (map fst fs) = true -> lookup m acc = None) ->
    bytes_okb b = true ->
    de_fields (map (fun f => (fst f, optional (snd f), de e pod (snd f))) fs) skip acc b = Some (kvs, rest) ->
    (forallb (fun f => delimited (snd f)) fs = true \/ rest = []) ->
    exists new,
      kvs = acc ++ new /\ bytes_okb rest = true /\
      (forall m, memN m (map fst fs) = false -> lookup m new = None) /\
      tdomb (map (fun f => (fst f, optional (snd f), domb e pod (snd f) kvs)) fs) skip new = true /\
      exists b', ser_fields (map (fun f => (fst f, optional (snd f), ser e (snd f) kvs)) fs) kvs = Some b' /\
                 (forallb (fun f => canon (snd f)) fs = true -> b = b' ++ rest).
Proof.
  induction 1 as [|f fs Hs _ IH]; intros acc seen b kvs rest Hwf Hfr Hbl Hnd Hro Hseen Hacc Hb Hd Hr.
  - cbn in Hd. injection Hd as <- <-. exists []. rewrite app_nil_r.
    split; [reflexivity|]. split; [exact Hb|]. split; [reflexivity|]. split; [reflexivity|]. exists []. auto.
  - cbn [map de_fields] in Hd. cbn [forallb] in Hwf, Hfr.
    apply andb_prop in Hwf as [Hwfs Hwf]. apply andb_prop in Hfr as [Hfrs Hfr].
    cbn [map nodupN] in Hnd. apply andb_prop in Hnd as [Hnin Hnd]. apply negb_true_iff in Hnin.
    cbn [map refs_ok fst snd] in Hro. apply andb_prop in Hro as [Hrefs Hro].
    destruct (de e pod (snd f) acc b) as [[v r]|] eqn:E1; [|discriminate].
    set (acc' := if optional (snd f) && skip && is_none v then acc else acc ++ [(fst f, v)]) in Hd.
    assert (Hhead : delimited (snd f) = true \/ r = []).
    { destruct fs as [|f2 fs'].
      - cbn in Hd. injection Hd as _ <-. destruct Hr as [Hr|Hr]; [left|now right].
        cbn in Hr. now rewrite andb_true_r in Hr.
      - left. now apply (butlast_head (fun f => delimited (snd f))) in Hbl as [Hbl _]. }
    assert (Hbl' : butlast_all (map (fun f => delimited (snd f)) fs) = true).
    { destruct fs as [|f2 fs']; [reflexivity|].
      now apply (butlast_head (fun f => delimited (snd f))) in Hbl as [_ Hbl]. }
    assert (Hr' : forallb (fun f => delimited (snd f)) fs = true \/ rest = []).
    { destruct Hr as [Hr|Hr]; [left|now right]. cbn [forallb] in Hr. now apply andb_prop in Hr as [_ Hr]. }
    assert (Hself : memN (fst f) (map fst (f :: fs)) = true).
    { cbn [map]. rewrite memN_cons, N.eqb_refl. reflexivity. }
    assert (Hsub : forall m, memN m (map fst fs) = true -> memN m (map fst (f :: fs)) = true).
    { intros m Hm. cbn [map]. rewrite memN_cons, Hm. apply orb_true_r. }
    assert (Hseen' : forall m, memN m (fst f :: seen) = true -> memN m (map fst fs) = false).
    { intros m Hm. rewrite memN_cons in Hm. apply orb_prop in Hm as [Hm|Hm].
      - apply N.eqb_eq in Hm. now subst m.
      - pose proof (Hseen m Hm) as Hk. cbn [map] in Hk. rewrite memN_cons in Hk.
        now apply orb_false_iff in Hk as [_ Hk]. }
    assert (Hacc' : forall m, memN m (map fst fs) = true -> lookup m acc' = None).
    { intros m Hm. subst acc'. destruct (optional (snd f) && skip && is_none v).
      - exact (Hacc m (Hsub m Hm)).
      - rewrite lookup_app, (Hacc m (Hsub m Hm)). cbn [lookup].
        destruct (m =? fst f) eqn:E; [|reflexivity].
        apply N.eqb_eq in E. subst m. rewrite Hm in Hnin. discriminate. }
    (* the remaining members first: this fixes the final dict *)
    assert (Hrok : bytes_okb r = true).
    { destruct (Hs acc acc b v r Hwfs Hfrs Hb (agree_same _ _) E1 Hhead) as (Hrok & _). exact Hrok. }
    destruct (IH acc' (fst f :: seen) r kvs rest Hwf Hfr Hbl' Hnd Hro Hseen' Hacc' Hrok Hd Hr')
      as (new' & Hkvs & Hrest & Hnames & Htd & b2 & Hs2 & Hc2).
    (* the member itself, read under [acc], judged under the final dict *)
    assert (Hag : agree (refs (snd f)) acc kvs).
    { intros m Hm. rewrite forallb_forall in Hrefs. pose proof (Hrefs m Hm) as Hms.
      pose proof (Hseen m Hms) as Hk. cbn [map] in Hk. rewrite memN_cons in Hk.
      apply orb_false_iff in Hk as [Hmf Hk].
      rewrite Hkvs. subst acc'. destruct (optional (snd f) && skip && is_none v).
      + rewrite lookup_app, (Hnames m Hk). now destruct (lookup m acc).
      + rewrite <- app_assoc, lookup_app. cbn [app lookup]. rewrite Hmf, (Hnames m Hk).
        now destruct (lookup m acc). }
    destruct (Hs acc kvs b v r Hwfs Hfrs Hb Hag E1 Hhead) as (_ & Hdv & b1 & Hs1 & Hc1).
    assert (Hlk_acc : lookup (fst f) acc = None) by exact (Hacc _ Hself).
    assert (Hlk_new' : lookup (fst f) new' = None) by exact (Hnames _ Hnin).
    subst acc'. destruct (optional (snd f) && skip && is_none v) eqn:Eskip.
    + (* a skipped optional None *)
      apply andb_prop in Eskip as [Eos En]. apply andb_prop in Eos as [Eo Esk].
      apply is_none_eq in En. subst v.
      exists new'. split; [exact Hkvs|]. split; [exact Hrest|]. split.
      { intros m Hm. cbn [map] in Hm. rewrite memN_cons in Hm. apply orb_false_iff in Hm as [_ Hm].
        exact (Hnames m Hm). }
      split.
      { cbn [map tdomb]. destruct new' as [|[n' v'] new''].
        - now rewrite Htd, Hdv, Eo, Esk.
        - destruct (fst f =? n') eqn:E.
          + apply N.eqb_eq in E. subst n'. cbn [lookup] in Hlk_new'. rewrite N.eqb_refl in Hlk_new'. discriminate.
          + now rewrite Htd, Hdv, Eo, Esk. }
      exists (b1 ++ b2). split.
      { assert (Hlk : lookup (fst f) kvs = None) by (rewrite Hkvs, lookup_app, Hlk_acc; exact Hlk_new').
        cbn [map ser_fields]. now rewrite Hlk, Eo, Hs1, Hs2. }
      cbn [forallb]. intros Hc. apply andb_prop in Hc as [Hcs Hc].
      rewrite (Hc1 Hcs), (Hc2 Hc). now rewrite app_assoc.
    + exists ((fst f, v) :: new'). split; [rewrite Hkvs, <- app_assoc; reflexivity|]. split; [exact Hrest|]. split.
      { intros m Hm. cbn [map] in Hm. rewrite memN_cons in Hm. apply orb_false_iff in Hm as [Hmf Hm].
        cbn [lookup]. rewrite Hmf. exact (Hnames m Hm). }
      split.
      { cbn [map tdomb]. now rewrite N.eqb_refl, Hdv, Eskip, Htd. }
      exists (b1 ++ b2). split.
      { assert (Hlk : lookup (fst f) kvs = Some v).
        { rewrite Hkvs, <- app_assoc, lookup_app, Hlk_acc. cbn [app lookup]. now rewrite N.eqb_refl. }
        cbn [map ser_fields]. now rewrite Hlk, Hs1, Hs2. }
      cbn [forallb]. intros Hc. apply andb_prop in Hc as [Hcs Hc].
      rewrite (Hc1 Hcs), (Hc2 Hc). now rewrite app_assoc.
Qed.

(* ---------- simple adapters over an integer primitive ---------- *)

Lemma int_domb_in ip z : (ip_min ip <= z <= ip_max ip)%Z -> int_domb ip (VInt z) = true.
Proof. intros H. cbn [int_domb]. lia. Qed.

Lemma int_domb_out ip z : int_domb ip (VInt z) = true -> (ip_min ip <= z <= ip_max ip)%Z.
Proof. cbn [int_domb]. lia. Qed.

Lemma int_domb_01 ip : int_domb ip (VInt 0) = true /\ int_domb ip (VInt 1) = true.
Proof. destruct ip as [sg w]; destruct sg, w; vm_compute; split; reflexivity. Qed.

(* decode then encode of a simple adapter: the decoded value is in the adapter's domain and encodes to an int of
   the child's domain - the int that was read, unless the adapter is Bool *)
Lemma sa_law a pod (D : value -> bool) z v :
  sa_sound a = true -> D (VInt z) = true -> D (VInt 0) = true -> D (VInt 1) = true ->
  adec_s a pod (VInt z) = Some v ->
  adomb_s a pod D v = true /\
  exists z', aenc_s a v = Some (VInt z') /\ D (VInt z') = true /\ (sa_canon a = true -> z' = z).
Proof.
  intros Hok HD H0 H1 Hdec. destruct a as [|tbl strict|tbl|id]; cbn [sa_sound sa_canon] in *.
  - cbn [adec_s truthy] in Hdec. injection Hdec as <-. cbn [adomb_s aenc_s truthy].
    destruct (Z.eqb z 0); cbn [negb].
    + rewrite H0. split; [reflexivity|]. exists 0%Z. cbn. split; [reflexivity|]. split; [exact H0|discriminate].
    + rewrite H1. split; [reflexivity|]. exists 1%Z. cbn. split; [reflexivity|]. split; [exact H1|discriminate].
  - split; [exact (enum_domain_complete tbl strict pod D z v Hok HD Hdec)|].
    exists z. split; [|split; [exact HD|reflexivity]].
    cbn [adec_s] in Hdec. cbn [aenc_s]. destruct (find_value z tbl) as [n|] eqn:Ef.
    + destruct pod; injection Hdec as <-; [|reflexivity].
      now rewrite (lookup_in_nodup _ _ _ Hok (find_value_in _ _ _ Ef)).
    + destruct strict; [discriminate|]. injection Hdec as <-. reflexivity.
  - cbn [adec_s] in Hdec. injection Hdec as <-. destruct pod.
    + destruct (flag_domain_complete tbl D z Hok HD) as [Henc Hdom].
      split; [exact Hdom|]. exists z. split; [exact Henc|]. split; [exact HD|reflexivity].
    + cbn [adomb_s aenc_s negb andb]. split; [exact HD|]. exists z. auto.
  - cbn [adec_s] in Hdec. injection Hdec as <-. cbn [adomb_s aenc_s]. split; [exact HD|]. exists z. auto.
Qed.

(* ---------- BitField over an unsigned primitive ---------- *)
Local Open Scope Z_scope.

(* ---------- bit lemmas ---------- *)

Lemma bf_mask_ones bits : bf_mask bits = Z.ones (Z.of_N bits).
Proof. unfold bf_mask. rewrite Z.ones_equiv. lia. Qed.

Lemma small_bits_high a n i : 0 <= a < 2 ^ n -> 0 <= n -> n <= i -> Z.testbit a i = false.
Proof.
  intros [Ha Hlt] Hn Hi. destruct (Z.eq_dec a 0) as [->|Hne]; [apply Z.bits_0|].
  apply Z.bits_above_log2; [lia|]. apply Z.log2_lt_pow2 in Hlt; lia.
Qed.

Lemma lor_bound a b k : 0 <= k -> 0 <= a < 2 ^ k -> 0 <= b < 2 ^ k -> 0 <= Z.lor a b < 2 ^ k.
Proof.
  intros Hk [Ha Hak] [Hb Hbk]. split; [apply Z.lor_nonneg; auto|].
  destruct (Z.eq_dec a 0) as [->|Hna]; [now rewrite Z.lor_0_l|].
  destruct (Z.eq_dec b 0) as [->|Hnb]; [now rewrite Z.lor_0_r|].
  assert (Hpos : 0 < Z.lor a b).
  { assert (0 <= Z.lor a b) by (apply Z.lor_nonneg; auto).
    destruct (Z.eq_dec (Z.lor a b) 0) as [E|E]; [|lia]. apply Z.lor_eq_0_iff in E. lia. }
  apply Z.log2_lt_pow2; [exact Hpos|]. rewrite Z.log2_lor by lia.
  apply Z.log2_lt_pow2 in Hak; [|lia]. apply Z.log2_lt_pow2 in Hbk; [|lia]. lia.
Qed.

Lemma land_mask_range a bits : 0 <= Z.land a (bf_mask bits) <= bf_mask bits.
Proof.
  rewrite bf_mask_ones, Z.land_ones by lia. rewrite Z.ones_equiv.
  pose proof (Z.mod_pos_bound a (2 ^ Z.of_N bits) ltac:(apply Z.pow_pos_nonneg; lia)). lia.
Qed.

Lemma land_mask_id v bits : 0 <= v <= bf_mask bits -> Z.land v (bf_mask bits) = v.
Proof.
  intros H. rewrite bf_mask_ones in *. rewrite Z.land_ones by lia. rewrite Z.ones_equiv in H.
  apply Z.mod_small. lia.
Qed.

(* the field at [cur] of any Z that carries [v << cur] there (and nothing of the next fields below cur + bits) *)
Lemma field_extract Z v cur bits rest :
  0 <= cur -> 0 <= v <= bf_mask bits ->
  (forall i, 0 <= i < cur + Z.of_N bits -> Z.testbit rest i = false) ->
  (forall i, cur <= i -> Z.testbit Z i = Z.testbit (Z.lor (Z.shiftl v cur) rest) i) ->
  Z.land (Z.shiftr Z cur) (bf_mask bits) = v.
Proof.
  intros Hc Hv Hrest HZ. apply Z.bits_inj'. intros i Hi.
  rewrite Z.land_spec, Z.shiftr_spec by lia. rewrite bf_mask_ones.
  destruct (Z_lt_ge_dec i (Z.of_N bits)) as [Hlt|Hge].
  - rewrite Z.ones_spec_low by lia. rewrite andb_true_r.
    rewrite HZ by lia. rewrite Z.lor_spec, Z.shiftl_spec by lia.
    rewrite (Hrest (i + cur)) by lia. rewrite orb_false_r. f_equal. lia.
  - rewrite Z.ones_spec_high by lia. rewrite andb_false_r. symmetry.
    apply (small_bits_high v (Z.of_N bits)); [|lia|lia].
    rewrite bf_mask_ones, Z.ones_equiv in Hv. lia.
Qed.

Lemma piece_high v cur bits i : 0 <= cur -> 0 <= v <= bf_mask bits -> cur + Z.of_N bits <= i ->
  Z.testbit (Z.shiftl v cur) i = false.
Proof.
  intros Hc Hv Hi. rewrite Z.shiftl_spec by lia.
  apply (small_bits_high v (Z.of_N bits)); [|lia|lia].
  rewrite bf_mask_ones, Z.ones_equiv in Hv. lia.
Qed.

Lemma piece_bound v cur bits : 0 <= cur -> 0 <= v <= bf_mask bits -> 0 <= Z.shiftl v cur < 2 ^ (cur + Z.of_N bits).
Proof.
  intros Hc Hv. rewrite Z.shiftl_mul_pow2 by lia. rewrite bf_mask_ones, Z.ones_equiv in Hv.
  rewrite Z.pow_add_r by lia.
  assert (Hp : 0 < 2 ^ cur) by (apply Z.pow_pos_nonneg; lia).
  split; [apply Z.mul_nonneg_nonneg; lia|].
  rewrite (Z.mul_comm (2 ^ cur)). apply Z.mul_lt_mono_pos_r; lia.
Qed.

(* ---------- one entry ---------- *)

Definition dec_field (fa : option sadapter) (pod : bool) (x : Z) : option value :=
  match fa with None => Some (VInt x) | Some a => adec_s a pod (VInt x) end.
Definition enc_field (fa : option sadapter) (v : value) : option value :=
  match fa with None => Some v | Some a => aenc_s a v end.
Definition in_mode (sh : bool) (cur v : Z) : Z := if sh then v else Z.shiftl v cur.

Definition entry_ok (sh first : bool) (bits : N) (fa : option sadapter) : bool :=
  match fa with
  | None => true
  | Some ABool => (0 <? bits)%N && (sh || first)
  | Some a => sa_sound a
  end.

Lemma items_eqb_refl_of l l' : items_eqb l' l = true -> items_eqb l l = true.
Proof.
  revert l'. induction l as [|x l IH]; intros l' H; [reflexivity|].
  destruct l' as [|y l'']; [discriminate|].
  destruct y; try discriminate; destruct x; try discriminate; cbn [items_eqb] in *;
    apply andb_prop in H as [_ H]; rewrite (IH _ H).
  - now rewrite Z.eqb_refl.
  - now rewrite N.eqb_refl.
Qed.

Lemma field_law sh first cur bits fa pod v val :
  0 <= cur -> (first = true -> cur = 0) -> entry_ok sh first bits fa = true ->
  0 <= val <= bf_mask bits ->
  dec_field fa pod (in_mode sh cur val) = Some v ->
  exists val', 0 <= val' <= bf_mask bits /\
               enc_field fa v = Some (VInt (in_mode sh cur val')) /\
               dec_field fa pod (in_mode sh cur val') = Some v /\ fval_eqb v v = true.
Proof.
  intros Hc Hfirst Hok Hval Hdec. destruct fa as [a|]; cbn [dec_field enc_field entry_ok] in *.
  - destruct a as [|tbl strict|tbl|id].
    + (* Bool *)
      apply andb_prop in Hok as [Hbits Hpos].
      assert (Hm1 : 1 <= bf_mask bits).
      { unfold bf_mask. assert (2 ^ 1 <= 2 ^ Z.of_N bits) by (apply Z.pow_le_mono_r; lia). lia. }
      assert (Hx : in_mode sh cur val = 0 <-> val = 0).
      { unfold in_mode. destruct sh; [tauto|]. cbn [orb] in Hpos. rewrite (Hfirst Hpos), Z.shiftl_0_r. tauto. }
      assert (Hid : forall b, in_mode sh cur b = b).
      { intros b. unfold in_mode. destruct sh; [reflexivity|]. cbn [orb] in Hpos. now rewrite (Hfirst Hpos), Z.shiftl_0_r. }
      cbn [adec_s truthy] in Hdec. injection Hdec as <-.
      destruct (Z.eqb (in_mode sh cur val) 0) eqn:E; cbn [negb].
      * exists 0. rewrite Hid. cbn. repeat split; try lia; reflexivity.
      * exists 1. rewrite Hid. cbn. repeat split; try lia; reflexivity.
    + destruct (sa_law (AEnum tbl strict) pod (fun _ => true) _ v Hok eq_refl eq_refl eq_refl Hdec)
        as (_ & z' & Henc & _ & Hcan). rewrite (Hcan eq_refl) in Henc.
      exists val. split; [exact Hval|]. split; [exact Henc|]. split; [exact Hdec|].
      cbn [adec_s] in Hdec. destruct (find_value (in_mode sh cur val) tbl).
      * destruct pod; injection Hdec as <-; cbn; [apply N.eqb_refl|apply Z.eqb_refl].
      * destruct strict; [discriminate|]. injection Hdec as <-. cbn. apply Z.eqb_refl.
    + destruct (sa_law (AFlag tbl) pod (fun _ => true) _ v Hok eq_refl eq_refl eq_refl Hdec)
        as (Hdom & z' & Henc & _ & Hcan). rewrite (Hcan eq_refl) in Henc.
      exists val. split; [exact Hval|]. split; [exact Henc|]. split; [exact Hdec|].
      cbn [adec_s] in Hdec. injection Hdec as <-. destruct pod; [|cbn; apply Z.eqb_refl].
      cbn [adomb_s andb] in Hdom. cbn [fval_eqb].
      destruct (flag_or tbl (flags_to_pod tbl (in_mode sh cur val))); [|discriminate].
      exact (items_eqb_refl_of _ _ Hdom).
    + cbn [adec_s] in Hdec. injection Hdec as <-.
      exists val. cbn. repeat split; try lia; try reflexivity.
  - injection Hdec as <-. exists val. cbn. repeat split; try lia; try reflexivity.
Qed.

(* ---------- the whole schema ---------- *)

Definition bnames (fs : bschema) : list N := map (fun f => fst (fst f)) fs.

Lemma entries_ok_cons n bits fa fs sh first :
  bf_entries_ok ((n, bits, fa) :: fs) sh first = entry_ok sh first bits fa && bf_entries_ok fs sh false.
Proof. reflexivity. Qed.

Lemma bf_total_cons n bits fa fs : bf_total ((n, bits, fa) :: fs) = (bits + bf_total fs)%N.
Proof. reflexivity. Qed.

Lemma bf_suffix sh pod fs : forall cur first z kvs pre,
  0 <= cur -> (first = true -> cur = 0) -> bf_entries_ok fs sh first = true -> nodupN (bnames fs) = true ->
  (forall m, memN m (bnames fs) = true -> lookup m pre = None) ->
  bf_field_vals fs pod (bf_unpack fs sh cur z) = Some kvs ->
  exists ints' z',
    bf_field_ints fs (pre ++ kvs) = Some ints' /\ bf_pack fs sh cur ints' = Some z' /\
    0 <= z' < 2 ^ (cur + Z.of_N (bf_total fs)) /\
    (forall i, 0 <= i < cur -> Z.testbit z' i = false) /\
    (forall Z, (forall i, cur <= i -> Z.testbit Z i = Z.testbit z' i) ->
               bf_field_vals fs pod (bf_unpack fs sh cur Z) = Some kvs) /\
    kvs_eqb kvs kvs = true /\ map fst kvs = bnames fs.
Proof.
  induction fs as [|[[n bits] fa] fs IH]; intros cur first z kvs pre Hc Hfirst Hok Hnd Hpre Hdec.
  - cbn in Hdec. injection Hdec as <-. exists [], 0. cbn [bf_field_ints bf_pack bf_total fold_right].
    split; [reflexivity|]. split; [reflexivity|]. split.
    { rewrite Z.add_0_r. split; [lia|apply Z.pow_pos_nonneg; lia]. }
    split; [intros; apply Z.bits_0|]. split; [reflexivity|]. split; reflexivity.
  - rewrite entries_ok_cons in Hok. apply andb_prop in Hok as [Hent Hok].
    cbn [bnames map fst nodupN] in Hnd. apply andb_prop in Hnd as [Hnin Hnd]. apply negb_true_iff in Hnin.
    fold (bnames fs) in Hnin, Hnd.
    cbn [bf_unpack bf_field_vals] in Hdec.
    set (val := Z.land (Z.shiftr z cur) (bf_mask bits)) in Hdec.
    change (if sh then val else Z.shiftl val cur) with (in_mode sh cur val) in Hdec.
    change (match fa with None => Some (VInt (in_mode sh cur val)) | Some a => adec_s a pod (VInt (in_mode sh cur val)) end)
      with (dec_field fa pod (in_mode sh cur val)) in Hdec.
    destruct (dec_field fa pod (in_mode sh cur val)) as [v|] eqn:Ev; [|discriminate].
    destruct (bf_field_vals fs pod (bf_unpack fs sh (cur + Z.of_N bits) z)) as [kvs'|] eqn:Et; [|discriminate].
    injection Hdec as <-.
    pose proof (land_mask_range (Z.shiftr z cur) bits) as Hval. fold val in Hval.
    destruct (field_law sh first cur bits fa pod v val Hc Hfirst Hent Hval Ev) as (val' & Hval' & Henc & Hredec & Hvv).
    assert (Hpre' : forall m, memN m (bnames fs) = true -> lookup m (pre ++ [(n, v)]) = None).
    { intros m Hm. rewrite lookup_app.
      assert (Hm' : memN m (bnames ((n, bits, fa) :: fs)) = true).
      { cbn [bnames map fst]. fold (bnames fs). rewrite memN_cons, Hm. apply orb_true_r. }
      rewrite (Hpre m Hm'). cbn [lookup]. destruct (N.eqb m n) eqn:E; [|reflexivity].
      apply N.eqb_eq in E. subst m. rewrite Hm in Hnin. discriminate. }
    assert (Hc' : 0 <= cur + Z.of_N bits) by (clear - Hc; lia).
    destruct (IH (cur + Z.of_N bits) false z kvs' (pre ++ [(n, v)]) Hc' ltac:(discriminate) Hok Hnd Hpre' Et)
      as (ints' & zr & Hfi & Hpk & Hzr & Hlow & Hre & Hkk & Hkeys).
    set (piece := Z.shiftl val' cur).
    exists (in_mode sh cur val' :: ints'), (Z.lor piece zr).
    assert (Hself : memN n (bnames ((n, bits, fa) :: fs)) = true).
    { cbn [bnames map fst]. rewrite memN_cons, N.eqb_refl. reflexivity. }
    split.
    { cbn [bf_field_ints]. rewrite lookup_app, (Hpre n Hself). cbn [lookup]. rewrite N.eqb_refl.
      change (match fa with None => Some v | Some a => aenc_s a v end) with (enc_field fa v). rewrite Henc.
      replace (pre ++ (n, v) :: kvs') with ((pre ++ [(n, v)]) ++ kvs') by (rewrite <- app_assoc; reflexivity).
      now rewrite Hfi. }
    split.
    { cbn [bf_pack]. rewrite Hpk. unfold in_mode. destruct sh.
      - replace (bf_mask bits <? val') with false by (clear - Hval'; lia). reflexivity.
      - fold piece. unfold piece at 1 2. rewrite <- Z.shiftl_land, (land_mask_id val' bits Hval'), Z.eqb_refl. reflexivity. }
    pose proof (piece_bound val' cur bits Hc Hval') as Hpb. fold piece in Hpb.
    split.
    { rewrite bf_total_cons.
      replace (cur + Z.of_N (bits + bf_total fs)) with (cur + Z.of_N bits + Z.of_N (bf_total fs)) by (clear; lia).
      apply lor_bound; [clear - Hc; lia| |exact Hzr].
      split; [clear - Hpb; lia|]. apply Z.lt_le_trans with (2 ^ (cur + Z.of_N bits)); [clear - Hpb; lia|].
      apply Z.pow_le_mono_r; clear - Hc; lia. }
    split.
    { intros i Hi. rewrite Z.lor_spec. unfold piece. rewrite Z.shiftl_spec_low by (clear - Hi; lia).
      rewrite (Hlow i) by (clear - Hi; lia). reflexivity. }
    split.
    { intros Z HZ. cbn [bf_unpack bf_field_vals].
      assert (Hx : Z.land (Z.shiftr Z cur) (bf_mask bits) = val').
      { apply (field_extract Z val' cur bits zr Hc Hval'); [exact Hlow|exact HZ]. }
      rewrite Hx.
      change (if sh then val' else Z.shiftl val' cur) with (in_mode sh cur val').
      change (match fa with None => Some (VInt (in_mode sh cur val')) | Some a => adec_s a pod (VInt (in_mode sh cur val')) end)
        with (dec_field fa pod (in_mode sh cur val')).
      rewrite Hredec. rewrite (Hre Z); [reflexivity|].
      intros i Hi. rewrite (HZ i) by (clear - Hi; lia). rewrite Z.lor_spec. unfold piece.
      rewrite (piece_high val' cur bits i Hc Hval' Hi). reflexivity. }
    split.
    { cbn [kvs_eqb]. now rewrite N.eqb_refl, Hvv, Hkk. }
    cbn [map fst bnames]. fold (bnames fs). now rewrite Hkeys.
Qed.

Lemma keys_known fs (kvs : list (N * value)) : map fst kvs = bnames fs ->
  forallb (fun kv => existsb (fun f => N.eqb (fst kv) (fst (fst f))) fs) kvs = true.
Proof.
  intros Hk. apply forallb_forall. intros kv Hin. apply existsb_exists.
  assert (Hn : In (fst kv) (bnames fs)) by (rewrite <- Hk; now apply in_map).
  unfold bnames in Hn. apply in_map_iff in Hn as (f & Hf & Hin'). exists f. split; [exact Hin'|].
  rewrite Hf. apply N.eqb_refl.
Qed.

(* decode-then-encode of a BitField over an unsigned primitive of width w *)
Lemma bf_law fs sh pod w z v :
  bf_entries_ok fs sh true = true -> nodupN (bnames fs) = true -> (bf_total fs <=? 8 * wN w)%N = true ->
  bf_dec fs sh pod (VInt z) = Some v ->
  adomb (ABitField fs sh) pod (int_domb (IP false w)) v = true /\
  exists z', bf_enc fs sh v = Some (VInt z') /\ int_domb (IP false w) (VInt z') = true.
Proof.
  intros Hok Hnd Htot Hdec. cbn [bf_dec] in Hdec.
  destruct (bf_field_vals fs pod (bf_unpack fs sh 0 z)) as [kvs|] eqn:E; [|discriminate]. injection Hdec as <-.
  destruct (bf_suffix sh pod fs 0 true z kvs [] ltac:(lia) ltac:(reflexivity) Hok Hnd (fun m _ => eq_refl) E)
    as (ints' & z' & Hfi & Hpk & Hz' & _ & Hre & Hkk & Hkeys).
  cbn [app] in Hfi.
  assert (Henc : bf_enc fs sh (VDict kvs) = Some (VInt z')).
  { cbn [bf_enc]. now rewrite (keys_known fs kvs Hkeys), Hfi, Hpk. }
  assert (HD : int_domb (IP false w) (VInt z') = true).
  { apply int_domb_in. cbn [ip_min ip_max]. split; [lia|].
    assert (2 ^ (0 + Z.of_N (bf_total fs)) <= 2 ^ (8 * Z.of_nat (wbytes w))).
    { apply Z.pow_le_mono_r; [lia|]. pose proof (wbytes_wN w). lia. }
    lia. }
  split; [|eauto].
  cbn [adomb]. rewrite Henc, HD. cbn [andb bf_dec]. rewrite (Hre z' (fun i _ => eq_refl)). exact Hkk.
Qed.

Local Close Scope Z_scope.

(* ---------- frames of TypedBytes ---------- *)

Lemma frame_de_sound e k b buf r :
  bytes_okb b = true -> frame_de e k b = Some (buf, r) ->
  match k with TBTerm ts _ => is_nil ts = false | _ => True end ->
  bytes_okb buf = true /\ bytes_okb r = true /\
  match k with TBGreedy => r = [] | _ => True end /\
  match k with TBTerm ts _ => no_term ts buf = true | _ => True end /\
  exists out, frame_ser e k buf = Some out /\ match k with TBTerm _ _ => True | _ => b = out ++ r end.
Proof.
  intros Hb Hd Hk. destruct k as [|ip|n|ts sk]; cbn [frame_de frame_ser] in *.
  - injection Hd as <- <-. repeat split; try assumption. exists b. now rewrite app_nil_r.
  - destruct (de_bytearray_sound _ _ _ _ _ Hb Hd) as (Hh & Hr & _ & out & Hs & ->).
    repeat split; try assumption. eauto.
  - destruct (takeN_okb _ _ _ _ Hb Hd) as (Hh & Hr & -> & Hl).
    repeat split; try assumption. exists buf. unfold ser_fixed.
    replace (N.of_nat (length buf) =? n) with true by lia. auto.
  - destruct (de_term_sound _ _ _ _ _ Hb Hd) as (Hp & Hr & Hn).
    repeat split; try assumption. unfold ser_term. destruct ts; [discriminate|eauto].
Qed.

Lemma frame_empty e k (en : bool) :
  match k with TBTerm ts _ => is_nil ts = false | TBFixed n => n = 0 | _ => True end ->
  exists out, (if en then match k with TBTerm _ true => Some [] | _ => frame_ser e k [] end else frame_ser e k [])
              = Some out.
Proof.
  intros Hk.
  assert (H : exists out, frame_ser e k [] = Some out).
  { destruct k as [|ip|n|ts sk]; cbn [frame_ser].
    - eauto.
    - apply ser_bytearray_some. pose proof (ip_max_nonneg ip). cbn [length]. lia.
    - subst n. unfold ser_fixed. cbn. eauto.
    - unfold ser_term. destruct ts; [discriminate|eauto]. }
  destruct en; [|exact H]. destruct k as [| | |ts [|]]; eauto.
Qed.

(* ---------- switches ---------- *)

Lemma pick_key {A} k (cs : list (option N * A)) a :
  pick k cs = Some a -> exists k', In (k', a) cs /\ (k' = Some k \/ k' = None).
Proof.
  unfold pick. destruct (find_choice optN_eqb (Some k) cs) eqn:E.
  - intros H; injection H as <-. destruct (find_choice_in _ _ _ _ E) as (k' & Hin & He).
    apply optN_eqb_eq in He. eauto.
  - intros H. destruct (find_choice_in _ _ _ _ H) as (k' & Hin & He). apply optN_eqb_eq in He. eauto.
Qed.

Lemma pick_apply_fwd {A B} k (M : list (option N * (A -> option B))) f x :
  pick k M = Some f ->
  match find_choice optN_eqb (Some k) M with
  | Some g => g x
  | None => match find_choice optN_eqb None M with Some g => g x | None => None end
  end = f x.
Proof.
  unfold pick. destruct (find_choice optN_eqb (Some k) M) as [g|].
  - intros H; now injection H as <-.
  - destruct (find_choice optN_eqb None M) as [g|]; [|discriminate]. intros H; now injection H as <-.
Qed.

Lemma is_nil_eq {A} (l : list A) : is_nil l = true -> l = [].
Proof. destruct l; [reflexivity|discriminate]. Qed.

(* ---------- the theorem ---------- *)

Theorem de_sound e pod s : snd_at e pod s.
Proof.
  induction s using spec_ind'.
  - now apply snd_leaf.
  - (* tuple *)
    intros cd cs b v rest Hwf Hfr Hb _ Hd Hr. cbn [ser de domb wf delimited sound_frag canon] in *.
    unfold pack_list in Hd.
    destruct (de_seq (map (fun s' => de e pod s' []) ss) b) as [[vs r]|] eqn:E; [|discriminate].
    injection Hd as <- <-. apply andb_prop in Hwf as [Hwf Hbl].
    destruct (snd_seq e pod ss H b vs r Hwf Hfr Hbl Hb E Hr) as (Hrok & Hdv & b' & Hs & Hc).
    split; [exact Hrok|]. split; [exact Hdv|]. exists b'. auto.
  - (* template *)
    intros cd cs b v rest Hwf Hfr Hb _ Hd Hr. cbn [ser de domb wf delimited sound_frag canon] in *.
    destruct (de_fields (map (fun f => (fst f, optional (snd f), de e pod (snd f))) fs) skip [] b)
      as [[kvs r]|] eqn:E; [|discriminate].
    injection Hd as <- <-.
    apply andb_prop in Hwf as [Hwf Hro]. apply andb_prop in Hwf as [Hwf Hnd]. apply andb_prop in Hwf as [Hwf Hbl].
    destruct (snd_fields e pod skip fs H [] [] b kvs r Hwf Hfr Hbl Hnd Hro
                         (fun m Hm => ltac:(discriminate Hm)) (fun m _ => eq_refl) Hb E Hr)
      as (new & Hkvs & Hrok & _ & Htd & b' & Hs & Hc).
    cbn [app] in Hkvs. subst new.
    split; [exact Hrok|]. split; [exact Htd|]. exists b'. auto.
  - (* collection *)
    intros cd cs b v rest Hwf Hfr Hb _ Hd Hr. cbn [ser de domb wf delimited sound_frag canon] in *.
    apply andb_prop in Hwf as [Hwf Hk]. apply andb_prop in Hwf as [Hwf Hdl].
    destruct k as [ip|m|].
    + destruct (dec_int e ip b) as [[z r]|] eqn:Ez; [|discriminate].
      destruct (dec_int_sound _ _ _ _ _ Hb Ez) as (Hrok & Hrg & h & Henc & ->).
      rewrite de_count_spec in Hd. unfold pack_list in Hd.
      destruct (de_n (de e pod s []) (N.to_nat (Z.to_N z)) r) as [[vs r']|] eqn:En; [|discriminate].
      injection Hd as <- <-.
      destruct (snd_n e pod s IHs Hwf Hfr Hdl _ _ _ _ Hrok En) as (Hrok' & Hdv & Hlen & b2 & Hs2 & Hc2).
      pose proof (ip_min_nonpos ip) as Hmin. pose proof (ip_max_nonneg ip) as Hmax.
      split; [exact Hrok'|]. split; [rewrite Hdv; cbn [andb]; lia|].
      replace (ip_max ip <? Z.of_nat (length vs))%Z with false by lia.
      destruct (enc_int_some e ip (Z.of_nat (length vs)) ltac:(lia)) as (h' & Henc').
      rewrite Henc', Hs2. exists (h' ++ b2). split; [reflexivity|].
      intros Hc. apply andb_prop in Hc as [Hcs Hu]. destruct ip as [sg w]. cbn [unsigned_ip] in Hu.
      apply negb_true_iff in Hu. subst sg. cbn [ip_min] in Hrg.
      replace (Z.of_nat (length vs)) with z in Henc' by lia. rewrite Henc in Henc'. injection Henc' as <-.
      rewrite (Hc2 Hcs). now rewrite app_assoc.
    + destruct (m =? 0) eqn:Em.
      * unfold pack_list in Hd.
        destruct (de_greedy (de e pod s []) (length b) b) as [[vs r]|] eqn:Eg; [|discriminate].
        injection Hd as <- <-.
        destruct (snd_greedy e pod s IHs Hwf Hfr Hdl _ _ _ _ Hb Eg) as (-> & Hdv & b2 & Hs2 & Hc2).
        split; [reflexivity|]. split; [rewrite Hdv; reflexivity|]. cbn [negb andb]. exists b2.
        split; [exact Hs2|]. intros Hc. rewrite andb_true_r in Hc. rewrite (Hc2 Hc). now rewrite app_nil_r.
      * rewrite de_count_spec in Hd. unfold pack_list in Hd.
        destruct (de_n (de e pod s []) (N.to_nat m) b) as [[vs r]|] eqn:En; [|discriminate].
        injection Hd as <- <-.
        destruct (snd_n e pod s IHs Hwf Hfr Hdl _ _ _ _ Hb En) as (Hrok' & Hdv & Hlen & b2 & Hs2 & Hc2).
        assert (Hl : (N.of_nat (length vs) =? m) = true) by lia.
        split; [exact Hrok'|]. split; [rewrite Hdv, Hl; cbn; reflexivity|].
        rewrite Hl. cbn [negb andb]. exists b2. split; [exact Hs2|].
        intros Hc. rewrite andb_true_r in Hc. exact (Hc2 Hc).
    + unfold pack_list in Hd.
      destruct (de_greedy (de e pod s []) (length b) b) as [[vs r]|] eqn:Eg; [|discriminate].
      injection Hd as <- <-.
      destruct (snd_greedy e pod s IHs Hwf Hfr Hdl _ _ _ _ Hb Eg) as (-> & Hdv & b2 & Hs2 & Hc2).
      split; [reflexivity|]. split; [rewrite Hdv; reflexivity|]. exists b2.
      split; [exact Hs2|]. intros Hc. rewrite andb_true_r in Hc. rewrite (Hc2 Hc). now rewrite app_nil_r.
  - (* optional prefixed *)
    intros cd cs b v rest Hwf Hfr Hb Hag Hd Hr. rewrite ser_opt_eq.
    cbn [de domb wf delimited sound_frag canon refs] in *.
    destruct b as [|x b0]; [discriminate|].
    rewrite bytes_okb_cons in Hb. apply andb_prop in Hb as [_ Hb0].
    destruct (x =? 0).
    + injection Hd as <- <-. split; [exact Hb0|]. split; [reflexivity|]. exists [0]. split; [reflexivity|discriminate].
    + destruct (IHs cd cs b0 v rest Hwf Hfr Hb0 Hag Hd Hr) as (Hrok & Hdv & b' & Hs & _).
      split; [exact Hrok|]. split; [rewrite Hdv; apply orb_true_r|].
      rewrite Hs. destruct (is_none v); eexists; (split; [reflexivity|discriminate]).
  - (* adapter over an integer primitive *)
    intros cd cs b v rest Hwf Hfr Hb Hag Hd Hr. cbn [sound_frag] in Hfr.
    destruct a as [a'|fs sh]; destruct s; try discriminate Hfr;
      (destruct p as [ip| |]; try discriminate Hfr); [|destruct ip as [sg w]; destruct sg; [discriminate Hfr|]].
    2: { (* BitField *)
      cbn [ad_sound] in Hfr. apply andb_prop in Hfr as [Hent Htot].
      cbn [wf awf] in Hwf. cbn [andb] in Hwf. fold (bnames fs) in Hwf.
      cbn [ser de de_prim domb adomb aenc adec ser_prim canon ad_canon] in *.
      destruct (dec_int e (IP false w) b) as [[z r]|] eqn:Ez; [|discriminate].
      destruct (bf_dec fs sh pod (VInt z)) as [v'|] eqn:Ea; [|discriminate]. injection Hd as <- <-.
      destruct (dec_int_sound _ _ _ _ _ Hb Ez) as (Hrok & _ & _).
      destruct (bf_law fs sh pod w z v' Hent Hwf Htot Ea) as (Hdom & z' & Henc & HD').
      split; [exact Hrok|]. split; [exact Hdom|]. rewrite Henc.
      destruct (enc_int_some e (IP false w) z' (int_domb_out _ z' HD')) as (h' & Henc').
      exists h'. split; [exact Henc'|]. cbn [andb]. discriminate. }
    cbn [ad_sound] in Hfr. cbn [ser de de_prim domb adomb aenc adec ser_prim canon ad_canon] in *.
    destruct (dec_int e ip b) as [[z r]|] eqn:Ez; [|discriminate].
    destruct (adec_s a' pod (VInt z)) as [v'|] eqn:Ea; [|discriminate]. injection Hd as <- <-.
    destruct (dec_int_sound _ _ _ _ _ Hb Ez) as (Hrok & Hrg & h & Henc & ->).
    destruct (int_domb_01 ip) as [H0 H1].
    pose proof (int_domb_in ip z Hrg) as HD.
    destruct (sa_law a' pod (int_domb ip) z v' Hfr HD H0 H1 Ea) as (Hdom & z' & Haenc & HD' & Hcan).
    split; [exact Hrok|]. split; [exact Hdom|]. rewrite Haenc.
    destruct (enc_int_some e ip z' (int_domb_out ip z' HD')) as (h' & Henc').
    exists h'. split; [exact Henc'|]. intros Hc. apply andb_prop in Hc as [Hc _].
    rewrite (Hcan Hc) in Henc'. rewrite Henc in Henc'. now injection Henc' as <-.
  - (* typed bytes *)
    intros cd cs b v rest Hwf Hfr Hb Hag Hd Hr. rewrite ser_typed_eq. rewrite de_typed_eq in Hd.
    cbn [domb wf delimited sound_frag canon refs] in *.
    apply andb_prop in Hwf as [Hwf Hkts]. apply andb_prop in Hwf as [Hwf Hen].
    apply andb_prop in Hfr as [Hfr Hkfr]. apply andb_prop in Hfr as [Hfr Hct].
    destruct (frame_de e k b) as [[buf r]|] eqn:Ef; [|discriminate].
    assert (Hts : match k with TBTerm ts _ => is_nil ts = false | _ => True end).
    { destruct k; try exact I. now apply negb_true_iff in Hkts. }
    destruct (frame_de_sound e k b buf r Hb Ef Hts) as (Hbuf & Hrok & Hgr & Hnt & out & Hout & Hbout).
    destruct (en && is_nil buf) eqn:En.
    + (* an empty frame read as None *)
      injection Hd as <- <-. apply andb_prop in En as [-> Hnil]. apply is_nil_eq in Hnil. subst buf.
      split; [exact Hrok|]. split; [reflexivity|]. cbn [is_none andb].
      destruct (frame_empty e k true) as (o & Ho).
      { destruct k as [| |n|]; try exact I; try exact Hts.
        cbn [frame_de] in Ef. apply takeN_some in Ef as [_ Hl]. cbn in Hl. lia. }
      exists o. split; [exact Ho|]. rewrite andb_false_r. cbn [andb]. discriminate.
    + destruct (de e pod s cd buf) as [[v' lo]|] eqn:Ei; [|discriminate].
      destruct (ct && negb (is_nil lo)) eqn:Ect; [discriminate|]. injection Hd as -> ->.
      assert (Hlo : delimited s = true \/ lo = []).
      { destruct ct.
        - right. cbn [andb] in Ect. apply negb_false_iff in Ect. now apply is_nil_eq.
        - left. exact Hct. }
      destruct (IHs cd cs buf v lo Hwf Hfr Hbuf Hag Ei Hlo) as (_ & Hdv & buf' & Hs & Hc).
      split; [exact Hrok|].
      (* the inner re-encoding is the frame content that was read, wherever the frame must fit again *)
      assert (Hsame : match k with TBGreedy => True | _ => buf' = buf /\ lo = [] /\ ct = true end).
      { destruct k as [|ip|n|ts sk]; [exact I| | |].
        - apply andb_prop in Hkfr as [Hct' Hcan]. subst ct.
          cbn [andb] in Ect. apply negb_false_iff in Ect. apply is_nil_eq in Ect. subst lo.
          rewrite (Hc Hcan), app_nil_r. auto.
        - apply andb_prop in Hkfr as [Hkfr Hcan]. apply andb_prop in Hkfr as [_ Hct']. subst ct.
          cbn [andb] in Ect. apply negb_false_iff in Ect. apply is_nil_eq in Ect. subst lo.
          rewrite (Hc Hcan), app_nil_r. auto.
        - apply andb_prop in Hkfr as [Hct' Hcan]. subst ct.
          cbn [andb] in Ect. apply negb_false_iff in Ect. apply is_nil_eq in Ect. subst lo.
          rewrite (Hc Hcan), app_nil_r. auto. }
      destruct (en && is_none v) eqn:Env.
      * split; [reflexivity|].
        destruct (frame_empty e k en) as (o & Ho).
        { destruct k as [| |n|]; try exact I; try exact Hts.
          apply andb_prop in Env as [-> _]. apply andb_prop in Hkfr as [Hkfr _]. apply andb_prop in Hkfr as [Hkfr _].
          discriminate Hkfr. }
        apply andb_prop in Env as [-> _]. exists o. split; [exact Ho|].
        rewrite andb_false_r. cbn [andb]. discriminate.
      * cbn [orb]. rewrite Hdv, Hs. cbn [andb]. split.
        { destruct k as [| | |ts sk]; try reflexivity. destruct Hsame as (-> & _ & _). exact Hnt. }
        destruct k as [|ip|n|ts sk].
        -- cbn [frame_ser]. exists buf'. split; [reflexivity|]. intros Hcn.
           apply andb_prop in Hcn as [Hcn _]. apply andb_prop in Hcn as [Hcn _]. apply andb_prop in Hcn as [Hcs Hct'].
           subst ct rest. cbn [andb] in Ect. apply negb_false_iff in Ect. apply is_nil_eq in Ect. subst lo.
           cbn [frame_de] in Ef. injection Ef as <-. rewrite (Hc Hcs). reflexivity.
        -- destruct Hsame as (-> & _ & _). exists out. split; [exact Hout|]. intros _. exact Hbout.
        -- destruct Hsame as (-> & _ & _). exists out. split; [exact Hout|]. intros _. exact Hbout.
        -- destruct Hsame as (-> & _ & _). exists out. split; [exact Hout|]. rewrite andb_false_r. discriminate.
  - (* ifpresent: a window spec *)
    intros cd cs b v rest Hwf Hfr Hb Hag Hd Hr. rewrite ser_ifpresent_eq.
    cbn [de domb wf delimited sound_frag canon refs] in *.
    destruct Hr as [Hr| ->]; [discriminate|]. apply andb_prop in Hwf as [Hwf _].
    destruct b as [|x b0].
    + injection Hd as <-. split; [reflexivity|]. split; [reflexivity|]. exists []. split; [reflexivity|discriminate].
    + destruct (IHs cd cs (x :: b0) v [] Hwf Hfr Hb Hag Hd (or_intror eq_refl)) as (_ & Hdv & b' & Hs & _).
      split; [reflexivity|]. split; [rewrite Hdv; apply orb_true_r|].
      rewrite Hs. destruct (is_none v); eexists; (split; [reflexivity|discriminate]).
  - (* lengthswitch: a window spec; the tag read is the size of the window *)
    intros cd cs0 b v rest Hwf Hfr Hb Hag Hd Hr. cbn [ser de domb wf delimited sound_frag canon refs] in *.
    destruct Hr as [Hr| ->]; [discriminate|].
    set (size := N.of_nat (length b)) in *.
    pose proof (pick_map (fun s0 => de e pod s0 cd) size cs) as Fde.
    destruct (pick size cs) as [s'|] eqn:Ep; unfold pick in Fde; cbv beta in Fde; rewrite Fde in Hd; [|discriminate].
    destruct (de e pod s' cd b) as [[x r]|] eqn:Ex; [|discriminate]. injection Hd as <- ->.
    destruct (pick_key _ _ _ Ep) as (k' & Hin & Hk').
    rewrite Forall_forall in H. pose proof (H _ Hin) as IH'. cbn [snd] in IH'.
    rewrite forallb_forall in Hwf. pose proof (Hwf _ Hin) as Hwf'. cbn [snd] in Hwf'.
    rewrite forallb_forall in Hfr. pose proof (Hfr _ Hin) as Hfr'. cbn [fst snd] in Hfr'.
    apply andb_prop in Hfr' as [Hfr' Hsz].
    assert (Hag' : agree (refs s') cd cs0).
    { intros n Hn. apply Hag. apply in_flat_map. exists (k', s'). auto. }
    destruct (IH' cd cs0 b x [] Hwf' Hfr' Hb Hag' Ex (or_intror eq_refl)) as (_ & Hdx & b' & Hs & Hc).
    assert (Hlen : N.of_nat (length b') = size).
    { apply orb_prop in Hsz as [Hcan|Hks].
      - pose proof (Hc Hcan) as Hbb. rewrite app_nil_r in Hbb. unfold size. now rewrite <- Hbb.
      - unfold key_is_size in Hks. destruct k' as [n|]; [|discriminate]. apply optN_eqb_eq in Hks.
        rewrite (exact_size_ok e s' cs0 x b' n Hks Hs).
        destruct Hk' as [Hk'|Hk']; [now injection Hk' as ->|discriminate]. }
    split; [reflexivity|]. split.
    + replace (0 <=? Z.of_N size)%Z with true by lia. cbn [andb]. rewrite N2Z.id.
      pose proof (pick_map (fun s0 => (ser e s0 cs0, domb e pod s0 cs0)) size cs) as Fd.
      rewrite Ep in Fd. unfold pick in Fd. cbv beta in Fd. rewrite Fd, Hdx, Hs. cbn [andb]. lia.
    + replace (Z.of_N size <? 0)%Z with false by lia. rewrite N2Z.id.
      pose proof (pick_map (fun s0 => ser e s0 cs0) size cs) as Fs. rewrite Ep in Fs. cbv beta in Fs.
      rewrite (pick_apply_fwd _ _ _ x Fs). exists b'. split; [exact Hs|].
      intros Hcn. rewrite forallb_forall in Hcn. exact (Hc (Hcn _ Hin)).
  - (* enumswitch *)
    intros cd cs0 b v rest Hwf Hfr Hb Hag Hd Hr. cbn [ser de domb wf delimited sound_frag canon refs] in *.
    apply andb_prop in Hfr as [Hnd Hfr].
    destruct (dec_int e ip b) as [[z r]|] eqn:Ez; [|discriminate].
    destruct (adec_s (AEnum tbl strict) pod (VInt z)) as [t|] eqn:Ea; [|discriminate].
    rewrite (find_choice_map Z.eqb (fun s0 => de e pod s0 cd) z cs) in Hd.
    destruct (find_choice Z.eqb z cs) as [s'|] eqn:Ec; [|discriminate].
    destruct (de e pod s' cd r) as [[x r']|] eqn:Ex; [|discriminate]. injection Hd as <- <-.
    destruct (dec_int_sound _ _ _ _ _ Hb Ez) as (Hrok & Hrg & h & Henc & ->).
    destruct (find_choice_in _ _ _ _ Ec) as (k' & Hin & _).
    rewrite Forall_forall in H. pose proof (H _ Hin) as IH'. cbn [snd] in IH'.
    rewrite forallb_forall in Hwf. pose proof (Hwf _ Hin) as Hwf'. cbn [snd] in Hwf'.
    rewrite forallb_forall in Hfr. pose proof (Hfr _ Hin) as Hfr'. cbn [snd] in Hfr'.
    assert (Hr' : delimited s' = true \/ r' = []).
    { destruct Hr as [Hr|Hr]; [left|now right]. rewrite forallb_forall in Hr. exact (Hr _ Hin). }
    assert (Hag' : agree (refs s') cd cs0).
    { intros n Hn. apply Hag. apply in_flat_map. exists (k', s'). auto. }
    destruct (IH' cd cs0 r x r' Hwf' Hfr' Hrok Hag' Ex Hr') as (Hrok' & Hdx & b2 & Hs2 & Hc2).
    destruct (int_domb_01 ip) as [H0 H1].
    pose proof (int_domb_in ip z Hrg) as HD.
    destruct (sa_law (AEnum tbl strict) pod (int_domb ip) z t Hnd HD H0 H1 Ea) as (Hdom & z' & Haenc & _ & Hcan).
    rewrite (Hcan eq_refl) in Haenc.
    split; [exact Hrok'|]. split.
    + rewrite Hdom, Haenc. cbn [andb].
      rewrite (find_choice_map Z.eqb (fun s0 => domb e pod s0 cs0) z cs), Ec. exact Hdx.
    + rewrite Haenc, Henc. rewrite (find_choice_map Z.eqb (fun s0 => ser e s0 cs0) z cs), Ec, Hs2.
      exists (h ++ b2). split; [reflexivity|].
      intros Hcn. rewrite forallb_forall in Hcn. rewrite (Hc2 (Hcn _ Hin)). now rewrite app_assoc.
  - (* optional flagged *)
    intros cd cs b v rest Hwf Hfr Hb Hag Hd Hr. cbn [ser de domb wf delimited sound_frag canon refs] in *.
    rewrite (ctx_flag_agree cd cs f ftbl (Hag f (or_introl eq_refl))) in Hd.
    destruct (ctx_flag cs f ftbl) as [z|]; [|discriminate].
    destruct (Z.eqb (Z.land z mask) 0).
    + injection Hd as <- <-. split; [exact Hb|]. split; [reflexivity|]. exists []. auto.
    + apply (IHs cd cs b v rest Hwf Hfr Hb); [|exact Hd|exact Hr].
      intros n Hn. apply Hag. now right.
  - intros cd cs0 b v rest _ Hfr. discriminate Hfr.
  - intros cd cs b v rest _ Hfr. discriminate Hfr.
  - intros cd cs0 b v rest _ Hfr. discriminate Hfr.
Qed.

(* ---------- corollaries: the byte-payload clauses of C09 ---------- *)

(* clause 1 - a payload the serializer can itself produce is accepted, decodes to the value it was produced from
   and survives decode-encode byte-for-byte (C08's round trip read as a statement about payloads) *)
Theorem payload_own_output e pod s c v b :
  wf s = true -> domb e pod s c v = true -> ser e s c v = Some b ->
  exists v', de e pod s c b = Some (v', []) /\ ser e s c v' = Some b.
Proof.
  intros Hwf Hd Hs. exists v. split; [|exact Hs].
  exact (rt_window e pod s c c v b Hwf (agree_same _ _) Hd Hs).
Qed.

(* clause 2 - ANY accepted payload: one decode-encode pass yields bytes b' that decode to the same value and are a
   fixed point of further passes (every value b' decodes to encodes to b'); on [canon] specs b' = b *)
Theorem payload_fixed_point e pod s c b v :
  wf s = true -> sound_frag s = true -> bytes_okb b = true ->
  de e pod s c b = Some (v, []) ->
  exists b', ser e s c v = Some b' /\ de e pod s c b' = Some (v, []) /\
             (forall v2 r2, de e pod s c b' = Some (v2, r2) -> v2 = v /\ r2 = [] /\ ser e s c v2 = Some b') /\
             (canon s = true -> b' = b).
Proof.
  intros Hwf Hfr Hb Hd.
  destruct (de_sound e pod s c c b v [] Hwf Hfr Hb (agree_same _ _) Hd (or_intror eq_refl))
    as (_ & Hdom & b' & Hs & Hc).
  pose proof (rt_window e pod s c c v b' Hwf (agree_same _ _) Hdom Hs) as Hrt.
  exists b'. split; [exact Hs|]. split; [exact Hrt|]. split.
  - intros v2 r2 H2. rewrite Hrt in H2. injection H2 as <- <-. auto.
  - intros Hcn. rewrite (Hc Hcn). now rewrite app_nil_r.
Qed.

(* the same two clauses on the payload view of the subfield serializers (root context, no trailing bytes) *)
Lemma pl_decode_some e pod s b v : pl_decode e pod s b = Some v <-> de e pod s [] b = Some (v, []).
Proof.
  unfold pl_decode. destruct (de e pod s [] b) as [[v' [|x r]]|]; split; intros H; try discriminate.
  - now injection H as <-.
  - now injection H as <-.
Qed.

Theorem pl_own_output e pod s v b :
  wf s = true -> domb e pod s [] v = true -> pl_encode e s v = Some b ->
  pl_decode e pod s b = Some v /\ pl_pass e pod s b = Some b.
Proof.
  intros Hwf Hd Hs. unfold pl_encode in Hs.
  pose proof (rt_window e pod s [] [] v b Hwf (agree_same _ _) Hd Hs) as Hrt.
  apply pl_decode_some in Hrt. split; [exact Hrt|]. unfold pl_pass. now rewrite Hrt.
Qed.

Theorem pl_fixed_point e pod s b v :
  wf s = true -> sound_frag s = true -> bytes_okb b = true ->
  pl_decode e pod s b = Some v ->
  exists b', pl_encode e s v = Some b' /\ pl_decode e pod s b' = Some v /\ pl_pass e pod s b' = Some b' /\
             (canon s = true -> b' = b).
Proof.
  intros Hwf Hfr Hb Hd. apply pl_decode_some in Hd.
  destruct (payload_fixed_point e pod s [] b v Hwf Hfr Hb Hd) as (b' & Hs & Hrt & _ & Hc).
  apply pl_decode_some in Hrt. exists b'. split; [exact Hs|]. split; [exact Hrt|]. split; [|exact Hc].
  unfold pl_pass. rewrite Hrt. exact Hs.
Qed.

(* one pass is idempotent and value-preserving: pass (pass b) = pass b, decode (pass b) = decode b *)
Theorem pl_pass_idempotent e pod s b b' :
  wf s = true -> sound_frag s = true -> bytes_okb b = true ->
  pl_pass e pod s b = Some b' ->
  pl_pass e pod s b' = Some b' /\ pl_decode e pod s b' = pl_decode e pod s b.
Proof.
  intros Hwf Hfr Hb Hp. unfold pl_pass in Hp. destruct (pl_decode e pod s b) as [v|] eqn:Hd; [|discriminate].
  destruct (pl_fixed_point e pod s b v Hwf Hfr Hb Hd) as (b2 & Hs & Hrt & Hpp & _).
  rewrite Hs in Hp. injection Hp as <-. auto.
Qed.

(* an accepted payload never fails to re-encode *)
Theorem pl_accepted_reencodes e pod s b v :
  wf s = true -> sound_frag s = true -> bytes_okb b = true ->
  pl_decode e pod s b = Some v -> exists b', pl_pass e pod s b = Some b'.
Proof.
  intros Hwf Hfr Hb Hd. destruct (pl_fixed_point e pod s b v Hwf Hfr Hb Hd) as (b' & Hs & _).
  exists b'. unfold pl_pass. now rewrite Hd.
Qed.

(* SimpleSubfieldSerializer with EMPTY_IS_NONE.  Side condition: a non-None value is never written as b""
   (every encoding is non-empty, or the spec is canonical so that the re-encoding is the non-empty input) *)
Definition simple_ok (s : spec) (empty_none : bool) : bool := negb empty_none || (0 <? min_size s) || canon s.

Theorem simple_fixed_point e pod s en b v :
  wf s = true -> sound_frag s = true -> simple_ok s en = true -> bytes_okb b = true ->
  simple_decode e pod s en b = Some v ->
  exists b', simple_encode e s en v = Some b' /\ simple_decode e pod s en b' = Some v /\
             (forall v2, simple_decode e pod s en b' = Some v2 -> simple_encode e s en v2 = Some b').
Proof.
  intros Hwf Hfr Hok Hb Hd. unfold simple_decode in Hd.
  assert (Hgoal : exists b', simple_encode e s en v = Some b' /\ simple_decode e pod s en b' = Some v).
  { unfold simple_encode, simple_decode. destruct (en && is_nil b) eqn:E1.
    - injection Hd as <-. apply andb_prop in E1 as [-> Hn]. exists []. cbn. auto.
    - destruct (pl_fixed_point e pod s b v Hwf Hfr Hb Hd) as (b' & Hs & Hrt & _ & Hc).
      destruct (en && is_none v) eqn:E2.
      + apply andb_prop in E2 as [-> Hn]. apply is_none_eq in Hn. subst v. exists []. cbn. auto.
      + exists b'. split; [exact Hs|].
        replace (en && is_nil b') with false; [exact Hrt|].
        destruct en; [|reflexivity]. cbn [andb negb orb] in *. unfold simple_ok in Hok. cbn [negb orb] in Hok.
        destruct b' as [|x b'']; [|reflexivity]. exfalso.
        apply orb_prop in Hok as [Hms|Hcn].
        * pose proof (min_size_bound e s [] v [] Hs) as Hm. cbn [length] in Hm. lia.
        * rewrite <- (Hc Hcn) in E1. discriminate E1. }
  destruct Hgoal as (b' & Henc & Hdec). exists b'. split; [exact Henc|]. split; [exact Hdec|].
  intros v2 H2. rewrite Hdec in H2. now injection H2 as <-.
Qed.

(* ---------- the fragment conditions are necessary: witnesses ---------- *)

(* Str(U8, null_term=True): 255 non-NUL bytes without the terminating NUL are accepted, the decoded str cannot be
   written (255 + 1 bytes do not fit the U8 length prefix).  FULL statement (false): de_sound for every wf spec. *)
Definition str_nt_spec : spec := SStr (IP false W1) true.
Definition str_nt_payload : bytes := 255 :: repeat 65 255.

Lemma str_null_term_refuted :
  wf str_nt_spec = true /\ bytes_okb str_nt_payload = true /\
  exists v, de true false str_nt_spec [] str_nt_payload = Some (v, []) /\
            domb true false str_nt_spec [] v = false /\ ser true str_nt_spec [] v = None.
Proof. split; [reflexivity|]. split; [reflexivity|]. eexists. vm_compute. repeat split. Qed.

(* a fixed-size frame around a non-canonical inner spec: the C string without its terminator is accepted at the end
   of the frame, its re-encoding (with terminator) no longer fits *)
Definition fixed_frame_spec : spec := STypedBytes (TBFixed 2) (SCStr [0] true true) false true.

Lemma typed_fixed_noncanonical_refuted :
  wf fixed_frame_spec = true /\
  exists v, de true false fixed_frame_spec [] [65; 66] = Some (v, []) /\ ser true fixed_frame_spec [] v = None.
Proof. split; [reflexivity|]. eexists. vm_compute. split; reflexivity. Qed.

(* a size-keyed switch whose default branch is not canonical: the re-encoding has another size and is read back by
   ANOTHER branch - one pass does not reach a fixed point that decodes to the same value *)
Definition lenswitch_default_spec : spec :=
  SLengthSwitch [(Some 1, SPrim (PI (IP false W1))); (None, SCStr [0] true true)].

Lemma lenswitch_default_noncanonical_refuted :
  wf lenswitch_default_spec = true /\
  exists v b' v', de true false lenswitch_default_spec [] [] = Some (v, []) /\
                  ser true lenswitch_default_spec [] v = Some b' /\
                  de true false lenswitch_default_spec [] b' = Some (v', []) /\ v' <> v.
Proof. split; [reflexivity|]. do 3 eexists. vm_compute. repeat split. discriminate. Qed.

(* BitField(shift=False) with a Bool entry away from bit 0: the entry reads bit 7 as True and writes it as 1, which is
   not a value of its own field - the decoded dict cannot be written *)
Definition bf_bool_spec : spec :=
  SAdapter (ABitField [(0, 7, None); (1, 1, Some ABool)] false) (SPrim (PI (IP false W1))).

Lemma bf_bool_unshifted_refuted :
  wf bf_bool_spec = true /\ sound_frag bf_bool_spec = false /\
  exists v, de true false bf_bool_spec [] [128] = Some (v, []) /\ ser true bf_bool_spec [] v = None.
Proof. split; [reflexivity|]. split; [reflexivity|]. eexists. vm_compute. split; reflexivity. Qed.

(* [canon] is about bytes, not values: Bool reads 2 as True and writes 1 (a fixed point after ONE pass, as stated) *)
Lemma bool_not_canonical :
  sound_frag (SAdapter (ASimple ABool) (SPrim (PI (IP false W1)))) = true /\
  pl_pass true false (SAdapter (ASimple ABool) (SPrim (PI (IP false W1)))) [2] = Some [1] /\
  pl_pass true false (SAdapter (ASimple ABool) (SPrim (PI (IP false W1)))) [1] = Some [1].
Proof. vm_compute. repeat split. Qed.

(* own output through the EMPTY_IS_NONE wrapper: the BYTES survive (the value need not: with EMPTY_IS_NONE an empty
   list is written as b"" and read back as None - both are written as b"") *)
Theorem simple_own_output e pod s en v b :
  wf s = true -> (en && is_none v = true \/ domb e pod s [] v = true) ->
  simple_encode e s en v = Some b ->
  exists v', simple_decode e pod s en b = Some v' /\ simple_encode e s en v' = Some b.
Proof.
  intros Hwf Hdom Henc. unfold simple_encode in Henc. unfold simple_decode, simple_encode.
  destruct (en && is_nil b) eqn:E1.
  - apply andb_prop in E1 as [-> Hn]. apply is_nil_eq in Hn. subst b. exists VNone. cbn. auto.
  - destruct (en && is_none v) eqn:E2.
    + injection Henc as <-. apply andb_prop in E2 as [-> _]. discriminate E1.
    + destruct Hdom as [Hdom|Hdom]; [discriminate|].
      destruct (pl_own_output e pod s v b Hwf Hdom Henc) as [Hd _].
      exists v. rewrite Hd, E2. auto.
Qed.

(* ---------- a whole registry of payload serializers at once (instantiated by gen/C09_payload_gen.v) ---------- *)

Definition frag_ok (x : spec * bool) : bool := wf (fst x) && sound_frag (fst x) && simple_ok (fst x) (snd x).

Theorem payload_registry_fixed_point (r : list (spec * bool)) :
  forallb frag_ok r = true ->
  forall s en, In (s, en) r ->
  forall e pod b v, bytes_okb b = true -> simple_decode e pod s en b = Some v ->
  exists b', simple_encode e s en v = Some b' /\ simple_decode e pod s en b' = Some v /\
             (forall v2, simple_decode e pod s en b' = Some v2 -> simple_encode e s en v2 = Some b').
Proof.
  intros Hr s en Hin e pod b v Hb Hd. rewrite forallb_forall in Hr. pose proof (Hr _ Hin) as H.
  unfold frag_ok in H. cbn [fst snd] in H. apply andb_prop in H as [H Hok]. apply andb_prop in H as [Hwf Hfr].
  exact (simple_fixed_point e pod s en b v Hwf Hfr Hok Hb Hd).
Qed.

Theorem payload_registry_own_output (r : list (spec * bool)) :
  forallb frag_ok r = true ->
  forall s en, In (s, en) r ->
  forall e pod v b, (en && is_none v = true \/ domb e pod s [] v = true) -> simple_encode e s en v = Some b ->
  exists v', simple_decode e pod s en b = Some v' /\ simple_encode e s en v' = Some b.
Proof.
  intros Hr s en Hin e pod v b Hdom Henc. rewrite forallb_forall in Hr. pose proof (Hr _ Hin) as H.
  unfold frag_ok in H. cbn [fst snd] in H. apply andb_prop in H as [H _]. apply andb_prop in H as [Hwf _].
  exact (simple_own_output e pod s en v b Hwf Hdom Henc).
Qed.
