(* C08 - byte-level lemmas for the combinator model: primitives, length-prefixed and
   terminated byte strings, NUL stripping, the binary-counter loop. *)
From Coq Require Import NArith ZArith List Bool Lia ZifyBool ZifyNat ZifyN.
From HV Require Import Base.Bytes Spec.Spec.
Import ListNotations.
Open Scope N_scope.

(* ---------- takeN ---------- *)

Lemma takeN_app n a r : N.of_nat (length a) = n -> takeN n (a ++ r) = Some (a, r).
Proof.
  intros <-. unfold takeN. rewrite app_length.
  replace (N.of_nat (length a + length r) <? N.of_nat (length a)) with false by lia.
  rewrite Nat2N.id.
  rewrite firstn_app, Nat.sub_diag, firstn_all, skipn_app, Nat.sub_diag, skipn_all. cbn.
  now rewrite app_nil_r.
Qed.

Lemma takeN_some n l a r : takeN n l = Some (a, r) -> l = a ++ r /\ N.of_nat (length a) = n.
Proof.
  unfold takeN. destruct (N.of_nat (length l) <? n) eqn:E; [discriminate|].
  intros H; injection H as <- <-. split.
  - symmetry. apply firstn_skipn.
  - rewrite firstn_length_le by lia. lia.
Qed.

(* ---------- put / get ---------- *)

Lemma put_length e n u : length (put e n u) = n.
Proof. destruct e; cbn; [apply le_bytes_length | apply be_bytes_length]. Qed.

Lemma get_put e n u : u < 256 ^ N.of_nat n -> get e (put e n u) = u.
Proof. destruct e; cbn; [apply of_le_le_bytes | apply of_be_be_bytes]. Qed.

Lemma wbytes_pos w : (0 < wbytes w)%nat.
Proof. destruct w; cbn; lia. Qed.

Lemma wbytes_wN w : N.of_nat (wbytes w) = wN w.
Proof. destruct w; reflexivity. Qed.

Lemma pow256_Z n : Z.of_N (256 ^ N.of_nat n) = (2 ^ (8 * Z.of_nat n))%Z.
Proof.
  rewrite pow256_pow2, N2Z.inj_pow. f_equal. lia.
Qed.

(* ---------- integers ---------- *)

Lemma enc_int_length e ip z h : enc_int e ip z = Some h -> length h = wbytes (ip_width ip).
Proof.
  unfold enc_int. destruct ((ip_min ip <=? z)%Z && (z <=? ip_max ip)%Z); [|discriminate].
  destruct ip as [sg w]. intros H; injection H as <-. apply put_length.
Qed.

Lemma enc_int_range e ip z h : enc_int e ip z = Some h -> (ip_min ip <= z <= ip_max ip)%Z.
Proof.
  unfold enc_int. destruct ((ip_min ip <=? z)%Z && (z <=? ip_max ip)%Z) eqn:E; [|discriminate].
  intros _. lia.
Qed.

Lemma enc_int_none e ip z : (z < ip_min ip \/ ip_max ip < z)%Z -> enc_int e ip z = None.
Proof.
  intros H. unfold enc_int.
  destruct ((ip_min ip <=? z)%Z && (z <=? ip_max ip)%Z) eqn:E; [lia|reflexivity].
Qed.

Lemma enc_int_some e ip z : (ip_min ip <= z <= ip_max ip)%Z -> exists h, enc_int e ip z = Some h.
Proof.
  intros H. unfold enc_int.
  destruct ((ip_min ip <=? z)%Z && (z <=? ip_max ip)%Z) eqn:E; [|lia].
  destruct ip. eauto.
Qed.

Lemma pow2_split k : (0 < k)%Z -> (2 ^ k = 2 * 2 ^ (k - 1))%Z.
Proof. intros. rewrite <- Z.pow_succ_r by lia. f_equal. lia. Qed.

Lemma dec_enc_int e ip z h r : enc_int e ip z = Some h -> dec_int e ip (h ++ r) = Some (z, r).
Proof.
  intros H. pose proof (enc_int_range _ _ _ _ H) as [Hlo Hhi].
  pose proof (enc_int_length _ _ _ _ H) as Hlen.
  destruct ip as [sg w]. unfold enc_int in H.
  destruct ((ip_min (IP sg w) <=? z)%Z && (z <=? ip_max (IP sg w))%Z); [|discriminate].
  cbn [ip_width] in Hlen. injection H as <-.
  unfold dec_int. rewrite (take_app_n _ _ _ Hlen).
  pose proof (wbytes_pos w) as Hw.
  assert (Hp : (0 < 2 ^ (8 * Z.of_nat (wbytes w) - 1))%Z) by (apply Z.pow_pos_nonneg; lia).
  pose proof (pow2_split (8 * Z.of_nat (wbytes w)) ltac:(lia)) as Hs.
  destruct sg; cbn [ip_min ip_max] in Hlo, Hhi.
  - rewrite get_put by (apply of_signed_lt; exact Hw).
    rewrite to_of_signed; [reflexivity | exact Hw | unfold signed_range; lia].
  - rewrite get_put.
    + rewrite Z2N.id by lia. reflexivity.
    + apply N2Z.inj_lt. rewrite Z2N.id by lia. rewrite pow256_Z. lia.
Qed.

(* ---------- primitives ---------- *)

Lemma ser_prim_length e p v b : ser_prim e p v = Some b -> N.of_nat (length b) = prim_size p.
Proof.
  destruct p as [ip| |]; destruct v; cbn [ser_prim prim_size]; try discriminate.
  - intros H. apply enc_int_length in H. rewrite H. destruct ip; cbn. apply wbytes_wN.
  - destruct (bits <? 2 ^ 32); [|discriminate]. intros H; injection H as <-. now rewrite put_length.
  - destruct (bits <? 2 ^ 64); [|discriminate]. intros H; injection H as <-. now rewrite put_length.
Qed.

Lemma de_ser_prim e p v b r : ser_prim e p v = Some b -> de_prim e p (b ++ r) = Some (v, r).
Proof.
  destruct p as [ip| |]; destruct v; cbn [ser_prim de_prim]; try discriminate.
  - intros H. now rewrite (dec_enc_int _ _ _ _ r H).
  - destruct (bits <? 2 ^ 32) eqn:E; [|discriminate]. intros H; injection H as <-.
    rewrite (take_app_n 4) by apply put_length. rewrite get_put; [reflexivity|].
    change (256 ^ N.of_nat 4) with (2 ^ 32). lia.
  - destruct (bits <? 2 ^ 64) eqn:E; [|discriminate]. intros H; injection H as <-.
    rewrite (take_app_n 8) by apply put_length. rewrite get_put; [reflexivity|].
    change (256 ^ N.of_nat 8) with (2 ^ 64). lia.
Qed.

(* ---------- length-prefixed byte strings ---------- *)

Lemma ip_max_nonneg ip : (0 <= ip_max ip)%Z.
Proof.
  destruct ip as [sg w]. pose proof (wbytes_pos w).
  assert (0 < 2 ^ (8 * Z.of_nat (wbytes w) - 1))%Z by (apply Z.pow_pos_nonneg; lia).
  assert (0 < 2 ^ (8 * Z.of_nat (wbytes w)))%Z by (apply Z.pow_pos_nonneg; lia).
  destruct sg; cbn [ip_max ip_min]; lia.
Qed.

Lemma ip_min_nonpos ip : (ip_min ip <= 0)%Z.
Proof.
  destruct ip as [sg w]. pose proof (wbytes_pos w).
  assert (0 < 2 ^ (8 * Z.of_nat (wbytes w) - 1))%Z by (apply Z.pow_pos_nonneg; lia).
  destruct sg; cbn [ip_max ip_min]; lia.
Qed.

Lemma de_ser_bytearray e ip b out r :
  ser_bytearray e ip b = Some out -> de_bytearray e ip (out ++ r) = Some (b, r).
Proof.
  unfold ser_bytearray, de_bytearray.
  destruct (ip_max ip <? Z.of_nat (length b))%Z; [discriminate|].
  destruct (enc_int e ip (Z.of_nat (length b))) as [h|] eqn:E; [|discriminate].
  intros H; injection H as <-. rewrite <- app_assoc, (dec_enc_int _ _ _ _ _ E).
  replace (Z.of_nat (length b) <? 0)%Z with false by lia.
  apply takeN_app. lia.
Qed.

Lemma ser_bytearray_too_long e ip b :
  (ip_max ip < Z.of_nat (length b))%Z -> ser_bytearray e ip b = None.
Proof.
  intros H. unfold ser_bytearray.
  destruct (ip_max ip <? Z.of_nat (length b))%Z eqn:E; [reflexivity|lia].
Qed.

Lemma ser_bytearray_length e ip b out :
  ser_bytearray e ip b = Some out -> length out = (wbytes (ip_width ip) + length b)%nat.
Proof.
  unfold ser_bytearray.
  destruct (ip_max ip <? Z.of_nat (length b))%Z; [discriminate|].
  destruct (enc_int e ip (Z.of_nat (length b))) as [h|] eqn:E; [|discriminate].
  intros H; injection H as <-. rewrite app_length. now rewrite (enc_int_length _ _ _ _ E).
Qed.

Lemma ser_fixed_some n b out : ser_fixed n b = Some out -> out = b /\ N.of_nat (length b) = n.
Proof.
  unfold ser_fixed. destruct (N.of_nat (length b) =? n) eqn:E; [|discriminate].
  intros H; injection H as <-. split; [reflexivity|lia].
Qed.

(* ---------- NUL stripping ---------- *)

Lemma rstrip0_id l : no_trail0 l = true -> rstrip0 l = l.
Proof.
  unfold no_trail0. induction l as [|x r IH]; [reflexivity|].
  intros H. cbn [rstrip0]. destruct r as [|y r'].
  - cbn in *. destruct (x =? 0); [discriminate|reflexivity].
  - assert (Hr : rstrip0 (y :: r') = y :: r') by (apply IH; exact H).
    rewrite Hr. cbn [is_nil]. now rewrite andb_false_r.
Qed.

Lemma rstrip0_zeros k : rstrip0 (repeat 0 k) = [].
Proof. induction k as [|k IH]; [reflexivity|]. cbn [repeat rstrip0]. rewrite IH. reflexivity. Qed.

Lemma rstrip0_app_zeros l k : no_trail0 l = true -> rstrip0 (l ++ repeat 0 k) = l.
Proof.
  unfold no_trail0. induction l as [|x r IH]; intros H.
  - cbn [app]. apply rstrip0_zeros.
  - cbn [app rstrip0]. destruct r as [|y r'].
    + cbn [app]. rewrite rstrip0_zeros. cbn in H. cbn [is_nil].
      destruct (x =? 0); [discriminate|reflexivity].
    + rewrite IH by exact H. cbn [is_nil]. now rewrite andb_false_r.
Qed.

Lemma rstrip0_app_zero l : no_trail0 l = true -> rstrip0 (l ++ [0]) = l.
Proof. exact (fun H => rstrip0_app_zeros l 1 H). Qed.

(* ---------- terminated byte strings ---------- *)

Lemma scan_no_term_app ts b t r :
  no_term ts b = true -> memN t ts = true -> scan ts (b ++ t :: r) = (b, t :: r).
Proof.
  intros Hb Ht. induction b as [|x b IH]; cbn [app scan].
  - now rewrite Ht.
  - cbn in Hb. apply andb_prop in Hb as [Hx Hb].
    destruct (memN x ts); [discriminate|]. now rewrite (IH Hb).
Qed.

Lemma scan_no_term ts b : no_term ts b = true -> scan ts b = (b, []).
Proof.
  induction b as [|x b IH]; intros Hb; [reflexivity|].
  cbn in Hb. apply andb_prop in Hb as [Hx Hb]. cbn [scan].
  destruct (memN x ts); [discriminate|]. now rewrite (IH Hb).
Qed.

Lemma memN_hd t ts : memN t (t :: ts) = true.
Proof. unfold memN. cbn. now rewrite N.eqb_refl. Qed.

Lemma de_ser_term ts wt eof b out r :
  term_ok ts wt eof = true -> no_term ts b = true -> ser_term ts wt b = Some out ->
  (wt = true \/ r = []) -> de_term ts eof (out ++ r) = Some (b, r).
Proof.
  unfold term_ok, ser_term, de_term. intros Hok Hb Hs Hr.
  apply andb_prop in Hok as [Hts Hwe].
  destruct wt.
  - destruct ts as [|t ts']; [discriminate|]. injection Hs as <-.
    rewrite <- app_assoc. cbn [app].
    rewrite (scan_no_term_app _ _ _ _ Hb (memN_hd t ts')). reflexivity.
  - injection Hs as <-. destruct Hr as [Hr|Hr]; [discriminate|]. subst r.
    rewrite app_nil_r, (scan_no_term _ _ Hb). cbn in Hwe. now rewrite Hwe.
Qed.

(* ---------- the counting loop ---------- *)

Fixpoint iter_opt {A} (f : A -> option A) (k : nat) (x : A) : option A :=
  match k with
  | O => Some x
  | S k' => match f x with Some y => iter_opt f k' y | None => None end
  end.

Lemma iter_opt_add {A} (f : A -> option A) a b x :
  iter_opt f (a + b) x = match iter_opt f a x with Some y => iter_opt f b y | None => None end.
Proof.
  revert x; induction a as [|a IH]; intros x; cbn; [reflexivity|].
  destruct (f x); [apply IH|reflexivity].
Qed.

Lemma rep_pos_iter {A} (f : A -> option A) p x : rep_pos f p x = iter_opt f (Pos.to_nat p) x.
Proof.
  revert x; induction p as [p IH|p IH|]; intros x; cbn [rep_pos].
  - rewrite Pos2Nat.inj_xI. cbn [iter_opt]. destruct (f x) as [y|]; [|reflexivity].
    replace (2 * Pos.to_nat p)%nat with (Pos.to_nat p + Pos.to_nat p)%nat by lia.
    rewrite iter_opt_add, <- IH. destruct (rep_pos f p y); [apply IH|reflexivity].
  - rewrite Pos2Nat.inj_xO.
    replace (2 * Pos.to_nat p)%nat with (Pos.to_nat p + Pos.to_nat p)%nat by lia.
    rewrite iter_opt_add, <- IH. destruct (rep_pos f p x); [apply IH|reflexivity].
  - change (Pos.to_nat 1) with 1%nat. cbn [iter_opt]. destruct (f x); reflexivity.
Qed.

Lemma iter_cstep f k acc b :
  iter_opt (cstep f) k (acc, b) =
  match de_n f k b with Some (vs, r) => Some (rev vs ++ acc, r) | None => None end.
Proof.
  revert acc b; induction k as [|k IH]; intros acc b; cbn [iter_opt de_n]; [reflexivity|].
  unfold cstep at 1. cbn [fst snd]. destruct (f b) as [[v r]|]; [|reflexivity].
  rewrite IH. destruct (de_n f k r) as [[vs r']|]; [|reflexivity].
  cbn [rev]. now rewrite <- app_assoc.
Qed.

Lemma de_count_spec f n b : de_count f n b = de_n f (N.to_nat n) b.
Proof.
  destruct n as [|p]; [reflexivity|]. unfold de_count.
  rewrite rep_pos_iter, iter_cstep. cbn [N.to_nat].
  destruct (de_n f (Pos.to_nat p) b) as [[vs r]|]; [|reflexivity].
  now rewrite rev_append_rev, !app_nil_r, rev_involutive.
Qed.
