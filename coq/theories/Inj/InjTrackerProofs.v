(* Proofs about the InjectionTracker model (Inj/InjTracker.v). *)
From Coq Require Import ZArith List Bool Lia.
From HV Require Import Inj.InjTracker.
Import ListNotations.
Open Scope Z_scope.

(* ------------------------------------------------------------------ *)
(* strictly increasing lists *)

Fixpoint ssorted (l : list Z) : Prop :=
  match l with
  | [] => True
  | x :: t => (forall y, In y t -> x < y) /\ ssorted t
  end.

Lemma ssorted_app : forall a b,
  ssorted (a ++ b) <->
  ssorted a /\ ssorted b /\ (forall x y, In x a -> In y b -> x < y).
Proof.
  induction a as [|x a IH]; intros b; cbn [app ssorted].
  - split.
    + intros H; repeat split; auto. intros x y [].
    + intros (_ & H & _); exact H.
  - rewrite IH. split.
    + intros (Hx & Ha & Hb & Hab). repeat split; auto.
      * intros y Hy. apply Hx. apply in_or_app; auto.
      * intros x0 y [->|Hx0] Hy.
        -- apply Hx. apply in_or_app; auto.
        -- apply Hab; auto.
    + intros ((Hx & Ha) & Hb & Hab). repeat split; auto.
      * intros y Hy. apply in_app_or in Hy as [Hy|Hy]; [apply Hx; auto|].
        apply Hab; cbn; auto.
      * intros x0 y Hx0 Hy. apply Hab; cbn; auto.
Qed.

Lemma ssorted_filter : forall f l, ssorted l -> ssorted (filter f l).
Proof.
  induction l as [|x l IH]; cbn [filter ssorted]; auto.
  intros (Hx & Hl). destruct (f x); cbn [ssorted]; auto.
  split; auto. intros y Hy. apply filter_In in Hy as (Hy & _). auto.
Qed.

(* a strictly increasing list of integers inside the open interval (a,b) *)
Lemma ssorted_length_bound : forall l a b,
  ssorted l -> a < b -> (forall x, In x l -> a < x < b) ->
  Z.of_nat (length l) <= b - a - 1.
Proof.
  induction l as [|x l IH]; intros a b Hs Hab Hin; cbn [length].
  - lia.
  - destruct Hs as (Hx & Hl).
    assert (Hxb : a < x < b) by (apply Hin; cbn; auto).
    assert (H := IH x b Hl ltac:(lia)
                  ltac:(intros y Hy; split; [apply Hx; auto | apply Hin; cbn; auto])).
    lia.
Qed.

Lemma ssorted_NoDup : forall l, ssorted l -> NoDup l.
Proof.
  induction l as [|x l IH]; cbn [ssorted]; intros H; constructor.
  - destruct H as (Hx & _). intros Hin. specialize (Hx x Hin). lia.
  - apply IH, H.
Qed.

(* ------------------------------------------------------------------ *)
(* membership, counting *)

Lemma memz_In : forall x l, memz x l = true <-> In x l.
Proof.
  intros x l. unfold memz. rewrite existsb_exists. split.
  - intros (y & Hy & He). apply Z.eqb_eq in He. subst; auto.
  - intros H. exists x. split; auto. apply Z.eqb_refl.
Qed.

Lemma memz_false : forall x l, memz x l = false <-> ~ In x l.
Proof.
  intros x l. rewrite <- memz_In. destruct (memz x l); split; congruence.
Qed.

Lemma clt_nil : forall w, clt [] w = 0.
Proof. reflexivity. Qed.

Lemma clt_cons : forall x l w,
  clt (x :: l) w = (if x <? w then 1 else 0) + clt l w.
Proof.
  intros x l w. unfold clt. cbn [filter]. destruct (x <? w); cbn [length]; lia.
Qed.

Lemma clt_app : forall a b w, clt (a ++ b) w = clt a w + clt b w.
Proof.
  intros a b w. unfold clt. rewrite filter_app, app_length. lia.
Qed.

Lemma clt_nonneg : forall l w, 0 <= clt l w.
Proof. intros; unfold clt; lia. Qed.

Lemma clt_all_ge : forall l w, (forall x, In x l -> w <= x) -> clt l w = 0.
Proof.
  induction l as [|x l IH]; intros w H; [reflexivity|].
  rewrite clt_cons, IH by (intros y Hy; apply H; cbn; auto).
  assert (w <= x) by (apply H; cbn; auto).
  destruct (x <? w) eqn:E; lia.
Qed.

Lemma clt_all_lt : forall l w, (forall x, In x l -> x < w) -> clt l w = Z.of_nat (length l).
Proof.
  induction l as [|x l IH]; intros w H; [reflexivity|].
  rewrite clt_cons, IH by (intros y Hy; apply H; cbn; auto).
  assert (x < w) by (apply H; cbn; auto).
  destruct (x <? w) eqn:E; cbn [length]; lia.
Qed.

(* elements of a strictly increasing list all above p: at most w-p-1 of them are below w *)
Lemma clt_bound : forall l p w,
  ssorted l -> (forall y, In y l -> p < y) -> p < w -> clt l w <= w - p - 1.
Proof.
  intros l p w Hs Hp Hpw. unfold clt.
  apply ssorted_length_bound; auto using ssorted_filter.
  intros x Hx. apply filter_In in Hx as (Hx & Hlt). split; [auto|lia].
Qed.

(* monotone in w *)
Lemma clt_mono : forall l w w', w <= w' -> clt l w <= clt l w'.
Proof.
  induction l as [|x l IH]; intros w w' H; [cbn; lia|].
  rewrite !clt_cons. specialize (IH w w' H).
  destruct (x <? w) eqn:E1, (x <? w') eqn:E2; lia.
Qed.

(* between two non-members w < w' of a strictly increasing list there are at
   most w'-w-1 members *)
Lemma clt_gap : forall l w w',
  ssorted l -> ~ In w l -> w < w' -> clt l w' - clt l w <= w' - w - 1.
Proof.
  induction l as [|x l IH]; intros w w' Hs Hn Hlt.
  - cbn. lia.
  - destruct Hs as (Hx & Hl). rewrite !clt_cons.
    assert (x <> w) by (intros ->; apply Hn; cbn; auto).
    assert (Hn' : ~ In w l) by (intros Hi; apply Hn; cbn; auto).
    destruct (x <? w) eqn:E1, (x <? w') eqn:E2; try lia.
    + specialize (IH w w' Hl Hn' Hlt). lia.
    + (* w < x < w' : everything in l is above x > w *)
      rewrite (clt_all_ge l w) by (intros y Hy; specialize (Hx y Hy); lia).
      assert (Hb := clt_bound l x w' Hl Hx ltac:(lia)). lia.
    + specialize (IH w w' Hl Hn' Hlt). lia.
Qed.

(* rank is strictly increasing on the complement of J: the order isomorphism *)
Lemma rank_strict_mono : forall J w w',
  ssorted J -> ~ In w J -> w < w' -> rank J w < rank J w'.
Proof.
  intros J w w' Hs Hn Hlt. unfold rank.
  assert (H := clt_gap J w w' Hs Hn Hlt). lia.
Qed.

Lemma nth_free_unique : forall J o w w',
  ssorted J -> nth_free J o w -> nth_free J o w' -> w = w'.
Proof.
  intros J o w w' Hs (Hn & Hr) (Hn' & Hr').
  destruct (Z.lt_trichotomy w w') as [H|[H|H]]; auto.
  - assert (X := rank_strict_mono J w w' Hs Hn H). lia.
  - assert (X := rank_strict_mono J w' w Hs Hn' H). lia.
Qed.

Lemma nth_free_mono : forall J o1 o2 w1 w2,
  ssorted J -> nth_free J o1 w1 -> nth_free J o2 w2 -> (o1 < o2 <-> w1 < w2).
Proof.
  intros J o1 o2 w1 w2 Hs (Hn1 & Hr1) (Hn2 & Hr2). subst o1 o2.
  destruct (Z.lt_trichotomy w1 w2) as [H|[H|H]].
  - assert (X := rank_strict_mono J w1 w2 Hs Hn1 H). lia.
  - subst. lia.
  - assert (X := rank_strict_mono J w2 w1 Hs Hn2 H). lia.
Qed.

(* appending IDs above w does not change w's status *)
Lemma nth_free_ext : forall J new o w,
  (forall x, In x new -> w < x) -> nth_free J o w -> nth_free (J ++ new) o w.
Proof.
  intros J new o w Hnew (Hn & Hr). split.
  - intros Hi. apply in_app_or in Hi as [Hi|Hi]; [auto|]. specialize (Hnew w Hi). lia.
  - unfold rank in *. rewrite clt_app.
    rewrite (clt_all_ge new w) by (intros x Hx; specialize (Hnew x Hx); lia). lia.
Qed.

(* ------------------------------------------------------------------ *)
(* the spec function E *)

Lemma E_ge : forall J n, n <= E J n.
Proof.
  induction J as [|p t IH]; intros n; cbn [E]; [lia|].
  destruct (n <? p); [lia|]. specialize (IH (n + 1)). lia.
Qed.

Lemma E_strict_mono : forall J n n', n < n' -> E J n < E J n'.
Proof.
  induction J as [|p t IH]; intros n n' H; cbn [E]; [lia|].
  destruct (n <? p) eqn:E1, (n' <? p) eqn:E2; try lia.
  - assert (X := E_ge t (n' + 1)). lia.
  - apply IH. lia.
Qed.

Lemma E_spec : forall J n, ssorted J -> nth_free J n (E J n).
Proof.
  induction J as [|p t IH]; intros n Hs; cbn [E].
  - split; [intros []|]. unfold rank. rewrite clt_nil. lia.
  - destruct Hs as (Hp & Ht). destruct (n <? p) eqn:E1.
    + split.
      * intros [->|Hi]; [lia|]. specialize (Hp n Hi). lia.
      * unfold rank. rewrite clt_all_ge; [lia|].
        intros x [<-|Hx]; [lia|]. specialize (Hp x Hx). lia.
    + destruct (IH (n + 1) Ht) as (Hn & Hr).
      assert (Hge := E_ge t (n + 1)).
      split.
      * intros [He|Hi]; [lia|auto].
      * unfold rank in *. rewrite clt_cons.
        destruct (p <? E t (n + 1)) eqn:E2; lia.
Qed.

(* E inverts rank on the complement *)
Lemma E_rank : forall J w, ssorted J -> ~ In w J -> E J (rank J w) = w.
Proof.
  intros J w Hs Hn.
  apply (nth_free_unique J (rank J w)); auto.
  - apply E_spec; auto.
  - split; auto.
Qed.

(* ------------------------------------------------------------------ *)
(* the two loops *)

(* under the sortedness invariant the extra "not in injections" test is redundant *)
Lemma eff_loop_E : forall l pre n,
  ssorted (pre ++ l) -> (forall x, In x pre -> x < n) ->
  eff_loop (pre ++ l) l n = E l n.
Proof.
  induction l as [|p t IH]; intros pre n Hs Hpre; cbn [eff_loop E]; [reflexivity|].
  destruct (n <? p) eqn:E1; cbn [andb].
  - assert (Hm : memz n (pre ++ p :: t) = false).
    { apply memz_false. intros Hi.
      apply ssorted_app in Hs as (_ & (Hp & _) & _).
      apply in_app_or in Hi as [Hi|[Hi|Hi]].
      - specialize (Hpre n Hi). lia.
      - lia.
      - specialize (Hp n Hi). lia. }
    rewrite Hm. reflexivity.
  - replace (pre ++ p :: t) with ((pre ++ [p]) ++ t) by (rewrite <- app_assoc; reflexivity).
    apply IH.
    + rewrite <- app_assoc. exact Hs.
    + intros x Hx. apply in_app_or in Hx as [Hx|[<-|[]]]; [specialize (Hpre x Hx)|]; lia.
Qed.

Lemma eff_E : forall st o, ssorted (inj st) -> eff st o = E (inj st) (o + ibase st).
Proof.
  intros st o Hs. unfold eff. apply (eff_loop_E (inj st) [] (o + ibase st)); auto.
  intros x [].
Qed.

Lemma orig_loop_app : forall a b n, orig_loop (a ++ b) n = orig_loop b (orig_loop a n).
Proof.
  induction a as [|p a IH]; intros b n; cbn [app orig_loop]; [reflexivity|].
  destruct (p >? n); apply IH.
Qed.

Lemma orig_loop_rank : forall l w,
  ssorted l -> ~ In w l -> orig_loop (rev l) w = rank l w.
Proof.
  induction l as [|p t IH]; intros w Hs Hn.
  - cbn. unfold rank. rewrite clt_nil. lia.
  - destruct Hs as (Hp & Ht).
    assert (Hpw : p <> w) by (intros ->; apply Hn; cbn; auto).
    assert (Hn' : ~ In w t) by (intros Hi; apply Hn; cbn; auto).
    cbn [rev]. rewrite orig_loop_app, IH by auto. cbn [orig_loop].
    unfold rank. rewrite clt_cons.
    destruct (p <? w) eqn:E1.
    + assert (Hb := clt_bound t p w Ht Hp ltac:(lia)).
      destruct (p >? w - clt t w) eqn:E2; lia.
    + rewrite (clt_all_ge t w) by (intros y Hy; specialize (Hp y Hy); lia).
      destruct (p >? w - 0) eqn:E2; lia.
Qed.

(* ------------------------------------------------------------------ *)
(* deque append *)

Lemma push_lt : forall m l x, (length l < m)%nat -> push m l x = l ++ [x].
Proof.
  intros m l x H. unfold push. rewrite app_length. cbn [length].
  replace (length l + 1 - m)%nat with 0%nat by lia. reflexivity.
Qed.

Lemma push_eq : forall m l x, length l = m -> push m l x = skipn 1 (l ++ [x]).
Proof.
  intros m l x H. unfold push. rewrite app_length. cbn [length].
  replace (length l + 1 - m)%nat with 1%nat by lia. reflexivity.
Qed.

Lemma push_length : forall m l x, (length l <= m)%nat -> (length (push m l x) <= m)%nat.
Proof.
  intros m l x H. unfold push. rewrite skipn_length, app_length. cbn [length]. lia.
Qed.

(* ------------------------------------------------------------------ *)
(* invariant *)

Definition Inv (g : gstate) : Prop :=
  let st := tr g in
  ibase st = Z.of_nat (length (evicted g)) /\
  ssorted (jall g) /\
  (forall x, In x (jall g) -> x <= pbase st) /\
  (forall x, In x (seen g) -> x <= pbase st) /\
  (length (inj st) <= maxlen st)%nat.

Lemma Inv_init : forall p0 m, Inv (ginit p0 m).
Proof.
  intros p0 m. unfold Inv, ginit, jall, init; cbn. repeat split; auto; try lia; intros x [].
Qed.

Lemma Inv_sorted_inj : forall g, Inv g -> ssorted (inj (tr g)).
Proof.
  intros g (_ & Hs & _). unfold jall in Hs. apply ssorted_app in Hs. tauto.
Qed.

Lemma track_seen_pbase : forall st w, pbase (track_seen st w) = Z.max (pbase st) w.
Proof.
  intros st w. unfold track_seen. destruct (w >? pbase st) eqn:E1; cbn [pbase]; lia.
Qed.

Lemma track_seen_other : forall st w,
  ibase (track_seen st w) = ibase st /\ inj (track_seen st w) = inj st /\
  dropped (track_seen st w) = dropped st /\ maxlen (track_seen st w) = maxlen st.
Proof.
  intros st w. unfold track_seen. destruct (w >? pbase st); cbn; auto.
Qed.

(* description of one Inject step on the ghost state *)
Lemma gstep_inject : forall g, Inv g ->
  let g' := gstep g Inject in
  jall g' = jall g ++ [pbase (tr g) + 1] /\
  pbase (tr g') = pbase (tr g) + 1 /\
  (exists ev, evicted g' = evicted g ++ ev) /\
  seen g' = (pbase (tr g) + 1) :: seen g /\
  maxlen (tr g') = maxlen (tr g) /\
  dropped (tr g') = dropped (tr g) /\
  Inv g'.
Proof.
  intros g (Hib & Hs & Hj & Hseen & Hlen). cbn zeta.
  unfold gstep, gen. cbn [fst snd].
  set (st := tr g) in *. set (id := pbase st + 1).
  remember (mkT (pbase st)
       (if (length (inj st) =? maxlen st)%nat then ibase st + 1 else ibase st)
       (push (maxlen st) (inj st) id) (dropped st) (maxlen st)) as st1 eqn:Hst1.
  destruct (track_seen_other st1 id) as (T1 & T2 & T3 & T4).
  assert (Tp := track_seen_pbase st1 id).
  assert (Hp1 : pbase st1 = pbase st) by (subst st1; reflexivity).
  assert (Hi1 : inj st1 = push (maxlen st) (inj st) id) by (subst st1; reflexivity).
  assert (Hm1 : maxlen st1 = maxlen st) by (subst st1; reflexivity).
  assert (Hd1 : dropped st1 = dropped st) by (subst st1; reflexivity).
  assert (Hb1 : ibase st1 = if (length (inj st) =? maxlen st)%nat then ibase st + 1 else ibase st)
    by (subst st1; reflexivity).
  assert (Hjall : jall (mkG (track_seen st1 id)
            (evicted g ++ (if (length (inj st) =? maxlen st)%nat then firstn 1 (inj st ++ [id]) else []))
            (id :: seen g)) = jall g ++ [id]).
  { unfold jall. cbn [tr evicted]. rewrite T2, Hi1. fold st.
    destruct (length (inj st) =? maxlen st)%nat eqn:E1.
    - apply Nat.eqb_eq in E1. rewrite push_eq by auto.
      rewrite <- !app_assoc. f_equal. rewrite firstn_skipn. reflexivity.
    - apply Nat.eqb_neq in E1. rewrite push_lt by lia.
      rewrite app_nil_r, <- app_assoc. reflexivity. }
  split; [exact Hjall|].
  split; [cbn [tr]; rewrite Tp, Hp1; lia|].
  split; [eexists; reflexivity|].
  split; [reflexivity|].
  split; [cbn [tr]; rewrite T4, Hm1; reflexivity|].
  split; [cbn [tr]; rewrite T3, Hd1; reflexivity|].
  unfold Inv. rewrite Hjall. cbn [tr evicted seen]. rewrite Tp, Hp1, T1, T2, T4, Hm1, Hi1, Hb1.
  split; [|split; [|split; [|split]]].
  - (* ibase *)
    rewrite app_length. fold st in Hib.
    destruct (length (inj st) =? maxlen st)%nat eqn:E1.
    + assert (length (firstn 1 (inj st ++ [id])) = 1%nat).
      { rewrite firstn_length, app_length. cbn [length]. lia. }
      lia.
    + cbn [length]. lia.
  - apply ssorted_app. split; [exact Hs|]. split; [cbn; split; [intros y []|exact I]|].
    intros x y Hx [<-|[]]. specialize (Hj x Hx). fold st in Hj. unfold id. lia.
  - intros x Hx.
    apply in_app_or in Hx as [Hx|[<-|[]]]; [specialize (Hj x Hx); fold st in Hj|unfold id]; lia.
  - intros x Hx.
    destruct Hx as [<-|Hx]; [unfold id|specialize (Hseen x Hx); fold st in Hseen]; lia.
  - apply push_length. exact Hlen.
Qed.

Lemma gstep_fwd : forall g o, Inv g ->
  let g' := gstep g (Fwd o) in
  jall g' = jall g /\ evicted g' = evicted g /\
  pbase (tr g') = Z.max (pbase (tr g)) (eff (tr g) o) /\
  seen g' = eff (tr g) o :: seen g /\
  inj (tr g') = inj (tr g) /\ ibase (tr g') = ibase (tr g) /\
  maxlen (tr g') = maxlen (tr g) /\
  Inv g'.
Proof.
  intros g o (Hib & Hs & Hj & Hseen & Hlen). cbn zeta.
  unfold gstep, fwd. cbn [tr evicted seen].
  destruct (track_seen_other (tr g) (eff (tr g) o)) as (T1 & T2 & T3 & T4).
  assert (Tp := track_seen_pbase (tr g) (eff (tr g) o)).
  assert (Hjall : jall (mkG (track_seen (tr g) (eff (tr g) o)) (evicted g) (eff (tr g) o :: seen g)) = jall g).
  { unfold jall. cbn [tr evicted]. rewrite T2. reflexivity. }
  split; [exact Hjall|]. split; [reflexivity|]. split; [exact Tp|]. split; [reflexivity|].
  split; [exact T2|]. split; [exact T1|]. split; [exact T4|].
  unfold Inv. rewrite Hjall. cbn [tr evicted seen]. rewrite T1, T2, T4, Tp.
  split; [|split; [|split; [|split]]]; auto.
  - intros x Hx. specialize (Hj x Hx). lia.
  - intros x [<-|Hx]; [|specialize (Hseen x Hx)]; lia.
Qed.

Lemma gstep_drop : forall g o, Inv g ->
  let g' := gstep g (Drop o) in
  jall g' = jall g /\ evicted g' = evicted g /\ pbase (tr g') = pbase (tr g) /\
  seen g' = seen g /\ inj (tr g') = inj (tr g) /\ ibase (tr g') = ibase (tr g) /\
  maxlen (tr g') = maxlen (tr g) /\ Inv g'.
Proof.
  intros g o HI. cbn zeta. unfold gstep, mark_dropped, jall, Inv in *. cbn [tr evicted seen].
  destruct (memz o (dropped (tr g))); cbn [pbase ibase inj maxlen]; repeat split; tauto.
Qed.

Lemma Inv_gstep : forall g e, Inv g -> Inv (gstep g e).
Proof.
  intros g [o| |o] H.
  - apply (gstep_fwd g o H).
  - apply (gstep_inject g H).
  - apply (gstep_drop g o H).
Qed.

Lemma Inv_grun : forall h g, Inv g -> Inv (grun g h).
Proof.
  unfold grun. induction h as [|e h IH]; intros g H; cbn [fold_left]; auto.
  apply IH, Inv_gstep, H.
Qed.

(* the ghost components are only observers: erasing them gives the plain run *)
Lemma tr_gstep : forall g e, tr (gstep g e) = step (tr g) e.
Proof.
  intros g [o| |o]; unfold gstep, step, step_out; cbn [fst]; reflexivity.
Qed.

Lemma tr_grun : forall h g, tr (grun g h) = run (tr g) h.
Proof.
  unfold grun, run. induction h as [|e h IH]; intros g; cbn [fold_left]; auto.
  rewrite IH, tr_gstep. reflexivity.
Qed.

(* what a run adds: new injections are above the old pbase; evicted only grows *)
Lemma gstep_ext : forall g e, Inv g ->
  pbase (tr g) <= pbase (tr (gstep g e)) /\
  (exists new, jall (gstep g e) = jall g ++ new /\ forall x, In x new -> pbase (tr g) < x) /\
  (exists ev, evicted (gstep g e) = evicted g ++ ev) /\
  (exists s, seen (gstep g e) = s ++ seen g).
Proof.
  intros g [o| |o] H.
  - destruct (gstep_fwd g o H) as (A & B & C & D & _). rewrite A, B, C, D. repeat split.
    + lia.
    + exists []. rewrite app_nil_r. split; auto. intros x [].
    + exists []. rewrite app_nil_r. auto.
    + exists [eff (tr g) o]. reflexivity.
  - destruct (gstep_inject g H) as (A & B & C & D & _). rewrite A, B, D. repeat split.
    + lia.
    + eexists. split; [reflexivity|]. intros x [<-|[]]. lia.
    + exact C.
    + exists [pbase (tr g) + 1]. reflexivity.
  - destruct (gstep_drop g o H) as (A & B & C & D & _). rewrite A, B, C, D. repeat split.
    + lia.
    + exists []. rewrite app_nil_r. split; auto. intros x [].
    + exists []. rewrite app_nil_r. auto.
    + exists []. reflexivity.
Qed.

Lemma grun_ext : forall h g, Inv g ->
  pbase (tr g) <= pbase (tr (grun g h)) /\
  (exists new, jall (grun g h) = jall g ++ new /\ forall x, In x new -> pbase (tr g) < x) /\
  (exists ev, evicted (grun g h) = evicted g ++ ev) /\
  (exists s, seen (grun g h) = s ++ seen g).
Proof.
  induction h as [|e h IH]; intros g H; cbn [grun fold_left].
  - repeat split; [lia| | |].
    + exists []. rewrite app_nil_r. split; auto. intros x [].
    + exists []. rewrite app_nil_r. auto.
    + exists []. reflexivity.
  - destruct (gstep_ext g e H) as (P1 & (n1 & J1 & N1) & (e1 & E1) & (s1 & S1)).
    destruct (IH (gstep g e) (Inv_gstep g e H)) as (P2 & (n2 & J2 & N2) & (e2 & E2) & (s2 & S2)).
    fold (grun (gstep g e) h) in *.
    repeat split.
    + lia.
    + exists (n1 ++ n2). rewrite J2, J1, app_assoc. split; auto.
      intros x Hx. apply in_app_or in Hx as [Hx|Hx]; [auto|]. specialize (N2 x Hx). lia.
    + exists (e1 ++ e2). rewrite E2, E1, app_assoc. reflexivity.
    + exists (s2 ++ s1). rewrite S2, S1, app_assoc. reflexivity.
Qed.

Lemma above_evicted_b : forall g w, above_evictedb g w = true <-> above_evicted g w.
Proof.
  intros g w. unfold above_evictedb, above_evicted. rewrite forallb_forall.
  split; intros H x Hx; specialize (H x Hx); lia.
Qed.

(* ------------------------------------------------------------------ *)
(* translation at one state *)

Section OneState.
Variable g : gstate.
Hypothesis HI : Inv g.
Let st := tr g.

Lemma eff_window : forall o,
  nth_free (inj st) (o + ibase st) (eff st o).
Proof.
  intros o. unfold st. rewrite eff_E by (apply Inv_sorted_inj; auto).
  apply E_spec. apply Inv_sorted_inj; auto.
Qed.

(* strictly order preserving (hence injective), unconditionally *)
Lemma eff_strict_mono : forall o1 o2, o1 < o2 -> eff st o1 < eff st o2.
Proof.
  intros o1 o2 H. unfold st. rewrite !eff_E by (apply Inv_sorted_inj; auto).
  apply E_strict_mono. lia.
Qed.

Lemma eff_lt_iff : forall o1 o2, o1 < o2 <-> eff st o1 < eff st o2.
Proof.
  intros o1 o2. split; [apply eff_strict_mono|].
  intros H. destruct (Z.lt_trichotomy o1 o2) as [L|[L|L]]; auto.
  - subst. lia.
  - apply eff_strict_mono in L. lia.
Qed.

Lemma eff_injective : forall o1 o2, eff st o1 = eff st o2 -> o1 = o2.
Proof.
  intros o1 o2 H. destruct (Z.lt_trichotomy o1 o2) as [L|[L|L]]; auto;
    apply eff_strict_mono in L; lia.
Qed.

(* never an ID still in the window *)
Lemma eff_avoids_window : forall o, was_injected st (eff st o) = false.
Proof.
  intros o. unfold was_injected. apply memz_false. apply (eff_window o).
Qed.

Lemma eff_ge : forall o, o + ibase st <= eff st o.
Proof.
  intros o. unfold st. rewrite eff_E by (apply Inv_sorted_inj; auto). apply E_ge.
Qed.

Lemma above_evicted_clt : forall w, above_evicted g w ->
  clt (jall g) w = ibase st + clt (inj st) w.
Proof.
  intros w Ha. unfold jall. rewrite clt_app. fold st.
  rewrite clt_all_lt by exact Ha. destruct HI as (Hib & _). fold st in Hib. lia.
Qed.

Lemma above_evicted_notin : forall w, above_evicted g w -> ~ In w (evicted g).
Proof. intros w Ha Hi. specialize (Ha w Hi). lia. Qed.

(* refinement: above the forgotten injections, eff is the abstract order isomorphism
   onto the complement of ALL injected IDs *)
Lemma eff_refines : forall o, above_evicted g (eff st o) ->
  nth_free (jall g) o (eff st o).
Proof.
  intros o Ha. destruct (eff_window o) as (Hn & Hr). split.
  - unfold jall. intros Hi. apply in_app_or in Hi as [Hi|Hi]; [|auto].
    apply (above_evicted_notin _ Ha Hi).
  - unfold rank in *. rewrite above_evicted_clt by auto. lia.
Qed.

Lemma eff_refines_E : forall o, above_evicted g (eff st o) ->
  eff st o = E (jall g) o.
Proof.
  intros o Ha. destruct HI as (_ & Hs & _).
  apply (nth_free_unique (jall g) o); auto using eff_refines, E_spec.
Qed.

Lemma eff_avoids_injected : forall o, above_evicted g (eff st o) -> ~ In (eff st o) (jall g).
Proof. intros o Ha. apply (eff_refines o Ha). Qed.

(* orig on wire IDs not in the window *)
Lemma orig_window : forall w, ~ In w (inj st) ->
  orig st w = Some (rank (inj st) w - ibase st).
Proof.
  intros w Hn. unfold orig. apply memz_false in Hn. rewrite Hn.
  rewrite orig_loop_rank; auto. apply Inv_sorted_inj; auto. apply memz_false; auto.
Qed.

Lemma orig_injected : forall w, In w (inj st) -> orig st w = None.
Proof.
  intros w Hi. unfold orig. apply memz_In in Hi. rewrite Hi. reflexivity.
Qed.

Lemma orig_refines : forall w, ~ In w (jall g) -> above_evicted g w ->
  orig st w = Some (rank (jall g) w).
Proof.
  intros w Hn Ha. rewrite orig_window.
  - unfold rank. rewrite above_evicted_clt by auto. f_equal. lia.
  - intros Hi. apply Hn. unfold jall. apply in_or_app. auto.
Qed.

(* the two inverse laws at one state *)
Lemma orig_eff : forall o, orig st (eff st o) = Some o.
Proof.
  intros o. destruct (eff_window o) as (Hn & Hr).
  rewrite orig_window by auto. f_equal. lia.
Qed.

Lemma eff_orig : forall w o, orig st w = Some o -> eff st o = w.
Proof.
  intros w o H. unfold orig in H. destruct (memz w (inj st)) eqn:Hm; [discriminate|].
  apply memz_false in Hm. injection H as <-.
  assert (Hs := Inv_sorted_inj g HI). fold st in Hs.
  rewrite orig_loop_rank by auto. unfold st. rewrite eff_E by auto. fold st.
  replace (rank (inj st) w - ibase st + ibase st) with (rank (inj st) w) by lia.
  apply E_rank; auto.
Qed.

(* gen_injectable_id yields pbase+1, which was never on the wire and never injected *)
Lemma gen_fresh :
  snd (gen st) = pbase st + 1 /\
  ~ In (snd (gen st)) (seen g) /\ ~ In (snd (gen st)) (jall g).
Proof.
  destruct HI as (_ & _ & Hj & Hseen & _). fold st in Hj, Hseen.
  unfold gen. cbn [snd]. repeat split.
  - intros Hi. specialize (Hseen _ Hi). lia.
  - intros Hi. specialize (Hj _ Hi). lia.
Qed.

End OneState.

(* ------------------------------------------------------------------ *)
(* across time *)

(* a wire ID w was given to the endpoint's ID o at state g and has been tracked
   (w <= pbase); after any further history g' (any number of injections), as long as w is
   above what g' has forgotten: w still translates back to o, o still
   translates to w, and w is not an injected ID *)
Lemma across_time : forall g h o,
  Inv g ->
  let w := eff (tr g) o in
  let g' := grun g h in
  w <= pbase (tr g) ->
  above_evicted g' w ->
  nth_free (jall g') o w /\ orig (tr g') w = Some o /\ eff (tr g') o = w.
Proof.
  intros g h o HI w g' Hw Ha.
  assert (HI' : Inv g') by (apply Inv_grun; auto).
  destruct (grun_ext h g HI) as (_ & (new & Hj & Hnew) & (ev & Hev) & _).
  fold g' in Hj, Hev.
  assert (Ha0 : above_evicted g w).
  { intros x Hx. apply Ha. rewrite Hev. apply in_or_app; auto. }
  assert (Hnf : nth_free (jall g') o w).
  { rewrite Hj. apply nth_free_ext.
    - intros x Hx. specialize (Hnew x Hx). lia.
    - apply eff_refines; auto. }
  assert (Ho : orig (tr g') w = Some o).
  { destruct Hnf as (Hn & Hr). rewrite (orig_refines g' HI' w Hn Ha). f_equal. exact Hr. }
  repeat split; try apply Hnf; auto.
  apply (eff_orig g' HI' w o Ho).
Qed.

(* two forwarded packets, the first at state g, the second after further
   history h: provided both wire IDs are above what has been forgotten by
   then, original order and wire order coincide, and equal IDs get equal
   wire IDs (stability) *)
Lemma order_across_time : forall g h o1 o2,
  Inv g ->
  let g1 := gstep g (Fwd o1) in
  let w1 := eff (tr g) o1 in
  let g2 := grun g1 h in
  let w2 := eff (tr g2) o2 in
  above_evicted g2 w1 ->
  (o1 < o2 <-> w1 < w2) /\ (o1 = o2 <-> w1 = w2).
Proof.
  intros g h o1 o2 HI g1 w1 g2 w2 Ha1.
  assert (HI1 : Inv g1) by (apply Inv_gstep; auto).
  assert (HI2 : Inv g2) by (apply Inv_grun; auto).
  destruct (gstep_fwd g o1 HI) as (_ & _ & Hp & _ & Hinj & Hib & _). fold g1 w1 in Hp, Hinj, Hib.
  assert (Hsame : eff (tr g1) o1 = w1).
  { unfold w1, eff. rewrite Hinj, Hib. reflexivity. }
  assert (Hst : eff (tr g2) o1 = w1).
  { rewrite <- Hsame. apply (across_time g1 h o1 HI1); rewrite Hsame; [lia|exact Ha1]. }
  split.
  - rewrite <- Hst. apply (eff_lt_iff g2 HI2).
  - rewrite <- Hst. split; [intros ->; reflexivity|apply (eff_injective g2 HI2)].
Qed.

(* every injected ID differs from everything sent on the wire before it *)
Lemma inject_fresh_run : forall p0 m h,
  let g := grun (ginit p0 m) h in
  let id := snd (gen (tr g)) in
  id = pbase (tr g) + 1 /\ ~ In id (seen g) /\ ~ In id (jall g).
Proof.
  intros p0 m h g id. apply gen_fresh. apply Inv_grun, Inv_init.
Qed.

(* ------------------------------------------------------------------ *)
(* provenance of wire IDs: everything that was ever put on the wire is either an injected
   ID or the translation of an ID the endpoint sent (and, above the forgotten injections,
   still its translation in the sense of the specification) *)

Definition Prov (h : list op) (g : gstate) : Prop :=
  forall w, In w (seen g) ->
    In w (jall g) \/ exists o, In (Fwd o) h /\ (above_evicted g w -> nth_free (jall g) o w).

Lemma Prov_step : forall h g e, Inv g -> Prov h g -> Prov (h ++ [e]) (gstep g e).
Proof.
  intros h g e HI HP. destruct e as [o| |o].
  - destruct (gstep_fwd g o HI) as (Hj & He & _ & Hs & _). intros w Hw. rewrite Hs in Hw. rewrite Hj.
    destruct Hw as [<-|Hw].
    + right. exists o. split; [apply in_or_app; right; left; reflexivity|].
      intros Ha. apply eff_refines; [exact HI|]. intros x Hx. apply Ha. rewrite He. exact Hx.
    + destruct (HP w Hw) as [L|(o' & Ho & Hn)]; [left; exact L|right].
      exists o'. split; [apply in_or_app; left; exact Ho|].
      intros Ha. apply Hn. intros x Hx. apply Ha. rewrite He. exact Hx.
  - destruct (gstep_inject g HI) as (Hj & _ & (ev & He) & Hs & _). intros w Hw. rewrite Hs in Hw. rewrite Hj.
    destruct Hw as [<-|Hw].
    + left. apply in_or_app. right. left. reflexivity.
    + destruct (HP w Hw) as [L|(o' & Ho & Hn)]; [left; apply in_or_app; left; exact L|right].
      exists o'. split; [apply in_or_app; left; exact Ho|].
      intros Ha. apply nth_free_ext.
      * intros x [<-|[]]. destruct HI as (_ & _ & _ & Hseen & _). specialize (Hseen w Hw). lia.
      * apply Hn. intros x Hx. apply Ha. rewrite He. apply in_or_app. left. exact Hx.
  - destruct (gstep_drop g o HI) as (Hj & He & _ & Hs & _). intros w Hw. rewrite Hs in Hw. rewrite Hj.
    destruct (HP w Hw) as [L|(o' & Ho & Hn)]; [left; exact L|right].
    exists o'. split; [apply in_or_app; left; exact Ho|].
    intros Ha. apply Hn. intros x Hx. apply Ha. rewrite He. exact Hx.
Qed.

Lemma Prov_run : forall p0 m h, Prov h (grun (ginit p0 m) h).
Proof.
  intros p0 m h. induction h as [|e h IH] using rev_ind.
  - intros w [].
  - unfold grun in *. rewrite fold_left_app. cbn [fold_left].
    apply Prov_step; auto. apply Inv_grun, Inv_init.
Qed.

(* a wire ID that was on the wire, is not injected and is above the forgotten injections
   translates back to an ID the endpoint really sent *)
Lemma orig_was_sent : forall p0 m h w a,
  let g := grun (ginit p0 m) h in
  In w (seen g) -> ~ In w (jall g) -> above_evicted g w -> orig (tr g) w = Some a ->
  In (Fwd a) h.
Proof.
  intros p0 m h w a g Hs Hn Ha Ho.
  assert (HI : Inv g) by (apply Inv_grun, Inv_init).
  destruct (Prov_run p0 m h w Hs) as [L|(o & Hin & Hf)]; [contradiction|].
  destruct (Hf Ha) as (_ & Hr).
  rewrite (orig_refines g HI w Hn Ha) in Ho. injection Ho as <-. fold g in Hr. rewrite Hr. exact Hin.
Qed.
