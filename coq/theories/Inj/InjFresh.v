(* Freshness of NEW packets, without the "above the aged-out injections" qualifier.

   A NEW packet is an endpoint ID [o] greater than every endpoint ID forwarded so far
   (and greater than the tracker's start value p0 = last_seen_id).  For such an ID the
   translation needs no qualifier at all, whatever the window size (0 included) and
   however many injections have aged out of the deque:

       eff st o = o + (number of injections ever made)  >  pbase st

   so the wire ID is above everything that was ever on the wire (forwarded or injected).

   Key invariant ([FInv]) over the ghost run: with M the largest endpoint ID forwarded
   so far (ghost, [hmax]; p0 when none) and J every ID ever injected,

       pbase st = M + |J|

   i.e. the highest wire ID seen is the highest endpoint ID shifted by the number of
   injections.  Inject adds one to both sides (when the deque is full the oldest
   injection moves from the window into the base count, |J| = ibase + |window| still
   grows by one); a new Fwd o > M moves pbase to eff st o = o + |J|; an old Fwd o <= M
   translates to at most pbase and changes nothing; Drop changes nothing.

   Model: Inj/InjTracker.v; general lemmas: Inj/InjTrackerProofs.v. *)
From Coq Require Import ZArith List Bool Lia.
From HV Require Import Inj.InjTracker Inj.InjTrackerProofs.
Import ListNotations.
Open Scope Z_scope.

(* ------------------------------------------------------------------ *)
(* ghost: highest endpoint ID forwarded so far (the start value when none) *)

Definition hstep (a : Z) (e : op) : Z :=
  match e with Fwd o => Z.max a o | _ => a end.

Definition hmax (p0 : Z) (h : list op) : Z := fold_left hstep h p0.

(* number of injections ever made *)
Definition njall (g : gstate) : Z := Z.of_nat (length (jall g)).

Lemma hmax_is_start_or_forwarded : forall h a,
  fold_left hstep h a = a \/ In (Fwd (fold_left hstep h a)) h.
Proof.
  induction h as [|e h IH]; intros a; cbn [fold_left]; [left; reflexivity|].
  destruct (IH (hstep a e)) as [Heq|Hin].
  - rewrite Heq. destruct e as [o| |o]; cbn [hstep]; try (left; reflexivity).
    destruct (Z.max_spec a o) as [(_ & Hm)|(_ & Hm)]; rewrite Hm.
    + right. left. reflexivity.
    + left. reflexivity.
  - right. right. exact Hin.
Qed.

Lemma hmax_lt : forall p0 h o,
  p0 < o -> (forall o', In (Fwd o') h -> o' < o) -> hmax p0 h < o.
Proof.
  intros p0 h o Hp Hall. unfold hmax.
  destruct (hmax_is_start_or_forwarded h p0) as [Heq|Hin].
  - rewrite Heq. exact Hp.
  - apply Hall. exact Hin.
Qed.

(* ------------------------------------------------------------------ *)
(* the invariant *)

Definition FInv (M : Z) (g : gstate) : Prop :=
  Inv g /\ pbase (tr g) = M + njall g.

Lemma FInv_init : forall p0 m, FInv p0 (ginit p0 m).
Proof.
  intros p0 m. split; [apply Inv_init|].
  unfold njall, jall, ginit, init. cbn. lia.
Qed.

Lemma njall_split : forall g, Inv g ->
  njall g = ibase (tr g) + Z.of_nat (length (inj (tr g))).
Proof.
  intros g (Hib & _). unfold njall, jall. rewrite app_length. lia.
Qed.

(* closed form of the translation of every ID above M: shift by the number of
   injections ever made *)
Lemma eff_above : forall g M o, FInv M g -> M < o -> eff (tr g) o = o + njall g.
Proof.
  intros g M o (HI & HM) Hlt.
  assert (Hs := Inv_sorted_inj g HI).
  assert (Hw := eff_window g HI o). cbn zeta in Hw.
  apply (nth_free_unique (inj (tr g)) (o + ibase (tr g))); [exact Hs|exact Hw|].
  assert (Hsplit := njall_split g HI).
  destruct HI as (_ & _ & Hj & _).
  assert (Hle : forall x, In x (inj (tr g)) -> x <= pbase (tr g)).
  { intros x Hx. apply Hj. unfold jall. apply in_or_app. right. exact Hx. }
  split.
  - intros Hi. specialize (Hle _ Hi). lia.
  - unfold rank. rewrite clt_all_lt.
    + lia.
    + intros x Hx. specialize (Hle x Hx). lia.
Qed.

(* the first ID above M translates to exactly pbase+1 *)
Lemma eff_next : forall g M, FInv M g -> eff (tr g) (M + 1) = pbase (tr g) + 1.
Proof.
  intros g M HF. rewrite (eff_above g M (M + 1) HF) by lia. destruct HF as (_ & HM). lia.
Qed.

(* IDs up to M translate to at most pbase *)
Lemma eff_old_le : forall g M o, FInv M g -> o <= M -> eff (tr g) o <= pbase (tr g).
Proof.
  intros g M o HF Hle.
  assert (Hn := eff_next g M HF). destruct HF as (HI & _).
  assert (Hlt : eff (tr g) o < eff (tr g) (M + 1)) by (apply (eff_strict_mono g HI); lia).
  lia.
Qed.

Lemma FInv_gstep : forall M g e, FInv M g -> FInv (hstep M e) (gstep g e).
Proof.
  intros M g e HF. assert (HF0 := HF). destruct HF as (HI & HM).
  destruct e as [o| |o]; cbn [hstep].
  - destruct (gstep_fwd g o HI) as (Hj & _ & Hp & _ & _ & _ & _ & HI').
    split; [exact HI'|]. unfold njall in *. rewrite Hj, Hp.
    destruct (Z_le_gt_dec o M) as [Hle|Hgt].
    + assert (H := eff_old_le g M o HF0 Hle). lia.
    + assert (H := eff_above g M o HF0 ltac:(lia)). unfold njall in H. lia.
  - destruct (gstep_inject g HI) as (Hj & Hp & _ & _ & _ & _ & HI').
    split; [exact HI'|]. unfold njall in *. rewrite Hj, Hp, app_length. cbn [length]. lia.
  - destruct (gstep_drop g o HI) as (Hj & _ & Hp & _ & _ & _ & _ & HI').
    split; [exact HI'|]. unfold njall in *. rewrite Hj, Hp. exact HM.
Qed.

Lemma FInv_grun : forall h M g, FInv M g -> FInv (fold_left hstep h M) (grun g h).
Proof.
  unfold grun. induction h as [|e h IH]; intros M g HF; cbn [fold_left]; [exact HF|].
  apply IH, FInv_gstep, HF.
Qed.

Lemma FInv_reach : forall p0 m h, FInv (hmax p0 h) (grun (ginit p0 m) h).
Proof. intros p0 m h. apply FInv_grun, FInv_init. Qed.

(* ------------------------------------------------------------------ *)
(* every wire ID a packet was given when it was forwarded stays in [seen] *)

Lemma forwarded_wire_seen : forall g h1 o1 h2, Inv g ->
  In (eff (tr (grun g h1)) o1) (seen (grun g (h1 ++ Fwd o1 :: h2))).
Proof.
  intros g h1 o1 h2 HI.
  assert (HI1 : Inv (grun g h1)) by (apply Inv_grun; exact HI).
  unfold grun at 2. rewrite fold_left_app. cbn [fold_left].
  fold (grun g h1). fold (grun (gstep (grun g h1) (Fwd o1)) h2).
  destruct (gstep_fwd (grun g h1) o1 HI1) as (_ & _ & _ & Hs & _ & _ & _ & HI2).
  destruct (grun_ext h2 _ HI2) as (_ & _ & _ & (s & Hs2)).
  rewrite Hs2, Hs. apply in_or_app. right. left. reflexivity.
Qed.

(* ------------------------------------------------------------------ *)
(* the theorem *)

Lemma new_packet_fresh : forall p0 m h o,
  let g := grun (ginit p0 m) h in
  p0 < o ->
  (forall o', In (Fwd o') h -> o' < o) ->
  let w := eff (tr g) o in
  w = o + njall g /\
  pbase (tr g) < w /\
  ~ In w (jall g) /\
  ~ In w (seen g) /\
  above_evicted g w /\
  (forall h1 o1 h2, h = h1 ++ Fwd o1 :: h2 -> eff (tr (grun (ginit p0 m) h1)) o1 < w).
Proof.
  intros p0 m h o g Hp Hall w.
  assert (HF : FInv (hmax p0 h) g) by apply FInv_reach.
  assert (HM : hmax p0 h < o) by (apply hmax_lt; assumption).
  assert (Hw : w = o + njall g) by (apply (eff_above g (hmax p0 h) o HF HM)).
  destruct HF as (HI & HP).
  assert (Hgt : pbase (tr g) < w) by lia.
  destruct HI as (_ & _ & Hj & Hseen & _).
  split; [exact Hw|]. split; [exact Hgt|].
  split; [intros Hi; specialize (Hj _ Hi); lia|].
  split; [intros Hi; specialize (Hseen _ Hi); lia|].
  split.
  - intros x Hx. assert (x <= pbase (tr g)) by (apply Hj; unfold jall; apply in_or_app; left; exact Hx). lia.
  - intros h1 o1 h2 ->.
    assert (Hin := forwarded_wire_seen (ginit p0 m) h1 o1 h2 (Inv_init p0 m)).
    fold g in Hin. specialize (Hseen _ Hin). lia.
Qed.

(* the start-value hypothesis cannot be dropped: an ID at or below last_seen_id can be
   translated onto an injected ID (window 0: every injection is forgotten at once) *)
Lemma new_packet_needs_start_bound :
  exists p0 m h o,
    let g := grun (ginit p0 m) h in
    (forall o', In (Fwd o') h -> o' < o) /\ ~ p0 < o /\ In (eff (tr g) o) (jall g).
Proof.
  exists 0, 0%nat, [Inject], 0. cbn zeta. split; [|split].
  - intros o' [H|[]]. discriminate.
  - lia.
  - vm_compute. left. reflexivity.
Qed.

(* hence, for a new packet, the refinement of the abstract order isomorphism holds with no
   qualifier: its wire ID is THE o-th integer outside the set of ALL IDs ever injected, the
   value of the specification function E, and translates back to o *)
Lemma new_packet_refines : forall p0 m h o,
  let g := grun (ginit p0 m) h in
  p0 < o ->
  (forall o', In (Fwd o') h -> o' < o) ->
  nth_free (jall g) o (eff (tr g) o) /\
  eff (tr g) o = E (jall g) o /\
  orig (tr g) (eff (tr g) o) = Some o.
Proof.
  intros p0 m h o g Hp Hall.
  assert (HI : Inv g) by (apply Inv_grun, Inv_init).
  destruct (new_packet_fresh p0 m h o Hp Hall) as (_ & _ & _ & _ & Ha & _). fold g in Ha.
  split; [exact (eff_refines g HI o Ha)|].
  split; [exact (eff_refines_E g HI o Ha)|].
  exact (orig_eff g HI o).
Qed.

(* the invariant itself, for every reachable state *)
Lemma pbase_is_hmax_plus_injections : forall p0 m h,
  let g := grun (ginit p0 m) h in
  pbase (tr g) = hmax p0 h + Z.of_nat (length (jall g)) /\
  eff (tr g) (hmax p0 h + 1) = pbase (tr g) + 1.
Proof.
  intros p0 m h g. assert (HF := FInv_reach p0 m h). fold g in HF.
  split; [exact (proj2 HF)|exact (eff_next g _ HF)].
Qed.
