(* Model of hippolyzer/lib/proxy/circuit.py : InjectionTracker
   (definitions only; proofs are in InjTrackerProofs.v).

   Packet IDs are Python ints (unbounded; the class explicitly does not deal
   with wrap-around), modelled as [Z].  The two [deque(maxlen=...)] objects
   are lists, oldest element first.  [ValueError] is [None].
   Logging calls have no effect on state and are omitted. *)
From Coq Require Import ZArith List Bool.
Import ListNotations.
Open Scope Z_scope.

Record tracker := mkT {
  pbase   : Z;          (* _packet_id_base : highest wire ID seen *)
  ibase   : Z;          (* _injection_base : injections that fell out of the window *)
  inj     : list Z;     (* injections : deque, oldest first *)
  dropped : list Z;     (* dropped : deque, oldest first *)
  maxlen  : nat         (* _maxlen (also the maxlen of both deques) *)
}.

(* InjectionTracker(last_seen_id, maxlen) *)
Definition init (p0 : Z) (m : nat) : tracker := mkT p0 0 [] [] m.

(* x in deque *)
Definition memz (x : Z) (l : list Z) : bool := existsb (Z.eqb x) l.

(* deque(maxlen=m).append(x): append on the right, discard from the left
   whatever exceeds m (for m = 0 the element itself is discarded) *)
Definition push (m : nat) (l : list Z) (x : Z) : list Z :=
  let l' := l ++ [x] in skipn (length l' - m) l'.

(* track_seen *)
Definition track_seen (st : tracker) (w : Z) : tracker :=
  if w >? pbase st
  then mkT w (ibase st) (inj st) (dropped st) (maxlen st)
  else st.

(* gen_injectable_id *)
Definition gen (st : tracker) : tracker * Z :=
  let new_id := pbase st + 1 in
  let ib := if Nat.eqb (length (inj st)) (maxlen st) then ibase st + 1 else ibase st in
  let st1 := mkT (pbase st) ib (push (maxlen st) (inj st) new_id) (dropped st) (maxlen st) in
  (track_seen st1 new_id, new_id).

Definition was_injected (st : tracker) (w : Z) : bool := memz w (inj st).
Definition was_dropped (st : tracker) (o : Z) : bool := memz o (dropped st).

(* get_effective_id:
     new_id = orig_id + base
     for packet_id in injections:
         if new_id < packet_id and new_id not in injections: break
         new_id += 1                                                       *)
Fixpoint eff_loop (all : list Z) (l : list Z) (n : Z) : Z :=
  match l with
  | [] => n
  | p :: t => if (n <? p) && negb (memz n all) then n else eff_loop all t (n + 1)
  end.

Definition eff (st : tracker) (o : Z) : Z :=
  eff_loop (inj st) (inj st) (o + ibase st).

(* get_original_id:
     if effective_id in injections: raise ValueError
     new_id = effective_id
     for packet_id in reversed(injections):
         if packet_id > new_id: continue
         new_id -= 1
     new_id -= base                                                        *)
Fixpoint orig_loop (l : list Z) (n : Z) : Z :=
  match l with
  | [] => n
  | p :: t => if p >? n then orig_loop t n else orig_loop t (n - 1)
  end.

Definition orig (st : tracker) (w : Z) : option Z :=
  if memz w (inj st) then None
  else Some (orig_loop (rev (inj st)) w - ibase st).

(* mark_dropped *)
Definition mark_dropped (st : tracker) (o : Z) : tracker :=
  if memz o (dropped st) then st
  else mkT (pbase st) (ibase st) (inj st) (push (maxlen st) (dropped st) o) (maxlen st).

(* what ProxiedCircuit.prepare_message does with a forwarded packet's ID *)
Definition fwd (st : tracker) (o : Z) : tracker * Z :=
  let w := eff st o in (track_seen st w, w).

(* ---- histories ---- *)
Inductive op :=
| Fwd (o : Z)     (* endpoint's packet with its own ID o is forwarded (new, old, resend) *)
| Inject          (* proxy injects a packet in this direction *)
| Drop (o : Z).   (* proxy drops the endpoint's packet o (mark_dropped) *)

(* one step; the Z is the wire ID produced (0 for Drop) *)
Definition step_out (st : tracker) (e : op) : tracker * Z :=
  match e with
  | Fwd o => fwd st o
  | Inject => gen st
  | Drop o => (mark_dropped st o, 0)
  end.

Definition step (st : tracker) (e : op) : tracker := fst (step_out st e).
Definition run (st : tracker) (h : list op) : tracker := fold_left step h st.

(* outputs of a history, oldest first (used by the extracted driver) *)
Fixpoint run_outs (st : tracker) (h : list op) : tracker * list Z :=
  match h with
  | [] => (st, [])
  | e :: t => let '(st1, w) := step_out st e in
              let '(st2, ws) := run_outs st1 t in (st2, w :: ws)
  end.

(* ---- specification side ---- *)

(* number of elements of l below w *)
Definition clt (l : list Z) (w : Z) : Z :=
  Z.of_nat (length (filter (fun j => j <? w) l)).

(* rank of w among the integers not in J: with J a duplicate-free set of
   positive IDs and w > 0 not in J this is |{1..w} \ J|, i.e. w is the
   (rank J w)-th positive integer not in J *)
Definition rank (J : list Z) (w : Z) : Z := w - clt J w.

(* w is the o-th ID not in J : the abstract order isomorphism Z\J <- Z *)
Definition nth_free (J : list Z) (o w : Z) : Prop := ~ In w J /\ rank J w = o.

(* functional form, for J strictly increasing *)
Fixpoint E (J : list Z) (n : Z) : Z :=
  match J with
  | [] => n
  | p :: t => if n <? p then n else E t (n + 1)
  end.

(* ---- ghost state: the tracker plus what it has forgotten ---- *)
Record gstate := mkG {
  tr      : tracker;
  evicted : list Z;     (* injected IDs that have aged out of the window, oldest first *)
  seen    : list Z      (* every wire ID put on the wire so far (forwarded or injected), newest first *)
}.

Definition ginit (p0 : Z) (m : nat) : gstate := mkG (init p0 m) [] [].

(* every ID ever injected, oldest first *)
Definition jall (g : gstate) : list Z := evicted g ++ inj (tr g).

Definition gstep (g : gstate) (e : op) : gstate :=
  let st := tr g in
  match e with
  | Fwd o => let '(st', w) := fwd st o in mkG st' (evicted g) (w :: seen g)
  | Inject =>
      let '(st', id) := gen st in
      let ev := if Nat.eqb (length (inj st)) (maxlen st)
                then firstn 1 (inj st ++ [id]) else [] in
      mkG st' (evicted g ++ ev) (id :: seen g)
  | Drop o => mkG (mark_dropped st o) (evicted g) (seen g)
  end.

Definition grun (g : gstate) (h : list op) : gstate := fold_left gstep h g.

(* w is newer than every injection the tracker has forgotten *)
Definition above_evicted (g : gstate) (w : Z) : Prop :=
  forall x, In x (evicted g) -> x < w.

Definition above_evictedb (g : gstate) (w : Z) : bool :=
  forallb (fun x => x <? w) (evicted g).
