(* The str / bytes guessing of _parse_var never changes what is re-encoded:
   _pack_string of the presented value is the payload that was read. *)
From Coq Require Import Arith NArith List Bool Lia.
From HV Require Import Base.Bytes Tmpl.Template Tmpl.Codec.
Import ListNotations.
Open Scope N_scope.

Lemma rstrip0_app0 : forall l, rstrip0 (l ++ [0]) = rstrip0 l.
Proof.
  induction l as [|x r IH]; [reflexivity|].
  cbn [app rstrip0]. now rewrite IH.
Qed.

Lemma rstrip0_nz : forall l, ends_nul l = false -> rstrip0 l = l.
Proof.
  induction l as [|x r IH]; intros H; [reflexivity|].
  destruct r as [|y r'].
  - cbn in H. cbn. now rewrite H.
  - assert (Hr : ends_nul (y :: r') = false) by exact H.
    specialize (IH Hr). cbn [rstrip0] in *. now rewrite IH.
Qed.

Lemma ends_nul_snoc : forall l, l <> [] -> ends_nul l = true -> l = removelast l ++ [0].
Proof.
  intros l Hne H. rewrite (app_removelast_last 1 Hne) at 1.
  destruct l; [congruence|]. unfold ends_nul in H. apply N.eqb_eq in H. now rewrite H.
Qed.

Lemma rstrip0_snoc0 : forall l, ends_nul l = true -> ends_2nul l = false -> rstrip0 l ++ [0] = l.
Proof.
  intros l H1 H2.
  assert (Hne : l <> []) by (intros ->; discriminate).
  pose proof (ends_nul_snoc l Hne H1) as E.
  unfold ends_2nul in H2. rewrite H1 in H2. cbn [andb] in H2.
  rewrite E at 1. rewrite rstrip0_app0, (rstrip0_nz _ H2). now rewrite <- E.
Qed.

Theorem pack_view_present : forall valid tv l, pack_view (present valid tv l) = l.
Proof.
  intros valid tv l. unfold present.
  destruct (vbin tv); [reflexivity|].
  destruct (vtext tv); [|reflexivity].
  destruct (ends_nul l) eqn:E1; [|reflexivity].
  destruct (ends_2nul l) eqn:E2; [reflexivity|].
  destruct (valid l); [|reflexivity].
  cbn. now apply rstrip0_snoc0.
Qed.
