(* C02: re-encoding what was received.
   - a datagram whose body was never parsed re-encodes to itself (any accepted datagram);
   - a failed body parse leaves the message, hence the re-encoding, unchanged;
   - any interleaving of header reads and block accesses ends in one of two states;
   - a parsed body re-encodes to itself when the zero-coding is canonical, the body was
     consumed exactly and no signalling NaN was met (inverse direction of C01's lemmas). *)
From Coq Require Import Arith NArith ZArith Ascii List Bool Lia ZifyBool ZifyNat ZifyN.
From HV Require Import Base.Bytes ZC.ZeroCode ZC.ZeroCodeProofs Tmpl.Template Tmpl.TemplateProofs Tmpl.Codec Tmpl.CodecProofs.
Import ListNotations.
Open Scope N_scope.

(* ---------- list helpers ---------- *)

Lemma last_app_ne {A} (a b : list A) d : b <> [] -> last (a ++ b) d = last b d.
Proof.
  induction a as [|x a IH]; intros H; [reflexivity|].
  cbn [app]. specialize (IH H). destruct (a ++ b) eqn:E.
  - apply app_eq_nil in E as [_ E]. contradiction.
  - cbn [last]. exact IH.
Qed.

Lemma tail_shape {A} : forall k (l : list A) d, length l = S k -> l = firstn k l ++ [last l d].
Proof.
  induction k as [|k IH]; intros l d H.
  - destruct l as [|x [|y r]]; try discriminate. reflexivity.
  - destruct l as [|x r]; [discriminate|]. cbn in H. injection H as H.
    cbn [firstn app]. destruct r as [|y r']; [discriminate|].
    change (last (x :: y :: r') d) with (last (y :: r') d). now rewrite <- (IH (y :: r') d H).
Qed.

Lemma last_ok l : bytes_okb l = true -> last l 0 < 256.
Proof.
  induction l as [|x r IH]; intros H; [cbn; lia|].
  rewrite bytes_okb_cons in H. apply andb_prop in H as [Hx Hr].
  destruct r; [cbn; lia|]. exact (IH Hr).
Qed.

Lemma of_be4_bound a b c d : bytes_okb [a; b; c; d] = true -> of_be [a; b; c; d] < 4294967296.
Proof.
  intros H. unfold of_be. pose proof (of_le_bound (rev [a; b; c; d])) as B.
  rewrite bytes_okb_rev in B. specialize (B H). exact B.
Qed.

Lemma find_name_exists d t : In t d -> exists t', find_name d (mname t) = Some t'.
Proof.
  unfold find_name. induction d as [|x r IH]; intros H; [contradiction|].
  cbn [find]. destruct (ident_eqb (mname x) (mname t)) eqn:E; [eauto|].
  destruct H as [->|H]; [now rewrite ident_eqb_refl in E | now apply IH].
Qed.

(* ---------- ack trailer, read direction ---------- *)

Lemma chunks4_inv : forall n tb, bytes_okb tb = true -> (4 * n <= length tb)%nat ->
  ser_ack_list (chunks4 n tb) = Some (firstn (4 * n) tb) /\ length (chunks4 n tb) = n.
Proof.
  induction n as [|n IH]; intros tb Hb Hl; [split; reflexivity|].
  destruct tb as [|a [|b [|c [|d r]]]]; cbn [length] in Hl; try lia.
  replace (4 * S n)%nat with (S (S (S (S (4 * n))))) by lia.
  cbn [chunks4 firstn skipn].
  assert (Hb4 : bytes_okb [a; b; c; d] = true).
  { rewrite !bytes_okb_cons in *. cbn [bytes_okb forallb]. lia. }
  assert (Hbr : bytes_okb r = true) by (rewrite !bytes_okb_cons in Hb; lia).
  destruct (IH r Hbr ltac:(lia)) as [E L].
  cbn [ser_ack_list length]. rewrite E, L.
  pose proof (of_be4_bound a b c d Hb4) as Bd. change (2 ^ 32) with 4294967296.
  replace (of_be [a; b; c; d] <? 4294967296) with true by lia.
  rewrite (be_bytes_of_be [a; b; c; d] Hb4 : be_bytes 4 (of_be [a; b; c; d]) = [a; b; c; d]).
  split; reflexivity.
Qed.

Lemma split_acks_inv rest acks bodyb : bytes_okb rest = true -> split_acks rest = Some (acks, bodyb) ->
  exists tail, ser_acks acks = Some tail /\ rest = bodyb ++ tail /\ bodyb <> [].
Proof.
  intros Hb H. unfold split_acks in H.
  set (n := N.to_nat (last rest 0)) in *.
  destruct (length rest <=? 1 + 4 * n)%nat eqn:El; [discriminate|].
  set (blen := (length rest - 1 - 4 * n)%nat) in *.
  set (tb := skipn blen rest) in *.
  assert (Ha : acks = rev (chunks4 n tb)) by congruence.
  assert (Hbd : bodyb = firstn blen rest) by congruence.
  subst acks bodyb. clear H.
  assert (Hlen : length tb = S (4 * n)) by (unfold tb; rewrite skipn_length; lia).
  assert (Htb : bytes_okb tb = true) by (apply bytes_okb_skipn, Hb).
  destruct (chunks4_inv n tb Htb ltac:(lia)) as [E L].
  assert (Hne : tb <> []) by (destruct tb; [discriminate | discriminate]).
  assert (Hlast : last tb 0 = last rest 0).
  { transitivity (last (firstn blen rest ++ tb) 0); [now rewrite last_app_ne|].
    unfold tb. now rewrite firstn_skipn. }
  pose proof (last_ok rest Hb) as Hn.
  exists (firstn (4 * n) tb ++ [N.of_nat n]). split; [|split].
  3: { apply nonempty_len. rewrite firstn_length. unfold blen. lia. }
  - unfold ser_acks. rewrite rev_involutive, E, rev_length, L.
    replace (n <? 256)%nat with true by lia. reflexivity.
  - transitivity (firstn blen rest ++ tb); [unfold tb; now rewrite firstn_skipn|]. f_equal.
    rewrite (tail_shape (4 * n) tb 0 Hlen) at 1. rewrite Hlast. unfold n. now rewrite N2Nat.id.
Qed.

(* ---------- never parsed ---------- *)

Lemma parse_header_inv d b m : parse_header d b = Some m ->
  exists fl p3 p2 p1 p0 off rest,
    b = fl :: p3 :: p2 :: p1 :: p0 :: off :: rest /\ rest <> [] /\
    header_tail d fl p3 p2 p1 p0 off rest = Some m.
Proof.
  intros H. destruct b as [|fl [|p3 [|p2 [|p1 [|p0 [|off rest]]]]]]; try discriminate.
  destruct rest as [|x r]; [discriminate|].
  exists fl, p3, p2, p1, p0, off, (x :: r). repeat split; [discriminate | exact H].
Qed.

Theorem raw_passthrough d b m : bytes_okb b = true -> parse_header d b = Some m ->
  serialize d m = Some b.
Proof.
  intros Hb H. destruct (parse_header_inv d b m H) as (fl & p3 & p2 & p1 & p0 & off & rest & -> & Hne & Ht).
  unfold header_tail in Ht.
  rewrite !bytes_okb_cons in Hb.
  assert (Hfl : fl < 256) by lia. assert (Hoff : off < 256) by lia.
  assert (Hb4 : bytes_okb [p3; p2; p1; p0] = true) by (cbn [bytes_okb forallb]; lia).
  assert (Hrest : bytes_okb rest = true) by lia. clear Hb.
  destruct (if has_acks fl then split_acks rest else Some ([], rest)) as [[acks bodyb]|] eqn:Ea; [|discriminate].
  destruct (if zerocoded fl then zc_expand (firstn (10 + 2 * N.to_nat off) bodyb) else Some rest) as [hdr|]; [|discriminate].
  destruct (parse_msg_num hdr) as [[[f n] after]|]; [|discriminate].
  destruct (find_pair d f n) as [t|] eqn:Ft; [|discriminate].
  destruct (takeN off after) as [[extra x]|] eqn:Ex; [|discriminate].
  injection Ht as <-.
  apply find_pair_some in Ft as (Hin & _ & _).
  destruct (find_name_exists d t Hin) as [t' Ft'].
  apply takeN_some in Ex as [_ Ex].
  assert (Htail : exists tail, (if has_acks fl then ser_acks acks else Some []) = Some tail /\ rest = bodyb ++ tail).
  { destruct (has_acks fl).
    - destruct (split_acks_inv rest acks bodyb Hrest Ea) as (tail & E1 & E2 & _). eauto.
    - injection Ea as <- <-. exists []. now rewrite app_nil_r. }
  destruct Htail as (tail & Et & ->).
  unfold serialize. cbn [m_name m_flags m_pid m_extra m_acks m_raw m_body pid_or_0]. rewrite Ft'.
  pose proof (of_be4_bound _ _ _ _ Hb4) as Hp. change (2 ^ 32) with 4294967296.
  replace ((256 <=? fl) || (4294967296 <=? of_be [p3; p2; p1; p0]) || (256 <=? length extra)%nat) with false
    by (clear - Hfl Hp Hoff Ex; lia).
  rewrite Et, Ex.
  rewrite (be_bytes_of_be [p3; p2; p1; p0] Hb4 : be_bytes 4 (of_be [p3; p2; p1; p0]) = [p3; p2; p1; p0]).
  reflexivity.
Qed.

(* ---------- the lazy-parse state machine ---------- *)

Lemma parse_body_parsed d m m' : parse_body d m = Some m' -> m_raw m <> None -> m_raw m <> Some [] -> m_raw m' = None.
Proof.
  unfold parse_body, parse_body_rest, parse_body_rest_q. intros H N1 N2.
  destruct (m_raw m) as [[|x raw]|]; try congruence.
  destruct (if zerocoded (m_flags m) then zc_expand (x :: raw) else Some (x :: raw)); [|discriminate].
  destruct (find_name d (m_name m)); [|discriminate].
  destruct (rd _ _) as [[? ?]|]; [|discriminate].
  destruct (parse_blocks _ _ _) as [[? ?]|]; [|discriminate].
  destruct (_ && _); [discriminate|]. injection H as <-. reflexivity.
Qed.

Lemma ensure_parsed_done d m : m_raw m = None -> ensure_parsed d m = m.
Proof. unfold ensure_parsed. now intros ->. Qed.

Lemma ensure_parsed_failed d m : parse_body d m = None -> ensure_parsed d m = m.
Proof. unfold ensure_parsed. intros ->. destruct (m_raw m) as [[|]|]; reflexivity. Qed.

Lemma ensure_parsed_idem d m : ensure_parsed d (ensure_parsed d m) = ensure_parsed d m.
Proof.
  destruct (m_raw m) as [[|x raw]|] eqn:Er.
  - assert (E : ensure_parsed d m = m) by (unfold ensure_parsed; now rewrite Er). now rewrite !E.
  - destruct (parse_body d m) as [m'|] eqn:Ep.
    + assert (E : ensure_parsed d m = m') by (unfold ensure_parsed; now rewrite Er, Ep). rewrite E.
      apply ensure_parsed_done. apply (parse_body_parsed d m m' Ep); rewrite Er; discriminate.
    + assert (E : ensure_parsed d m = m) by (now apply ensure_parsed_failed). now rewrite !E.
  - assert (E : ensure_parsed d m = m) by (unfold ensure_parsed; now rewrite Er). now rewrite !E.
Qed.

Definition touches_body (ops : list lop) : bool :=
  existsb (fun o => match o with OpBody => true | OpHeader => false end) ops.

(* whatever the order and number of accesses: the message is either as received or parsed once *)
Theorem lrun_two_states d m ops :
  lrun d m ops = (if touches_body ops then ensure_parsed d m else m).
Proof.
  unfold lrun. revert m. induction ops as [|o ops IH]; intros m; [reflexivity|].
  cbn [fold_left touches_body existsb]. rewrite IH. destruct o; cbn [lstep orb].
  - reflexivity.
  - destruct (touches_body ops); [apply ensure_parsed_idem | reflexivity].
Qed.

(* ---------- parsed: the read direction of every codec layer ---------- *)

Lemma bytes_okb_app_r a b : bytes_okb (a ++ b) = true -> bytes_okb b = true.
Proof. rewrite bytes_okb_app. intros H. now apply andb_prop in H as [_ H]. Qed.

Lemma bytes_okb_app_l a b : bytes_okb (a ++ b) = true -> bytes_okb a = true.
Proof. rewrite bytes_okb_app. intros H. now apply andb_prop in H as [H _]. Qed.

Lemma range_srangeb k z : signed_range k z -> srangeb k z = true.
Proof. unfold srangeb, signed_range. lia. Qed.

(* [q] = false: the decoder without NaN quieting *)
Lemma pack_parse_var tv buf v r : wf_var tv = true -> bytes_okb buf = true ->
  parse_var false tv buf = Some (v, r) ->
  exists bs, pack_var tv v = Some bs /\ buf = bs ++ r.
Proof.
  intros Hwf Hb H. pose proof (wf_var_class tv Hwf) as Hc.
  unfold pack_var, parse_var, pack_val, unpack_val in *. rewrite varlen_class in *.
  destruct (classify (vty tv)) as [k|k|k|k|c| |] eqn:Ec.
  1-6: destruct (takeN (N.of_nat (vsize tv)) buf) as [[pl r']|] eqn:Et; [|discriminate];
       apply takeN_some in Et as [-> El]; apply Nat2N.inj in El;
       pose proof (bytes_okb_app_l _ _ Hb) as Hpl.
  - destruct Hc as [Hs Hk]. rewrite <- Hs, El, Nat.eqb_refl in *. injection H as <- <-.
    pose proof (of_le_bound pl Hpl) as Bd. rewrite El in Bd.
    replace (of_le pl <? 256 ^ N.of_nat (vsize tv)) with true by lia.
    rewrite <- El. rewrite le_bytes_of_le by exact Hpl. eauto.
  - destruct Hc as [Hs Hk]. rewrite <- Hs, El, Nat.eqb_refl in *. injection H as <- <-.
    pose proof (of_le_bound (rev pl)) as Bd. rewrite bytes_okb_rev, rev_length, El in Bd. specialize (Bd Hpl).
    fold (of_be pl) in Bd.
    replace (of_be pl <? 256 ^ N.of_nat (vsize tv)) with true by lia.
    rewrite <- El. rewrite be_bytes_of_be by exact Hpl. eauto.
  - destruct Hc as [Hs Hk]. rewrite <- Hs, El, Nat.eqb_refl in *. injection H as <- <-.
    pose proof (of_le_bound pl Hpl) as Bd. rewrite El in Bd.
    rewrite (range_srangeb _ _ (to_signed_range (vsize tv) (of_le pl) Hk Bd)).
    rewrite of_to_signed by assumption.
    rewrite <- El. rewrite le_bytes_of_le by exact Hpl. eauto.
  - destruct Hc as [Hs Hk]. rewrite <- Hs, El, Nat.eqb_refl in *. injection H as <- <-.
    rewrite El, Nat.eqb_refl. eauto.
  - destruct Hc as [Hs Hk]. rewrite <- Hs, El, Nat.eqb_refl in *. injection H as <- <-.
    rewrite El, Nat.eqb_refl. eauto.
  - injection H as <- <-. eauto.
  - destruct (rd (vsize tv) buf) as [[p r1]|] eqn:Et; [|discriminate].
    apply rd_some in Et as [-> Elp].
    destruct (takeN (of_le p) r1) as [[pl r']|] eqn:Et2; [|discriminate].
    apply takeN_some in Et2 as [-> El]. injection H as <- <-.
    pose proof (bytes_okb_app_l _ _ Hb) as Hp.
    pose proof (of_le_bound p Hp) as Bd. rewrite Elp in Bd.
    rewrite El. replace (of_le p <? 256 ^ N.of_nat (vsize tv)) with true by lia.
    rewrite <- Elp. rewrite le_bytes_of_le by exact Hp.
    eexists. split; [reflexivity|]. now rewrite app_assoc.
Qed.

Lemma ser_vars_skip : forall tvs fill k v vs, ~ In k (map vname tvs) ->
  ser_vars tvs {| b_fill := fill; b_vars := (k, v) :: vs |} = ser_vars tvs {| b_fill := fill; b_vars := vs |}.
Proof.
  induction tvs as [|tv r IH]; intros fill k v vs H; [reflexivity|].
  cbn [ser_vars b_vars b_fill lookup map] in *.
  rewrite ident_eqb_neq by (intros E; apply H; now left).
  rewrite IH by (intros Hin; apply H; now right). reflexivity.
Qed.

Lemma pack_parse_vars : forall tvs buf vs r fill,
  uniqb ident_eqb (map vname tvs) = true -> forallb wf_var tvs = true -> bytes_okb buf = true ->
  parse_vars false tvs buf = Some (vs, r) ->
  exists bs, ser_vars tvs {| b_fill := fill; b_vars := vs |} = Some bs /\ buf = bs ++ r.
Proof.
  induction tvs as [|tv tvs IH]; intros buf vs r fill Hu Hwf Hb H.
  - cbn in H. injection H as <- <-. now exists [].
  - cbn [parse_vars] in H. cbn [forallb] in Hwf. apply andb_prop in Hwf as [Hw1 Hw2].
    destruct (parse_var false tv buf) as [[v buf1]|] eqn:Ev; [|discriminate].
    destruct (parse_vars false tvs buf1) as [[vs' buf2]|] eqn:Evs; [|discriminate].
    injection H as <- <-.
    destruct (pack_parse_var tv buf v buf1 Hw1 Hb Ev) as (x & Ex & ->).
    pose proof (uniqb_notin _ _ Hu) as Hn. cbn [map] in Hu.
    destruct (IH buf1 vs' buf2 fill (uniqb_tail _ _ _ _ Hu) Hw2 (bytes_okb_app_r _ _ Hb) Evs) as (y & Ey & ->).
    exists (x ++ y). split; [|now rewrite app_assoc].
    cbn [ser_vars b_vars b_fill lookup]. rewrite ident_eqb_refl. cbn [ser_var]. rewrite Ex.
    rewrite ser_vars_skip by exact Hn. now rewrite Ey.
Qed.

Lemma pack_parse_insts : forall n tvs buf l r,
  uniqb ident_eqb (map vname tvs) = true -> forallb wf_var tvs = true -> bytes_okb buf = true ->
  parse_insts false tvs n buf = Some (l, r) ->
  exists bs, ser_insts tvs l = Some bs /\ buf = bs ++ r /\ length l = n.
Proof.
  induction n as [|n IH]; intros tvs buf l r Hu Hwf Hb H.
  - cbn in H. injection H as <- <-. now exists [].
  - cbn [parse_insts] in H.
    destruct (parse_vars false tvs buf) as [[vs buf1]|] eqn:Ev; [|discriminate].
    destruct (parse_insts false tvs n buf1) as [[bs' buf2]|] eqn:Ei; [|discriminate].
    injection H as <- <-.
    destruct (pack_parse_vars tvs buf vs buf1 false Hu Hwf Hb Ev) as (x & Ex & ->).
    destruct (IH tvs buf1 bs' buf2 Hu Hwf (bytes_okb_app_r _ _ Hb) Ei) as (y & Ey & -> & L).
    exists (x ++ y). cbn [ser_insts length]. rewrite Ex, Ey, L. repeat split. now rewrite app_assoc.
Qed.

Lemma pack_parse_block tb buf l r : wf_block tb = true -> bytes_okb buf = true ->
  parse_block false tb buf = Some (l, r) ->
  exists bs, ser_block tb l = Some bs /\ buf = bs ++ r.
Proof.
  intros Hwf Hb H. apply wf_block_parts in Hwf as (_ & Hwv & Hu & _).
  unfold parse_block, ser_block in *. destruct (bkind_of tb) as [|n|].
  - destruct (pack_parse_insts 1 _ buf l r Hu Hwv Hb H) as (x & Ex & -> & _). eauto.
  - destruct (pack_parse_insts n _ buf l r Hu Hwv Hb H) as (x & Ex & -> & L).
    rewrite L, Nat.eqb_refl. eauto.
  - destruct buf as [|c buf1]; [discriminate|].
    rewrite bytes_okb_cons in Hb. apply andb_prop in Hb as [Hc Hb1].
    destruct (pack_parse_insts (N.to_nat c) _ buf1 l r Hu Hwv Hb1 H) as (x & Ex & -> & L).
    rewrite L, Ex. replace (N.to_nat c <? 256)%nat with true by lia. rewrite N2Nat.id. eauto.
Qed.

Lemma ser_blocks_skip : forall tbs k v bd ms, ~ In k (map bname tbs) ->
  ser_blocks tbs ((k, v) :: bd) ms = ser_blocks tbs bd ms.
Proof.
  induction tbs as [|tb r IH]; intros k v bd ms H; [reflexivity|].
  cbn [ser_blocks lookup map] in *.
  rewrite ident_eqb_neq by (intros E; apply H; now left).
  assert (Hr : ~ In k (map bname r)) by (intros Hin; apply H; now right).
  destruct (lookup (bname tb) bd); rewrite !IH by exact Hr; reflexivity.
Qed.

Lemma ser_blocks_nil : forall tbs ms, ser_blocks tbs [] ms = Some [].
Proof. induction tbs as [|tb r IH]; intros ms; [reflexivity|]. cbn. apply IH. Qed.

Lemma no_unknown_weaken tb r bd : no_unknown_blocks r bd = true -> no_unknown_blocks (tb :: r) bd = true.
Proof.
  unfold no_unknown_blocks. rewrite !forallb_forall. intros H x Hx. specialize (H x Hx).
  cbn [map existsb]. rewrite H. apply orb_true_r.
Qed.

Lemma pack_parse_blocks : forall tbs buf bd rest,
  uniqb ident_eqb (map bname tbs) = true -> forallb wf_block tbs = true -> bytes_okb buf = true ->
  parse_blocks false tbs buf = Some (bd, rest) ->
  exists bs, ser_blocks tbs bd false = Some bs /\ buf = bs ++ rest /\ no_unknown_blocks tbs bd = true.
Proof.
  induction tbs as [|tb r IH]; intros buf bd rest Hu Hwf Hb H.
  - cbn in H. injection H as <- <-. now exists [].
  - cbn [parse_blocks] in H. destruct buf as [|c0 buf0] eqn:Ebuf.
    + injection H as <- <-. exists []. rewrite ser_blocks_nil. repeat split.
    + rewrite <- Ebuf in *. clear Ebuf.
      cbn [forallb] in Hwf. apply andb_prop in Hwf as [Hw1 Hw2].
      destruct (parse_block false tb buf) as [[insts buf1]|] eqn:Eb; [|discriminate].
      destruct (parse_blocks false r buf1) as [[bd' rest']|] eqn:Er; [|discriminate].
      injection H as <- <-.
      destruct (pack_parse_block tb buf insts buf1 Hw1 Hb Eb) as (x & Ex & ->).
      pose proof (uniqb_notin _ _ Hu) as Hn. cbn [map] in Hu.
      destruct (IH buf1 bd' rest' (uniqb_tail _ _ _ _ Hu) Hw2 (bytes_okb_app_r _ _ Hb) Er) as (y & Ey & -> & Hk).
      exists (x ++ y). repeat split.
      * cbn [ser_blocks lookup]. rewrite ident_eqb_refl, Ex.
        rewrite ser_blocks_skip by exact Hn. now rewrite Ey.
      * now rewrite app_assoc.
      * unfold no_unknown_blocks. cbn [forallb fst map existsb]. rewrite ident_eqb_refl. cbn [orb andb].
        exact (no_unknown_weaken tb r bd' Hk).
Qed.

Lemma app_eq_len {A} : forall (a b c e : list A), a ++ b = c ++ e -> length a = length c -> a = c /\ b = e.
Proof.
  induction a as [|x a IH]; intros b c e E L; destruct c as [|y c]; try discriminate.
  - now split.
  - cbn in E. injection E as -> E. cbn in L. injection L as L.
    destruct (IH b c e E L) as [-> ->]. now split.
Qed.

(* ---------- message number, read direction ---------- *)

Lemma parse_msg_num_inv l f n r : bytes_okb l = true -> parse_msg_num l = Some (f, n, r) ->
  l = freq_num_bytes f n ++ r.
Proof.
  intros Hb H. unfold parse_msg_num, ff_prefix, is_ff in H.
  destruct l as [|a l]; [discriminate|].
  destruct (a =? 255) eqn:Ea.
  2: { cbn in H. injection H as <- <- <-. reflexivity. }
  apply N.eqb_eq in Ea. subst a.
  destruct l as [|b l]; [discriminate|].
  destruct (b =? 255) eqn:Eb.
  2: { cbn in H. injection H as <- <- <-. reflexivity. }
  apply N.eqb_eq in Eb. subst b.
  destruct l as [|c l]; [discriminate|].
  destruct (c =? 255) eqn:Ec.
  - apply N.eqb_eq in Ec. subst c. cbn in H. destruct l as [|x l']; [discriminate|].
    injection H as <- <- <-. reflexivity.
  - cbn [skipn] in H. destruct l as [|lo l']; [discriminate|]. injection H as <- <- <-.
    rewrite !bytes_okb_cons in Hb.
    assert (Hlo : lo < 256) by lia.
    cbn [freq_num_bytes app]. do 2 f_equal.
    change (match c with 0 => 0 | N.pos q => N.pos q~0~0~0~0~0~0~0~0 end) with (256 * c).
    replace (256 * c + lo) with (lo + c * 256) by lia.
    rewrite N.div_add, N.mod_add, N.div_small, N.mod_small by lia. reflexivity.
Qed.

Lemma nocap_bytes : forall l inz, bytes_ok l = true -> bytes_ok (zc_exp_nocap inz l) = true.
Proof.
  induction l as [|c t IH]; intros inz H; [reflexivity|].
  cbn [zc_exp_nocap]. rewrite bytes_ok_app. cbn in H. apply andb_prop in H as [Hc Ht].
  rewrite (IH _ Ht), andb_true_r. unfold exp_chunk.
  destruct (c =? 0); [|destruct inz].
  - destruct inz; [|reflexivity].
    change (bytes_ok (0 :: zeros 255)) with ((0 <? 256) && bytes_ok (zeros 255)). now rewrite zeros_bytes.
  - apply zeros_bytes.
  - cbn. now rewrite Hc.
Qed.

Lemma expand_bytes e r : bytes_ok e = true -> zc_expand e = Some r -> bytes_ok r = true.
Proof. intros Hb H. apply exp_sound in H. subst r. now apply nocap_bytes. Qed.

(* ---------- parsed pass-through ---------- *)

Definition raw_canonical (m : msg) : bool :=
  if zerocoded (m_flags m) then match m_raw m with Some raw => canonical raw | None => true end else true.

Theorem parsed_passthrough_noq d b m m' : wf_dict d = true -> bytes_okb b = true ->
  parse_header d b = Some m ->
  parse_body_rest_q false d m = Some (m', []) ->      (* body consumed exactly *)
  raw_canonical m = true ->                            (* zero-coding (if any) is the canonical one *)
  serialize d m' = Some b.
Proof.
  intros Hwf Hb H Hbody Hcan.
  destruct (parse_header_inv d b m H) as (fl & p3 & p2 & p1 & p0 & off & rest & -> & Hne & Ht).
  unfold header_tail in Ht.
  rewrite !bytes_okb_cons in Hb.
  assert (Hfl : fl < 256) by lia. assert (Hoff : off < 256) by lia.
  assert (Hb4 : bytes_okb [p3; p2; p1; p0] = true) by (cbn [bytes_okb forallb]; lia).
  assert (Hrest : bytes_okb rest = true) by lia. clear Hb.
  destruct (if has_acks fl then split_acks rest else Some ([], rest)) as [[acks bodyb]|] eqn:Ea; [|discriminate].
  destruct (if zerocoded fl then zc_expand (firstn (10 + 2 * N.to_nat off) bodyb) else Some rest) as [hdr|] eqn:Eh; [|discriminate].
  destruct (parse_msg_num hdr) as [[[f n] after]|] eqn:En; [|discriminate].
  destruct (find_pair d f n) as [t|] eqn:Ft; [|discriminate].
  destruct (takeN off after) as [[extra x]|] eqn:Ex; [|discriminate].
  injection Ht as <-.
  apply find_pair_some in Ft as (Hin & <- & <-).
  apply takeN_some in Ex as [-> Ex].
  assert (Htail : exists tail, (if has_acks fl then ser_acks acks else Some []) = Some tail /\ rest = bodyb ++ tail /\ bodyb <> []).
  { destruct (has_acks fl).
    - now apply split_acks_inv.
    - injection Ea as <- <-. exists []. now rewrite app_nil_r. }
  destruct Htail as (tail & Et & -> & Nb).
  pose proof (bytes_okb_app_l _ _ Hrest) as Bbodyb.
  (* the body parse *)
  match type of Hbody with parse_body_rest_q false d ?hm = _ =>
    rewrite (parse_body_unfold false d hm bodyb (eq_refl : m_raw hm = Some bodyb) Nb) in Hbody end.
  unfold body_tail in Hbody.
  cbn [m_name m_flags m_pid m_extra m_acks m_raw m_body] in Hbody.
  unfold raw_canonical in Hcan. cbn [m_flags m_raw] in Hcan.
  destruct (if zerocoded fl then zc_expand bodyb else Some bodyb) as [buf|] eqn:Ebuf; [|discriminate].
  rewrite (find_name_of_in d t Hwf Hin) in Hbody.
  destruct (rd (freq_len (mfreq t) + length extra) buf) as [[pre buf1]|] eqn:Etk; [|discriminate].
  destruct (parse_blocks false (mblocks t) buf1) as [[bd rest1]|] eqn:Epb; [|discriminate].
  destruct (is_nil bd && negb (is_nil (mblocks t))); [discriminate|].
  injection Hbody as <- ->.
  apply rd_some in Etk as [-> Lpre].
  (* buf is made of bytes, and starts with the message number and the extra field the header saw *)
  assert (Bbuf : bytes_okb (pre ++ buf1) = true).
  { destruct (zerocoded fl); [exact (expand_bytes _ _ Bbodyb Ebuf) | now injection Ebuf as <-]. }
  assert (Bhdr : bytes_okb hdr = true).
  { destruct (zerocoded fl); [|now injection Eh as <-].
    apply (expand_bytes _ _ (bytes_okb_firstn _ _ Bbodyb) Eh). }
  pose proof (parse_msg_num_inv hdr _ _ _ Bhdr En) as Ehdr.
  set (fnb := freq_num_bytes (mfreq t) (mnum t)) in *.
  assert (Lfnb : length fnb = freq_len (mfreq t)) by apply freq_num_bytes_len.
  assert (Epre : pre = fnb ++ extra).
  { assert (Lp : length pre = length (fnb ++ extra)) by (rewrite app_length, Lfnb; exact Lpre).
    destruct (zerocoded fl).
    - apply expand_ref in Eh. apply expand_ref in Ebuf.
      destruct (ref_prefix bodyb (10 + 2 * N.to_nat off)) as [z Hz].
      assert (E : pre ++ buf1 = (fnb ++ extra) ++ (x ++ z)).
      { rewrite Ebuf, Hz, <- Eh, Ehdr. now rewrite <- !app_assoc. }
      exact (proj1 (app_eq_len _ _ _ _ E Lp)).
    - injection Eh as Eh. injection Ebuf as Ebuf.
      assert (E : pre ++ (buf1 ++ tail) = (fnb ++ extra) ++ x).
      { rewrite app_assoc, <- Ebuf, Eh, Ehdr. now rewrite <- !app_assoc. }
      exact (proj1 (app_eq_len _ _ _ _ E Lp)). }
  subst pre.
  pose proof (wf_dict_msg d t Hwf Hin) as Hwt. apply wf_msg_parts in Hwt as (_ & Hwb & Hub).
  destruct (pack_parse_blocks (mblocks t) buf1 bd [] Hub Hwb (bytes_okb_app_r _ _ Bbuf) Epb) as (bs1 & Es & Eb1 & Hk).
  rewrite app_nil_r in Eb1. subst bs1.
  (* re-encode *)
  unfold serialize. cbn [m_name m_flags m_pid m_extra m_acks m_raw m_body pid_or_0].
  rewrite (find_name_of_in d t Hwf Hin).
  pose proof (of_be4_bound _ _ _ _ Hb4) as Hp. change (2 ^ 32) with 4294967296.
  replace ((256 <=? fl) || (4294967296 <=? of_be [p3; p2; p1; p0]) || (256 <=? length extra)%nat) with false
    by (clear - Hfl Hp Hoff Ex; lia).
  unfold ser_body. cbn [m_body m_extra]. rewrite Hk, Es. fold fnb.
  assert (Ebody : (if zerocoded fl then zc_compress (fnb ++ extra ++ buf1) else fnb ++ extra ++ buf1) = bodyb).
  { rewrite app_assoc. destruct (zerocoded fl).
    - apply expand_ref in Ebuf. rewrite Ebuf. now apply canonical_unique.
    - now injection Ebuf as <-. }
  rewrite Ebody, Et, Ex.
  rewrite (be_bytes_of_be [p3; p2; p1; p0] Hb4 : be_bytes 4 (of_be [p3; p2; p1; p0]) = [p3; p2; p1; p0]).
  reflexivity.
Qed.

(* the decoder as it runs (with NaN quieting): same conclusion whenever quieting changed nothing,
   i.e. no single-precision field held a signalling NaN *)
Definition no_snan (d : dict) (m : msg) : Prop :=
  parse_body_rest_q true d m = parse_body_rest_q false d m.

Theorem parsed_passthrough d b m m' : wf_dict d = true -> bytes_okb b = true ->
  parse_header d b = Some m ->
  parse_body_rest d m = Some (m', []) ->
  raw_canonical m = true ->
  no_snan d m ->
  serialize d m' = Some b.
Proof.
  intros Hwf Hb H Hbody Hcan Hq. unfold parse_body_rest in Hbody. rewrite Hq in Hbody.
  exact (parsed_passthrough_noq d b m m' Hwf Hb H Hbody Hcan).
Qed.

(* after a failed parse the message is as it was, so it still re-encodes to the datagram *)
Theorem failed_parse_keeps_raw d b m : bytes_okb b = true ->
  parse_header d b = Some m -> parse_body d m = None ->
  ensure_parsed d m = m /\ serialize d (ensure_parsed d m) = Some b.
Proof.
  intros Hb H Hp. rewrite (ensure_parsed_failed d m Hp). split; [reflexivity|].
  now apply raw_passthrough.
Qed.

(* every order of accesses *)
Theorem any_order d b m ops : bytes_okb b = true -> parse_header d b = Some m ->
  lrun d m ops = m \/ (exists m', parse_body d m = Some m' /\ lrun d m ops = m').
Proof.
  intros Hb H. rewrite lrun_two_states. destruct (touches_body ops); [|now left].
  unfold ensure_parsed. destruct (m_raw m) as [[|x raw]|]; try (now left).
  destruct (parse_body d m) as [m'|]; [right; eauto | now left].
Qed.
