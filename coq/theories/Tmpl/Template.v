(* The message template as data: what hippolyzer/lib/base/message/template.py
   (MessageTemplate / MessageTemplateBlock / MessageTemplateVariable),
   msgtypes.py (MsgType, TYPE_SIZES, MsgBlockType, MsgFrequency) and
   template_dict.py (TemplateDictionary lookups, freq_num_bytes) hold after
   template_parser.py has read message_template.msg.

   The concrete dictionary is NOT written here: harness/translate/template.py
   regenerates coq/gen/Template_gen.v (current_dict) from the repo's own parser
   objects on every run, together with the obligation
   [wf_dict current_dict = true].  Everything in Tmpl/ is generic in the
   dictionary and assumes only [wf_dict].

   Definitions only (proofs: TemplateProofs.v). *)
From Coq Require Import Arith NArith Ascii List Bool.
Import ListNotations.
Open Scope N_scope.

(* Names of messages, blocks and variables: character lists.  (Coq's [string]
   is avoided only because its extraction defines an OCaml type called [string],
   which the shared driver prelude cannot coexist with; the generated file writes
   the names as string literals and converts them with [list_ascii_of_string].) *)
Definition ident := list ascii.

Fixpoint ident_eqb (a b : ident) : bool :=
  match a, b with
  | [], [] => true
  | x :: a', y :: b' => Ascii.eqb x y && ident_eqb a' b'
  | _, _ => false
  end.

(* MsgType, in the order of msgtypes.py *)
Inductive vtype :=
  | TFixed | TVarlen
  | TU8 | TU16 | TU32 | TU64
  | TS8 | TS16 | TS32 | TS64
  | TF32 | TF64
  | TVec3 | TVec3d | TVec4 | TQuat
  | TUUID | TBool | TIPAddr | TIPPort.

(* TYPE_SIZES; the two -1 entries (MVT_FIXED, MVT_VARIABLE) are 0 here and are
   never used as a width: every use in the code is guarded by a test on the type *)
Definition tsize (t : vtype) : nat :=
  match t with
  | TFixed | TVarlen => 0
  | TU8 | TS8 | TBool => 1
  | TU16 | TS16 | TIPPort => 2
  | TU32 | TS32 | TF32 | TIPAddr => 4
  | TU64 | TS64 | TF64 => 8
  | TVec3 | TQuat => 12
  | TVec3d => 24
  | TVec4 | TUUID => 16
  end%nat.

(* MessageTemplateVariable: name, type, size (for Fixed: the byte width, for
   Varlen: the width of the length prefix, otherwise TYPE_SIZES[type]) and the
   two cached name heuristics probably_binary / probably_text *)
Record tvar := { vname : ident; vty : vtype; vsize : nat; vbin : bool; vtext : bool }.

(* MsgBlockType + MessageTemplateBlock.number *)
Inductive bkind := BSingle | BMultiple (n : nat) | BVarcount.

Record tblock := { bname : ident; bkind_of : bkind; bvars : list tvar }.

(* MsgFrequency; the wire prefix is "", FF, FFFF, FFFFFF *)
Inductive freq := FHigh | FMedium | FLow | FFixed.

Record tmsg := { mname : ident; mfreq : freq; mnum : N; mblocks : list tblock }.

Definition dict := list tmsg.

Definition freq_eqb (a b : freq) : bool :=
  match a, b with
  | FHigh, FHigh | FMedium, FMedium | FLow, FLow | FFixed, FFixed => true
  | _, _ => false
  end.

(* TemplateDictionary.get_template_by_name / get_template_by_pair.  The Python
   dicts keep the last of several equal keys; [wf_dict] demands unique keys, so
   first = last = only. *)
Definition find_name (d : dict) (s : ident) : option tmsg :=
  find (fun t => ident_eqb (mname t) s) d.

Definition find_pair (d : dict) (f : freq) (n : N) : option tmsg :=
  find (fun t => freq_eqb (mfreq t) f && (mnum t =? n)) d.

(* MessageTemplate.get_msg_freq_num_len *)
Definition freq_len (f : freq) : nat :=
  match f with FHigh => 1 | FMedium => 2 | FLow => 4 | FFixed => 4 end%nat.

(* TemplateDictionary.build_message_ids: template.freq_num_bytes *)
Definition freq_num_bytes (f : freq) (n : N) : list N :=
  match f with
  | FHigh => [n]
  | FMedium => [255; n]
  | FLow => [255; 255; n / 256; n mod 256]
  | FFixed => [255; 255; 255; n]
  end.

(* ---------- well-formedness (boolean; discharged on the generated dictionary by computation) ---------- *)

Fixpoint uniqb {A} (e : A -> A -> bool) (l : list A) : bool :=
  match l with
  | [] => true
  | x :: r => negb (existsb (e x) r) && uniqb e r
  end.

Definition wf_var (tv : tvar) : bool :=
  match vty tv with
  | TFixed => (0 <? vsize tv)%nat
  | TVarlen => ((vsize tv =? 1) || (vsize tv =? 2) || (vsize tv =? 4) || (vsize tv =? 8))%nat
  | t => (vsize tv =? tsize t)%nat
  end.

Definition wf_block (tb : tblock) : bool :=
  match bvars tb with [] => false | _ => true end
  && forallb wf_var (bvars tb)
  && uniqb ident_eqb (map vname (bvars tb))
  && match bkind_of tb with BMultiple n => (0 <? n)%nat | _ => true end.

(* the message-number encodings are prefix-free exactly when no number looks
   like a longer FF prefix *)
Definition wf_num (f : freq) (n : N) : bool :=
  match f with
  | FHigh => n <? 255
  | FMedium => n <? 255
  | FLow => n <? 65280
  | FFixed => n <? 256
  end.

Definition wf_msg (t : tmsg) : bool :=
  wf_num (mfreq t) (mnum t)
  && forallb wf_block (mblocks t)
  && uniqb ident_eqb (map bname (mblocks t)).

Definition same_name (a b : tmsg) : bool := ident_eqb (mname a) (mname b).
Definition same_pair (a b : tmsg) : bool := freq_eqb (mfreq a) (mfreq b) && (mnum a =? mnum b).

Definition wf_dict (d : dict) : bool :=
  forallb wf_msg d && uniqb same_name d && uniqb same_pair d.
