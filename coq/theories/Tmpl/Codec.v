(* Model of the LLUDP template codec:
     udpserializer.py    UDPMessageSerializer.serialize/_serialize_block/_serialize_var
     udpdeserializer.py  _parse_msg_num, UDPMessageDeserializer.deserialize,
                         _parse_message_header, parse_message_body/_parse_message_body, _parse_var
     data_packer.py      TemplateDataPacker.SPECS (pack / unpack per MsgType)
     message.py          Message (send_flags, packet_id, acks, extra, raw_body, blocks),
                         Block (vars, fill_missing), ensure_parsed
   Every Python exception is [None].  Definitions only; proofs are in
   CodecProofs.v (C01) and PassProofs.v (C02).

   Values are modelled at wire level: an integer variable is its number, every
   other variable is the byte string of its payload (floats and vectors: their
   IEEE bit patterns as produced by struct; UUID 16 bytes; IP address 4 bytes;
   Fixed/Variable: the payload without the length prefix).  The mapping between
   Python values and these (struct for floats, Quaternion dropping W, str <->
   NUL-terminated UTF-8) is the harness adapter; the str/bytes guessing of
   _parse_var is modelled separately below as [present]/[pack_view]. *)
From Coq Require Import Arith NArith ZArith Ascii List Bool.
From HV Require Import Base.Bytes ZC.ZeroCode Tmpl.Template.
Import ListNotations.
Open Scope N_scope.

(* ---------- values ---------- *)

Inductive wval :=
  | WU (n : N) | WS (z : Z) | WB (l : list N)
  | WRaw (l : list N).   (* datatypes.RawBytes: a caller-supplied, already encoded field *)

(* the six shapes of TemplateDataPacker.SPECS entries *)
Inductive vclass :=
  | CUle (k : nat)   (* struct '<B' '<H' '<I' '<Q' (and 'B' for BOOL) *)
  | CUbe (k : nat)   (* struct '!H' : IP_PORT *)
  | CSle (k : nat)   (* struct 'b' '<h' '<i' '<q' *)
  | CRaw (k : nat)   (* k payload bytes: '<d' '<3d', UUID.bytes, inet_aton *)
  | CF32 (c : nat)   (* c single-precision floats: '<f' '<3f' '<4f' *)
  | CFix             (* MVT_FIXED: (bytes, _pack_string) *)
  | CVar.            (* MVT_VARIABLE: (bytes, _pack_string) + length prefix *)

Definition classify (t : vtype) : vclass :=
  match t with
  | TFixed => CFix
  | TVarlen => CVar
  | TU8 | TBool => CUle 1
  | TU16 => CUle 2
  | TU32 => CUle 4
  | TU64 => CUle 8
  | TIPPort => CUbe 2
  | TS8 => CSle 1
  | TS16 => CSle 2
  | TS32 => CSle 4
  | TS64 => CSle 8
  | TIPAddr => CRaw 4
  | TF64 => CRaw 8
  | TVec3d => CRaw 24
  | TUUID => CRaw 16
  | TF32 => CF32 1
  | TVec3 | TQuat => CF32 3
  | TVec4 => CF32 4
  end.

(* A single-precision value passes through a Python float (a double) between
   struct.unpack('<f') and struct.pack('<f').  The two conversions keep every bit
   pattern except that a signalling NaN comes back quiet (bit 22 set).  Groups are
   the little-endian bytes b0 b1 b2 b3 of one float. *)
Definition is_nan4 (b0 b1 b2 b3 : N) : bool :=
  (N.land b3 127 =? 127) && N.testbit b2 7
  && negb ((N.land b2 127 =? 0) && (b1 =? 0) && (b0 =? 0)).

Fixpoint quiet_groups (l : list N) : list N :=
  match l with
  | b0 :: b1 :: b2 :: b3 :: r =>
      b0 :: b1 :: (if is_nan4 b0 b1 b2 b3 then N.lor b2 64 else b2) :: b3 :: quiet_groups r
  | _ => l
  end.

(* signalling = NaN with the quiet bit (bit 22 = bit 6 of b2) clear *)
Definition is_snan4 (b0 b1 b2 b3 : N) : bool := is_nan4 b0 b1 b2 b3 && negb (N.testbit b2 6).

Fixpoint snan_free (l : list N) : bool :=
  match l with
  | b0 :: b1 :: b2 :: b3 :: r => negb (is_snan4 b0 b1 b2 b3) && snan_free r
  | _ => true
  end.

Definition srangeb (k : nat) (z : Z) : bool :=
  ((- 2 ^ (8 * Z.of_nat k - 1) <=? z) && (z <? 2 ^ (8 * Z.of_nat k - 1)))%Z.

(* TemplateDataPacker.pack; struct.error (out of range) = None *)
Definition pack_val (t : vtype) (v : wval) : option (list N) :=
  match classify t, v with
  | CUle k, WU n => if n <? 256 ^ N.of_nat k then Some (le_bytes k n) else None
  | CUbe k, WU n => if n <? 256 ^ N.of_nat k then Some (be_bytes k n) else None
  | CSle k, WS z => if srangeb k z then Some (le_bytes k (of_signed k z)) else None
  | CRaw k, WB l => if (length l =? k)%nat then Some l else None
  | CF32 c, WB l => if (length l =? 4 * c)%nat then Some l else None
  | CFix, WB l => Some l
  | CVar, WB l => Some l
  | _, _ => None
  end.

(* TemplateDataPacker.unpack on exactly the bytes handed over by _parse_var;
   struct.error / ValueError (wrong length) = None.  [q] = true is the code as it
   runs; [q] = false is the same decoder without the NaN quieting of the float
   conversion and only serves to state "no signalling NaN was met" (C02). *)
Definition unpack_val (q : bool) (t : vtype) (l : list N) : option wval :=
  match classify t with
  | CUle k => if (length l =? k)%nat then Some (WU (of_le l)) else None
  | CUbe k => if (length l =? k)%nat then Some (WU (of_be l)) else None
  | CSle k => if (length l =? k)%nat then Some (WS (to_signed k (of_le l))) else None
  | CRaw k => if (length l =? k)%nat then Some (WB l) else None
  | CF32 c => if (length l =? 4 * c)%nat then Some (WB (if q then quiet_groups l else l)) else None
  | CFix | CVar => Some (WB l)
  end.

Definition vtype_is_varlen (t : vtype) : bool := match t with TVarlen => true | _ => false end.

(* _serialize_var for a value that is set *)
Definition pack_var (tv : tvar) (v : wval) : option (list N) :=
  match v with
  | WRaw l => Some l       (* `isinstance(var_data, RawBytes)`: written as is, for any type, no length prefix *)
  | _ =>
      match pack_val (vty tv) v with
      | None => None
      | Some p =>
          if vtype_is_varlen (vty tv) then
            if N.of_nat (length p) <? 256 ^ N.of_nat (vsize tv)
            then Some (le_bytes (vsize tv) (N.of_nat (length p)) ++ p) else None
          else Some p
      end
  end.

Definition nzeros (n : nat) : list N := repeat 0 n.

(* _serialize_var: [None] value = variable not set in the block *)
Definition ser_var (tv : tvar) (v : option wval) (fill : bool) : option (list N) :=
  match v with
  | Some v => pack_var tv v
  | None =>
      if fill then
        match vty tv with
        | TFixed => Some (nzeros (vsize tv))     (* RawBytes(b"\0" * template_var.size) *)
        | TVarlen => pack_var tv (WB [])          (* var_data = b"" *)
        | t => Some (nzeros (tsize t))            (* RawBytes(b"\0" * var_type.size) *)
        end
      else None
  end.

(* reader.read_bytes(n): the first n bytes and the rest, None (ValueError) when fewer are left.
   Same function as Base.Bytes.take (lemma rd_take), written as one pass so that the
   extracted model does not measure the whole remaining buffer for every variable. *)
Fixpoint rd (n : nat) (l : list N) : option (list N * list N) :=
  match n with
  | O => Some ([], l)
  | S k =>
      match l with
      | [] => None
      | x :: r => match rd k r with Some (a, b) => Some (x :: a, b) | None => None end
      end
  end.

(* the same with an N count; a count that cannot be a template length (above 0xFFFF) is
   compared with the buffer length before it is turned into a unary number *)
Definition takeN (n : N) (l : list N) : option (list N * list N) :=
  if 65535 <? n then (if N.of_nat (length l) <? n then None else rd (N.to_nat n) l)
  else rd (N.to_nat n) l.

(* _parse_var up to and including TemplateDataPacker.unpack *)
Definition parse_var (q : bool) (tv : tvar) (buf : list N) : option (wval * list N) :=
  match (if vtype_is_varlen (vty tv)
         then match rd (vsize tv) buf with
              | Some (p, r) => Some (of_le p, r)
              | None => None
              end
         else Some (N.of_nat (vsize tv), buf)) with
  | None => None
  | Some (sz, buf1) =>
      match takeN sz buf1 with
      | None => None
      | Some (pl, r) =>
          match unpack_val q (vty tv) pl with
          | Some v => Some (v, r)
          | None => None
          end
      end
  end.

(* ---------- messages ---------- *)

Definition inst := list (ident * wval).                 (* Block.vars, in dict order *)
Record blk := { b_fill : bool; b_vars : inst }.          (* Block (fill_missing, vars) *)
Definition body := list (ident * list blk).             (* Message.blocks: name -> MsgBlockList *)

Record msg := {
  m_name : ident;
  m_flags : N;                 (* send_flags *)
  m_pid : option N;            (* packet_id *)
  m_extra : list N;            (* raw_extra; offset = its length *)
  m_acks : list N;
  m_raw : option (list N);     (* raw_body (with a live deserializer reference) *)
  m_body : body }.

Fixpoint lookup {A} (k : ident) (l : list (ident * A)) : option A :=
  match l with
  | [] => None
  | (k', v) :: r => if ident_eqb k' k then Some v else lookup k r
  end.

Definition zerocoded (fl : N) : bool := N.testbit fl 7.   (* PacketFlags.ZEROCODED = 0x80 *)
Definition has_acks (fl : N) : bool := N.testbit fl 4.    (* PacketFlags.ACK = 0x10 *)

(* ---------- serializer ---------- *)

Fixpoint ser_vars (tvs : list tvar) (b : blk) : option (list N) :=
  match tvs with
  | [] => Some []
  | tv :: r =>
      match ser_var tv (lookup (vname tv) (b_vars b)) (b_fill b), ser_vars r b with
      | Some x, Some y => Some (x ++ y)
      | _, _ => None
      end
  end.

Fixpoint ser_insts (tvs : list tvar) (l : list blk) : option (list N) :=
  match l with
  | [] => Some []
  | b :: r =>
      match ser_vars tvs b, ser_insts tvs r with
      | Some x, Some y => Some (x ++ y)
      | _, _ => None
      end
  end.

(* _serialize_block.  Note: no count check for Single blocks in the code. *)
Definition ser_block (tb : tblock) (l : list blk) : option (list N) :=
  match bkind_of tb with
  | BSingle => ser_insts (bvars tb) l
  | BMultiple n => if (length l =? n)%nat then ser_insts (bvars tb) l else None
  | BVarcount =>
      if (length l <? 256)%nat then
        match ser_insts (bvars tb) l with
        | Some x => Some (N.of_nat (length l) :: x)
        | None => None
        end
      else None
  end.

(* the template-ordered loop of serialize(); [missing] = "missing_block is set" *)
Fixpoint ser_blocks (tbs : list tblock) (b : body) (missing : bool) : option (list N) :=
  match tbs with
  | [] => Some []
  | tb :: r =>
      match lookup (bname tb) b with
      | None => ser_blocks r b true
      | Some l =>
          if missing then None
          else match ser_block tb l, ser_blocks r b false with
               | Some x, Some y => Some (x ++ y)
               | _, _ => None
               end
      end
  end.

(* `if blocks: raise KeyError` after every template block has been popped *)
Definition no_unknown_blocks (tbs : list tblock) (b : body) : bool :=
  forallb (fun kv => existsb (ident_eqb (fst kv)) (map bname tbs)) b.

Definition ser_body (t : tmsg) (m : msg) : option (list N) :=
  if no_unknown_blocks (mblocks t) (m_body m) then
    match ser_blocks (mblocks t) (m_body m) false with
    | Some bs => Some (freq_num_bytes (mfreq t) (mnum t) ++ m_extra m ++ bs)
    | None => None
    end
  else None.

Fixpoint ser_ack_list (l : list N) : option (list N) :=
  match l with
  | [] => Some []
  | a :: r =>
      if a <? 2 ^ 32 then
        match ser_ack_list r with Some x => Some (be_bytes 4 a ++ x) | None => None end
      else None
  end.

Definition ser_acks (acks : list N) : option (list N) :=
  match ser_ack_list (rev acks) with
  | Some bs => if (length acks <? 256)%nat then Some (bs ++ [N.of_nat (length acks)]) else None
  | None => None
  end.

Definition pid_or_0 (p : option N) : N := match p with Some p => p | None => 0 end.

Definition serialize (d : dict) (m : msg) : option (list N) :=
  match find_name d (m_name m) with
  | None => None
  | Some t =>
      if (256 <=? m_flags m) || (2 ^ 32 <=? pid_or_0 (m_pid m)) || (256 <=? length (m_extra m))%nat
      then None
      else
        match (match m_raw m with
               | Some raw => Some raw
               | None =>
                   match ser_body t m with
                   | Some b => Some (if zerocoded (m_flags m) then zc_compress b else b)
                   | None => None
                   end
               end) with
        | None => None
        | Some bodyb =>
            match (if has_acks (m_flags m) then ser_acks (m_acks m) else Some []) with
            | None => None
            | Some tail =>
                Some (m_flags m :: be_bytes 4 (pid_or_0 (m_pid m))
                        ++ N.of_nat (length (m_extra m)) :: bodyb ++ tail)
            end
        end
  end.

(* ---------- deserializer ---------- *)

Definition is_ff (b : N) : bool := b =? 255.

(* _parse_msg_num: the loop over the (up to) 3 peeked bytes *)
Definition ff_prefix (l : list N) : nat :=
  match l with
  | a :: r1 =>
      if is_ff a then
        match r1 with
        | b :: r2 =>
            if is_ff b then
              match r2 with
              | c :: _ => if is_ff c then 3 else 2
              | [] => 2
              end
            else 1
        | [] => 1
        end
      else 0
  | [] => 0
  end%nat.

Definition parse_msg_num (l : list N) : option (freq * N * list N) :=
  let k := ff_prefix l in
  let l' := skipn k l in
  match k with
  | 0%nat => match l' with n :: r => Some (FHigh, n, r) | [] => None end
  | 1%nat => match l' with n :: r => Some (FMedium, n, r) | [] => None end
  | 2%nat => match l' with hi :: lo :: r => Some (FLow, 256 * hi + lo, r) | _ => None end
  | _ => match l' with n :: r => Some (FFixed, n, r) | [] => None end
  end.

Fixpoint chunks4 (n : nat) (l : list N) : list N :=
  match n with
  | O => []
  | S k => of_be (firstn 4 l) :: chunks4 k (skipn 4 l)
  end.

(* the ACK trailer: [rest] is the datagram after the 6 fixed header bytes.
   Python: msg_size = len(data) - 1 - 4*num_acks; `6 >= msg_size` -> "bad acks" *)
Definition split_acks (rest : list N) : option (list N * list N) :=
  let n := N.to_nat (last rest 0) in
  let len := length rest in
  if (len <=? 1 + 4 * n)%nat then None
  else
    let blen := (len - 1 - 4 * n)%nat in
    Some (rev (chunks4 n (skipn blen rest)), firstn blen rest).

(* _parse_message_header *)
Definition parse_header (d : dict) (data : list N) : option msg :=
  match data with
  | fl :: p3 :: p2 :: p1 :: p0 :: off :: rest =>
      match rest with
      | [] => None                                    (* PACKET_ID_LENGTH >= msg_size *)
      | _ =>
          match (if has_acks fl then split_acks rest else Some ([], rest)) with
          | None => None
          | Some (acks, bodyb) =>
              (* zerocoded: a fresh reader over the expansion of data[6:16+2*offset] of the
                 snipped datagram; otherwise the old reader, still over the unsnipped one *)
              match (if zerocoded fl
                     then zc_expand (firstn (10 + 2 * N.to_nat off) bodyb)
                     else Some rest) with
              | None => None
              | Some hdr =>
                  match parse_msg_num hdr with
                  | None => None
                  | Some (f, n, after_num) =>
                      match find_pair d f n with
                      | None => None
                      | Some t =>
                          match takeN off after_num with
                          | None => None
                          | Some (extra, _) =>
                              Some {| m_name := mname t; m_flags := fl;
                                      m_pid := Some (of_be [p3; p2; p1; p0]);
                                      m_extra := extra; m_acks := acks;
                                      m_raw := Some bodyb; m_body := [] |}
                          end
                      end
                  end
              end
          end
      end
  | _ => None
  end.

Fixpoint parse_vars (q : bool) (tvs : list tvar) (buf : list N) : option (inst * list N) :=
  match tvs with
  | [] => Some ([], buf)
  | tv :: r =>
      match parse_var q tv buf with
      | None => None
      | Some (v, buf1) =>
          match parse_vars q r buf1 with
          | None => None
          | Some (vs, buf2) => Some ((vname tv, v) :: vs, buf2)
          end
      end
  end.

Fixpoint parse_insts (q : bool) (tvs : list tvar) (n : nat) (buf : list N) : option (list blk * list N) :=
  match n with
  | O => Some ([], buf)
  | S k =>
      match parse_vars q tvs buf with
      | None => None
      | Some (vs, buf1) =>
          match parse_insts q tvs k buf1 with
          | None => None
          | Some (bs, buf2) => Some ({| b_fill := false; b_vars := vs |} :: bs, buf2)
          end
      end
  end.

Definition parse_block (q : bool) (tb : tblock) (buf : list N) : option (list blk * list N) :=
  match bkind_of tb with
  | BSingle => parse_insts q (bvars tb) 1 buf
  | BMultiple n => parse_insts q (bvars tb) n buf
  | BVarcount =>
      match buf with
      | c :: buf1 => parse_insts q (bvars tb) (N.to_nat c) buf1
      | [] => None
      end
  end.

(* the block loop of _parse_message_body, `if not len(reader): break` included *)
Fixpoint parse_blocks (q : bool) (tbs : list tblock) (buf : list N) : option (body * list N) :=
  match tbs with
  | [] => Some ([], buf)
  | tb :: r =>
      match buf with
      | [] => Some ([], [])
      | _ =>
          match parse_block q tb buf with
          | None => None
          | Some (insts, buf1) =>
              match parse_blocks q r buf1 with
              | None => None
              | Some (bd, rest) => Some ((bname tb, insts) :: bd, rest)
              end
          end
      end
  end.

Definition is_nil {A} (l : list A) : bool := match l with [] => true | _ => false end.

(* _parse_message_body, returning the message and the bytes left unread (the code
   only logs those).  None = an exception; the caller parse_message_body then
   restores raw_body/deserializer, i.e. leaves the message as it was. *)
Definition parse_body_rest_q (q : bool) (d : dict) (m : msg) : option (msg * list N) :=
  match m_raw m with
  | None => Some (m, [])
  | Some [] => Some (m, [])                                   (* `if not raw_body: return` *)
  | Some raw =>
      match (if zerocoded (m_flags m) then zc_expand raw else Some raw) with
      | None => None
      | Some buf =>
          match find_name d (m_name m) with
          | None => None
          | Some t =>
              match rd (freq_len (mfreq t) + length (m_extra m)) buf with   (* reader.seek *)
              | None => None
              | Some (_, buf1) =>
                  match parse_blocks q (mblocks t) buf1 with
                  | None => None
                  | Some (bd, rest) =>
                      if is_nil bd && negb (is_nil (mblocks t)) then None   (* "message is empty" *)
                      else Some ({| m_name := m_name m; m_flags := m_flags m; m_pid := m_pid m;
                                    m_extra := m_extra m; m_acks := m_acks m;
                                    m_raw := None; m_body := bd |}, rest)
                  end
              end
          end
      end
  end.

Definition parse_body_rest := parse_body_rest_q true.

Definition parse_body (d : dict) (m : msg) : option msg :=
  match parse_body_rest d m with Some (m', _) => Some m' | None => None end.

(* deserialize() with ENABLE_DEFERRED_PACKET_PARSING off (eager) *)
Definition deserialize (d : dict) (data : list N) : option msg :=
  match parse_header d data with
  | Some m => parse_body d m
  | None => None
  end.

(* ---------- the lazy-parse state machine of Message (C02) ---------- *)

(* Message.ensure_parsed via Message.blocks; a failing parse raises to the
   caller and leaves the message unchanged (parse_message_body's handler) *)
Definition ensure_parsed (d : dict) (m : msg) : msg :=
  match m_raw m with
  | Some (_ :: _) => match parse_body d m with Some m' => m' | None => m end
  | _ => m
  end.

Inductive lop := OpHeader | OpBody.      (* read header fields only | touch .blocks *)

Definition lstep (d : dict) (m : msg) (o : lop) : msg :=
  match o with OpHeader => m | OpBody => ensure_parsed d m end.

Definition lrun (d : dict) (m : msg) (ops : list lop) : msg := fold_left (lstep d) ops m.

(* ---------- str / bytes presentation of Fixed and Variable payloads (_parse_var tail) ---------- *)

Inductive pyview :=
  | PStr (utf8 : list N)      (* a str, given by its UTF-8 encoding *)
  | PJank (l : list N)        (* JankStringyBytes(l) *)
  | PBytes (l : list N).      (* plain bytes *)

(* str.rstrip("\0") on the decoded text = dropping trailing 0 bytes of valid UTF-8 *)
Fixpoint rstrip0 (l : list N) : list N :=
  match l with
  | [] => []
  | x :: r =>
      match rstrip0 r with
      | [] => if x =? 0 then [] else [x]
      | r' => x :: r'
      end
  end.

Definition ends_nul (l : list N) : bool :=
  match l with [] => false | _ => last l 1 =? 0 end.
Definition ends_2nul (l : list N) : bool := ends_nul l && ends_nul (removelast l).

Definition present (valid : list N -> bool) (tv : tvar) (l : list N) : pyview :=
  if vbin tv then PBytes l
  else if vtext tv then
    if ends_nul l && negb (ends_2nul l) && valid l then PStr (rstrip0 l) else PJank l
  else PJank l.

(* _pack_string *)
Definition pack_view (v : pyview) : list N :=
  match v with
  | PStr s => s ++ [0]
  | PJank l => l
  | PBytes l => l
  end.

(* bytes.decode("utf8") succeeds: RFC 3629 well-formedness as CPython applies it
   (no overlong forms, no surrogates, nothing above U+10FFFF) *)
Definition cont (b : N) : bool := (128 <=? b) && (b <=? 191).
Fixpoint utf8_valid (l : list N) : bool :=
  match l with
  | [] => true
  | b :: r =>
      if b <? 128 then utf8_valid r
      else if (194 <=? b) && (b <=? 223) then
        match r with c1 :: r1 => cont c1 && utf8_valid r1 | _ => false end
      else if (224 <=? b) && (b <=? 239) then
        match r with
        | c1 :: c2 :: r2 =>
            (if b =? 224 then (160 <=? c1) && (c1 <=? 191)
             else if b =? 237 then (128 <=? c1) && (c1 <=? 159)
             else cont c1) && cont c2 && utf8_valid r2
        | _ => false
        end
      else if (240 <=? b) && (b <=? 244) then
        match r with
        | c1 :: c2 :: c3 :: r3 =>
            (if b =? 240 then (144 <=? c1) && (c1 <=? 191)
             else if b =? 244 then (128 <=? c1) && (c1 <=? 143)
             else cont c1) && cont c2 && cont c3 && utf8_valid r3
        | _ => false
        end
      else false
  end.

(* ---------- conformance to the template and the normal form a decode produces ---------- *)

Definition val_ok (tv : tvar) (v : wval) : bool :=
  match classify (vty tv), v with
  | CUle k, WU n => n <? 256 ^ N.of_nat k
  | CUbe k, WU n => n <? 256 ^ N.of_nat k
  | CSle k, WS z => srangeb k z
  | CRaw k, WB l => (length l =? k)%nat && bytes_okb l
  | CF32 c, WB l => (length l =? 4 * c)%nat && bytes_okb l && snan_free l
  | CFix, WB l => (length l =? vsize tv)%nat && bytes_okb l
  | CVar, WB l => (N.of_nat (length l) <? 256 ^ N.of_nat (vsize tv)) && bytes_okb l
  | _, _ => false
  end.

(* what an unset variable of a fill_missing block decodes to *)
Definition default_val (tv : tvar) : wval :=
  match classify (vty tv) with
  | CUle _ | CUbe _ => WU 0
  | CSle _ => WS 0
  | CRaw k => WB (nzeros k)
  | CF32 c => WB (nzeros (4 * c))
  | CFix => WB (nzeros (vsize tv))
  | CVar => WB []
  end.

Definition var_or_default (tv : tvar) (b : blk) : wval :=
  match lookup (vname tv) (b_vars b) with Some v => v | None => default_val tv end.

Definition norm_inst (tvs : list tvar) (b : blk) : blk :=
  {| b_fill := false; b_vars := map (fun tv => (vname tv, var_or_default tv b)) tvs |}.

Fixpoint norm_body (tbs : list tblock) (b : body) : body :=
  match tbs with
  | [] => []
  | tb :: r =>
      match lookup (bname tb) b with
      | Some l => (bname tb, map (norm_inst (bvars tb)) l) :: norm_body r b
      | None => norm_body r b
      end
  end.

(* "fill_defaults": template order, every variable set, fill flag dropped *)
Definition normalize (d : dict) (m : msg) : msg :=
  match find_name d (m_name m) with
  | Some t => {| m_name := m_name m; m_flags := m_flags m; m_pid := m_pid m;
                 m_extra := m_extra m; m_acks := m_acks m; m_raw := None;
                 m_body := norm_body (mblocks t) (m_body m) |}
  | None => m
  end.

Definition inst_ok (tvs : list tvar) (b : blk) : bool :=
  forallb (fun tv => match lookup (vname tv) (b_vars b) with
                     | Some v => val_ok tv v
                     | None => b_fill b
                     end) tvs
  (* variables the template does not name are silently skipped by the serializer *)
  && forallb (fun kv => existsb (ident_eqb (fst kv)) (map vname tvs)) (b_vars b).

Definition count_ok (k : bkind) (n : nat) : bool :=
  match k with
  | BSingle => (n =? 1)%nat
  | BMultiple c => (n =? c)%nat
  | BVarcount => (n <? 256)%nat
  end.

Definition block_ok (tb : tblock) (l : list blk) : bool :=
  count_ok (bkind_of tb) (length l) && forallb (inst_ok (bvars tb)) l.

(* present blocks form a prefix of the template's block list *)
Fixpoint blocks_ok (tbs : list tblock) (b : body) (missing : bool) : bool :=
  match tbs with
  | [] => true
  | tb :: r =>
      match lookup (bname tb) b with
      | None => blocks_ok r b true
      | Some l => negb missing && block_ok tb l && blocks_ok r b false
      end
  end.

Definition first_present (tbs : list tblock) (b : body) : bool :=
  match tbs with
  | [] => true
  | tb :: _ => match lookup (bname tb) b with Some _ => true | None => false end
  end.

Definition acks_ok (fl : N) (acks : list N) : bool :=
  if has_acks fl then (length acks <? 256)%nat && forallb (fun a => a <? 2 ^ 32) acks
  else is_nil acks.

Definition body_len_ok (t : tmsg) (m : msg) : bool :=
  if zerocoded (m_flags m) then
    match ser_body t m with
    | Some b => N.of_nat (length b) <=? ZC_CAP
    | None => false
    end
  else true.

Definition conforms (d : dict) (m : msg) : bool :=
  match find_name d (m_name m) with
  | None => false
  | Some t =>
      (m_flags m <? 256)
      && match m_pid m with Some p => p <? 2 ^ 32 | None => false end
      && (length (m_extra m) <? 256)%nat && bytes_okb (m_extra m)
      && acks_ok (m_flags m) (m_acks m)
      && match m_raw m with None => true | Some _ => false end
      && no_unknown_blocks (mblocks t) (m_body m)
      && blocks_ok (mblocks t) (m_body m) false
      && first_present (mblocks t) (m_body m)
      && body_len_ok t m
  end.

(* a block is "dict like" when it names each variable once *)
Definition inst_tidy (b : blk) : bool := uniqb ident_eqb (map fst (b_vars b)).
