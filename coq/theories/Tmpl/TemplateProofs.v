(* Facts about the template vocabulary: name equality, unique-key lookups,
   consequences of wf_dict. *)
From Coq Require Import Arith NArith Ascii List Bool Lia.
From HV Require Import Tmpl.Template.
Import ListNotations.
Open Scope N_scope.

Lemma ident_eqb_eq : forall a b, ident_eqb a b = true <-> a = b.
Proof.
  induction a as [|x a IH]; intros [|y b]; cbn; split; intros H; try reflexivity; try discriminate.
  - apply andb_prop in H as [H1 H2]. apply Ascii.eqb_eq in H1. apply IH in H2. now subst.
  - injection H as -> ->. rewrite Ascii.eqb_refl. cbn. now apply IH.
Qed.

Lemma ident_eqb_refl a : ident_eqb a a = true.
Proof. now apply ident_eqb_eq. Qed.

Lemma ident_eqb_neq a b : a <> b -> ident_eqb a b = false.
Proof. intros H. destruct (ident_eqb a b) eqn:E; [|reflexivity]. apply ident_eqb_eq in E. contradiction. Qed.

Lemma ident_eqb_sym a b : ident_eqb a b = ident_eqb b a.
Proof.
  destruct (ident_eqb a b) eqn:E.
  - apply ident_eqb_eq in E. subst. now rewrite ident_eqb_refl.
  - destruct (ident_eqb b a) eqn:E2; [|reflexivity]. apply ident_eqb_eq in E2. subst.
    now rewrite ident_eqb_refl in E.
Qed.

Lemma freq_eqb_eq a b : freq_eqb a b = true <-> a = b.
Proof. destruct a, b; cbn; split; intros; congruence. Qed.

(* a key that is unique in the list is found by [find] *)
Lemma uniqb_find : forall A (e : A -> A -> bool) (p : A -> bool) (l : list A) (t : A),
  uniqb e l = true -> In t l -> p t = true ->
  (forall x, p x = true -> e x t = true) ->
  find p l = Some t.
Proof.
  intros A e p. induction l as [|x r IH]; intros t Hu Hin Hp Hkey; [contradiction|].
  cbn in Hu. apply andb_prop in Hu as [Hx Hr].
  cbn [find]. destruct Hin as [->|Hin].
  - now rewrite Hp.
  - destruct (p x) eqn:Epx.
    + exfalso. apply negb_true_iff in Hx.
      assert (existsb (e x) r = true) by (apply existsb_exists; exists t; split; [exact Hin | now apply Hkey]).
      congruence.
    + now apply IH.
Qed.

Lemma uniqb_notin : forall (l : list ident) x,
  uniqb ident_eqb (x :: l) = true -> ~ In x l.
Proof.
  intros l x H Hin. cbn in H. apply andb_prop in H as [H _]. apply negb_true_iff in H.
  assert (existsb (ident_eqb x) l = true) by (apply existsb_exists; exists x; split; [exact Hin | apply ident_eqb_refl]).
  congruence.
Qed.

Lemma uniqb_tail : forall A (e : A -> A -> bool) x l, uniqb e (x :: l) = true -> uniqb e l = true.
Proof. intros A e x l H. cbn in H. now apply andb_prop in H as [_ H]. Qed.

Lemma find_name_some d s t : find_name d s = Some t -> In t d /\ mname t = s.
Proof.
  unfold find_name. intros H. apply find_some in H as [H1 H2]. split; [exact H1|]. now apply ident_eqb_eq.
Qed.

Lemma find_pair_some d f n t : find_pair d f n = Some t -> In t d /\ mfreq t = f /\ mnum t = n.
Proof.
  unfold find_pair. intros H. apply find_some in H as [H1 H2]. apply andb_prop in H2 as [H2 H3].
  split; [exact H1|]. split; [now apply freq_eqb_eq | now apply N.eqb_eq].
Qed.

Lemma wf_dict_parts d : wf_dict d = true ->
  forallb wf_msg d = true /\ uniqb same_name d = true /\ uniqb same_pair d = true.
Proof.
  unfold wf_dict. intros H. apply andb_prop in H as [H H3]. apply andb_prop in H as [H1 H2]. auto.
Qed.

Lemma wf_dict_msg d t : wf_dict d = true -> In t d -> wf_msg t = true.
Proof.
  intros H Hin. apply wf_dict_parts in H as [H _]. rewrite forallb_forall in H. now apply H.
Qed.

Lemma find_name_of_in d t : wf_dict d = true -> In t d -> find_name d (mname t) = Some t.
Proof.
  intros H Hin. apply wf_dict_parts in H as [_ [H _]]. unfold find_name.
  apply (uniqb_find _ same_name); [exact H | exact Hin | apply ident_eqb_refl | intros x Hx; exact Hx].
Qed.

Lemma find_pair_of_in d t : wf_dict d = true -> In t d -> find_pair d (mfreq t) (mnum t) = Some t.
Proof.
  intros H Hin. apply wf_dict_parts in H as [_ [_ H]]. unfold find_pair.
  apply (uniqb_find _ same_pair); [exact H | exact Hin | | intros x Hx; exact Hx].
  rewrite N.eqb_refl. replace (freq_eqb (mfreq t) (mfreq t)) with true; [reflexivity|].
  symmetry. now apply freq_eqb_eq.
Qed.

Lemma wf_msg_parts t : wf_msg t = true ->
  wf_num (mfreq t) (mnum t) = true /\ forallb wf_block (mblocks t) = true
  /\ uniqb ident_eqb (map bname (mblocks t)) = true.
Proof.
  unfold wf_msg. intros H. apply andb_prop in H as [H H3]. apply andb_prop in H as [H1 H2]. auto.
Qed.

Lemma wf_block_parts tb : wf_block tb = true ->
  bvars tb <> [] /\ forallb wf_var (bvars tb) = true
  /\ uniqb ident_eqb (map vname (bvars tb)) = true
  /\ match bkind_of tb with BMultiple n => (0 < n)%nat | _ => True end.
Proof.
  unfold wf_block. intros H. apply andb_prop in H as [H H4]. apply andb_prop in H as [H H3].
  apply andb_prop in H as [H1 H2]. repeat split; auto.
  - destruct (bvars tb); [discriminate|discriminate].
  - destruct (bkind_of tb); auto. now apply Nat.ltb_lt.
Qed.
