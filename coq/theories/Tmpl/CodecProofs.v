(* C01: decode (encode m) = normalize m for every template-conformant message.
   Bottom-up: values, variables, block instances, blocks, the block list with
   the trailing-block rule, message number, ack trailer, zero-coding, header. *)
From Coq Require Import Arith NArith ZArith Ascii List Bool Lia ZifyBool ZifyNat ZifyN.
From HV Require Import Base.Bytes ZC.ZeroCode ZC.ZeroCodeProofs Tmpl.Template Tmpl.TemplateProofs Tmpl.Codec.
Import ListNotations.
Open Scope N_scope.

(* ---------- small list / reader facts ---------- *)

Lemma rd_take : forall n l, rd n l = take n l.
Proof.
  induction n as [|n IH]; intros l.
  - unfold take. cbn. reflexivity.
  - destruct l as [|x r]; [reflexivity|]. cbn [rd]. rewrite IH. unfold take. cbn [length firstn skipn].
    change (S (length r) <? S n)%nat with (length r <? n)%nat.
    destruct (length r <? n)%nat; reflexivity.
Qed.

Lemma rd_app_n n a r : length a = n -> rd n (a ++ r) = Some (a, r).
Proof. rewrite rd_take. apply take_app_n. Qed.

Lemma rd_some n l a r : rd n l = Some (a, r) -> l = a ++ r /\ length a = n.
Proof. rewrite rd_take. apply take_some. Qed.

Lemma takeN_ref n l : takeN n l = if N.of_nat (length l) <? n then None else take (N.to_nat n) l.
Proof.
  unfold takeN. rewrite rd_take. destruct (65535 <? n); [reflexivity|].
  destruct (N.of_nat (length l) <? n) eqn:E; [|reflexivity].
  apply take_none. lia.
Qed.

Lemma takeN_app_n n a r : length a = n -> takeN (N.of_nat n) (a ++ r) = Some (a, r).
Proof.
  intros <-. rewrite takeN_ref, app_length.
  replace (N.of_nat (length a + length r) <? N.of_nat (length a)) with false by lia.
  rewrite Nat2N.id. apply take_app.
Qed.

Lemma takeN_some n l a r : takeN n l = Some (a, r) -> l = a ++ r /\ N.of_nat (length a) = n.
Proof.
  rewrite takeN_ref. destruct (N.of_nat (length l) <? n) eqn:E; [discriminate|].
  intros H. apply take_some in H as [H1 H2]. split; [exact H1|]. lia.
Qed.

Lemma bytes_okb_repeat0 n : bytes_okb (repeat 0 n) = true.
Proof. induction n; [reflexivity|]. cbn. exact IHn. Qed.

Lemma list_ind4 (P : list N -> Prop) :
  P [] -> (forall a, P [a]) -> (forall a b, P [a; b]) -> (forall a b c, P [a; b; c]) ->
  (forall a b c d r, P r -> P (a :: b :: c :: d :: r)) -> forall l, P l.
Proof.
  intros H0 H1 H2 H3 H4. fix IH 1. intros [|a [|b [|c [|d r]]]].
  - exact H0.
  - apply H1.
  - apply H2.
  - apply H3.
  - apply H4. apply IH.
Qed.

Lemma lor_bit6 b : N.testbit b 6 = true -> N.lor b 64 = b.
Proof.
  intros H. apply N.bits_inj. intros n. rewrite N.lor_spec.
  change 64 with (2 ^ 6). rewrite N.pow2_bits_eqb.
  destruct (N.eqb_spec 6 n) as [<-|]; [now rewrite H | apply orb_false_r].
Qed.

Lemma quiet_snan_free : forall l, snan_free l = true -> quiet_groups l = l.
Proof.
  apply (list_ind4 (fun l => snan_free l = true -> quiet_groups l = l)); try reflexivity.
  intros a b c d r IH H. cbn [snan_free] in H. apply andb_prop in H as [H1 H2].
  apply negb_true_iff in H1. cbn [quiet_groups]. rewrite (IH H2). unfold is_snan4 in H1.
  destruct (is_nan4 a b c d); [|reflexivity].
  cbn [andb] in H1. apply negb_false_iff in H1. now rewrite lor_bit6.
Qed.

Lemma srangeb_range k z : srangeb k z = true -> signed_range k z.
Proof. unfold srangeb, signed_range. lia. Qed.

Lemma nonempty_len {A} (l : list A) : (0 < length l)%nat -> l <> [].
Proof. destruct l; cbn; [lia | discriminate]. Qed.

(* ---------- one variable ---------- *)

Lemma varlen_class t : vtype_is_varlen t = match classify t with CVar => true | _ => false end.
Proof. destruct t; reflexivity. Qed.

Lemma wf_var_class tv : wf_var tv = true ->
  match classify (vty tv) with
  | CUle k | CUbe k | CSle k | CRaw k => vsize tv = k /\ (0 < k)%nat
  | CF32 c => vsize tv = (4 * c)%nat /\ (0 < c)%nat
  | CFix => (0 < vsize tv)%nat
  | CVar => (vsize tv = 1 \/ vsize tv = 2 \/ vsize tv = 4 \/ vsize tv = 8)%nat
  end.
Proof.
  unfold wf_var. destruct (vty tv); cbn -[Nat.ltb]; intros H; lia.
Qed.

Lemma parse_pack_var tv v : wf_var tv = true -> val_ok tv v = true ->
  exists bs, pack_var tv v = Some bs /\ bs <> [] /\ bytes_okb bs = true /\
    forall r, parse_var true tv (bs ++ r) = Some (v, r).
Proof.
  intros Hwf Hok. pose proof (wf_var_class tv Hwf) as Hc.
  unfold pack_var, parse_var, pack_val, unpack_val, val_ok in *. rewrite varlen_class.
  destruct (classify (vty tv)) as [k|k|k|k|c| |] eqn:Ec; destruct v as [n|z|l|l]; try discriminate.
  - (* unsigned little endian *)
    destruct Hc as [Hs Hk]. rewrite Hok. exists (le_bytes k n). repeat split.
    + apply nonempty_len. rewrite le_bytes_length. exact Hk.
    + apply le_bytes_ok.
    + intros r. rewrite Hs, (takeN_app_n k) by apply le_bytes_length.
      rewrite le_bytes_length, Nat.eqb_refl, of_le_le_bytes by lia. reflexivity.
  - (* unsigned big endian *)
    destruct Hc as [Hs Hk]. rewrite Hok. exists (be_bytes k n). repeat split.
    + apply nonempty_len. rewrite be_bytes_length. exact Hk.
    + apply be_bytes_ok.
    + intros r. rewrite Hs, (takeN_app_n k) by apply be_bytes_length.
      rewrite be_bytes_length, Nat.eqb_refl, of_be_be_bytes by lia. reflexivity.
  - (* signed *)
    destruct Hc as [Hs Hk]. rewrite Hok. exists (le_bytes k (of_signed k z)). repeat split.
    + apply nonempty_len. rewrite le_bytes_length. exact Hk.
    + apply le_bytes_ok.
    + intros r. rewrite Hs, (takeN_app_n k) by apply le_bytes_length.
      rewrite le_bytes_length, Nat.eqb_refl, of_le_le_bytes by (now apply of_signed_lt).
      rewrite to_of_signed; [reflexivity | exact Hk | now apply srangeb_range].
  - (* raw bytes of fixed width *)
    destruct Hc as [Hs Hk]. apply andb_prop in Hok as [Hl Hb]. rewrite Hl. apply Nat.eqb_eq in Hl.
    exists l. repeat split.
    + apply nonempty_len. lia.
    + exact Hb.
    + intros r. rewrite Hs, (takeN_app_n k) by exact Hl. rewrite Hl, Nat.eqb_refl. reflexivity.
  - (* single-precision floats *)
    destruct Hc as [Hs Hk]. apply andb_prop in Hok as [Hok Hn]. apply andb_prop in Hok as [Hl Hb].
    rewrite Hl. apply Nat.eqb_eq in Hl.
    exists l. repeat split.
    + apply nonempty_len. lia.
    + exact Hb.
    + intros r. rewrite Hs, (takeN_app_n (4 * c)) by exact Hl. rewrite Hl, Nat.eqb_refl.
      now rewrite quiet_snan_free.
  - (* Fixed *)
    apply andb_prop in Hok as [Hl Hb]. apply Nat.eqb_eq in Hl.
    exists l. repeat split.
    + apply nonempty_len. lia.
    + exact Hb.
    + intros r. rewrite (takeN_app_n (vsize tv)) by exact Hl. reflexivity.
  - (* Variable *)
    apply andb_prop in Hok as [Hl Hb]. rewrite Hl.
    exists (le_bytes (vsize tv) (N.of_nat (length l)) ++ l). repeat split.
    + apply nonempty_len. rewrite app_length, le_bytes_length. lia.
    + rewrite bytes_okb_app, le_bytes_ok. exact Hb.
    + intros r. rewrite <- app_assoc, (rd_app_n (vsize tv)) by apply le_bytes_length.
      rewrite of_le_le_bytes by lia. rewrite (takeN_app_n (length l)) by reflexivity. reflexivity.
Qed.

(* ---------- default filling ---------- *)

Lemma default_val_ok tv : wf_var tv = true -> val_ok tv (default_val tv) = true.
Proof.
  destruct tv as [nm ty sz bn tx]. unfold wf_var, val_ok, default_val. cbn [vty vsize].
  destruct ty; cbn -[Nat.ltb N.pow nzeros]; intros H;
    try (apply Nat.eqb_eq in H; subst sz); try (vm_compute; reflexivity).
  - unfold nzeros. now rewrite repeat_length, Nat.eqb_refl, bytes_okb_repeat0.
  - assert (0 < 256 ^ N.of_nat sz) by (apply N.neq_0_lt_0, N.pow_nonzero; lia).
    cbn. lia.
Qed.

(* C01, second sentence: an unset variable of a fill_missing block is encoded as the
   zero value at the width the template prescribes *)
Lemma ser_var_default tv : wf_var tv = true -> ser_var tv None true = pack_var tv (default_val tv).
Proof.
  destruct tv as [nm ty sz bn tx]. unfold wf_var, ser_var, pack_var, pack_val, default_val. cbn [vty vsize].
  destruct ty; cbn -[Nat.ltb N.pow nzeros]; intros H;
    try (apply Nat.eqb_eq in H; subst sz); try (vm_compute; reflexivity).
Qed.

Lemma default_width tv : wf_var tv = true ->
  exists bs, ser_var tv None true = Some bs /\ bs = nzeros (length bs) /\
    length bs = vsize tv.
Proof.
  destruct tv as [nm ty sz bn tx]. unfold wf_var, ser_var, pack_var, pack_val. cbn [vty vsize].
  destruct ty; cbn -[Nat.ltb N.pow nzeros]; intros H;
    try (apply Nat.eqb_eq in H; subst sz);
    try (eexists; split; [reflexivity|]; split; vm_compute; reflexivity).
  - eexists; split; [reflexivity|]. unfold nzeros. rewrite repeat_length. split; reflexivity.
  - assert (Hs : (sz = 1 \/ sz = 2 \/ sz = 4 \/ sz = 8)%nat) by lia.
    destruct Hs as [->|[->|[->| ->]]]; (eexists; split; [vm_compute; reflexivity|]; split; vm_compute; reflexivity).
Qed.

Definition set_or_fill (tv : tvar) (ov : option wval) (fill : bool) : bool :=
  match ov with Some v => val_ok tv v | None => fill end.

Definition val_or_default (tv : tvar) (ov : option wval) : wval :=
  match ov with Some v => v | None => default_val tv end.

Lemma ser_var_ok tv ov fill : wf_var tv = true -> set_or_fill tv ov fill = true ->
  exists bs, ser_var tv ov fill = Some bs /\ bs <> [] /\ bytes_okb bs = true /\
    forall r, parse_var true tv (bs ++ r) = Some (val_or_default tv ov, r).
Proof.
  intros Hwf Hok. destruct ov as [v|]; cbn in Hok.
  - cbn [ser_var val_or_default]. now apply parse_pack_var.
  - subst fill. rewrite (ser_var_default tv Hwf). cbn [val_or_default].
    apply parse_pack_var; [exact Hwf | now apply default_val_ok].
Qed.

(* ---------- all variables of one block instance ---------- *)

Definition vars_ok (tvs : list tvar) (b : blk) : bool :=
  forallb (fun tv => set_or_fill tv (lookup (vname tv) (b_vars b)) (b_fill b)) tvs.

Lemma ser_vars_ok : forall tvs b, forallb wf_var tvs = true -> vars_ok tvs b = true ->
  exists bs, ser_vars tvs b = Some bs /\ (tvs <> [] -> bs <> []) /\ bytes_okb bs = true /\
    forall r, parse_vars true tvs (bs ++ r) = Some (b_vars (norm_inst tvs b), r).
Proof.
  induction tvs as [|tv tvs IH]; intros b Hwf Hok.
  - exists []. repeat split; auto.
  - cbn in Hwf, Hok. apply andb_prop in Hwf as [Hw1 Hw2]. apply andb_prop in Hok as [Ho1 Ho2].
    destruct (ser_var_ok tv _ _ Hw1 Ho1) as (x & Ex & Nx & Bx & Px).
    destruct (IH b Hw2 Ho2) as (y & Ey & _ & By & Py).
    exists (x ++ y). cbn [ser_vars]. rewrite Ex, Ey. repeat split.
    + intros _. destruct x; [congruence | discriminate].
    + now rewrite bytes_okb_app, Bx, By.
    + intros r. cbn [parse_vars]. rewrite <- app_assoc, Px, Py. cbn [norm_inst b_vars map].
      unfold var_or_default, val_or_default. reflexivity.
Qed.

Lemma ser_insts_ok : forall tvs l, forallb wf_var tvs = true -> forallb (vars_ok tvs) l = true ->
  exists bs, ser_insts tvs l = Some bs /\ (tvs <> [] -> l <> [] -> bs <> []) /\ bytes_okb bs = true /\
    forall r, parse_insts true tvs (length l) (bs ++ r) = Some (map (norm_inst tvs) l, r).
Proof.
  intros tvs l Hwf. induction l as [|b l IH]; intros Hok.
  - exists []. repeat split; auto.
  - cbn in Hok. apply andb_prop in Hok as [Ho1 Ho2].
    destruct (ser_vars_ok tvs b Hwf Ho1) as (x & Ex & Nx & Bx & Px).
    destruct (IH Ho2) as (y & Ey & _ & By & Py).
    exists (x ++ y). cbn [ser_insts]. rewrite Ex, Ey. repeat split.
    + intros Ht _. specialize (Nx Ht). destruct x; [congruence | discriminate].
    + now rewrite bytes_okb_app, Bx, By.
    + intros r. cbn [length parse_insts]. rewrite <- app_assoc, Px, Py. reflexivity.
Qed.

Lemma inst_ok_vars tvs b : inst_ok tvs b = true -> vars_ok tvs b = true.
Proof. unfold inst_ok. intros H. apply andb_prop in H as [H _]. exact H. Qed.

Lemma ser_block_ok tb l : wf_block tb = true -> block_ok tb l = true ->
  exists bs, ser_block tb l = Some bs /\ bs <> [] /\ bytes_okb bs = true /\
    forall r, parse_block true tb (bs ++ r) = Some (map (norm_inst (bvars tb)) l, r).
Proof.
  intros Hwf Hok. apply wf_block_parts in Hwf as (Hne & Hwv & _ & Hk).
  unfold block_ok in Hok. apply andb_prop in Hok as [Hc Hi].
  assert (Hi' : forallb (vars_ok (bvars tb)) l = true).
  { rewrite forallb_forall in *. intros x Hx. apply inst_ok_vars. now apply Hi. }
  destruct (ser_insts_ok (bvars tb) l Hwv Hi') as (x & Ex & Nx & Bx & Px).
  unfold ser_block, parse_block, count_ok in *. destruct (bkind_of tb) as [|n|].
  - apply Nat.eqb_eq in Hc. exists x. rewrite Ex. repeat split; auto.
    + apply Nx; [exact Hne|]. destruct l; [discriminate|discriminate].
    + intros r. rewrite <- Hc. apply Px.
  - rewrite Hc. apply Nat.eqb_eq in Hc. exists x. repeat split; auto.
    + apply Nx; [exact Hne|]. destruct l; [cbn in Hc; lia | discriminate].
    + intros r. rewrite <- Hc. apply Px.
  - rewrite Hc, Ex. exists (N.of_nat (length l) :: x). repeat split.
    + discriminate.
    + rewrite bytes_okb_cons, Bx. apply Nat.ltb_lt in Hc.
      replace (N.of_nat (length l) <? 256) with true by lia. reflexivity.
    + intros r. cbn [app]. rewrite Nat2N.id. apply Px.
Qed.

(* ---------- the block list and the trailing-block rule ---------- *)

Lemma blocks_missing : forall tbs b, blocks_ok tbs b true = true ->
  ser_blocks tbs b true = Some [] /\ norm_body tbs b = [].
Proof.
  induction tbs as [|tb r IH]; intros b H; [split; reflexivity|].
  cbn in *. destruct (lookup (bname tb) b); [discriminate|]. now apply IH.
Qed.

Lemma ser_blocks_ok : forall tbs b missing, forallb wf_block tbs = true -> blocks_ok tbs b missing = true ->
  exists bs, ser_blocks tbs b missing = Some bs /\ bytes_okb bs = true /\
    parse_blocks true tbs bs = Some (norm_body tbs b, []).
Proof.
  induction tbs as [|tb r IH]; intros b missing Hwf Hok.
  - exists []. repeat split; reflexivity.
  - cbn in Hwf. apply andb_prop in Hwf as [Hw1 Hw2].
    cbn [blocks_ok ser_blocks norm_body] in *.
    destruct (lookup (bname tb) b) as [l|] eqn:El.
    + apply andb_prop in Hok as [Hok Hr]. apply andb_prop in Hok as [Hm Hb].
      destruct missing; [discriminate|].
      destruct (ser_block_ok tb l Hw1 Hb) as (x & Ex & Nx & Bx & Px).
      destruct (IH b false Hw2 Hr) as (y & Ey & By & Py).
      exists (x ++ y). rewrite Ex, Ey. repeat split.
      * now rewrite bytes_okb_app, Bx, By.
      * destruct x as [|x0 x']; [congruence|].
        cbn [parse_blocks app]. change (x0 :: x' ++ y) with ((x0 :: x') ++ y).
        rewrite Px, Py. reflexivity.
    + destruct (blocks_missing r b Hok) as [E1 E2]. exists []. rewrite E1, E2. repeat split; reflexivity.
Qed.

Lemma norm_body_nonempty tbs b : tbs <> [] -> first_present tbs b = true -> norm_body tbs b <> [].
Proof.
  destruct tbs as [|tb r]; [congruence|]. intros _. cbn.
  destruct (lookup (bname tb) b); [discriminate|discriminate].
Qed.

(* ---------- message number ---------- *)

Lemma freq_num_bytes_len f n : length (freq_num_bytes f n) = freq_len f.
Proof. destruct f; reflexivity. Qed.

Lemma freq_len_bounds f : (1 <= freq_len f <= 4)%nat.
Proof. destruct f; cbn; lia. Qed.

Lemma freq_num_bytes_ok f n : wf_num f n = true -> bytes_okb (freq_num_bytes f n) = true.
Proof.
  destruct f; cbn; intros H; rewrite ?andb_true_r.
  - lia.
  - lia.
  - assert (n / 256 < 256) by (apply N.div_lt_upper_bound; lia).
    assert (n mod 256 < 256) by (apply N.mod_lt; lia).
    replace (n / 256 <? 256) with true by lia. replace (n mod 256 <? 256) with true by lia. reflexivity.
  - lia.
Qed.

(* the four encodings are prefix-free: the number is read back whatever follows *)
Lemma parse_msg_num_bytes f n r : wf_num f n = true ->
  parse_msg_num (freq_num_bytes f n ++ r) = Some (f, n, r).
Proof.
  unfold parse_msg_num, ff_prefix, is_ff. destruct f; cbn [freq_num_bytes app wf_num]; intros H.
  - replace (n =? 255) with false by lia. reflexivity.
  - change (255 =? 255) with true. cbn iota. replace (n =? 255) with false by lia. reflexivity.
  - change (255 =? 255) with true. cbn iota.
    assert (n / 256 < 255) by (apply N.div_lt_upper_bound; lia).
    replace (n / 256 =? 255) with false by lia. cbn [skipn].
    pose proof (N.div_mod n 256 ltac:(lia)). do 3 f_equal. lia.
  - change (255 =? 255) with true. cbn iota. reflexivity.
Qed.

(* ---------- ack trailer ---------- *)

Lemma be4_shape p : exists a b c d, be_bytes 4 p = [a; b; c; d].
Proof. unfold be_bytes. cbn [le_bytes rev app]. repeat eexists. Qed.

Lemma pow_256_4 : 256 ^ N.of_nat 4 = 4294967296.
Proof. reflexivity. Qed.

Lemma chunks4_ser : forall l bs r, ser_ack_list l = Some bs ->
  chunks4 (length l) (bs ++ r) = l /\ length bs = (4 * length l)%nat /\ bytes_okb bs = true.
Proof.
  induction l as [|a l IH]; intros bs r H.
  - cbn in H. injection H as <-. repeat split.
  - cbn [ser_ack_list] in H. destruct (a <? 2 ^ 32) eqn:Ea; [|discriminate].
    destruct (ser_ack_list l) as [x|] eqn:Ex; [|discriminate].
    destruct (IH x r eq_refl) as (C & L & B).
    pose proof (of_be_be_bytes 4 a) as Hbe. rewrite pow_256_4 in Hbe.
    change (2 ^ 32) with 4294967296 in Ea.
    pose proof (be_bytes_ok 4 a) as Hok.
    destruct (be4_shape a) as (b3 & b2 & b1 & b0 & E). rewrite E in *.
    injection H as <-.
    repeat split.
    + cbn [length chunks4 app firstn skipn]. rewrite Hbe by lia. now rewrite C.
    + cbn [length app]. lia.
    + change (bytes_okb ([b3; b2; b1; b0] ++ x) = true). rewrite bytes_okb_app, Hok, B. reflexivity.
Qed.

Lemma split_acks_ser body acks tail : body <> [] -> ser_acks acks = Some tail ->
  split_acks (body ++ tail) = Some (acks, body) /\ bytes_okb tail = true.
Proof.
  intros Hne H. unfold ser_acks in H.
  destruct (ser_ack_list (rev acks)) as [bs|] eqn:Ebs; [|discriminate].
  destruct (length acks <? 256)%nat eqn:El; [|discriminate]. injection H as <-.
  destruct (chunks4_ser (rev acks) bs [N.of_nat (length acks)] Ebs) as (C & L & B).
  rewrite rev_length in *.
  split.
  - unfold split_acks.
    replace (last (body ++ bs ++ [N.of_nat (length acks)]) 0) with (N.of_nat (length acks))
      by (rewrite !app_assoc; now rewrite last_last).
    rewrite Nat2N.id. rewrite !app_length. cbn [length]. rewrite L.
    assert (0 < length body)%nat by (destruct body; [congruence | cbn; lia]).
    replace (length body + (4 * length acks + 1) <=? 1 + 4 * length acks)%nat with false by lia.
    replace (length body + (4 * length acks + 1) - 1 - 4 * length acks)%nat with (length body) by lia.
    rewrite firstn_app, Nat.sub_diag, firstn_all, skipn_app, Nat.sub_diag, skipn_all. cbn [firstn skipn app].
    rewrite app_nil_r, C, rev_involutive. reflexivity.
  - rewrite bytes_okb_app, B. cbn. apply Nat.ltb_lt in El.
    replace (N.of_nat (length acks) <? 256) with true by lia. reflexivity.
Qed.

(* ---------- zero-coded header peek ---------- *)

Lemma app_prefix {A} (a b h r : list A) : a ++ b = h ++ r -> (length a <= length h)%nat ->
  exists h', h = a ++ h'.
Proof.
  revert h. induction a as [|x a IH]; intros h E L.
  - now exists h.
  - destruct h as [|y h]; [cbn in L; lia|].
    cbn in E. injection E as -> E. cbn in L.
    destruct (IH h E ltac:(lia)) as [h' ->]. now exists h'.
Qed.

Lemma zc_compress_nonempty s : bytes_ok s = true -> s <> [] -> zc_compress s <> [].
Proof.
  intros Hb Hne E. pose proof (nocap_compress s Hb) as H. rewrite E in H. cbn in H. congruence.
Qed.

(* expanding the first k bytes of a canonical encoding gives a prefix of the plain
   text that is long enough to hold a message number and the extra field *)
Lemma zc_peek body pre k : bytes_ok body = true -> N.of_nat (length body) <= ZC_CAP ->
  (2 * length pre <= k)%nat ->
  (exists rest, body = pre ++ rest) ->
  exists hdr h', zc_expand (firstn k (zc_compress body)) = Some hdr /\ hdr = pre ++ h'.
Proof.
  intros Hb Hcap Hk [rest Hbody].
  set (e := zc_compress body). set (p := firstn k e).
  assert (He : zc_expand e = Some body) by (now apply expand_compress).
  assert (Hre : body = zc_ref e) by (now apply expand_ref).
  destruct (ref_prefix e k) as [rest' Hpre]. fold p in Hpre.
  assert (Heb : bytes_ok e = true) by (now apply compress_bytes).
  assert (Hpb : bytes_ok p = true) by (apply (bytes_okb_firstn k e), Heb).
  assert (Hlen : N.of_nat (length (zc_ref p)) <= ZC_CAP).
  { rewrite Hre, Hpre, app_length in Hcap. lia. }
  exists (zc_ref p). 
  assert (Hex : zc_expand p = Some (zc_ref p)) by (now apply expand_defined).
  assert (Hpl : (length pre <= length (zc_ref p))%nat).
  { destruct (Nat.le_gt_cases (length e) k) as [Hle|Hgt].
    - (* the whole encoding was taken *)
      assert (p = e) by (apply firstn_all2, Hle). 
      assert (zc_ref p = body) by congruence.
      rewrite H0, Hbody, app_length. lia.
    - assert (length p = k) by (apply firstn_length_le; lia).
      pose proof (ref_growth p Hpb). lia. }
  assert (E : pre ++ rest = zc_ref p ++ rest') by congruence.
  destruct (app_prefix _ _ _ _ E Hpl) as [h' Hh]. exists h'. split; [exact Hex | exact Hh].
Qed.

(* ---------- the datagram ---------- *)

Lemma ser_ack_list_total : forall l, forallb (fun a => a <? 2 ^ 32) l = true ->
  exists bs, ser_ack_list l = Some bs.
Proof.
  induction l as [|a l IH]; intros H; [now exists []|].
  cbn [forallb] in H. apply andb_prop in H as [Ha Hl]. destruct (IH Hl) as [x Ex].
  cbn [ser_ack_list]. rewrite Ha, Ex. eauto.
Qed.

Lemma ser_acks_total acks : (length acks <? 256)%nat = true ->
  forallb (fun a => a <? 2 ^ 32) acks = true -> exists tail, ser_acks acks = Some tail.
Proof.
  intros Hl Hf. unfold ser_acks.
  assert (Hr : forallb (fun a => a <? 2 ^ 32) (rev acks) = true).
  { rewrite forallb_forall in *. intros x Hx. apply Hf. now apply in_rev. }
  destruct (ser_ack_list_total _ Hr) as [bs ->]. rewrite Hl. eauto.
Qed.

(* parse_header after its six fixed bytes *)
Definition header_tail (d : dict) (fl p3 p2 p1 p0 off : N) (rest : list N) : option msg :=
  match (if has_acks fl then split_acks rest else Some ([], rest)) with
  | None => None
  | Some (acks, bodyb) =>
      match (if zerocoded fl
             then zc_expand (firstn (10 + 2 * N.to_nat off) bodyb)
             else Some rest) with
      | None => None
      | Some hdr =>
          match parse_msg_num hdr with
          | None => None
          | Some (f, n, after_num) =>
              match find_pair d f n with
              | None => None
              | Some t =>
                  match takeN off after_num with
                  | None => None
                  | Some (extra, _) =>
                      Some {| m_name := mname t; m_flags := fl;
                              m_pid := Some (of_be [p3; p2; p1; p0]);
                              m_extra := extra; m_acks := acks;
                              m_raw := Some bodyb; m_body := [] |}
                  end
              end
          end
      end
  end.

Lemma parse_header_unfold d fl p3 p2 p1 p0 off rest : rest <> [] ->
  parse_header d (fl :: p3 :: p2 :: p1 :: p0 :: off :: rest) = header_tail d fl p3 p2 p1 p0 off rest.
Proof. destruct rest; [congruence | reflexivity]. Qed.

(* _parse_message_body once raw_body is known to be non-empty *)
Definition body_tail (q : bool) (d : dict) (m : msg) (raw : list N) : option (msg * list N) :=
  match (if zerocoded (m_flags m) then zc_expand raw else Some raw) with
  | None => None
  | Some buf =>
      match find_name d (m_name m) with
      | None => None
      | Some t =>
          match rd (freq_len (mfreq t) + length (m_extra m)) buf with
          | None => None
          | Some (_, buf1) =>
              match parse_blocks q (mblocks t) buf1 with
              | None => None
              | Some (bd, rest) =>
                  if is_nil bd && negb (is_nil (mblocks t)) then None
                  else Some ({| m_name := m_name m; m_flags := m_flags m; m_pid := m_pid m;
                                m_extra := m_extra m; m_acks := m_acks m;
                                m_raw := None; m_body := bd |}, rest)
              end
          end
      end
  end.

Lemma parse_body_unfold q d m raw : m_raw m = Some raw -> raw <> [] ->
  parse_body_rest_q q d m = body_tail q d m raw.
Proof.
  intros E N. unfold parse_body_rest_q. rewrite E. destruct raw; [congruence | reflexivity].
Qed.

Lemma conforms_parts d m : conforms d m = true ->
  exists t p, find_name d (m_name m) = Some t /\ m_pid m = Some p /\ m_raw m = None
    /\ m_flags m < 256 /\ p < 2 ^ 32 /\ (length (m_extra m) < 256)%nat /\ bytes_okb (m_extra m) = true
    /\ acks_ok (m_flags m) (m_acks m) = true
    /\ no_unknown_blocks (mblocks t) (m_body m) = true
    /\ blocks_ok (mblocks t) (m_body m) false = true
    /\ first_present (mblocks t) (m_body m) = true
    /\ body_len_ok t m = true.
Proof.
  unfold conforms. destruct (find_name d (m_name m)) as [t|]; [|discriminate].
  intros H. repeat (apply andb_prop in H as [H ?]).
  destruct (m_pid m) as [p|]; [|discriminate]. destruct (m_raw m); [discriminate|].
  exists t, p. repeat split; auto; lia.
Qed.

Theorem roundtrip d m : wf_dict d = true -> conforms d m = true ->
  exists bs, serialize d m = Some bs /\ bytes_okb bs = true /\ deserialize d bs = Some (normalize d m).
Proof.
  intros Hwf Hc.
  destruct (conforms_parts d m Hc) as (t & p & Ft & Ep & Eraw & Hfl & Hp & Hex & Bex & Hacks & Hunk & Hblk & Hfirst & Hlen).
  destruct m as [nm fl pid ex acks raw bd]. cbn [m_name m_flags m_pid m_extra m_acks m_raw m_body] in *. subst pid raw.
  destruct (find_name_some _ _ _ Ft) as [Hin Hnm].
  pose proof (wf_dict_msg d t Hwf Hin) as Hwt. apply wf_msg_parts in Hwt as (Hnum & Hwb & _).
  destruct (ser_blocks_ok (mblocks t) bd false Hwb Hblk) as (blk & Eblk & Bblk & Pblk).
  set (fnb := freq_num_bytes (mfreq t) (mnum t)).
  set (body := fnb ++ ex ++ blk).
  assert (Efnb : length fnb = freq_len (mfreq t)) by apply freq_num_bytes_len.
  assert (Bbody : bytes_okb body = true).
  { unfold body. rewrite !bytes_okb_app, Bex, Bblk. unfold fnb. now rewrite freq_num_bytes_ok. }
  assert (Nbody : body <> []).
  { unfold body. apply nonempty_len. rewrite app_length, Efnb.
    pose proof (freq_len_bounds (mfreq t)) as Hfb. clear - Hfb. lia. }
  assert (Ebody : ser_body t {| m_name := nm; m_flags := fl; m_pid := Some p; m_extra := ex; m_acks := acks;
                               m_raw := None; m_body := bd |} = Some body).
  { unfold ser_body. cbn [m_body m_extra]. now rewrite Hunk, Eblk. }
  set (bodyb := if zerocoded fl then zc_compress body else body).
  assert (Hcap : zerocoded fl = true -> N.of_nat (length body) <= ZC_CAP).
  { intros Hz. unfold body_len_ok in Hlen. cbn [m_flags] in Hlen. rewrite Hz, Ebody in Hlen.
    now apply N.leb_le in Hlen. }
  assert (Bbodyb : bytes_okb bodyb = true).
  { unfold bodyb. destruct (zerocoded fl); [|exact Bbody]. now apply compress_bytes. }
  assert (Nbodyb : bodyb <> []).
  { unfold bodyb. destruct (zerocoded fl); [|exact Nbody]. now apply zc_compress_nonempty. }
  (* the ack trailer *)
  assert (Htail : exists tail, (if has_acks fl then ser_acks acks else Some []) = Some tail
            /\ bytes_okb tail = true
            /\ (if has_acks fl then split_acks (bodyb ++ tail) else Some ([], bodyb ++ tail)) = Some (acks, bodyb)).
  { unfold acks_ok in Hacks. destruct (has_acks fl).
    - apply andb_prop in Hacks as [Hl Hf]. destruct (ser_acks_total acks Hl Hf) as [tail Et].
      exists tail. destruct (split_acks_ser bodyb acks tail Nbodyb Et) as [S B]. auto.
    - exists []. destruct acks; [|discriminate]. rewrite app_nil_r. auto. }
  destruct Htail as (tail & Etail & Btail & Stail).
  set (bs := fl :: be_bytes 4 p ++ N.of_nat (length ex) :: bodyb ++ tail).
  exists bs. split; [|split].
  - (* serialize *)
    unfold serialize. cbn [m_name m_flags m_pid m_extra m_acks m_raw m_body pid_or_0]. rewrite Ft.
    change (2 ^ 32) with 4294967296 in *.
    replace ((256 <=? fl) || (4294967296 <=? p) || (256 <=? length ex)%nat) with false by (clear - Hfl Hp Hex; lia).
    rewrite Ebody. fold bodyb. rewrite Etail. reflexivity.
  - unfold bs. rewrite bytes_okb_cons, bytes_okb_app, be_bytes_ok, bytes_okb_cons, bytes_okb_app, Bbodyb, Btail.
    replace (fl <? 256) with true by (clear - Hfl; lia).
    replace (N.of_nat (length ex) <? 256) with true by (clear - Hex; lia). reflexivity.
  - (* deserialize *)
    unfold deserialize, bs.
    pose proof (of_be_be_bytes 4 p) as Hbe. rewrite pow_256_4 in Hbe. change (2 ^ 32) with 4294967296 in Hp.
    destruct (be4_shape p) as (p3 & p2 & p1 & p0 & Eshape). rewrite Eshape in *. cbn [app].
    rewrite parse_header_unfold by (intros E; apply app_eq_nil in E as [E _]; contradiction).
    unfold header_tail. rewrite Stail, Nat2N.id.
    (* the bytes the message number and extra field are read from *)
    assert (Hhdr : exists hdr h', (if zerocoded fl then zc_expand (firstn (10 + 2 * length ex) bodyb)
                                   else Some (bodyb ++ tail)) = Some hdr
                                  /\ hdr = fnb ++ ex ++ h').
    { destruct (zerocoded fl) eqn:Ez.
      - destruct (zc_peek body (fnb ++ ex) (10 + 2 * length ex) Bbody (Hcap eq_refl)) as (hdr & h' & E1 & E2).
        + rewrite app_length, Efnb. pose proof (freq_len_bounds (mfreq t)) as Hfb. clear - Hfb. lia.
        + exists blk. unfold body. now rewrite app_assoc.
        + exists hdr, h'. unfold bodyb. split; [exact E1|]. now rewrite E2, app_assoc.
      - exists (bodyb ++ tail), (blk ++ tail). split; [reflexivity|]. unfold bodyb, body.
        now rewrite <- !app_assoc. }
    destruct Hhdr as (hdr & h' & -> & ->).
    unfold fnb at 1. rewrite parse_msg_num_bytes by exact Hnum.
    rewrite (find_pair_of_in d t Hwf Hin).
    rewrite (takeN_app_n (length ex)) by reflexivity.
    rewrite Hbe by (clear - Hp; lia).
    (* the body *)
    unfold parse_body, parse_body_rest.
    match goal with |- context [parse_body_rest_q true d ?hm] =>
      rewrite (parse_body_unfold true d hm bodyb (eq_refl : m_raw hm = Some bodyb) Nbodyb) end.
    unfold body_tail. cbn [m_raw m_flags m_name m_extra m_pid m_acks].
    assert (Eexp : (if zerocoded fl then zc_expand bodyb else Some bodyb) = Some body).
    { unfold bodyb. destruct (zerocoded fl) eqn:Ez; [|reflexivity]. apply expand_compress; auto. }
    rewrite Eexp. rewrite (find_name_of_in d t Hwf Hin).
    unfold body at 1. rewrite app_assoc.
    rewrite (rd_app_n (freq_len (mfreq t) + length ex)) by (rewrite app_length, Efnb; reflexivity).
    rewrite Pblk.
    assert (Enil : is_nil (norm_body (mblocks t) bd) && negb (is_nil (mblocks t)) = false).
    { destruct (mblocks t) as [|tb r] eqn:Emb; [reflexivity|].
      assert (N : norm_body (tb :: r) bd <> []) by (apply norm_body_nonempty; [discriminate | exact Hfirst]).
      destruct (norm_body (tb :: r) bd); [congruence | reflexivity]. }
    rewrite Enil. unfold normalize. cbn [m_name m_flags m_pid m_extra m_acks m_raw m_body]. rewrite Ft, Hnm. reflexivity.
Qed.
