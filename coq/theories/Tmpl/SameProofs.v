(* Wave 2.
   C02: a parsed message is template-conformant and already in normal form, hence (C01) its
        re-encoding decodes to the same message - canonical zero-coding or not, unread trailing
        bytes or not - whenever the re-encoded body is within the decoder's cap.
   C01: serialize d m = serialize d (normalize d m) for conformant m. *)
From Coq Require Import Arith NArith ZArith Ascii List Bool Lia ZifyBool ZifyNat ZifyN.
From HV Require Import Base.Bytes ZC.ZeroCode ZC.ZeroCodeProofs Tmpl.Template Tmpl.TemplateProofs
  Tmpl.Codec Tmpl.CodecProofs Tmpl.NormProofs Tmpl.PassProofs.
Import ListNotations.
Open Scope N_scope.

(* ---------- quieting keeps a float group a byte group and leaves no signalling NaN ---------- *)

Lemma lor64_lt b : b < 256 -> N.lor b 64 < 256.
Proof.
  intros H. destruct (N.eq_dec (N.lor b 64) 0) as [E|E]; [rewrite E; lia|].
  change 256 with (2 ^ 8). apply N.log2_lt_pow2; [lia|].
  rewrite N.log2_lor. change (N.log2 64) with 6.
  destruct (N.eq_dec b 0) as [->|Hb]; [cbn; lia|].
  assert (N.log2 b < 8) by (apply N.log2_lt_pow2; [lia | exact H]).
  lia.
Qed.

Lemma quiet_groups_length : forall l, length (quiet_groups l) = length l.
Proof.
  apply (list_ind4 (fun l => length (quiet_groups l) = length l)); try reflexivity.
  intros a b c d r IH. cbn [quiet_groups length]. now rewrite IH.
Qed.

Lemma quiet_groups_ok : forall l, bytes_okb l = true -> bytes_okb (quiet_groups l) = true.
Proof.
  apply (list_ind4 (fun l => bytes_okb l = true -> bytes_okb (quiet_groups l) = true)); auto.
  intros a b c d r IH H. cbn [quiet_groups]. rewrite !bytes_okb_cons in *.
  assert (Hc : c < 256) by lia. pose proof (lor64_lt c Hc).
  rewrite IH by lia. destruct (is_nan4 a b c d); lia.
Qed.

Lemma quiet_groups_snan_free : forall l, snan_free (quiet_groups l) = true.
Proof.
  apply (list_ind4 (fun l => snan_free (quiet_groups l) = true)); try reflexivity.
  intros a b c d r IH. cbn [quiet_groups snan_free]. rewrite IH, andb_true_r.
  unfold is_snan4. destruct (is_nan4 a b c d) eqn:E.
  - rewrite N.lor_spec. change (N.testbit 64 6) with true. rewrite orb_true_r. cbn. now rewrite andb_false_r.
  - now rewrite E.
Qed.

(* ---------- what the decoder returns is in the wire domain ---------- *)

Lemma parse_var_ok tv buf v r : wf_var tv = true -> bytes_okb buf = true ->
  parse_var true tv buf = Some (v, r) -> val_ok tv v = true /\ bytes_okb r = true.
Proof.
  intros Hwf Hb H. pose proof (wf_var_class tv Hwf) as Hc.
  unfold parse_var, unpack_val, val_ok in *. rewrite varlen_class in *.
  destruct (classify (vty tv)) as [k|k|k|k|c| |] eqn:Ec.
  1-6: destruct (takeN (N.of_nat (vsize tv)) buf) as [[pl r']|] eqn:Et; [|discriminate];
       apply takeN_some in Et as [-> El]; apply Nat2N.inj in El;
       pose proof (bytes_okb_app_l _ _ Hb) as Hpl; pose proof (bytes_okb_app_r _ _ Hb) as Hr.
  - destruct Hc as [Hs Hk]. rewrite <- Hs, El, Nat.eqb_refl in *. injection H as <- <-.
    pose proof (of_le_bound pl Hpl) as Bd. rewrite El in Bd. split; [lia | exact Hr].
  - destruct Hc as [Hs Hk]. rewrite <- Hs, El, Nat.eqb_refl in *. injection H as <- <-.
    pose proof (of_le_bound (rev pl)) as Bd. rewrite bytes_okb_rev, rev_length, El in Bd. specialize (Bd Hpl).
    fold (of_be pl) in Bd. split; [lia | exact Hr].
  - destruct Hc as [Hs Hk]. rewrite <- Hs, El, Nat.eqb_refl in *. injection H as <- <-.
    pose proof (of_le_bound pl Hpl) as Bd. rewrite El in Bd.
    split; [|exact Hr]. apply range_srangeb. now apply to_signed_range.
  - destruct Hc as [Hs Hk]. rewrite <- Hs, El, Nat.eqb_refl in *. injection H as <- <-.
    rewrite El, Nat.eqb_refl, Hpl. split; [reflexivity | exact Hr].
  - destruct Hc as [Hs Hk]. rewrite <- Hs, El, Nat.eqb_refl in *. injection H as <- <-.
    rewrite quiet_groups_length, El, Nat.eqb_refl, (quiet_groups_ok _ Hpl), quiet_groups_snan_free.
    split; [reflexivity | exact Hr].
  - injection H as <- <-. rewrite El, Nat.eqb_refl, Hpl. split; [reflexivity | exact Hr].
  - destruct (rd (vsize tv) buf) as [[p r1]|] eqn:Et; [|discriminate].
    apply rd_some in Et as [-> Elp].
    destruct (takeN (of_le p) r1) as [[pl r']|] eqn:Et2; [|discriminate].
    apply takeN_some in Et2 as [-> El]. injection H as <- <-.
    pose proof (bytes_okb_app_l _ _ Hb) as Hp. pose proof (bytes_okb_app_r _ _ Hb) as Hr1.
    pose proof (of_le_bound p Hp) as Bd. rewrite Elp in Bd.
    rewrite (bytes_okb_app_l _ _ Hr1). split; [lia | exact (bytes_okb_app_r _ _ Hr1)].
Qed.

Lemma vars_ok_cons tv tvs b :
  vars_ok (tv :: tvs) b = set_or_fill tv (lookup (vname tv) (b_vars b)) (b_fill b) && vars_ok tvs b.
Proof. reflexivity. Qed.

Lemma vars_ok_skip : forall tvs fill k v vs, ~ In k (map vname tvs) ->
  vars_ok tvs {| b_fill := fill; b_vars := (k, v) :: vs |} = vars_ok tvs {| b_fill := fill; b_vars := vs |}.
Proof.
  induction tvs as [|tv r IH]; intros fill k v vs H; [reflexivity|].
  rewrite !vars_ok_cons. cbn [b_vars b_fill lookup map] in *.
  rewrite ident_eqb_neq by (intros E; apply H; now left).
  rewrite IH by (intros Hin; apply H; now right). reflexivity.
Qed.

Lemma parse_vars_ok : forall tvs buf vs r,
  uniqb ident_eqb (map vname tvs) = true -> forallb wf_var tvs = true -> bytes_okb buf = true ->
  parse_vars true tvs buf = Some (vs, r) ->
  vars_ok tvs {| b_fill := false; b_vars := vs |} = true /\ map fst vs = map vname tvs /\ bytes_okb r = true.
Proof.
  induction tvs as [|tv tvs IH]; intros buf vs r Hu Hwf Hb H.
  - cbn in H. injection H as <- <-. repeat split. exact Hb.
  - cbn [parse_vars] in H. cbn [forallb] in Hwf. apply andb_prop in Hwf as [Hw1 Hw2].
    destruct (parse_var true tv buf) as [[v buf1]|] eqn:Ev; [|discriminate].
    destruct (parse_vars true tvs buf1) as [[vs' buf2]|] eqn:Evs; [|discriminate].
    injection H as <- <-.
    destruct (parse_var_ok tv buf v buf1 Hw1 Hb Ev) as [Hv Hb1].
    pose proof (uniqb_notin _ _ Hu) as Hn. cbn [map] in Hu.
    destruct (IH buf1 vs' buf2 (uniqb_tail _ _ _ _ Hu) Hw2 Hb1 Evs) as (Hok & Hk & Hb2).
    repeat split.
    + rewrite vars_ok_cons. cbn [b_vars b_fill lookup]. rewrite ident_eqb_refl. cbn [set_or_fill]. rewrite Hv.
      cbn [andb]. now rewrite vars_ok_skip.
    + cbn [map fst]. now rewrite Hk.
    + exact Hb2.
Qed.

Lemma keys_known {A} (vs : list (ident * A)) names : map fst vs = names ->
  forallb (fun kv => existsb (ident_eqb (fst kv)) names) vs = true.
Proof.
  intros <-. apply forallb_forall. intros kv Hin. apply existsb_exists. exists (fst kv).
  split; [now apply in_map | apply ident_eqb_refl].
Qed.

Lemma parse_insts_ok : forall n tvs buf l r,
  uniqb ident_eqb (map vname tvs) = true -> forallb wf_var tvs = true -> bytes_okb buf = true ->
  parse_insts true tvs n buf = Some (l, r) ->
  forallb (inst_ok tvs) l = true /\ map (norm_inst tvs) l = l /\ length l = n /\ bytes_okb r = true.
Proof.
  induction n as [|n IH]; intros tvs buf l r Hu Hwf Hb H.
  - cbn in H. injection H as <- <-. repeat split. exact Hb.
  - cbn [parse_insts] in H.
    destruct (parse_vars true tvs buf) as [[vs buf1]|] eqn:Ev; [|discriminate].
    destruct (parse_insts true tvs n buf1) as [[bs' buf2]|] eqn:Ei; [|discriminate].
    injection H as <- <-.
    destruct (parse_vars_ok tvs buf vs buf1 Hu Hwf Hb Ev) as (Hok & Hk & Hb1).
    destruct (IH tvs buf1 bs' buf2 Hu Hwf Hb1 Ei) as (Hi & Hm & Hl & Hb2).
    repeat split.
    + cbn [forallb]. rewrite Hi, andb_true_r.
      change (inst_ok tvs {| b_fill := false; b_vars := vs |})
        with (vars_ok tvs {| b_fill := false; b_vars := vs |}
              && forallb (fun kv => existsb (ident_eqb (fst kv)) (map vname tvs)) vs).
      rewrite Hok. cbn [andb]. now apply keys_known.
    + cbn [map]. rewrite Hm. f_equal. apply norm_inst_fix; [exact Hu|]. split; [reflexivity | exact Hk].
    + cbn [length]. now rewrite Hl.
    + exact Hb2.
Qed.

Lemma parse_block_ok tb buf l r : wf_block tb = true -> bytes_okb buf = true ->
  parse_block true tb buf = Some (l, r) ->
  block_ok tb l = true /\ map (norm_inst (bvars tb)) l = l /\ bytes_okb r = true.
Proof.
  intros Hwf Hb H. apply wf_block_parts in Hwf as (_ & Hwv & Hu & _).
  unfold parse_block, block_ok, count_ok in *. destruct (bkind_of tb) as [|n|].
  - destruct (parse_insts_ok 1 _ buf l r Hu Hwv Hb H) as (Hi & Hm & Hl & Hr). rewrite Hi, Hl. auto.
  - destruct (parse_insts_ok n _ buf l r Hu Hwv Hb H) as (Hi & Hm & Hl & Hr). rewrite Hi, Hl, Nat.eqb_refl. auto.
  - destruct buf as [|c buf1]; [discriminate|].
    rewrite bytes_okb_cons in Hb. apply andb_prop in Hb as [Hc Hb1].
    destruct (parse_insts_ok (N.to_nat c) _ buf1 l r Hu Hwv Hb1 H) as (Hi & Hm & Hl & Hr).
    rewrite Hi, Hl. replace (N.to_nat c <? 256)%nat with true by lia. auto.
Qed.

Lemma blocks_ok_skip : forall tbs k v bd ms, ~ In k (map bname tbs) ->
  blocks_ok tbs ((k, v) :: bd) ms = blocks_ok tbs bd ms.
Proof.
  induction tbs as [|tb r IH]; intros k v bd ms H; [reflexivity|].
  cbn [blocks_ok lookup map] in *.
  rewrite ident_eqb_neq by (intros E; apply H; now left).
  assert (Hr : ~ In k (map bname r)) by (intros Hin; apply H; now right).
  destruct (lookup (bname tb) bd); rewrite !IH by exact Hr; reflexivity.
Qed.

Lemma norm_body_skip : forall tbs k v bd, ~ In k (map bname tbs) ->
  norm_body tbs ((k, v) :: bd) = norm_body tbs bd.
Proof.
  induction tbs as [|tb r IH]; intros k v bd H; [reflexivity|].
  cbn [norm_body lookup map] in *.
  rewrite ident_eqb_neq by (intros E; apply H; now left).
  assert (Hr : ~ In k (map bname r)) by (intros Hin; apply H; now right).
  destruct (lookup (bname tb) bd); rewrite !IH by exact Hr; reflexivity.
Qed.

Lemma blocks_ok_nil : forall tbs ms, blocks_ok tbs [] ms = true.
Proof. induction tbs as [|tb r IH]; intros ms; [reflexivity|]. cbn. apply IH. Qed.

Lemma norm_body_nil : forall tbs, norm_body tbs [] = [].
Proof. induction tbs as [|tb r IH]; [reflexivity|]. cbn. exact IH. Qed.

Lemma parse_blocks_ok : forall tbs buf bd rest,
  uniqb ident_eqb (map bname tbs) = true -> forallb wf_block tbs = true -> bytes_okb buf = true ->
  parse_blocks true tbs buf = Some (bd, rest) ->
  blocks_ok tbs bd false = true /\ norm_body tbs bd = bd /\ no_unknown_blocks tbs bd = true
  /\ (bd = [] \/ first_present tbs bd = true).
Proof.
  induction tbs as [|tb r IH]; intros buf bd rest Hu Hwf Hb H.
  - cbn in H. injection H as <- <-. repeat split. now left.
  - cbn [parse_blocks] in H. destruct buf as [|c0 buf0] eqn:Ebuf.
    + injection H as <- <-. rewrite blocks_ok_nil, norm_body_nil. repeat split. now left.
    + rewrite <- Ebuf in *. clear Ebuf.
      cbn [forallb] in Hwf. apply andb_prop in Hwf as [Hw1 Hw2].
      destruct (parse_block true tb buf) as [[insts buf1]|] eqn:Eb; [|discriminate].
      destruct (parse_blocks true r buf1) as [[bd' rest']|] eqn:Er; [|discriminate].
      injection H as <- <-.
      destruct (parse_block_ok tb buf insts buf1 Hw1 Hb Eb) as (Hbo & Hm & Hb1).
      pose proof (uniqb_notin _ _ Hu) as Hn. cbn [map] in Hu.
      destruct (IH buf1 bd' rest' (uniqb_tail _ _ _ _ Hu) Hw2 Hb1 Er) as (Hok & Hnb & Hk & _).
      repeat split.
      * cbn [blocks_ok lookup]. rewrite ident_eqb_refl, Hbo. cbn [negb andb].
        now rewrite blocks_ok_skip.
      * cbn [norm_body lookup]. rewrite ident_eqb_refl, Hm. f_equal.
        now rewrite norm_body_skip.
      * unfold no_unknown_blocks. cbn [forallb fst map existsb]. rewrite ident_eqb_refl. cbn [orb andb].
        exact (no_unknown_weaken tb r bd' Hk).
      * right. cbn [first_present lookup]. now rewrite ident_eqb_refl.
Qed.

(* ---------- what the header parser returns ---------- *)

Lemma ser_ack_list_ok : forall l bs, ser_ack_list l = Some bs -> forallb (fun a => a <? 2 ^ 32) l = true.
Proof.
  induction l as [|a l IH]; intros bs H; [reflexivity|].
  cbn [ser_ack_list] in H. destruct (a <? 2 ^ 32) eqn:Ea; [|discriminate].
  destruct (ser_ack_list l) as [x|] eqn:Ex; [|discriminate].
  cbn [forallb]. rewrite Ea. exact (IH x eq_refl).
Qed.

Lemma ser_acks_ok acks tail : ser_acks acks = Some tail ->
  (length acks <? 256)%nat = true /\ forallb (fun a => a <? 2 ^ 32) acks = true.
Proof.
  unfold ser_acks. destruct (ser_ack_list (rev acks)) as [bs|] eqn:E; [|discriminate].
  destruct (length acks <? 256)%nat; [|discriminate]. intros _. split; [reflexivity|].
  apply ser_ack_list_ok in E. rewrite forallb_forall in *. intros x Hx. apply E. now apply -> in_rev.
Qed.

Lemma header_facts d b m : bytes_okb b = true -> parse_header d b = Some m ->
  exists t p raw, In t d /\ m_name m = mname t /\ m_flags m < 256 /\ m_pid m = Some p /\ p < 2 ^ 32
    /\ (length (m_extra m) < 256)%nat /\ bytes_okb (m_extra m) = true
    /\ acks_ok (m_flags m) (m_acks m) = true
    /\ m_raw m = Some raw /\ raw <> [] /\ bytes_okb raw = true /\ m_body m = [].
Proof.
  intros Hb H. destruct (parse_header_inv d b m H) as (fl & p3 & p2 & p1 & p0 & off & rest & -> & Hne & Ht).
  unfold header_tail in Ht.
  rewrite !bytes_okb_cons in Hb.
  assert (Hfl : fl < 256) by lia. assert (Hoff : off < 256) by lia.
  assert (Hb4 : bytes_okb [p3; p2; p1; p0] = true) by (cbn [bytes_okb forallb]; lia).
  assert (Hrest : bytes_okb rest = true) by lia. clear Hb.
  destruct (if has_acks fl then split_acks rest else Some ([], rest)) as [[acks bodyb]|] eqn:Ea; [|discriminate].
  destruct (if zerocoded fl then zc_expand (firstn (10 + 2 * N.to_nat off) bodyb) else Some rest) as [hdr|] eqn:Eh; [|discriminate].
  destruct (parse_msg_num hdr) as [[[f n] after]|] eqn:En; [|discriminate].
  destruct (find_pair d f n) as [t|] eqn:Ft; [|discriminate].
  destruct (takeN off after) as [[extra x]|] eqn:Ex; [|discriminate].
  injection Ht as <-.
  apply find_pair_some in Ft as (Hin & <- & <-).
  apply takeN_some in Ex as [-> Ex].
  assert (Htail : exists tail, (if has_acks fl then ser_acks acks else Some []) = Some tail /\ rest = bodyb ++ tail /\ bodyb <> []).
  { destruct (has_acks fl).
    - now apply split_acks_inv.
    - injection Ea as <- <-. exists []. now rewrite app_nil_r. }
  destruct Htail as (tail & Et & -> & Nb).
  pose proof (bytes_okb_app_l _ _ Hrest) as Bbodyb.
  assert (Bhdr : bytes_okb hdr = true).
  { destruct (zerocoded fl); [|now injection Eh as <-].
    apply (expand_bytes _ _ (bytes_okb_firstn _ _ Bbodyb) Eh). }
  pose proof (parse_msg_num_inv hdr _ _ _ Bhdr En) as Ehdr.
  assert (Bex : bytes_okb extra = true).
  { rewrite Ehdr in Bhdr. apply bytes_okb_app_r in Bhdr. now apply bytes_okb_app_l in Bhdr. }
  pose proof (of_be4_bound _ _ _ _ Hb4) as Hp.
  exists t, (of_be [p3; p2; p1; p0]), bodyb.
  cbn [m_name m_flags m_pid m_extra m_acks m_raw m_body].
  repeat split; auto; try lia.
  unfold acks_ok. destruct (has_acks fl).
  - apply ser_acks_ok in Et as [E1 E2]. now rewrite E1, E2.
  - now injection Ea as <- _.
Qed.

(* ---------- C02: same message ---------- *)

(* the re-encoded body fits under the decoder's cap (only matters for zero-coded messages) *)
Definition recode_within_cap (d : dict) (m : msg) : bool :=
  match find_name d (m_name m) with Some t => body_len_ok t m | None => false end.

Theorem parsed_conforms d b m m' : wf_dict d = true -> bytes_okb b = true ->
  parse_header d b = Some m -> parse_body d m = Some m' ->
  recode_within_cap d m' = true ->
  conforms d m' = true /\ normalize d m' = m'.
Proof.
  intros Hwf Hb H Hbody Hcap.
  destruct (header_facts d b m Hb H) as (t & p & raw & Hin & Enm & Hfl & Epid & Hp & Hex & Bex & Hacks & Eraw & Nraw & Braw & Ebd).
  unfold parse_body, parse_body_rest in Hbody.
  rewrite (parse_body_unfold true d m raw Eraw Nraw) in Hbody. unfold body_tail in Hbody.
  destruct (if zerocoded (m_flags m) then zc_expand raw else Some raw) as [buf|] eqn:Ebuf; [|discriminate].
  rewrite Enm, (find_name_of_in d t Hwf Hin) in Hbody.
  destruct (rd (freq_len (mfreq t) + length (m_extra m)) buf) as [[pre buf1]|] eqn:Etk; [|discriminate].
  destruct (parse_blocks true (mblocks t) buf1) as [[bd rest1]|] eqn:Epb; [|discriminate].
  destruct (is_nil bd && negb (is_nil (mblocks t))) eqn:Enil; [discriminate|].
  injection Hbody as <-.
  apply rd_some in Etk as [-> _].
  assert (Bbuf : bytes_okb (pre ++ buf1) = true).
  { destruct (zerocoded (m_flags m)); [exact (expand_bytes _ _ Braw Ebuf) | now injection Ebuf as <-]. }
  pose proof (wf_dict_msg d t Hwf Hin) as Hwt. apply wf_msg_parts in Hwt as (_ & Hwb & Hub).
  destruct (parse_blocks_ok (mblocks t) buf1 bd rest1 Hub Hwb (bytes_okb_app_r _ _ Bbuf) Epb) as (Hok & Hnb & Hk & Hfp).
  assert (Hfirst : first_present (mblocks t) bd = true).
  { destruct Hfp as [-> | Hfp]; [|exact Hfp].
    destruct (mblocks t); [reflexivity | discriminate]. }
  unfold recode_within_cap in Hcap. cbn [m_name] in Hcap. rewrite (find_name_of_in d t Hwf Hin) in Hcap.
  split.
  - unfold conforms. cbn [m_name m_flags m_pid m_extra m_acks m_raw m_body].
    rewrite (find_name_of_in d t Hwf Hin), Hcap, Epid, Bex, Hacks, Hk, Hok, Hfirst.
    replace (m_flags m <? 256) with true by (clear - Hfl; lia).
    replace (p <? 2 ^ 32) with true by (clear - Hp; change (2 ^ 32) with 4294967296 in *; lia).
    replace (length (m_extra m) <? 256)%nat with true by (clear - Hex; lia). reflexivity.
  - unfold normalize. cbn [m_name m_flags m_pid m_extra m_acks m_raw m_body].
    rewrite (find_name_of_in d t Hwf Hin), Hnb. reflexivity.
Qed.

Theorem same_message d b m m' : wf_dict d = true -> bytes_okb b = true ->
  parse_header d b = Some m -> parse_body d m = Some m' ->
  recode_within_cap d m' = true ->
  exists b', serialize d m' = Some b' /\ bytes_okb b' = true /\ deserialize d b' = Some m'.
Proof.
  intros Hwf Hb H Hbody Hcap.
  destruct (parsed_conforms d b m m' Hwf Hb H Hbody Hcap) as [Hc Hn].
  destruct (roundtrip d m' Hwf Hc) as (b' & E1 & E2 & E3). rewrite Hn in E3. eauto.
Qed.

(* ---------- C01: normalize does not change the encoding ---------- *)

Lemma ser_vars_norm : forall tvs' tvs b, (forall tv, In tv tvs' -> In tv tvs) ->
  uniqb ident_eqb (map vname tvs) = true -> forallb wf_var tvs' = true -> vars_ok tvs' b = true ->
  ser_vars tvs' (norm_inst tvs b) = ser_vars tvs' b.
Proof.
  induction tvs' as [|tv r IH]; intros tvs b Hsub Hu Hwf Hok; [reflexivity|].
  cbn [forallb] in Hwf. apply andb_prop in Hwf as [Hw1 Hw2].
  rewrite vars_ok_cons in Hok. apply andb_prop in Hok as [Ho1 Ho2].
  cbn [ser_vars]. rewrite (norm_inst_lookup tvs b tv Hu (Hsub tv (or_introl eq_refl))).
  rewrite (IH tvs b (fun x Hx => Hsub x (or_intror Hx)) Hu Hw2 Ho2).
  replace (ser_var tv (Some (var_or_default tv b)) (b_fill (norm_inst tvs b)))
    with (ser_var tv (lookup (vname tv) (b_vars b)) (b_fill b)); [reflexivity|].
  unfold var_or_default. destruct (lookup (vname tv) (b_vars b)) as [v|]; [reflexivity|].
  cbn [set_or_fill] in Ho1. rewrite Ho1. rewrite (ser_var_default tv Hw1). reflexivity.
Qed.

Lemma ser_insts_norm : forall tvs l, uniqb ident_eqb (map vname tvs) = true -> forallb wf_var tvs = true ->
  forallb (vars_ok tvs) l = true -> ser_insts tvs (map (norm_inst tvs) l) = ser_insts tvs l.
Proof.
  intros tvs l Hu Hwf. induction l as [|b l IH]; intros Hok; [reflexivity|].
  cbn [forallb] in Hok. apply andb_prop in Hok as [Ho1 Ho2].
  cbn [map ser_insts]. rewrite (ser_vars_norm tvs tvs b (fun _ H => H) Hu Hwf Ho1), (IH Ho2). reflexivity.
Qed.

Lemma ser_block_norm tb l : wf_block tb = true -> block_ok tb l = true ->
  ser_block tb (map (norm_inst (bvars tb)) l) = ser_block tb l.
Proof.
  intros Hwf Hok. apply wf_block_parts in Hwf as (_ & Hwv & Hu & _).
  unfold block_ok in Hok. apply andb_prop in Hok as [_ Hi].
  assert (Hi' : forallb (vars_ok (bvars tb)) l = true).
  { rewrite forallb_forall in *. intros x Hx. apply inst_ok_vars. now apply Hi. }
  unfold ser_block. rewrite map_length, (ser_insts_norm _ l Hu Hwv Hi'). reflexivity.
Qed.

Lemma ser_blocks_norm : forall tbs bd ms, uniqb ident_eqb (map bname tbs) = true ->
  forallb wf_block tbs = true -> blocks_ok tbs bd ms = true ->
  ser_blocks tbs (norm_body tbs bd) ms = ser_blocks tbs bd ms.
Proof.
  induction tbs as [|tb r IH]; intros bd ms Hu Hwf Hok; [reflexivity|].
  pose proof (uniqb_notin _ _ Hu) as Hn. cbn [map] in Hu.
  cbn [forallb] in Hwf. apply andb_prop in Hwf as [Hw1 Hw2].
  cbn [blocks_ok norm_body] in *. cbn [ser_blocks].
  destruct (lookup (bname tb) bd) as [l|] eqn:El.
  - apply andb_prop in Hok as [Hok Hr]. apply andb_prop in Hok as [Hm Hb].
    cbn [lookup]. rewrite ident_eqb_refl. destruct ms; [reflexivity|].
    rewrite (ser_block_norm tb l Hw1 Hb), ser_blocks_skip by exact Hn.
    rewrite (IH bd false (uniqb_tail _ _ _ _ Hu) Hw2 Hr). reflexivity.
  - rewrite (norm_body_notin r bd (bname tb) Hn).
    apply (IH bd true (uniqb_tail _ _ _ _ Hu) Hw2 Hok).
Qed.

Lemma norm_body_keys : forall tbs bd, no_unknown_blocks tbs (norm_body tbs bd) = true.
Proof.
  induction tbs as [|tb r IH]; intros bd; [reflexivity|].
  cbn [norm_body]. destruct (lookup (bname tb) bd).
  - unfold no_unknown_blocks. cbn [forallb fst map existsb]. rewrite ident_eqb_refl. cbn [orb andb].
    exact (no_unknown_weaken tb r _ (IH bd)).
  - exact (no_unknown_weaken tb r _ (IH bd)).
Qed.

Theorem serialize_normalize d m : wf_dict d = true -> conforms d m = true ->
  serialize d m = serialize d (normalize d m).
Proof.
  intros Hwf Hc.
  destruct (conforms_parts d m Hc) as (t & p & Ft & Ep & Eraw & Hfl & Hp & Hex & Bex & Hacks & Hunk & Hblk & Hfirst & Hlen).
  destruct m as [nm fl pid ex acks raw bd]. cbn [m_name m_flags m_pid m_extra m_acks m_raw m_body] in *. subst pid raw.
  destruct (find_name_some _ _ _ Ft) as [Hin Hnm].
  pose proof (wf_dict_msg d t Hwf Hin) as Hwt. apply wf_msg_parts in Hwt as (_ & Hwb & Hub).
  unfold normalize. cbn [m_name m_flags m_pid m_extra m_acks m_raw m_body]. rewrite Ft.
  unfold serialize. cbn [m_name m_flags m_pid m_extra m_acks m_raw m_body]. rewrite Ft.
  unfold ser_body. cbn [m_body m_extra].
  rewrite Hunk, norm_body_keys, (ser_blocks_norm (mblocks t) bd false Hub Hwb Hblk). reflexivity.
Qed.

Theorem conforms_accepted d m : wf_dict d = true -> conforms d m = true -> serialize d m <> None.
Proof.
  intros Hwf Hc. destruct (roundtrip d m Hwf Hc) as (bs & E & _). congruence.
Qed.
