(* What [normalize] (the right-hand side of the round-trip theorem) keeps:
   looked up by name - the way Python reads Message.blocks / Block.vars - every
   present block has the same number of instances, every set variable its value,
   every unset variable the default. *)
From Coq Require Import Arith NArith Ascii List Bool Lia.
From HV Require Import Base.Bytes Tmpl.Template Tmpl.TemplateProofs Tmpl.Codec.
Import ListNotations.
Open Scope N_scope.

Lemma lookup_map_notin {A} (f : tvar -> A) : forall tvs k,
  ~ In k (map vname tvs) -> lookup k (map (fun tv => (vname tv, f tv)) tvs) = None.
Proof.
  induction tvs as [|tv r IH]; intros k H; [reflexivity|].
  cbn in *. rewrite ident_eqb_neq by (intros E; apply H; now left).
  apply IH. intros Hin. apply H. now right.
Qed.

Lemma norm_inst_lookup : forall tvs b tv,
  uniqb ident_eqb (map vname tvs) = true -> In tv tvs ->
  lookup (vname tv) (b_vars (norm_inst tvs b)) = Some (var_or_default tv b).
Proof.
  induction tvs as [|tv0 r IH]; intros b tv Hu Hin; [contradiction|].
  cbn [norm_inst b_vars map lookup].
  destruct Hin as [->|Hin].
  - now rewrite ident_eqb_refl.
  - pose proof (uniqb_notin _ _ Hu) as Hn. cbn [map] in Hu.
    rewrite ident_eqb_neq.
    + apply (IH b tv (uniqb_tail _ _ _ _ Hu) Hin).
    + intros E. apply Hn. rewrite E. now apply in_map.
Qed.

Lemma norm_inst_only_template : forall tvs b k,
  ~ In k (map vname tvs) -> lookup k (b_vars (norm_inst tvs b)) = None.
Proof. intros. cbn. now apply lookup_map_notin. Qed.

Lemma norm_body_notin : forall tbs bd k, ~ In k (map bname tbs) -> lookup k (norm_body tbs bd) = None.
Proof.
  induction tbs as [|tb r IH]; intros bd k H; [reflexivity|].
  cbn in *. destruct (lookup (bname tb) bd).
  - cbn. rewrite ident_eqb_neq by (intros E; apply H; now left). apply IH. tauto.
  - apply IH. tauto.
Qed.

Lemma norm_body_lookup : forall tbs bd tb,
  uniqb ident_eqb (map bname tbs) = true -> In tb tbs ->
  lookup (bname tb) (norm_body tbs bd) =
  match lookup (bname tb) bd with
  | Some l => Some (map (norm_inst (bvars tb)) l)
  | None => None
  end.
Proof.
  induction tbs as [|tb0 r IH]; intros bd tb Hu Hin; [contradiction|].
  pose proof (uniqb_notin _ _ Hu) as Hn. cbn [map] in Hu.
  cbn [norm_body]. destruct Hin as [->|Hin].
  - destruct (lookup (bname tb) bd).
    + cbn. now rewrite ident_eqb_refl.
    + now apply norm_body_notin.
  - assert (Hne : bname tb0 <> bname tb).
    { intros E. apply Hn. rewrite E. now apply in_map. }
    destruct (lookup (bname tb0) bd).
    + cbn [lookup]. rewrite ident_eqb_neq by exact Hne. apply IH; [exact (uniqb_tail _ _ _ _ Hu) | exact Hin].
    + apply IH; [exact (uniqb_tail _ _ _ _ Hu) | exact Hin].
Qed.

(* messages that are already in decoded form are fixed points *)
Definition inst_normal (tvs : list tvar) (b : blk) : Prop :=
  b_fill b = false /\ map fst (b_vars b) = map vname tvs.

Lemma lookup_head_skip {A} : forall (vs : list (ident * A)) k v k',
  k <> k' -> lookup k' ((k, v) :: vs) = lookup k' vs.
Proof. intros. cbn. now rewrite ident_eqb_neq. Qed.

Lemma norm_inst_fix : forall tvs b, uniqb ident_eqb (map vname tvs) = true ->
  inst_normal tvs b -> norm_inst tvs b = b.
Proof.
  intros tvs [fill vs] Hu [Hf Hk]. cbn in Hf, Hk. subst fill. unfold norm_inst. f_equal.
  cbn [b_vars b_fill]. unfold var_or_default. cbn [b_vars].
  revert vs Hk. induction tvs as [|tv r IH]; intros vs Hk.
  - destruct vs; [reflexivity|discriminate].
  - destruct vs as [|[k v] vs']; [discriminate|]. cbn in Hk. injection Hk as -> Hk.
    pose proof (uniqb_notin _ _ Hu) as Hn. cbn [map] in Hu.
    cbn [map lookup]. rewrite ident_eqb_refl. f_equal.
    etransitivity; [|exact (IH (uniqb_tail _ _ _ _ Hu) vs' Hk)].
    apply map_ext_in. intros tv' Hin.
    rewrite ident_eqb_neq; [reflexivity|].
    intros E. apply Hn. rewrite E. now apply in_map.
Qed.
