(* C06 - routing state machine of the intercepting SOCKS5/LLUDP proxy with no addon:
     hippolyzer/lib/proxy/socks_proxy.py : UDPProxyProtocol.datagram_received          (recv)
     hippolyzer/lib/proxy/lludp_proxy.py : InterceptingLLUDPProxyProtocol.handle_proxied_packet (handle)
     hippolyzer/lib/proxy/sessions.py    : SessionManager.claim_session, Session.open_circuit
     hippolyzer/lib/client/state.py      : BaseClientSession.region_by_circuit_addr, BaseClientRegion.mark_dead
     hippolyzer/lib/base/message/message_dot_xml.py : MessageDotXML.validate_udp_msg
     hippolyzer/lib/base/message/circuit.py : Circuit.send_datagram (destination of a forwarded message)
   Message decoding is a section-local oracle [decode] (the codec is the subject of
   C01/C02, the circuit's ID/ack rewriting of C04/C05), so everything here is about
   routing.  Definitions only; lemmas in UdpProxyProofs.v. *)
From Coq Require Import NArith List Bool String Ascii.
From HV Require Import Base.Bytes Proxy.Socks.
Import ListNotations.
Open Scope N_scope.

(* ---------- message.xml: which message names may travel over UDP ---------- *)

Inductive flavor := FTemplate | FOther | FMissing.   (* 'template' | any other flavor | no 'flavor' key *)

(* parsed_llsd['messages'] of hippolyzer/lib/base/message/data/message.xml, in file order.
   Regenerated from the live file on every run (gen/C06_gen.v) and compared with this table. *)
Definition message_xml_src : list (string * flavor) :=
  [("PacketAck", FTemplate);
   ("OpenCircuit", FOther);
   ("CloseCircuit", FTemplate);
   ("StartPingCheck", FTemplate);
   ("CompletePingCheck", FTemplate);
   ("AddCircuitCode", FTemplate);
   ("UseCircuitCode", FTemplate);
   ("CreateTrustedCircuit", FTemplate);
   ("RequestTrustedCircuit", FTemplate);
   ("ReportAutosaveCrash", FTemplate);
   ("SetCPURatio", FTemplate);
   ("CompleteAgentMovement", FTemplate);
   ("EconomyDataRequest", FTemplate);
   ("ViewerEffect", FTemplate);
   ("RegionHandshakeReply", FTemplate);
   ("AgentUpdate", FTemplate);
   ("ImagePacket", FTemplate);
   ("LayerData", FTemplate);
   ("ObjectUpdateCached", FTemplate);
   ("ObjectUpdateCompressed", FTemplate);
   ("ObjectUpdate", FTemplate);
   ("ImprovedTerseObjectUpdate", FTemplate);
   ("AvatarAnimation", FTemplate);
   ("ObjectAnimation", FTemplate);
   ("AvatarAppearance", FTemplate);
   ("GodKickUser", FOther);
   ("RoutedMoneyBalanceReply", FOther);
   ("EdgeDataPacket", FTemplate);
   ("CoarseLocationUpdate", FTemplate);
   ("SimulatorLoad", FTemplate);
   ("EstablishAgentCommunication", FOther);
   ("AgentGroupDataUpdate", FOther);
   ("AgentDropGroup", FOther);
   ("ChatterBoxSessionStartReply", FOther);
   ("ChatterBoxSessionEventReply", FOther);
   ("ForceCloseChatterBoxSession", FOther);
   ("ChatterBoxSessionAgentListUpdates", FOther);
   ("ChatterBoxSessionUpdate", FOther);
   ("ChatterBoxInvitation", FOther);
   ("ParcelVoiceInfoRequest", FOther);
   ("DisplayNameUpdate", FOther);
   ("OpenRegionInfo", FOther);
   ("WindLightRefresh", FOther);
   ("ParcelVoiceInfo", FOther);
   ("ParcelNavigateMedia", FOther);
   ("ParcelObjectOwnersReply", FOther);
   ("ParcelProperties", FOther);
   ("LandStatReply", FOther);
   ("PlacesReply", FOther);
   ("SetDisplayNameReply", FOther);
   ("SimConsoleResponse", FOther);
   ("DirLandReply", FOther);
   ("avatarnotesrequest", FMissing);
   ("avatarclassifiedsrequest", FMissing);
   ("avatarpicksrequest", FMissing);
   ("pickinforequest", FMissing);
   ("ProvisionVoiceAccountRequest", FOther);
   ("RequiredVoiceVersion", FOther);
   ("EnableSimulator", FOther);
   ("TeleportFinish", FOther);
   ("TeleportFailed", FOther);
   ("CrossedRegion", FOther);
   ("NavMeshStatusUpdate", FOther);
   ("AgentStateUpdate", FOther);
   ("ScriptRunningReply", FOther);
   ("StartGroupProposal", FOther);
   ("FetchInventoryDescendents", FTemplate);
   ("GroupProposalBallot", FOther);
   ("RpcScriptRequestInboundForward", FOther);
   ("ObjectPhysicsProperties", FOther)]%string.

(* Message names are ASCII; the model carries them as byte lists (the extracted model then
   needs no Coq [string] type).  [name_of] is only ever applied to literals, under [Eval]. *)
Definition name := list N.
Fixpoint name_of (s : string) : name :=
  match s with
  | EmptyString => []
  | String c r => N_of_ascii c :: name_of r
  end.
Definition name_eqb : name -> name -> bool := bytes_eqb.

Definition message_xml : list (name * flavor) :=
  Eval vm_compute in map (fun nf => (name_of (fst nf), snd nf)) message_xml_src.

Fixpoint xml_lookup (t : list (name * flavor)) (nm : name) : option flavor :=
  match t with
  | [] => None
  | (n, f) :: r => if name_eqb n nm then Some f else xml_lookup r nm
  end.

Definition n_UseCircuitCode : name := Eval vm_compute in name_of "UseCircuitCode".
Definition n_PacketAck : name := Eval vm_compute in name_of "PacketAck".
Definition n_RegionHandshake : name := Eval vm_compute in name_of "RegionHandshake".
Definition n_AgentDataUpdate : name := Eval vm_compute in name_of "AgentDataUpdate".
Definition n_StartPingCheck : name := Eval vm_compute in name_of "StartPingCheck".
Definition n_CloseCircuit : name := Eval vm_compute in name_of "CloseCircuit".
Definition n_DisableSimulator : name := Eval vm_compute in name_of "DisableSimulator".
Definition n_AgentMovementComplete : name := Eval vm_compute in name_of "AgentMovementComplete".
Definition n_ChatFromViewer : name := Eval vm_compute in name_of "ChatFromViewer".
Definition n_ChatFromSimulator : name := Eval vm_compute in name_of "ChatFromSimulator".

(* validate_udp_msg: Some b = returns b; None = KeyError('flavor') *)
Definition validate_udp_msg (name : name) : option bool :=
  match xml_lookup message_xml name with
  | None => Some true
  | Some FTemplate => Some true
  | Some FOther => Some false
  | Some FMissing => None
  end.

(* ---------- what the router looks at in a decoded message ---------- *)

Record msginfo := {
  mi_name : name;                (* template name found by _parse_message_header *)
  mi_body_ok : bool;             (* does the deferred body parse succeed when someone reads a block *)
  mi_sid : N;                    (* ["CircuitCode"][0]["SessionID"] as a 128-bit number (UseCircuitCode) *)
  mi_consumed : bool;            (* AddonManager.handle_lludp_message returns truthy although no addon is
                                    loaded: ChatFromViewer on COMMAND_CHANNEL (a command for the proxy itself).
                                    Before /repo commit 40d86e5 also a ChatFromSimulator OwnerSay "@" whose RLV
                                    command list is empty; the harness asks the live AddonManager. *)
  mi_out : option (list N)       (* bytes circuit.send() emits for this message when the proxy has
                                    injected nothing on the circuit; None: prepare_message returned False *)
}.

(* message names whose blocks handle_proxied_packet / ProxiedCircuit.prepare_message read on
   the addon-free path after the region lookup (collect_acks, RegionHandshake, AgentDataUpdate,
   _rewrite_packet_ack, _rewrite_start_ping_check, and AddonManager.handle_lludp_message's
   `"ChatData" in message` for the two chat messages); regions are assumed to have a handle *)
Definition needs_body (nm : name) : bool :=
  name_eqb nm n_PacketAck || name_eqb nm n_RegionHandshake
  || name_eqb nm n_AgentDataUpdate || name_eqb nm n_StartPingCheck
  || name_eqb nm n_ChatFromViewer || name_eqb nm n_ChatFromSimulator.

Definition closes_circuit (nm : name) : bool :=
  name_eqb nm n_CloseCircuit || name_eqb nm n_DisableSimulator.

(* ---------- state ---------- *)

Record circuit := { c_near : ipaddr; c_alive : bool }.
Record region := { r_addr : ipaddr; r_circ : option circuit }.
Record session := { s_id : N; s_pending : bool; s_regions : list region; s_main : option nat }.
(* one UDP association: socks_client_addr[0], far_to_near_map (dict, insertion ordered), .session
   (a reference into SessionManager.sessions, here its index) *)
Record proto := { p_client : N; p_f2n : list (addr * ipaddr); p_sess : option nat }.

Definition send := (list N * ipaddr)%type.   (* transport.sendto(data, addr) *)

Inductive outcome :=
  | OForward        (* reached circuit.send *)
  | OConsumed       (* handle_lludp_message returned truthy: the message is not sent on (what the proxy
                       emits itself while executing a command-channel chat is not modelled) *)
  | ONonSocks       (* "Got non-SOCKS packet from local?" *)
  | OSelfAddressed  (* "Got SOCKS packet addressed to its own sender" *)
  | OUnknownHost    (* "Got datagram from unknown host" *)
  | OPreSession     (* "Received unexpected message ... before circuit open" *)
  | OUnclaimed      (* "Wasn't able to claim session" *)
  | OCouldntOpen    (* "Couldn't open circuit to ..., did we have a region???" *)
  | ONoCircuit      (* "No circuit for ..., dropping packet!" *)
  | OExcSocks       (* exception inside _parse_socks_datagram *)
  | OExcDecode      (* deserializer.deserialize raised *)
  | OExcBanned      (* PermissionError: UDPBanned message *)
  | OExcFlavor      (* KeyError('flavor') in validate_udp_msg *)
  | OExcBody        (* a block of an unparseable body was read *)
  | OBadIndex.      (* model artefact: .session index out of range (never on well-formed states) *)

Record result := { rs_sessions : list session; rs_proto : proto; rs_sends : list send; rs_outcome : outcome }.

Definition f2n_get (m : list (addr * ipaddr)) (a : addr) : option ipaddr :=
  match find (fun kv => addr_eqb (fst kv) a) m with
  | Some kv => Some (snd kv)
  | None => None
  end.

(* dict assignment: an existing key keeps its position, a new key goes last *)
Fixpoint f2n_set (m : list (addr * ipaddr)) (a : addr) (v : ipaddr) : list (addr * ipaddr) :=
  match m with
  | [] => [(a, v)]
  | kv :: r => if addr_eqb (fst kv) a then (fst kv, v) :: r else kv :: f2n_set r a v
  end.

Fixpoint upd_nth {A} (n : nat) (x : A) (l : list A) : list A :=
  match l, n with
  | [], _ => []
  | _ :: t, O => x :: t
  | h :: t, S k => h :: upd_nth k x t
  end.

(* SessionManager.claim_session: first pending session with that id *)
Fixpoint claim (ss : list session) (sid : N) : option (nat * list session) :=
  match ss with
  | [] => None
  | s :: r =>
      if s_pending s && (s_id s =? sid)
      then Some (O, {| s_id := s_id s; s_pending := false; s_regions := s_regions s; s_main := s_main s |} :: r)
      else match claim r sid with
           | Some (i, r') => Some (S i, s :: r')
           | None => None
           end
  end.

(* Session.open_circuit: the first region with that circuit address decides *)
Fixpoint open_circuit (rs : list region) (near : ipaddr) (far : addr) : option (list region) :=
  match rs with
  | [] => None
  | r :: t =>
      if addr_eqb (ip_addr (r_addr r)) far then
        match r_circ r with
        | Some c => if c_alive c then Some (r :: t)
                    else Some ({| r_addr := r_addr r; r_circ := Some {| c_near := near; c_alive := true |} |} :: t)
        | None => Some ({| r_addr := r_addr r; r_circ := Some {| c_near := near; c_alive := true |} |} :: t)
        end
      else match open_circuit t near far with
           | Some t' => Some (r :: t')
           | None => None
           end
  end.

(* region_by_circuit_addr: first region with that address that has a circuit object (alive or not) *)
Fixpoint find_region (rs : list region) (far : addr) : option (nat * region * circuit) :=
  match rs with
  | [] => None
  | r :: t =>
      match (if addr_eqb (ip_addr (r_addr r)) far then r_circ r else None) with
      | Some c => Some (O, r, c)
      | None => match find_region t far with
                | Some (k, r', c') => Some (S k, r', c')
                | None => None
                end
      end
  end.

Definition mark_dead (r : region) : region :=
  {| r_addr := r_addr r;
     r_circ := match r_circ r with
               | Some c => Some {| c_near := c_near c; c_alive := false |}
               | None => None
               end |}.

Definition set_sess (p : proto) (i : option nat) : proto :=
  {| p_client := p_client p; p_f2n := p_f2n p; p_sess := i |}.
Definition set_f2n (p : proto) (m : list (addr * ipaddr)) : proto :=
  {| p_client := p_client p; p_f2n := m; p_sess := p_sess p |}.

Section Model.
  Variable decode : list N -> option msginfo.

  Definition stop (ss : list session) (p : proto) (o : outcome) : result :=
    {| rs_sessions := ss; rs_proto := p; rs_sends := []; rs_outcome := o |}.

  (* InterceptingLLUDPProxyProtocol.handle_proxied_packet, AddonManager hooks returning falsy,
     no message logger.  [far] is packet.far_addr, [src] packet.src_addr. *)
  Definition handle (ss : list session) (p : proto) (outgoing : bool) (src : ipaddr) (far : addr)
             (data : list N) : result :=
    match decode data with
    | None => stop ss p OExcDecode
    | Some m =>
      match (if outgoing then Some true else validate_udp_msg (mi_name m)) with
      | None => stop ss p OExcFlavor
      | Some false => stop ss p OExcBanned
      | Some true =>
        let is_ucc := outgoing && name_eqb (mi_name m) n_UseCircuitCode in
        match (match p_sess p with
               | Some i => inl (i, ss)
               | None =>
                   if is_ucc then
                     if mi_body_ok m then
                       match claim ss (mi_sid m) with
                       | Some c => inl c
                       | None => inr OUnclaimed
                       end
                     else inr OExcBody
                   else inr OPreSession
               end) with
        | inr o => stop ss p o
        | inl (i, ss1) =>
          let p1 := set_sess p (Some i) in
          match nth_error ss1 i with
          | None => stop ss1 p1 OBadIndex
          | Some s =>
            match (if is_ucc then open_circuit (s_regions s) src far else Some (s_regions s)) with
            | None => stop ss1 p1 OCouldntOpen
            | Some rs1 =>
              let ss2 := upd_nth i {| s_id := s_id s; s_pending := s_pending s; s_regions := rs1; s_main := s_main s |} ss1 in
              match find_region rs1 far with
              | None => stop ss2 p1 ONoCircuit
              | Some (k, r, c) =>
                if needs_body (mi_name m) && negb (mi_body_ok m) then stop ss2 p1 OExcBody
                else if mi_consumed m then stop ss2 p1 OConsumed
                else
                  let main := if name_eqb (mi_name m) n_AgentMovementComplete then Some k else s_main s in
                  let rs2 := if closes_circuit (mi_name m) then upd_nth k (mark_dead r) rs1 else rs1 in
                  let ss3 := upd_nth i {| s_id := s_id s; s_pending := s_pending s; s_regions := rs2; s_main := main |} ss1 in
                  {| rs_sessions := ss3; rs_proto := p1;
                     rs_sends := match mi_out m with
                                 | None => []
                                 | Some b => if outgoing then [(b, r_addr r)]
                                             else [(wrap (r_addr r) b, c_near c)]
                                 end;
                     rs_outcome := OForward |}
              end
            end
          end
        end
      end
    end.

  (* UDPProxyProtocol.datagram_received *)
  Definition recv (ss : list session) (p : proto) (data : list N) (src : ipaddr) : result :=
    match f2n_get (p_f2n p) (ip_addr src) with
    | None =>
        if fst src =? p_client p then
          match parse_socks data with
          | PExc => stop ss p OExcSocks
          | PNone => stop ss p ONonSocks
          | POk far d =>
              (* /repo dc82116: `if remote_addr == source_addr: return` - a datagram addressed to its own
                 sender is dropped before the far address is learnt *)
              if addr_eqb far (ip_addr src) then stop ss p OSelfAddressed
              else handle ss (set_f2n p (f2n_set (p_f2n p) far src)) true src far d
          end
        else stop ss p OUnknownHost
    | Some _ => handle ss p false src (ip_addr src) data
    end.

  (* ----- histories through one association ----- *)
  Definition event := (list N * ipaddr)%type.     (* datagram_received(data, source_addr) *)

  Fixpoint run (ss : list session) (p : proto) (h : list event)
    : list session * proto * list (list send) :=
    match h with
    | [] => (ss, p, [])
    | (d, src) :: t =>
        let r := recv ss p d src in
        let '(ss', p', out) := run (rs_sessions r) (rs_proto r) t in
        (ss', p', rs_sends r :: out)
    end.

  (* ----- several associations sharing one SessionManager ----- *)
  Record world := { w_sessions : list session; w_protos : list proto }.

  Definition wstep (w : world) (i : nat) (data : list N) (src : ipaddr) : world * list send * outcome :=
    match nth_error (w_protos w) i with
    | None => (w, [], OBadIndex)
    | Some p =>
        let r := recv (w_sessions w) p data src in
        ({| w_sessions := rs_sessions r; w_protos := upd_nth i (rs_proto r) (w_protos w) |},
         rs_sends r, rs_outcome r)
    end.
End Model.
