(* C06 - SOCKS5 UDP request header, exactly as coded in
     hippolyzer/lib/proxy/transport.py : SOCKS5UDPTransport.serialize   (wrap)
     hippolyzer/lib/proxy/socks_proxy.py : UDPProxyProtocol._parse_socks_datagram (parse_socks)
   Bytes are [N] below 256 (Base.Bytes).  Definitions only; lemmas in SocksProofs.v. *)
From Coq Require Import NArith List Bool.
From HV Require Import Base.Bytes.
Import ListNotations.
Open Scope N_scope.

(* A datagram source / region circuit address: Python [(str, int)], the dotted quad
   read as its 32-bit big-endian value (socket.inet_aton / inet_ntoa are inverse
   bijections between dotted quads and 4-byte strings). *)
Definition ipaddr := (N * N)%type.

(* What _parse_socks_datagram returns as address: [(str, port)] for ATYP 1 and
   [(bytes, port)] for ATYP 3 - a [bytes] host never compares equal to a [str] host. *)
Inductive host := HIp (a : N) | HDom (d : list N).
Definition addr := (host * N)%type.

Definition ip_addr (a : ipaddr) : addr := (HIp (fst a), snd a).

Fixpoint bytes_eqb (a b : list N) : bool :=
  match a, b with
  | [], [] => true
  | x :: a', y :: b' => (x =? y) && bytes_eqb a' b'
  | _, _ => false
  end.

Definition host_eqb (a b : host) : bool :=
  match a, b with
  | HIp x, HIp y => x =? y
  | HDom x, HDom y => bytes_eqb x y
  | _, _ => false
  end.

Definition addr_eqb (a b : addr) : bool := host_eqb (fst a) (fst b) && (snd a =? snd b).

Definition ipaddr_eqb (a b : ipaddr) : bool := (fst a =? fst b) && (snd a =? snd b).

(* HEADER_STRUCT = struct.Struct("!HBB4sH"); pack(0, 0, 1, inet_aton(ip), port) + data *)
Definition wrap (a : ipaddr) (d : list N) : list N :=
  [0; 0; 0; 1] ++ be_bytes 4 (fst a) ++ be_bytes 2 (snd a) ++ d.

(* PExc: an exception escapes (struct.error on a short slice, OSError from inet_ntoa,
   IndexError on data[0]);  PNone: the function returns None;  POk: ((address, port), data) *)
Inductive presult := PExc | PNone | POk (a : addr) (d : list N).

Definition parse_socks (data : list N) : presult :=
  match data with
  | r1 :: r2 :: frag :: atyp :: rest =>
      (* rsv, frag, address_type = struct.unpack("!HBB", data[:4]) *)
      if negb (of_be [r1; r2] =? 0) || negb (frag =? 0) then PNone
      else if atyp =? 1 then
        (* inet_ntoa(data[:4]); struct.unpack('!H', data[:2]) *)
        match rest with
        | a :: b :: c :: d :: p1 :: p2 :: body => POk (HIp (of_be [a; b; c; d]), of_be [p1; p2]) body
        | _ => PExc
        end
      else if atyp =? 3 then
        (* domain_length = data[0]; address = data[1:1+n]; data = data[1+n:] (slices never fail) *)
        match rest with
        | [] => PExc
        | len :: r =>
            match skipn (N.to_nat len) r with
            | p1 :: p2 :: body => POk (HDom (firstn (N.to_nat len) r), of_be [p1; p2]) body
            | _ => PExc
            end
        end
      else PNone
  | _ => PExc
  end.
