(* C07 - proofs about the dispatch model (Hooks.v) *)
From Coq Require Import List Bool Arith Lia.
From HV Require Import Proxy.Ownership Proxy.OwnershipProofs Proxy.Hooks.
Import ListNotations.

(* ------------------------------------------------------------------ counting *)
Lemma count_app : forall f a b, count f (a ++ b) = count f a + count f b.
Proof. intros. unfold count. rewrite filter_app, app_length. reflexivity. Qed.
Lemma count_cons : forall f e a, count f (e :: a) = (if f e then 1 else 0) + count f a.
Proof. intros. unfold count. cbn. destruct (f e); reflexivity. Qed.
Lemma count_nil : forall f, count f [] = 0.
Proof. reflexivity. Qed.

(* ------------------------------------------------------------------ the step invariant *)
(* [step m m' es]: going from message state m to m' while emitting es keeps the books:
   - the number of times the original reached the wire is exactly [sent]
   - successful addon drops are bounded by [dropped]
   - neither the logger nor an escape happens inside hooks/subscribers *)
Definition step (m m' : mst) (es : list ev) : Prop :=
  good m ->
  good m' /\
  b2n (sent m) + count is_orig es = b2n (sent m') /\
  b2n (dropped m) + count is_drop_ok es <= b2n (dropped m') /\
  count is_log es = 0 /\ count is_escape es = 0 /\
  (finalized m = true -> finalized m' = true).

Lemma step_refl : forall m, step m m [].
Proof. intros m Hg. unfold count; cbn. split; [exact Hg|]. repeat split; auto; lia. Qed.

Lemma step_trans : forall m m1 m2 e1 e2, step m m1 e1 -> step m1 m2 e2 -> step m m2 (e1 ++ e2).
Proof.
  intros m m1 m2 e1 e2 H1 H2 Hg.
  destruct (H1 Hg) as (Hg1 & A1 & B1 & C1 & D1 & F1).
  destruct (H2 Hg1) as (Hg2 & A2 & B2 & C2 & D2 & F2).
  rewrite !count_app. split; [exact Hg2|]. repeat split; auto; lia.
Qed.

Definition plain_ev (e : ev) : Prop :=
  is_orig e = false /\ is_drop_ok e = false /\ is_log e = false /\ is_escape e = false.

Lemma step_cons_plain : forall e m m' es, plain_ev e -> step m m' es -> step m m' (e :: es).
Proof.
  intros e m m' es (P1 & P2 & P3 & P4) H Hg. destruct (H Hg) as (Hg1 & A & B & C & D & F).
  rewrite !count_cons, P1, P2, P3, P4. split; [exact Hg1|]. repeat split; auto; lia.
Qed.

Lemma step_snoc_plain : forall e m m' es, plain_ev e -> step m m' es -> step m m' (es ++ [e]).
Proof.
  intros e m m' es P H. eapply step_trans; [exact H|]. apply step_cons_plain; [exact P|apply step_refl].
Qed.

Ltac plain := unfold plain_ev; cbn; repeat split; reflexivity.

Lemma count_orig_map_copy : forall f ws, (forall w, f (copy_ev w) = false) -> count f (map copy_ev ws) = 0.
Proof.
  intros f ws H. induction ws as [|w t IH]; [reflexivity|]. cbn [map]. rewrite count_cons, H, IH. reflexivity.
Qed.

Lemma count_orig_map_orig : forall ws, count is_orig (map orig_ev ws) = count_msgs ws.
Proof.
  induction ws as [|w t IH]; [reflexivity|]. cbn [map]. rewrite count_cons, IH.
  unfold count_msgs. cbn. destruct w; reflexivity.
Qed.

Lemma count_other_map_orig : forall f ws, (forall w, f (orig_ev w) = false) -> count f (map orig_ev ws) = 0.
Proof.
  intros f ws H. induction ws as [|w t IH]; [reflexivity|]. cbn [map]. rewrite count_cons, H, IH. reflexivity.
Qed.

(* the circuit operations as the proxy itself calls them *)
Lemma step_drop : forall m m' ws, drop m = Some (m', ws) -> step m m' (map orig_ev ws).
Proof.
  intros m m' ws H [Hp Hd]. apply drop_ok_cases in H.
  destruct H as [Hf [(Hp' & _)|(_ & Hf' & Hd' & Hq' & Hp'' & Hc)]]; [congruence|].
  assert (Hdm : dropped m = false).
  { destruct (dropped m) eqn:Ed; [|reflexivity]. specialize (Hd eq_refl). congruence. }
  rewrite count_orig_map_orig, Hc.
  rewrite !count_other_map_orig by (intros []; reflexivity).
  unfold good, sent. rewrite Hf, Hf', Hd', Hdm. cbn. repeat split; auto.
Qed.

Lemma step_send : forall m m' ws, send m = Some (m', ws) -> step m m' (map orig_ev ws).
Proof.
  intros m m' ws H [Hp Hd]. apply send_ok_finalizes in H.
  destruct H as (Hf & Hq & Hf' & Hd' & Hq' & Hp' & Hw). subst ws.
  assert (Hdm : dropped m = false).
  { destruct (dropped m) eqn:Ed; [|reflexivity]. specialize (Hd eq_refl). congruence. }
  unfold good, sent. rewrite Hf, Hf', Hd', Hdm. cbn. repeat split; auto; intros; discriminate.
Qed.

(* one addon operation, including its success record *)
Lemma step_do_op : forall o m m' es, do_op o m = Some (m', es) -> step m m' (es ++ [EOp o true]).
Proof.
  intros o m m' es H. unfold do_op in H.
  destruct (apply_op o m) as [[[m1 ws] cs]|] eqn:E; [|discriminate]. inversion H; subst; clear H.
  destruct o; cbn in E.
  - (* Take *) inversion E; subst; clear E. cbn. intros [Hp Hd].
    unfold good, sent, count. destruct (finalized m) eqn:Hf; cbn; rewrite ?Hf; repeat split; auto; lia.
  - (* Drop *) destruct (drop m) as [[m2 w2]|] eqn:D; [|discriminate]. inversion E; subst; clear E.
    cbn [map]. rewrite app_nil_r. intros Hg.
    destruct (step_drop _ _ _ D Hg) as (Hg1 & A & B & C & F & G).
    pose proof D as D'. apply drop_ok_cases in D'. destruct Hg as [Hp Hd].
    destruct D' as [Hf [(Hp' & _)|(_ & Hf' & Hd' & _)]]; [congruence|].
    assert (Hdm : dropped m = false).
    { destruct (dropped m) eqn:Ed; [|reflexivity]. specialize (Hd eq_refl). congruence. }
    rewrite !count_app, !count_cons, !count_nil. cbn.
    assert (Z : count is_drop_ok (map orig_ev ws) = 0) by (apply count_other_map_orig; intros []; reflexivity).
    rewrite Hdm, Hd', Z in *. cbn in *. split; [exact Hg1|]. repeat split; auto; lia.
  - (* SendOrig *) destruct (send m) as [[m2 w2]|] eqn:S; [|discriminate]. inversion E; subst; clear E.
    cbn [map]. rewrite app_nil_r. apply step_snoc_plain; [plain|]. eapply step_send; eauto.
  - (* SendCopy *) inversion E; subst; clear E. cbn. intros Hg. destruct Hg as [Hp Hd].
    unfold good, count; cbn. repeat split; auto; lia.
  - (* Mutate *) inversion E; subst; clear E. cbn. intros [Hp Hd].
    unfold good, sent, count; cbn. repeat split; auto; lia.
  - (* TakeFail *) discriminate.
Qed.

Lemma step_run_beh : forall b m m' es oc, run_beh b m = (m', es, oc) -> step m m' es.
Proof.
  induction b as [r| |c o k IH]; intros m m' es oc H; cbn in H.
  - inversion H; subst. apply step_refl.
  - inversion H; subst. apply step_refl.
  - destruct (do_op o m) as [[m1 e1]|] eqn:E.
    + destruct (run_beh k m1) as [[m2 e2] oc2] eqn:R. inversion H; subst; clear H.
      replace (e1 ++ EOp o true :: e2) with ((e1 ++ [EOp o true]) ++ e2) by (rewrite <- app_assoc; reflexivity).
      eapply step_trans; [eapply step_do_op; eauto | eapply IH; eauto].
    + destruct c.
      * destruct (run_beh k m) as [[m2 e2] oc2] eqn:R. inversion H; subst; clear H.
        apply step_cons_plain; [destruct o; plain | eapply IH; eauto].
      * inversion H; subst; clear H. apply step_cons_plain; [destruct o; plain | apply step_refl].
Qed.

Lemma step_try_call : forall p mi si hs m m' es r, try_call p mi si hs m = (m', es, r) -> step m m' es.
Proof.
  intros p mi si hs m m' es r H. unfold try_call in H.
  destruct (hook_at p hs) as [b|].
  - destruct (run_beh b m) as [[m1 e1] oc] eqn:R. apply step_run_beh in R.
    destruct oc; inversion H; subst; clear H.
    + apply step_cons_plain; [plain | exact R].
    + apply step_cons_plain; [plain |]. apply step_snoc_plain; [plain | exact R].
  - inversion H; subst. apply step_refl.
Qed.

Lemma step_call_subs : forall p mi subs si m m' es r, call_subs p mi si subs m = (m', es, r) -> step m m' es.
Proof.
  induction subs as [|hs t IH]; intros si m m' es r H; cbn in H.
  - inversion H; subst. apply step_refl.
  - destruct (try_call p mi (Some si) hs m) as [[m1 e1] r1] eqn:T. apply step_try_call in T.
    destruct r1.
    + inversion H; subst. exact T.
    + destruct (call_subs p mi (S si) t m1) as [[m2 e2] r2] eqn:C. inversion H; subst.
      eapply step_trans; [exact T | eapply IH; eauto].
Qed.

Lemma step_call_module : forall p mi md m m' es r, call_module p mi md m = (m', es, r) -> step m m' es.
Proof.
  intros p mi md m m' es r H. unfold call_module in H.
  destruct (call_subs p mi 0 (m_subs md) m) as [[m1 e1] r1] eqn:C. apply step_call_subs in C.
  destruct r1.
  - inversion H; subst. exact C.
  - destruct (try_call p mi None (m_self md) m1) as [[m2 e2] r2] eqn:T. apply step_try_call in T.
    inversion H; subst. eapply step_trans; eauto.
Qed.

Lemma step_call_all : forall p mods mi m m' es r, call_all p mi mods m = (m', es, r) -> step m m' es.
Proof.
  induction mods as [|md t IH]; intros mi m m' es r H; cbn in H.
  - inversion H; subst. apply step_refl.
  - destruct (call_module p mi md m) as [[m1 e1] r1] eqn:C. apply step_call_module in C.
    destruct r1.
    + inversion H; subst. exact C.
    + destruct (call_all p (S mi) t m1) as [[m2 e2] r2] eqn:A. inversion H; subst.
      eapply step_trans; [exact C | eapply IH; eauto].
Qed.

Lemma step_exc_list : forall m (b : bool) e, plain_ev e -> step m m (if b then [e] else []).
Proof. intros m b e P. destruct b; [apply step_cons_plain; [exact P|]|]; apply step_refl. Qed.

Lemma step_notify : forall h c snap cur m cur' m' es ab,
  notify h c snap cur m = (cur', m', es, ab) -> step m m' es.
Proof.
  induction snap as [|[sid os] t IH]; intros cur m cur' m' es ab H; cbn in H.
  - inversion H; subst. apply step_refl.
  - destruct (lookup sid c) as [p b]. destruct p.
    + destruct (run_beh b m) as [[m1 e1] oc] eqn:R. apply step_run_beh in R.
      match type of H with (let '(cur2, exc) := ?X in _) = _ => destruct X as [cur2 exc] eqn:EX end.
      destruct (notify h c t cur2 m1) as [[[cur3 m3] es3] ab3] eqn:N. apply IH in N.
      inversion H; subst; clear H.
      apply step_cons_plain; [plain|].
      eapply step_trans; [exact R|]. eapply step_trans; [|exact N].
      assert (Hexc : exc = [] \/ exc = [EExcSub]).
      { destruct oc as [[|]|]; [destruct os; [|destruct (subscribed sid _)]| |]; inversion EX; auto. }
      destruct Hexc as [-> | ->]; [apply step_refl | apply step_cons_plain; [plain | apply step_refl]].
    + eapply IH; eauto.
    + inversion H; subst. apply step_refl.
Qed.

Lemma step_handle_mh : forall s c named wild m n' w' m' es,
  handle_mh s c named wild m = (n', w', m', es) -> step m m' es.
Proof.
  intros s c named wild m n' w' m' es H. unfold handle_mh in H.
  destruct (notify _ c named named m) as [[[n1 m1] e1] ab] eqn:N1. apply step_notify in N1.
  destruct ab.
  - inversion H; subst. apply step_snoc_plain; [plain | exact N1].
  - destruct (notify _ c wild wild m1) as [[[w2 m2] e2] ab2] eqn:N2. apply step_notify in N2.
    inversion H; subst. eapply step_trans; [exact N1|]. eapply step_trans; [exact N2|].
    destruct ab2; [apply step_cons_plain; [plain|]|]; apply step_refl.
Qed.

Lemma step_rlv_loop : forall fuel i mods m all m' es a,
  rlv_loop fuel i mods m all = (m', es, a) -> step m m' es.
Proof.
  induction fuel as [|f IH]; intros i mods m all m' es a H; cbn in H.
  - inversion H; subst. apply step_refl.
  - destruct (call_all (PtRlv i) 0 mods m) as [[m1 e1] handled] eqn:C. apply step_call_all in C.
    destruct handled.
    + destruct (drop m1) as [[m2 ws]|] eqn:D.
      * destruct (rlv_loop f (S i) mods m2 all) as [[m3 e3] a3] eqn:R. apply IH in R.
        inversion H; subst. eapply step_trans; [exact C|]. eapply step_trans; [eapply step_drop; eauto | exact R].
      * destruct (rlv_loop f (S i) mods m1 false) as [[m3 e3] a3] eqn:R. apply IH in R.
        inversion H; subst. eapply step_trans; [exact C|]. apply step_cons_plain; [plain | exact R].
    + destruct (rlv_loop f (S i) mods m1 false) as [[m3 e3] a3] eqn:R. apply IH in R.
      inversion H; subst. eapply step_trans; eauto.
Qed.

Lemma step_lludp_dispatch : forall c m m' es r,
  lludp_dispatch c m = Some (m', es, r) -> step m m' es.
Proof.
  intros c m m' es r H. unfold lludp_dispatch in H. destruct (mkind c) as [| |n].
  - inversion H as [H']. eapply step_call_all; eauto.
  - destruct (finalized m) eqn:F.
    + inversion H; subst. cbn. apply step_cons_plain; [plain | apply step_refl].
    + destruct (drop m) as [[m1 ws]|] eqn:D; [|discriminate]. inversion H; subst.
      apply step_snoc_plain; [plain | eapply step_drop; eauto].
  - destruct (rlv_loop n 0 (mmods c) m (Nat.ltb 0 n)) as [[m1 e1] all] eqn:R. apply step_rlv_loop in R.
    destruct all.
    + inversion H; subst. exact R.
    + destruct (call_all PtLludp 0 (mmods c) m1) as [[m2 e2] r2] eqn:C. apply step_call_all in C.
      inversion H; subst. eapply step_trans; eauto.
Qed.

(* ------------------------------------------------------------------ one datagram *)
Lemma drop_none_iff : forall m, drop m = None <-> finalized m = true.
Proof.
  intros m. unfold drop. destruct (finalized m); [split; reflexivity|].
  destruct (negb (has_pid m)); split; intros; discriminate.
Qed.

Lemma send_none_iff : forall m, send m = None <-> (finalized m = true \/ queued m = true).
Proof.
  intros m. unfold send. destruct (finalized m); [split; auto|].
  destruct (queued m); split; auto; try discriminate. intros [|]; discriminate.
Qed.

Lemma lludp_dispatch_some : forall c m, lludp_dispatch c m <> None.
Proof.
  intros c m. unfold lludp_dispatch. destruct (mkind c) as [| |n].
  - discriminate.
  - destruct (finalized m) eqn:F; [discriminate|].
    destruct (drop m) as [[m1 ws]|] eqn:D; [discriminate|].
    apply drop_none_iff in D. congruence.
  - destruct (rlv_loop n 0 (mmods c) m (Nat.ltb 0 n)) as [[mx ex] [|]]; [discriminate|].
    destruct (call_all PtLludp 0 (mmods c) mx) as [[? ?] ?]; discriminate.
Qed.

Definition hp_post (c : msgcfg) (es : list ev) (mf : mst) (st : status) : Prop :=
  good mf /\
  count is_orig es = b2n (sent mf) /\
  count is_drop_ok es <= b2n (dropped mf) /\
  match st with
  | StPktClaimed => count is_log es = 0 /\ count is_escape es = 0
  | StHandled => count is_log es = 1 /\ count is_escape es = 0
  | StForward => count is_log es = 1 /\ count is_escape es = 0 /\ finalized mf = true
  | StEscaped => False
  end.

Lemma step_from_wire : forall r a m es, step (wire_msg r a) m es ->
  good m /\ count is_orig es = b2n (sent m) /\ count is_drop_ok es <= b2n (dropped m) /\
  count is_log es = 0 /\ count is_escape es = 0.
Proof.
  intros r a m es H. destruct (wire_msg_good r a) as [Hg Hs].
  destruct (H Hg) as (Hg' & A & B & C & D & _). rewrite Hs in A. cbn in A, B.
  split; [exact Hg'|]. repeat split; auto.
Qed.

Ltac regroup pre :=
  match goal with
  | |- context [?a ++ ?b ++ ?c ++ ?d ++ ?e ++ [?x]] =>
    replace (a ++ b ++ c ++ d ++ e ++ [x]) with ((a ++ b ++ c ++ d ++ e) ++ [x]) by (rewrite <- !app_assoc; reflexivity);
    remember (a ++ b ++ c ++ d ++ e) as pre
  | |- context [?a ++ ?b ++ ?c ++ ?d ++ [?x]] =>
    replace (a ++ b ++ c ++ d ++ [x]) with ((a ++ b ++ c ++ d) ++ [x]) by (rewrite <- !app_assoc; reflexivity);
    remember (a ++ b ++ c ++ d) as pre
  | |- context [?a ++ ?b ++ ?c ++ [?x]] =>
    replace (a ++ b ++ c ++ [x]) with ((a ++ b ++ c) ++ [x]) by (rewrite <- !app_assoc; reflexivity);
    remember (a ++ b ++ c) as pre
  end.

Lemma handle_packet_post : forall w c w' es mf st,
  handle_packet w c = (w', es, (mf, st)) -> hp_post c es mf st.
Proof.
  intros w c w' es mf st H. unfold handle_packet in H.
  destruct (call_all PtPkt 0 (mmods c) (wire_msg (mrel c) (macks c))) as [[m0 e0] claimed] eqn:E0.
  apply step_call_all in E0.
  destruct claimed.
  { inversion H; subst; clear H. apply step_from_wire in E0.
    destruct E0 as (G & A & B & C & D). unfold hp_post. split; [exact G|]. repeat split; auto. }
  destruct (handle_mh true (msubs c) (sn w) (sw w) m0) as [[[sn' sw'] m1] e1] eqn:E1.
  apply step_handle_mh in E1.
  destruct (handle_mh false (msubs c) (rn w) (rw w) m1) as [[[rn' rw'] m2] e2] eqn:E2.
  apply step_handle_mh in E2.
  pose proof (step_trans _ _ _ _ _ E0 (step_trans _ _ _ _ _ E1 E2)) as S2.
  destruct (lludp_dispatch c m2) as [[[m3 e3] handled]|] eqn:E3.
  2:{ (* handle_lludp_message never raises *) exfalso. eapply lludp_dispatch_some; eauto. }
  apply step_lludp_dispatch in E3.
  pose proof (step_trans _ _ _ _ _ S2 E3) as S3.
  rewrite <- !app_assoc in S3.
  destruct (queued m3 && negb (finalized m3)) eqn:Q.
  - (* queued and not finalized: the proxy drops the original *)
    apply andb_true_iff in Q. destruct Q as [Q1 Q2]. apply negb_true_iff in Q2.
    destruct (drop m3) as [[m4 ws4]|] eqn:D4.
    2:{ apply drop_none_iff in D4. congruence. }
    pose proof (step_drop _ _ _ D4) as S4.
    pose proof (step_trans _ _ _ _ _ S3 S4) as S5. rewrite <- !app_assoc in S5.
    assert (F4 : finalized m4 = true).
    { destruct (wire_msg_good (mrel c) (macks c)) as [Hg _].
      destruct (S3 Hg) as (G3 & _). destruct G3 as [P3 _].
      apply drop_ok_cases in D4. destruct D4 as [_ [(X & _)|(_ & X & _)]]; congruence. }
    apply step_from_wire in S5.
    destruct handled.
    + inversion H; subst; clear H. regroup pre. destruct S5 as (G & A & B & C & D). unfold hp_post.
      rewrite !count_app, A, C, D. cbn. split; [exact G|]. repeat split; auto; lia.
    + rewrite F4 in H. cbn in H. inversion H; subst; clear H. rewrite app_nil_r.
      regroup pre. destruct S5 as (G & A & B & C & D). unfold hp_post.
      rewrite !count_app, A, C, D. cbn. split; [exact G|]. repeat split; auto; lia.
  - (* nothing to drop *)
    cbn [map app] in H.
    destruct handled.
    + inversion H; subst; clear H.
      apply step_from_wire in S3. regroup pre. destruct S3 as (G & A & B & C & D). unfold hp_post.
      rewrite !count_app, A, C, D. cbn. split; [exact G|]. repeat split; auto; lia.
    + destruct (finalized m3) eqn:F3; cbn in H.
      * inversion H; subst; clear H. rewrite app_nil_r.
        apply step_from_wire in S3. regroup pre. destruct S3 as (G & A & B & C & D). unfold hp_post.
        rewrite !count_app, A, C, D. cbn. split; [exact G|]. repeat split; auto; lia.
      * assert (Q3 : queued m3 = false).
        { destruct (queued m3); [cbn in Q; discriminate | reflexivity]. }
        destruct (send m3) as [[m5 ws5]|] eqn:S5.
        2:{ apply send_none_iff in S5. destruct S5; congruence. }
        inversion H; subst; clear H.
        pose proof (step_send _ _ _ S5) as T5.
        assert (F5 : finalized mf = true) by (apply send_ok_finalizes in S5; tauto).
        destruct (wire_msg_good (mrel c) (macks c)) as [Hg Hs].
        destruct (S3 Hg) as (G3 & A3 & B3 & C3 & D3 & _).
        destruct (T5 G3) as (G5 & A5 & B5 & C5 & D5 & _).
        rewrite Hs in A3. cbn in A3, B3. unfold hp_post.
        regroup pre. rewrite !count_app. cbn [count filter is_orig is_drop_ok is_log is_escape log_ev length].
        split; [exact G5|]. repeat split; auto; lia.
Qed.

(* ------------------------------------------------------------------ the property, per datagram *)
Lemma hp_post_proj : forall w c, hp_post c (hp_trace w c) (hp_final w c) (hp_status w c).
Proof.
  intros w c. unfold hp_trace, hp_final, hp_status.
  destruct (handle_packet w c) as [[w' es] [mf st]] eqn:E. cbn. eapply handle_packet_post; eauto.
Qed.

Lemma b2n_le1 : forall b, b2n b <= 1.
Proof. destruct b; cbn; lia. Qed.

Lemma at_most_once : forall w c, count is_orig (hp_trace w c) <= 1.
Proof.
  intros w c. destruct (hp_post_proj w c) as (_ & A & _). rewrite A. apply b2n_le1.
Qed.

(* original on the wire and successful addon drops exclude each other and neither repeats *)
Lemma sent_or_dropped_once : forall w c,
  count is_orig (hp_trace w c) + count is_drop_ok (hp_trace w c) <= 1.
Proof.
  intros w c. destruct (hp_post_proj w c) as ([_ G] & A & B & _).
  rewrite A. unfold sent in *. destruct (finalized (hp_final w c)), (dropped (hp_final w c)); cbn in *; lia.
Qed.

Lemma exactly_once_sem : forall w c,
  hp_status w c = StForward -> dropped (hp_final w c) = false -> count is_orig (hp_trace w c) = 1.
Proof.
  intros w c Hs Hd. destruct (hp_post_proj w c) as (_ & A & _ & P). rewrite Hs in P.
  destruct P as (_ & _ & F). rewrite A. unfold sent. rewrite F, Hd. reflexivity.
Qed.

Lemma sent_iff_flags : forall w c,
  count is_orig (hp_trace w c) = 1 <-> (finalized (hp_final w c) = true /\ dropped (hp_final w c) = false).
Proof.
  intros w c. destruct (hp_post_proj w c) as (_ & A & _). rewrite A. unfold sent.
  destruct (finalized (hp_final w c)), (dropped (hp_final w c)); cbn; split; intros; try lia; try tauto;
    destruct H; discriminate.
Qed.

Lemma never_escapes : forall w c,
  hp_status w c <> StEscaped /\ count is_escape (hp_trace w c) = 0.
Proof.
  intros w c. destruct (hp_post_proj w c) as (_ & _ & _ & P).
  destruct (hp_status w c); split; try discriminate; try tauto.
Qed.

Lemma logger_runs : forall w c, hp_status w c <> StPktClaimed -> count is_log (hp_trace w c) = 1.
Proof.
  intros w c S. destruct (hp_post_proj w c) as (_ & _ & _ & P).
  destruct (hp_status w c); try tauto.
Qed.

(* ------------------------------------------------------------------ isolation *)
Lemma strip_exc_app : forall a b, strip_exc (a ++ b) = strip_exc a ++ strip_exc b.
Proof. intros. unfold strip_exc. apply filter_app. Qed.

Lemma strip_exc_cons_exc : forall e l, is_exc e = true -> strip_exc (e :: l) = strip_exc l.
Proof. intros e l H. unfold strip_exc. cbn. rewrite H. reflexivity. Qed.
Lemma strip_exc_cons : forall e l, strip_exc (e :: l) = strip_exc [e] ++ strip_exc l.
Proof. intros. change (e :: l) with ([e] ++ l). apply strip_exc_app. Qed.

Definition oc_rel (o1 o2 : outcome) : Prop := o2 = o1 \/ (o1 = Raised /\ o2 = Returned false).

Lemma run_beh_calm : forall b m m1 e1 o1, run_beh b m = (m1, e1, o1) ->
  exists e2 o2, run_beh (calm b) m = (m1, e2, o2) /\ strip_exc e2 = strip_exc e1 /\ oc_rel o1 o2.
Proof.
  induction b as [r| |c o k IH]; intros m m1 e1 o1 H.
  - cbn in *. eexists _, _; split; [exact H|]. split; [reflexivity|left; reflexivity].
  - cbn in *. inversion H; subst. eexists _, _; split; [reflexivity|]. split; [reflexivity|right; auto].
  - assert (G : o = TakeFail \/ (o <> TakeFail /\ calm (Act c o k) = Act c o (calm k))).
    { destruct o; auto; right; split; try discriminate; reflexivity. }
    destruct G as [->|[Ho G]].
    + (* a failing take *) cbn in H. cbn [calm]. destruct c.
      * destruct (run_beh k m) as [[m2 e2] oc2] eqn:R. inversion H; subst; clear H.
        destruct (IH _ _ _ _ R) as (e3 & o3 & R3 & S3 & O3).
        eexists _, _; split; [exact R3|]. split; [|exact O3].
        rewrite (strip_exc_cons (EOp TakeFail false)). exact S3.
      * inversion H; subst; clear H. cbn. eexists _, _; split; [reflexivity|]. split; [reflexivity|right; auto].
    + rewrite G. cbn in *. destruct (do_op o m) as [[m' es]|].
      * destruct (run_beh k m') as [[m2 e2] oc2] eqn:R. inversion H; subst; clear H.
        destruct (IH _ _ _ _ R) as (e3 & o3 & R3 & S3 & O3). rewrite R3.
        eexists _, _; split; [reflexivity|]. split; [|exact O3].
        rewrite !strip_exc_app, (strip_exc_cons _ e3), (strip_exc_cons _ e2), S3. reflexivity.
      * destruct c.
        -- destruct (run_beh k m) as [[m2 e2] oc2] eqn:R. inversion H; subst; clear H.
           destruct (IH _ _ _ _ R) as (e3 & o3 & R3 & S3 & O3). rewrite R3.
           eexists _, _; split; [reflexivity|]. split; [|exact O3].
           rewrite (strip_exc_cons _ e3), (strip_exc_cons _ e2), S3. reflexivity.
        -- inversion H; subst. eexists _, _; split; [reflexivity|]. split; [reflexivity|left; reflexivity].
Qed.

Lemma hook_at_calm : forall p hs, hook_at p (calm_hs hs) = option_map calm (hook_at p hs).
Proof.
  intros p hs. destruct p; cbn.
  - destruct (h_pkt hs) as [[|]|]; reflexivity.
  - reflexivity.
  - destruct (h_rlv hs) as [l|]; [|reflexivity]. cbn. f_equal.
    change (PRet false) with (calm_p (PRet false)) at 1. rewrite map_nth.
    destruct (nth cmd l (PRet false)); reflexivity.
Qed.

Lemma try_call_calm : forall p mi si hs m m1 e1 r, try_call p mi si hs m = (m1, e1, r) ->
  exists e2, try_call p mi si (calm_hs hs) m = (m1, e2, r) /\ strip_exc e2 = strip_exc e1.
Proof.
  intros p mi si hs m m1 e1 r H. unfold try_call in *. rewrite hook_at_calm.
  destruct (hook_at p hs) as [b|]; cbn [option_map].
  - destruct (run_beh b m) as [[m' es] oc] eqn:R.
    destruct (run_beh_calm _ _ _ _ _ R) as (e2 & o2 & R2 & S2 & [Ho|[Ho1 Ho2]]); rewrite R2; subst.
    + destruct oc; inversion H; subst; (eexists; split; [reflexivity|]).
      * rewrite (strip_exc_cons _ e2), (strip_exc_cons _ es), S2. reflexivity.
      * rewrite (strip_exc_cons _ (e2 ++ _)), (strip_exc_cons _ (es ++ _)), !strip_exc_app, S2. reflexivity.
    + inversion H; subst. eexists; split; [reflexivity|].
      rewrite (strip_exc_cons _ e2), (strip_exc_cons _ (es ++ _)), !strip_exc_app, S2.
      cbn. rewrite app_nil_r. reflexivity.
  - eexists; split; [exact H|reflexivity].
Qed.

Lemma call_subs_calm : forall p mi subs si m m1 e1 r, call_subs p mi si subs m = (m1, e1, r) ->
  exists e2, call_subs p mi si (map calm_hs subs) m = (m1, e2, r) /\ strip_exc e2 = strip_exc e1.
Proof.
  induction subs as [|hs t IH]; intros si m m1 e1 r H; cbn in *.
  - eexists; split; [exact H|reflexivity].
  - destruct (try_call p mi (Some si) hs m) as [[m' es] r'] eqn:T.
    destruct (try_call_calm _ _ _ _ _ _ _ _ T) as (e2 & T2 & S2). rewrite T2.
    destruct r'.
    + inversion H; subst. eexists; split; [reflexivity|exact S2].
    + destruct (call_subs p mi (S si) t m') as [[m'' es''] r''] eqn:C. inversion H; subst; clear H.
      destruct (IH _ _ _ _ _ C) as (e3 & C3 & S3). rewrite C3.
      eexists; split; [reflexivity|]. rewrite !strip_exc_app, S2, S3. reflexivity.
Qed.

Lemma call_module_calm : forall p mi md m m1 e1 r, call_module p mi md m = (m1, e1, r) ->
  exists e2, call_module p mi (calm_mod md) m = (m1, e2, r) /\ strip_exc e2 = strip_exc e1.
Proof.
  intros p mi md m m1 e1 r H. unfold call_module in *. cbn.
  destruct (call_subs p mi 0 (m_subs md) m) as [[m' es] r'] eqn:C.
  destruct (call_subs_calm _ _ _ _ _ _ _ _ C) as (e2 & C2 & S2). rewrite C2.
  destruct r'.
  - inversion H; subst. eexists; split; [reflexivity|exact S2].
  - destruct (try_call p mi None (m_self md) m') as [[m'' es''] r''] eqn:T. inversion H; subst; clear H.
    destruct (try_call_calm _ _ _ _ _ _ _ _ T) as (e3 & T3 & S3). rewrite T3.
    eexists; split; [reflexivity|]. rewrite !strip_exc_app, S2, S3. reflexivity.
Qed.

Lemma call_all_calm : forall p mods mi m m1 e1 r, call_all p mi mods m = (m1, e1, r) ->
  exists e2, call_all p mi (map calm_mod mods) m = (m1, e2, r) /\ strip_exc e2 = strip_exc e1.
Proof.
  induction mods as [|md t IH]; intros mi m m1 e1 r H; cbn in *.
  - eexists; split; [exact H|reflexivity].
  - destruct (call_module p mi md m) as [[m' es] r'] eqn:C.
    destruct (call_module_calm _ _ _ _ _ _ _ C) as (e2 & C2 & S2). rewrite C2.
    destruct r'.
    + inversion H; subst. eexists; split; [reflexivity|exact S2].
    + destruct (call_all p (S mi) t m') as [[m'' es''] r''] eqn:A. inversion H; subst; clear H.
      destruct (IH _ _ _ _ _ A) as (e3 & A3 & S3). rewrite A3.
      eexists; split; [reflexivity|]. rewrite !strip_exc_app, S2, S3. reflexivity.
Qed.

Lemma lookup_calm : forall sid c, lookup sid (calm_subcfg c) = (fst (lookup sid c), calm (snd (lookup sid c))).
Proof.
  intros sid c. induction c as [|[k [p b]] t IH]; cbn; [reflexivity|].
  destruct (Nat.eqb k sid); [reflexivity|exact IH].
Qed.

Lemma notify_calm : forall h c snap cur m cur' m' es ab,
  notify h c snap cur m = (cur', m', es, ab) ->
  exists es2, notify h (calm_subcfg c) snap cur m = (cur', m', es2, ab) /\ strip_exc es2 = strip_exc es.
Proof.
  induction snap as [|[sid os] t IH]; intros cur m cur' m' es ab H; cbn in *.
  - eexists; split; [exact H|reflexivity].
  - rewrite lookup_calm. destruct (lookup sid c) as [p b]. cbn [fst snd]. destruct p.
    + destruct (run_beh b m) as [[m1 e1] oc] eqn:R.
      destruct (run_beh_calm _ _ _ _ _ R) as (e2 & o2 & R2 & S2 & Ho). rewrite R2.
      destruct Ho as [Ho|[Ho1 Ho2]]; subst.
      * match type of H with (let '(cur2, exc) := ?X in _) = _ => destruct X as [cur2 exc] eqn:EX end.
        destruct (notify h c t cur2 m1) as [[[cur3 m3] es3] ab3] eqn:N. inversion H; subst; clear H.
        destruct (IH _ _ _ _ _ _ N) as (es4 & N4 & S4). rewrite N4.
        eexists; split; [reflexivity|].
        rewrite (strip_exc_cons _ (e2 ++ _)), (strip_exc_cons _ (e1 ++ _)), !strip_exc_app, S2, S4. reflexivity.
      * cbn in H.
        destruct (notify h c t (if os then unsub sid cur else cur) m1) as [[[cur3 m3] es3] ab3] eqn:N.
        inversion H; subst; clear H.
        destruct (IH _ _ _ _ _ _ N) as (es4 & N4 & S4). rewrite N4.
        eexists; split; [reflexivity|].
        rewrite (strip_exc_cons _ (e2 ++ _)), (strip_exc_cons _ (e1 ++ _)), !strip_exc_app, S2, S4. reflexivity.
    + eapply IH; eauto.
    + eexists; split; [exact H|reflexivity].
Qed.

Lemma handle_mh_calm : forall s c named wild m n' w' m' es,
  handle_mh s c named wild m = (n', w', m', es) ->
  exists es2, handle_mh s (calm_subcfg c) named wild m = (n', w', m', es2) /\ strip_exc es2 = strip_exc es.
Proof.
  intros s c named wild m n' w' m' es H. unfold handle_mh in *.
  destruct (notify _ c named named m) as [[[n1 m1] e1] ab] eqn:N1.
  destruct (notify_calm _ _ _ _ _ _ _ _ _ N1) as (e1' & N1' & S1). rewrite N1'.
  destruct ab.
  - inversion H; subst. eexists; split; [reflexivity|]. rewrite !strip_exc_app, S1. reflexivity.
  - destruct (notify _ c wild wild m1) as [[[w2 m2] e2] ab2] eqn:N2.
    destruct (notify_calm _ _ _ _ _ _ _ _ _ N2) as (e2' & N2' & S2). rewrite N2'.
    inversion H; subst. eexists; split; [reflexivity|]. rewrite !strip_exc_app, S1, S2. reflexivity.
Qed.

Lemma rlv_loop_calm : forall fuel i mods m all m' es a,
  rlv_loop fuel i mods m all = (m', es, a) ->
  exists es2, rlv_loop fuel i (map calm_mod mods) m all = (m', es2, a) /\ strip_exc es2 = strip_exc es.
Proof.
  induction fuel as [|f IH]; intros i mods m all m' es a H; cbn in *.
  - eexists; split; [exact H|reflexivity].
  - destruct (call_all (PtRlv i) 0 mods m) as [[m1 e1] handled] eqn:C.
    destruct (call_all_calm _ _ _ _ _ _ _ C) as (e1' & C' & S1). rewrite C'.
    destruct handled.
    + destruct (drop m1) as [[m2 ws]|].
      * destruct (rlv_loop f (S i) mods m2 all) as [[m3 e3] a3] eqn:R. inversion H; subst; clear H.
        destruct (IH _ _ _ _ _ _ _ R) as (e3' & R' & S3). rewrite R'.
        eexists; split; [reflexivity|]. rewrite !strip_exc_app, S1, S3. reflexivity.
      * destruct (rlv_loop f (S i) mods m1 false) as [[m3 e3] a3] eqn:R. inversion H; subst; clear H.
        destruct (IH _ _ _ _ _ _ _ R) as (e3' & R' & S3). rewrite R'.
        eexists; split; [reflexivity|].
        rewrite !strip_exc_app, !(strip_exc_cons_exc EExcRlv) by reflexivity. rewrite S1, S3. reflexivity.
    + destruct (rlv_loop f (S i) mods m1 false) as [[m3 e3] a3] eqn:R. inversion H; subst; clear H.
      destruct (IH _ _ _ _ _ _ _ R) as (e3' & R' & S3). rewrite R'.
      eexists; split; [reflexivity|]. rewrite !strip_exc_app, S1, S3. reflexivity.
Qed.

Lemma lludp_dispatch_calm : forall c m,
  match lludp_dispatch c m with
  | None => lludp_dispatch (calm_cfg c) m = None
  | Some (m', es, r) => exists es2, lludp_dispatch (calm_cfg c) m = Some (m', es2, r) /\ strip_exc es2 = strip_exc es
  end.
Proof.
  intros c m. unfold lludp_dispatch. cbn [mkind mmods calm_cfg]. destruct (mkind c) as [| |n].
  - destruct (call_all PtLludp 0 (mmods c) m) as [[m' es] r] eqn:C.
    destruct (call_all_calm _ _ _ _ _ _ _ C) as (e2 & C2 & S2). rewrite C2. eauto.
  - destruct (if finalized m then Some (m, []) else drop m) as [[m1 ws]|]; [|reflexivity]. eauto.
  - destruct (rlv_loop n 0 (mmods c) m (Nat.ltb 0 n)) as [[m1 e1] all] eqn:R.
    destruct (rlv_loop_calm _ _ _ _ _ _ _ _ R) as (e1' & R' & S1). rewrite R'.
    destruct all.
    + eauto.
    + destruct (call_all PtLludp 0 (mmods c) m1) as [[m2 e2] r2] eqn:C.
      destruct (call_all_calm _ _ _ _ _ _ _ C) as (e2' & C2 & S2). rewrite C2.
      eexists; split; [reflexivity|]. rewrite !strip_exc_app, S1, S2. reflexivity.
Qed.

(* isolation: replacing every raise by a falsy return changes nothing but the exception log *)
Lemma handle_packet_calm : forall w c w' es r,
  handle_packet w c = (w', es, r) ->
  exists es2, handle_packet w (calm_cfg c) = (w', es2, r) /\ strip_exc es2 = strip_exc es.
Proof.
  intros w c w' es r H. unfold handle_packet in *. cbn [mkind mmods mrel macks msubs calm_cfg].
  destruct (call_all PtPkt 0 (mmods c) (wire_msg (mrel c) (macks c))) as [[m0 e0] claimed] eqn:E0.
  destruct (call_all_calm _ _ _ _ _ _ _ E0) as (e0' & E0' & S0). rewrite E0'.
  destruct claimed.
  { inversion H; subst. eexists; split; [reflexivity|exact S0]. }
  destruct (handle_mh true (msubs c) (sn w) (sw w) m0) as [[[sn' sw'] m1] e1] eqn:E1.
  destruct (handle_mh_calm _ _ _ _ _ _ _ _ _ E1) as (e1' & E1' & S1). rewrite E1'.
  destruct (handle_mh false (msubs c) (rn w) (rw w) m1) as [[[rn' rw'] m2] e2] eqn:E2.
  destruct (handle_mh_calm _ _ _ _ _ _ _ _ _ E2) as (e2' & E2' & S2). rewrite E2'.
  pose proof (lludp_dispatch_calm c m2) as L.
  destruct (lludp_dispatch c m2) as [[[m3 e3] handled]|].
  2:{ rewrite L. inversion H; subst. eexists; split; [reflexivity|].
      rewrite !strip_exc_app, S0, S1, S2. reflexivity. }
  destruct L as (e3' & L' & S3). rewrite L'.
  destruct (if queued m3 && negb (finalized m3) then drop m3 else Some (m3, [])) as [[m4 ws4]|].
  2:{ inversion H; subst. eexists; split; [reflexivity|].
      rewrite !strip_exc_app, S0, S1, S2, S3. reflexivity. }
  destruct handled.
  { inversion H; subst. eexists; split; [reflexivity|].
    rewrite !strip_exc_app, S0, S1, S2, S3. reflexivity. }
  destruct (if negb (finalized m4) then send m4 else Some (m4, [])) as [[m5 ws5]|];
    inversion H; subst; (eexists; split; [reflexivity|]);
    rewrite !strip_exc_app, S0, S1, S2, S3; reflexivity.
Qed.

(* ------------------------------------------------------------------ exactly once when nobody claims *)
Definition calm_state (m : mst) : Prop := queued m = false /\ dropped m = false.

Lemma do_op_noclaim : forall o m m' es, o <> Take -> o <> Drop ->
  do_op o m = Some (m', es) -> calm_state m -> calm_state m'.
Proof.
  intros o m m' es H1 H2 H [Q D]. unfold do_op in H.
  destruct (apply_op o m) as [[[m1 ws] cs]|] eqn:E; [|discriminate]. inversion H; subst; clear H.
  destruct o; try congruence; cbn in E.
  - destruct (send m) as [[m2 w2]|] eqn:S; [|discriminate]. inversion E; subst.
    apply send_ok_finalizes in S. destruct S as (_ & _ & _ & Hd & Hq & _). split; congruence.
  - inversion E; subst. split; assumption.
  - inversion E; subst. split; assumption.
  - discriminate.
Qed.

Lemma run_beh_noclaim : forall b m m' es oc, beh_noclaim b = true ->
  run_beh b m = (m', es, oc) -> calm_state m -> calm_state m'.
Proof.
  induction b as [r| |c o k IH]; intros m m' es oc Hq H Hs; cbn in *.
  - inversion H; subst; assumption.
  - inversion H; subst; assumption.
  - assert (o <> Take /\ o <> Drop /\ beh_noclaim k = true) as (N1 & N2 & Hk).
    { destruct o; try discriminate; repeat split; auto; discriminate. }
    destruct (do_op o m) as [[m1 e1]|] eqn:E.
    + destruct (run_beh k m1) as [[m2 e2] oc2] eqn:R. inversion H; subst.
      eapply IH; eauto. eapply do_op_noclaim; eauto.
    + destruct c.
      * destruct (run_beh k m) as [[m2 e2] oc2] eqn:R. inversion H; subst. eapply IH; eauto.
      * inversion H; subst; assumption.
Qed.

Lemma beh_quiet_noclaim : forall b, beh_quiet b = true -> beh_noclaim b = true.
Proof.
  induction b as [r| |c o k IH]; cbn; intros H; auto. destruct o; auto.
Qed.

Lemma run_beh_quiet_ret : forall b m m' es oc, beh_quiet b = true ->
  run_beh b m = (m', es, oc) -> oc <> Returned true.
Proof.
  induction b as [r| |c o k IH]; intros m m' es oc Hq H; cbn in *.
  - inversion H; subst. destruct r; [discriminate|]. discriminate.
  - inversion H; subst. discriminate.
  - assert (Hk : beh_quiet k = true) by (destruct o; try discriminate; auto).
    destruct (do_op o m) as [[m1 e1]|].
    + destruct (run_beh k m1) as [[m2 e2] oc2] eqn:R. inversion H; subst. eapply IH; eauto.
    + destruct c.
      * destruct (run_beh k m) as [[m2 e2] oc2] eqn:R. inversion H; subst. eapply IH; eauto.
      * inversion H; subst. discriminate.
Qed.

Lemma hook_at_quiet : forall p hs b, hs_quiet hs = true -> hook_at p hs = Some b -> beh_quiet b = true.
Proof.
  intros p hs b Hq H. unfold hs_quiet in Hq.
  apply andb_true_iff in Hq. destruct Hq as [Hq Hr]. apply andb_true_iff in Hq. destruct Hq as [Hp Hl].
  destruct p; cbn in H.
  - destruct (h_pkt hs) as [pb|]; [|discriminate]. inversion H; subst. cbn in Hp.
    destruct pb as [[|]|]; cbn in *; auto.
  - rewrite H in Hl. exact Hl.
  - destruct (h_rlv hs) as [l|]; [|discriminate]. inversion H; subst. cbn in Hr.
    assert (Hn : pbeh_quiet (nth cmd l (PRet false)) = true).
    { destruct (nth_in_or_default cmd l (PRet false)) as [Hin|Hd].
      - rewrite forallb_forall in Hr. apply Hr. exact Hin.
      - rewrite Hd. reflexivity. }
    destruct (nth cmd l (PRet false)) as [[|]|]; cbn in *; auto.
Qed.

Lemma try_call_quiet : forall p mi si hs m m' es r, hs_quiet hs = true ->
  try_call p mi si hs m = (m', es, r) -> calm_state m -> calm_state m' /\ r = false.
Proof.
  intros p mi si hs m m' es r Hq H Hs. unfold try_call in H.
  destruct (hook_at p hs) as [b|] eqn:Hh.
  - pose proof (hook_at_quiet _ _ _ Hq Hh) as Hb.
    destruct (run_beh b m) as [[m1 e1] oc] eqn:R.
    pose proof (run_beh_noclaim _ _ _ _ _ (beh_quiet_noclaim _ Hb) R Hs) as Hs1.
    pose proof (run_beh_quiet_ret _ _ _ _ _ Hb R) as Hr.
    destruct oc as [[|]|]; inversion H; subst; auto. congruence.
  - inversion H; subst; auto.
Qed.

Lemma call_subs_quiet : forall p mi subs si m m' es r, forallb hs_quiet subs = true ->
  call_subs p mi si subs m = (m', es, r) -> calm_state m -> calm_state m' /\ r = false.
Proof.
  induction subs as [|hs t IH]; intros si m m' es r Hq H Hs; cbn in *.
  - inversion H; subst; auto.
  - apply andb_true_iff in Hq. destruct Hq as [Hq1 Hq2].
    destruct (try_call p mi (Some si) hs m) as [[m1 e1] r1] eqn:T.
    destruct (try_call_quiet _ _ _ _ _ _ _ _ Hq1 T Hs) as [Hs1 ->].
    destruct (call_subs p mi (S si) t m1) as [[m2 e2] r2] eqn:C. inversion H; subst.
    eapply IH; eauto.
Qed.

Lemma call_module_quiet : forall p mi md m m' es r, mod_quiet md = true ->
  call_module p mi md m = (m', es, r) -> calm_state m -> calm_state m' /\ r = false.
Proof.
  intros p mi md m m' es r Hq H Hs. unfold call_module in H. unfold mod_quiet in Hq.
  apply andb_true_iff in Hq. destruct Hq as [Hq1 Hq2].
  destruct (call_subs p mi 0 (m_subs md) m) as [[m1 e1] r1] eqn:C.
  destruct (call_subs_quiet _ _ _ _ _ _ _ _ Hq1 C Hs) as [Hs1 ->].
  destruct (try_call p mi None (m_self md) m1) as [[m2 e2] r2] eqn:T. inversion H; subst.
  eapply try_call_quiet; eauto.
Qed.

Lemma call_all_quiet : forall p mods mi m m' es r, forallb mod_quiet mods = true ->
  call_all p mi mods m = (m', es, r) -> calm_state m -> calm_state m' /\ r = false.
Proof.
  induction mods as [|md t IH]; intros mi m m' es r Hq H Hs; cbn in *.
  - inversion H; subst; auto.
  - apply andb_true_iff in Hq. destruct Hq as [Hq1 Hq2].
    destruct (call_module p mi md m) as [[m1 e1] r1] eqn:C.
    destruct (call_module_quiet _ _ _ _ _ _ _ Hq1 C Hs) as [Hs1 ->].
    destruct (call_all p (S mi) t m1) as [[m2 e2] r2] eqn:A. inversion H; subst.
    eapply IH; eauto.
Qed.

Lemma lookup_noclaim : forall sid c, forallb (fun kv => beh_noclaim (snd (snd kv))) c = true ->
  beh_noclaim (snd (lookup sid c)) = true.
Proof.
  intros sid c. induction c as [|[k [p b]] t IH]; cbn; intros H; [reflexivity|].
  apply andb_true_iff in H. destruct H as [H1 H2].
  destruct (Nat.eqb k sid); [exact H1|auto].
Qed.

Lemma notify_noclaim : forall h c snap cur m cur' m' es ab,
  forallb (fun kv => beh_noclaim (snd (snd kv))) c = true ->
  notify h c snap cur m = (cur', m', es, ab) -> calm_state m -> calm_state m'.
Proof.
  induction snap as [|[sid os] t IH]; intros cur m cur' m' es ab Hq H Hs; cbn in H.
  - inversion H; subst; assumption.
  - pose proof (lookup_noclaim sid c Hq) as Hb. destruct (lookup sid c) as [p b]. cbn in Hb. destruct p.
    + destruct (run_beh b m) as [[m1 e1] oc] eqn:R.
      pose proof (run_beh_noclaim _ _ _ _ _ Hb R Hs) as Hs1.
      match type of H with (let '(cur2, exc) := ?X in _) = _ => destruct X as [cur2 exc] end.
      destruct (notify h c t cur2 m1) as [[[cur3 m3] es3] ab3] eqn:N. inversion H; subst.
      eapply IH; eauto.
    + eapply IH; eauto.
    + inversion H; subst; assumption.
Qed.

Lemma handle_mh_noclaim : forall s c named wild m n' w' m' es,
  forallb (fun kv => beh_noclaim (snd (snd kv))) c = true ->
  handle_mh s c named wild m = (n', w', m', es) -> calm_state m -> calm_state m'.
Proof.
  intros s c named wild m n' w' m' es Hq H Hs. unfold handle_mh in H.
  destruct (notify _ c named named m) as [[[n1 m1] e1] ab] eqn:N1.
  pose proof (notify_noclaim _ _ _ _ _ _ _ _ _ Hq N1 Hs) as Hs1.
  destruct ab.
  - inversion H; subst; assumption.
  - destruct (notify _ c wild wild m1) as [[[w2 m2] e2] ab2] eqn:N2.
    pose proof (notify_noclaim _ _ _ _ _ _ _ _ _ Hq N2 Hs1) as Hs2.
    inversion H; subst; assumption.
Qed.

Lemma rlv_loop_quiet : forall fuel i mods m all m' es a, forallb mod_quiet mods = true ->
  rlv_loop fuel i mods m all = (m', es, a) -> calm_state m ->
  calm_state m' /\ a = match fuel with 0 => all | S _ => false end.
Proof.
  induction fuel as [|f IH]; intros i mods m all m' es a Hq H Hs; cbn in H.
  - inversion H; subst; auto.
  - destruct (call_all (PtRlv i) 0 mods m) as [[m1 e1] handled] eqn:C.
    destruct (call_all_quiet _ _ _ _ _ _ _ Hq C Hs) as [Hs1 ->].
    destruct (rlv_loop f (S i) mods m1 false) as [[m3 e3] a3] eqn:R. inversion H; subst.
    destruct (IH _ _ _ _ _ _ _ Hq R Hs1) as [Hs3 Ha]. split; [assumption|].
    destruct f; assumption.
Qed.

Lemma unclaimed_forwarded : forall w c, cfg_unclaimed c = true ->
  hp_status w c = StForward /\ dropped (hp_final w c) = false.
Proof.
  intros w c U. unfold cfg_unclaimed in U.
  apply andb_true_iff in U. destruct U as [U Um]. apply andb_true_iff in U. destruct U as [Uk Us].
  unfold hp_status, hp_final, handle_packet.
  assert (S0 : calm_state (wire_msg (mrel c) (macks c))) by (split; reflexivity).
  destruct (call_all PtPkt 0 (mmods c) (wire_msg (mrel c) (macks c))) as [[m0 e0] claimed] eqn:E0.
  destruct (call_all_quiet _ _ _ _ _ _ _ Um E0 S0) as [S0' ->].
  destruct (handle_mh true (msubs c) (sn w) (sw w) m0) as [[[sn' sw'] m1] e1] eqn:E1.
  pose proof (handle_mh_noclaim _ _ _ _ _ _ _ _ _ Us E1 S0') as S1.
  destruct (handle_mh false (msubs c) (rn w) (rw w) m1) as [[[rn' rw'] m2] e2] eqn:E2.
  pose proof (handle_mh_noclaim _ _ _ _ _ _ _ _ _ Us E2 S1) as S2.
  assert (D : exists m3 e3, lludp_dispatch c m2 = Some (m3, e3, false) /\ calm_state m3).
  { unfold lludp_dispatch. destruct (mkind c) as [| |n]; cbn in Uk; try discriminate.
    - destruct (call_all PtLludp 0 (mmods c) m2) as [[m3 e3] r] eqn:C.
      destruct (call_all_quiet _ _ _ _ _ _ _ Um C S2) as [S3 ->]. eauto.
    - destruct (rlv_loop n 0 (mmods c) m2 (Nat.ltb 0 n)) as [[m3 e3] all] eqn:R.
      destruct (rlv_loop_quiet _ _ _ _ _ _ _ _ Um R S2) as [S3 Ha].
      assert (all = false) as -> by (destruct n; exact Ha).
      destruct (call_all PtLludp 0 (mmods c) m3) as [[m4 e4] r] eqn:C.
      destruct (call_all_quiet _ _ _ _ _ _ _ Um C S3) as [S4 ->]. eauto. }
  destruct D as (m3 & e3 & D & [Q3 D3]). rewrite D. rewrite Q3. cbn [andb].
  destruct (finalized m3) eqn:F3; cbn.
  - split; [reflexivity|exact D3].
  - destruct (send m3) as [[m5 ws5]|] eqn:S5.
    + cbn. split; [reflexivity|]. apply send_ok_finalizes in S5. destruct S5 as (_ & _ & _ & Hd & _). congruence.
    + apply send_none_iff in S5. destruct S5; congruence.
Qed.

Lemma exactly_once : forall w c, cfg_unclaimed c = true -> count is_orig (hp_trace w c) = 1.
Proof.
  intros w c U. destruct (unclaimed_forwarded w c U) as [S D]. apply exactly_once_sem; assumption.
Qed.

(* ------------------------------------------------------------------ histories *)
Lemma run_history_all : forall (P : list ev -> mst -> status -> Prop),
  (forall w c, P (hp_trace w c) (hp_final w c) (hp_status w c)) ->
  forall cs w, Forall (fun r => P (fst r) (fst (snd r)) (snd (snd r))) (snd (run_history w cs)).
Proof.
  intros P HP. induction cs as [|c t IH]; intros w; cbn.
  - constructor.
  - pose proof (HP w c) as H0. unfold hp_trace, hp_final, hp_status in H0.
    destruct (handle_packet w c) as [[w1 es] r] eqn:E. cbn in H0.
    specialize (IH w1). destruct (run_history w1 t) as [w2 rest]. cbn in *.
    constructor; [exact H0|exact IH].
Qed.

Lemma history_at_most_once : forall cs w,
  Forall (fun r => count is_orig (fst r) + count is_drop_ok (fst r) <= 1) (snd (run_history w cs)).
Proof.
  intros cs w.
  apply (run_history_all (fun es _ _ => count is_orig es + count is_drop_ok es <= 1)).
  intros; apply sent_or_dropped_once.
Qed.

(* no message of a history is affected by what happened to earlier ones, except through the
   subscriptions: every datagram is processed (never "wedged") - the result list has one entry per
   datagram - and only a command-channel datagram can end with an escaping exception *)
Lemma history_length : forall cs w, length (snd (run_history w cs)) = length cs.
Proof.
  induction cs as [|c t IH]; intros w; cbn; [reflexivity|].
  destruct (handle_packet w c) as [[w1 es] r]. specialize (IH w1).
  destruct (run_history w1 t) as [w2 rest]. cbn in *. f_equal. exact IH.
Qed.

Lemma history_no_escape : forall cs w,
  Forall (fun r => snd (snd r) <> StEscaped /\ count is_escape (fst r) = 0 /\
                   (snd (snd r) <> StPktClaimed -> count is_log (fst r) = 1))
         (snd (run_history w cs)).
Proof.
  intros cs w.
  apply (run_history_all (fun es _ st => st <> StEscaped /\ count is_escape es = 0 /\
                                         (st <> StPktClaimed -> count is_log es = 1))).
  intros w0 c. destruct (never_escapes w0 c) as [N1 N2]. repeat split; auto. apply logger_runs.
Qed.

Lemma history_calm : forall cs w,
  fst (run_history w (map calm_cfg cs)) = fst (run_history w cs) /\
  map (fun r => (strip_exc (fst r), snd r)) (snd (run_history w (map calm_cfg cs))) =
  map (fun r => (strip_exc (fst r), snd r)) (snd (run_history w cs)).
Proof.
  induction cs as [|c t IH]; intros w; cbn; [split; reflexivity|].
  destruct (handle_packet w c) as [[w1 es] r] eqn:E.
  destruct (handle_packet_calm _ _ _ _ _ E) as (es2 & E2 & S2). rewrite E2.
  specialize (IH w1). destruct (run_history w1 t) as [w2 rest].
  destruct (run_history w1 (map calm_cfg t)) as [w2' rest']. cbn [fst snd map] in *.
  destruct IH as [IH1 IH2]. split; [exact IH1|]. rewrite S2, IH2. reflexivity.
Qed.

(* ------------------------------------------------------------------ regression instances and what still does NOT hold *)
Definition w_one_sub : world := mk_world [(1, false)] [] [] [].
Definition w_two_subs : world := mk_world [(1, false); (2, false)] [] [] [].
Definition w_empty : world := mk_world [] [] [] [].

(* REGRESSION (command channel, repaired by /repo d9b7ff1): a message-handler subscriber that
   already dropped (or sent) a channel-524 chat used to make the proxy trip its own guard in
   handle_lludp_message; now the command is still dispatched, the logger runs, nothing escapes *)
Definition cfg_cmd_sub_drops : msgcfg :=
  mk_msgcfg KCommand false false [(1, (PTrue, Act false Drop (Ret false)))] [].

Lemma ex_cmd_sub_drops : hp_trace w_one_sub cfg_cmd_sub_drops =
  [ESub HSessNamed 1; EOp Drop true; ECmd; ELog true true false 0]
  /\ hp_status w_one_sub cfg_cmd_sub_drops = StHandled.
Proof. vm_compute. split; reflexivity. Qed.

(* NOTE (not repaired): the same guard still trips inside the RLV loop when two commands of one message are handled; there
   the proxy's own try/except swallows it, but the message is then treated as "not all handled"
   and handle_lludp_message hooks run on the already dropped message *)
Definition hs_rlv_both : hookset := mk_hookset None (Some (Ret false)) (Some [PRet true; PRet true]).
Definition cfg_rlv_two_handled : msgcfg := mk_msgcfg (KRlv 2) true false [] [mk_modcfg [] hs_rlv_both].

Lemma rlv_double_drop_trips_guard :
  In EExcRlv (hp_trace w_empty cfg_rlv_two_handled) /\
  In (EHook PtLludp 0 None) (hp_trace w_empty cfg_rlv_two_handled) /\
  count is_orig (hp_trace w_empty cfg_rlv_two_handled) = 0 /\
  dropped (hp_final w_empty cfg_rlv_two_handled) = true.
Proof. vm_compute. repeat split; auto 10. Qed.

(* REGRESSION (RLV, empty command list, repaired by /repo 40d86e5): an owner-say chat "@" parses to
   zero commands; it used to be claimed by nobody yet not forwarded; now it is an ordinary message *)
Definition cfg_rlv_empty : msgcfg := mk_msgcfg (KRlv 0) true false [] [].

Lemma ex_rlv_empty : cfg_unclaimed cfg_rlv_empty = true /\
  hp_trace w_empty cfg_rlv_empty = [ELog false false false 0; EOrig 0]
  /\ hp_status w_empty cfg_rlv_empty = StForward.
Proof. vm_compute. repeat split. Qed.

(* isolation does not extend to subscriber predicates: Event.notify evaluates the predicate outside
   its try/except, so a raising predicate of subscriber 1 keeps subscriber 2 from being notified *)
Definition cfg_pred (p : pred) : msgcfg :=
  mk_msgcfg KPlain false false [(1, (p, Ret false)); (2, (PTrue, Ret false))] [].

Lemma isolation_predicate_refuted :
  In (ESub HSessNamed 2) (hp_trace w_two_subs (cfg_pred PFalse)) /\
  ~ In (ESub HSessNamed 2) (hp_trace w_two_subs (cfg_pred PRaises)) /\
  count is_orig (hp_trace w_two_subs (cfg_pred PRaises)) = 1.
Proof.
  vm_compute. repeat split; auto.
  intros H. repeat (destruct H as [H|H]; [discriminate|]). exact H.
Qed.

(* ------------------------------------------------------------------ non-vacuity witnesses *)
(* two addons and a subscriber that raise, mutate, send copies and try to re-send: unclaimed *)
Definition hs_noisy1 : hookset :=
  mk_hookset (Some PRaise) (Some (Act false Mutate (Act false SendCopy Raise))) (Some [PRaise]).
Definition hs_noisy2 : hookset :=
  mk_hookset (Some (PRet false)) (Some (Act true SendOrig (Act true SendOrig (Act false Mutate (Ret false))))) None.
Definition cfg_noisy : msgcfg :=
  mk_msgcfg (KRlv 1) true true [(1, (PTrue, Act false Mutate Raise))]
            [mk_modcfg [hs_noisy1] hs_noisy2; mk_modcfg [] hs_noisy1].

Lemma ex_unclaimed : cfg_unclaimed cfg_noisy = true /\
  hp_trace w_one_sub cfg_noisy =
  [EHook PtPkt 0 (Some 0); EExcHook; EHook PtPkt 0 None; EHook PtPkt 1 None; EExcHook;
   ESub HSessNamed 1; EOp Mutate true; EExcSub;
   EHook (PtRlv 0) 0 (Some 0); EExcHook; EHook (PtRlv 0) 1 None; EExcHook;
   EHook PtLludp 0 (Some 0); EOp Mutate true; ECopy; EOp SendCopy true; EExcHook;
   EHook PtLludp 0 None; EOrig 2; EOp SendOrig true; EOp SendOrig false; EOp Mutate true;
   EHook PtLludp 1 None; EOp Mutate true; ECopy; EOp SendCopy true; EExcHook;
   ELog true false false 4].
Proof. vm_compute. split; reflexivity. Qed.

(* claimed by take(): dropped by the proxy with acks, logged, never forwarded *)
Definition cfg_taken : msgcfg :=
  mk_msgcfg KPlain true true [] [mk_modcfg [] (mk_hookset None (Some (Act false Take (Ret true))) None)].
Lemma ex_taken : hp_trace w_empty cfg_taken =
  [EHook PtLludp 0 None; EOp Take true; EAck; EAck; ELog true true true 0]
  /\ hp_status w_empty cfg_taken = StHandled.
Proof. vm_compute. split; reflexivity. Qed.

(* the scenario of the defect fixed by /repo commit 03e3597: a subscriber takes, an addon drops *)
Definition cfg_take_then_drop : msgcfg :=
  mk_msgcfg KPlain true false [(1, (PTrue, Act false Take (Ret false)))]
            [mk_modcfg [] (mk_hookset None (Some (Act false Drop (Ret false))) None)].
Lemma ex_take_then_drop : hp_trace w_one_sub cfg_take_then_drop =
  [ESub HSessNamed 1; EOp Take true; EHook PtLludp 0 None; EAck; EOp Drop true; ELog true true true 0]
  /\ hp_status w_one_sub cfg_take_then_drop = StForward.
Proof. vm_compute. split; reflexivity. Qed.

(* a take() that fails in its copy step claims nothing: a subscriber (wait_for / subscribe_async with
   take=True) whose take() raises, and an addon that catches the failure and goes on - the message
   is still forwarded exactly once, nothing is dropped or acked *)
Definition cfg_failed_takes : msgcfg :=
  mk_msgcfg KPlain true true [(1, (PTrue, Act false TakeFail (Ret true)))]
            [mk_modcfg [] (mk_hookset None (Some (Act true TakeFail (Act false Mutate (Ret false)))) None)].

Lemma ex_failed_takes : cfg_unclaimed cfg_failed_takes = true /\
  hp_trace w_one_sub cfg_failed_takes =
  [ESub HSessNamed 1; EOp TakeFail false; EExcSub;
   EHook PtLludp 0 None; EOp TakeFail false; EOp Mutate true; ELog false false false 1; EOrig 1]
  /\ hp_status w_one_sub cfg_failed_takes = StForward
  /\ hp_world w_one_sub cfg_failed_takes = w_one_sub.
Proof. vm_compute. repeat split. Qed.

Lemma ex_failed_takes_calm :
  calm_cfg cfg_failed_takes =
  mk_msgcfg KPlain true true [(1, (PTrue, Ret false))]
            [mk_modcfg [] (mk_hookset None (Some (Act false Mutate (Ret false))) None)]
  /\ strip_exc (hp_trace w_one_sub (calm_cfg cfg_failed_takes)) = strip_exc (hp_trace w_one_sub cfg_failed_takes)
  /\ hp_trace w_one_sub (calm_cfg cfg_failed_takes) <> hp_trace w_one_sub cfg_failed_takes.
Proof. vm_compute. repeat split. discriminate. Qed.
