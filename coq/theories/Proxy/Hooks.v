(* C07 - addon hook dispatch, message-handler subscribers and the tail of
   InterceptingLLUDPProxyProtocol.handle_proxied_packet.

   Follows, literally:
     hippolyzer/lib/proxy/addons.py            AddonManager._call_all_addon_hooks, _call_module_hooks,
                                               _try_call_hook (swallow_addon_exceptions = True),
                                               handle_proxied_packet, handle_lludp_message
     hippolyzer/lib/base/events.py             Event.notify
     hippolyzer/lib/base/message/message_handler.py   MessageHandler.handle / _handle_type
     hippolyzer/lib/proxy/lludp_proxy.py       handle_proxied_packet (from the packet hook to the final send)

   What a hook or a subscriber does is data ([beh]); the model produces the ordered trace of
   everything observable ([ev]).  The same trace is produced by the harness from the real code. *)
From Coq Require Import List Bool Arith.
From HV Require Import Proxy.Ownership.
Import ListNotations.

(* ------------------------------------------------------------------ behaviours *)

(* behaviour of a hook / subscriber that is handed the message:
   [Act catch o k]: apply ownership operation [o]; if its guard raises, the addon either
   catches the RuntimeError itself ([catch = true]) and goes on with [k], or the error
   propagates out of the hook. *)
Inductive beh :=
| Ret (b : bool)                    (* return a falsy / truthy value *)
| Raise                             (* raise an exception *)
| Act (catch : bool) (o : own_op) (k : beh).   (* for [TakeFail] the error is copy.deepcopy's exception *)

(* hooks that are not handed the message (handle_proxied_packet, handle_rlv_command) *)
Inductive pbeh := PRet (b : bool) | PRaise.

Definition beh_of_pbeh (p : pbeh) : beh :=
  match p with PRet b => Ret b | PRaise => Raise end.

Inductive outcome := Returned (b : bool) | Raised.

Inductive point := PtPkt | PtLludp | PtRlv (cmd : nat).
Inductive hid := HSessNamed | HSessWild | HRegNamed | HRegWild.

Inductive ev :=
| EHook (p : point) (mi : nat) (si : option nat)  (* hook [p] of sub-addon [si] (None: the module object) of module [mi] invoked *)
| ESub (h : hid) (sid : nat)                      (* subscriber invoked *)
| EOrig (n : nat)                                 (* the ORIGINAL message put on the wire (with n mutations) *)
| ECopy                                           (* a copy put on the wire *)
| EAck                                            (* PacketAck emitted by drop_message *)
| ECmd                                            (* command channel: command dispatched (proxy chat reply on the wire) *)
| EOp (o : own_op) (ok : bool)                    (* an addon's ownership operation returned / raised RuntimeError *)
| EExcHook                                        (* _try_call_hook swallowed an exception *)
| EExcSub                                         (* Event.notify swallowed an exception *)
| EExcHandler (session : bool)                    (* handle_proxied_packet swallowed an exception of message_handler.handle *)
| EExcRlv                                         (* RLV loop swallowed an exception *)
| EEscape                                         (* exception escapes handle_proxied_packet *)
| ELog (f d q : bool) (n : nat).                  (* message_logger.log_lludp_message(message) with the flags at that time *)

Definition orig_ev (w : wire) : ev := match w with WMsg n => EOrig n | WAck => EAck end.
Definition copy_ev (w : wire) : ev := match w with WMsg _ => ECopy | WAck => EAck end.

(* one ownership operation by an addon on the original message *)
Definition do_op (o : own_op) (m : mst) : option (mst * list ev) :=
  match apply_op o m with
  | Some (m', ws, cs) => Some (m', map orig_ev ws ++ map copy_ev cs)
  | None => None
  end.

Fixpoint run_beh (b : beh) (m : mst) : mst * list ev * outcome :=
  match b with
  | Ret r => (m, [], Returned r)
  | Raise => (m, [], Raised)
  | Act c o k =>
    match do_op o m with
    | Some (m', es) =>
      let '(m'', es', oc) := run_beh k m' in (m'', es ++ EOp o true :: es', oc)
    | None =>
      if c then let '(m'', es', oc) := run_beh k m in (m'', EOp o false :: es', oc)
      else (m, [EOp o false], Raised)
    end
  end.

(* ------------------------------------------------------------------ addon hooks *)

Record hookset := mk_hookset {
  h_pkt   : option pbeh;          (* handle_proxied_packet; None: the object has no such attribute *)
  h_lludp : option beh;           (* handle_lludp_message *)
  h_rlv   : option (list pbeh)    (* handle_rlv_command: behaviour per command index (default: falsy) *)
}.

(* one entry of AddonManager.FRESH_ADDON_MODULES: getattr(module, "addons", []) and the object itself *)
Record modcfg := mk_modcfg { m_subs : list hookset; m_self : hookset }.

Definition hook_at (p : point) (hs : hookset) : option beh :=
  match p with
  | PtPkt => option_map beh_of_pbeh (h_pkt hs)
  | PtLludp => h_lludp hs
  | PtRlv i => option_map (fun l => beh_of_pbeh (nth i l (PRet false))) (h_rlv hs)
  end.

(* _try_call_hook: missing hook -> None; exception -> logged, swallowed, None *)
Definition try_call (p : point) (mi : nat) (si : option nat) (hs : hookset) (m : mst)
  : mst * list ev * bool :=
  match hook_at p hs with
  | None => (m, [], false)
  | Some b =>
    let '(m', es, oc) := run_beh b m in
    match oc with
    | Returned r => (m', EHook p mi si :: es, r)
    | Raised => (m', EHook p mi si :: es ++ [EExcHook], false)
    end
  end.

(* _call_module_hooks: sub-addons in order, first truthy wins, then the module object itself *)
Fixpoint call_subs (p : point) (mi si : nat) (subs : list hookset) (m : mst) : mst * list ev * bool :=
  match subs with
  | [] => (m, [], false)
  | hs :: t =>
    let '(m1, e1, r) := try_call p mi (Some si) hs m in
    if r then (m1, e1, true)
    else let '(m2, e2, r2) := call_subs p mi (S si) t m1 in (m2, e1 ++ e2, r2)
  end.

Definition call_module (p : point) (mi : nat) (md : modcfg) (m : mst) : mst * list ev * bool :=
  let '(m1, e1, r) := call_subs p mi 0 (m_subs md) m in
  if r then (m1, e1, true)
  else let '(m2, e2, r2) := try_call p mi None (m_self md) m1 in (m2, e1 ++ e2, r2).

(* _call_all_addon_hooks: modules in order, first truthy wins *)
Fixpoint call_all (p : point) (mi : nat) (mods : list modcfg) (m : mst) : mst * list ev * bool :=
  match mods with
  | [] => (m, [], false)
  | md :: t =>
    let '(m1, e1, r) := call_module p mi md m in
    if r then (m1, e1, true)
    else let '(m2, e2, r2) := call_all p (S mi) t m1 in (m2, e1 ++ e2, r2)
  end.

(* ------------------------------------------------------------------ subscribers *)

Inductive pred := PTrue | PFalse | PRaises.

Definition subscr := (nat * bool)%type.             (* subscription: handler id, one_shot *)
Definition subcfg := list (nat * (pred * beh)).     (* what each handler id does for this message *)

Fixpoint lookup (sid : nat) (c : subcfg) : pred * beh :=
  match c with
  | [] => (PTrue, Ret false)
  | (k, v) :: t => if Nat.eqb k sid then v else lookup sid t
  end.

(* Event.unsubscribe(handler): removes every registration of that handler *)
Definition unsub (sid : nat) (l : list subscr) : list subscr :=
  filter (fun s => negb (Nat.eqb (fst s) sid)) l.
Definition subscribed (sid : nat) (l : list subscr) : bool :=
  existsb (fun s => Nat.eqb (fst s) sid) l.

(* Event.notify over the snapshot self.subscribers[:]; [cur] is the live list.
   Result: live list, message, trace, aborted (a predicate raised: the exception leaves notify). *)
Fixpoint notify (h : hid) (c : subcfg) (snapshot cur : list subscr) (m : mst)
  : list subscr * mst * list ev * bool :=
  match snapshot with
  | [] => (cur, m, [], false)
  | (sid, one_shot) :: t =>
    let '(p, b) := lookup sid c in
    match p with
    | PRaises => (cur, m, [], true)
    | PFalse => notify h c t cur m
    | PTrue =>
      let cur1 := if one_shot then unsub sid cur else cur in
      let '(m1, es, oc) := run_beh b m in
      let '(cur2, exc) :=
        match oc with
        | Raised => (cur1, [EExcSub])
        | Returned true =>
          if one_shot then (cur1, [])
          else if subscribed sid cur1 then (unsub sid cur1, [])
          else (cur1, [EExcSub])      (* unsubscribe raises ValueError inside the try *)
        | Returned false => (cur1, [])
        end in
      let '(cur3, m3, es3, ab) := notify h c t cur2 m1 in
      (cur3, m3, ESub h sid :: es ++ exc ++ es3, ab)
    end
  end.

(* try: message_handler.handle(message) except: LOG.exception(...)
   handle = _handle_type(message.name) then _handle_type('*') *)
Definition handle_mh (session : bool) (c : subcfg) (named wild : list subscr) (m : mst)
  : list subscr * list subscr * mst * list ev :=
  let hn := if session then HSessNamed else HRegNamed in
  let hw := if session then HSessWild else HRegWild in
  let '(n', m1, e1, ab) := notify hn c named named m in
  if ab then (n', wild, m1, e1 ++ [EExcHandler session])
  else
    let '(w', m2, e2, ab2) := notify hw c wild wild m1 in
    (n', w', m2, e1 ++ e2 ++ (if ab2 then [EExcHandler session] else [])).

(* ------------------------------------------------------------------ one datagram *)

Inductive kind :=
| KPlain              (* any message without special treatment *)
| KCommand            (* ChatFromViewer on AddonManager.COMMAND_CHANNEL *)
| KRlv (n : nat).     (* ChatFromSimulator owner-say "@c0,c1,..": n RLV commands *)

Record world := mk_world { sn : list subscr; sw : list subscr; rn : list subscr; rw : list subscr }.

Record msgcfg := mk_msgcfg {
  mkind : kind; mrel : bool; macks : bool;
  msubs : subcfg;
  mmods : list modcfg
}.

Inductive status :=
| StPktClaimed     (* a handle_proxied_packet hook returned truthy: nothing else happens *)
| StHandled        (* handle_lludp_message returned truthy: not forwarded by the proxy *)
| StForward        (* reached the final "send unless finalized" step *)
| StEscaped.       (* an exception left handle_proxied_packet (proved unreachable: C07_proxy_never_trips_own_guard) *)

(* the RLV loop of handle_lludp_message, commands i, i+1, .. (fuel = number of commands left) *)
Fixpoint rlv_loop (fuel i : nat) (mods : list modcfg) (m : mst) (all : bool) : mst * list ev * bool :=
  match fuel with
  | 0 => (m, [], all)
  | S f =>
    let '(m1, e1, handled) := call_all (PtRlv i) 0 mods m in
    if handled then
      match drop m1 with
      | Some (m2, ws) =>
        let '(m3, e3, a3) := rlv_loop f (S i) mods m2 all in (m3, e1 ++ map orig_ev ws ++ e3, a3)
      | None =>
        let '(m3, e3, a3) := rlv_loop f (S i) mods m1 false in (m3, e1 ++ EExcRlv :: e3, a3)
      end
    else
      let '(m3, e3, a3) := rlv_loop f (S i) mods m1 false in (m3, e1 ++ e3, a3)
  end.

(* AddonManager.handle_lludp_message; None = an exception escapes *)
Definition lludp_dispatch (c : msgcfg) (m : mst) : option (mst * list ev * bool) :=
  match mkind c with
  | KCommand =>
    (* if not message.finalized: region.circuit.drop_message(message)     (repaired: /repo d9b7ff1) *)
    match (if finalized m then Some (m, []) else drop m) with
    | Some (m1, ws) => Some (m1, map orig_ev ws ++ [ECmd], true)
    | None => None
    end
  | KRlv n =>
    (* all_cmds_handled = bool(commands)                                  (repaired: /repo 40d86e5) *)
    let '(m1, e1, all) := rlv_loop n 0 (mmods c) m (Nat.ltb 0 n) in
    if all then Some (m1, e1, true)
    else let '(m2, e2, r) := call_all PtLludp 0 (mmods c) m1 in Some (m2, e1 ++ e2, r)
  | KPlain => Some (call_all PtLludp 0 (mmods c) m)
  end.

Definition log_ev (m : mst) : ev := ELog (finalized m) (dropped m) (queued m) (muts m).

(* handle_proxied_packet, from the packet hook on *)
Definition handle_packet (w : world) (c : msgcfg) : world * list ev * (mst * status) :=
  let m0 := wire_msg (mrel c) (macks c) in
  (* packet hooks are not handed the message ([pbeh] has no operations): m0' = m0 *)
  let '(m0', e0, claimed) := call_all PtPkt 0 (mmods c) m0 in
  if claimed then (w, e0, (m0', StPktClaimed))
  else
    let '(sn', sw', m1, e1) := handle_mh true (msubs c) (sn w) (sw w) m0' in
    let '(rn', rw', m2, e2) := handle_mh false (msubs c) (rn w) (rw w) m1 in
    let w' := mk_world sn' sw' rn' rw' in
    match lludp_dispatch c m2 with
    | None => (w', e0 ++ e1 ++ e2 ++ [EEscape], (m2, StEscaped))
    | Some (m3, e3, handled) =>
      (* if message.queued and not message.finalized: region.circuit.drop_message(message) *)
      match (if queued m3 && negb (finalized m3) then drop m3 else Some (m3, [])) with
      | None => (w', e0 ++ e1 ++ e2 ++ e3 ++ [EEscape], (m3, StEscaped))
      | Some (m4, ws4) =>
        let pre := e0 ++ e1 ++ e2 ++ e3 ++ map orig_ev ws4 ++ [log_ev m4] in
        if handled then (w', pre, (m4, StHandled))
        else
          (* if not message.finalized: region.circuit.send(message) *)
          match (if negb (finalized m4) then send m4 else Some (m4, [])) with
          | None => (w', pre ++ [EEscape], (m4, StEscaped))
          | Some (m5, ws5) => (w', pre ++ map orig_ev ws5, (m5, StForward))
          end
      end
    end.

(* a history of datagrams on one circuit: subscriptions persist, each message has its own behaviours *)
Fixpoint run_history (w : world) (cs : list msgcfg) : world * list (list ev * (mst * status)) :=
  match cs with
  | [] => (w, [])
  | c :: t =>
    let '(w1, es, r) := handle_packet w c in
    let '(w2, rest) := run_history w1 t in
    (w2, (es, r) :: rest)
  end.

(* ------------------------------------------------------------------ trace measures *)

Definition is_orig (e : ev) : bool := match e with EOrig _ => true | _ => false end.
Definition is_drop_ok (e : ev) : bool := match e with EOp Drop true => true | _ => false end.
Definition is_log (e : ev) : bool := match e with ELog _ _ _ _ => true | _ => false end.
Definition is_exc (e : ev) : bool :=
  match e with EExcHook | EExcSub | EExcHandler _ | EExcRlv => true | _ => false end.
Definition is_escape (e : ev) : bool := match e with EEscape => true | _ => false end.
Definition count (f : ev -> bool) (es : list ev) : nat := length (filter f es).
(* the record of a take() that failed in its copy step *)
Definition is_failed_take (e : ev) : bool := match e with EOp TakeFail _ => true | _ => false end.
(* trace without exception-log entries and failed-take records *)
Definition strip_exc (es : list ev) : list ev := filter (fun e => negb (is_exc e || is_failed_take e)) es.

(* ------------------------------------------------------------------ normalisation (for isolation) *)

(* the same behaviour with every `raise` replaced by `return None`, and every failing take()
   removed: where the addon catches the failure the hook simply goes on, where it does not the
   hook ends there with a falsy return *)
Fixpoint calm (b : beh) : beh :=
  match b with
  | Ret r => Ret r
  | Raise => Ret false
  | Act c o k =>
    match o with
    | TakeFail => if c then calm k else Ret false
    | _ => Act c o (calm k)
    end
  end.
Definition calm_p (p : pbeh) : pbeh := match p with PRaise => PRet false | _ => p end.
Definition calm_hs (hs : hookset) : hookset :=
  mk_hookset (option_map calm_p (h_pkt hs)) (option_map calm (h_lludp hs)) (option_map (map calm_p) (h_rlv hs)).
Definition calm_mod (md : modcfg) : modcfg := mk_modcfg (map calm_hs (m_subs md)) (calm_hs (m_self md)).
Definition calm_subcfg (c : subcfg) : subcfg := map (fun kv => (fst kv, (fst (snd kv), calm (snd (snd kv))))) c.
Definition calm_cfg (c : msgcfg) : msgcfg :=
  mk_msgcfg (mkind c) (mrel c) (macks c) (calm_subcfg (msubs c)) (map calm_mod (mmods c)).

(* ------------------------------------------------------------------ "nobody claimed it" *)

Fixpoint beh_quiet (b : beh) : bool :=     (* no take / drop, no truthy return *)
  match b with
  | Ret r => negb r
  | Raise => true
  | Act _ o k => match o with Take | Drop => false | _ => beh_quiet k end
  end.
Fixpoint beh_noclaim (b : beh) : bool :=   (* no take / drop (the return value is free: subscribers) *)
  match b with
  | Ret _ => true
  | Raise => true
  | Act _ o k => match o with Take | Drop => false | _ => beh_noclaim k end
  end.
Definition pbeh_quiet (p : pbeh) : bool := match p with PRet true => false | _ => true end.
Definition opt_all {A} (f : A -> bool) (o : option A) : bool := match o with None => true | Some a => f a end.
Definition hs_quiet (hs : hookset) : bool :=
  opt_all pbeh_quiet (h_pkt hs) && opt_all beh_quiet (h_lludp hs) && opt_all (forallb pbeh_quiet) (h_rlv hs).
Definition mod_quiet (md : modcfg) : bool := forallb hs_quiet (m_subs md) && hs_quiet (m_self md).
Definition kind_unclaimed (k : kind) : bool :=
  match k with KPlain => true | KCommand => false | KRlv _ => true end.
Definition cfg_unclaimed (c : msgcfg) : bool :=
  kind_unclaimed (mkind c)
  && forallb (fun kv => beh_noclaim (snd (snd kv))) (msubs c)
  && forallb mod_quiet (mmods c).

(* projections of one datagram's result *)
Definition hp_world (w : world) (c : msgcfg) : world := fst (fst (handle_packet w c)).
Definition hp_trace (w : world) (c : msgcfg) : list ev := snd (fst (handle_packet w c)).
Definition hp_final (w : world) (c : msgcfg) : mst := fst (snd (handle_packet w c)).
Definition hp_status (w : world) (c : msgcfg) : status := snd (snd (handle_packet w c)).
