(* C06 - lemmas about the SOCKS5 UDP framing model (Proxy/Socks.v). *)
From Coq Require Import NArith PeanoNat List Bool Lia ZifyBool ZifyNat ZifyN.
From HV Require Import Base.Bytes Proxy.Socks.
Import ListNotations.
Open Scope N_scope.

(* ---------- equality tests ---------- *)

Lemma bytes_eqb_eq a b : bytes_eqb a b = true <-> a = b.
Proof.
  revert b; induction a as [|x a IH]; intros [|y b]; cbn; split; intros H; try reflexivity; try discriminate.
  - apply andb_prop in H as [H1 H2]. apply N.eqb_eq in H1. apply IH in H2. now subst.
  - injection H as -> ->. rewrite N.eqb_refl. cbn. now apply IH.
Qed.

Lemma bytes_eqb_refl a : bytes_eqb a a = true.
Proof. now apply bytes_eqb_eq. Qed.

Lemma host_eqb_eq a b : host_eqb a b = true <-> a = b.
Proof.
  destruct a as [x|x], b as [y|y]; cbn; split; intros H; try discriminate.
  - apply N.eqb_eq in H. now subst.
  - injection H as ->. apply N.eqb_refl.
  - apply bytes_eqb_eq in H. now subst.
  - injection H as ->. apply bytes_eqb_refl.
Qed.

Lemma addr_eqb_eq a b : addr_eqb a b = true <-> a = b.
Proof.
  destruct a as [h p], b as [h' p']. unfold addr_eqb. cbn [fst snd]. split; intros H.
  - apply andb_prop in H as [H1 H2]. apply host_eqb_eq in H1. apply N.eqb_eq in H2. now subst.
  - injection H as -> ->. rewrite N.eqb_refl, andb_true_r. now apply host_eqb_eq.
Qed.

Lemma addr_eqb_refl a : addr_eqb a a = true.
Proof. now apply addr_eqb_eq. Qed.

Lemma addr_eqb_neq a b : addr_eqb a b = false <-> a <> b.
Proof.
  split; intros H.
  - intros E. apply addr_eqb_eq in E. congruence.
  - destruct (addr_eqb a b) eqn:E; [|reflexivity]. apply addr_eqb_eq in E. contradiction.
Qed.

Lemma addr_eqb_sym a b : addr_eqb a b = addr_eqb b a.
Proof.
  destruct (addr_eqb a b) eqn:E.
  - apply addr_eqb_eq in E. subst. symmetry. apply addr_eqb_refl.
  - symmetry. apply addr_eqb_neq. apply addr_eqb_neq in E. congruence.
Qed.

Lemma ip_addr_inj a b : ip_addr a = ip_addr b -> a = b.
Proof. destruct a, b. unfold ip_addr. cbn. intros H. now injection H as -> ->. Qed.

(* an address parsed from the domain form never equals a datagram source / region address *)
Lemma dom_never_ip d p a : addr_eqb (ip_addr a) (HDom d, p) = false.
Proof. reflexivity. Qed.

(* ---------- the header that one side adds is exactly what the other side strips ---------- *)

Definition ipaddr_ok (a : ipaddr) : Prop := fst a < 2 ^ 32 /\ snd a < 2 ^ 16.

Lemma be4 v : exists a b c d, be_bytes 4 v = [a; b; c; d].
Proof. unfold be_bytes. cbn. repeat eexists. Qed.

Lemma be2 v : exists a b, be_bytes 2 v = [a; b].
Proof. unfold be_bytes. cbn. repeat eexists. Qed.

Lemma of_be2 a b : of_be [a; b] = b + 256 * a.
Proof. unfold of_be. cbn [rev app of_le]. lia. Qed.

Lemma of_be4 a b c d : of_be [a; b; c; d] = d + 256 * (c + 256 * (b + 256 * a)).
Proof. unfold of_be. cbn [rev app of_le]. lia. Qed.

Theorem socks_inverse : forall a d, ipaddr_ok a -> parse_socks (wrap a d) = POk (ip_addr a) d.
Proof.
  intros [ip port] d [Hip Hport]. cbn [fst snd] in *.
  unfold wrap. cbn [fst snd].
  destruct (be4 ip) as (a & b & c & e & E4). destruct (be2 port) as (p1 & p2 & E2).
  rewrite E4, E2. cbn [app parse_socks].
  change (of_be [0; 0] =? 0) with true. cbn [negb orb N.eqb].
  change (1 =? 1) with true. cbv iota.
  rewrite <- E4, <- E2.
  rewrite (of_be_be_bytes 4) by (cbn; lia).
  rewrite (of_be_be_bytes 2) by (cbn; lia).
  reflexivity.
Qed.

(* conversely: whatever parses to an IPv4 destination *is* that wrapping (no second spelling) *)
Theorem socks_parse_unique : forall data ip port body,
  bytes_okb data = true -> parse_socks data = POk (HIp ip, port) body ->
  data = wrap (ip, port) body /\ ipaddr_ok (ip, port).
Proof.
  intros data ip port body Hok H.
  destruct data as [|r1 [|r2 [|frag [|atyp rest]]]]; try discriminate.
  cbn [parse_socks] in H.
  destruct (negb (of_be [r1; r2] =? 0) || negb (frag =? 0)) eqn:E1; [discriminate|].
  apply orb_false_elim in E1 as [Er Ef].
  apply negb_false_iff in Er, Ef. apply N.eqb_eq in Er, Ef. subst frag.
  assert (r1 = 0 /\ r2 = 0) as [-> ->].
  { rewrite of_be2 in Er. lia. }
  destruct (atyp =? 1) eqn:E2.
  - apply N.eqb_eq in E2. subst atyp.
    destruct rest as [|a [|b [|c [|d [|p1 [|p2 body']]]]]]; try discriminate.
    injection H as <- <- <-.
    repeat rewrite bytes_okb_cons in Hok.
    repeat (apply andb_prop in Hok as [? Hok]).
    unfold wrap. cbn [fst snd].
    split.
    + replace (be_bytes 4 (of_be [a; b; c; d])) with [a; b; c; d]
        by (symmetry; apply (be_bytes_of_be [a; b; c; d]); cbn; lia).
      replace (be_bytes 2 (of_be [p1; p2])) with [p1; p2]
        by (symmetry; apply (be_bytes_of_be [p1; p2]); cbn; lia).
      reflexivity.
    + split; cbn [fst snd].
      * apply (of_le_bound [d; c; b; a]). cbn. lia.
      * apply (of_le_bound [p2; p1]). cbn. lia.
  - destruct (atyp =? 3); [|discriminate].
    destruct rest as [|len r]; [discriminate|].
    destruct (skipn (N.to_nat len) r) as [|p1 [|p2 b']]; discriminate.
Qed.

(* ---------- rejections, as coded ---------- *)

Theorem socks_reject_frag : forall r1 r2 frag atyp rest,
  frag <> 0 -> parse_socks (r1 :: r2 :: frag :: atyp :: rest) = PNone.
Proof.
  intros. cbn [parse_socks]. replace (frag =? 0) with false by (symmetry; now apply N.eqb_neq).
  now rewrite orb_true_r.
Qed.

Theorem socks_reject_rsv : forall r1 r2 frag atyp rest,
  r1 < 256 -> r2 < 256 -> (r1 <> 0 \/ r2 <> 0) -> parse_socks (r1 :: r2 :: frag :: atyp :: rest) = PNone.
Proof.
  intros r1 r2 frag atyp rest H1 H2 H. cbn [parse_socks].
  replace (of_be [r1; r2] =? 0) with false; [reflexivity|].
  symmetry. apply N.eqb_neq. rewrite of_be2. lia.
Qed.

Theorem socks_reject_atyp : forall frag atyp rest,
  atyp <> 1 -> atyp <> 3 -> parse_socks (0 :: 0 :: frag :: atyp :: rest) <> POk (fst (HIp 0, 0), 0) rest
  /\ (frag = 0 -> parse_socks (0 :: 0 :: frag :: atyp :: rest) = PNone).
Proof.
  intros frag atyp rest H1 H3. assert (G : frag = 0 -> parse_socks (0 :: 0 :: frag :: atyp :: rest) = PNone).
  { intros ->. cbn [parse_socks]. change (of_be [0; 0] =? 0) with true. cbn [negb orb N.eqb].
    replace (atyp =? 1) with false by (symmetry; now apply N.eqb_neq).
    replace (atyp =? 3) with false by (symmetry; now apply N.eqb_neq). reflexivity. }
  split; [|exact G].
  destruct (N.eq_dec frag 0) as [->|Hf].
  - rewrite G by reflexivity. discriminate.
  - rewrite socks_reject_frag by assumption. discriminate.
Qed.

(* a datagram shorter than the fixed header raises; an IPv4 header needs all 10 bytes *)
Theorem socks_short_header : forall data, (length data < 4)%nat -> parse_socks data = PExc.
Proof.
  intros [|a [|b [|c [|d r]]]] H; try reflexivity. cbn in H. lia.
Qed.

Theorem socks_short_ipv4 : forall rest, (length rest < 6)%nat -> parse_socks (0 :: 0 :: 0 :: 1 :: rest) = PExc.
Proof.
  intros [|a [|b [|c [|d [|p1 [|p2 r]]]]]] H; try reflexivity. cbn in H. lia.
Qed.

(* never a payload out of thin air: a parsed payload is a suffix of the datagram *)
Theorem socks_payload_suffix : forall data a body, parse_socks data = POk a body -> exists pre, data = pre ++ body.
Proof.
  intros data a body H.
  destruct data as [|r1 [|r2 [|frag [|atyp rest]]]]; try discriminate.
  cbn [parse_socks] in H.
  destruct (negb (of_be [r1; r2] =? 0) || negb (frag =? 0)); [discriminate|].
  destruct (atyp =? 1).
  - destruct rest as [|a1 [|b [|c [|d [|p1 [|p2 body']]]]]]; try discriminate.
    injection H as _ <-. now exists [r1; r2; frag; atyp; a1; b; c; d; p1; p2].
  - destruct (atyp =? 3); [|discriminate].
    destruct rest as [|len r]; [discriminate|].
    destruct (skipn (N.to_nat len) r) as [|p1 [|p2 b']] eqn:E; try discriminate.
    injection H as _ <-.
    exists ([r1; r2; frag; atyp; len] ++ firstn (N.to_nat len) r ++ [p1; p2]).
    rewrite <- (firstn_skipn (N.to_nat len) r) at 1. rewrite E.
    cbn [app]. do 5 f_equal. rewrite <- app_assoc. reflexivity.
Qed.

(* the domain form as coded: length byte, that many bytes of name (a bytes object), port, payload *)
Theorem socks_domain_form : forall dom p1 p2 body,
  (length dom < 256)%nat ->
  parse_socks ([0; 0; 0; 3; N.of_nat (length dom)] ++ dom ++ [p1; p2] ++ body)
  = POk (HDom dom, of_be [p1; p2]) body.
Proof.
  intros dom p1 p2 body H. cbn [app parse_socks].
  change (of_be [0; 0] =? 0) with true. cbn [negb orb N.eqb]. change (3 =? 1) with false. change (3 =? 3) with true.
  cbv iota. rewrite Nat2N.id.
  rewrite skipn_app, skipn_all, Nat.sub_diag. cbn [app skipn].
  rewrite firstn_app, firstn_all, Nat.sub_diag. cbn [firstn]. rewrite app_nil_r. reflexivity.
Qed.
