(* C07 - facts about the ownership flags and the circuit guards (Ownership.v) *)
From Coq Require Import List Bool Arith Lia.
From HV Require Import Proxy.Ownership.
Import ListNotations.

(* ---- the guards *)
Lemma send_finalized_err : forall m, finalized m = true -> send m = None.
Proof. intros m H. unfold send. rewrite H. reflexivity. Qed.

Lemma drop_finalized_err : forall m, finalized m = true -> drop m = None.
Proof. intros m H. unfold drop. rewrite H. reflexivity. Qed.

Lemma send_queued_err : forall m, queued m = true -> send m = None.
Proof. intros m H. unfold send. rewrite H. destruct (finalized m); reflexivity. Qed.

Lemma send_ok_finalizes : forall m m' ws, send m = Some (m', ws) ->
  finalized m = false /\ queued m = false /\ finalized m' = true /\ dropped m' = dropped m /\
  queued m' = false /\ has_pid m' = true /\ ws = [WMsg (muts m)].
Proof.
  intros m m' ws H. unfold send in H.
  destruct (finalized m) eqn:Hf; [discriminate|].
  destruct (queued m) eqn:Hq; [discriminate|].
  inversion H; subst; cbn. repeat split; reflexivity.
Qed.

Lemma drop_ok_cases : forall m m' ws, drop m = Some (m', ws) ->
  finalized m = false /\
  ((has_pid m = false /\ m' = m /\ ws = []) \/
   (has_pid m = true /\ finalized m' = true /\ dropped m' = true /\ queued m' = queued m /\
    has_pid m' = true /\ count_msgs ws = 0)).
Proof.
  intros m m' ws H. unfold drop in H.
  destruct (finalized m) eqn:Hf; [discriminate|]. split; [reflexivity|].
  destruct (has_pid m) eqn:Hp; cbn in H; inversion H; subst; cbn.
  - right. repeat split; try reflexivity.
    destruct (reliable m), (has_acks m); reflexivity.
  - left. repeat split; reflexivity.
Qed.

Lemma take_orig_flags : forall m,
  finalized (fst (take m)) = finalized m /\ dropped (fst (take m)) = dropped m /\
  has_pid (fst (take m)) = has_pid m /\ muts (fst (take m)) = muts m /\
  queued (fst (take m)) = (queued m || negb (finalized m)).
Proof.
  intros m. unfold take; cbn. destruct (finalized m) eqn:Hf; cbn; rewrite ?Hf; repeat split; try reflexivity.
  - rewrite orb_false_r. reflexivity.
  - rewrite orb_true_r. reflexivity.
Qed.

Lemma take_copy_fresh : forall m,
  finalized (snd (take m)) = false /\ queued (snd (take m)) = false /\ dropped (snd (take m)) = false.
Proof. intros m. cbn. repeat split. Qed.

(* a copy made by take() can always be sent, exactly once *)
Lemma copy_sendable : forall m, exists m', send (snd (take m)) = Some (m', [WMsg (muts m)]) /\ finalized m' = true.
Proof. intros m. cbn. eexists. split; reflexivity. Qed.

(* ---- finalized is monotone: no operation ever clears it *)
Lemma apply_op_finalized_mono : forall o m m' ws cs,
  apply_op o m = Some (m', ws, cs) -> finalized m = true -> finalized m' = true.
Proof.
  intros o m m' ws cs H Hf. destruct o; cbn in H.
  - inversion H; subst. rewrite Hf. exact Hf.
  - rewrite (drop_finalized_err m Hf) in H. discriminate.
  - rewrite (send_finalized_err m Hf) in H. discriminate.
  - inversion H; subst. exact Hf.
  - inversion H; subst. exact Hf.
  - discriminate.
Qed.

(* once finalized, Send/Drop of the original error and nothing of the original reaches the wire *)
Lemma apply_op_dead : forall o m, finalized m = true ->
  match o with
  | SendOrig | Drop | TakeFail => apply_op o m = None
  | _ => exists m' cs, apply_op o m = Some (m', [], cs) /\ finalized m' = true /\ dropped m' = dropped m
  end.
Proof.
  intros o m Hf. destruct o; cbn.
  - rewrite Hf. eauto.
  - rewrite (drop_finalized_err m Hf). reflexivity.
  - rewrite (send_finalized_err m Hf). reflexivity.
  - eauto.
  - eexists _, _. split; [reflexivity|]. cbn. auto.
  - reflexivity.
Qed.

(* no_resurrection, for every sequence of operations whatsoever *)
Lemma apply_ops_dead : forall ops m, finalized m = true ->
  let '(m', ws, oks) := apply_ops ops m in
  ws = [] /\ finalized m' = true /\ dropped m' = dropped m /\
  (forall i o, nth_error ops i = Some o -> (o = SendOrig \/ o = Drop) -> nth_error oks i = Some false).
Proof.
  induction ops as [|o t IH]; intros m Hf; cbn.
  - repeat split; try assumption. intros i o H. destruct i; discriminate.
  - pose proof (apply_op_dead o m Hf) as Hd.
    destruct o; cbn in Hd |- *.
    + (* Take *) rewrite Hf. specialize (IH m Hf). destruct (apply_ops t m) as [[m'' ws'] oks].
      destruct IH as (Hw & Hf' & Hd' & Hall). repeat split; try assumption.
      intros i o Hi Ho. destruct i; cbn in *.
      * inversion Hi; subst. destruct Ho; discriminate.
      * eapply Hall; eauto.
    + (* Drop *) rewrite (drop_finalized_err m Hf). specialize (IH m Hf).
      destruct (apply_ops t m) as [[m'' ws'] oks].
      destruct IH as (Hw & Hf' & Hd' & Hall). repeat split; try assumption.
      intros i o Hi Ho. destruct i; cbn in *; [reflexivity|]. eapply Hall; eauto.
    + (* SendOrig *) rewrite (send_finalized_err m Hf). specialize (IH m Hf).
      destruct (apply_ops t m) as [[m'' ws'] oks].
      destruct IH as (Hw & Hf' & Hd' & Hall). repeat split; try assumption.
      intros i o Hi Ho. destruct i; cbn in *; [reflexivity|]. eapply Hall; eauto.
    + (* SendCopy *) specialize (IH m Hf). destruct (apply_ops t m) as [[m'' ws'] oks].
      destruct IH as (Hw & Hf' & Hd' & Hall). repeat split; try assumption.
      intros i o Hi Ho. destruct i; cbn in *.
      * inversion Hi; subst. destruct Ho; discriminate.
      * eapply Hall; eauto.
    + (* Mutate *) assert (Hfm : finalized (mutate m) = true) by exact Hf.
      specialize (IH (mutate m) Hfm). destruct (apply_ops t (mutate m)) as [[m'' ws'] oks].
      destruct IH as (Hw & Hf' & Hd' & Hall). repeat split; try assumption.
      intros i o Hi Ho. destruct i; cbn in *.
      * inversion Hi; subst. destruct Ho; discriminate.
      * eapply Hall; eauto.
    + (* TakeFail *) specialize (IH m Hf). destruct (apply_ops t m) as [[m'' ws'] oks].
      destruct IH as (Hw & Hf' & Hd' & Hall). repeat split; try assumption.
      intros i o Hi Ho. destruct i; cbn in *.
      * inversion Hi; subst. destruct Ho; discriminate.
      * eapply Hall; eauto.
Qed.

(* a failed take() claims nothing: the flags are untouched, nothing is emitted *)
Lemma failed_take_noop : forall ops m,
  apply_ops (TakeFail :: ops) m = (let '(m', ws, oks) := apply_ops ops m in (m', ws, false :: oks)).
Proof. intros. reflexivity. Qed.

(* at most once at the level of a single message object: whatever sequence of operations is
   applied to a message that came from the wire, it reaches the transport at most once, and
   exactly when it ends up finalized and not dropped *)
Definition b2n (b : bool) : nat := if b then 1 else 0.
Definition sent (m : mst) : bool := finalized m && negb (dropped m).
Definition good (m : mst) : Prop := has_pid m = true /\ (dropped m = true -> finalized m = true).

Lemma apply_op_count : forall o m m' ws cs, good m ->
  apply_op o m = Some (m', ws, cs) ->
  good m' /\ b2n (sent m) + count_msgs ws = b2n (sent m') /\
  (dropped m = true -> dropped m' = true).
Proof.
  intros o m m' ws cs [Hp Hd] H. destruct o; cbn in H.
  - inversion H; subst; clear H. unfold good, sent. cbn.
    destruct (finalized m) eqn:Hf; cbn; rewrite ?Hf; repeat split; auto; unfold count_msgs; cbn; lia.
  - destruct (drop m) as [[m1 w1]|] eqn:E; [|discriminate]. inversion H; subst; clear H.
    apply drop_ok_cases in E. destruct E as [Hf [(Hp' & _)|(_ & Hf' & Hd' & _ & Hp'' & Hc)]].
    + congruence.
    + unfold good, sent. rewrite Hf, Hf', Hd', Hc. cbn. repeat split; auto.
  - destruct (send m) as [[m1 w1]|] eqn:E; [|discriminate]. inversion H; subst; clear H.
    apply send_ok_finalizes in E. destruct E as (Hf & Hq & Hf' & Hd' & Hq' & Hp' & Hw). subst ws.
    assert (Hdm : dropped m = false).
    { destruct (dropped m) eqn:Ed; [|reflexivity]. specialize (Hd eq_refl). congruence. }
    unfold good, sent. rewrite Hf, Hf', Hd', Hdm. cbn. repeat split; auto; try (intros; discriminate).
  - inversion H; subst; clear H. unfold good, sent, count_msgs; cbn. repeat split; auto; lia.
  - inversion H; subst; clear H. unfold good, sent, count_msgs; cbn. repeat split; auto; lia.
  - discriminate.
Qed.

Lemma count_msgs_app : forall a b, count_msgs (a ++ b) = count_msgs a + count_msgs b.
Proof. intros. unfold count_msgs. rewrite filter_app, app_length. reflexivity. Qed.

Lemma apply_ops_count : forall ops m, good m ->
  let '(m', ws, _) := apply_ops ops m in
  good m' /\ b2n (sent m) + count_msgs ws = b2n (sent m').
Proof.
  induction ops as [|o t IH]; intros m Hg; cbn.
  - split; [assumption|]. unfold count_msgs; cbn. lia.
  - destruct (apply_op o m) as [[[m1 w1] c1]|] eqn:E.
    + destruct (apply_op_count _ _ _ _ _ Hg E) as (Hg1 & Hc1 & _).
      specialize (IH m1 Hg1). destruct (apply_ops t m1) as [[m2 w2] oks].
      destruct IH as (Hg2 & Hc2). split; [assumption|]. rewrite count_msgs_app. lia.
    + specialize (IH m Hg). destruct (apply_ops t m) as [[m2 w2] oks]. exact IH.
Qed.

Lemma wire_msg_good : forall r a, good (wire_msg r a) /\ sent (wire_msg r a) = false.
Proof. intros. unfold good, sent; cbn. repeat split; auto; try (intros; discriminate). Qed.

Lemma ops_at_most_once : forall ops r a,
  let '(m', ws, _) := apply_ops ops (wire_msg r a) in
  count_msgs ws <= 1 /\ (count_msgs ws = 1 <-> (finalized m' = true /\ dropped m' = false)).
Proof.
  intros ops r a. destruct (wire_msg_good r a) as [Hg Hs].
  pose proof (apply_ops_count ops (wire_msg r a) Hg) as H.
  destruct (apply_ops ops (wire_msg r a)) as [[m' ws] oks].
  destruct H as (_ & Hc). rewrite Hs in Hc. cbn in Hc.
  unfold sent in Hc. destruct (finalized m'), (dropped m'); cbn in Hc; split; try lia;
    split; intros; try lia; try (destruct H; discriminate); auto.
Qed.
