(* C06 - lemmas about the routing model (Proxy/UdpProxy.v).  Everything is stated for an
   arbitrary decoding oracle [decode]. *)
From Coq Require Import NArith PeanoNat List Bool Lia ZifyBool ZifyNat ZifyN.
From HV Require Import Base.Bytes Proxy.Socks Proxy.SocksProofs Proxy.UdpProxy.
Import ListNotations.
Open Scope N_scope.

(* ---------- far_to_near_map ---------- *)

Definition truthy (m : list (addr * ipaddr)) (a : addr) : bool :=
  match f2n_get m a with Some _ => true | None => false end.

Lemma f2n_get_set_same m a v : f2n_get (f2n_set m a v) a = Some v.
Proof.
  induction m as [|[k w] m IH]; unfold f2n_get in *; cbn [f2n_set find fst snd].
  - now rewrite addr_eqb_refl.
  - destruct (addr_eqb k a) eqn:E; cbn [find fst snd].
    + now rewrite E.
    + rewrite E. exact IH.
Qed.

Lemma f2n_get_set_other m a v b : a <> b -> f2n_get (f2n_set m a v) b = f2n_get m b.
Proof.
  intros Hab. induction m as [|[k w] m IH]; unfold f2n_get in *; cbn [f2n_set find fst snd].
  - replace (addr_eqb a b) with false by (symmetry; now apply addr_eqb_neq). reflexivity.
  - destruct (addr_eqb k a) eqn:E; cbn [find fst snd].
    + apply addr_eqb_eq in E. subst k.
      replace (addr_eqb a b) with false by (symmetry; now apply addr_eqb_neq). reflexivity.
    + destruct (addr_eqb k b); [reflexivity|exact IH].
Qed.

Lemma truthy_set_same m a v : truthy (f2n_set m a v) a = true.
Proof. unfold truthy. now rewrite f2n_get_set_same. Qed.

Lemma truthy_set_other m a v b : a <> b -> truthy (f2n_set m a v) b = truthy m b.
Proof. intros H. unfold truthy. now rewrite f2n_get_set_other. Qed.

Lemma truthy_set_mono m a v b : truthy m b = true -> truthy (f2n_set m a v) b = true.
Proof.
  intros H. destruct (addr_eqb a b) eqn:E.
  - apply addr_eqb_eq in E. subst. apply truthy_set_same.
  - apply addr_eqb_neq in E. now rewrite truthy_set_other.
Qed.

(* ---------- lists ---------- *)

Lemma upd_nth_same {A} (l : list A) n x : nth_error l n = Some x -> upd_nth n x l = l.
Proof.
  revert n; induction l as [|h t IH]; intros [|n] H; cbn in *; try discriminate; try reflexivity.
  - now injection H as ->.
  - now rewrite IH.
Qed.

Lemma nth_error_upd_same {A} (l : list A) n x : (n < length l)%nat -> nth_error (upd_nth n x l) n = Some x.
Proof.
  revert n; induction l as [|h t IH]; intros [|n] H; cbn in *; try lia; try reflexivity.
  apply IH. lia.
Qed.

Lemma nth_error_upd_other {A} (l : list A) n m x : n <> m -> nth_error (upd_nth n x l) m = nth_error l m.
Proof.
  revert n m; induction l as [|h t IH]; intros [|n] [|m] H; cbn in *; try reflexivity; try congruence.
  apply IH. congruence.
Qed.

Lemma upd_nth_length {A} (l : list A) n x : length (upd_nth n x l) = length l.
Proof. revert n; induction l as [|h t IH]; intros [|n]; cbn; try reflexivity. now rewrite IH. Qed.

Lemma upd_nth_upd_nth {A} (l : list A) n x y : upd_nth n x (upd_nth n y l) = upd_nth n x l.
Proof. revert n; induction l as [|h t IH]; intros [|n]; cbn; try reflexivity. now rewrite IH. Qed.

(* ---------- region lookup / circuit opening / claiming ---------- *)

Definition region_hit (far : addr) (r : region) : option circuit :=
  if addr_eqb (ip_addr (r_addr r)) far then r_circ r else None.

Lemma find_region_some rs far k r c :
  find_region rs far = Some (k, r, c) ->
  nth_error rs k = Some r /\ r_circ r = Some c /\ ip_addr (r_addr r) = far.
Proof.
  revert k; induction rs as [|r0 t IH]; intros k H; cbn [find_region] in H; [discriminate|].
  destruct (addr_eqb (ip_addr (r_addr r0)) far) eqn:E.
  - destruct (r_circ r0) as [c0|] eqn:Ec.
    + injection H as <- <- <-. cbn. repeat split; [exact Ec|]. now apply addr_eqb_eq.
    + destruct (find_region t far) as [[[k' r'] c']|] eqn:F; [|discriminate].
      injection H as <- <- <-. cbn. now apply IH.
  - destruct (find_region t far) as [[[k' r'] c']|] eqn:F; [|discriminate].
    injection H as <- <- <-. cbn. now apply IH.
Qed.

Lemma find_region_none rs far :
  find_region rs far = None <-> forall r, In r rs -> region_hit far r = None.
Proof.
  unfold region_hit. induction rs as [|r0 t IH]; cbn [find_region]; split; intros H.
  - intros r [].
  - reflexivity.
  - destruct (if addr_eqb (ip_addr (r_addr r0)) far then r_circ r0 else None) eqn:E; [discriminate|].
    destruct (find_region t far) as [[[k' r'] c']|] eqn:F; [discriminate|].
    intros r [<-|Hin]; [exact E|]. now apply IH.
  - rewrite (H r0) by now left.
    replace (find_region t far) with (@None (nat * region * circuit)); [reflexivity|].
    symmetry. apply IH. intros r Hr. apply H. now right.
Qed.

(* a region list in which no two regions share a circuit address: the lookup finds *the* region *)
Lemma find_region_unique rs far k r c :
  NoDup (map r_addr rs) -> nth_error rs k = Some r -> r_circ r = Some c -> ip_addr (r_addr r) = far ->
  find_region rs far = Some (k, r, c).
Proof.
  revert k; induction rs as [|r0 t IH]; intros k Hnd Hn Hc Ha; [destruct k; discriminate|].
  cbn [map] in Hnd. inversion Hnd as [|? ? Hnotin Hnd']; subst.
  destruct k as [|k]; cbn in Hn.
  - injection Hn as ->. cbn [find_region]. rewrite addr_eqb_refl, Hc. reflexivity.
  - cbn [find_region].
    destruct (addr_eqb (ip_addr (r_addr r0)) (ip_addr (r_addr r))) eqn:E.
    + exfalso. apply addr_eqb_eq, ip_addr_inj in E. apply Hnotin. rewrite E.
      apply in_map. eapply nth_error_In; eauto.
    + rewrite (IH k Hnd' Hn Hc eq_refl). reflexivity.
Qed.

Lemma open_circuit_find rs near far rs1 :
  open_circuit rs near far = Some rs1 ->
  exists k r c, find_region rs1 far = Some (k, r, c).
Proof.
  revert rs1; induction rs as [|r0 t IH]; intros rs1 H; cbn [open_circuit] in H; [discriminate|].
  destruct (addr_eqb (ip_addr (r_addr r0)) far) eqn:E.
  - destruct (r_circ r0) as [c0|] eqn:Ec; [destruct (c_alive c0)|]; injection H as <-;
      cbn [find_region r_addr r_circ]; rewrite E; try rewrite Ec; eauto.
  - destruct (open_circuit t near far) as [t'|] eqn:O; [|discriminate]. injection H as <-.
    destruct (IH _ eq_refl) as (k & r & c & F).
    cbn [find_region]. rewrite E, F. eauto.
Qed.

Lemma open_circuit_none rs near far :
  open_circuit rs near far = None <-> forall r, In r rs -> ip_addr (r_addr r) <> far.
Proof.
  induction rs as [|r0 t IH]; cbn [open_circuit]; split; intros H.
  - intros r [].
  - reflexivity.
  - destruct (addr_eqb (ip_addr (r_addr r0)) far) eqn:E.
    + destruct (r_circ r0) as [c0|]; [destruct (c_alive c0)|]; discriminate.
    + destruct (open_circuit t near far) eqn:O; [discriminate|].
      intros r [<-|Hin]; [now apply addr_eqb_neq|]. now apply IH.
  - replace (addr_eqb (ip_addr (r_addr r0)) far) with false
      by (symmetry; apply addr_eqb_neq, H; now left).
    replace (open_circuit t near far) with (@None (list region)); [reflexivity|].
    symmetry. apply IH. intros r Hr. apply H. now right.
Qed.

(* opening a circuit to [far] creates no circuit at any other address *)
Lemma open_circuit_other rs near far rs1 X :
  open_circuit rs near far = Some rs1 -> far <> X -> find_region rs X = None -> find_region rs1 X = None.
Proof.
  revert rs1; induction rs as [|r0 t IH]; intros rs1 H Hne F; cbn [open_circuit] in H; [discriminate|].
  cbn [find_region] in F.
  destruct (if addr_eqb (ip_addr (r_addr r0)) X then r_circ r0 else None) eqn:E0; [discriminate|].
  destruct (find_region t X) as [[[k' r'] c']|] eqn:Ft; [discriminate|].
  destruct (addr_eqb (ip_addr (r_addr r0)) far) eqn:E.
  - assert (EX : addr_eqb (ip_addr (r_addr r0)) X = false).
    { apply addr_eqb_eq in E. rewrite E. now apply addr_eqb_neq. }
    destruct (r_circ r0) as [c0|]; [destruct (c_alive c0)|]; injection H as <-;
      cbn [find_region r_addr r_circ]; rewrite EX, Ft; reflexivity.
  - destruct (open_circuit t near far) as [t'|] eqn:O; [|discriminate]. injection H as <-.
    cbn [find_region]. rewrite E0. now rewrite (IH _ eq_refl Hne eq_refl).
Qed.

Lemma mark_dead_hit far r : (region_hit far (mark_dead r) = None) <-> (region_hit far r = None).
Proof.
  unfold region_hit, mark_dead. cbn [r_addr r_circ].
  destruct (addr_eqb (ip_addr (r_addr r)) far); [|tauto]. destruct (r_circ r); split; intros; congruence.
Qed.

Lemma in_upd_nth {A} (l : list A) n x y : In y (upd_nth n x l) -> y = x \/ In y l.
Proof.
  revert n; induction l as [|h t IH]; intros [|n] H; cbn in *; try tauto.
  - destruct H as [<-|H]; tauto.
  - destruct H as [<-|H]; [tauto|]. destruct (IH _ H); tauto.
Qed.

Lemma mark_dead_other rs k r X :
  nth_error rs k = Some r -> find_region rs X = None -> find_region (upd_nth k (mark_dead r) rs) X = None.
Proof.
  intros Hn F. apply find_region_none. intros r' Hin.
  apply in_upd_nth in Hin as [->|Hin].
  - apply mark_dead_hit. eapply find_region_none; eauto. eapply nth_error_In; eauto.
  - eapply find_region_none; eauto.
Qed.

Lemma claim_some ss sid i ss' :
  claim ss sid = Some (i, ss') ->
  exists s, nth_error ss i = Some s /\ s_pending s = true /\ s_id s = sid /\
            ss' = upd_nth i {| s_id := s_id s; s_pending := false; s_regions := s_regions s; s_main := s_main s |} ss.
Proof.
  revert i ss'; induction ss as [|s t IH]; intros i ss' H; cbn [claim] in H; [discriminate|].
  destruct (s_pending s && (s_id s =? sid)) eqn:E.
  - injection H as <- <-. apply andb_prop in E as [E1 E2]. apply N.eqb_eq in E2.
    exists s. cbn. repeat split; assumption.
  - destruct (claim t sid) as [[j t']|] eqn:C; [|discriminate]. injection H as <- <-.
    destruct (IH _ _ eq_refl) as (s' & Hn & Hp & Hid & Ht). exists s'. cbn. repeat split; try assumption.
    now rewrite <- Ht.
Qed.

(* ---------- names ---------- *)

Lemma name_eqb_eq a b : name_eqb a b = true <-> a = b.
Proof. apply bytes_eqb_eq. Qed.

Lemma ucc_needs_no_body nm : name_eqb nm n_UseCircuitCode = true -> needs_body nm = false.
Proof. intros H. apply name_eqb_eq in H. subst. reflexivity. Qed.

Lemma ucc_not_closing nm : name_eqb nm n_UseCircuitCode = true -> closes_circuit nm = false.
Proof. intros H. apply name_eqb_eq in H. subst. reflexivity. Qed.

Lemma set_sess_same p i : p_sess p = Some i -> set_sess p (Some i) = p.
Proof. destruct p. cbn. now intros ->. Qed.

Lemma session_eta s :
  {| s_id := s_id s; s_pending := s_pending s; s_regions := s_regions s; s_main := s_main s |} = s.
Proof. now destruct s. Qed.

Lemma guard_off S src : S <> src -> addr_eqb (ip_addr S) (ip_addr src) = false.
Proof. intros H. apply addr_eqb_neq. intros E. apply ip_addr_inj in E. contradiction. Qed.

(* the outcomes the property statement calls "discarded": bad framing, self-addressed, unknown host, pre-session,
   unknown circuit, banned, undecodable *)
Definition is_discard (o : outcome) : bool :=
  match o with
  | ONonSocks | OSelfAddressed | OUnknownHost | OPreSession | OUnclaimed | ONoCircuit
  | OExcSocks | OExcDecode | OExcBanned | OExcFlavor | OExcBody => true
  | _ => false
  end.

(* ====================================================================================== *)
Section Routing.
  Variable decode : list N -> option msginfo.

  Definition fwd_sends (outgoing : bool) (m : msginfo) (r : region) (c : circuit) : list send :=
    match mi_out m with
    | None => []
    | Some b => if outgoing then [(b, r_addr r)] else [(wrap (r_addr r) b, c_near c)]
    end.

  (* what a forwarded non-handshake message does to the session *)
  Definition after_forward (s : session) (m : msginfo) (k : nat) (r : region) : session :=
    {| s_id := s_id s; s_pending := s_pending s;
       s_regions := if closes_circuit (mi_name m) then upd_nth k (mark_dead r) (s_regions s) else s_regions s;
       s_main := if name_eqb (mi_name m) n_AgentMovementComplete then Some k else s_main s |}.

  Definition body_fine (m : msginfo) : Prop := needs_body (mi_name m) = true -> mi_body_ok m = true.

  Lemma handle_forward : forall ss p outgoing src far data m i s k r c,
    decode data = Some m ->
    (outgoing = false -> validate_udp_msg (mi_name m) = Some true) ->
    p_sess p = Some i -> nth_error ss i = Some s ->
    outgoing && name_eqb (mi_name m) n_UseCircuitCode = false ->
    find_region (s_regions s) far = Some (k, r, c) ->
    body_fine m -> mi_consumed m = false ->
    let res := handle decode ss p outgoing src far data in
    rs_outcome res = OForward /\ rs_sends res = fwd_sends outgoing m r c /\
    rs_proto res = p /\ rs_sessions res = upd_nth i (after_forward s m k r) ss.
  Proof.
    intros ss p outgoing src far data m i s k r c Hdec Hval Hsess Hnth Hucc Hfind Hbody Hcons res.
    subst res. unfold handle. rewrite Hdec.
    assert (V : (if outgoing then Some true else validate_udp_msg (mi_name m)) = Some true).
    { destruct outgoing; [reflexivity|now apply Hval]. }
    rewrite V, Hsess, Hnth, Hucc, Hfind.
    assert (B : needs_body (mi_name m) && negb (mi_body_ok m) = false).
    { destruct (needs_body (mi_name m)) eqn:E; [|reflexivity]. rewrite (Hbody E). reflexivity. }
    rewrite B, Hcons. cbn [rs_outcome rs_sends rs_proto rs_sessions].
    rewrite set_sess_same by assumption. unfold fwd_sends, after_forward. repeat split; reflexivity.
  Qed.

  (* ---------- transparency, one datagram ---------- *)

  (* viewer -> simulator: a SOCKS datagram from the client for a simulator with which the claimed
     session has a circuit goes to exactly that simulator, exactly once, as the circuit emits it *)
  Theorem viewer_to_sim : forall ss p data src S payload m i s k r c,
    f2n_get (p_f2n p) (ip_addr src) = None -> fst src = p_client p -> S <> src ->
    parse_socks data = POk (ip_addr S) payload ->
    decode payload = Some m -> p_sess p = Some i -> nth_error ss i = Some s ->
    name_eqb (mi_name m) n_UseCircuitCode = false ->
    find_region (s_regions s) (ip_addr S) = Some (k, r, c) ->
    body_fine m -> mi_consumed m = false ->
    let res := recv decode ss p data src in
    rs_outcome res = OForward /\
    rs_sends res = match mi_out m with Some b => [(b, S)] | None => [] end /\
    rs_sessions res = upd_nth i (after_forward s m k r) ss /\
    rs_proto res = set_f2n p (f2n_set (p_f2n p) (ip_addr S) src).
  Proof.
    intros ss p data src S payload m i s k r c Hf Hc Hne Hp Hd Hs Hn Hu Hfind Hb Hcons res. subst res.
    unfold recv. rewrite Hf, Hc, N.eqb_refl, Hp, (guard_off _ _ Hne).
    assert (Hu' : true && name_eqb (mi_name m) n_UseCircuitCode = false) by (cbn; exact Hu).
    assert (Hv : true = false -> validate_udp_msg (mi_name m) = Some true) by discriminate.
    destruct (handle_forward ss (set_f2n p (f2n_set (p_f2n p) (ip_addr S) src)) true src (ip_addr S) payload
                m i s k r c Hd Hv Hs Hn Hu' Hfind Hb Hcons) as (H1 & H2 & H3 & H4).
    apply find_region_some in Hfind as (_ & _ & Ha). apply ip_addr_inj in Ha.
    rewrite H1, H2, H3, H4. unfold fwd_sends. rewrite Ha. repeat split; reflexivity.
  Qed.

  (* simulator -> viewer: a datagram from a known far address with a circuit goes, wrapped with the
     simulator's address, to exactly the viewer address that opened the circuit, exactly once *)
  Theorem sim_to_viewer : forall ss p data S v m i s k r c,
    f2n_get (p_f2n p) (ip_addr S) = Some v ->
    decode data = Some m -> validate_udp_msg (mi_name m) = Some true ->
    p_sess p = Some i -> nth_error ss i = Some s ->
    find_region (s_regions s) (ip_addr S) = Some (k, r, c) ->
    body_fine m -> mi_consumed m = false ->
    let res := recv decode ss p data S in
    rs_outcome res = OForward /\
    rs_sends res = match mi_out m with Some b => [(wrap S b, c_near c)] | None => [] end /\
    rs_sessions res = upd_nth i (after_forward s m k r) ss /\
    rs_proto res = p.
  Proof.
    intros ss p data S v m i s k r c Hf Hd Hv Hs Hn Hfind Hb Hcons res. subst res.
    unfold recv. rewrite Hf.
    assert (Hu' : false && name_eqb (mi_name m) n_UseCircuitCode = false) by reflexivity.
    destruct (handle_forward ss p false S (ip_addr S) data m i s k r c Hd (fun _ => Hv) Hs Hn Hu' Hfind Hb Hcons)
      as (H1 & H2 & H3 & H4).
    apply find_region_some in Hfind as (_ & _ & Ha). apply ip_addr_inj in Ha.
    rewrite H1, H2, H3, H4. unfold fwd_sends. rewrite Ha. repeat split; reflexivity.
  Qed.

  (* ---------- the handshake that opens a circuit ---------- *)

  Lemma open_circuit_fresh rs near far rs1 k r c :
    open_circuit rs near far = Some rs1 -> find_region rs far = None ->
    find_region rs1 far = Some (k, r, c) -> c = {| c_near := near; c_alive := true |}.
  Proof.
    revert rs1 k r; induction rs as [|r0 t IH]; intros rs1 k r H F F1; cbn [open_circuit] in H; [discriminate|].
    cbn [find_region] in F.
    destruct (addr_eqb (ip_addr (r_addr r0)) far) eqn:E.
    - destruct (r_circ r0) as [c0|] eqn:Ec; [discriminate|].
      injection H as <-. cbn [find_region r_addr r_circ] in F1. rewrite E in F1. now injection F1 as _ _ <-.
    - destruct (find_region t far) as [[[k' r'] c']|] eqn:Ft; [discriminate|].
      destruct (open_circuit t near far) as [t'|] eqn:O; [|discriminate]. injection H as <-.
      cbn [find_region] in F1. rewrite E in F1.
      destruct (find_region t' far) as [[[k' r'] c']|] eqn:Ft'; [|discriminate].
      injection F1 as _ <- <-. eapply IH; eauto.
  Qed.

  Definition session_ready (ss : list session) (p : proto) (m : msginfo) (i : nat) (ss1 : list session) : Prop :=
    (p_sess p = Some i /\ ss1 = ss) \/
    (p_sess p = None /\ mi_body_ok m = true /\ claim ss (mi_sid m) = Some (i, ss1)).

  Theorem circuit_handshake : forall ss p data src S payload m i ss1 s,
    f2n_get (p_f2n p) (ip_addr src) = None -> fst src = p_client p -> S <> src ->
    parse_socks data = POk (ip_addr S) payload ->
    decode payload = Some m -> name_eqb (mi_name m) n_UseCircuitCode = true ->
    session_ready ss p m i ss1 -> nth_error ss1 i = Some s ->
    (exists r, In r (s_regions s) /\ r_addr r = S) ->
    mi_consumed m = false ->
    let res := recv decode ss p data src in
    rs_outcome res = OForward /\
    rs_sends res = match mi_out m with Some b => [(b, S)] | None => [] end /\
    p_sess (rs_proto res) = Some i /\
    truthy (p_f2n (rs_proto res)) (ip_addr S) = true /\
    exists s' k r' c', nth_error (rs_sessions res) i = Some s' /\
      find_region (s_regions s') (ip_addr S) = Some (k, r', c') /\
      (find_region (s_regions s) (ip_addr S) = None -> c' = {| c_near := src; c_alive := true |}).
  Proof.
    intros ss p data src S payload m i ss1 s Hf Hc Hne Hp Hd Hu Hready Hn [r0 [Hin Hr0]] Hcons res. subst res.
    unfold recv. rewrite Hf, Hc, N.eqb_refl, Hp, (guard_off _ _ Hne). unfold handle. rewrite Hd. cbn [andb].
    rewrite Hu. cbn [p_sess set_f2n].
    assert (Hpre : (match p_sess p with
                    | Some i0 => inl (i0, ss)
                    | None => if mi_body_ok m
                              then match claim ss (mi_sid m) with Some c0 => inl c0 | None => inr OUnclaimed end
                              else inr OExcBody
                    end) = @inl _ outcome (i, ss1)).
    { destruct Hready as [[-> ->]|(-> & -> & ->)]; reflexivity. }
    rewrite Hpre, Hn.
    destruct (open_circuit (s_regions s) src (ip_addr S)) as [rs1|] eqn:O.
    2:{ exfalso. apply (proj1 (open_circuit_none _ _ _) O r0 Hin). now rewrite Hr0. }
    destruct (open_circuit_find _ _ _ _ O) as (k & r' & c' & F). rewrite F.
    rewrite (ucc_needs_no_body _ Hu). cbn [andb]. rewrite Hcons.
    cbn [rs_outcome rs_sends rs_proto rs_sessions set_sess p_sess p_f2n].
    pose proof (find_region_some _ _ _ _ _ F) as (Hk & Hc' & Ha). apply ip_addr_inj in Ha.
    rewrite (ucc_not_closing _ Hu).
    assert (Hlen : (i < length ss1)%nat) by (apply nth_error_Some; congruence).
    repeat split.
    - now rewrite Ha.
    - apply truthy_set_same.
    - eexists _, k, r', c'. rewrite nth_error_upd_same by assumption. cbn [s_regions].
      repeat split; [exact F|]. intros Fn. eapply open_circuit_fresh; eauto.
  Qed.

  (* ---------- discarded datagrams ---------- *)

  Lemma handle_discard : forall ss p outgoing src far data,
    let res := handle decode ss p outgoing src far data in
    is_discard (rs_outcome res) = true ->
    rs_sends res = [] /\ rs_sessions res = ss /\ rs_proto res = p.
  Proof.
    intros ss p outgoing src far data res. subst res. unfold handle, stop.
    destruct (decode data) as [m|]; [|cbn; auto].
    destruct (if outgoing then Some true else validate_udp_msg (mi_name m)) as [[|]|]; [|cbn; auto|cbn; auto].
    destruct (p_sess p) as [i|] eqn:Hs.
    - (* session already claimed *)
      destruct (nth_error ss i) as [s|] eqn:Hn; [|cbn; discriminate].
      destruct (outgoing && name_eqb (mi_name m) n_UseCircuitCode) eqn:Hu.
      + destruct (open_circuit (s_regions s) src far) as [rs1|] eqn:O; [|cbn; discriminate].
        destruct (open_circuit_find _ _ _ _ O) as (k & r & c & F). rewrite F.
        apply andb_prop in Hu as [_ Hu]. rewrite (ucc_needs_no_body _ Hu). cbn [andb].
        destruct (mi_consumed m); cbn; discriminate.
      + destruct (find_region (s_regions s) far) as [[[k r] c]|] eqn:F.
        * destruct (needs_body (mi_name m) && negb (mi_body_ok m)).
          -- cbn. intros _. rewrite session_eta, (upd_nth_same _ _ _ Hn), (set_sess_same _ _ Hs). auto.
          -- destruct (mi_consumed m); cbn; discriminate.
        * cbn. intros _. rewrite session_eta, (upd_nth_same _ _ _ Hn), (set_sess_same _ _ Hs). auto.
    - destruct (outgoing && name_eqb (mi_name m) n_UseCircuitCode) eqn:Hu; [|cbn; auto].
      destruct (mi_body_ok m); [|cbn; auto].
      destruct (claim ss (mi_sid m)) as [[i ss1]|] eqn:C; [|cbn; auto].
      destruct (nth_error ss1 i) as [s|] eqn:Hn; [|cbn; discriminate].
      destruct (open_circuit (s_regions s) src far) as [rs1|] eqn:O; [|cbn; discriminate].
      destruct (open_circuit_find _ _ _ _ O) as (k & r & c & F). rewrite F.
      apply andb_prop in Hu as [_ Hu]. rewrite (ucc_needs_no_body _ Hu). cbn [andb].
      destruct (mi_consumed m); cbn; discriminate.
  Qed.

  (* a discarded datagram produces no send, leaves every session and the association's session
     reference unchanged, and touches far_to_near_map at most at the parsed SOCKS destination *)
  Theorem discard_step : forall ss p data src,
    let res := recv decode ss p data src in
    is_discard (rs_outcome res) = true ->
    rs_sends res = [] /\ rs_sessions res = ss /\
    p_sess (rs_proto res) = p_sess p /\ p_client (rs_proto res) = p_client p /\
    (p_f2n (rs_proto res) = p_f2n p \/
     exists far d, parse_socks data = POk far d /\ f2n_get (p_f2n p) (ip_addr src) = None /\
                   far <> ip_addr src /\ fst src = p_client p /\
                   p_f2n (rs_proto res) = f2n_set (p_f2n p) far src).
  Proof.
    intros ss p data src res. subst res. unfold recv.
    destruct (f2n_get (p_f2n p) (ip_addr src)) as [v|] eqn:Hf.
    - intros H. destruct (handle_discard _ _ _ _ _ _ H) as (H1 & H2 & H3). rewrite H1, H2, H3. auto 6.
    - destruct (fst src =? p_client p) eqn:Hcl; [|cbn; auto 6].
      destruct (parse_socks data) as [| |far d] eqn:Hp; [cbn; auto 6|cbn; auto 6|].
      destruct (addr_eqb far (ip_addr src)) eqn:Hg; [cbn; auto 6|].
      intros H. destruct (handle_discard _ _ _ _ _ _ H) as (H1 & H2 & H3). rewrite H1, H2, H3.
      cbn [p_sess p_client p_f2n set_f2n]. repeat split; try reflexivity.
      right. exists far, d. apply addr_eqb_neq in Hg. apply N.eqb_eq in Hcl. auto 6.
  Qed.

  (* ---------- handle looks at the association only through its session reference ---------- *)

  Ltac destruct_matches :=
    repeat match goal with
           | |- context [match ?x with _ => _ end] => destruct x
           end.

  Lemma handle_proto : forall ss p outgoing src far data,
    let res := handle decode ss p outgoing src far data in
    rs_proto res = set_sess p (p_sess (rs_proto res)).
  Proof.
    intros. subst res. unfold handle, stop. destruct p as [cl f2n [i|]]; cbn [p_sess set_sess];
      destruct_matches; reflexivity.
  Qed.

  Lemma handle_indep : forall ss p p' outgoing src far data,
    p_sess p = p_sess p' ->
    let res := handle decode ss p outgoing src far data in
    let res' := handle decode ss p' outgoing src far data in
    rs_sends res = rs_sends res' /\ rs_sessions res = rs_sessions res' /\
    rs_outcome res = rs_outcome res' /\ p_sess (rs_proto res) = p_sess (rs_proto res').
  Proof.
    intros ss p p' outgoing src far data H res res'. subst res res'. unfold handle, stop. rewrite <- H.
    destruct_matches; cbn; auto.
  Qed.

  (* ---------- what one datagram can do to the sessions ---------- *)

  (* no address acquires a circuit except (possibly) [extra] *)
  Definition grows_only_at (extra : option addr) (rs rs' : list region) : Prop :=
    forall a, find_region rs a = None -> Some a <> extra -> find_region rs' a = None.

  Lemma grows_refl extra rs : grows_only_at extra rs rs.
  Proof. intros a H _. exact H. Qed.

  Lemma handle_sessions : forall ss p outgoing src far data,
    let res := handle decode ss p outgoing src far data in
    (rs_sessions res = ss /\ p_sess (rs_proto res) = p_sess p) \/
    exists i ss1 s1 s2,
      p_sess (rs_proto res) = Some i /\
      ((p_sess p = Some i /\ ss1 = ss) \/
       (p_sess p = None /\ outgoing = true /\ exists sid, claim ss sid = Some (i, ss1))) /\
      nth_error ss1 i = Some s1 /\ rs_sessions res = upd_nth i s2 ss1 /\
      s_id s2 = s_id s1 /\ s_pending s2 = s_pending s1 /\
      grows_only_at (if outgoing then Some far else None) (s_regions s1) (s_regions s2).
  Proof.
    intros ss p outgoing src far data res. subst res. unfold handle, stop.
    destruct (decode data) as [m|]; [|left; cbn; auto].
    destruct (if outgoing then Some true else validate_udp_msg (mi_name m)) as [[|]|]; [|left; cbn; auto|left; cbn; auto].
    (* the part after the session has been determined, for any base list ss1 *)
    assert (Core : forall i ss1 s1,
      nth_error ss1 i = Some s1 ->
      ((p_sess p = Some i /\ ss1 = ss) \/ (p_sess p = None /\ outgoing = true /\ exists sid, claim ss sid = Some (i, ss1))) ->
      let res := match (if outgoing && name_eqb (mi_name m) n_UseCircuitCode
                        then open_circuit (s_regions s1) src far else Some (s_regions s1)) with
        | None => {| rs_sessions := ss1; rs_proto := set_sess p (Some i); rs_sends := []; rs_outcome := OCouldntOpen |}
        | Some rs1 =>
          match find_region rs1 far with
          | None => {| rs_sessions := upd_nth i {| s_id := s_id s1; s_pending := s_pending s1; s_regions := rs1; s_main := s_main s1 |} ss1;
                       rs_proto := set_sess p (Some i); rs_sends := []; rs_outcome := ONoCircuit |}
          | Some (k, r, c) =>
            if needs_body (mi_name m) && negb (mi_body_ok m)
            then {| rs_sessions := upd_nth i {| s_id := s_id s1; s_pending := s_pending s1; s_regions := rs1; s_main := s_main s1 |} ss1;
                    rs_proto := set_sess p (Some i); rs_sends := []; rs_outcome := OExcBody |}
            else if mi_consumed m
            then {| rs_sessions := upd_nth i {| s_id := s_id s1; s_pending := s_pending s1; s_regions := rs1; s_main := s_main s1 |} ss1;
                    rs_proto := set_sess p (Some i); rs_sends := []; rs_outcome := OConsumed |}
            else {| rs_sessions := upd_nth i {| s_id := s_id s1; s_pending := s_pending s1;
                       s_regions := if closes_circuit (mi_name m) then upd_nth k (mark_dead r) rs1 else rs1;
                       s_main := if name_eqb (mi_name m) n_AgentMovementComplete then Some k else s_main s1 |} ss1;
                    rs_proto := set_sess p (Some i);
                    rs_sends := match mi_out m with
                                | None => []
                                | Some b => if outgoing then [(b, r_addr r)] else [(wrap (r_addr r) b, c_near c)]
                                end;
                    rs_outcome := OForward |}
          end
        end in
      exists s2, p_sess (rs_proto res) = Some i /\ rs_sessions res = upd_nth i s2 ss1 /\
                 s_id s2 = s_id s1 /\ s_pending s2 = s_pending s1 /\
                 grows_only_at (if outgoing then Some far else None) (s_regions s1) (s_regions s2)).
    { intros i ss1 s1 Hn Hbase res.
      assert (G1 : forall rs1,
                (if outgoing && name_eqb (mi_name m) n_UseCircuitCode
                 then open_circuit (s_regions s1) src far else Some (s_regions s1)) = Some rs1 ->
                grows_only_at (if outgoing then Some far else None) (s_regions s1) rs1).
      { intros rs1 H. destruct (outgoing && name_eqb (mi_name m) n_UseCircuitCode) eqn:Hu.
        - apply andb_prop in Hu as [-> _]. intros a Ha Hne. eapply open_circuit_other; eauto. congruence.
        - injection H as <-. apply grows_refl. }
      subst res.
      destruct (if outgoing && name_eqb (mi_name m) n_UseCircuitCode
                then open_circuit (s_regions s1) src far else Some (s_regions s1)) as [rs1|] eqn:O.
      2:{ exists s1. cbn. rewrite (upd_nth_same _ _ _ Hn). repeat split; auto using grows_refl. }
      specialize (G1 _ eq_refl).
      destruct (find_region rs1 far) as [[[k r] c]|] eqn:F.
      2:{ eexists. cbn. repeat split; try reflexivity. exact G1. }
      destruct (needs_body (mi_name m) && negb (mi_body_ok m)).
      { eexists. cbn. repeat split; try reflexivity. exact G1. }
      destruct (mi_consumed m).
      { eexists. cbn. repeat split; try reflexivity. exact G1. }
      eexists. cbn [rs_proto rs_sessions set_sess p_sess]. repeat split; try reflexivity. cbn [s_regions].
      destruct (closes_circuit (mi_name m)); [|exact G1].
      intros a Ha Hne. apply mark_dead_other.
      - now apply find_region_some in F.
      - now apply G1. }
    destruct (p_sess p) as [i|] eqn:Hs.
    - destruct (nth_error ss i) as [s|] eqn:Hn; [|left; cbn; auto].
      right. destruct (Core i ss s Hn (or_introl (conj eq_refl eq_refl))) as (s2 & H).
      exists i, ss, s, s2. intuition.
    - destruct (outgoing && name_eqb (mi_name m) n_UseCircuitCode) eqn:Hu; [|left; cbn; auto].
      destruct (mi_body_ok m); [|left; cbn; auto].
      destruct (claim ss (mi_sid m)) as [[i ss1]|] eqn:C; [|left; cbn; auto].
      destruct (claim_some _ _ _ _ C) as (s0 & Hn0 & Hp0 & Hid0 & Hss1).
      assert (Hlen : (i < length ss)%nat) by (apply nth_error_Some; congruence).
      assert (Hn1 : nth_error ss1 i = Some {| s_id := s_id s0; s_pending := false; s_regions := s_regions s0; s_main := s_main s0 |}).
      { rewrite Hss1. now apply nth_error_upd_same. }
      rewrite Hn1. right.
      apply andb_prop in Hu as [Ho Hu]. subst outgoing.
      assert (Hbase : (None = Some i /\ ss1 = ss) \/ (@None nat = None /\ true = true /\ exists sid, claim ss sid = Some (i, ss1))).
      { right. repeat split. eauto. }
      pose proof (Core i ss1 _ Hn1 Hbase) as (s2 & H).
      eexists i, ss1, _, s2. split; [apply H|]. split; [right; repeat split; eauto|]. split; [exact Hn1|]. apply H.
  Qed.

  (* ---------- the same facts for datagram_received ---------- *)

  Lemma recv_proto : forall ss p data src,
    let res := recv decode ss p data src in
    p_client (rs_proto res) = p_client p /\
    (forall a, truthy (p_f2n p) a = true -> truthy (p_f2n (rs_proto res)) a = true).
  Proof.
    intros ss p data src res. subst res. unfold recv.
    destruct (f2n_get (p_f2n p) (ip_addr src)).
    - rewrite handle_proto. cbn. auto.
    - destruct (fst src =? p_client p); [|cbn; auto].
      destruct (parse_socks data) as [| |far d]; [cbn; auto|cbn; auto|].
      destruct (addr_eqb far (ip_addr src)); [cbn; auto|].
      rewrite handle_proto. cbn. split; [reflexivity|]. intros a H. now apply truthy_set_mono.
  Qed.

  Lemma recv_sessions : forall ss p data src,
    let res := recv decode ss p data src in
    (rs_sessions res = ss /\ p_sess (rs_proto res) = p_sess p) \/
    exists i ss1 s1 s2 extra,
      p_sess (rs_proto res) = Some i /\
      ((p_sess p = Some i /\ ss1 = ss) \/ (p_sess p = None /\ exists sid, claim ss sid = Some (i, ss1))) /\
      nth_error ss1 i = Some s1 /\ rs_sessions res = upd_nth i s2 ss1 /\
      s_id s2 = s_id s1 /\ s_pending s2 = s_pending s1 /\
      grows_only_at extra (s_regions s1) (s_regions s2) /\
      (forall a, extra = Some a -> truthy (p_f2n (rs_proto res)) a = true).
  Proof.
    intros ss p data src res. subst res. unfold recv.
    destruct (f2n_get (p_f2n p) (ip_addr src)) as [v|].
    - destruct (handle_sessions ss p false src (ip_addr src) data) as [H|(i & ss1 & s1 & s2 & H1 & H2 & H3 & H4 & H5 & H6 & H7)];
        [left; exact H|right].
      exists i, ss1, s1, s2, None. repeat split; try assumption; [|discriminate].
      destruct H2 as [H2|(H2 & _ & H2')]; [left; exact H2|right; auto].
    - destruct (fst src =? p_client p); [|left; cbn; auto].
      destruct (parse_socks data) as [| |far d]; [left; cbn; auto|left; cbn; auto|].
      destruct (addr_eqb far (ip_addr src)); [left; cbn; auto|].
      destruct (handle_sessions ss (set_f2n p (f2n_set (p_f2n p) far src)) true src far d)
        as [H|(i & ss1 & s1 & s2 & H1 & H2 & H3 & H4 & H5 & H6 & H7)]; [left; exact H|right].
      exists i, ss1, s1, s2, (Some far). repeat split; try assumption.
      + destruct H2 as [H2|(H2 & _ & H2')]; [left; exact H2|right; auto].
      + intros a Ha. injection Ha as <-. rewrite handle_proto. cbn. apply truthy_set_same.
  Qed.

  (* ---------- invariant: circuits of the sessions this association can see have a far_to_near entry ---------- *)

  Definition mine (ss : list session) (p : proto) (i : nat) (s : session) : Prop :=
    nth_error ss i = Some s /\ (p_sess p = Some i \/ s_pending s = true).

  Definition Inv (ss : list session) (p : proto) : Prop :=
    forall i s a, mine ss p i s -> find_region (s_regions s) a <> None -> truthy (p_f2n p) a = true.

  Lemma Inv_no_circuits ss p :
    (forall s r, In s ss -> In r (s_regions s) -> r_circ r = None) -> Inv ss p.
  Proof.
    intros H i s a [Hn _] F. exfalso. apply F. apply find_region_none. intros r Hr.
    unfold region_hit. rewrite (H s r); [now destruct (addr_eqb _ _)| |exact Hr]. eapply nth_error_In; eauto.
  Qed.

  Lemma Inv_step : forall ss p data src,
    Inv ss p -> Inv (rs_sessions (recv decode ss p data src)) (rs_proto (recv decode ss p data src)).
  Proof.
    intros ss p data src HI.
    destruct (recv_proto ss p data src) as [_ Hmono].
    destruct (recv_sessions ss p data src)
      as [[E1 E2]|(i & ss1 & s1 & s2 & extra & H1 & H2 & H3 & H4 & H5 & H6 & H7 & H8)].
    - intros j s a [Hn Hm] F. rewrite E1 in Hn. rewrite E2 in Hm. apply Hmono. apply (HI j s a); [split|]; assumption.
    - intros j s a [Hn Hm] F. rewrite H4 in Hn.
      assert (Hlen : (i < length ss1)%nat) by (apply nth_error_Some; congruence).
      (* the session as the association saw it before this datagram *)
      assert (Hold : forall a', find_region (s_regions s1) a' <> None -> truthy (p_f2n p) a' = true).
      { intros a' Fa. destruct H2 as [[Hs ->]|(Hs & sid & C)].
        - apply (HI i s1 a'); [split; auto|exact Fa].
        - destruct (claim_some _ _ _ _ C) as (s0 & Hn0 & Hp0 & _ & ->).
          rewrite nth_error_upd_same in H3 by (apply nth_error_Some; congruence).
          injection H3 as <-. cbn [s_regions] in Fa. apply (HI i s0 a'); [split; auto|exact Fa]. }
      destruct (Nat.eq_dec j i) as [->|Hji].
      + rewrite nth_error_upd_same in Hn by assumption. injection Hn as <-.
        destruct (find_region (s_regions s1) a) eqn:F1.
        * apply Hmono, Hold. congruence.
        * destruct extra as [x|].
          -- destruct (addr_eqb x a) eqn:E.
             ++ apply addr_eqb_eq in E. subst x. now apply H8.
             ++ apply addr_eqb_neq in E. exfalso. apply F. apply H7; [exact F1|congruence].
          -- exfalso. apply F. apply H7; [exact F1|discriminate].
      + rewrite nth_error_upd_other in Hn by congruence.
        assert (Hp : s_pending s = true).
        { destruct Hm as [Hm|Hm]; [|exact Hm]. rewrite H1 in Hm. congruence. }
        apply Hmono.
        destruct H2 as [[Hs ->]|(Hs & sid & C)].
        * apply (HI j s a); [split; auto|exact F].
        * destruct (claim_some _ _ _ _ C) as (s0 & Hn0 & Hp0 & _ & ->).
          rewrite nth_error_upd_other in Hn by congruence.
          apply (HI j s a); [split; auto|exact F].
  Qed.

  (* ---------- discarded datagrams are isolated ---------- *)

  (* two association states that differ at most by an extra far_to_near entry for X in the second *)
  Definition Rel (X : addr) (p p' : proto) : Prop :=
    p_client p = p_client p' /\ p_sess p = p_sess p' /\
    (forall a, a <> X -> truthy (p_f2n p) a = truthy (p_f2n p') a) /\
    (truthy (p_f2n p) X = true -> truthy (p_f2n p') X = true).

  Lemma f2n_get_truthy m a : f2n_get m a = None <-> truthy m a = false.
  Proof. unfold truthy. destruct (f2n_get m a); split; congruence. Qed.

  Lemma handle_inbound_nocircuit : forall ss p src far data,
    (forall i s, p_sess p = Some i -> nth_error ss i = Some s -> find_region (s_regions s) far = None) ->
    let res := handle decode ss p false src far data in
    rs_sends res = [] /\ rs_sessions res = ss /\ rs_proto res = p.
  Proof.
    intros ss p src far data H res. subst res. unfold handle, stop.
    destruct (decode data) as [m|]; [|cbn; auto].
    destruct (validate_udp_msg (mi_name m)) as [[|]|]; [|cbn; auto|cbn; auto].
    cbn [andb]. destruct (p_sess p) as [i|] eqn:Hs; [|cbn; auto].
    destruct (nth_error ss i) as [s|] eqn:Hn.
    - rewrite (H i s eq_refl Hn). cbn. rewrite session_eta, (upd_nth_same _ _ _ Hn), (set_sess_same _ _ Hs). auto.
    - cbn. rewrite (set_sess_same _ _ Hs). auto.
  Qed.

  Lemma Rel_handle : forall X ss p p' outgoing src far data,
    Rel X p p' ->
    Rel X (rs_proto (handle decode ss p outgoing src far data)) (rs_proto (handle decode ss p' outgoing src far data)).
  Proof.
    intros X ss p p' outgoing src far data (Hc & Hs & Ht & Hx).
    destruct (handle_indep ss p p' outgoing src far data Hs) as (_ & _ & _ & Hps).
    rewrite (handle_proto ss p), (handle_proto ss p'). rewrite Hps.
    destruct p, p'. cbn in *. repeat split; auto.
  Qed.

  Lemma Rel_step : forall X ss p p' data src,
    Rel X p p' -> Inv ss p ->
    (ip_addr src = X -> fst src <> p_client p) ->
    rs_sends (recv decode ss p data src) = rs_sends (recv decode ss p' data src) /\
    rs_sessions (recv decode ss p data src) = rs_sessions (recv decode ss p' data src) /\
    Rel X (rs_proto (recv decode ss p data src)) (rs_proto (recv decode ss p' data src)).
  Proof.
    intros X ss p p' data src HR HI Hsafe.
    pose proof HR as (Hc & Hs & Ht & Hx).
    (* both classify the datagram the same way *)
    assert (Same : f2n_get (p_f2n p) (ip_addr src) = None -> f2n_get (p_f2n p') (ip_addr src) = None ->
                   rs_sends (recv decode ss p data src) = rs_sends (recv decode ss p' data src) /\
                   rs_sessions (recv decode ss p data src) = rs_sessions (recv decode ss p' data src) /\
                   Rel X (rs_proto (recv decode ss p data src)) (rs_proto (recv decode ss p' data src))).
    { intros E E'. unfold recv. rewrite E, E', <- Hc.
      destruct (fst src =? p_client p); [|cbn; auto].
      destruct (parse_socks data) as [| |far d]; [cbn; auto|cbn; auto|].
      destruct (addr_eqb far (ip_addr src)); [cbn; auto|].
      assert (HR2 : Rel X (set_f2n p (f2n_set (p_f2n p) far src)) (set_f2n p' (f2n_set (p_f2n p') far src))).
      { repeat split; cbn [p_client p_sess p_f2n set_f2n]; auto.
        - intros a Ha. destruct (addr_eqb far a) eqn:Efa.
          + apply addr_eqb_eq in Efa. subst a. now rewrite !truthy_set_same.
          + apply addr_eqb_neq in Efa. rewrite !truthy_set_other by assumption. now apply Ht.
        - intros H. destruct (addr_eqb far X) eqn:Efx.
          + apply addr_eqb_eq in Efx. subst. apply truthy_set_same.
          + apply addr_eqb_neq in Efx. rewrite truthy_set_other in * by assumption. now apply Hx. }
      destruct (handle_indep ss _ _ true src far d (proj1 (proj2 HR2))) as (A & B & _ & _).
      split; [exact A|split; [exact B|]]. now apply Rel_handle. }
    assert (Both : forall v v', f2n_get (p_f2n p) (ip_addr src) = Some v -> f2n_get (p_f2n p') (ip_addr src) = Some v' ->
                   rs_sends (recv decode ss p data src) = rs_sends (recv decode ss p' data src) /\
                   rs_sessions (recv decode ss p data src) = rs_sessions (recv decode ss p' data src) /\
                   Rel X (rs_proto (recv decode ss p data src)) (rs_proto (recv decode ss p' data src))).
    { intros v v' E E'. unfold recv. rewrite E, E'.
      destruct (handle_indep ss p p' false src (ip_addr src) data Hs) as (A & B & _ & _).
      split; [exact A|split; [exact B|]]. now apply Rel_handle. }
    destruct (f2n_get (p_f2n p) (ip_addr src)) as [v|] eqn:E;
      destruct (f2n_get (p_f2n p') (ip_addr src)) as [v'|] eqn:E'.
    - eapply Both; eauto.
    - (* known to p, unknown to p': impossible *)
      exfalso. apply f2n_get_truthy in E'.
      assert (T : truthy (p_f2n p) (ip_addr src) = true) by (unfold truthy; now rewrite E).
      destruct (addr_eqb (ip_addr src) X) eqn:EX.
      + apply addr_eqb_eq in EX. rewrite EX in *. rewrite (Hx T) in E'. discriminate.
      + apply addr_eqb_neq in EX. rewrite (Ht _ EX) in T. congruence.
    - (* unknown to p, known to p': the source is X, a far host without a circuit *)
      apply f2n_get_truthy in E.
      assert (T' : truthy (p_f2n p') (ip_addr src) = true) by (unfold truthy; now rewrite E').
      destruct (addr_eqb (ip_addr src) X) eqn:EX.
      2:{ apply addr_eqb_neq in EX. rewrite <- (Ht _ EX) in T'. congruence. }
      apply addr_eqb_eq in EX.
      assert (Hne : (fst src =? p_client p) = false) by (apply N.eqb_neq, Hsafe, EX).
      assert (Hnone : forall i s, p_sess p' = Some i -> nth_error ss i = Some s ->
                                  find_region (s_regions s) (ip_addr src) = None).
      { intros i s Hi Hn. destruct (find_region (s_regions s) (ip_addr src)) eqn:F; [|reflexivity].
        exfalso. assert (truthy (p_f2n p) (ip_addr src) = true); [|congruence].
        apply (HI i s); [split; [exact Hn|left; congruence]|congruence]. }
      destruct (handle_inbound_nocircuit ss p' src (ip_addr src) data Hnone) as (A & B & C).
      unfold recv. apply f2n_get_truthy in E. rewrite E, E', Hne. cbn [stop rs_sends rs_sessions rs_proto].
      rewrite A, B, C. auto.
    - eapply Same; eauto.
  Qed.

  Lemma Inv_run : forall h ss p, Inv ss p ->
    let '(ss', p', _) := run decode ss p h in Inv ss' p' /\ p_client p' = p_client p.
  Proof.
    induction h as [|[d src] t IH]; intros ss p HI; cbn [run]; [auto|].
    pose proof (Inv_step ss p d src HI) as HI'. specialize (IH _ _ HI').
    destruct (run decode (rs_sessions (recv decode ss p d src)) (rs_proto (recv decode ss p d src)) t) as [[ss' p'] out].
    destruct IH as [I1 I2]. split; [exact I1|]. rewrite I2. apply recv_proto.
  Qed.

  Lemma Rel_run : forall X h ss p p',
    Rel X p p' -> Inv ss p ->
    (forall e, In e h -> ip_addr (snd e) = X -> fst (snd e) <> p_client p) ->
    let '(ssA, pA, outA) := run decode ss p h in
    let '(ssB, pB, outB) := run decode ss p' h in
    outA = outB /\ ssA = ssB /\ Rel X pA pB.
  Proof.
    induction h as [|[d src] t IH]; intros ss p p' HR HI Hsafe; cbn [run]; [auto|].
    destruct (Rel_step X ss p p' d src HR HI) as (A & B & C).
    { apply (Hsafe (d, src)). now left. }
    pose proof (Inv_step ss p d src HI) as HI'.
    specialize (IH _ _ _ C HI'). rewrite <- B.
    assert (Hs' : forall e, In e t -> ip_addr (snd e) = X ->
                            fst (snd e) <> p_client (rs_proto (recv decode ss p d src))).
    { intros e He. rewrite (proj1 (recv_proto ss p d src)). apply Hsafe. now right. }
    specialize (IH Hs').
    destruct (run decode (rs_sessions (recv decode ss p d src)) (rs_proto (recv decode ss p d src)) t) as [[ssA pA] outA].
    destruct (run decode (rs_sessions (recv decode ss p d src)) (rs_proto (recv decode ss p' d src)) t) as [[ssB pB] outB].
    destruct IH as (I1 & I2 & I3). rewrite A, I1. auto.
  Qed.

  (* Since /repo dc82116 a datagram addressed to its own sender leaves no trace at all.  What is left:
     a discarded, well-framed client datagram whose destination is ANOTHER address on the client's IP
     makes later datagrams from that other address count as inbound.  [dest_harmless] excludes exactly
     that: it only speaks about a destination different from the sender, of a datagram sent from the
     client's IP, and only about later datagrams arriving from that destination on the client's IP. *)
  Definition dest_harmless (client : N) (data : list N) (src : ipaddr) (h2 : list (list N * ipaddr)) : Prop :=
    forall far d, parse_socks data = POk far d -> far <> ip_addr src -> fst src = client ->
    forall e, In e h2 -> ip_addr (snd e) = far -> fst (snd e) <> client.

  (* ... and it holds outright when the client uses a single UDP address *)
  Definition one_viewer_address (client : N) (h : list (list N * ipaddr)) : Prop :=
    exists V, forall e, In e h -> fst (snd e) = client -> snd e = V.

  Lemma one_viewer_harmless client data src h2 :
    one_viewer_address client ((data, src) :: h2) -> dest_harmless client data src h2.
  Proof.
    intros [V HV] far d _ Hne Hcl e He Ha Hce.
    assert (E1 : src = V) by (apply (HV (data, src)); [now left|exact Hcl]).
    assert (E2 : snd e = V) by (apply HV; [now right|exact Hce]).
    apply Hne. rewrite <- Ha, E2, E1. reflexivity.
  Qed.

  Theorem discard_isolated_from : forall ss p data src h2,
    Inv ss p ->
    is_discard (rs_outcome (recv decode ss p data src)) = true ->
    dest_harmless (p_client p) data src h2 ->
    rs_sends (recv decode ss p data src) = [] /\
    let '(ssA, pA, outA) := run decode (rs_sessions (recv decode ss p data src)) (rs_proto (recv decode ss p data src)) h2 in
    let '(ssB, pB, outB) := run decode ss p h2 in
    outA = outB /\ ssA = ssB /\ p_sess pA = p_sess pB.
  Proof.
    intros ss p data src h2 HI Hd Hsafe.
    destruct (discard_step ss p data src Hd) as (S1 & S2 & S3 & S4 & S5).
    split; [exact S1|]. rewrite S2.
    assert (exists X, Rel X p (rs_proto (recv decode ss p data src)) /\
                      forall e, In e h2 -> ip_addr (snd e) = X -> fst (snd e) <> p_client p) as (X & HR & HX).
    { destruct S5 as [E|(far & d & Hp & _ & Hne & Hcl & E)].
      - exists (HDom [], 0). split.
        + repeat split; auto; rewrite E; auto.
        + intros e _ He. destruct e as [? [? ?]]. discriminate.
      - exists far. split.
        + repeat split; auto; rewrite E.
          * intros a Ha. rewrite truthy_set_other; auto.
          * intros _. apply truthy_set_same.
        + intros e He Ha. eapply Hsafe; eauto. }
    pose proof (Rel_run X h2 ss p _ HR HI HX) as R.
    destruct (run decode ss p h2) as [[ssB pB] outB].
    destruct (run decode ss (rs_proto (recv decode ss p data src)) h2) as [[ssA pA] outA].
    destruct R as (R1 & R2 & R3). repeat split; auto. symmetry. apply R3.
  Qed.

  Lemma run_app : forall h1 h2 ss p,
    run decode ss p (h1 ++ h2) =
    let '(ss1, p1, o1) := run decode ss p h1 in
    let '(ss2, p2, o2) := run decode ss1 p1 h2 in (ss2, p2, o1 ++ o2).
  Proof.
    induction h1 as [|[d src] t IH]; intros h2 ss p; cbn [run app].
    - destruct (run decode ss p h2) as [[? ?] ?]. reflexivity.
    - rewrite IH.
      destruct (run decode (rs_sessions (recv decode ss p d src)) (rs_proto (recv decode ss p d src)) t) as [[ss1 p1] o1].
      destruct (run decode ss1 p1 h2) as [[ss2 p2] o2]. reflexivity.
  Qed.

  (* the statement over whole histories: deleting a discarded datagram from a history changes no other
     delivery and not the final session state *)
  Theorem discard_isolated : forall ss p h1 data src h2,
    Inv ss p ->
    let '(ss1, p1, out1) := run decode ss p h1 in
    is_discard (rs_outcome (recv decode ss1 p1 data src)) = true ->
    dest_harmless (p_client p) data src h2 ->
    let '(ssA, pA, outA) := run decode ss p (h1 ++ (data, src) :: h2) in
    let '(ssB, pB, outB) := run decode ss p (h1 ++ h2) in
    exists tail, outA = out1 ++ [] :: tail /\ outB = out1 ++ tail /\ ssA = ssB /\ p_sess pA = p_sess pB.
  Proof.
    intros ss p h1 data src h2 HI.
    rewrite !run_app. pose proof (Inv_run h1 ss p HI) as HI1.
    destruct (run decode ss p h1) as [[ss1 p1] out1]. destruct HI1 as [HI1 Hcl].
    intros Hd Hsafe. rewrite <- Hcl in Hsafe.
    destruct (discard_isolated_from ss1 p1 data src h2 HI1 Hd Hsafe) as (S1 & R).
    cbn [run]. rewrite S1.
    destruct (run decode (rs_sessions (recv decode ss1 p1 data src)) (rs_proto (recv decode ss1 p1 data src)) h2) as [[ssA pA] outA].
    destruct (run decode ss1 p1 h2) as [[ssB pB] outB].
    destruct R as (R1 & R2 & R3). exists outB. subst outA. auto.
  Qed.

  (* no side condition at all when every datagram from the client's IP comes from one address *)
  Theorem discard_isolated_one_viewer : forall ss p h1 data src h2,
    Inv ss p ->
    let '(ss1, p1, out1) := run decode ss p h1 in
    is_discard (rs_outcome (recv decode ss1 p1 data src)) = true ->
    one_viewer_address (p_client p) ((data, src) :: h2) ->
    let '(ssA, pA, outA) := run decode ss p (h1 ++ (data, src) :: h2) in
    let '(ssB, pB, outB) := run decode ss p (h1 ++ h2) in
    exists tail, outA = out1 ++ [] :: tail /\ outB = out1 ++ tail /\ ssA = ssB /\ p_sess pA = p_sess pB.
  Proof.
    intros ss p h1 data src h2 HI. pose proof (discard_isolated ss p h1 data src h2 HI) as H.
    destruct (run decode ss p h1) as [[ss1 p1] out1]. intros Hd Hone.
    apply H; [exact Hd|]. now apply one_viewer_harmless.
  Qed.

  (* ---------- never more than one send per datagram, whatever the datagram ---------- *)

  Theorem at_most_once : forall ss p data src, (length (rs_sends (recv decode ss p data src)) <= 1)%nat.
  Proof.
    intros. unfold recv, handle, stop. destruct_matches; cbn; lia.
  Qed.

  (* ---------- two regions: the lookup finds the region that owns the address ---------- *)

  Theorem two_regions_out : forall ss p data src payload m i s k r c,
    NoDup (map r_addr (s_regions s)) ->
    nth_error (s_regions s) k = Some r -> r_circ r = Some c ->
    f2n_get (p_f2n p) (ip_addr src) = None -> fst src = p_client p -> r_addr r <> src ->
    parse_socks data = POk (ip_addr (r_addr r)) payload ->
    decode payload = Some m -> p_sess p = Some i -> nth_error ss i = Some s ->
    name_eqb (mi_name m) n_UseCircuitCode = false -> body_fine m -> mi_consumed m = false ->
    rs_sends (recv decode ss p data src) = match mi_out m with Some b => [(b, r_addr r)] | None => [] end.
  Proof.
    intros ss p data src payload m i s k r c Hnd Hk Hc Hf Hcl Hne Hp Hd Hs Hn Hu Hb Hcons.
    pose proof (find_region_unique _ _ k r c Hnd Hk Hc eq_refl) as F.
    exact (proj1 (proj2 (viewer_to_sim ss p data src (r_addr r) payload m i s k r c Hf Hcl Hne Hp Hd Hs Hn Hu F Hb Hcons))).
  Qed.

  Theorem two_regions_in : forall ss p data v m i s k r c,
    NoDup (map r_addr (s_regions s)) ->
    nth_error (s_regions s) k = Some r -> r_circ r = Some c ->
    f2n_get (p_f2n p) (ip_addr (r_addr r)) = Some v ->
    decode data = Some m -> validate_udp_msg (mi_name m) = Some true ->
    p_sess p = Some i -> nth_error ss i = Some s -> body_fine m -> mi_consumed m = false ->
    rs_sends (recv decode ss p data (r_addr r)) =
      match mi_out m with Some b => [(wrap (r_addr r) b, c_near c)] | None => [] end.
  Proof.
    intros ss p data v m i s k r c Hnd Hk Hc Hf Hd Hv Hs Hn Hb Hcons.
    pose proof (find_region_unique _ _ k r c Hnd Hk Hc eq_refl) as F.
    exact (proj1 (proj2 (sim_to_viewer ss p data (r_addr r) v m i s k r c Hf Hd Hv Hs Hn F Hb Hcons))).
  Qed.

  (* with the invariant, the far_to_near entry of a circuit's address is there by construction *)
  Theorem sim_to_viewer_reachable : forall ss p data S m i s k r c,
    Inv ss p ->
    decode data = Some m -> validate_udp_msg (mi_name m) = Some true ->
    p_sess p = Some i -> nth_error ss i = Some s ->
    find_region (s_regions s) (ip_addr S) = Some (k, r, c) ->
    body_fine m -> mi_consumed m = false ->
    rs_outcome (recv decode ss p data S) = OForward /\
    rs_sends (recv decode ss p data S) = match mi_out m with Some b => [(wrap S b, c_near c)] | None => [] end.
  Proof.
    intros ss p data S m i s k r c HI Hd Hv Hs Hn F Hb Hcons.
    assert (T : truthy (p_f2n p) (ip_addr S) = true).
    { apply (HI i s); [split; auto|congruence]. }
    unfold truthy in T. destruct (f2n_get (p_f2n p) (ip_addr S)) as [v|] eqn:E; [|discriminate].
    destruct (sim_to_viewer ss p data S v m i s k r c E Hd Hv Hs Hn F Hb Hcons) as (A & B & _). auto.
  Qed.

  (* ---------- two sessions / two associations ---------- *)

  Theorem other_sessions_untouched : forall ss p data src j,
    p_sess (rs_proto (recv decode ss p data src)) <> Some j ->
    nth_error (rs_sessions (recv decode ss p data src)) j = nth_error ss j.
  Proof.
    intros ss p data src j Hj.
    destruct (recv_sessions ss p data src)
      as [[E1 _]|(i & ss1 & s1 & s2 & extra & H1 & H2 & H3 & H4 & _)].
    - now rewrite E1.
    - rewrite H4. rewrite H1 in Hj. rewrite nth_error_upd_other by congruence.
      destruct H2 as [[_ ->]|(_ & sid & C)]; [reflexivity|].
      destruct (claim_some _ _ _ _ C) as (s0 & _ & _ & _ & ->).
      apply nth_error_upd_other. congruence.
  Qed.

  Lemma nth_error_upd_hit {A} (l : list A) n x y : nth_error l n = Some y -> nth_error (upd_nth n x l) n = Some x.
  Proof. intros H. apply nth_error_upd_same. apply nth_error_Some. congruence. Qed.

  Theorem own_session_only : forall ss ss' p data src i,
    p_sess p = Some i -> nth_error ss i = nth_error ss' i ->
    rs_sends (recv decode ss p data src) = rs_sends (recv decode ss' p data src) /\
    rs_outcome (recv decode ss p data src) = rs_outcome (recv decode ss' p data src) /\
    rs_proto (recv decode ss p data src) = rs_proto (recv decode ss' p data src) /\
    nth_error (rs_sessions (recv decode ss p data src)) i = nth_error (rs_sessions (recv decode ss' p data src)) i.
  Proof.
    intros ss ss' p data src i Hs Hn.
    assert (H : forall p0 outgoing far d, p_sess p0 = Some i ->
      rs_sends (handle decode ss p0 outgoing src far d) = rs_sends (handle decode ss' p0 outgoing src far d) /\
      rs_outcome (handle decode ss p0 outgoing src far d) = rs_outcome (handle decode ss' p0 outgoing src far d) /\
      rs_proto (handle decode ss p0 outgoing src far d) = rs_proto (handle decode ss' p0 outgoing src far d) /\
      nth_error (rs_sessions (handle decode ss p0 outgoing src far d)) i =
      nth_error (rs_sessions (handle decode ss' p0 outgoing src far d)) i).
    { intros p0 outgoing far d Hs0. unfold handle, stop. rewrite Hs0, <- Hn.
      destruct (nth_error ss i) as [s|] eqn:E; symmetry in Hn;
        destruct_matches; cbn [rs_sends rs_outcome rs_proto rs_sessions]; repeat split; try congruence;
        rewrite ?(nth_error_upd_hit _ _ _ _ E), ?(nth_error_upd_hit _ _ _ _ Hn); congruence. }
    unfold recv. destruct (f2n_get (p_f2n p) (ip_addr src)); [now apply H|].
    destruct (fst src =? p_client p); [|cbn; auto].
    destruct (parse_socks data) as [| |far d]; [cbn; auto|cbn; auto|].
    destruct (addr_eqb far (ip_addr src)); [cbn; auto|]. now apply H.
  Qed.

  (* a datagram handled by association b - valid or garbage - leaves association a and a's claimed
     session exactly as they were, hence a's next delivery is what it would have been *)
  Theorem two_sessions : forall w a b data src pa i s,
    a <> b -> nth_error (w_protos w) a = Some pa -> p_sess pa = Some i ->
    nth_error (w_sessions w) i = Some s -> s_pending s = false ->
    (forall pb, nth_error (w_protos w) b = Some pb -> p_sess pb <> Some i) ->
    let w' := fst (fst (wstep decode w b data src)) in
    nth_error (w_protos w') a = Some pa /\
    nth_error (w_sessions w') i = Some s /\
    forall d' src', snd (fst (wstep decode w' a d' src')) = snd (fst (wstep decode w a d' src')).
  Proof.
    intros w a b data src pa i s Hab Ha Hs Hn Hp Hb w'. subst w'.
    assert (Ew : fst (fst (wstep decode w b data src)) =
                 match nth_error (w_protos w) b with
                 | None => w
                 | Some pb => {| w_sessions := rs_sessions (recv decode (w_sessions w) pb data src);
                                 w_protos := upd_nth b (rs_proto (recv decode (w_sessions w) pb data src)) (w_protos w) |}
                 end).
    { unfold wstep. destruct (nth_error (w_protos w) b); reflexivity. }
    rewrite Ew. clear Ew. destruct (nth_error (w_protos w) b) as [pb|] eqn:Eb.
    2:{ auto. }
    cbn [fst snd w_protos w_sessions].
    assert (Hj : p_sess (rs_proto (recv decode (w_sessions w) pb data src)) <> Some i).
    { destruct (recv_sessions (w_sessions w) pb data src)
        as [[_ E2]|(i' & ss1 & s1 & s2 & extra & H1 & H2 & _)].
      - rewrite E2. now apply Hb.
      - rewrite H1. destruct H2 as [[H2 _]|(_ & sid & C)].
        + rewrite <- H2. now apply Hb.
        + destruct (claim_some _ _ _ _ C) as (s0 & Hn0 & Hp0 & _).
          intros E. injection E as ->. congruence. }
    pose proof (other_sessions_untouched (w_sessions w) pb data src i Hj) as Hsame.
    assert (Ha' : nth_error (upd_nth b (rs_proto (recv decode (w_sessions w) pb data src)) (w_protos w)) a = Some pa).
    { rewrite nth_error_upd_other by congruence. exact Ha. }
    split; [exact Ha'|]. split; [now rewrite Hsame|].
    intros d' src'. unfold wstep. cbn [w_protos w_sessions]. rewrite Ha', Ha. cbn [fst snd].
    apply own_session_only with (i := i); [exact Hs|exact Hsame].
  Qed.
End Routing.

(* ====================================================================================== *)
(* Concrete instances: a toy decoder, one session with two regions, one association. *)

Definition toy_decode (d : list N) : option msginfo :=
  match d with
  | [] => None
  | 1 :: _ => Some {| mi_name := n_UseCircuitCode; mi_body_ok := true; mi_sid := 7; mi_consumed := false; mi_out := Some d |}
  | 2 :: _ => Some {| mi_name := n_CloseCircuit; mi_body_ok := true; mi_sid := 0; mi_consumed := false; mi_out := Some d |}
  | 3 :: _ => Some {| mi_name := [84; 101; 108; 101; 112; 111; 114; 116; 70; 105; 110; 105; 115; 104] (* TeleportFinish *);
                      mi_body_ok := true; mi_sid := 0; mi_consumed := false; mi_out := Some d |}
  | 255 :: _ => None
  | _ => Some {| mi_name := n_ChatFromViewer; mi_body_ok := true; mi_sid := 0; mi_consumed := false; mi_out := Some d |}
  end.

Definition toy_V : ipaddr := (2130706433, 50000).    (* 127.0.0.1:50000, the viewer *)
Definition toy_S : ipaddr := (167772165, 13000).     (* 10.0.0.5:13000, the simulator *)
Definition toy_S2 : ipaddr := (167772166, 13001).
Definition toy_sessions : list session :=
  [{| s_id := 7; s_pending := true;
      s_regions := [{| r_addr := toy_S; r_circ := None |}; {| r_addr := toy_S2; r_circ := None |}];
      s_main := None |}].
Definition toy_proto : proto := {| p_client := 2130706433; p_f2n := []; p_sess := None |}.

Lemma toy_Inv : Inv toy_sessions toy_proto.
Proof.
  apply Inv_no_circuits. intros s r [<-|[]] [<-|[<-|[]]]; reflexivity.
Qed.

Definition toy_V2 : ipaddr := (2130706433, 50001).   (* 127.0.0.1:50001, a second local port *)

(* regression on the witness of finding #20 (before /repo dc82116 the last datagram was not forwarded):
   a datagram addressed to the viewer's own address is now discarded without a trace *)
Lemma discard_isolated_defect20_regression :
  let ss := toy_sessions in let p := toy_proto in
  let h1 := [(wrap toy_S [1], toy_V)] in let h2 := [(wrap toy_S [9], toy_V)] in
  is_discard (rs_outcome (let '(ss1, p1, _) := run toy_decode ss p h1 in
                          recv toy_decode ss1 p1 (wrap toy_V [9]) toy_V)) = true /\
  snd (run toy_decode ss p (h1 ++ (wrap toy_V [9], toy_V) :: h2)) = [[([1], toy_S)]; []; [([9], toy_S)]] /\
  snd (run toy_decode ss p (h1 ++ h2)) = [[([1], toy_S)]; [([9], toy_S)]] /\
  p_f2n (snd (fst (run toy_decode ss p (h1 ++ [(wrap toy_V [9], toy_V)])))) = p_f2n (snd (fst (run toy_decode ss p h1))).
Proof. vm_compute. repeat split. Qed.

(* why a residual hypothesis is still needed: the FULL statement (no [dest_harmless]) is false of the
   repaired code too - a discarded datagram from port 50000 addressed to the client's own second port
   50001 makes the proxy take the next, valid, datagram from port 50001 for inbound traffic *)
Theorem discard_isolated_two_ports_refuted :
  exists decode ss p h1 data src h2,
    Inv ss p /\
    is_discard (rs_outcome (let '(ss1, p1, _) := run decode ss p h1 in recv decode ss1 p1 data src)) = true /\
    snd (run decode ss p (h1 ++ (data, src) :: h2)) = [[([1], toy_S)]; []; []] /\
    snd (run decode ss p (h1 ++ h2)) = [[([1], toy_S)]; [([9], toy_S)]].
Proof.
  exists toy_decode, toy_sessions, toy_proto,
         [(wrap toy_S [1], toy_V)], (wrap toy_V2 [9]), toy_V, [(wrap toy_S [9], toy_V2)].
  split; [exact toy_Inv|]. vm_compute. repeat split.
Qed.
