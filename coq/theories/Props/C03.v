(* C03 - Zero-coding is a lossless, bounded, canonical run-length code.
   Property theorems only: each is closed by [exact] and followed by
   [Print Assumptions].  Model: ZC/ZeroCode.v (tied to
   udpserializer.zero_code_compress / udpdeserializer.zero_code_expand by the
   correspondence check of harness/props/c03.py). *)
From Coq Require Import NArith List Bool.
From HV Require Import ZC.ZeroCode ZC.ZeroCodeProofs.
Import ListNotations.
Open Scope N_scope.

(* lossless: for every byte string up to the decoder's cap *)
Theorem C03_expand_compress : forall s,
  bytes_ok s = true -> N.of_nat (length s) <= ZC_CAP ->
  zc_expand (zc_compress s) = Some s.
Proof. exact expand_compress. Qed.
Print Assumptions C03_expand_compress.

(* ... and without the cap, for every byte string of any length *)
Theorem C03_expand_compress_nocap : forall s,
  bytes_ok s = true -> zc_exp_nocap false (zc_compress s) = s.
Proof. exact nocap_compress. Qed.
Print Assumptions C03_expand_compress_nocap.

(* canonical output: every 0 followed by a count 1..255, no wrap-around form,
   runs maximal; and output consists of bytes *)
Theorem C03_compress_canonical : forall s,
  bytes_ok s = true ->
  canonical (zc_compress s) = true /\ bytes_ok (zc_compress s) = true.
Proof. intros s H; split; [exact (compress_canonical s H) | exact (compress_bytes s H)]. Qed.
Print Assumptions C03_compress_canonical.

(* the decoder agrees with the reference semantics on every input it accepts,
   wrap-around runs and a trailing lone zero included (see zc_ref) *)
Theorem C03_expand_ref : forall e r, zc_expand e = Some r -> r = zc_ref e.
Proof. exact expand_ref. Qed.
Print Assumptions C03_expand_ref.

(* ... and accepts every input whose meaning fits under the cap *)
Theorem C03_expand_defined : forall e,
  N.of_nat (length (zc_ref e)) <= ZC_CAP -> zc_expand e = Some (zc_ref e).
Proof. exact expand_defined. Qed.
Print Assumptions C03_expand_defined.

(* bounded: never returns more than cap + one maximal step *)
Theorem C03_expand_cap : forall e r,
  bytes_ok e = true -> zc_expand e = Some r -> N.of_nat (length r) <= ZC_CAP + 256.
Proof. exact expand_cap. Qed.
Print Assumptions C03_expand_cap.

Theorem C03_expand_refuses : forall e,
  bytes_ok e = true -> ZC_CAP + 256 < N.of_nat (length (zc_ref e)) -> zc_expand e = None.
Proof. exact expand_refuses. Qed.
Print Assumptions C03_expand_refuses.

(* canonical encodings are exactly the encoder's outputs (used by C02) *)
Theorem C03_canonical_unique : forall e,
  canonical e = true -> zc_compress (zc_ref e) = e.
Proof. exact canonical_unique. Qed.
Print Assumptions C03_canonical_unique.

(* header peek used by the deserializer: expanding a prefix of the encoded
   bytes gives a prefix of the full expansion, at least half as long *)
Theorem C03_peek_prefix : forall e n,
  exists rest, zc_ref e = zc_ref (firstn n e) ++ rest.
Proof. exact ref_prefix. Qed.
Print Assumptions C03_peek_prefix.

Theorem C03_peek_growth : forall e,
  bytes_ok e = true -> (length e <= 2 * length (zc_ref e))%nat.
Proof. exact ref_growth. Qed.
Print Assumptions C03_peek_growth.

(* non-vacuity: concrete non-trivial instances meeting the hypotheses *)
Example C03_ex_wrap : zc_expand [0; 0; 3; 7; 0] = Some (zeros 259 ++ [7; 0]).
Proof. vm_compute. reflexivity. Qed.
Example C03_ex_compress :
  zc_compress (1 :: zeros 300 ++ [2; 0]) = [1; 0; 255; 0; 45; 2; 0; 1]
  /\ canonical [1; 0; 255; 0; 45; 2; 0; 1] = true
  /\ bytes_ok (1 :: zeros 300 ++ [2; 0]) = true.
Proof. vm_compute. repeat split. Qed.
Example C03_ex_refuse : zc_expand (1 :: repeat 0 100) = None
  /\ ZC_CAP + 256 < N.of_nat (length (zc_ref (1 :: repeat 0 100))).
Proof. vm_compute. split; reflexivity. Qed.
